import Pfst.ReconcileLemmas
/-!
Correctness of the reconcile trace (`Pfst/Reconcile.lean`): replaying the emitted operations on what the output tree holds
at a slot yields the structure of the edited node.  Mutual structural induction over the edited tree, following the call
structure `recNode / recFields / recPlain / recSliceGo (/ recPair)`; the flattened `while` / `for` loops of `recurse_slice`
and `recurse_slice_dict` are handled by one invariant (`SI`: the predicted output list agrees with the list at loop entry
beyond the current run, the elements of a run copied from the marked tree are put again on their own).

Side conditions (`wfN`, decidable, defined in the model file): every in-tree origin names a node of the marked tree of the
same kind whose fields have the same shape (same number of fields, list fields with the same compatibility class and mode),
(no condition on primitives: the repaired comparison is exact, `pyNe_false_eq`), nodes of other trees carry a tree id `≠ 0`, list
elements are not lists, `Dict` pairs have one kind, a key that is a node or `None` and an origin consistent with key and
value (`wfPs`, `pairCons`).
-/
namespace Pfst.Reconcile

/-! ### paths into the marked tree -/

theorem getAt_append (t : T) (p q : Path) : getAt t (p ++ q) = (getAt t p).bind (fun c => getAt c q) := by
  induction p generalizing t with
  | nil => simp [getAt]
  | cons i p ih =>
    simp only [List.cons_append, getAt]
    cases h : t.kids[i]? with
    | none => simp
    | some c => simp [ih]

theorem markAt_nil (mark : T) : markAt mark [] = mark := by simp [markAt, getAt]

theorem markAt_snoc (mark : T) (q : Path) (i : Nat) :
    markAt mark (q ++ [i]) = ((markAt mark q).kids[i]?).getD .nil := by
  simp only [markAt, getAt_append]
  cases h : getAt mark q with
  | none => simp [T.kids]
  | some c =>
    simp only [Option.bind_some, Option.getD_some, getAt]
    cases c.kids[i]? <;> simp

/-- The path (in the marked tree) of the node whose children a recursion with parent `np` is visiting. -/
def NP.base : NP → Option Path
  | .none => Option.some []
  | .fst 0 q => Option.some q
  | _ => Option.none

/-- What the output tree holds at a slot: under an in-tree parent the marked node at that path, under a node that was put
as a pure AST the edited node itself. -/
def slot (mark : T) (np : NP) (rel : Path) (ok c : T) : Prop :=
  match np.base with
  | some q => ok = erase (markAt mark (q ++ rel))
  | none => ok = erase c

/-- `recNode` starts with a put at the slot itself (so the previous content of the slot is irrelevant). -/
def putsFirst (np : NP) (rel : Path) : T → Bool
  | .node (.foreign true _ _ _) _ _ => true
  | .node (.tree l) _ _ => !(inPlace np rel l)
  | .node _ _ _ => np != .ast
  | .nil => np != .ast
  | .prim _ => np != .ast
  | .many _ _ _ => false

/-- an element of a run copied from the marked tree: an in-tree list element that is not in place at `i` -/
def runElem (np : NP) (fi i : Nat) : T → Bool
  | .node (.tree (some ⟨pp, cfi, some c⟩)) _ _ => !(inPlace np [fi, i] (some ⟨pp, cfi, some c⟩))
  | _ => false

theorem runElem_putsFirst (np : NP) (fi i : Nat) (x : T) (h : runElem np fi i x = true) : putsFirst np [fi, i] x = true := by
  cases x with
  | node o k cs =>
    cases o with
    | tree l =>
      cases l with
      | none => simp [runElem] at h
      | some l =>
        obtain ⟨a, b, c⟩ := l
        cases c with
        | none => simp [runElem] at h
        | some c => simpa [runElem, putsFirst] using h
    | _ => simp [runElem] at h
  | _ => simp [runElem] at h

/-- key and value of a `Dict` pair are put again whatever the pair slot holds -/
def kidsFree (npkv : NP) : List T → Bool
  | [k, v] => (k.isNil || putsFirst npkv [0] k) && putsFirst npkv [1] v
  | _ => false

/-- the element is rewritten whatever the output list holds at `i` (for a `Dict` pair: its key and value are) -/
def elemFree (np : NP) (fi : Nat) (dict : Bool) (i : Nat) (x : T) : Bool :=
  if dict then kidsFree (np.ext [fi, i]) x.kids else putsFirst np [fi, i] x

theorem inPlace_base (np : NP) (rel : Path) (l : Option Loc) (h : inPlace np rel l = true) :
    ∃ q, np.base = some q ∧ qOf l = q ++ rel := by
  cases np with
  | none =>
    cases l with
    | none => simp [inPlace] at h; exact ⟨[], rfl, by simp [qOf, h]⟩
    | some l => simp [inPlace] at h
  | ast => simp [inPlace] at h
  | fst tid pq =>
    cases tid with
    | zero =>
      cases l with
      | none => simp [inPlace] at h
      | some l =>
        simp only [inPlace, Bool.and_eq_true, beq_iff_eq] at h
        exact ⟨pq, rfl, by simp [qOf, Loc.full, h.1, h.2]⟩
    | succ t => cases l <;> simp [inPlace] at h

/-! ### slot hypotheses of the list recursions -/

def scalarSlot (np : NP) (ok c : T) : Prop := (np = .ast → ok = c) ∧ (np ≠ .ast → pyNe c ok = false → c = ok)

def plainSlots (mark : T) (np : NP) (fi : Nat) : Nat → List T → List T → Prop
  | j, ok :: oks, x :: r => slot mark np [fi, j] ok x ∧ plainSlots mark np fi (j + 1) oks r
  | _, _, _ => True

/-- `bt` = what the output list held from index `i` on when the loop started -/
def elemSlots (mark : T) (np : NP) (fi : Nat) (dict : Bool) : Nat → List T → List T → Prop
  | _, _, [] => True
  | i, [], x :: body => elemFree np fi dict i x = true ∧ elemSlots mark np fi dict (i + 1) [] body
  | i, b :: bt, x :: body => slot mark np [fi, i] b x ∧ elemSlots mark np fi dict (i + 1) bt body

/-- every element of the (predicted) output list of a `Dict` is the structure of a pair of kind `pk` -/
def allE (pk : Nat) (cur : List T) : Prop := ∀ y ∈ cur, ∃ m, pairShape pk m = true ∧ y = erase m

def fieldSlot (mark : T) (np : NP) (fi : Nat) (ok : T) : T → Prop
  | .node o k cs => slot mark np [fi] ok (.node o k cs)
  | .many s md items => ∃ cur, ok = .many s md cur ∧
      (if md = 1 then elemSlots mark np fi false 0 cur items
       else if md = 2 then elemSlots mark np fi true 0 cur items ∧ (items ≠ [] → allE (items.headD .nil).kind cur)
       else plainSlots mark np fi 0 cur items)
  | .nil => scalarSlot np ok .nil
  | .prim v => scalarSlot np ok (.prim v)

def fieldSlots (mark : T) (np : NP) : Nat → List T → List T → Prop
  | _, [], [] => True
  | fi, ok :: oks, c :: fs => fieldSlot mark np fi ok c ∧ fieldSlots mark np (fi + 1) oks fs
  | _, _, _ => False

def runFree (np : NP) (fi : Nat) : Nat → Nat → List T → Bool
  | _, 0, _ => true
  | _, _ + 1, [] => true
  | i, g + 1, x :: rest => runElem np fi i x && runFree np fi (i + 1) g rest

/-! ### list helpers -/

theorem eraseL_eq_map (l : List T) : eraseL l = l.map erase := by
  induction l with
  | nil => rfl
  | cons a r ih => simp [eraseL, ih]

theorem drop_succ_of_cons {α} {l : List α} {i : Nat} {a : α} {tl : List α} (h : l.drop i = a :: tl) : l.drop (i + 1) = tl := by
  have : l.drop (i + 1) = (l.drop i).drop 1 := by simp [List.drop_drop]
  rw [this, h]; rfl

theorem getElem?_of_drop_cons {α} {l : List α} {i : Nat} {a : α} {tl : List α} (h : l.drop i = a :: tl) : l[i]? = some a := by
  have := List.head?_drop (l := l) (i := i)
  rw [h] at this; simpa using this.symm

theorem lt_of_drop_cons {α} {l : List α} {i : Nat} {a : α} {tl : List α} (h : l.drop i = a :: tl) : i < l.length := by
  by_cases hh : i < l.length
  · exact hh
  · have : l.drop i = [] := List.drop_eq_nil_of_le (by omega)
    rw [this] at h; cases h

theorem drop_cons_of_lt {α} (l : List α) (i : Nat) (h : i < l.length) : l.drop i = l[i] :: l.drop (i + 1) := by
  simp

theorem modKid_many_at (s : Option Nat) (md : Nat) (pre : List T) (x : T) (post : List T) (f : T → T) :
    modKid pre.length f (.many s md (pre ++ x :: post)) = .many s md (pre ++ f x :: post) := by
  simp [modKid, modify_at]

theorem putSlice_at (s : Option Nat) (md : Nat) (done cur p : List T) (i n : Nat) (src : Src) (one : Bool)
    (hd : done.length = i) :
    applyOps [⟨[], .putSlice i (i + n) src one p⟩] (.many s md (done ++ cur.drop i))
      = .many s md (done ++ (p ++ cur.drop (i + n))) := by
  subst hd
  simp [applyOps, applyOp, applyAt, applyAct, List.drop_drop]

theorem drop_splice (cur p : List T) (i n : Nat) (h : i ≤ cur.length) :
    (cur.take i ++ p ++ cur.drop (i + n)).drop i = p ++ cur.drop (i + n) := by
  have hl : (cur.take i).length = i := by simp; omega
  rw [List.append_assoc, List.drop_left' hl]

/-! ### unfolding the model one step -/

theorem recNode_tree (mark : T) (np : NP) (rel : Path) (outa : T) (l : Option Loc) (k : Nat) (cs : List T) :
  recNode mark np rel outa (.node (.tree l) k cs) =
    (let q := qOf l
    let off := !(inPlace np rel l)
    let copy := erase (markAt mark q)
    let pre : List Op := if off then [⟨[], .put (.mark q) copy⟩] else []
    let outa' := if off then copy else outa
    if !outa'.isNode then ⟨pre, false⟩ else
    let r := recFields mark (.fst 0 q) 0 outa'.kids cs
    if r.fail then ⟨pre ++ r.ops ++ [⟨[], .put .ast (.node .new k (eraseL cs))⟩], false⟩ else ⟨pre ++ r.ops, false⟩) := by
  rw [recNode]; rfl

/-- the pure-AST path of `recurse_node` (no `.f`, or an `.f` of another tree that failed `verify`) -/
def astPath (mark : T) (np np' : NP) (outa : T) (k : Nat) (cs : List T) : R :=
  let putIt := np != .ast
  let pre : List Op := if putIt then [⟨[], .put .ast (.node .new k (eraseL cs))⟩] else []
  let outa' := if putIt then .node .new k (eraseL cs) else outa
  if !outa'.isNode then ⟨pre, false⟩ else
  let r := recFields mark np' 0 outa'.kids cs
  ⟨pre ++ r.ops, r.fail⟩

theorem recNode_new (mark : T) (np : NP) (rel : Path) (outa : T) (k : Nat) (cs : List T) :
    recNode mark np rel outa (.node .new k cs) = astPath mark np .ast outa k cs := by
  rw [recNode]; rfl

theorem recNode_foreign_bad (mark : T) (np : NP) (rel : Path) (outa : T) (tid : Nat) (l : Option Loc) (sg : Option Nat)
    (k : Nat) (cs : List T) :
    recNode mark np rel outa (.node (.foreign false tid l sg) k cs) = astPath mark np (.fst tid (qOf l)) outa k cs := by
  rw [recNode]; rfl

theorem recNode_foreign_ok (mark : T) (np : NP) (rel : Path) (outa : T) (tid : Nat) (l : Option Loc) (sg : Option Nat)
    (k : Nat) (cs : List T) :
    recNode mark np rel outa (.node (.foreign true tid l sg) k cs) =
      ⟨[⟨[], .put (.foreign tid) (.node .new k (eraseL cs))⟩], false⟩ := by
  rw [recNode]

/-- what `recurse_children` does with one field -/
def fieldRes (mark : T) (np : NP) (fi : Nat) (ok c : T) : R :=
  if c.isNode then recNode mark np [fi] ok c else
  match c with
  | .many sig mode items =>
    if mode == 1 then recSliceGo mark np fi sig false 0 {} ok.kids items
    else if mode == 2 then recSliceGo mark np fi sig true 0 {} ok.kids items
    else if items.length != ok.kids.length then ⟨[], true⟩
    else recPlain mark np fi 0 ok.kids items
  | s => ⟨if np != .ast && pyNe s ok then [⟨[], .setPrim s⟩] else [], false⟩

/-- sequencing of a step on child `i` with the rest of the loop -/
def seqR (i : Nat) (r r2 : R) : R :=
  if r.fail then ⟨preAll i r.ops, true⟩ else ⟨preAll i r.ops ++ r2.ops, r2.fail⟩

theorem seqR_fail {i : Nat} {r r2 : R} (h : (seqR i r r2).fail = false) : r.fail = false ∧ r2.fail = false := by
  unfold seqR at h
  by_cases hr : r.fail = true
  · simp [hr] at h
  · simp only [hr] at h; simp at hr; exact ⟨hr, h⟩

theorem seqR_ops {i : Nat} {r r2 : R} (h : r.fail = false) : (seqR i r r2).ops = preAll i r.ops ++ r2.ops := by
  simp [seqR, h]

theorem recFields_cons (mark : T) (np : NP) (fi : Nat) (oks : List T) (c : T) (rest : List T) :
    recFields mark np fi oks (c :: rest) =
      seqR fi (fieldRes mark np fi (oks.headD .nil) c) (recFields mark np (fi + 1) oks.tail rest) := by
  cases c
  case many s m cs => rw [recFields]; rfl
  all_goals (rw [recFields]; rfl; intro s m cs h; cases h)

theorem recPlain_cons (mark : T) (np : NP) (fi j : Nat) (oks : List T) (c : T) (rest : List T) :
    recPlain mark np fi j oks (c :: rest) =
      seqR j (recNode mark np [fi, j] (oks.headD .nil) c) (recPlain mark np fi (j + 1) oks.tail rest) := by
  rw [recPlain]; rfl

theorem recSliceGo_nil (mark : T) (np : NP) (fi : Nat) (ns : Option Nat) (dict : Bool) (i : Nat) (run : Run) (cur : List T) :
    recSliceGo mark np fi ns dict i run cur [] = ⟨if i < cur.length then [⟨[], .delTail i⟩] else [], false⟩ := by
  rw [recSliceGo]

theorem recSliceGo_skip (mark : T) (np : NP) (fi : Nat) (ns : Option Nat) (dict : Bool) (i : Nat) (run : Run) (cur : List T)
    (x : T) (rest : List T) (h : run.skip > 0) :
    recSliceGo mark np fi ns dict i run cur (x :: rest) =
      recSliceGo mark np fi ns dict (i + 1) { run with skip := run.skip - 1 } cur rest := by
  rw [recSliceGo]; simp [h]

/-- state at the head of the element loop: continue the current run or detect a new one -/
def headState (mark : T) (np : NP) (fi : Nat) (ns : Option Nat) (i : Nat) (run : Run) (cur : List T) (x : T) (rest : List T) :
    List Op × List T × Run :=
  if run.proc > 0 then ([], cur, run) else detect mark np fi ns i cur x rest

/-- processing of one element of the list -/
def elemRes (mark : T) (np : NP) (fi : Nat) (dict : Bool) (i : Nat) (ok x : T) : R :=
  if dict then
    match x with
    | .node _ _ kv => recPair mark (np.ext [fi, i]) ok.kids kv
    | _ => ⟨[], false⟩
  else recNode mark np [fi, i] ok x

theorem recSliceGo_go (mark : T) (np : NP) (fi : Nat) (ns : Option Nat) (dict : Bool) (i : Nat) (run : Run) (cur : List T)
    (x : T) (rest : List T) (h : ¬ run.skip > 0) :
    recSliceGo mark np fi ns dict i run cur (x :: rest) =
      (let d := headState mark np fi ns i run cur x rest
       if d.2.2.skip > 0 then
         let r2 := recSliceGo mark np fi ns dict (i + 1) { d.2.2 with skip := d.2.2.skip - 1 } d.2.1 rest
         ⟨d.1 ++ r2.ops, r2.fail⟩
       else
         let ins := decide (i ≥ d.2.2.lenRead)
         let cur2 := if ins then d.2.1.take i ++ [erase x] ++ d.2.1.drop i else d.2.1
         let opsIns : List Op := if ins then [⟨[], .putSlice i i .ast (!dict) [erase x]⟩] else []
         let r := elemRes mark np fi dict i ((cur2[i]?).getD .nil) x
         let r2 := recSliceGo mark np fi ns dict (i + 1) { d.2.2 with proc := d.2.2.proc - 1 } cur2 rest
         if r.fail then ⟨d.1 ++ opsIns ++ preAll i r.ops, true⟩
         else ⟨d.1 ++ opsIns ++ preAll i r.ops ++ r2.ops, r2.fail⟩) := by
  rw [recSliceGo]; simp only [h, if_false]; rfl

/-! ### facts about runs -/

theorem runLen_le (tid : Nat) (pp : Path) (cfi : Nat) : ∀ (l : List T) (nxt : Nat), runLen tid pp cfi nxt l ≤ l.length
  | [], _ => by simp [runLen]
  | y :: ys, nxt => by
    simp only [runLen]
    split
    · have := runLen_le tid pp cfi ys (nxt + 1); simp; omega
    · simp

/-- what the run detection needs of a list element: an in-tree origin with a list index names an existing element of the
marked tree, a node of another tree has a tree id `≠ 0` -/
def elemOK (mark : T) : T → Bool
  | .node (.tree (some ⟨pp, cfi, some c⟩)) _ _ => (markAt mark (pp ++ [cfi, c])).isNode
  | .node (.foreign _ tid _ _) _ _ => tid != 0
  | _ => true

def elemsOK (mark : T) : List T → Bool
  | [] => true
  | x :: r => elemOK mark x && elemsOK mark r

theorem wfN_elemOK (mark : T) (x : T) (h : wfN mark x = true) : elemOK mark x = true := by
  cases x with
  | node o k cs =>
    cases o with
    | new => rfl
    | foreign ok t l sg => cases ok <;> simp_all [wfN, elemOK]
    | tree l =>
      cases l with
      | none => rfl
      | some l =>
        obtain ⟨a, b, c⟩ := l
        cases c with
        | none => rfl
        | some c =>
          simp only [wfN, Bool.and_eq_true] at h
          have hq : qOf (some ⟨a, b, some c⟩) = a ++ [b, c] := by simp [qOf, Loc.full, Loc.rel]
          rw [hq] at h
          simp only [elemOK]
          cases hm : markAt mark (a ++ [b, c]) <;> simp_all [T.isNode]
  | _ => rfl

theorem wfEs_elemsOK (mark : T) : ∀ (l : List T), wfEs mark l = true → elemsOK mark l = true
  | [], _ => rfl
  | x :: r, h => by
    simp only [wfEs, Bool.and_eq_true] at h
    simp [elemsOK, wfN_elemOK mark x h.1, wfEs_elemsOK mark r h.2]

theorem pairShape_isNode (pk : Nat) (m : T) (h : pairShape pk m = true) : m.isNode = true := by
  cases m with
  | node o k cs => rfl
  | _ => simp [pairShape] at h

theorem wfPs_elemsOK (mark : T) (pk : Nat) : ∀ (l : List T), wfPs mark pk l = true → elemsOK mark l = true
  | [], _ => rfl
  | x :: r, h => by
    cases x with
    | node o k kv =>
      simp only [wfPs, Bool.and_eq_true] at h
      have hx : elemOK mark (.node o k kv) = true := by
        cases o with
        | new => rfl
        | foreign ok t l sg => simpa [pairCons, elemOK] using h.1.1.2
        | tree l =>
          cases l with
          | none => rfl
          | some l =>
            obtain ⟨a, b, c⟩ := l
            cases c with
            | none => rfl
            | some c =>
              have := h.1.1.2
              simp only [pairCons, Bool.and_eq_true] at this
              exact pairShape_isNode pk _ this.1
      simp [elemsOK, hx, wfPs_elemsOK mark pk r h.2]
    | _ => simp [wfPs] at h

theorem wf_tree_idx (mark : T) (pp : Path) (cfi ci k : Nat) (cs : List T)
    (h : elemOK mark (.node (.tree (some ⟨pp, cfi, some ci⟩)) k cs) = true) :
    ci < (markAt mark (pp ++ [cfi])).kids.length := by
  simp only [elemOK] at h
  have hq : pp ++ [cfi, ci] = (pp ++ [cfi]) ++ [ci] := by simp
  rw [hq, markAt_snoc] at h
  by_cases hlt : ci < (markAt mark (pp ++ [cfi])).kids.length
  · exact hlt
  · have : (markAt mark (pp ++ [cfi])).kids[ci]? = none := by simp; omega
    rw [this] at h; simp [T.isNode] at h

theorem follows_zero (pp : Path) (cfi nxt : Nat) (y : T) (h : follows 0 pp cfi nxt y.origin = true) :
    ∃ k cs, y = .node (.tree (some ⟨pp, cfi, some nxt⟩)) k cs := by
  cases y with
  | nil => simp [T.origin, follows] at h
  | prim v => simp [T.origin, follows] at h
  | many s m cs => simp [T.origin, follows] at h
  | node o k cs =>
    cases o with
    | new => simp [T.origin, follows] at h
    | foreign ok t l sg => cases l <;> simp [T.origin, follows] at h
    | tree l =>
      cases l with
      | none => simp [T.origin, follows] at h
      | some l =>
        obtain ⟨a, b, c⟩ := l
        simp only [T.origin, follows, Bool.and_eq_true, beq_iff_eq] at h
        obtain ⟨⟨⟨_, h1⟩, h2⟩, h3⟩ := h
        subst h1 h2 h3
        exact ⟨k, cs, rfl⟩

/-- the elements of a run taken from the marked tree exist there -/
theorem run_in_mark (mark : T) (pp : Path) (cfi : Nat) : ∀ (rest : List T) (nxt : Nat), elemsOK mark rest = true →
    nxt ≤ (markAt mark (pp ++ [cfi])).kids.length →
    nxt + runLen 0 pp cfi nxt rest ≤ (markAt mark (pp ++ [cfi])).kids.length
  | [], nxt, _, h => by simp [runLen]; exact h
  | y :: ys, nxt, hw, h => by
    simp only [runLen]
    split
    · rename_i hf
      obtain ⟨k, cs, rfl⟩ := follows_zero pp cfi nxt y hf
      simp only [elemsOK, Bool.and_eq_true] at hw
      have h1 := wf_tree_idx mark pp cfi nxt k cs hw.1
      have := run_in_mark mark pp cfi ys (nxt + 1) hw.2 h1
      omega
    · simpa using h

/-- the elements of a run taken from the marked tree are all off path: each is put again on its own -/
theorem runFree_runLen (np : NP) (fi i : Nat) (pp : Path) (cfi ci : Nat)
    (hC : ∀ k, inPlace np [fi, i + k] (some ⟨pp, cfi, some (ci + k)⟩) = false) :
    ∀ (rest : List T) (k : Nat), runFree np fi (i + k) (runLen 0 pp cfi (ci + k) rest) rest = true
  | [], k => by simp [runLen, runFree]
  | y :: ys, k => by
    simp only [runLen]
    split
    · rename_i hf
      obtain ⟨kk, cs, rfl⟩ := follows_zero pp cfi (ci + k) y hf
      have := runFree_runLen np fi i pp cfi ci hC ys (k + 1)
      rw [Nat.add_comm 1, runFree]
      simp only [runElem, hC k, Bool.not_false, Bool.true_and]
      simpa [Nat.add_assoc] using this
    · simp [runFree]

theorem sliceHead_zero (mark : T) (np : NP) (fi : Nat) (ns : Option Nat) (i : Nat) (x : T) (pp : Path) (cfi ci : Nat)
    (hwf : elemOK mark x = true) (h : sliceHead mark np fi ns i x.origin = some (0, pp, cfi, ci)) :
    (∃ k cs, x = .node (.tree (some ⟨pp, cfi, some ci⟩)) k cs) ∧
      ∀ k, inPlace np [fi, i + k] (some ⟨pp, cfi, some (ci + k)⟩) = false := by
  cases x with
  | nil => simp [T.origin, sliceHead] at h
  | prim v => simp [T.origin, sliceHead] at h
  | many s m cs => simp [T.origin, sliceHead] at h
  | node o k cs =>
    cases o with
    | new => simp [T.origin, sliceHead] at h
    | foreign ok t l sg =>
      have ht : t ≠ 0 := by simpa [elemOK] using hwf
      cases l with
      | none => simp [T.origin, sliceHead] at h
      | some l =>
        obtain ⟨a, b, c⟩ := l
        cases c with
        | none => simp [T.origin, sliceHead] at h
        | some c =>
          simp only [T.origin, sliceHead, Option.ite_none_left_eq_some, Option.some.injEq, Prod.mk.injEq] at h
          exact absurd h.2.1 ht
    | tree l =>
      cases l with
      | none => simp [T.origin, sliceHead] at h
      | some l =>
        obtain ⟨a, b, c⟩ := l
        cases c with
        | none => simp [T.origin, sliceHead] at h
        | some c =>
          simp only [T.origin, sliceHead, Option.ite_none_left_eq_some, Option.some.injEq, Prod.mk.injEq, true_and] at h
          obtain ⟨hsingle, rfl, rfl, rfl⟩ := h
          refine ⟨⟨k, cs, rfl⟩, ?_⟩
          intro kk
          cases np with
          | none => simp [inPlace]
          | ast => simp [inPlace]
          | fst t pq =>
            cases t with
            | succ t => simp [inPlace]
            | zero =>
              simp only [inPlace, Loc.rel, Option.toList]
              by_cases hc : (b == fi && NP.fst 0 pq == NP.fst 0 a) = true
              · simp only [hc, if_true] at hsingle
                simp only [Bool.and_eq_true, beq_iff_eq] at hc
                simp at hsingle
                simp; intro _ _; omega
              · simp only [Bool.and_eq_true, beq_iff_eq, not_and] at hc
                simp; intro h1 h2
                exact absurd (by rw [h1]) (hc h2)

/-! ### the head of the element loop -/

theorem eraseL_length (l : List T) : (eraseL l).length = l.length := by simp [eraseL_eq_map]

theorem detect_none (mark : T) (np : NP) (fi : Nat) (ns : Option Nat) (i : Nat) (cur : List T) (x : T) (rest : List T)
    (h : sliceHead mark np fi ns i x.origin = none) :
    detect mark np fi ns i cur x rest = ([], cur, { proc := 1, lenRead := cur.length }) := by
  unfold detect; rw [h]

theorem detect_some (mark : T) (np : NP) (fi : Nat) (ns : Option Nat) (i : Nat) (cur : List T) (x : T) (rest : List T)
    (tid : Nat) (pp : Path) (cfi ci : Nat) (h : sliceHead mark np fi ns i x.origin = some (tid, pp, cfi, ci)) :
    detect mark np fi ns i cur x rest =
      (let n := 1 + runLen tid pp cfi (ci + 1) rest
       if tid == 0 then
         let payload := eraseL ((((markAt mark (pp ++ [cfi])).kids).drop ci).take n)
         let cur' := cur.take i ++ payload ++ cur.drop (i + n)
         ([⟨[], .putSlice i (i + n) (.mark (pp ++ [cfi])) false payload⟩], cur', { proc := n, lenRead := cur'.length })
       else if allOk ((x :: rest).take n) then
         let payload := eraseL ((x :: rest).take n)
         let cur' := cur.take i ++ payload ++ cur.drop (i + n)
         ([⟨[], .putSlice i (i + n) (.foreign tid) false payload⟩], cur', { skip := n })
       else ([], cur, { proc := n, lenRead := cur.length })) := by
  unfold detect; rw [h]; rfl

/-- outcome of `headState`: either a verified run of another tree was put (`skip`), or the elements of the run are processed
one by one (`proc`); `g1` of them are known to be put again on their own. -/
theorem head_post (mark : T) (np : NP) (fi : Nat) (ns : Option Nat) (i : Nat) (run : Run) (cur : List T) (x : T)
    (rest bt done : List T) (g : Nat) (s : Option Nat) (md : Nat)
    (hwf : elemsOK mark (x :: rest) = true) (hdone : done.length = i) (hskip : run.skip = 0)
    (hg : g ≤ run.proc) (hfree : runFree np fi i g (x :: rest) = true) (htail : cur.drop (i + g) = bt.drop g)
    (hlen : if run.proc > 0 then max i run.lenRead = cur.length else i ≤ cur.length) :
    let d := headState mark np fi ns i run cur x rest
    applyOps d.1 (.many s md (done ++ cur.drop i)) = .many s md (done ++ d.2.1.drop i) ∧
    ((d.2.2.skip > 0 ∧ d.2.2.proc = 0 ∧ d.2.2.skip ≤ (x :: rest).length ∧
        (d.2.1.drop i).take d.2.2.skip = eraseL ((x :: rest).take d.2.2.skip) ∧
        d.2.1.drop (i + d.2.2.skip) = bt.drop d.2.2.skip)
     ∨ (d.2.2.skip = 0 ∧ d.2.2.proc > 0 ∧ ∃ g1, g1 ≤ d.2.2.proc ∧ runFree np fi i g1 (x :: rest) = true ∧
        d.2.1.drop (i + g1) = bt.drop g1 ∧ max i d.2.2.lenRead = d.2.1.length)) := by
  intro d
  by_cases hp : run.proc > 0
  · -- inside a run
    have hd : d = ([], cur, run) := by simp [d, headState, hp]
    rw [hd]
    refine ⟨rfl, Or.inr ⟨hskip, hp, g, hg, hfree, htail, ?_⟩⟩
    simpa [hp] using hlen
  · have hg0 : g = 0 := by omega
    subst hg0
    simp only [Nat.add_zero, List.drop_zero] at htail
    simp only [hp, if_false] at hlen
    have hd : d = detect mark np fi ns i cur x rest := by simp [d, headState, hp]
    have hmax : max i cur.length = cur.length := by omega
    cases hsh : sliceHead mark np fi ns i x.origin with
    | none =>
      rw [hd, detect_none _ _ _ _ _ _ _ _ hsh]
      exact ⟨rfl, Or.inr ⟨rfl, by simp, 0, by simp, by simp [runFree], by simpa using htail, hmax⟩⟩
    | some v =>
      obtain ⟨tid, pp, cfi, ci⟩ := v
      have hn : runLen tid pp cfi (ci + 1) rest ≤ rest.length := runLen_le _ _ _ _ _
      rw [hd, detect_some _ _ _ _ _ _ _ _ _ _ _ _ hsh]
      simp only [elemsOK, Bool.and_eq_true] at hwf
      by_cases ht : tid = 0
      · -- slice copied from the marked tree
        subst ht
        obtain ⟨⟨k, cs, rfl⟩, hC⟩ := sliceHead_zero mark np fi ns i x pp cfi ci hwf.1 hsh
        have h1 := wf_tree_idx mark pp cfi ci k cs hwf.1
        have h2 := run_in_mark mark pp cfi rest (ci + 1) hwf.2 h1
        have hpl : (eraseL ((((markAt mark (pp ++ [cfi])).kids).drop ci).take (1 + runLen 0 pp cfi (ci + 1) rest))).length
            = 1 + runLen 0 pp cfi (ci + 1) rest := by
          rw [eraseL_length, List.length_take, List.length_drop]; omega
        simp only [beq_self_eq_true, if_true]
        refine ⟨?_, Or.inr ⟨by simp, by simp; omega, 1 + runLen 0 pp cfi (ci + 1) rest, Nat.le_refl _, ?_, ?_, ?_⟩⟩
        · rw [putSlice_at _ _ _ _ _ _ _ _ _ hdone, drop_splice _ _ _ _ hlen]
        · rw [Nat.add_comm 1, runFree]
          have h0 := hC 0
          simp only [Nat.add_zero] at h0
          simp only [runElem, h0, Bool.not_false, Bool.true_and]
          have := runFree_runLen np fi i pp cfi ci hC rest 1
          exact this
        · have hl : (cur.take i ++ eraseL ((((markAt mark (pp ++ [cfi])).kids).drop ci).take
              (1 + runLen 0 pp cfi (ci + 1) rest))).length = i + (1 + runLen 0 pp cfi (ci + 1) rest) := by
            rw [List.length_append, hpl, List.length_take]; omega
          rw [List.drop_left' hl, ← htail, List.drop_drop]
        · simp only [List.length_append, hpl, List.length_take, List.length_drop]; omega
      · have ht' : (tid == 0) = false := by simp [ht]
        simp only [ht', Bool.false_eq_true, if_false]
        by_cases hok : allOk ((x :: rest).take (1 + runLen tid pp cfi (ci + 1) rest)) = true
        · -- verified run of another tree: put as one slice, not recursed
          simp only [hok, if_true]
          have hpl : (eraseL ((x :: rest).take (1 + runLen tid pp cfi (ci + 1) rest))).length
              = 1 + runLen tid pp cfi (ci + 1) rest := by
            rw [eraseL_length, List.length_take]; simp; omega
          refine ⟨?_, Or.inl ⟨by simp; omega, by simp, by simp; omega, ?_, ?_⟩⟩
          · rw [putSlice_at _ _ _ _ _ _ _ _ _ hdone, drop_splice _ _ _ _ hlen]
          · rw [drop_splice _ _ _ _ hlen, List.take_left' hpl]
          · have hl : (cur.take i ++ eraseL ((x :: rest).take (1 + runLen tid pp cfi (ci + 1) rest))).length
                = i + (1 + runLen tid pp cfi (ci + 1) rest) := by
              rw [List.length_append, hpl, List.length_take]; omega
            rw [List.drop_left' hl, ← htail, List.drop_drop]
        · simp only [hok, Bool.false_eq_true, if_false]
          exact ⟨rfl, Or.inr ⟨by simp, by simp; omega, 0, by simp, by simp [runFree], by simpa using htail, hmax⟩⟩

/-! ### the slot hypotheses hold by construction -/

theorem slot_self (mark : T) (np : NP) (rel : Path) (c : T) (h : np.base = none) : slot mark np rel (erase c) c := by
  simp [slot, h]

theorem slot_mark (mark : T) (np : NP) (q rel : Path) (c : T) (h : np.base = some q) :
    slot mark np rel (erase (markAt mark (q ++ rel))) c := by
  simp [slot, h]

theorem base_ne_ast {np : NP} {q : Path} (h : np.base = some q) : np ≠ .ast := by
  intro h2; subst h2; simp [NP.base] at h

theorem elemSlots_self (mark : T) (np : NP) (fi : Nat) (dict : Bool) (h : np.base = none) :
    ∀ (items : List T) (i : Nat), elemSlots mark np fi dict i (eraseL items) items
  | [], _ => by simp [elemSlots]
  | x :: r, i => by
    simp only [eraseL, elemSlots]
    exact ⟨slot_self mark np _ x h, elemSlots_self mark np fi dict h r (i + 1)⟩

theorem wfPs_shaped (mark : T) (pk : Nat) : ∀ (l : List T), wfPs mark pk l = true → ∀ x ∈ l, pairShape pk x = true
  | [], _, x, hx => by simp at hx
  | y :: r, h, x, hx => by
    cases y with
    | node o k kv =>
      simp only [wfPs, Bool.and_eq_true] at h
      simp only [List.mem_cons] at hx
      cases hx with
      | inl e =>
        subst e
        obtain ⟨⟨⟨hk, _⟩, hkv⟩, _⟩ := h
        match kv, hkv with
        | [a, b], hkv =>
          simp only [wfKV, Bool.and_eq_true, Bool.or_eq_true] at hkv
          simp only [pairShape, hk, Bool.true_and, Bool.or_eq_true]
          cases hkv.1 with
          | inl h1 => exact Or.inr h1
          | inr h1 => exact Or.inl h1.1
      | inr e => exact wfPs_shaped mark pk r h.2 x e
    | _ => simp [wfPs] at h

theorem allE_eraseL (pk : Nat) (l : List T) (h : ∀ x ∈ l, pairShape pk x = true) : allE pk (eraseL l) := by
  intro y hy
  rw [eraseL_eq_map] at hy
  obtain ⟨x, hx, rfl⟩ := List.mem_map.mp hy
  exact ⟨x, h x hx, rfl⟩

theorem allShaped_mem (pk : Nat) : ∀ (l : List T), allShaped pk l = true → ∀ x ∈ l, pairShape pk x = true
  | [], _, x, hx => by simp at hx
  | y :: r, h, x, hx => by
    simp only [allShaped, Bool.and_eq_true] at h
    simp only [List.mem_cons] at hx
    cases hx with
    | inl e => subst e; exact h.1
    | inr e => exact allShaped_mem pk r h.2 x e

theorem plainSlots_self (mark : T) (np : NP) (fi : Nat) (h : np.base = none) :
    ∀ (items : List T) (i : Nat), plainSlots mark np fi i (eraseL items) items
  | [], _ => by simp [eraseL, plainSlots]
  | x :: r, i => by
    simp only [eraseL, plainSlots]
    exact ⟨slot_self mark np _ x h, plainSlots_self mark np fi h r (i + 1)⟩

theorem pyNe_scalar_self (c : T) (h : scalar c = true) : pyNe c c = false := by
  cases c <;> simp_all [scalar, pyNe]

/-- under a node that was put as a pure AST the output tree holds the edited fields -/
theorem fieldSlots_self (mark : T) (np : NP) (h : np.base = none) :
    ∀ (fs : List T) (fi : Nat), wfFs mark fs = true → fieldSlots mark np fi (eraseL fs) fs
  | [], _, _ => by simp [eraseL, fieldSlots]
  | c :: r, fi, hwf => by
    have hwr : wfFs mark r = true := by cases c <;> simp_all [wfFs]
    simp only [eraseL, fieldSlots]
    refine ⟨?_, fieldSlots_self mark np h r (fi + 1) hwr⟩
    cases c with
    | nil => simp [fieldSlot, scalarSlot, erase]
    | prim v => simp [fieldSlot, scalarSlot, erase]
    | node o k cs => exact slot_self mark np _ _ h
    | many s md items =>
      refine ⟨eraseL items, by simp [erase], ?_⟩
      split
      · exact elemSlots_self mark np fi false h items 0
      · split
        · rename_i h2
          subst h2
          simp only [wfFs, beq_self_eq_true, if_true, Bool.and_eq_true] at hwf
          exact ⟨elemSlots_self mark np fi true h items 0, fun _ => allE_eraseL _ items (wfPs_shaped mark _ items hwf.1)⟩
        · exact plainSlots_self mark np fi h items 0

theorem markAt_elem (mark : T) (q : Path) (fi i : Nat) :
    markAt mark (q ++ [fi, i]) = ((markAt mark (q ++ [fi])).kids[i]?).getD .nil := by
  have : q ++ [fi, i] = (q ++ [fi]) ++ [i] := by simp
  rw [this, markAt_snoc]

/-- an element beyond the end of the marked list cannot be in place -/
theorem putsFirst_beyond (mark : T) (q : Path) (fi i : Nat) (x : T) (hwf : wfN mark x = true)
    (hb : (markAt mark (q ++ [fi])).kids.length ≤ i) : putsFirst (.fst 0 q) [fi, i] x = true := by
  cases x with
  | nil => simp [putsFirst]
  | prim v => simp [putsFirst]
  | many s m cs => simp [wfN] at hwf
  | node o k cs =>
    cases o with
    | new => simp [putsFirst]
    | foreign ok t l sg => cases ok <;> simp [putsFirst]
    | tree l =>
      simp only [putsFirst, Bool.not_eq_eq_eq_not, Bool.not_true]
      cases hin : inPlace (.fst 0 q) [fi, i] l with
      | false => rfl
      | true =>
        obtain ⟨q', hb', hq⟩ := inPlace_base _ _ _ hin
        simp only [NP.base, Option.some.injEq] at hb'
        subst hb'
        simp only [wfN, Bool.and_eq_true] at hwf
        rw [hq, markAt_elem] at hwf
        have : (markAt mark (q ++ [fi])).kids[i]? = none := by simp; omega
        rw [this] at hwf; simp at hwf

/-- nothing can be in place under a path where the marked tree has no children -/
theorem putsFirst_under_leaf (mark : T) (pq : Path) (j : Nat) (x : T) (hwf : wfN mark x = true)
    (hb : (markAt mark pq).kids = []) : putsFirst (.fst 0 pq) [j] x = true := by
  cases x with
  | nil => simp [putsFirst]
  | prim v => simp [putsFirst]
  | many s m cs => simp [wfN] at hwf
  | node o k cs =>
    cases o with
    | new => simp [putsFirst]
    | foreign ok t l sg => cases ok <;> simp [putsFirst]
    | tree l =>
      simp only [putsFirst, Bool.not_eq_eq_eq_not, Bool.not_true]
      cases hin : inPlace (.fst 0 pq) [j] l with
      | false => rfl
      | true =>
        obtain ⟨q', hb', hq⟩ := inPlace_base _ _ _ hin
        simp only [NP.base, Option.some.injEq] at hb'
        subst hb'
        simp only [wfN, Bool.and_eq_true] at hwf
        rw [hq, markAt_snoc, hb] at hwf
        simp at hwf

theorem kidsFree_beyond (mark : T) (q : Path) (fi i : Nat) (kv : List T) (hwf : wfKV mark kv = true)
    (hb : (markAt mark (q ++ [fi])).kids.length ≤ i) : kidsFree (.fst 0 (q ++ [fi, i])) kv = true := by
  have hleaf : (markAt mark (q ++ [fi, i])).kids = [] := by
    rw [markAt_elem]
    have : (markAt mark (q ++ [fi])).kids[i]? = none := by simp; omega
    rw [this]; rfl
  match kv, hwf with
  | [k, v], hwf =>
    simp only [wfKV, Bool.and_eq_true, Bool.or_eq_true] at hwf
    simp only [kidsFree, Bool.and_eq_true, Bool.or_eq_true]
    refine ⟨?_, putsFirst_under_leaf mark _ 1 v hwf.2 hleaf⟩
    cases hwf.1 with
    | inl h => exact Or.inl h
    | inr h => exact Or.inr (putsFirst_under_leaf mark _ 0 k h.2 hleaf)

theorem elemSlots_mark_gen (mark : T) (q : Path) (fi : Nat) (dict : Bool) :
    ∀ (items : List T) (i : Nat),
      (∀ x ∈ items, ∀ j, (markAt mark (q ++ [fi])).kids.length ≤ j → elemFree (.fst 0 q) fi dict j x = true) →
      elemSlots mark (.fst 0 q) fi dict i (eraseL ((markAt mark (q ++ [fi])).kids.drop i)) items
  | [], _, _ => by simp [elemSlots]
  | x :: r, i, hfree => by
    have ih := elemSlots_mark_gen mark q fi dict r (i + 1) (fun y hy => hfree y (by simp [hy]))
    cases hd : (markAt mark (q ++ [fi])).kids.drop i with
    | nil =>
      have hle : (markAt mark (q ++ [fi])).kids.length ≤ i := by
        have := congrArg List.length hd; simp at this; omega
      have hd' : (markAt mark (q ++ [fi])).kids.drop (i + 1) = [] := List.drop_eq_nil_of_le (by omega)
      rw [hd'] at ih
      simp only [eraseL, elemSlots]
      exact ⟨hfree x (by simp) i hle, ih⟩
    | cons b tl =>
      rw [drop_succ_of_cons hd] at ih
      simp only [eraseL, elemSlots]
      refine ⟨?_, ih⟩
      have : markAt mark (q ++ [fi, i]) = b := by rw [markAt_elem, getElem?_of_drop_cons hd]; rfl
      rw [← this]
      exact slot_mark mark _ q _ x rfl

theorem wfEs_mem (mark : T) : ∀ (l : List T), wfEs mark l = true → ∀ x ∈ l, wfN mark x = true
  | [], _, x, hx => by simp at hx
  | y :: r, h, x, hx => by
    simp only [wfEs, Bool.and_eq_true] at h
    simp only [List.mem_cons] at hx
    cases hx with
    | inl e => subst e; exact h.1
    | inr e => exact wfEs_mem mark r h.2 x e

theorem wfPs_mem (mark : T) (pk : Nat) : ∀ (l : List T), wfPs mark pk l = true → ∀ x ∈ l, wfKV mark x.kids = true
  | [], _, x, hx => by simp at hx
  | y :: r, h, x, hx => by
    cases y with
    | node o k kv =>
      simp only [wfPs, Bool.and_eq_true] at h
      simp only [List.mem_cons] at hx
      cases hx with
      | inl e => subst e; exact h.1.2
      | inr e => exact wfPs_mem mark pk r h.2 x e
    | _ => simp [wfPs] at h

theorem elemSlots_mark (mark : T) (q : Path) (fi : Nat) (items : List T) (i : Nat) (hwf : wfEs mark items = true) :
    elemSlots mark (.fst 0 q) fi false i (eraseL ((markAt mark (q ++ [fi])).kids.drop i)) items :=
  elemSlots_mark_gen mark q fi false items i (fun x hx j hj => by
    simp only [elemFree, Bool.false_eq_true, if_false]
    exact putsFirst_beyond mark q fi j x (wfEs_mem mark items hwf x hx) hj)

theorem elemSlotsD_mark (mark : T) (q : Path) (fi : Nat) (pk : Nat) (items : List T) (i : Nat)
    (hwf : wfPs mark pk items = true) :
    elemSlots mark (.fst 0 q) fi true i (eraseL ((markAt mark (q ++ [fi])).kids.drop i)) items :=
  elemSlots_mark_gen mark q fi true items i (fun x hx j hj => by
    simp only [elemFree, if_true, NP.ext]
    exact kidsFree_beyond mark q fi j x.kids (wfPs_mem mark pk items hwf x hx) (by simpa using hj))

theorem plainSlots_mark (mark : T) (q : Path) (fi : Nat) :
    ∀ (items : List T) (i : Nat),
      plainSlots mark (.fst 0 q) fi i (eraseL ((markAt mark (q ++ [fi])).kids.drop i)) items
  | [], _ => by simp [plainSlots]
  | x :: r, i => by
    have ih := plainSlots_mark mark q fi r (i + 1)
    cases hd : (markAt mark (q ++ [fi])).kids.drop i with
    | nil => simp [eraseL, plainSlots]
    | cons b tl =>
      rw [drop_succ_of_cons hd] at ih
      simp only [eraseL, plainSlots]
      refine ⟨?_, ih⟩
      have : markAt mark (q ++ [fi, i]) = b := by rw [markAt_elem, getElem?_of_drop_cons hd]; rfl
      rw [← this]
      exact slot_mark mark _ q _ x rfl

/-- the repaired comparison is exact: a scalar that does not differ (value and type) from the slot IS the slot -/
theorem pyNe_false_eq (c ok : T) (hsc : scalar c = true) (h : pyNe c ok = false) : c = ok := by
  cases c with
  | nil => cases ok <;> simp_all [pyNe]
  | prim v =>
    cases ok with
    | prim w => simp only [pyNe, bne_eq_false_iff_eq] at h; rw [h]
    | _ => simp [pyNe] at h
  | _ => simp [scalar] at hsc

theorem scalarSlot_mark (np : NP) (m c : T) (hnp : np ≠ .ast) (hsc : scalar c = true) :
    scalarSlot np (erase m) c :=
  ⟨fun h => absurd h hnp, fun _ hne => pyNe_false_eq c (erase m) hsc hne⟩

/-- under an in-tree node (in place or just copied from the marked tree) the output tree holds the marked fields -/
theorem fieldSlots_mark (mark : T) (q : Path) :
    ∀ (fs : List T) (fi : Nat), shapeOK ((markAt mark q).kids.drop fi) fs = true → wfFs mark fs = true →
      fieldSlots mark (.fst 0 q) fi (eraseL ((markAt mark q).kids.drop fi)) fs
  | [], fi, hsh, _ => by
    cases hd : (markAt mark q).kids.drop fi with
    | nil => simp [eraseL, fieldSlots]
    | cons b tl => rw [hd] at hsh; simp [shapeOK] at hsh
  | c :: r, fi, hsh, hwf => by
    cases hd : (markAt mark q).kids.drop fi with
    | nil => rw [hd] at hsh; simp [shapeOK] at hsh
    | cons m tl =>
      rw [hd] at hsh
      simp only [shapeOK, Bool.and_eq_true] at hsh
      have hwr : wfFs mark r = true := by
        cases c <;> simp_all [wfFs]
      have ih := fieldSlots_mark mark q r (fi + 1) (by rw [drop_succ_of_cons hd]; exact hsh.2) hwr
      rw [drop_succ_of_cons hd] at ih
      simp only [eraseL, fieldSlots]
      refine ⟨?_, ih⟩
      have hm : markAt mark (q ++ [fi]) = m := by rw [markAt_snoc, getElem?_of_drop_cons hd]; rfl
      cases c with
      | nil => exact scalarSlot_mark _ m .nil (by simp) rfl
      | prim v => exact scalarSlot_mark _ m (.prim v) (by simp) rfl
      | node o k cs =>
        show slot mark (.fst 0 q) [fi] (erase m) (.node o k cs)
        rw [← hm]; exact slot_mark mark _ q _ _ rfl
      | many s md items =>
        have h1 := hsh.1
        simp only [fieldOK] at h1
        cases m with
        | many s' md' mitems =>
          simp only [Bool.and_eq_true, beq_iff_eq] at h1
          obtain ⟨⟨rfl, rfl⟩, hsh2⟩ := h1
          refine ⟨eraseL mitems, by simp [erase], ?_⟩
          have hk : mitems = (markAt mark (q ++ [fi])).kids.drop 0 := by rw [hm]; simp [T.kids]
          simp only [wfFs, Bool.and_eq_true] at hwf
          split
          · rename_i h1
            subst h1
            rw [hk]; exact elemSlots_mark mark q fi items 0 (by simpa using hwf.1)
          · split
            · rename_i h2
              subst h2
              have hwp : wfPs mark (items.headD .nil).kind items = true := by simpa using hwf.1
              refine ⟨by rw [hk]; exact elemSlotsD_mark mark q fi _ items 0 hwp, ?_⟩
              intro hne
              simp only [bne_self_eq_false, Bool.false_or, Bool.or_eq_true, List.isEmpty_iff] at hsh2
              cases hsh2 with
              | inl h => exact absurd h hne
              | inr h => exact allE_eraseL _ mitems (allShaped_mem _ mitems h)
            · rw [hk]; exact plainSlots_mark mark q fi items 0
        | _ => simp at h1

/-! ### single steps, with the induction hypotheses as parameters -/

theorem astPath_ok (mark : T) (np np' : NP) (outa : T) (k : Nat) (cs : List T)
    (hs : (np != .ast) = true ∨ outa = .node .new k (eraseL cs))
    (IH : (recFields mark np' 0 (eraseL cs) cs).fail = false →
      applyOps (recFields mark np' 0 (eraseL cs) cs).ops (.node .new k ([] ++ eraseL cs)) = .node .new k ([] ++ eraseL cs))
    (hf : (astPath mark np np' outa k cs).fail = false) :
    applyOps (astPath mark np np' outa k cs).ops outa = .node .new k (eraseL cs) := by
  unfold astPath at hf ⊢
  by_cases hput : (np != .ast) = true
  · simp only [hput, if_true, T.isNode, Bool.not_true, Bool.false_eq_true, if_false, T.kids] at hf ⊢
    simp only [List.cons_append, List.nil_append, applyOps]
    exact IH hf
  · have ho : outa = .node .new k (eraseL cs) := by
      cases hs with
      | inl h => exact absurd h hput
      | inr h => exact h
    subst ho
    simp only [hput, if_false, T.isNode, Bool.not_true, Bool.false_eq_true, T.kids, List.nil_append] at hf ⊢
    exact IH hf

theorem tree_ok (mark : T) (np : NP) (rel : Path) (outa : T) (l : Option Loc) (k : Nat) (cs : List T) (mo : Origin)
    (mcs : List T) (hmq : markAt mark (qOf l) = .node mo k mcs)
    (hs : putsFirst np rel (.node (.tree l) k cs) = true ∨ slot mark np rel outa (.node (.tree l) k cs))
    (IH : (recFields mark (.fst 0 (qOf l)) 0 (eraseL mcs) cs).fail = false →
      applyOps (recFields mark (.fst 0 (qOf l)) 0 (eraseL mcs) cs).ops (.node .new k ([] ++ eraseL mcs))
        = .node .new k ([] ++ eraseL cs)) :
    applyOps (recNode mark np rel outa (.node (.tree l) k cs)).ops outa = .node .new k (eraseL cs) := by
  rw [recNode_tree]
  have hcopy : erase (markAt mark (qOf l)) = .node .new k (eraseL mcs) := by rw [hmq]; simp [erase]
  simp only [hcopy]
  -- after the optional copy the slot holds the marked node
  have key : ∀ (pre : List Op), applyOps pre outa = .node .new k (eraseL mcs) →
      applyOps (if (recFields mark (.fst 0 (qOf l)) 0 (eraseL mcs) cs).fail = true
        then (⟨pre ++ (recFields mark (.fst 0 (qOf l)) 0 (eraseL mcs) cs).ops ++ [⟨[], .put .ast (.node .new k (eraseL cs))⟩], false⟩ : R)
        else ⟨pre ++ (recFields mark (.fst 0 (qOf l)) 0 (eraseL mcs) cs).ops, false⟩).ops outa = .node .new k (eraseL cs) := by
    intro pre hpre
    by_cases hfl : (recFields mark (.fst 0 (qOf l)) 0 (eraseL mcs) cs).fail = true
    · simp only [hfl, if_true]
      exact applyOps_put_last _ _ _ _
    · simp only [hfl, if_false, Bool.false_eq_true]
      rw [applyOps_append, hpre]
      simp only [Bool.not_eq_true] at hfl
      exact IH hfl
  by_cases hin : inPlace np rel l = true
  · have ho : outa = .node .new k (eraseL mcs) := by
      cases hs with
      | inl h => simp [putsFirst, hin] at h
      | inr h =>
        obtain ⟨q', hb, hq⟩ := inPlace_base _ _ _ hin
        simp only [slot, hb] at h
        rw [h, ← hq, hcopy]
    subst ho
    simp only [hin, Bool.not_true, Bool.false_eq_true, if_false, T.isNode, T.kids]
    exact key [] rfl
  · simp only [hin, Bool.not_false, if_true, T.isNode, Bool.not_true, Bool.false_eq_true, if_false, T.kids]
    exact key _ rfl

theorem seq_apply (i : Nat) (r r2 : R) (t t1 t2 : T) (hf : (seqR i r r2).fail = false)
    (h1 : r.fail = false → modKid i (applyOps r.ops) t = t1) (h2 : r2.fail = false → applyOps r2.ops t1 = t2) :
    applyOps (seqR i r r2).ops t = t2 := by
  obtain ⟨a, b⟩ := seqR_fail hf
  rw [seqR_ops a, applyOps_append, applyOps_preAll, h1 a, h2 b]

/-- invariant of the flattened `while` / `for` loops of `recurse_slice`: `cur` is the predicted output list, `bt` what the
list held from `i` on at loop entry, `g` the number of coming elements known to be put again on their own. -/
def SI (np : NP) (fi i : Nat) (run : Run) (cur body bt : List T) (g : Nat) : Prop :=
  if run.skip > 0 then
    run.proc = 0 ∧ run.skip ≤ body.length ∧ (cur.drop i).take run.skip = eraseL (body.take run.skip) ∧
      cur.drop (i + run.skip) = bt.drop run.skip
  else
    g ≤ run.proc ∧ runFree np fi i g body = true ∧ cur.drop (i + g) = bt.drop g ∧
      (if run.proc > 0 then max i run.lenRead = cur.length else i ≤ cur.length)

/-- the conclusion of the loop lemma, as a predicate on the state -/
def SliceGoal (mark : T) (np : NP) (fi : Nat) (ns : Option Nat) (s : Option Nat) (md : Nat) (dict : Bool) (body : List T)
    (i : Nat) (run : Run) (cur done : List T) : Prop :=
  (recSliceGo mark np fi ns dict i run cur body).fail = false →
    applyOps (recSliceGo mark np fi ns dict i run cur body).ops (.many s md (done ++ cur.drop i))
      = .many s md (done ++ eraseL body)

theorem elemSlots_tail (mark : T) (np : NP) (fi : Nat) (dict : Bool) (i : Nat) (bt : List T) (x : T) (rest : List T)
    (h : elemSlots mark np fi dict i bt (x :: rest)) : elemSlots mark np fi dict (i + 1) bt.tail rest := by
  cases bt with
  | nil => exact h.2
  | cons b bt => exact h.2

theorem slice_nil (mark : T) (np : NP) (fi : Nat) (ns s : Option Nat) (md : Nat) (dict : Bool) (i : Nat) (run : Run)
    (cur done : List T) (hdone : done.length = i) : SliceGoal mark np fi ns s md dict [] i run cur done := by
  intro _
  rw [recSliceGo_nil]
  simp only [eraseL, List.append_nil]
  by_cases h : i < cur.length
  · simp only [h, if_true, applyOps, applyOp, applyAt, applyAct]
    rw [List.take_left' hdone]
  · simp only [h, if_false, applyOps]
    rw [List.drop_eq_nil_of_le (by omega)]; simp

/-- state after a skipped element (it was put with the verified slice it belongs to) -/
theorem skip_post (np : NP) (fi i : Nat) (run : Run) (cur bt : List T) (x : T) (rest : List T) (hk : run.skip > 0)
    (hsi : run.proc = 0 ∧ run.skip ≤ (x :: rest).length ∧ (cur.drop i).take run.skip = eraseL ((x :: rest).take run.skip) ∧
      cur.drop (i + run.skip) = bt.drop run.skip) :
    cur.drop i = erase x :: cur.drop (i + 1) ∧ SI np fi (i + 1) { run with skip := run.skip - 1 } cur rest bt.tail 0 := by
  obtain ⟨hp, hle, htk, htl⟩ := hsi
  obtain ⟨k, hk'⟩ : ∃ k, run.skip = k + 1 := ⟨run.skip - 1, by omega⟩
  rw [hk'] at htk hle htl
  simp only [List.take_succ_cons, eraseL] at htk
  cases hd : cur.drop i with
  | nil => rw [hd] at htk; simp at htk
  | cons a tl =>
    rw [hd] at htk
    simp only [List.take_succ_cons, List.cons.injEq] at htk
    obtain ⟨rfl, htk⟩ := htk
    have hd1 := drop_succ_of_cons hd
    refine ⟨by rw [hd1], ?_⟩
    unfold SI
    simp only [hk', Nat.add_sub_cancel]
    by_cases hk0 : k > 0
    · simp only [hk0, if_true]
      refine ⟨hp, by simpa using hle, by rw [hd1]; exact htk, ?_⟩
      rw [List.drop_tail] ; rw [← htl]; congr 1; omega
    · have : k = 0 := by omega
      subst this
      simp only [Nat.lt_irrefl, if_false, Nat.zero_le, runFree, true_and, Nat.add_zero, List.drop_zero, hp]
      refine ⟨?_, ?_⟩
      · rw [← List.drop_one, ← htl]
      · have := lt_of_drop_cons hd; omega

/-- a skipped element (it was put with the verified slice it belongs to) -/
theorem slice_skip_step (mark : T) (np : NP) (fi : Nat) (ns s : Option Nat) (md : Nat) (dict : Bool) (i : Nat) (run : Run)
    (cur done bt : List T)
    (x : T) (rest : List T) (hdone : done.length = i) (hk : run.skip > 0)
    (hsi : run.proc = 0 ∧ run.skip ≤ (x :: rest).length ∧ (cur.drop i).take run.skip = eraseL ((x :: rest).take run.skip) ∧
      cur.drop (i + run.skip) = bt.drop run.skip)
    (IH : ∀ (run' : Run) (done' : List T), done'.length = i + 1 → SI np fi (i + 1) run' cur rest bt.tail 0 →
      SliceGoal mark np fi ns s md dict rest (i + 1) run' cur done') :
    (recSliceGo mark np fi ns dict (i + 1) { run with skip := run.skip - 1 } cur rest).fail = false →
    applyOps (recSliceGo mark np fi ns dict (i + 1) { run with skip := run.skip - 1 } cur rest).ops
      (.many s md (done ++ cur.drop i)) = .many s md (done ++ eraseL (x :: rest)) := by
  intro hf
  obtain ⟨hd, hsi'⟩ := skip_post np fi i run cur bt x rest hk hsi
  have := IH { run with skip := run.skip - 1 } (done ++ [erase x]) (by simp [hdone]) hsi' hf
  rw [hd]
  simpa [eraseL] using this

theorem runFree_pred (np : NP) (fi i g : Nat) (x : T) (rest : List T) (h : runFree np fi i g (x :: rest) = true) :
    (g > 0 → runElem np fi i x = true) ∧ runFree np fi (i + 1) (g - 1) rest = true := by
  cases g with
  | zero => simp [runFree]
  | succ g => simp only [runFree, Bool.and_eq_true] at h; simp [h.1, h.2]

/-- what the loop knows about the content `ok` of the output list at `i` when element `x` is processed: `x` belongs to a run
copied from the marked tree (and is not in place), or `ok` is `x` itself just inserted past the end (where nothing of the
marked tree can be in place), or `ok` is what the slot hypothesis names -/
def ElemHyp (mark : T) (np : NP) (fi : Nat) (dict : Bool) (i : Nat) (ok x : T) : Prop :=
  runElem np fi i x = true ∨ (ok = erase x ∧ elemFree np fi dict i x = true) ∨ slot mark np [fi, i] ok x

/-- state when an element is handed to `recurse_node`: after the optional insertion past the end the output list holds `ok`
at `i`, with `ElemHyp`. -/
theorem go_post (mark : T) (np : NP) (fi : Nat) (s : Option Nat) (md : Nat) (dict : Bool) (i : Nat) (run1 : Run)
    (cur1 done bt : List T)
    (g1 : Nat) (x : T) (rest : List T) (one : Bool) (hdone : done.length = i)
    (hslots : elemSlots mark np fi dict i bt (x :: rest)) (hsk0 : run1.skip = 0) (hpr : run1.proc > 0) (hg1 : g1 ≤ run1.proc)
    (hfree1 : runFree np fi i g1 (x :: rest) = true) (htl1 : cur1.drop (i + g1) = bt.drop g1)
    (hmax : max i run1.lenRead = cur1.length) (cur2 : List T) (opsIns : List Op)
    (hc2 : (if decide (i ≥ run1.lenRead) = true then List.take i cur1 ++ [erase x] ++ List.drop i cur1 else cur1) = cur2)
    (hoi : (if decide (i ≥ run1.lenRead) = true then [(⟨[], .putSlice i i .ast one [erase x]⟩ : Op)] else []) = opsIns) :
    ∃ ok tl, cur2.drop i = ok :: tl ∧
        applyOps opsIns (.many s md (done ++ cur1.drop i)) = .many s md (done ++ ok :: tl) ∧
        ElemHyp mark np fi dict i ok x ∧ (cur2 = cur1 ∨ cur2 = cur1 ++ [erase x]) ∧
        SI np fi (i + 1) { proc := run1.proc - 1, skip := run1.skip, lenRead := run1.lenRead } cur2 rest bt.tail (g1 - 1) := by
  have hsk0' : ¬ run1.skip > 0 := by omega
  obtain ⟨hpf, hfree2⟩ := runFree_pred np fi i g1 x rest hfree1
  by_cases hins : i ≥ run1.lenRead
  · -- insertion past the end of the output list
    have hl : cur1.length = i := by omega
    simp only [hins, decide_true, if_true] at hc2 hoi
    have hd0 : cur1.drop i = [] := List.drop_eq_nil_of_le (by omega)
    rw [List.take_of_length_le (by omega), hd0, List.append_nil] at hc2
    subst hc2 hoi
    refine ⟨erase x, [], by rw [List.drop_left' hl], ?_, ?_, Or.inr rfl, ?_⟩
    · rw [hd0]; subst hdone
      simp [applyOps, applyOp, applyAt, applyAct]
    · by_cases hg0 : g1 > 0
      · exact Or.inl (hpf hg0)
      · have : g1 = 0 := by omega
        subst this
        simp only [Nat.add_zero, List.drop_zero] at htl1
        rw [hd0] at htl1; rw [← htl1] at hslots
        exact Or.inr (Or.inl ⟨rfl, hslots.1⟩)
    · unfold SI
      simp only [hsk0', if_false]
      refine ⟨by omega, hfree2, ?_, ?_⟩
      · have h1 : (cur1 ++ [erase x]).drop (i + 1 + (g1 - 1)) = [] := List.drop_eq_nil_of_le (by simp; omega)
        rw [h1, List.drop_tail]
        have h2 : cur1.drop (i + g1) = [] := List.drop_eq_nil_of_le (by omega)
        by_cases hg0 : g1 > 0
        · rw [show g1 - 1 + 1 = g1 by omega, ← htl1, h2]
        · have : g1 = 0 := by omega
          subst this
          simp only [Nat.add_zero, List.drop_zero] at htl1
          rw [← htl1, hd0]; rfl
      · split
        · first | omega | (simp; omega)
        · first | omega | (simp; omega)
  · -- the element is processed over what the output list holds at `i`
    have hl : i < cur1.length := by omega
    simp only [hins, decide_false, Bool.false_eq_true, if_false] at hc2 hoi
    subst hc2 hoi
    refine ⟨cur1[i], cur1.drop (i + 1), drop_cons_of_lt cur1 i hl, ?_, ?_, Or.inl rfl, ?_⟩
    · rw [drop_cons_of_lt cur1 i hl]; rfl
    · by_cases hg0 : g1 > 0
      · exact Or.inl (hpf hg0)
      · have : g1 = 0 := by omega
        subst this
        simp only [Nat.add_zero, List.drop_zero] at htl1
        rw [drop_cons_of_lt cur1 i hl] at htl1; rw [← htl1] at hslots
        exact Or.inr (Or.inr hslots.1)
    · unfold SI
      simp only [hsk0', if_false]
      refine ⟨by omega, hfree2, ?_, ?_⟩
      · rw [List.drop_tail]
        by_cases hg0 : g1 > 0
        · rw [show g1 - 1 + 1 = g1 by omega, show i + 1 + (g1 - 1) = i + g1 by omega, htl1]
        · have : g1 = 0 := by omega
          subst this
          simp only [Nat.add_zero, List.drop_zero] at htl1
          rw [← htl1]; simp
      · split
        · first | omega | (simp; omega)
        · first | omega | (simp; omega)

/-- for an ordinary list element `ElemHyp` gives what `recNode_ok` needs -/
theorem ElemHyp_plain (mark : T) (np : NP) (fi i : Nat) (ok x : T) (h : ElemHyp mark np fi false i ok x) :
    putsFirst np [fi, i] x = true ∨ slot mark np [fi, i] ok x := by
  rcases h with h | ⟨_, h⟩ | h
  · exact Or.inl (runElem_putsFirst np fi i x h)
  · exact Or.inl (by simpa [elemFree] using h)
  · exact Or.inr h

/-- one element of the list processed (after the optional slice put of its run and the optional insertion past the end);
`Pc` is an invariant of the predicted output list (trivial for ordinary lists, `allE` for a `Dict`) -/
theorem slice_go_step (mark : T) (np : NP) (fi : Nat) (ns s : Option Nat) (md : Nat) (dict : Bool) (i : Nat) (run : Run)
    (cur done bt : List T) (g : Nat) (x : T) (rest : List T) (Pc : List T → Prop)
    (hwf : elemsOK mark (x :: rest) = true) (hdone : done.length = i) (hk : ¬ run.skip > 0)
    (hslots : elemSlots mark np fi dict i bt (x :: rest))
    (hsi : g ≤ run.proc ∧ runFree np fi i g (x :: rest) = true ∧ cur.drop (i + g) = bt.drop g ∧
      (if run.proc > 0 then max i run.lenRead = cur.length else i ≤ cur.length))
    (hPhead : Pc (headState mark np fi ns i run cur x rest).2.1)
    (hPins : ∀ c1, Pc c1 → Pc (c1 ++ [erase x]))
    (IHx : ∀ (cur2 : List T) (ok : T), Pc cur2 → cur2[i]? = some ok → ElemHyp mark np fi dict i ok x →
      (elemRes mark np fi dict i ok x).fail = false → applyOps (elemRes mark np fi dict i ok x).ops ok = erase x)
    (IH : ∀ (run' : Run) (cur' done' : List T) (g' : Nat), Pc cur' → done'.length = i + 1 →
      SI np fi (i + 1) run' cur' rest bt.tail g' → SliceGoal mark np fi ns s md dict rest (i + 1) run' cur' done') :
    SliceGoal mark np fi ns s md dict (x :: rest) i run cur done := by
  intro hf
  rw [recSliceGo_go _ _ _ _ _ _ _ _ _ _ hk] at hf ⊢
  obtain ⟨hg, hfree, htail, hlen⟩ := hsi
  have hp := head_post mark np fi ns i run cur x rest bt done g s md hwf hdone (by omega) hg hfree htail hlen
  generalize headState mark np fi ns i run cur x rest = d at hf hp hPhead ⊢
  obtain ⟨ops0, cur1, run1⟩ := d
  simp only at hf hp hPhead ⊢
  obtain ⟨hops, hcase⟩ := hp
  cases hcase with
  | inl h =>
    obtain ⟨hsk, hrest⟩ := h
    simp only [hsk, if_true] at hf ⊢
    rw [applyOps_append, hops]
    exact slice_skip_step mark np fi ns s md dict i run1 cur1 done bt x rest hdone hsk hrest
      (fun run' done' hd' hs' => IH run' cur1 done' 0 hPhead hd' hs') hf
  | inr h =>
    obtain ⟨hsk0, hpr, g1, hg1, hfree1, htl1, hmax⟩ := h
    have hsk0' : ¬ run1.skip > 0 := by omega
    simp only [hsk0', if_false] at hf ⊢
    generalize hc2 : (if decide (i ≥ run1.lenRead) = true then List.take i cur1 ++ [erase x] ++ List.drop i cur1 else cur1)
      = cur2 at hf ⊢
    generalize hoi : (if decide (i ≥ run1.lenRead) = true then [(⟨[], .putSlice i i .ast (!dict) [erase x]⟩ : Op)] else [])
      = opsIns at hf ⊢
    obtain ⟨ok, tl, hdrop, happ, hslot, hcur2, hsi2⟩ := go_post mark np fi s md dict i run1 cur1 done bt g1 x rest (!dict)
      hdone hslots hsk0 hpr hg1 hfree1 htl1 hmax cur2 opsIns hc2 hoi
    have hP2 : Pc cur2 := by
      cases hcur2 with
      | inl e => rw [e]; exact hPhead
      | inr e => rw [e]; exact hPins cur1 hPhead
    have hok' : cur2[i]? = some ok := getElem?_of_drop_cons hdrop
    have hok : cur2[i]?.getD .nil = ok := by rw [hok']; rfl
    rw [hok] at hf ⊢
    by_cases hrf : (elemRes mark np fi dict i ok x).fail = true
    · simp [hrf] at hf
    · simp only [hrf, if_false, Bool.false_eq_true] at hf ⊢
      simp only [Bool.not_eq_true] at hrf
      have hx := IHx cur2 ok hP2 hok' hslot hrf
      have hdone' : (done ++ [erase x]).length = i + 1 := by simp [hdone]
      have hr := IH _ cur2 (done ++ [erase x]) (g1 - 1) hP2 hdone' hsi2 hf
      have hmk := modKid_many_at s md done ok tl (applyOps (elemRes mark np fi dict i ok x).ops)
      rw [hdone] at hmk
      rw [applyOps_append, applyOps_append, applyOps_append, hops, happ, applyOps_preAll, hmk, hx]
      rw [drop_succ_of_cons hdrop] at hr
      simpa [eraseL] using hr

/-! ### `Dict` pairs -/

theorem recPair_two (mark : T) (npkv : NP) (oks : List T) (k v : T) :
    recPair mark npkv oks [k, v] =
      (let okK := oks.headD .nil
       let rk : R :=
         if k.isNode then recNode mark npkv [0] okK k
         else ⟨if okK.isNode then [⟨[], .setPrim .nil⟩] else [], false⟩
       if rk.fail then ⟨preAll 0 rk.ops, true⟩
       else
         let rv := recNode mark npkv [1] (oks.tail.headD .nil) v
         ⟨preAll 0 rk.ops ++ preAll 1 rv.ops, rv.fail⟩) := by
  rw [recPair]

/-- key / value of a pair that belongs to a run copied from the marked tree are not in place under the element -/
theorem run_kid_free (np : NP) (fi i : Nat) (pp : Path) (cfi c j : Nat) (kid : T)
    (hrun : inPlace np [fi, i] (some ⟨pp, cfi, some c⟩) = false)
    (ho : kid.origin = .tree (some ⟨pp ++ [cfi, c], j, none⟩)) : putsFirst (np.ext [fi, i]) [j] kid = true := by
  cases kid with
  | node o k cs =>
    simp only [T.origin] at ho
    subst ho
    simp only [putsFirst, Bool.not_eq_eq_eq_not, Bool.not_true]
    cases np with
    | none => simp [NP.ext, inPlace]
    | ast => simp [NP.ext, inPlace]
    | fst t q =>
      cases t with
      | succ t => simp [NP.ext, inPlace]
      | zero =>
        simp only [inPlace, Loc.rel, Option.toList, Bool.and_eq_false_iff, beq_eq_false_iff_ne, ne_eq] at hrun
        simp only [NP.ext, inPlace, Loc.rel, Option.toList, Bool.and_eq_false_iff, beq_eq_false_iff_ne, ne_eq]
        left
        intro h
        have h1 := List.append_inj' h (by simp)
        cases hrun with
        | inl h2 => exact h2 h1.1
        | inr h2 => exact h2 (by simpa using h1.2)
  | _ => simp [T.origin] at ho

theorem erase_pair_inv (m : T) (pk : Nat) (a b : T) (h : erase m = .node .new pk [a, b]) :
    ∃ mo m1 m2, m = .node mo pk [m1, m2] ∧ erase m1 = a ∧ erase m2 = b := by
  cases m with
  | node mo k cs =>
    simp only [erase, T.node.injEq, true_and] at h
    obtain ⟨rfl, hcs⟩ := h
    match cs, hcs with
    | [m1, m2], hcs =>
      simp only [eraseL, List.cons.injEq, and_true] at hcs
      exact ⟨mo, m1, m2, rfl, hcs.1, hcs.2⟩
    | [], hcs => simp [eraseL] at hcs
    | [_], hcs => simp [eraseL] at hcs
    | _ :: _ :: _ :: _, hcs => simp [eraseL] at hcs
  | nil => simp [erase] at h
  | prim v => simp [erase] at h
  | many s md cs => simp [erase] at h

theorem erase_isNode (t : T) : (erase t).isNode = t.isNode := by cases t <;> rfl

theorem erase_isNil (t : T) : (erase t).isNil = t.isNil := by cases t <;> rfl

theorem ext_base_none (np : NP) (r : Path) (h : np.base = none) : (np.ext r).base = none := by
  cases np with
  | none => simp [NP.base] at h
  | ast => rfl
  | fst t q => cases t with
    | zero => simp [NP.base] at h
    | succ t => rfl

theorem pair_apply (pk : Nat) (opsK opsV : List Op) (a b a' b' : T) (h1 : applyOps opsK a = a') (h2 : applyOps opsV b = b') :
    applyOps (preAll 0 opsK ++ preAll 1 opsV) (.node .new pk [a, b]) = .node .new pk [a', b'] := by
  rw [applyOps_append, applyOps_preAll, applyOps_preAll]
  have e1 := modKid_node_at .new pk [] a [b] (applyOps opsK)
  simp only [List.length_nil, List.nil_append] at e1
  rw [e1, h1]
  have e2 := modKid_node_at .new pk [a'] b [] (applyOps opsV)
  simp only [List.length_cons, List.length_nil, List.cons_append, List.nil_append, Nat.zero_add] at e2
  rw [e2, h2]

/-- one pair of a `Dict`: `recurse_node` on the key (or the `put(None)` of a removed key) and on the value -/
theorem pair_elem_ok (mark : T) (np : NP) (fi i : Nat) (pk : Nat) (o : Origin) (k v ok : T) (hnn : np ≠ .none)
    (hcons : pairCons mark pk o [k, v] = true) (hkey : k.isNil = true ∨ k.isNode = true)
    (hshape : ∃ m, pairShape pk m = true ∧ ok = erase m)
    (hEH : ElemHyp mark np fi true i ok (.node o pk [k, v]))
    (IHk : ∀ outa, (putsFirst (np.ext [fi, i]) [0] k = true ∨ slot mark (np.ext [fi, i]) [0] outa k) →
      (recNode mark (np.ext [fi, i]) [0] outa k).fail = false →
      applyOps (recNode mark (np.ext [fi, i]) [0] outa k).ops outa = erase k)
    (IHv : ∀ outa, (putsFirst (np.ext [fi, i]) [1] v = true ∨ slot mark (np.ext [fi, i]) [1] outa v) →
      (recNode mark (np.ext [fi, i]) [1] outa v).fail = false →
      applyOps (recNode mark (np.ext [fi, i]) [1] outa v).ops outa = erase v)
    (hf : (recPair mark (np.ext [fi, i]) ok.kids [k, v]).fail = false) :
    applyOps (recPair mark (np.ext [fi, i]) ok.kids [k, v]).ops ok = erase (.node o pk [k, v]) := by
  obtain ⟨m, hm, rfl⟩ := hshape
  -- the slot holds a pair `[okK, okV]` whose key is a node or `None`
  obtain ⟨mo, mk, mv, rfl, hmkey⟩ : ∃ mo mk mv, m = .node mo pk [mk, mv] ∧ (mk.isNode || mk.isNil) = true := by
    cases m with
    | node mo k' cs =>
      match cs, hm with
      | [a, b], hm =>
        simp only [pairShape, Bool.and_eq_true, beq_iff_eq] at hm
        exact ⟨mo, a, b, by rw [hm.1], hm.2⟩
      | [], hm => simp [pairShape] at hm
      | [_], hm => simp [pairShape] at hm
      | _ :: _ :: _ :: _, hm => simp [pairShape] at hm
    | _ => simp [pairShape] at hm
  -- what is known about the key and value slots
  have hkv : (k.isNode = true → putsFirst (np.ext [fi, i]) [0] k = true ∨ slot mark (np.ext [fi, i]) [0] (erase mk) k) ∧
      (putsFirst (np.ext [fi, i]) [1] v = true ∨ slot mark (np.ext [fi, i]) [1] (erase mv) v) := by
    rcases hEH with hrun | ⟨hself, hfree⟩ | hslot
    · -- run copied from the marked tree: key and value come from the copied element
      cases o with
      | tree l =>
        cases l with
        | none => simp [runElem] at hrun
        | some l =>
          obtain ⟨pp, cfi, idx⟩ := l
          cases idx with
          | none => simp [runElem] at hrun
          | some c =>
            simp only [runElem, Bool.not_eq_eq_eq_not, Bool.not_true] at hrun
            simp only [pairCons, Bool.and_eq_true, Bool.or_eq_true, beq_iff_eq] at hcons
            refine ⟨fun hk => Or.inl ?_, Or.inl (run_kid_free np fi i pp cfi c 1 v hrun hcons.2.2)⟩
            cases hcons.2.1 with
            | inl h => cases k <;> simp_all [T.isNil, T.isNode]
            | inr h => exact run_kid_free np fi i pp cfi c 0 k hrun h
      | _ => simp [runElem] at hrun
    · -- inserted past the end
      simp only [elemFree, if_true, T.kids, kidsFree, Bool.and_eq_true, Bool.or_eq_true] at hfree
      refine ⟨fun hk => Or.inl ?_, Or.inl hfree.2⟩
      cases hfree.1 with
      | inl h => cases k <;> simp_all [T.isNil, T.isNode]
      | inr h => exact h
    · -- the slot hypothesis of the pair gives the slot hypotheses of key and value
      cases hb : np.base with
      | none =>
        simp only [slot, hb, erase, eraseL, T.node.injEq, List.cons.injEq, and_true, true_and] at hslot
        have hb' := ext_base_none np [fi, i] hb
        refine ⟨fun _ => Or.inr ?_, Or.inr ?_⟩
        · simp only [slot, hb']; exact hslot.1
        · simp only [slot, hb']; exact hslot.2
      | some q =>
        have hnp : np = .fst 0 q := by
          cases np with
          | none => exact absurd rfl hnn
          | ast => simp [NP.base] at hb
          | fst t q' => cases t with
            | zero => simp only [NP.base, Option.some.injEq] at hb; rw [hb]
            | succ t => simp [NP.base] at hb
        subst hnp
        simp only [slot, NP.base] at hslot
        have hslot' : erase (markAt mark (q ++ [fi, i])) = .node .new pk [erase mk, erase mv] := by
          rw [← hslot]; simp [erase, eraseL]
        obtain ⟨mo', m1, m2, hM, h1, h2⟩ := erase_pair_inv _ pk _ _ hslot'
        have e0 : markAt mark ((q ++ [fi, i]) ++ [0]) = m1 := by rw [markAt_snoc, hM]; rfl
        have e1 : markAt mark ((q ++ [fi, i]) ++ [1]) = m2 := by rw [markAt_snoc, hM]; rfl
        refine ⟨fun _ => Or.inr ?_, Or.inr ?_⟩
        · simp only [slot, NP.ext, NP.base, e0, h1]
        · simp only [slot, NP.ext, NP.base, e1, h2]
  rw [recPair_two] at hf ⊢
  simp only [erase, T.kids, eraseL, List.headD_cons, List.tail_cons] at hf ⊢
  by_cases hkn : k.isNode = true
  · simp only [hkn, if_true] at hf ⊢
    by_cases hrkf : (recNode mark (np.ext [fi, i]) [0] (erase mk) k).fail = true
    · simp [hrkf] at hf
    · simp only [hrkf, if_false, Bool.false_eq_true] at hf ⊢
      simp only [Bool.not_eq_true] at hrkf
      exact pair_apply pk _ _ _ _ _ _ (IHk (erase mk) (hkv.1 hkn) hrkf) (IHv (erase mv) hkv.2 hf)
  · simp only [hkn, if_false, Bool.false_eq_true] at hf ⊢
    have hknil : k = .nil := by
      cases hkey with
      | inl h => cases k <;> simp_all [T.isNil]
      | inr h => exact absurd h hkn
    subst hknil
    refine pair_apply pk _ _ _ _ _ _ ?_ (IHv (erase mv) hkv.2 hf)
    by_cases hmn : (erase mk).isNode = true
    · simp [hmn, applyOps, applyOp, applyAt, applyAct, erase]
    · simp only [hmn, if_false, Bool.false_eq_true, applyOps]
      rw [erase_isNode] at hmn
      have : mk.isNil = true := by simpa [hmn] using hmkey
      cases mk <;> simp_all [T.isNil, erase]

/-- the elements of a run copied from a `Dict` of the marked tree are pairs of the marked tree -/
theorem run_shaped (mark : T) (pk : Nat) (pp : Path) (cfi : Nat) : ∀ (rest : List T) (nxt : Nat), wfPs mark pk rest = true →
    ∀ j, j < runLen 0 pp cfi nxt rest → pairShape pk (markAt mark (pp ++ [cfi, nxt + j])) = true
  | [], nxt, _, j, hj => by simp [runLen] at hj
  | y :: ys, nxt, hw, j, hj => by
    simp only [runLen] at hj
    split at hj
    · rename_i hf
      obtain ⟨k, cs, rfl⟩ := follows_zero pp cfi nxt y hf
      simp only [wfPs, Bool.and_eq_true] at hw
      cases j with
      | zero =>
        have := hw.1.1.2
        simp only [pairCons, Bool.and_eq_true] at this
        simpa using this.1
      | succ j =>
        have := run_shaped mark pk pp cfi ys (nxt + 1) hw.2 j (by omega)
        rw [show nxt + (j + 1) = nxt + 1 + j by omega]; exact this
    · omega

theorem allE_splice (pk : Nat) (cur pl : List T) (a b : Nat) (hc : allE pk cur) (hp : allE pk pl) :
    allE pk (cur.take a ++ pl ++ cur.drop b) := by
  intro y hy
  simp only [List.mem_append] at hy
  rcases hy with (h | h) | h
  · exact hc y (List.mem_of_mem_take h)
  · exact hp y h
  · exact hc y (List.mem_of_mem_drop h)

/-- the predicted output list of a `Dict` keeps holding pair structures across the slice put at the head of a run -/
theorem head_allE (mark : T) (np : NP) (fi : Nat) (ns : Option Nat) (i : Nat) (run : Run) (cur : List T) (x : T)
    (rest : List T) (pk : Nat) (hwf : wfPs mark pk (x :: rest) = true) (hc : allE pk cur) :
    allE pk (headState mark np fi ns i run cur x rest).2.1 := by
  by_cases hp : run.proc > 0
  · simpa [headState, hp] using hc
  · simp only [headState, hp, if_false]
    cases hsh : sliceHead mark np fi ns i x.origin with
    | none => rw [detect_none _ _ _ _ _ _ _ _ hsh]; exact hc
    | some vv =>
      obtain ⟨tid, pp, cfi, ci⟩ := vv
      have hn : runLen tid pp cfi (ci + 1) rest ≤ rest.length := runLen_le _ _ _ _ _
      rw [detect_some _ _ _ _ _ _ _ _ _ _ _ _ hsh]
      have hok := wfPs_elemsOK mark pk _ hwf
      simp only [elemsOK, Bool.and_eq_true] at hok
      by_cases ht : tid = 0
      · subst ht
        obtain ⟨⟨k, cs, rfl⟩, _⟩ := sliceHead_zero mark np fi ns i x pp cfi ci hok.1 hsh
        simp only [beq_self_eq_true, if_true]
        refine allE_splice pk cur _ _ _ hc ?_
        have h1 := wf_tree_idx mark pp cfi ci k cs hok.1
        have h2 := run_in_mark mark pp cfi rest (ci + 1) hok.2 h1
        intro y hy
        rw [eraseL_eq_map] at hy
        obtain ⟨m, hm, rfl⟩ := List.mem_map.mp hy
        obtain ⟨j, hj, hget⟩ := List.getElem_of_mem hm
        simp only [List.length_take, List.length_drop] at hj
        refine ⟨m, ?_, rfl⟩
        have hmm : markAt mark (pp ++ [cfi, ci + j]) = m := by
          rw [markAt_elem]
          simp only [List.getElem_take, List.getElem_drop] at hget
          rw [List.getElem?_eq_getElem (by omega), hget]; rfl
        rw [← hmm]
        cases j with
        | zero =>
          simp only [wfPs, Bool.and_eq_true] at hwf
          have := hwf.1.1.2
          simp only [pairCons, Bool.and_eq_true] at this
          simpa using this.1
        | succ j =>
          simp only [wfPs, Bool.and_eq_true] at hwf
          have := run_shaped mark pk pp cfi rest (ci + 1) hwf.2 j (by omega)
          rw [show ci + (j + 1) = ci + 1 + j by omega]; exact this
      · have ht' : (tid == 0) = false := by simp [ht]
        simp only [ht', Bool.false_eq_true, if_false]
        by_cases hok2 : allOk ((x :: rest).take (1 + runLen tid pp cfi (ci + 1) rest)) = true
        · simp only [hok2, if_true]
          refine allE_splice pk cur _ _ _ hc ?_
          refine allE_eraseL pk _ (fun m hm => ?_)
          exact wfPs_shaped mark pk _ hwf m (List.mem_of_mem_take hm)
        · simp only [hok2, Bool.false_eq_true, if_false]; exact hc

theorem ast_hs (mark : T) (np : NP) (rel : Path) (outa n : T)
    (hs : putsFirst np rel n = true ∨ slot mark np rel outa n) (hp : putsFirst np rel n = (np != .ast)) :
    (np != .ast) = true ∨ outa = erase n := by
  cases hs with
  | inl h => left; rw [← hp]; exact h
  | inr h =>
    cases hb : np.base with
    | none => right; simpa [slot, hb] using h
    | some q => left; simpa using base_ne_ast hb

theorem scalar_res_ok (np : NP) (ok c : T) (hs : scalarSlot np ok c) :
    applyOps (if (np != .ast && pyNe c ok) = true then [(⟨[], .setPrim c⟩ : Op)] else []) ok = c := by
  by_cases hput : (np != .ast && pyNe c ok) = true
  · simp [hput, applyOps, applyOp, applyAt, applyAct]
  · simp only [hput, if_false, Bool.false_eq_true, applyOps]
    simp only [Bool.and_eq_true, bne_iff_ne, ne_eq, not_and, Bool.not_eq_true] at hput
    by_cases hnp : np = .ast
    · exact hs.1 hnp
    · exact (hs.2 hnp (hput hnp)).symm

mutual
theorem recNode_ok (mark : T) : ∀ (n : T) (np : NP) (rel : Path) (outa : T),
    wfN mark n = true → (putsFirst np rel n = true ∨ slot mark np rel outa n) →
    (recNode mark np rel outa n).fail = false →
    applyOps (recNode mark np rel outa n).ops outa = erase n
  | .nil, np, rel, outa, _, hs, _ => by
    rw [recNode]
    have := ast_hs mark np rel outa .nil hs rfl
    by_cases h : np = .ast
    · subst h; simp at this; simp [this, applyOps, erase]
    · by_cases hp : pyNe .nil outa = true
      · simp [h, hp, applyOps, applyOp, applyAt, applyAct, erase]
      · have he := pyNe_false_eq .nil outa rfl (by simpa using hp)
        subst he
        simp [h, pyNe, applyOps, erase]
  | .prim v, np, rel, outa, _, hs, _ => by
    rw [recNode]
    have := ast_hs mark np rel outa (.prim v) hs rfl
    by_cases h : np = .ast
    · subst h; simp at this; simp [this, applyOps, erase]
    · by_cases hp : pyNe (.prim v) outa = true
      · simp [h, hp, applyOps, applyOp, applyAt, applyAct, erase]
      · have he := pyNe_false_eq (.prim v) outa rfl (by simpa using hp)
        subst he
        simp [h, pyNe, applyOps, erase]
  | .many s m cs, _, _, _, hwf, _, _ => by simp [wfN] at hwf
  | .node (.foreign true tid l sg) k cs, np, rel, outa, _, _, _ => by
    rw [recNode_foreign_ok]; simp [applyOps, applyOp, applyAt, applyAct, erase]
  | .node (.foreign false tid l sg) k cs, np, rel, outa, hwf, hs, hf => by
    rw [recNode_foreign_bad] at hf ⊢
    simp only [wfN, Bool.and_eq_true, bne_iff_ne, ne_eq] at hwf
    have hb : (NP.fst tid (qOf l)).base = none := by
      cases tid with
      | zero => exact absurd rfl hwf.1
      | succ t => rfl
    have hs' := ast_hs mark np rel outa _ hs rfl
    simp only [erase] at hs' ⊢
    exact astPath_ok mark np (.fst tid (qOf l)) outa k cs hs'
      (fun h => recFields_ok mark cs (.fst tid (qOf l)) 0 (eraseL cs) [] .new k hwf.2 (by simp) rfl (fieldSlots_self mark _ hb cs 0 hwf.2) h) hf
  | .node .new k cs, np, rel, outa, hwf, hs, hf => by
    rw [recNode_new] at hf ⊢
    simp only [wfN] at hwf
    have hs' := ast_hs mark np rel outa _ hs rfl
    simp only [erase] at hs' ⊢
    exact astPath_ok mark np .ast outa k cs hs'
      (fun h => recFields_ok mark cs .ast 0 (eraseL cs) [] .new k hwf (by simp) rfl (fieldSlots_self mark _ rfl cs 0 hwf) h) hf
  | .node (.tree l) k cs, np, rel, outa, hwf, hs, _ => by
    simp only [wfN, Bool.and_eq_true] at hwf
    obtain ⟨hm, hcs⟩ := hwf
    cases hmq : markAt mark (qOf l) with
    | node mo mk mcs =>
      rw [hmq] at hm
      simp only [Bool.and_eq_true, beq_iff_eq] at hm
      obtain ⟨rfl, hshape⟩ := hm
      have hk : (markAt mark (qOf l)).kids.drop 0 = mcs := by rw [hmq]; rfl
      have hsl := fieldSlots_mark mark (qOf l) cs 0 (by rw [hk]; exact hshape) hcs
      rw [hk] at hsl
      simp only [erase]
      exact tree_ok mark np rel outa l mk cs mo mcs hmq hs
        (fun h => recFields_ok mark cs (.fst 0 (qOf l)) 0 (eraseL mcs) [] .new mk hcs (by simp) rfl hsl h)
    | nil => rw [hmq] at hm; simp at hm
    | prim v => rw [hmq] at hm; simp at hm
    | many s m x => rw [hmq] at hm; simp at hm

theorem recFields_ok (mark : T) : ∀ (fs : List T) (np : NP) (fi : Nat) (oks pre : List T) (o : Origin) (k : Nat),
    wfFs mark fs = true → np ≠ .none → pre.length = fi → fieldSlots mark np fi oks fs →
    (recFields mark np fi oks fs).fail = false →
    applyOps (recFields mark np fi oks fs).ops (.node o k (pre ++ oks)) = .node o k (pre ++ eraseL fs)
  | [], np, fi, oks, pre, o, k, _, _, _, hsl, _ => by
    cases oks with
    | nil => rw [recFields]; rfl
    | cons a b => simp [fieldSlots] at hsl
  | c :: rest, np, fi, oks, pre, o, k, hwf, hnn, hpre, hsl, hf => by
    cases oks with
    | nil => simp [fieldSlots] at hsl
    | cons ok oks' =>
      subst hpre
      simp only [fieldSlots] at hsl
      obtain ⟨hs1, hsr⟩ := hsl
      rw [recFields_cons] at hf ⊢
      simp only [List.headD_cons, List.tail_cons] at hf ⊢
      have hwr : wfFs mark rest = true := by cases c <;> simp_all [wfFs]
      refine seq_apply pre.length _ _ _ (.node o k (pre ++ erase c :: oks')) _ hf ?_ ?_
      · intro hr
        rw [modKid_node_at]
        suffices hx : applyOps (fieldRes mark np pre.length ok c).ops ok = erase c by rw [hx]
        cases c with
        | nil => simp only [fieldRes, T.isNode, Bool.false_eq_true, if_false]; exact scalar_res_ok np ok .nil hs1
        | prim v => simp only [fieldRes, T.isNode, Bool.false_eq_true, if_false]; exact scalar_res_ok np ok (.prim v) hs1
        | node o' k' cs' =>
          have hwc : wfN mark (.node o' k' cs') = true := by simp_all [wfFs]
          have he : fieldRes mark np pre.length ok (.node o' k' cs') = recNode mark np [pre.length] ok (.node o' k' cs') := by
            simp [fieldRes, T.isNode]
          rw [he] at hr ⊢
          exact recNode_ok mark (.node o' k' cs') np [pre.length] ok hwc (Or.inr hs1) hr
        | many s md items =>
          obtain ⟨cur, rfl, hsl⟩ := hs1
          simp only [wfFs, Bool.and_eq_true] at hwf
          obtain ⟨hwe, _⟩ := hwf
          by_cases h1 : md = 1
          · subst h1
            have he : fieldRes mark np pre.length (.many s 1 cur) (.many s 1 items)
                = recSliceGo mark np pre.length s false 0 {} cur items := by simp [fieldRes, T.isNode, T.kids]
            rw [he] at hr ⊢
            simp only [if_true] at hsl
            have hsi : SI np pre.length 0 {} cur items cur 0 := by simp [SI, runFree]
            have := recSlice_ok mark items np pre.length s false 0 0 {} cur [] cur 0 s 1 (by simpa using hwe) hnn rfl hsl hsi
              (by simp) hr
            simpa [erase] using this
          · by_cases h2 : md = 2
            · subst h2
              have he : fieldRes mark np pre.length (.many s 2 cur) (.many s 2 items)
                  = recSliceGo mark np pre.length s true 0 {} cur items := by simp [fieldRes, T.isNode, T.kids]
              rw [he] at hr ⊢
              simp only [h1, if_false, if_true] at hsl
              have hsi : SI np pre.length 0 {} cur items cur 0 := by simp [SI, runFree]
              have hE : true = true → items ≠ [] → allE (items.headD .nil).kind cur := fun _ hne => hsl.2 hne
              have := recSlice_ok mark items np pre.length s true (items.headD .nil).kind 0 {} cur [] cur 0 s 2
                (by simpa using hwe) hnn rfl hsl.1 hsi hE hr
              simpa [erase] using this
            · simp only [h1, h2, if_false] at hsl
              have he : fieldRes mark np pre.length (.many s md cur) (.many s md items)
                  = if items.length != cur.length then ⟨[], true⟩ else recPlain mark np pre.length 0 cur items := by
                simp [fieldRes, T.isNode, T.kids, h1, h2]
              rw [he] at hr ⊢
              by_cases hl : (items.length != cur.length) = true
              · simp [hl] at hr
              · simp only [hl, if_false, Bool.false_eq_true] at hr ⊢
                simp only [bne_iff_ne, ne_eq, Decidable.not_not] at hl
                have hwe' : wfEs mark items = true := by
                  have : (md == 2) = false := by simp [h2]
                  simpa [this] using hwe
                have := recPlain_ok mark items np pre.length 0 cur [] s md hwe' rfl hl.symm hsl hr
                simpa [erase] using this
      · intro h2
        have := recFields_ok mark rest np (pre.length + 1) oks' (pre ++ [erase c]) o k hwr hnn (by simp) hsr h2
        simpa [eraseL] using this

theorem recPlain_ok (mark : T) : ∀ (items : List T) (np : NP) (fi j : Nat) (oks pre : List T) (s : Option Nat) (md : Nat),
    wfEs mark items = true → pre.length = j → oks.length = items.length → plainSlots mark np fi j oks items →
    (recPlain mark np fi j oks items).fail = false →
    applyOps (recPlain mark np fi j oks items).ops (.many s md (pre ++ oks)) = .many s md (pre ++ eraseL items)
  | [], np, fi, j, oks, pre, s, md, _, _, hl, _, _ => by
    cases oks with
    | nil => rw [recPlain]; rfl
    | cons a b => simp at hl
  | c :: rest, np, fi, j, oks, pre, s, md, hwf, hpre, hl, hsl, hf => by
    cases oks with
    | nil => simp at hl
    | cons ok oks' =>
      subst hpre
      simp only [plainSlots] at hsl
      simp only [wfEs, Bool.and_eq_true] at hwf
      rw [recPlain_cons] at hf ⊢
      simp only [List.headD_cons, List.tail_cons] at hf ⊢
      refine seq_apply pre.length _ _ _ (.many s md (pre ++ erase c :: oks')) _ hf ?_ ?_
      · intro hr
        rw [modKid_many_at, recNode_ok mark c np [fi, pre.length] ok hwf.1 (Or.inr hsl.1) hr]
      · intro h2
        have := recPlain_ok mark rest np fi (pre.length + 1) oks' (pre ++ [erase c]) s md hwf.2 (by simp) (by simpa using hl)
          hsl.2 h2
        simpa [eraseL] using this

theorem recSlice_ok (mark : T) : ∀ (body : List T) (np : NP) (fi : Nat) (ns : Option Nat) (dict : Bool) (pk : Nat) (i : Nat)
    (run : Run) (cur done bt : List T) (g : Nat) (s : Option Nat) (md : Nat),
    (if dict then wfPs mark pk body = true else wfEs mark body = true) → np ≠ .none → done.length = i →
    elemSlots mark np fi dict i bt body → SI np fi i run cur body bt g → (dict = true → body ≠ [] → allE pk cur) →
    SliceGoal mark np fi ns s md dict body i run cur done
  | [], np, fi, ns, dict, pk, i, run, cur, done, bt, g, s, md, _, _, hdone, _, _, _ =>
    slice_nil mark np fi ns s md dict i run cur done hdone
  | x :: rest, np, fi, ns, dict, pk, i, run, cur, done, bt, g, s, md, hwf, hnn, hdone, hsl, hsi, hE => by
    have helems : elemsOK mark (x :: rest) = true := by
      cases dict with
      | false => exact wfEs_elemsOK mark _ (by simpa using hwf)
      | true => exact wfPs_elemsOK mark pk _ (by simpa using hwf)
    have hwr : (if dict then wfPs mark pk rest = true else wfEs mark rest = true) := by
      cases dict with
      | false =>
        simp only [Bool.false_eq_true, if_false, wfEs, Bool.and_eq_true] at hwf ⊢
        exact hwf.2
      | true =>
        simp only [if_true] at hwf ⊢
        cases x with
        | node o k kv => simp only [wfPs, Bool.and_eq_true] at hwf; exact hwf.2
        | nil => simp [wfPs] at hwf
        | prim v => simp [wfPs] at hwf
        | many a b c => simp [wfPs] at hwf
    have hEc : dict = true → allE pk cur := fun hd => hE hd (by simp)
    have IH : ∀ (run' : Run) (cur' done' : List T) (g' : Nat), (dict = true → allE pk cur') → done'.length = i + 1 →
        SI np fi (i + 1) run' cur' rest bt.tail g' → SliceGoal mark np fi ns s md dict rest (i + 1) run' cur' done' :=
      fun run' cur' done' g' hP hd' hs' =>
        recSlice_ok mark rest np fi ns dict pk (i + 1) run' cur' done' bt.tail g' s md hwr hnn hd'
          (elemSlots_tail mark np fi dict i bt x rest hsl) hs' (fun hd _ => hP hd)
    by_cases hk : run.skip > 0
    · intro hf
      rw [recSliceGo_skip _ _ _ _ _ _ _ _ _ _ hk] at hf ⊢
      unfold SI at hsi
      simp only [hk, if_true] at hsi
      exact slice_skip_step mark np fi ns s md dict i run cur done bt x rest hdone hk hsi
        (fun run' done' hd' hs' => IH run' cur done' 0 hEc hd' hs') hf
    · unfold SI at hsi
      simp only [hk, if_false] at hsi
      refine slice_go_step mark np fi ns s md dict i run cur done bt g x rest (fun c => dict = true → allE pk c)
        helems hdone hk hsl hsi ?_ ?_ ?_ IH
      · intro hd
        subst hd
        exact head_allE mark np fi ns i run cur x rest pk (by simpa using hwf) (hEc rfl)
      · intro c1 hc1 hd y hy
        subst hd
        simp only [List.mem_append, List.mem_singleton] at hy
        cases hy with
        | inl h => exact hc1 rfl y h
        | inr h => exact ⟨x, wfPs_shaped mark pk _ (by simpa using hwf) x (by simp), h⟩
      · intro cur2 ok hP2 hok heh hfail
        cases dict with
        | false =>
          simp only [elemRes, Bool.false_eq_true, if_false] at hfail ⊢
          simp only [Bool.false_eq_true, if_false, wfEs, Bool.and_eq_true] at hwf
          exact recNode_ok mark x np [fi, i] ok hwf.1 (ElemHyp_plain mark np fi i ok x heh) hfail
        | true =>
          simp only [if_true] at hwf
          cases x with
          | node o k kv =>
            simp only [wfPs, Bool.and_eq_true, beq_iff_eq] at hwf
            obtain ⟨⟨⟨rfl, hcons⟩, hkv⟩, _⟩ := hwf
            cases kv with
            | nil => simp [wfKV] at hkv
            | cons kk r1 =>
              cases r1 with
              | nil => simp [wfKV] at hkv
              | cons vv r2 =>
                cases r2 with
                | cons _ _ => simp [wfKV] at hkv
                | nil =>
                  simp only [wfKV, Bool.and_eq_true, Bool.or_eq_true] at hkv
                  simp only [elemRes, if_true] at hfail ⊢
                  have hkey : kk.isNil = true ∨ kk.isNode = true := by
                    cases hkv.1 with
                    | inl h => exact Or.inl h
                    | inr h => exact Or.inr h.1
                  have hwk : wfN mark kk = true := by
                    cases hkv.1 with
                    | inl h => cases kk <;> simp_all [T.isNil, wfN]
                    | inr h => exact h.2
                  exact pair_elem_ok mark np fi i k o kk vv ok hnn hcons hkey
                    (hP2 rfl ok (List.mem_of_getElem? hok)) heh
                    (fun outa hs hf => recNode_ok mark kk (np.ext [fi, i]) [0] outa hwk hs hf)
                    (fun outa hs hf => recNode_ok mark vv (np.ext [fi, i]) [1] outa hkv.2 hs hf) hfail
          | nil => simp [wfPs] at hwf
          | prim v => simp [wfPs] at hwf
          | many a b c => simp [wfPs] at hwf
end

end Pfst.Reconcile
