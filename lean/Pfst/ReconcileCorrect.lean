import Pfst.ReconcileLemmas
/-!
Correctness of the reconcile trace (`Pfst/Reconcile.lean`): replaying the emitted operations on what the output tree holds
at a slot yields the structure of the edited node.  Mutual structural induction over the edited tree, following the call
structure `recNode / recFields / recPlain / recSliceGo`.

Side conditions (`wfN`, decidable): every in-tree origin names a node of the marked tree of the same kind whose fields have
the same shape (same number of fields, list fields with the same compatibility class and mode), primitives that are `==`
to the marked value are identical (`primOK`), nodes of other trees carry a tree id `≠ 0`, list elements are not lists.
-/
namespace Pfst.Reconcile

/-! ### paths into the marked tree -/

theorem getAt_append (t : T) (p q : Path) : getAt t (p ++ q) = (getAt t p).bind (fun c => getAt c q) := by
  induction p generalizing t with
  | nil => simp [getAt]
  | cons i p ih =>
    simp only [List.cons_append, getAt]
    cases h : t.kids[i]? with
    | none => simp
    | some c => simp [ih]

theorem markAt_nil (mark : T) : markAt mark [] = mark := by simp [markAt, getAt]

theorem markAt_snoc (mark : T) (q : Path) (i : Nat) :
    markAt mark (q ++ [i]) = ((markAt mark q).kids[i]?).getD .nil := by
  simp only [markAt, getAt_append]
  cases h : getAt mark q with
  | none => simp [T.kids]
  | some c =>
    simp only [Option.bind_some, Option.getD_some, getAt]
    cases c.kids[i]? <;> simp

/-- The path (in the marked tree) of the node whose children a recursion with parent `np` is visiting. -/
def NP.base : NP → Option Path
  | .none => Option.some []
  | .fst 0 q => Option.some q
  | _ => Option.none

/-- What the output tree holds at a slot: under an in-tree parent the marked node at that path, under a node that was put
as a pure AST the edited node itself. -/
def slot (mark : T) (np : NP) (rel : Path) (ok c : T) : Prop :=
  match np.base with
  | some q => ok = erase (markAt mark (q ++ rel))
  | none => ok = erase c

/-- `recNode` starts with a put at the slot itself (so the previous content of the slot is irrelevant). -/
def putsFirst (np : NP) (rel : Path) : T → Bool
  | .node (.foreign true _ _ _) _ _ => true
  | .node (.tree l) _ _ => !(inPlace np rel l)
  | .node _ _ _ => np != .ast
  | .nil => np != .ast
  | .prim _ => np != .ast
  | .many _ _ _ => false

theorem inPlace_base (np : NP) (rel : Path) (l : Option Loc) (h : inPlace np rel l = true) :
    ∃ q, np.base = some q ∧ qOf l = q ++ rel := by
  cases np with
  | none =>
    cases l with
    | none => simp [inPlace] at h; exact ⟨[], rfl, by simp [qOf, h]⟩
    | some l => simp [inPlace] at h
  | ast => simp [inPlace] at h
  | fst tid pq =>
    cases tid with
    | zero =>
      cases l with
      | none => simp [inPlace] at h
      | some l =>
        simp only [inPlace, Bool.and_eq_true, beq_iff_eq] at h
        exact ⟨pq, rfl, by simp [qOf, Loc.full, h.1, h.2]⟩
    | succ t => cases l <;> simp [inPlace] at h

/-! ### slot hypotheses of the list recursions -/

def scalarSlot (np : NP) (ok c : T) : Prop := (np = .ast → ok = c) ∧ (np ≠ .ast → pyNe c ok = false → c = ok)

def plainSlots (mark : T) (np : NP) (fi : Nat) : Nat → List T → List T → Prop
  | j, ok :: oks, x :: r => slot mark np [fi, j] ok x ∧ plainSlots mark np fi (j + 1) oks r
  | _, _, _ => True

/-- `bt` = what the output list held from index `i` on when the loop started -/
def elemSlots (mark : T) (np : NP) (fi : Nat) : Nat → List T → List T → Prop
  | _, _, [] => True
  | i, [], x :: body => putsFirst np [fi, i] x = true ∧ elemSlots mark np fi (i + 1) [] body
  | i, b :: bt, x :: body => slot mark np [fi, i] b x ∧ elemSlots mark np fi (i + 1) bt body

def fieldSlot (mark : T) (np : NP) (fi : Nat) (ok : T) : T → Prop
  | .node o k cs => slot mark np [fi] ok (.node o k cs)
  | .many s md items => ∃ cur, ok = .many s md cur ∧
      (if md = 1 then elemSlots mark np fi 0 cur items else plainSlots mark np fi 0 cur items)
  | .nil => scalarSlot np ok .nil
  | .prim v => scalarSlot np ok (.prim v)

def fieldSlots (mark : T) (np : NP) : Nat → List T → List T → Prop
  | _, [], [] => True
  | fi, ok :: oks, c :: fs => fieldSlot mark np fi ok c ∧ fieldSlots mark np (fi + 1) oks fs
  | _, _, _ => False

def runFree (np : NP) (fi : Nat) : Nat → Nat → List T → Bool
  | _, 0, _ => true
  | _, _ + 1, [] => true
  | i, g + 1, x :: rest => putsFirst np [fi, i] x && runFree np fi (i + 1) g rest

/-! ### list helpers -/

theorem eraseL_eq_map (l : List T) : eraseL l = l.map erase := by
  induction l with
  | nil => rfl
  | cons a r ih => simp [eraseL, ih]

theorem drop_succ_of_cons {α} {l : List α} {i : Nat} {a : α} {tl : List α} (h : l.drop i = a :: tl) : l.drop (i + 1) = tl := by
  have : l.drop (i + 1) = (l.drop i).drop 1 := by simp [List.drop_drop]
  rw [this, h]; rfl

theorem getElem?_of_drop_cons {α} {l : List α} {i : Nat} {a : α} {tl : List α} (h : l.drop i = a :: tl) : l[i]? = some a := by
  have := List.head?_drop (l := l) (i := i)
  rw [h] at this; simpa using this.symm

theorem lt_of_drop_cons {α} {l : List α} {i : Nat} {a : α} {tl : List α} (h : l.drop i = a :: tl) : i < l.length := by
  by_cases hh : i < l.length
  · exact hh
  · have : l.drop i = [] := List.drop_eq_nil_of_le (by omega)
    rw [this] at h; cases h

theorem drop_cons_of_lt {α} (l : List α) (i : Nat) (h : i < l.length) : l.drop i = l[i] :: l.drop (i + 1) := by
  simp

theorem modKid_many_at (s : Option Nat) (md : Nat) (pre : List T) (x : T) (post : List T) (f : T → T) :
    modKid pre.length f (.many s md (pre ++ x :: post)) = .many s md (pre ++ f x :: post) := by
  simp [modKid, modify_at]

theorem putSlice_at (s : Option Nat) (md : Nat) (done cur p : List T) (i n : Nat) (src : Src) (one : Bool)
    (hd : done.length = i) :
    applyOps [⟨[], .putSlice i (i + n) src one p⟩] (.many s md (done ++ cur.drop i))
      = .many s md (done ++ (p ++ cur.drop (i + n))) := by
  subst hd
  simp [applyOps, applyOp, applyAt, applyAct, List.drop_drop]

theorem drop_splice (cur p : List T) (i n : Nat) (h : i ≤ cur.length) :
    (cur.take i ++ p ++ cur.drop (i + n)).drop i = p ++ cur.drop (i + n) := by
  have hl : (cur.take i).length = i := by simp; omega
  rw [List.append_assoc, List.drop_left' hl]

/-! ### unfolding the model one step -/

theorem recNode_tree (mark : T) (np : NP) (rel : Path) (outa : T) (l : Option Loc) (k : Nat) (cs : List T) :
  recNode mark np rel outa (.node (.tree l) k cs) =
    (let q := qOf l
    let off := !(inPlace np rel l)
    let copy := erase (markAt mark q)
    let pre : List Op := if off then [⟨[], .put (.mark q) copy⟩] else []
    let outa' := if off then copy else outa
    if !outa'.isNode then ⟨pre, false⟩ else
    let r := recFields mark (.fst 0 q) 0 outa'.kids cs
    if r.fail then ⟨pre ++ r.ops ++ [⟨[], .put .ast (.node .new k (eraseL cs))⟩], false⟩ else ⟨pre ++ r.ops, false⟩) := by
  rw [recNode]; rfl

/-- the pure-AST path of `recurse_node` (no `.f`, or an `.f` of another tree that failed `verify`) -/
def astPath (mark : T) (np np' : NP) (outa : T) (k : Nat) (cs : List T) : R :=
  let putIt := np != .ast
  let pre : List Op := if putIt then [⟨[], .put .ast (.node .new k (eraseL cs))⟩] else []
  let outa' := if putIt then .node .new k (eraseL cs) else outa
  if !outa'.isNode then ⟨pre, false⟩ else
  let r := recFields mark np' 0 outa'.kids cs
  ⟨pre ++ r.ops, r.fail⟩

theorem recNode_new (mark : T) (np : NP) (rel : Path) (outa : T) (k : Nat) (cs : List T) :
    recNode mark np rel outa (.node .new k cs) = astPath mark np .ast outa k cs := by
  rw [recNode]; rfl

theorem recNode_foreign_bad (mark : T) (np : NP) (rel : Path) (outa : T) (tid : Nat) (l : Option Loc) (sg : Option Nat)
    (k : Nat) (cs : List T) :
    recNode mark np rel outa (.node (.foreign false tid l sg) k cs) = astPath mark np (.fst tid (qOf l)) outa k cs := by
  rw [recNode]; rfl

theorem recNode_foreign_ok (mark : T) (np : NP) (rel : Path) (outa : T) (tid : Nat) (l : Option Loc) (sg : Option Nat)
    (k : Nat) (cs : List T) :
    recNode mark np rel outa (.node (.foreign true tid l sg) k cs) =
      ⟨[⟨[], .put (.foreign tid) (.node .new k (eraseL cs))⟩], false⟩ := by
  rw [recNode]

/-- what `recurse_children` does with one field -/
def fieldRes (mark : T) (np : NP) (fi : Nat) (ok c : T) : R :=
  if c.isNode then recNode mark np [fi] ok c else
  match c with
  | .many sig mode items =>
    if mode == 1 then recSliceGo mark np fi sig false 0 {} ok.kids items
    else if mode == 2 then recSliceGo mark np fi sig true 0 {} ok.kids items
    else if items.length != ok.kids.length then ⟨[], true⟩
    else recPlain mark np fi 0 ok.kids items
  | s => ⟨if np != .ast && pyNe s ok then [⟨[], .setPrim s⟩] else [], false⟩

/-- sequencing of a step on child `i` with the rest of the loop -/
def seqR (i : Nat) (r r2 : R) : R :=
  if r.fail then ⟨preAll i r.ops, true⟩ else ⟨preAll i r.ops ++ r2.ops, r2.fail⟩

theorem seqR_fail {i : Nat} {r r2 : R} (h : (seqR i r r2).fail = false) : r.fail = false ∧ r2.fail = false := by
  unfold seqR at h
  by_cases hr : r.fail = true
  · simp [hr] at h
  · simp only [hr] at h; simp at hr; exact ⟨hr, h⟩

theorem seqR_ops {i : Nat} {r r2 : R} (h : r.fail = false) : (seqR i r r2).ops = preAll i r.ops ++ r2.ops := by
  simp [seqR, h]

theorem recFields_cons (mark : T) (np : NP) (fi : Nat) (oks : List T) (c : T) (rest : List T) :
    recFields mark np fi oks (c :: rest) =
      seqR fi (fieldRes mark np fi (oks.headD .nil) c) (recFields mark np (fi + 1) oks.tail rest) := by
  cases c
  case many s m cs => rw [recFields]; rfl
  all_goals (rw [recFields]; rfl; intro s m cs h; cases h)

theorem recPlain_cons (mark : T) (np : NP) (fi j : Nat) (oks : List T) (c : T) (rest : List T) :
    recPlain mark np fi j oks (c :: rest) =
      seqR j (recNode mark np [fi, j] (oks.headD .nil) c) (recPlain mark np fi (j + 1) oks.tail rest) := by
  rw [recPlain]; rfl

theorem recSliceGo_nil (mark : T) (np : NP) (fi : Nat) (ns : Option Nat) (dict : Bool) (i : Nat) (run : Run) (cur : List T) :
    recSliceGo mark np fi ns dict i run cur [] = ⟨if i < cur.length then [⟨[], .delTail i⟩] else [], false⟩ := by
  rw [recSliceGo]

theorem recSliceGo_skip (mark : T) (np : NP) (fi : Nat) (ns : Option Nat) (dict : Bool) (i : Nat) (run : Run) (cur : List T)
    (x : T) (rest : List T) (h : run.skip > 0) :
    recSliceGo mark np fi ns dict i run cur (x :: rest) =
      recSliceGo mark np fi ns dict (i + 1) { run with skip := run.skip - 1 } cur rest := by
  rw [recSliceGo]; simp [h]

/-- state at the head of the element loop: continue the current run or detect a new one -/
def headState (mark : T) (np : NP) (fi : Nat) (ns : Option Nat) (i : Nat) (run : Run) (cur : List T) (x : T) (rest : List T) :
    List Op × List T × Run :=
  if run.proc > 0 then ([], cur, run) else detect mark np fi ns i cur x rest

/-- processing of one element of the list -/
def elemRes (mark : T) (np : NP) (fi : Nat) (dict : Bool) (i : Nat) (ok x : T) : R :=
  if dict then
    match x with
    | .node _ _ kv => recPair mark (np.ext [fi, i]) ok.kids kv
    | _ => ⟨[], false⟩
  else recNode mark np [fi, i] ok x

theorem recSliceGo_go (mark : T) (np : NP) (fi : Nat) (ns : Option Nat) (dict : Bool) (i : Nat) (run : Run) (cur : List T)
    (x : T) (rest : List T) (h : ¬ run.skip > 0) :
    recSliceGo mark np fi ns dict i run cur (x :: rest) =
      (let d := headState mark np fi ns i run cur x rest
       if d.2.2.skip > 0 then
         let r2 := recSliceGo mark np fi ns dict (i + 1) { d.2.2 with skip := d.2.2.skip - 1 } d.2.1 rest
         ⟨d.1 ++ r2.ops, r2.fail⟩
       else
         let ins := decide (i ≥ d.2.2.lenRead)
         let cur2 := if ins then d.2.1.take i ++ [erase x] ++ d.2.1.drop i else d.2.1
         let opsIns : List Op := if ins then [⟨[], .putSlice i i .ast (!dict) [erase x]⟩] else []
         let r := elemRes mark np fi dict i ((cur2[i]?).getD .nil) x
         let r2 := recSliceGo mark np fi ns dict (i + 1) { d.2.2 with proc := d.2.2.proc - 1 } cur2 rest
         if r.fail then ⟨d.1 ++ opsIns ++ preAll i r.ops, true⟩
         else ⟨d.1 ++ opsIns ++ preAll i r.ops ++ r2.ops, r2.fail⟩) := by
  rw [recSliceGo]; simp only [h, if_false]; rfl

/-! ### facts about runs -/

theorem runLen_le (tid : Nat) (pp : Path) (cfi : Nat) : ∀ (l : List T) (nxt : Nat), runLen tid pp cfi nxt l ≤ l.length
  | [], _ => by simp [runLen]
  | y :: ys, nxt => by
    simp only [runLen]
    split
    · have := runLen_le tid pp cfi ys (nxt + 1); simp; omega
    · simp

/-- an in-tree origin with a list index names an existing element of the marked list -/
theorem wf_tree_idx (mark : T) (pp : Path) (cfi ci k : Nat) (cs : List T)
    (h : wfN mark (.node (.tree (some ⟨pp, cfi, some ci⟩)) k cs) = true) :
    ci < (markAt mark (pp ++ [cfi])).kids.length := by
  simp only [wfN, Bool.and_eq_true] at h
  have hq : qOf (some ⟨pp, cfi, some ci⟩) = (pp ++ [cfi]) ++ [ci] := by simp [qOf, Loc.full, Loc.rel]
  rw [hq, markAt_snoc] at h
  by_cases hlt : ci < (markAt mark (pp ++ [cfi])).kids.length
  · exact hlt
  · have : (markAt mark (pp ++ [cfi])).kids[ci]? = none := by simp; omega
    rw [this] at h; simp at h

theorem follows_zero (pp : Path) (cfi nxt : Nat) (y : T) (h : follows 0 pp cfi nxt y.origin = true) :
    ∃ k cs, y = .node (.tree (some ⟨pp, cfi, some nxt⟩)) k cs := by
  cases y with
  | nil => simp [T.origin, follows] at h
  | prim v => simp [T.origin, follows] at h
  | many s m cs => simp [T.origin, follows] at h
  | node o k cs =>
    cases o with
    | new => simp [T.origin, follows] at h
    | foreign ok t l sg => cases l <;> simp [T.origin, follows] at h
    | tree l =>
      cases l with
      | none => simp [T.origin, follows] at h
      | some l =>
        obtain ⟨a, b, c⟩ := l
        simp only [T.origin, follows, Bool.and_eq_true, beq_iff_eq] at h
        obtain ⟨⟨⟨_, h1⟩, h2⟩, h3⟩ := h
        subst h1 h2 h3
        exact ⟨k, cs, rfl⟩

/-- the elements of a run taken from the marked tree exist there -/
theorem run_in_mark (mark : T) (pp : Path) (cfi : Nat) : ∀ (rest : List T) (nxt : Nat), wfEs mark rest = true →
    nxt ≤ (markAt mark (pp ++ [cfi])).kids.length →
    nxt + runLen 0 pp cfi nxt rest ≤ (markAt mark (pp ++ [cfi])).kids.length
  | [], nxt, _, h => by simp [runLen]; exact h
  | y :: ys, nxt, hw, h => by
    simp only [runLen]
    split
    · rename_i hf
      obtain ⟨k, cs, rfl⟩ := follows_zero pp cfi nxt y hf
      simp only [wfEs, Bool.and_eq_true] at hw
      have h1 := wf_tree_idx mark pp cfi nxt k cs hw.1
      have := run_in_mark mark pp cfi ys (nxt + 1) hw.2 h1
      omega
    · simpa using h

/-- the elements of a run taken from the marked tree are all off path: each is put again on its own -/
theorem runFree_runLen (np : NP) (fi i : Nat) (pp : Path) (cfi ci : Nat)
    (hC : ∀ k, inPlace np [fi, i + k] (some ⟨pp, cfi, some (ci + k)⟩) = false) :
    ∀ (rest : List T) (k : Nat), runFree np fi (i + k) (runLen 0 pp cfi (ci + k) rest) rest = true
  | [], k => by simp [runLen, runFree]
  | y :: ys, k => by
    simp only [runLen]
    split
    · rename_i hf
      obtain ⟨kk, cs, rfl⟩ := follows_zero pp cfi (ci + k) y hf
      have := runFree_runLen np fi i pp cfi ci hC ys (k + 1)
      rw [Nat.add_comm 1, runFree]
      simp only [putsFirst, hC k, Bool.not_false, Bool.true_and]
      simpa [Nat.add_assoc] using this
    · simp [runFree]

theorem sliceHead_zero (mark : T) (np : NP) (fi : Nat) (ns : Option Nat) (i : Nat) (x : T) (pp : Path) (cfi ci : Nat)
    (hwf : wfN mark x = true) (h : sliceHead mark np fi ns i x.origin = some (0, pp, cfi, ci)) :
    (∃ k cs, x = .node (.tree (some ⟨pp, cfi, some ci⟩)) k cs) ∧
      ∀ k, inPlace np [fi, i + k] (some ⟨pp, cfi, some (ci + k)⟩) = false := by
  cases x with
  | nil => simp [T.origin, sliceHead] at h
  | prim v => simp [T.origin, sliceHead] at h
  | many s m cs => simp [T.origin, sliceHead] at h
  | node o k cs =>
    cases o with
    | new => simp [T.origin, sliceHead] at h
    | foreign ok t l sg =>
      have ht : t ≠ 0 := by cases ok <;> simp [wfN] at hwf <;> simp [hwf]
      cases l with
      | none => simp [T.origin, sliceHead] at h
      | some l =>
        obtain ⟨a, b, c⟩ := l
        cases c with
        | none => simp [T.origin, sliceHead] at h
        | some c =>
          simp only [T.origin, sliceHead, Option.ite_none_left_eq_some, Option.some.injEq, Prod.mk.injEq] at h
          exact absurd h.2.1 ht
    | tree l =>
      cases l with
      | none => simp [T.origin, sliceHead] at h
      | some l =>
        obtain ⟨a, b, c⟩ := l
        cases c with
        | none => simp [T.origin, sliceHead] at h
        | some c =>
          simp only [T.origin, sliceHead, Option.ite_none_left_eq_some, Option.some.injEq, Prod.mk.injEq, true_and] at h
          obtain ⟨hsingle, rfl, rfl, rfl⟩ := h
          refine ⟨⟨k, cs, rfl⟩, ?_⟩
          intro kk
          cases np with
          | none => simp [inPlace]
          | ast => simp [inPlace]
          | fst t pq =>
            cases t with
            | succ t => simp [inPlace]
            | zero =>
              simp only [inPlace, Loc.rel, Option.toList]
              by_cases hc : (b == fi && NP.fst 0 pq == NP.fst 0 a) = true
              · simp only [hc, if_true] at hsingle
                simp only [Bool.and_eq_true, beq_iff_eq] at hc
                simp at hsingle
                simp; intro _ _; omega
              · simp only [Bool.and_eq_true, beq_iff_eq, not_and] at hc
                simp; intro h1 h2
                exact absurd (by rw [h1]) (hc h2)

/-! ### the head of the element loop -/

theorem eraseL_length (l : List T) : (eraseL l).length = l.length := by simp [eraseL_eq_map]

theorem detect_none (mark : T) (np : NP) (fi : Nat) (ns : Option Nat) (i : Nat) (cur : List T) (x : T) (rest : List T)
    (h : sliceHead mark np fi ns i x.origin = none) :
    detect mark np fi ns i cur x rest = ([], cur, { proc := 1, lenRead := cur.length }) := by
  unfold detect; rw [h]

theorem detect_some (mark : T) (np : NP) (fi : Nat) (ns : Option Nat) (i : Nat) (cur : List T) (x : T) (rest : List T)
    (tid : Nat) (pp : Path) (cfi ci : Nat) (h : sliceHead mark np fi ns i x.origin = some (tid, pp, cfi, ci)) :
    detect mark np fi ns i cur x rest =
      (let n := 1 + runLen tid pp cfi (ci + 1) rest
       if tid == 0 then
         let payload := eraseL ((((markAt mark (pp ++ [cfi])).kids).drop ci).take n)
         let cur' := cur.take i ++ payload ++ cur.drop (i + n)
         ([⟨[], .putSlice i (i + n) (.mark (pp ++ [cfi])) false payload⟩], cur', { proc := n, lenRead := cur'.length })
       else if allOk ((x :: rest).take n) then
         let payload := eraseL ((x :: rest).take n)
         let cur' := cur.take i ++ payload ++ cur.drop (i + n)
         ([⟨[], .putSlice i (i + n) (.foreign tid) false payload⟩], cur', { skip := n })
       else ([], cur, { proc := n, lenRead := cur.length })) := by
  unfold detect; rw [h]; rfl

/-- outcome of `headState`: either a verified run of another tree was put (`skip`), or the elements of the run are processed
one by one (`proc`); `g1` of them are known to be put again on their own. -/
theorem head_post (mark : T) (np : NP) (fi : Nat) (ns : Option Nat) (i : Nat) (run : Run) (cur : List T) (x : T)
    (rest bt done : List T) (g : Nat) (s : Option Nat) (md : Nat)
    (hwf : wfEs mark (x :: rest) = true) (hdone : done.length = i) (hskip : run.skip = 0)
    (hg : g ≤ run.proc) (hfree : runFree np fi i g (x :: rest) = true) (htail : cur.drop (i + g) = bt.drop g)
    (hlen : if run.proc > 0 then max i run.lenRead = cur.length else i ≤ cur.length) :
    let d := headState mark np fi ns i run cur x rest
    applyOps d.1 (.many s md (done ++ cur.drop i)) = .many s md (done ++ d.2.1.drop i) ∧
    ((d.2.2.skip > 0 ∧ d.2.2.proc = 0 ∧ d.2.2.skip ≤ (x :: rest).length ∧
        (d.2.1.drop i).take d.2.2.skip = eraseL ((x :: rest).take d.2.2.skip) ∧
        d.2.1.drop (i + d.2.2.skip) = bt.drop d.2.2.skip)
     ∨ (d.2.2.skip = 0 ∧ d.2.2.proc > 0 ∧ ∃ g1, g1 ≤ d.2.2.proc ∧ runFree np fi i g1 (x :: rest) = true ∧
        d.2.1.drop (i + g1) = bt.drop g1 ∧ max i d.2.2.lenRead = d.2.1.length)) := by
  intro d
  by_cases hp : run.proc > 0
  · -- inside a run
    have hd : d = ([], cur, run) := by simp [d, headState, hp]
    rw [hd]
    refine ⟨rfl, Or.inr ⟨hskip, hp, g, hg, hfree, htail, ?_⟩⟩
    simpa [hp] using hlen
  · have hg0 : g = 0 := by omega
    subst hg0
    simp only [Nat.add_zero, List.drop_zero] at htail
    simp only [hp, if_false] at hlen
    have hd : d = detect mark np fi ns i cur x rest := by simp [d, headState, hp]
    have hmax : max i cur.length = cur.length := by omega
    cases hsh : sliceHead mark np fi ns i x.origin with
    | none =>
      rw [hd, detect_none _ _ _ _ _ _ _ _ hsh]
      exact ⟨rfl, Or.inr ⟨rfl, by simp, 0, by simp, by simp [runFree], by simpa using htail, hmax⟩⟩
    | some v =>
      obtain ⟨tid, pp, cfi, ci⟩ := v
      have hn : runLen tid pp cfi (ci + 1) rest ≤ rest.length := runLen_le _ _ _ _ _
      rw [hd, detect_some _ _ _ _ _ _ _ _ _ _ _ _ hsh]
      simp only [wfEs, Bool.and_eq_true] at hwf
      by_cases ht : tid = 0
      · -- slice copied from the marked tree
        subst ht
        obtain ⟨⟨k, cs, rfl⟩, hC⟩ := sliceHead_zero mark np fi ns i x pp cfi ci hwf.1 hsh
        have h1 := wf_tree_idx mark pp cfi ci k cs hwf.1
        have h2 := run_in_mark mark pp cfi rest (ci + 1) hwf.2 h1
        have hpl : (eraseL ((((markAt mark (pp ++ [cfi])).kids).drop ci).take (1 + runLen 0 pp cfi (ci + 1) rest))).length
            = 1 + runLen 0 pp cfi (ci + 1) rest := by
          rw [eraseL_length, List.length_take, List.length_drop]; omega
        simp only [beq_self_eq_true, if_true]
        refine ⟨?_, Or.inr ⟨by simp, by simp; omega, 1 + runLen 0 pp cfi (ci + 1) rest, Nat.le_refl _, ?_, ?_, ?_⟩⟩
        · rw [putSlice_at _ _ _ _ _ _ _ _ _ hdone, drop_splice _ _ _ _ hlen]
        · rw [Nat.add_comm 1, runFree]
          have h0 := hC 0
          simp only [Nat.add_zero] at h0
          simp only [putsFirst, h0, Bool.not_false, Bool.true_and]
          have := runFree_runLen np fi i pp cfi ci hC rest 1
          exact this
        · have hl : (cur.take i ++ eraseL ((((markAt mark (pp ++ [cfi])).kids).drop ci).take
              (1 + runLen 0 pp cfi (ci + 1) rest))).length = i + (1 + runLen 0 pp cfi (ci + 1) rest) := by
            rw [List.length_append, hpl, List.length_take]; omega
          rw [List.drop_left' hl, ← htail, List.drop_drop]
        · simp only [List.length_append, hpl, List.length_take, List.length_drop]; omega
      · have ht' : (tid == 0) = false := by simp [ht]
        simp only [ht', Bool.false_eq_true, if_false]
        by_cases hok : allOk ((x :: rest).take (1 + runLen tid pp cfi (ci + 1) rest)) = true
        · -- verified run of another tree: put as one slice, not recursed
          simp only [hok, if_true]
          have hpl : (eraseL ((x :: rest).take (1 + runLen tid pp cfi (ci + 1) rest))).length
              = 1 + runLen tid pp cfi (ci + 1) rest := by
            rw [eraseL_length, List.length_take]; simp; omega
          refine ⟨?_, Or.inl ⟨by simp; omega, by simp, by simp; omega, ?_, ?_⟩⟩
          · rw [putSlice_at _ _ _ _ _ _ _ _ _ hdone, drop_splice _ _ _ _ hlen]
          · rw [drop_splice _ _ _ _ hlen, List.take_left' hpl]
          · have hl : (cur.take i ++ eraseL ((x :: rest).take (1 + runLen tid pp cfi (ci + 1) rest))).length
                = i + (1 + runLen tid pp cfi (ci + 1) rest) := by
              rw [List.length_append, hpl, List.length_take]; omega
            rw [List.drop_left' hl, ← htail, List.drop_drop]
        · simp only [hok, Bool.false_eq_true, if_false]
          exact ⟨rfl, Or.inr ⟨by simp, by simp; omega, 0, by simp, by simp [runFree], by simpa using htail, hmax⟩⟩

/-! ### the slot hypotheses hold by construction -/

theorem slot_self (mark : T) (np : NP) (rel : Path) (c : T) (h : np.base = none) : slot mark np rel (erase c) c := by
  simp [slot, h]

theorem slot_mark (mark : T) (np : NP) (q rel : Path) (c : T) (h : np.base = some q) :
    slot mark np rel (erase (markAt mark (q ++ rel))) c := by
  simp [slot, h]

theorem base_ne_ast {np : NP} {q : Path} (h : np.base = some q) : np ≠ .ast := by
  intro h2; subst h2; simp [NP.base] at h

theorem elemSlots_self (mark : T) (np : NP) (fi : Nat) (h : np.base = none) :
    ∀ (items : List T) (i : Nat), elemSlots mark np fi i (eraseL items) items
  | [], _ => by simp [elemSlots]
  | x :: r, i => by
    simp only [eraseL, elemSlots]
    exact ⟨slot_self mark np _ x h, elemSlots_self mark np fi h r (i + 1)⟩

theorem plainSlots_self (mark : T) (np : NP) (fi : Nat) (h : np.base = none) :
    ∀ (items : List T) (i : Nat), plainSlots mark np fi i (eraseL items) items
  | [], _ => by simp [eraseL, plainSlots]
  | x :: r, i => by
    simp only [eraseL, plainSlots]
    exact ⟨slot_self mark np _ x h, plainSlots_self mark np fi h r (i + 1)⟩

theorem pyNe_scalar_self (c : T) (h : scalar c = true) : pyNe c c = false := by
  cases c <;> simp_all [scalar, pyNe]

/-- under a node that was put as a pure AST the output tree holds the edited fields -/
theorem fieldSlots_self (mark : T) (np : NP) (h : np.base = none) :
    ∀ (fs : List T) (fi : Nat), fieldSlots mark np fi (eraseL fs) fs
  | [], _ => by simp [eraseL, fieldSlots]
  | c :: r, fi => by
    simp only [eraseL, fieldSlots]
    refine ⟨?_, fieldSlots_self mark np h r (fi + 1)⟩
    cases c with
    | nil => simp [fieldSlot, scalarSlot, erase]
    | prim v => simp [fieldSlot, scalarSlot, erase]
    | node o k cs => exact slot_self mark np _ _ h
    | many s md items =>
      refine ⟨eraseL items, by simp [erase], ?_⟩
      split
      · exact elemSlots_self mark np fi h items 0
      · exact plainSlots_self mark np fi h items 0

theorem markAt_elem (mark : T) (q : Path) (fi i : Nat) :
    markAt mark (q ++ [fi, i]) = ((markAt mark (q ++ [fi])).kids[i]?).getD .nil := by
  have : q ++ [fi, i] = (q ++ [fi]) ++ [i] := by simp
  rw [this, markAt_snoc]

/-- an element beyond the end of the marked list cannot be in place -/
theorem putsFirst_beyond (mark : T) (q : Path) (fi i : Nat) (x : T) (hwf : wfN mark x = true)
    (hb : (markAt mark (q ++ [fi])).kids.length ≤ i) : putsFirst (.fst 0 q) [fi, i] x = true := by
  cases x with
  | nil => simp [putsFirst]
  | prim v => simp [putsFirst]
  | many s m cs => simp [wfN] at hwf
  | node o k cs =>
    cases o with
    | new => simp [putsFirst]
    | foreign ok t l sg => cases ok <;> simp [putsFirst]
    | tree l =>
      simp only [putsFirst, Bool.not_eq_eq_eq_not, Bool.not_true]
      cases hin : inPlace (.fst 0 q) [fi, i] l with
      | false => rfl
      | true =>
        obtain ⟨q', hb', hq⟩ := inPlace_base _ _ _ hin
        simp only [NP.base, Option.some.injEq] at hb'
        subst hb'
        simp only [wfN, Bool.and_eq_true] at hwf
        rw [hq, markAt_elem] at hwf
        have : (markAt mark (q ++ [fi])).kids[i]? = none := by simp; omega
        rw [this] at hwf; simp at hwf

theorem elemSlots_mark (mark : T) (q : Path) (fi : Nat) :
    ∀ (items : List T) (i : Nat), wfEs mark items = true →
      elemSlots mark (.fst 0 q) fi i (eraseL ((markAt mark (q ++ [fi])).kids.drop i)) items
  | [], _, _ => by simp [elemSlots]
  | x :: r, i, hwf => by
    simp only [wfEs, Bool.and_eq_true] at hwf
    have ih := elemSlots_mark mark q fi r (i + 1) hwf.2
    cases hd : (markAt mark (q ++ [fi])).kids.drop i with
    | nil =>
      have hle : (markAt mark (q ++ [fi])).kids.length ≤ i := by
        have := congrArg List.length hd; simp at this; omega
      have hd' : (markAt mark (q ++ [fi])).kids.drop (i + 1) = [] := List.drop_eq_nil_of_le (by omega)
      rw [hd'] at ih
      simp only [eraseL, elemSlots]
      exact ⟨putsFirst_beyond mark q fi i x hwf.1 hle, ih⟩
    | cons b tl =>
      rw [drop_succ_of_cons hd] at ih
      simp only [eraseL, elemSlots]
      refine ⟨?_, ih⟩
      have : markAt mark (q ++ [fi, i]) = b := by rw [markAt_elem, getElem?_of_drop_cons hd]; rfl
      rw [← this]
      exact slot_mark mark _ q _ x rfl

theorem plainSlots_mark (mark : T) (q : Path) (fi : Nat) :
    ∀ (items : List T) (i : Nat),
      plainSlots mark (.fst 0 q) fi i (eraseL ((markAt mark (q ++ [fi])).kids.drop i)) items
  | [], _ => by simp [plainSlots]
  | x :: r, i => by
    have ih := plainSlots_mark mark q fi r (i + 1)
    cases hd : (markAt mark (q ++ [fi])).kids.drop i with
    | nil => simp [eraseL, plainSlots]
    | cons b tl =>
      rw [drop_succ_of_cons hd] at ih
      simp only [eraseL, plainSlots]
      refine ⟨?_, ih⟩
      have : markAt mark (q ++ [fi, i]) = b := by rw [markAt_elem, getElem?_of_drop_cons hd]; rfl
      rw [← this]
      exact slot_mark mark _ q _ x rfl

theorem scalarSlot_mark (np : NP) (m c : T) (hnp : np ≠ .ast) (hsc : scalar c = true) (hp : primOK c m = true) :
    scalarSlot np (erase m) c := by
  refine ⟨fun h => absurd h hnp, fun _ hne => ?_⟩
  cases c with
  | nil => cases m <;> simp_all [pyNe, erase]
  | prim v =>
    cases m with
    | prim w =>
      simp only [erase, pyNe, bne_eq_false_iff_eq] at hne
      simp only [primOK, Bool.or_eq_true, bne_iff_ne, ne_eq, beq_iff_eq] at hp
      cases hp with
      | inl h => exact absurd hne h
      | inr h => rw [h]; rfl
    | _ => simp_all [pyNe, erase]
  | _ => simp [scalar] at hsc

/-- under an in-tree node (in place or just copied from the marked tree) the output tree holds the marked fields -/
theorem fieldSlots_mark (mark : T) (q : Path) :
    ∀ (fs : List T) (fi : Nat), shapeOK ((markAt mark q).kids.drop fi) fs = true → wfFs mark fs = true →
      fieldSlots mark (.fst 0 q) fi (eraseL ((markAt mark q).kids.drop fi)) fs
  | [], fi, hsh, _ => by
    cases hd : (markAt mark q).kids.drop fi with
    | nil => simp [eraseL, fieldSlots]
    | cons b tl => rw [hd] at hsh; simp [shapeOK] at hsh
  | c :: r, fi, hsh, hwf => by
    cases hd : (markAt mark q).kids.drop fi with
    | nil => rw [hd] at hsh; simp [shapeOK] at hsh
    | cons m tl =>
      rw [hd] at hsh
      simp only [shapeOK, Bool.and_eq_true] at hsh
      have hwr : wfFs mark r = true := by
        cases c <;> simp_all [wfFs]
      have ih := fieldSlots_mark mark q r (fi + 1) (by rw [drop_succ_of_cons hd]; exact hsh.2) hwr
      rw [drop_succ_of_cons hd] at ih
      simp only [eraseL, fieldSlots]
      refine ⟨?_, ih⟩
      have hm : markAt mark (q ++ [fi]) = m := by rw [markAt_snoc, getElem?_of_drop_cons hd]; rfl
      cases c with
      | nil => exact scalarSlot_mark _ m .nil (by simp) rfl (by simpa [fieldOK] using hsh.1)
      | prim v => exact scalarSlot_mark _ m (.prim v) (by simp) rfl (by simpa [fieldOK] using hsh.1)
      | node o k cs =>
        show slot mark (.fst 0 q) [fi] (erase m) (.node o k cs)
        rw [← hm]; exact slot_mark mark _ q _ _ rfl
      | many s md items =>
        have h1 := hsh.1
        simp only [fieldOK] at h1
        cases m with
        | many s' md' mitems =>
          simp only [Bool.and_eq_true, beq_iff_eq] at h1
          obtain ⟨rfl, rfl⟩ := h1
          refine ⟨eraseL mitems, by simp [erase], ?_⟩
          have hk : mitems = (markAt mark (q ++ [fi])).kids.drop 0 := by rw [hm]; simp [T.kids]
          simp only [wfFs, Bool.and_eq_true] at hwf
          split
          · rw [hk]; exact elemSlots_mark mark q fi items 0 hwf.1.2
          · rw [hk]; exact plainSlots_mark mark q fi items 0
        | _ => simp at h1

/-! ### single steps, with the induction hypotheses as parameters -/

theorem astPath_ok (mark : T) (np np' : NP) (outa : T) (k : Nat) (cs : List T)
    (hs : (np != .ast) = true ∨ outa = .node .new k (eraseL cs))
    (IH : (recFields mark np' 0 (eraseL cs) cs).fail = false →
      applyOps (recFields mark np' 0 (eraseL cs) cs).ops (.node .new k ([] ++ eraseL cs)) = .node .new k ([] ++ eraseL cs))
    (hf : (astPath mark np np' outa k cs).fail = false) :
    applyOps (astPath mark np np' outa k cs).ops outa = .node .new k (eraseL cs) := by
  unfold astPath at hf ⊢
  by_cases hput : (np != .ast) = true
  · simp only [hput, if_true, T.isNode, Bool.not_true, Bool.false_eq_true, if_false, T.kids] at hf ⊢
    simp only [List.cons_append, List.nil_append, applyOps]
    exact IH hf
  · have ho : outa = .node .new k (eraseL cs) := by
      cases hs with
      | inl h => exact absurd h hput
      | inr h => exact h
    subst ho
    simp only [hput, if_false, T.isNode, Bool.not_true, Bool.false_eq_true, T.kids, List.nil_append] at hf ⊢
    exact IH hf

theorem tree_ok (mark : T) (np : NP) (rel : Path) (outa : T) (l : Option Loc) (k : Nat) (cs : List T) (mo : Origin)
    (mcs : List T) (hmq : markAt mark (qOf l) = .node mo k mcs)
    (hs : putsFirst np rel (.node (.tree l) k cs) = true ∨ slot mark np rel outa (.node (.tree l) k cs))
    (IH : (recFields mark (.fst 0 (qOf l)) 0 (eraseL mcs) cs).fail = false →
      applyOps (recFields mark (.fst 0 (qOf l)) 0 (eraseL mcs) cs).ops (.node .new k ([] ++ eraseL mcs))
        = .node .new k ([] ++ eraseL cs)) :
    applyOps (recNode mark np rel outa (.node (.tree l) k cs)).ops outa = .node .new k (eraseL cs) := by
  rw [recNode_tree]
  have hcopy : erase (markAt mark (qOf l)) = .node .new k (eraseL mcs) := by rw [hmq]; simp [erase]
  simp only [hcopy]
  -- after the optional copy the slot holds the marked node
  have key : ∀ (pre : List Op), applyOps pre outa = .node .new k (eraseL mcs) →
      applyOps (if (recFields mark (.fst 0 (qOf l)) 0 (eraseL mcs) cs).fail = true
        then (⟨pre ++ (recFields mark (.fst 0 (qOf l)) 0 (eraseL mcs) cs).ops ++ [⟨[], .put .ast (.node .new k (eraseL cs))⟩], false⟩ : R)
        else ⟨pre ++ (recFields mark (.fst 0 (qOf l)) 0 (eraseL mcs) cs).ops, false⟩).ops outa = .node .new k (eraseL cs) := by
    intro pre hpre
    by_cases hfl : (recFields mark (.fst 0 (qOf l)) 0 (eraseL mcs) cs).fail = true
    · simp only [hfl, if_true]
      exact applyOps_put_last _ _ _ _
    · simp only [hfl, if_false, Bool.false_eq_true]
      rw [applyOps_append, hpre]
      simp only [Bool.not_eq_true] at hfl
      exact IH hfl
  by_cases hin : inPlace np rel l = true
  · have ho : outa = .node .new k (eraseL mcs) := by
      cases hs with
      | inl h => simp [putsFirst, hin] at h
      | inr h =>
        obtain ⟨q', hb, hq⟩ := inPlace_base _ _ _ hin
        simp only [slot, hb] at h
        rw [h, ← hq, hcopy]
    subst ho
    simp only [hin, Bool.not_true, Bool.false_eq_true, if_false, T.isNode, T.kids]
    exact key [] rfl
  · simp only [hin, Bool.not_false, if_true, T.isNode, Bool.not_true, Bool.false_eq_true, if_false, T.kids]
    exact key _ rfl

theorem seq_apply (i : Nat) (r r2 : R) (t t1 t2 : T) (hf : (seqR i r r2).fail = false)
    (h1 : r.fail = false → modKid i (applyOps r.ops) t = t1) (h2 : r2.fail = false → applyOps r2.ops t1 = t2) :
    applyOps (seqR i r r2).ops t = t2 := by
  obtain ⟨a, b⟩ := seqR_fail hf
  rw [seqR_ops a, applyOps_append, applyOps_preAll, h1 a, h2 b]

/-- invariant of the flattened `while` / `for` loops of `recurse_slice`: `cur` is the predicted output list, `bt` what the
list held from `i` on at loop entry, `g` the number of coming elements known to be put again on their own. -/
def SI (np : NP) (fi i : Nat) (run : Run) (cur body bt : List T) (g : Nat) : Prop :=
  if run.skip > 0 then
    run.proc = 0 ∧ run.skip ≤ body.length ∧ (cur.drop i).take run.skip = eraseL (body.take run.skip) ∧
      cur.drop (i + run.skip) = bt.drop run.skip
  else
    g ≤ run.proc ∧ runFree np fi i g body = true ∧ cur.drop (i + g) = bt.drop g ∧
      (if run.proc > 0 then max i run.lenRead = cur.length else i ≤ cur.length)

/-- the conclusion of the loop lemma, as a predicate on the state -/
def SliceGoal (mark : T) (np : NP) (fi : Nat) (ns : Option Nat) (s : Option Nat) (md : Nat) (body : List T) (i : Nat) (run : Run)
    (cur done : List T) : Prop :=
  (recSliceGo mark np fi ns false i run cur body).fail = false →
    applyOps (recSliceGo mark np fi ns false i run cur body).ops (.many s md (done ++ cur.drop i))
      = .many s md (done ++ eraseL body)

theorem elemSlots_tail (mark : T) (np : NP) (fi i : Nat) (bt : List T) (x : T) (rest : List T)
    (h : elemSlots mark np fi i bt (x :: rest)) : elemSlots mark np fi (i + 1) bt.tail rest := by
  cases bt with
  | nil => exact h.2
  | cons b bt => exact h.2

theorem slice_nil (mark : T) (np : NP) (fi : Nat) (ns s : Option Nat) (md i : Nat) (run : Run) (cur done bt : List T) (g : Nat)
    (hdone : done.length = i) (hsi : SI np fi i run cur [] bt g) : SliceGoal mark np fi ns s md [] i run cur done := by
  intro _
  rw [recSliceGo_nil]
  simp only [eraseL, List.append_nil]
  by_cases h : i < cur.length
  · simp only [h, if_true, applyOps, applyOp, applyAt, applyAct]
    rw [List.take_left' hdone]
  · simp only [h, if_false, applyOps]
    rw [List.drop_eq_nil_of_le (by omega)]; simp

/-- state after a skipped element (it was put with the verified slice it belongs to) -/
theorem skip_post (np : NP) (fi i : Nat) (run : Run) (cur bt : List T) (x : T) (rest : List T) (hk : run.skip > 0)
    (hsi : run.proc = 0 ∧ run.skip ≤ (x :: rest).length ∧ (cur.drop i).take run.skip = eraseL ((x :: rest).take run.skip) ∧
      cur.drop (i + run.skip) = bt.drop run.skip) :
    cur.drop i = erase x :: cur.drop (i + 1) ∧ SI np fi (i + 1) { run with skip := run.skip - 1 } cur rest bt.tail 0 := by
  obtain ⟨hp, hle, htk, htl⟩ := hsi
  obtain ⟨k, hk'⟩ : ∃ k, run.skip = k + 1 := ⟨run.skip - 1, by omega⟩
  rw [hk'] at htk hle htl
  simp only [List.take_succ_cons, eraseL] at htk
  cases hd : cur.drop i with
  | nil => rw [hd] at htk; simp at htk
  | cons a tl =>
    rw [hd] at htk
    simp only [List.take_succ_cons, List.cons.injEq] at htk
    obtain ⟨rfl, htk⟩ := htk
    have hd1 := drop_succ_of_cons hd
    refine ⟨by rw [hd1], ?_⟩
    unfold SI
    simp only [hk', Nat.add_sub_cancel]
    by_cases hk0 : k > 0
    · simp only [hk0, if_true]
      refine ⟨hp, by simpa using hle, by rw [hd1]; exact htk, ?_⟩
      rw [List.drop_tail] ; rw [← htl]; congr 1; omega
    · have : k = 0 := by omega
      subst this
      simp only [Nat.lt_irrefl, if_false, Nat.zero_le, runFree, true_and, Nat.add_zero, List.drop_zero, hp]
      refine ⟨?_, ?_⟩
      · rw [← List.drop_one, ← htl]
      · have := lt_of_drop_cons hd; omega

/-- a skipped element (it was put with the verified slice it belongs to) -/
theorem slice_skip_step (mark : T) (np : NP) (fi : Nat) (ns s : Option Nat) (md i : Nat) (run : Run) (cur done bt : List T)
    (x : T) (rest : List T) (hdone : done.length = i) (hk : run.skip > 0)
    (hsi : run.proc = 0 ∧ run.skip ≤ (x :: rest).length ∧ (cur.drop i).take run.skip = eraseL ((x :: rest).take run.skip) ∧
      cur.drop (i + run.skip) = bt.drop run.skip)
    (IH : ∀ (run' : Run) (done' : List T), done'.length = i + 1 → SI np fi (i + 1) run' cur rest bt.tail 0 →
      SliceGoal mark np fi ns s md rest (i + 1) run' cur done') :
    (recSliceGo mark np fi ns false (i + 1) { run with skip := run.skip - 1 } cur rest).fail = false →
    applyOps (recSliceGo mark np fi ns false (i + 1) { run with skip := run.skip - 1 } cur rest).ops
      (.many s md (done ++ cur.drop i)) = .many s md (done ++ eraseL (x :: rest)) := by
  intro hf
  obtain ⟨hd, hsi'⟩ := skip_post np fi i run cur bt x rest hk hsi
  have := IH { run with skip := run.skip - 1 } (done ++ [erase x]) (by simp [hdone]) hsi' hf
  rw [hd]
  simpa [eraseL] using this

theorem runFree_pred (np : NP) (fi i g : Nat) (x : T) (rest : List T) (h : runFree np fi i g (x :: rest) = true) :
    (g > 0 → putsFirst np [fi, i] x = true) ∧ runFree np fi (i + 1) (g - 1) rest = true := by
  cases g with
  | zero => simp [runFree]
  | succ g => simp only [runFree, Bool.and_eq_true] at h; simp [h.1, h.2]

/-- state when an element is handed to `recurse_node`: after the optional insertion past the end the output list holds `ok`
at `i`; either the element is put again anyway or `ok` is what the slot hypothesis names. -/
theorem go_post (mark : T) (np : NP) (fi : Nat) (s : Option Nat) (md i : Nat) (run1 : Run) (cur1 done bt : List T)
    (g1 : Nat) (x : T) (rest : List T) (one : Bool) (hdone : done.length = i)
    (hslots : elemSlots mark np fi i bt (x :: rest)) (hsk0 : run1.skip = 0) (hpr : run1.proc > 0) (hg1 : g1 ≤ run1.proc)
    (hfree1 : runFree np fi i g1 (x :: rest) = true) (htl1 : cur1.drop (i + g1) = bt.drop g1)
    (hmax : max i run1.lenRead = cur1.length) (cur2 : List T) (opsIns : List Op)
    (hc2 : (if decide (i ≥ run1.lenRead) = true then List.take i cur1 ++ [erase x] ++ List.drop i cur1 else cur1) = cur2)
    (hoi : (if decide (i ≥ run1.lenRead) = true then [(⟨[], .putSlice i i .ast one [erase x]⟩ : Op)] else []) = opsIns) :
    ∃ ok tl, cur2.drop i = ok :: tl ∧
        applyOps opsIns (.many s md (done ++ cur1.drop i)) = .many s md (done ++ ok :: tl) ∧
        (putsFirst np [fi, i] x = true ∨ slot mark np [fi, i] ok x) ∧
        SI np fi (i + 1) { proc := run1.proc - 1, skip := run1.skip, lenRead := run1.lenRead } cur2 rest bt.tail (g1 - 1) := by
  have hsk0' : ¬ run1.skip > 0 := by omega
  obtain ⟨hpf, hfree2⟩ := runFree_pred np fi i g1 x rest hfree1
  by_cases hins : i ≥ run1.lenRead
  · -- insertion past the end of the output list
    have hl : cur1.length = i := by omega
    simp only [hins, decide_true, if_true] at hc2 hoi
    have hd0 : cur1.drop i = [] := List.drop_eq_nil_of_le (by omega)
    rw [List.take_of_length_le (by omega), hd0, List.append_nil] at hc2
    subst hc2 hoi
    refine ⟨erase x, [], by rw [List.drop_left' hl], ?_, ?_, ?_⟩
    · rw [hd0]; subst hdone
      simp [applyOps, applyOp, applyAt, applyAct]
    · left
      by_cases hg0 : g1 > 0
      · exact hpf hg0
      · have : g1 = 0 := by omega
        subst this
        simp only [Nat.add_zero, List.drop_zero] at htl1
        rw [hd0] at htl1; rw [← htl1] at hslots
        exact hslots.1
    · unfold SI
      simp only [hsk0', if_false]
      refine ⟨by omega, hfree2, ?_, ?_⟩
      · have h1 : (cur1 ++ [erase x]).drop (i + 1 + (g1 - 1)) = [] := List.drop_eq_nil_of_le (by simp; omega)
        rw [h1, List.drop_tail]
        have h2 : cur1.drop (i + g1) = [] := List.drop_eq_nil_of_le (by omega)
        by_cases hg0 : g1 > 0
        · rw [show g1 - 1 + 1 = g1 by omega, ← htl1, h2]
        · have : g1 = 0 := by omega
          subst this
          simp only [Nat.add_zero, List.drop_zero] at htl1
          rw [← htl1, hd0]; rfl
      · split
        · first | omega | (simp; omega)
        · first | omega | (simp; omega)
  · -- the element is processed over what the output list holds at `i`
    have hl : i < cur1.length := by omega
    simp only [hins, decide_false, Bool.false_eq_true, if_false] at hc2 hoi
    subst hc2 hoi
    refine ⟨cur1[i], cur1.drop (i + 1), drop_cons_of_lt cur1 i hl, ?_, ?_, ?_⟩
    · rw [drop_cons_of_lt cur1 i hl]; rfl
    · by_cases hg0 : g1 > 0
      · exact Or.inl (hpf hg0)
      · have : g1 = 0 := by omega
        subst this
        simp only [Nat.add_zero, List.drop_zero] at htl1
        rw [drop_cons_of_lt cur1 i hl] at htl1; rw [← htl1] at hslots
        exact Or.inr hslots.1
    · unfold SI
      simp only [hsk0', if_false]
      refine ⟨by omega, hfree2, ?_, ?_⟩
      · rw [List.drop_tail]
        by_cases hg0 : g1 > 0
        · rw [show g1 - 1 + 1 = g1 by omega, show i + 1 + (g1 - 1) = i + g1 by omega, htl1]
        · have : g1 = 0 := by omega
          subst this
          simp only [Nat.add_zero, List.drop_zero] at htl1
          rw [← htl1]; simp
      · split
        · first | omega | (simp; omega)
        · first | omega | (simp; omega)

/-- one element of the list processed by `recurse_node` (after the optional slice put of its run and the optional insertion
past the end) -/
theorem slice_go_step (mark : T) (np : NP) (fi : Nat) (ns s : Option Nat) (md i : Nat) (run : Run) (cur done bt : List T)
    (g : Nat) (x : T) (rest : List T)
    (hwf : wfEs mark (x :: rest) = true) (hdone : done.length = i) (hk : ¬ run.skip > 0)
    (hslots : elemSlots mark np fi i bt (x :: rest))
    (hsi : g ≤ run.proc ∧ runFree np fi i g (x :: rest) = true ∧ cur.drop (i + g) = bt.drop g ∧
      (if run.proc > 0 then max i run.lenRead = cur.length else i ≤ cur.length))
    (IHx : ∀ outa, (putsFirst np [fi, i] x = true ∨ slot mark np [fi, i] outa x) →
      (recNode mark np [fi, i] outa x).fail = false → applyOps (recNode mark np [fi, i] outa x).ops outa = erase x)
    (IH : ∀ (run' : Run) (cur' done' : List T) (g' : Nat), done'.length = i + 1 → SI np fi (i + 1) run' cur' rest bt.tail g' →
      SliceGoal mark np fi ns s md rest (i + 1) run' cur' done') :
    SliceGoal mark np fi ns s md (x :: rest) i run cur done := by
  intro hf
  rw [recSliceGo_go _ _ _ _ _ _ _ _ _ _ hk] at hf ⊢
  obtain ⟨hg, hfree, htail, hlen⟩ := hsi
  have hp := head_post mark np fi ns i run cur x rest bt done g s md hwf hdone (by omega) hg hfree htail hlen
  generalize headState mark np fi ns i run cur x rest = d at hf hp ⊢
  obtain ⟨ops0, cur1, run1⟩ := d
  simp only at hf hp ⊢
  obtain ⟨hops, hcase⟩ := hp
  cases hcase with
  | inl h =>
    obtain ⟨hsk, hrest⟩ := h
    simp only [hsk, if_true] at hf ⊢
    rw [applyOps_append, hops]
    exact slice_skip_step mark np fi ns s md i run1 cur1 done bt x rest hdone hsk hrest
      (fun run' done' hd' hs' => IH run' cur1 done' 0 hd' hs') hf
  | inr h =>
    obtain ⟨hsk0, hpr, g1, hg1, hfree1, htl1, hmax⟩ := h
    have hsk0' : ¬ run1.skip > 0 := by omega
    simp only [hsk0', if_false, elemRes, Bool.false_eq_true, Bool.not_false] at hf ⊢
    generalize hc2 : (if decide (i ≥ run1.lenRead) = true then List.take i cur1 ++ [erase x] ++ List.drop i cur1 else cur1)
      = cur2 at hf ⊢
    generalize hoi : (if decide (i ≥ run1.lenRead) = true then [(⟨[], .putSlice i i .ast true [erase x]⟩ : Op)] else [])
      = opsIns at hf ⊢
    obtain ⟨ok, tl, hdrop, happ, hslot, hsi2⟩ := go_post mark np fi s md i run1 cur1 done bt g1 x rest true hdone hslots
      hsk0 hpr hg1 hfree1 htl1 hmax cur2 opsIns hc2 hoi
    have hok : cur2[i]?.getD .nil = ok := by rw [getElem?_of_drop_cons hdrop]; rfl
    rw [hok] at hf ⊢
    by_cases hrf : (recNode mark np [fi, i] ok x).fail = true
    · simp [hrf] at hf
    · simp only [hrf, if_false, Bool.false_eq_true] at hf ⊢
      simp only [Bool.not_eq_true] at hrf
      have hx := IHx ok hslot hrf
      have hdone' : (done ++ [erase x]).length = i + 1 := by simp [hdone]
      have hr := IH _ cur2 (done ++ [erase x]) (g1 - 1) hdone' hsi2 hf
      have hmk := modKid_many_at s md done ok tl (applyOps (recNode mark np [fi, i] ok x).ops)
      rw [hdone] at hmk
      rw [applyOps_append, applyOps_append, applyOps_append, hops, happ, applyOps_preAll, hmk, hx]
      rw [drop_succ_of_cons hdrop] at hr
      simpa [eraseL] using hr


theorem ast_hs (mark : T) (np : NP) (rel : Path) (outa n : T)
    (hs : putsFirst np rel n = true ∨ slot mark np rel outa n) (hp : putsFirst np rel n = (np != .ast)) :
    (np != .ast) = true ∨ outa = erase n := by
  cases hs with
  | inl h => left; rw [← hp]; exact h
  | inr h =>
    cases hb : np.base with
    | none => right; simpa [slot, hb] using h
    | some q => left; simpa using base_ne_ast hb

theorem scalar_res_ok (np : NP) (ok c : T) (hs : scalarSlot np ok c) :
    applyOps (if (np != .ast && pyNe c ok) = true then [(⟨[], .setPrim c⟩ : Op)] else []) ok = c := by
  by_cases hput : (np != .ast && pyNe c ok) = true
  · simp [hput, applyOps, applyOp, applyAt, applyAct]
  · simp only [hput, if_false, Bool.false_eq_true, applyOps]
    simp only [Bool.and_eq_true, bne_iff_ne, ne_eq, not_and, Bool.not_eq_true] at hput
    by_cases hnp : np = .ast
    · exact hs.1 hnp
    · exact (hs.2 hnp (hput hnp)).symm

mutual
theorem recNode_ok (mark : T) : ∀ (n : T) (np : NP) (rel : Path) (outa : T),
    wfN mark n = true → (putsFirst np rel n = true ∨ slot mark np rel outa n) →
    (recNode mark np rel outa n).fail = false →
    applyOps (recNode mark np rel outa n).ops outa = erase n
  | .nil, np, rel, outa, _, hs, _ => by
    rw [recNode]
    have := ast_hs mark np rel outa .nil hs rfl
    by_cases h : np = .ast
    · subst h; simp at this; simp [this, applyOps, erase]
    · simp [h, applyOps, applyOp, applyAt, applyAct, erase]
  | .prim v, np, rel, outa, _, hs, _ => by
    rw [recNode]
    have := ast_hs mark np rel outa (.prim v) hs rfl
    by_cases h : np = .ast
    · subst h; simp at this; simp [this, applyOps, erase]
    · simp [h, applyOps, applyOp, applyAt, applyAct, erase]
  | .many s m cs, _, _, _, hwf, _, _ => by simp [wfN] at hwf
  | .node (.foreign true tid l sg) k cs, np, rel, outa, _, _, _ => by
    rw [recNode_foreign_ok]; simp [applyOps, applyOp, applyAt, applyAct, erase]
  | .node (.foreign false tid l sg) k cs, np, rel, outa, hwf, hs, hf => by
    rw [recNode_foreign_bad] at hf ⊢
    simp only [wfN, Bool.and_eq_true, bne_iff_ne, ne_eq] at hwf
    have hb : (NP.fst tid (qOf l)).base = none := by
      cases tid with
      | zero => exact absurd rfl hwf.1
      | succ t => rfl
    have hs' := ast_hs mark np rel outa _ hs rfl
    simp only [erase] at hs' ⊢
    exact astPath_ok mark np (.fst tid (qOf l)) outa k cs hs'
      (fun h => recFields_ok mark cs (.fst tid (qOf l)) 0 (eraseL cs) [] .new k hwf.2 rfl (fieldSlots_self mark _ hb cs 0) h) hf
  | .node .new k cs, np, rel, outa, hwf, hs, hf => by
    rw [recNode_new] at hf ⊢
    simp only [wfN] at hwf
    have hs' := ast_hs mark np rel outa _ hs rfl
    simp only [erase] at hs' ⊢
    exact astPath_ok mark np .ast outa k cs hs'
      (fun h => recFields_ok mark cs .ast 0 (eraseL cs) [] .new k hwf rfl (fieldSlots_self mark _ rfl cs 0) h) hf
  | .node (.tree l) k cs, np, rel, outa, hwf, hs, _ => by
    simp only [wfN, Bool.and_eq_true] at hwf
    obtain ⟨hm, hcs⟩ := hwf
    cases hmq : markAt mark (qOf l) with
    | node mo mk mcs =>
      rw [hmq] at hm
      simp only [Bool.and_eq_true, beq_iff_eq] at hm
      obtain ⟨rfl, hshape⟩ := hm
      have hk : (markAt mark (qOf l)).kids.drop 0 = mcs := by rw [hmq]; rfl
      have hsl := fieldSlots_mark mark (qOf l) cs 0 (by rw [hk]; exact hshape) hcs
      rw [hk] at hsl
      simp only [erase]
      exact tree_ok mark np rel outa l mk cs mo mcs hmq hs
        (fun h => recFields_ok mark cs (.fst 0 (qOf l)) 0 (eraseL mcs) [] .new mk hcs rfl hsl h)
    | nil => rw [hmq] at hm; simp at hm
    | prim v => rw [hmq] at hm; simp at hm
    | many s m x => rw [hmq] at hm; simp at hm

theorem recFields_ok (mark : T) : ∀ (fs : List T) (np : NP) (fi : Nat) (oks pre : List T) (o : Origin) (k : Nat),
    wfFs mark fs = true → pre.length = fi → fieldSlots mark np fi oks fs →
    (recFields mark np fi oks fs).fail = false →
    applyOps (recFields mark np fi oks fs).ops (.node o k (pre ++ oks)) = .node o k (pre ++ eraseL fs)
  | [], np, fi, oks, pre, o, k, _, _, hsl, _ => by
    cases oks with
    | nil => rw [recFields]; rfl
    | cons a b => simp [fieldSlots] at hsl
  | c :: rest, np, fi, oks, pre, o, k, hwf, hpre, hsl, hf => by
    cases oks with
    | nil => simp [fieldSlots] at hsl
    | cons ok oks' =>
      subst hpre
      simp only [fieldSlots] at hsl
      obtain ⟨hs1, hsr⟩ := hsl
      rw [recFields_cons] at hf ⊢
      simp only [List.headD_cons, List.tail_cons] at hf ⊢
      have hwr : wfFs mark rest = true := by cases c <;> simp_all [wfFs]
      refine seq_apply pre.length _ _ _ (.node o k (pre ++ erase c :: oks')) _ hf ?_ ?_
      · intro hr
        rw [modKid_node_at]
        suffices hx : applyOps (fieldRes mark np pre.length ok c).ops ok = erase c by rw [hx]
        cases c with
        | nil => simp only [fieldRes, T.isNode, Bool.false_eq_true, if_false]; exact scalar_res_ok np ok .nil hs1
        | prim v => simp only [fieldRes, T.isNode, Bool.false_eq_true, if_false]; exact scalar_res_ok np ok (.prim v) hs1
        | node o' k' cs' =>
          have hwc : wfN mark (.node o' k' cs') = true := by simp_all [wfFs]
          have he : fieldRes mark np pre.length ok (.node o' k' cs') = recNode mark np [pre.length] ok (.node o' k' cs') := by
            simp [fieldRes, T.isNode]
          rw [he] at hr ⊢
          exact recNode_ok mark (.node o' k' cs') np [pre.length] ok hwc (Or.inr hs1) hr
        | many s md items =>
          obtain ⟨cur, rfl, hsl⟩ := hs1
          simp only [wfFs, Bool.and_eq_true, bne_iff_ne, ne_eq] at hwf
          obtain ⟨⟨hmd, hwe⟩, _⟩ := hwf
          by_cases h1 : md = 1
          · subst h1
            have he : fieldRes mark np pre.length (.many s 1 cur) (.many s 1 items)
                = recSliceGo mark np pre.length s false 0 {} cur items := by simp [fieldRes, T.isNode, T.kids]
            rw [he] at hr ⊢
            simp only [if_true] at hsl
            have hsi : SI np pre.length 0 {} cur items cur 0 := by simp [SI, runFree]
            have := recSlice_ok mark items np pre.length s 0 {} cur [] cur 0 s 1 hwe rfl hsl hsi hr
            simpa [erase] using this
          · simp only [h1, if_false] at hsl
            have he : fieldRes mark np pre.length (.many s md cur) (.many s md items)
                = if items.length != cur.length then ⟨[], true⟩ else recPlain mark np pre.length 0 cur items := by
              simp [fieldRes, T.isNode, T.kids, h1, hmd]
            rw [he] at hr ⊢
            by_cases hl : (items.length != cur.length) = true
            · simp [hl] at hr
            · simp only [hl, if_false, Bool.false_eq_true] at hr ⊢
              simp only [bne_iff_ne, ne_eq, Decidable.not_not] at hl
              have := recPlain_ok mark items np pre.length 0 cur [] s md hwe rfl hl.symm hsl hr
              simpa [erase] using this
      · intro h2
        have := recFields_ok mark rest np (pre.length + 1) oks' (pre ++ [erase c]) o k hwr (by simp) hsr h2
        simpa [eraseL] using this

theorem recPlain_ok (mark : T) : ∀ (items : List T) (np : NP) (fi j : Nat) (oks pre : List T) (s : Option Nat) (md : Nat),
    wfEs mark items = true → pre.length = j → oks.length = items.length → plainSlots mark np fi j oks items →
    (recPlain mark np fi j oks items).fail = false →
    applyOps (recPlain mark np fi j oks items).ops (.many s md (pre ++ oks)) = .many s md (pre ++ eraseL items)
  | [], np, fi, j, oks, pre, s, md, _, _, hl, _, _ => by
    cases oks with
    | nil => rw [recPlain]; rfl
    | cons a b => simp at hl
  | c :: rest, np, fi, j, oks, pre, s, md, hwf, hpre, hl, hsl, hf => by
    cases oks with
    | nil => simp at hl
    | cons ok oks' =>
      subst hpre
      simp only [plainSlots] at hsl
      simp only [wfEs, Bool.and_eq_true] at hwf
      rw [recPlain_cons] at hf ⊢
      simp only [List.headD_cons, List.tail_cons] at hf ⊢
      refine seq_apply pre.length _ _ _ (.many s md (pre ++ erase c :: oks')) _ hf ?_ ?_
      · intro hr
        rw [modKid_many_at, recNode_ok mark c np [fi, pre.length] ok hwf.1 (Or.inr hsl.1) hr]
      · intro h2
        have := recPlain_ok mark rest np fi (pre.length + 1) oks' (pre ++ [erase c]) s md hwf.2 (by simp) (by simpa using hl)
          hsl.2 h2
        simpa [eraseL] using this

theorem recSlice_ok (mark : T) : ∀ (body : List T) (np : NP) (fi : Nat) (ns : Option Nat) (i : Nat) (run : Run)
    (cur done bt : List T) (g : Nat) (s : Option Nat) (md : Nat),
    wfEs mark body = true → done.length = i → elemSlots mark np fi i bt body → SI np fi i run cur body bt g →
    SliceGoal mark np fi ns s md body i run cur done
  | [], np, fi, ns, i, run, cur, done, bt, g, s, md, _, hdone, _, hsi => slice_nil mark np fi ns s md i run cur done bt g hdone hsi
  | x :: rest, np, fi, ns, i, run, cur, done, bt, g, s, md, hwf, hdone, hsl, hsi => by
    have hwf' := hwf
    simp only [wfEs, Bool.and_eq_true] at hwf'
    have IH : ∀ (run' : Run) (cur' done' : List T) (g' : Nat), done'.length = i + 1 →
        SI np fi (i + 1) run' cur' rest bt.tail g' → SliceGoal mark np fi ns s md rest (i + 1) run' cur' done' :=
      fun run' cur' done' g' hd' hs' =>
        recSlice_ok mark rest np fi ns (i + 1) run' cur' done' bt.tail g' s md hwf'.2 hd'
          (elemSlots_tail mark np fi i bt x rest hsl) hs'
    by_cases hk : run.skip > 0
    · intro hf
      rw [recSliceGo_skip _ _ _ _ _ _ _ _ _ _ hk] at hf ⊢
      unfold SI at hsi
      simp only [hk, if_true] at hsi
      exact slice_skip_step mark np fi ns s md i run cur done bt x rest hdone hk hsi
        (fun run' done' hd' hs' => IH run' cur done' 0 hd' hs') hf
    · unfold SI at hsi
      simp only [hk, if_false] at hsi
      exact slice_go_step mark np fi ns s md i run cur done bt g x rest hwf hdone hk hsl hsi
        (fun outa hs hf => recNode_ok mark x np [fi, i] outa hwf'.1 hs hf) IH
end

end Pfst.Reconcile
