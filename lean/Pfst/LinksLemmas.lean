import Pfst.Links
import Pfst.OffsetLemmas

/-!
Lemmas for C02.

Part 1: the cache clearing of the `_offset` walk (`touchNode`) covers every node whose subtree positions change, on
geometrically ordered trees.  Part 2: the link store (`unmake`, `makeKids`, frames).  Part 3: view windows.
-/
namespace Pfst.Links
open Pfst.Offset

/-! ## Part 1: touched ⊇ changed -/

mutual
/-- `s'` has the shape and ids of `s`, and every node of `s` is in `T` or heads an entirely unchanged subtree. -/
def okNode (T : List Nat) : Node → Node → Bool
  | .mk i p d ks, n' =>
    match n' with
    | .mk i' p' d' ks' =>
      (i == i') && (T.contains i || decide (flatten (.mk i p d ks) = flatten (.mk i' p' d' ks'))) && okList T ks ks'
def okList (T : List Nat) : List Node → List Node → Bool
  | [], l' => l'.isEmpty
  | k :: r, l' =>
    match l' with
    | [] => false
    | k' :: r' => okNode T k k' && okList T r r'
end

mutual
theorem okNode_refl (T : List Nat) : ∀ t : Node, okNode T t t = true
  | .mk i p d ks => by
    simp only [okNode, beq_self_eq_true, decide_true, Bool.or_true, Bool.true_and, okList_refl T ks]
theorem okList_refl (T : List Nat) : ∀ l : List Node, okList T l l = true
  | [] => by simp [okList]
  | k :: r => by simp only [okList, okNode_refl T k, okList_refl T r, Bool.and_self]
end

mutual
theorem okNode_mono (T T' : List Nat) (h : ∀ x, T.contains x = true → T'.contains x = true) :
    ∀ t t' : Node, okNode T t t' = true → okNode T' t t' = true
  | .mk i p d ks, .mk i' p' d' ks', hok => by
    simp only [okNode, Bool.and_eq_true, Bool.or_eq_true] at hok ⊢
    refine ⟨⟨hok.1.1, ?_⟩, okList_mono T T' h ks ks' hok.2⟩
    cases hok.1.2 with
    | inl hc => exact Or.inl (h _ hc)
    | inr he => exact Or.inr he
theorem okList_mono (T T' : List Nat) (h : ∀ x, T.contains x = true → T'.contains x = true) :
    ∀ l l' : List Node, okList T l l' = true → okList T' l l' = true
  | [], l', hok => by simpa [okList] using hok
  | k :: r, [], hok => by simp [okList] at hok
  | k :: r, k' :: r', hok => by
    simp only [okList, Bool.and_eq_true] at hok ⊢
    exact ⟨okNode_mono T T' h k k' hok.1, okList_mono T T' h r r' hok.2⟩
end

/-- A `break` flag of the touch walk comes from a top-level positioned node that ends before the point. -/
theorem touchList_flag (π : Params) : ∀ l : List Node, (touchList π l).2 = true →
    ∃ k ∈ l, ∃ q, k.pos = some q ∧ endsBefore π q = true
  | [], h => by simp [touchList] at h
  | n :: rest, h => by
    simp only [touchList] at h
    split at h
    · next hr =>
      obtain ⟨k, hk, q, hq⟩ := touchList_flag π rest hr
      exact ⟨k, List.mem_cons_of_mem _ hk, q, hq⟩
    · obtain ⟨i, pos, deco, kids⟩ := n
      simp only [touchNode] at h
      split at h
      · simp at h
      · cases pos with
        | none => simp at h
        | some p =>
          simp only at h
          split at h
          · next hb => exact ⟨_, List.mem_cons_self, p, rfl, hb⟩
          · split at h <;> simp at h

theorem contains_cons_self (i : Nat) (l : List Nat) : (i :: l).contains i = true := by simp

theorem contains_cons_of (i : Nat) (l : List Nat) : ∀ x, l.contains x = true → (i :: l).contains x = true := by
  intro x h; simp only [List.contains_cons, Bool.or_eq_true]; exact Or.inr h

theorem contains_append_left (a b : List Nat) : ∀ x, a.contains x = true → (a ++ b).contains x = true := by
  intro x h; simp only [List.contains_eq_mem, List.mem_append, decide_eq_true_eq] at h ⊢; exact Or.inl h

theorem contains_append_right (a b : List Nat) : ∀ x, b.contains x = true → (a ++ b).contains x = true := by
  intro x h; simp only [List.contains_eq_mem, List.mem_append, decide_eq_true_eq] at h ⊢; exact Or.inr h

mutual
/-- against the naive map: every node the walk does not clear heads an unchanged subtree -/
theorem touchNode_ok (π : Params) : ∀ t : Node, geo t = true → okNode (touchNode π t).1 t (naiveNode π t) = true
  | .mk i pos deco kids, h => by
    simp only [geo, Bool.and_eq_true] at h
    have hk := touchList_ok π kids h.2
    simp only [touchNode, naiveNode]
    split
    · exact okNode_refl _ _
    · cases pos with
      | none =>
        simp only [Option.map_none]
        split
        · simp only [okNode, beq_self_eq_true, contains_cons_self, Bool.true_or, Bool.true_and, Bool.and_true]
          exact okList_mono _ _ (contains_cons_of i _) _ _ hk
        · simp only [okNode, beq_self_eq_true, contains_cons_self, Bool.true_or, Bool.true_and, Bool.and_true]
          exact okList_refl _ _
      | some p =>
        simp only [Bool.and_eq_true] at h
        obtain ⟨⟨⟨hw, he⟩, hl⟩, _⟩ := h
        simp only [Option.map_some]
        split
        · next hb =>
          have hb' : endsBefore π ⟨0, 0, p.elno, p.ecol⟩ = true := by simpa [endsBefore] using hb
          have h2 := naiveList_of_endsLe π p.elno p.ecol hb' kids he
          simp only [okNode, beq_self_eq_true, contains_cons_self, Bool.true_or, Bool.true_and, Bool.and_true]
          split <;> simp only [h2, okList_refl]
        · split
          · next hs =>
            simp only [skipKids, Bool.and_eq_true, decide_eq_true_eq, beq_iff_eq] at hs
            have hL : π.lno < blockStart p deco := by
              unfold blockStart
              cases deco with
              | none => simpa using hs.1.1
              | some d =>
                have := hs.2
                simp only [decide_eq_true_eq] at this
                simp only; omega
            have h2 := naiveList_of_linesGe π _ hL hs.1.2 kids hl
            simp only [okNode, beq_self_eq_true, contains_cons_self, Bool.true_or, Bool.true_and, Bool.and_true]
            split <;> simp only [h2, okList_refl]
          · split
            · simp only [okNode, beq_self_eq_true, contains_cons_self, Bool.true_or, Bool.true_and, Bool.and_true]
              exact okList_mono _ _ (contains_cons_of i _) _ _ hk
            · simp only [okNode, beq_self_eq_true, contains_cons_self, Bool.true_or, Bool.true_and, Bool.and_true]
              exact okList_refl _ _
theorem touchList_ok (π : Params) : ∀ l : List Node, geoList l = true →
    okList (touchList π l).1 l (naiveList π l) = true
  | [], _ => by simp [okList, naiveList]
  | n :: rest, h => by
    simp only [geoList, Bool.and_eq_true] at h
    obtain ⟨⟨hg, hb⟩, hr⟩ := h
    have ih := touchList_ok π rest hr
    simp only [touchList, naiveList]
    split
    · next hf =>
      obtain ⟨k, hk, q, hq, hqb⟩ := touchList_flag π rest hf
      have hle := beforeAll_mem n rest hb k hk q hq
      have hb' : endsBefore π ⟨0, 0, q.elno, q.ecol⟩ = true := by simpa [endsBefore] using hqb
      simp only [okList, naive_of_endsLe π q.elno q.ecol hb' n hle, okNode_refl, ih, Bool.and_self]
    · simp only [okList, Bool.and_eq_true]
      exact ⟨okNode_mono _ _ (contains_append_left _ _) _ _ (touchNode_ok π n hg),
             okList_mono _ _ (contains_append_right _ _) _ _ ih⟩
end

mutual
def subnodes : Node → List Node
  | .mk i p d ks => .mk i p d ks :: subnodesList ks
def subnodesList : List Node → List Node
  | [] => []
  | k :: r => subnodes k ++ subnodesList r
end

mutual
/-- every node of the result corresponds to a node of the input with the same id, cleared or unchanged -/
theorem ok_mem (T : List Nat) : ∀ t t' : Node, okNode T t t' = true → ∀ s' ∈ subnodes t',
    ∃ s ∈ subnodes t, s.id = s'.id ∧ (T.contains s.id = true ∨ flatten s = flatten s')
  | .mk i p d ks, .mk i' p' d' ks', hok, s', hs' => by
    simp only [okNode, Bool.and_eq_true, Bool.or_eq_true, beq_iff_eq, decide_eq_true_eq] at hok
    simp only [subnodes, List.mem_cons] at hs'
    cases hs' with
    | inl h0 =>
      subst h0
      exact ⟨.mk i p d ks, by simp [subnodes], hok.1.1, hok.1.2⟩
    | inr h1 =>
      obtain ⟨s, hs, h⟩ := okList_mem T ks ks' hok.2 s' h1
      exact ⟨s, by simp only [subnodes, List.mem_cons]; exact Or.inr hs, h⟩
theorem okList_mem (T : List Nat) : ∀ l l' : List Node, okList T l l' = true → ∀ s' ∈ subnodesList l',
    ∃ s ∈ subnodesList l, s.id = s'.id ∧ (T.contains s.id = true ∨ flatten s = flatten s')
  | [], l', hok, s', hs' => by
    cases l' with
    | nil => simp [subnodesList] at hs'
    | cons a b => simp [okList] at hok
  | k :: r, [], hok, _, _ => by simp [okList] at hok
  | k :: r, k' :: r', hok, s', hs' => by
    simp only [okList, Bool.and_eq_true] at hok
    simp only [subnodesList, List.mem_append] at hs' ⊢
    cases hs' with
    | inl h0 =>
      obtain ⟨s, hs, h⟩ := ok_mem T k k' hok.1 s' h0
      exact ⟨s, Or.inl hs, h⟩
    | inr h1 =>
      obtain ⟨s, hs, h⟩ := okList_mem T r r' hok.2 s' h1
      exact ⟨s, Or.inr hs, h⟩
end

/-! ## Part 2: link store -/

theorem upd_same {β} (g : Nat → β) (k : Nat) (v : β) : upd g k v k = v := by simp [upd]
theorem upd_other {β} (g : Nat → β) (k x : Nat) (v : β) (h : x ≠ k) : upd g k v x = g x := by simp [upd, h]

/-- `unlink` never creates links: dead stays dead -/
theorem unlink_astF_none (σ : Store) (a x : Nat) (h : σ.astF x = none) : (unlink σ a).astF x = none := by
  unfold unlink
  split
  · simp only [upd]; split <;> simp_all
  · exact h

theorem unlink_fstA_none (σ : Store) (a : Nat) (f : Nat) (h : (σ.fst f).a = none) :
    ((unlink σ a).fst f).a = none := by
  unfold unlink
  split
  · simp only [upd]; split <;> simp_all
  · exact h

theorem unlink_self (σ : Store) (a : Nat) : (unlink σ a).astF a = none := by
  unfold unlink
  split
  · simp [upd]
  · next h => exact h

/-- after `unlink σ a`, an AST either keeps its FST or is dead together with that FST -/
theorem unlink_coupled (σ0 σ : Store) (a : Nat)
    (h : ∀ x f, σ0.astF x = some f → σ.astF x = some f ∨ (σ.astF x = none ∧ (σ.fst f).a = none)) :
    ∀ x f, σ0.astF x = some f →
      (unlink σ a).astF x = some f ∨ ((unlink σ a).astF x = none ∧ ((unlink σ a).fst f).a = none) := by
  intro x f hx
  cases h x f hx with
  | inr hd => exact Or.inr ⟨unlink_astF_none σ a x hd.1, unlink_fstA_none σ a f hd.2⟩
  | inl hl =>
    unfold unlink
    cases hσ : σ.astF a with
    | none => simp only; exact Or.inl hl
    | some g =>
      simp only
      by_cases hxa : x = a
      · subst hxa
        have : g = f := by rw [hl] at hσ; exact (Option.some.inj hσ).symm
        subst this
        right; simp [upd]
      · left; simp [upd, hxa, hl]

def Coupled (σ0 σ : Store) : Prop :=
  ∀ x f, σ0.astF x = some f → σ.astF x = some f ∨ (σ.astF x = none ∧ (σ.fst f).a = none)

mutual
theorem unmake_coupled (σ0 : Store) : ∀ (t : Ast) (σ : Store), Coupled σ0 σ → Coupled σ0 (unmake σ t)
  | .mk a _ _ kids, σ, h => by
    simp only [unmake]
    exact unmakeList_coupled σ0 kids _ (unlink_coupled σ0 σ a h)
theorem unmakeList_coupled (σ0 : Store) : ∀ (l : List Ast) (σ : Store), Coupled σ0 σ → Coupled σ0 (unmakeList σ l)
  | [], σ, h => by simpa [unmakeList] using h
  | k :: rest, σ, h => by
    simp only [unmakeList]
    exact unmakeList_coupled σ0 rest _ (unmake_coupled σ0 k σ h)
end

mutual
theorem unmake_keeps_none : ∀ (t : Ast) (σ : Store) (x : Nat), σ.astF x = none → (unmake σ t).astF x = none
  | .mk a _ _ kids, σ, x, h => by
    simp only [unmake]
    exact unmakeList_keeps_none kids _ x (unlink_astF_none σ a x h)
theorem unmakeList_keeps_none : ∀ (l : List Ast) (σ : Store) (x : Nat), σ.astF x = none →
    (unmakeList σ l).astF x = none
  | [], σ, x, h => by simpa [unmakeList] using h
  | k :: rest, σ, x, h => by
    simp only [unmakeList]
    exact unmakeList_keeps_none rest _ x (unmake_keeps_none k σ x h)
end

mutual
theorem unmake_kills : ∀ (t : Ast) (σ : Store), ∀ x ∈ ids t, (unmake σ t).astF x = none
  | .mk a _ _ kids, σ, x, hx => by
    simp only [ids, List.mem_cons] at hx
    simp only [unmake]
    cases hx with
    | inl h0 => subst h0; exact unmakeList_keeps_none kids _ _ (unlink_self σ _)
    | inr h1 => exact unmakeList_kills kids _ x h1
theorem unmakeList_kills : ∀ (l : List Ast) (σ : Store), ∀ x ∈ idsList l, (unmakeList σ l).astF x = none
  | [], _, x, hx => by simp [idsList] at hx
  | k :: rest, σ, x, hx => by
    simp only [idsList, List.mem_append] at hx
    simp only [unmakeList]
    cases hx with
    | inl h0 => exact unmakeList_keeps_none rest _ x (unmake_kills k σ x h0)
    | inr h1 => exact unmakeList_kills rest _ x h1
end

/-- `unlink` writes only `.a`: parent and pfield "are still useful after node has been removed" -/
theorem unlink_fst_other (σ : Store) (a f : Nat) :
    ((unlink σ a).fst f).parent = (σ.fst f).parent ∧ ((unlink σ a).fst f).pfield = (σ.fst f).pfield := by
  unfold unlink
  split
  · simp only [upd]; split
    · next h => subst h; exact ⟨rfl, rfl⟩
    · exact ⟨rfl, rfl⟩
  · exact ⟨rfl, rfl⟩

theorem unlink_next (σ : Store) (a : Nat) : (unlink σ a).next = σ.next := by
  unfold unlink; split <;> rfl

mutual
theorem unmake_fst_other : ∀ (t : Ast) (σ : Store) (f : Nat),
    ((unmake σ t).fst f).parent = (σ.fst f).parent ∧ ((unmake σ t).fst f).pfield = (σ.fst f).pfield
  | .mk a _ _ kids, σ, f => by
    simp only [unmake]
    have h1 := unmakeList_fst_other kids (unlink σ a) f
    have h2 := unlink_fst_other σ a f
    exact ⟨h1.1.trans h2.1, h1.2.trans h2.2⟩
theorem unmakeList_fst_other : ∀ (l : List Ast) (σ : Store) (f : Nat),
    ((unmakeList σ l).fst f).parent = (σ.fst f).parent ∧ ((unmakeList σ l).fst f).pfield = (σ.fst f).pfield
  | [], σ, f => by simp [unmakeList]
  | k :: rest, σ, f => by
    simp only [unmakeList]
    have h1 := unmakeList_fst_other rest (unmake σ k) f
    have h2 := unmake_fst_other k σ f
    exact ⟨h1.1.trans h2.1, h1.2.trans h2.2⟩
end

mutual
theorem unmake_next : ∀ (t : Ast) (σ : Store), (unmake σ t).next = σ.next
  | .mk a _ _ kids, σ => by
    simp only [unmake]
    rw [unmakeList_next kids (unlink σ a), unlink_next]
theorem unmakeList_next : ∀ (l : List Ast) (σ : Store), (unmakeList σ l).next = σ.next
  | [], σ => by simp [unmakeList]
  | k :: rest, σ => by
    simp only [unmakeList]
    rw [unmakeList_next rest (unmake σ k), unmake_next k σ]
end

/-! ### frame of `_unmake_fst_tree`: what it does not write -/

/-- `unlink σ a` leaves every other AST's `a.f` alone -/
theorem unlink_astF_other (σ : Store) (a x : Nat) (h : x ≠ a) : (unlink σ a).astF x = σ.astF x := by
  unfold unlink
  split
  · simp [upd, h]
  · rfl

/-- `unlink σ a` writes only the FST record `a.f` -/
theorem unlink_fst_frame (σ : Store) (a g : Nat) (h : σ.astF a ≠ some g) : (unlink σ a).fst g = σ.fst g := by
  unfold unlink
  split
  · next f hf =>
    have : g ≠ f := fun e => h (e ▸ hf)
    simp [upd, this]
  · rfl

/-- after `unlink` an AST has the FST it had, or none -/
theorem unlink_astF_sub (σ : Store) (a x g : Nat) (h : σ.astF x ≠ some g) : (unlink σ a).astF x ≠ some g := by
  unfold unlink
  split
  · simp only [upd]; split
    · simp
    · exact h
  · exact h

mutual
theorem unmake_astF_sub : ∀ (t : Ast) (σ : Store) (x g : Nat), σ.astF x ≠ some g → (unmake σ t).astF x ≠ some g
  | .mk a _ _ kids, σ, x, g, h => by
    simp only [unmake]
    exact unmakeList_astF_sub kids _ x g (unlink_astF_sub σ a x g h)
theorem unmakeList_astF_sub : ∀ (l : List Ast) (σ : Store) (x g : Nat), σ.astF x ≠ some g →
    (unmakeList σ l).astF x ≠ some g
  | [], σ, x, g, h => by simpa [unmakeList] using h
  | k :: rest, σ, x, g, h => by
    simp only [unmakeList]
    exact unmakeList_astF_sub rest _ x g (unmake_astF_sub k σ x g h)
end

mutual
/-- `_unmake_fst_tree` writes `a.f` only for ASTs of the subtree -/
theorem unmake_astF_frame : ∀ (t : Ast) (σ : Store) (x : Nat), x ∉ ids t → (unmake σ t).astF x = σ.astF x
  | .mk a _ _ kids, σ, x, hx => by
    simp only [ids, List.mem_cons, not_or] at hx
    simp only [unmake]
    rw [unmakeList_astF_frame kids (unlink σ a) x hx.2, unlink_astF_other σ a x hx.1]
theorem unmakeList_astF_frame : ∀ (l : List Ast) (σ : Store) (x : Nat), x ∉ idsList l →
    (unmakeList σ l).astF x = σ.astF x
  | [], σ, x, _ => by simp [unmakeList]
  | k :: rest, σ, x, hx => by
    simp only [idsList, List.mem_append, not_or] at hx
    simp only [unmakeList]
    rw [unmakeList_astF_frame rest (unmake σ k) x hx.2, unmake_astF_frame k σ x hx.1]
end

mutual
/-- `_unmake_fst_tree` writes only FST records that are the `a.f` of an AST of the subtree -/
theorem unmake_fst_frame : ∀ (t : Ast) (σ : Store) (g : Nat), (∀ x ∈ ids t, σ.astF x ≠ some g) →
    (unmake σ t).fst g = σ.fst g
  | .mk a _ _ kids, σ, g, h => by
    simp only [unmake]
    rw [unmakeList_fst_frame kids (unlink σ a) g
      (fun x hx => unlink_astF_sub σ a x g (h x (by simp [ids, hx])))]
    exact unlink_fst_frame σ a g (h a (by simp [ids]))
theorem unmakeList_fst_frame : ∀ (l : List Ast) (σ : Store) (g : Nat), (∀ x ∈ idsList l, σ.astF x ≠ some g) →
    (unmakeList σ l).fst g = σ.fst g
  | [], σ, g, _ => by simp [unmakeList]
  | k :: rest, σ, g, h => by
    simp only [unmakeList]
    rw [unmakeList_fst_frame rest (unmake σ k) g
      (fun x hx => unmake_astF_sub k σ x g (h x (by simp [idsList, hx])))]
    exact unmake_fst_frame k σ g (fun x hx => h x (by simp [idsList, hx]))
end

/-! ### frames of `fstNew` / `makeKids` on fresh subtrees -/

/-- what `makeKids`/`makeChild` may change when no AST of the subtree has an FST yet: only `astF` at ids of the
subtree, only FST records `≥ next`; `next` only grows. -/
structure Frame (I : List Nat) (σ σ' : Store) : Prop where
  next_le : σ.next ≤ σ'.next
  astF_out : ∀ x, x ∉ I → σ'.astF x = σ.astF x
  fst_old : ∀ f, f < σ.next → σ'.fst f = σ.fst f
  astF_lt : ∀ x, x ∈ I → ∀ f, σ'.astF x = some f → f < σ'.next

theorem Frame.refl (σ : Store) : Frame [] σ σ :=
  ⟨Nat.le_refl _, fun _ _ => rfl, fun _ _ => rfl, fun x hx => by cases hx⟩

mutual
/-- `linkedB` only reads `astF` at ids of the tree and FST records of those ASTs -/
theorem linkedB_congr (σ σ' : Store) (B : Nat) :
    ∀ (t : Ast) (pf : Option Nat), (∀ x ∈ ids t, σ'.astF x = σ.astF x) →
      (∀ x ∈ ids t, ∀ f, σ.astF x = some f → f < B) → (∀ f, f < B → σ'.fst f = σ.fst f) →
      linkedB σ pf t = true → linkedB σ' pf t = true
  | .mk a _ fld kids, pf, h1, h2, h3, hl => by
    simp only [linkedB] at hl ⊢
    have ha : σ'.astF a = σ.astF a := h1 a (by simp [ids])
    rw [ha]
    cases hf : σ.astF a with
    | none => simp [hf] at hl
    | some f =>
      simp only [hf, Bool.and_eq_true] at hl ⊢
      have hfB : f < B := h2 a (by simp [ids]) f hf
      rw [h3 f hfB]
      refine ⟨hl.1, ?_⟩
      exact linkedListB_congr σ σ' B kids (some f)
        (fun x hx => h1 x (by simp [ids, hx])) (fun x hx => h2 x (by simp [ids, hx])) h3 hl.2
theorem linkedListB_congr (σ σ' : Store) (B : Nat) :
    ∀ (l : List Ast) (pf : Option Nat), (∀ x ∈ idsList l, σ'.astF x = σ.astF x) →
      (∀ x ∈ idsList l, ∀ f, σ.astF x = some f → f < B) → (∀ f, f < B → σ'.fst f = σ.fst f) →
      linkedListB σ pf l = true → linkedListB σ' pf l = true
  | [], _, _, _, _, _ => by simp [linkedListB]
  | k :: rest, pf, h1, h2, h3, hl => by
    simp only [linkedListB, Bool.and_eq_true] at hl ⊢
    exact ⟨linkedB_congr σ σ' B k pf (fun x hx => h1 x (by simp [idsList, hx]))
             (fun x hx => h2 x (by simp [idsList, hx])) h3 hl.1,
           linkedListB_congr σ σ' B rest pf (fun x hx => h1 x (by simp [idsList, hx]))
             (fun x hx => h2 x (by simp [idsList, hx])) h3 hl.2⟩
end

mutual
/-- `linkedB` only reads `astF` at ids of the tree and the FST records of those ASTs (predicate form) -/
theorem linkedB_congrP (σ σ' : Store) (P : Nat → Prop) :
    ∀ (t : Ast) (pf : Option Nat), (∀ x ∈ ids t, σ'.astF x = σ.astF x) →
      (∀ x ∈ ids t, ∀ f, σ.astF x = some f → P f) → (∀ f, P f → σ'.fst f = σ.fst f) →
      linkedB σ pf t = true → linkedB σ' pf t = true
  | .mk a _ fld kids, pf, h1, h2, h3, hl => by
    simp only [linkedB] at hl ⊢
    have ha : σ'.astF a = σ.astF a := h1 a (by simp [ids])
    rw [ha]
    cases hf : σ.astF a with
    | none => simp [hf] at hl
    | some f =>
      simp only [hf, Bool.and_eq_true] at hl ⊢
      have hfB : P f := h2 a (by simp [ids]) f hf
      rw [h3 f hfB]
      refine ⟨hl.1, ?_⟩
      exact linkedListB_congrP σ σ' P kids (some f)
        (fun x hx => h1 x (by simp [ids, hx])) (fun x hx => h2 x (by simp [ids, hx])) h3 hl.2
theorem linkedListB_congrP (σ σ' : Store) (P : Nat → Prop) :
    ∀ (l : List Ast) (pf : Option Nat), (∀ x ∈ idsList l, σ'.astF x = σ.astF x) →
      (∀ x ∈ idsList l, ∀ f, σ.astF x = some f → P f) → (∀ f, P f → σ'.fst f = σ.fst f) →
      linkedListB σ pf l = true → linkedListB σ' pf l = true
  | [], _, _, _, _, _ => by simp [linkedListB]
  | k :: rest, pf, h1, h2, h3, hl => by
    simp only [linkedListB, Bool.and_eq_true] at hl ⊢
    exact ⟨linkedB_congrP σ σ' P k pf (fun x hx => h1 x (by simp [idsList, hx]))
             (fun x hx => h2 x (by simp [idsList, hx])) h3 hl.1,
           linkedListB_congrP σ σ' P rest pf (fun x hx => h1 x (by simp [idsList, hx]))
             (fun x hx => h2 x (by simp [idsList, hx])) h3 hl.2⟩
end

/-- the store after `FST(a, parent, fld)` when `a` has no FST yet -/
def newStore (σ : Store) (a : Nat) (pf : Nat) (fld : Option Fld) : Store :=
  { astF := upd σ.astF a (some σ.next),
    fst := upd σ.fst σ.next { a := some a, parent := some pf, pfield := fld, cache := [] },
    next := σ.next + 1 }

theorem fstNew_fresh (σ : Store) (a : Nat) (pf : Nat) (fld : Option Fld) (ha : σ.astF a = none) :
    fstNew σ a pf fld = (newStore σ a pf fld, σ.next) := by
  simp [fstNew, ha, newStore]

mutual
/-- `_make_fst_tree` below a parent FST `pf < next`, on a subtree of pairwise distinct ASTs none of which has an FST:
afterwards the subtree is linked, and only fresh FST objects and the subtree's own `a.f` were written. -/
theorem makeChild_spec : ∀ (t : Ast) (σ : Store) (pf : Nat), pf < σ.next → (ids t).Nodup →
    (∀ x ∈ ids t, σ.astF x = none) →
    Frame (ids t) σ (makeChild σ pf t) ∧ linkedB (makeChild σ pf t) (some pf) t = true
  | .mk a kind fld kids, σ, pf, hpf, hnd, hfresh => by
    simp only [ids, List.nodup_cons] at hnd
    have ha : σ.astF a = none := hfresh a (by simp [ids])
    -- state after `FST(child, parent, astfield)`
    simp only [makeChild, fstNew_fresh σ a pf fld ha]
    obtain ⟨σ1, hσ1⟩ : ∃ σ1 : Store, σ1 = newStore σ a pf fld := ⟨_, rfl⟩
    rw [← hσ1]
    have h1next : σ1.next = σ.next + 1 := by rw [hσ1]; rfl
    have h1astF : σ1.astF = upd σ.astF a (some σ.next) := by rw [hσ1]; rfl
    have h1fst : σ1.fst = upd σ.fst σ.next { a := some a, parent := some pf, pfield := fld, cache := [] } := by
      rw [hσ1]; rfl
    have hkfresh : ∀ x ∈ idsList kids, σ1.astF x = none := by
      intro x hx
      have hxa : x ≠ a := fun e => hnd.1 (e ▸ hx)
      rw [h1astF, upd_other _ _ _ _ hxa]
      exact hfresh x (by simp [ids, hx])
    obtain ⟨hfr, hlk⟩ := makeKids_spec kids σ1 σ.next (by omega) hnd.2 hkfresh
    have hAa : (makeKids σ1 σ.next kids).astF a = some σ.next := by
      rw [hfr.astF_out a hnd.1, h1astF, upd_same]
    have hFa : (makeKids σ1 σ.next kids).fst σ.next =
        { a := some a, parent := some pf, pfield := fld, cache := [] } := by
      rw [hfr.fst_old σ.next (by omega), h1fst, upd_same]
    refine ⟨⟨by have := hfr.next_le; omega, ?_, ?_, ?_⟩, ?_⟩
    · intro x hx
      simp only [ids, List.mem_cons, not_or] at hx
      rw [hfr.astF_out x hx.2, h1astF, upd_other _ _ _ _ hx.1]
    · intro f hf
      rw [hfr.fst_old f (by omega), h1fst, upd_other _ _ _ _ (by omega)]
    · intro x hx f hxf
      simp only [ids, List.mem_cons] at hx
      cases hx with
      | inl h0 =>
        subst h0
        rw [hAa] at hxf
        have := hfr.next_le
        have : f = σ.next := (Option.some.inj hxf).symm
        omega
      | inr h1 => exact hfr.astF_lt x h1 f hxf
    · simp only [linkedB, hAa, hFa, beq_self_eq_true, Bool.true_and, hlk]
theorem makeKids_spec : ∀ (l : List Ast) (σ : Store) (pf : Nat), pf < σ.next → (idsList l).Nodup →
    (∀ x ∈ idsList l, σ.astF x = none) →
    Frame (idsList l) σ (makeKids σ pf l) ∧ linkedListB (makeKids σ pf l) (some pf) l = true
  | [], σ, _, _, _, _ => by
    simp only [makeKids, idsList, linkedListB, and_true]
    exact Frame.refl σ
  | k :: rest, σ, pf, hpf, hnd, hfresh => by
    simp only [idsList, List.nodup_append] at hnd
    obtain ⟨hndk, hndr, hdisj⟩ := hnd
    obtain ⟨hfk, hlk⟩ := makeChild_spec k σ pf hpf hndk (fun x hx => hfresh x (by simp [idsList, hx]))
    have hrfresh : ∀ x ∈ idsList rest, (makeChild σ pf k).astF x = none := by
      intro x hx
      have hxk : x ∉ ids k := fun hk => hdisj x hk x hx rfl
      rw [hfk.astF_out x hxk]
      exact hfresh x (by simp [idsList, hx])
    obtain ⟨hfr, hlr⟩ := makeKids_spec rest (makeChild σ pf k) pf (by have := hfk.next_le; omega) hndr hrfresh
    simp only [makeKids, linkedListB, Bool.and_eq_true]
    refine ⟨⟨by have := hfk.next_le; have := hfr.next_le; omega, ?_, ?_, ?_⟩, ?_, hlr⟩
    · intro x hx
      simp only [idsList, List.mem_append, not_or] at hx
      rw [hfr.astF_out x hx.2, hfk.astF_out x hx.1]
    · intro f hf
      rw [hfr.fst_old f (by have := hfk.next_le; omega), hfk.fst_old f hf]
    · intro x hx f hxf
      simp only [idsList, List.mem_append] at hx
      cases hx with
      | inr h1 => exact hfr.astF_lt x h1 f hxf
      | inl h0 =>
        have hxr : x ∉ idsList rest := fun hr => hdisj x h0 x hr rfl
        rw [hfr.astF_out x hxr] at hxf
        have := hfk.astF_lt x h0 f hxf
        have := hfr.next_le
        omega
    · -- the first child stays linked while its later siblings are made
      exact linkedB_congr (makeChild σ pf k) _ (makeChild σ pf k).next k (some pf)
        (fun x hx => hfr.astF_out x (fun hr => hdisj x hx x hr rfl))
        (fun x hx f hxf => hfk.astF_lt x hx f hxf)
        (fun f hf => hfr.fst_old f hf) hlk
end

/-! ### `touch` does not look at links -/

mutual
theorem linkedB_touch (σ : Store) (g : Nat) : ∀ (t : Ast) (pf : Option Nat),
    linkedB (touch σ g) pf t = linkedB σ pf t
  | .mk a _ fld kids, pf => by
    simp only [linkedB, touch]
    cases σ.astF a with
    | none => rfl
    | some f =>
      simp only
      have : ∀ x, (upd σ.fst g { σ.fst g with cache := [] } x).a = (σ.fst x).a
           ∧ (upd σ.fst g { σ.fst g with cache := [] } x).parent = (σ.fst x).parent
           ∧ (upd σ.fst g { σ.fst g with cache := [] } x).pfield = (σ.fst x).pfield := by
        intro x; simp only [upd]; split
        · next h => subst h; exact ⟨rfl, rfl, rfl⟩
        · exact ⟨rfl, rfl, rfl⟩
      rw [(this f).1, (this f).2.1, (this f).2.2]
      have ih := linkedListB_touch σ g kids (some f)
      simp only [touch] at ih
      rw [ih]
theorem linkedListB_touch (σ : Store) (g : Nat) : ∀ (l : List Ast) (pf : Option Nat),
    linkedListB (touch σ g) pf l = linkedListB σ pf l
  | [], _ => by simp [linkedListB]
  | k :: rest, pf => by
    simp only [linkedListB, linkedB_touch σ g k pf, linkedListB_touch σ g rest pf]
end

/-! ### call sites that only clear caches (`_put_slice` tail, `unpar` after an in-place write) -/

theorem touch_cache_stays (σ : Store) (g f : Nat) (h : (σ.fst f).cache = []) : ((touch σ g).fst f).cache = [] := by
  simp only [touch, upd]; split
  · rfl
  · exact h

theorem touch_cache_self (σ : Store) (f : Nat) : ((touch σ f).fst f).cache = [] := by simp [touch, upd]

theorem touchAst_cache_stays (σ : Store) (a f : Nat) (h : (σ.fst f).cache = []) :
    ((touchAst σ a).fst f).cache = [] := by
  unfold touchAst; split
  · exact touch_cache_stays σ _ f h
  · exact h

theorem touchAst_astF (σ : Store) (a : Nat) : (touchAst σ a).astF = σ.astF := by
  unfold touchAst; split <;> rfl

theorem touchKids_astF : ∀ (l : List Ast) (σ : Store), (touchKids σ l).astF = σ.astF
  | [], _ => rfl
  | k :: rest, σ => by simp only [touchKids]; rw [touchKids_astF rest, touchAst_astF]

theorem touchKids_cache_stays : ∀ (l : List Ast) (σ : Store) (f : Nat), (σ.fst f).cache = [] →
    ((touchKids σ l).fst f).cache = []
  | [], _, _, h => h
  | k :: rest, σ, f, h => by
    simp only [touchKids]
    exact touchKids_cache_stays rest _ f (touchAst_cache_stays σ k.id f h)

theorem linkedB_touchAst (σ : Store) (a : Nat) (t : Ast) (pf : Option Nat) :
    linkedB (touchAst σ a) pf t = linkedB σ pf t := by
  unfold touchAst; split
  · exact linkedB_touch σ _ t pf
  · rfl

theorem linkedB_touchKids : ∀ (l : List Ast) (σ : Store) (t : Ast) (pf : Option Nat),
    linkedB (touchKids σ l) pf t = linkedB σ pf t
  | [], _, _, _ => rfl
  | k :: rest, σ, t, pf => by
    simp only [touchKids]
    rw [linkedB_touchKids rest, linkedB_touchAst]

theorem touchParents_cache_stays : ∀ (fuel : Nat) (σ : Store) (g f : Nat), (σ.fst f).cache = [] →
    ((touchParents σ fuel g).fst f).cache = []
  | 0, _, _, _, h => h
  | fuel + 1, σ, g, f, h => by
    simp only [touchParents]
    split
    · exact h
    · exact touchParents_cache_stays fuel _ _ f (touch_cache_stays σ _ f h)

/-! ### renumbering of the remaining children after a span was removed from (parallel) lists -/

theorem setPfield_astF (σ : Store) (k : Ast) : (setPfield σ k).astF = σ.astF := by
  unfold setPfield; split <;> rfl

theorem setPfield_other (σ : Store) (k : Ast) (f : Nat) (h : σ.astF k.id ≠ some f) :
    (setPfield σ k).fst f = σ.fst f := by
  unfold setPfield
  split
  · next g hg =>
    have : f ≠ g := fun e => h (e ▸ hg)
    simp [upd, this]
  · rfl

theorem setPfield_self (σ : Store) (k : Ast) (f : Nat) (h : σ.astF k.id = some f) :
    ((setPfield σ k).fst f).pfield = k.fld ∧ ((setPfield σ k).fst f).a = (σ.fst f).a
      ∧ ((setPfield σ k).fst f).parent = (σ.fst f).parent := by
  simp [setPfield, h, upd]

theorem renumberKids_astF : ∀ (l : List Ast) (σ : Store), (renumberKids σ l).astF = σ.astF
  | [], _ => rfl
  | k :: rest, σ => by simp only [renumberKids]; rw [renumberKids_astF rest, setPfield_astF]

theorem renumberKids_other : ∀ (l : List Ast) (σ : Store) (f : Nat), (∀ k ∈ l, σ.astF k.id ≠ some f) →
    (renumberKids σ l).fst f = σ.fst f
  | [], _, _, _ => rfl
  | k :: rest, σ, f, h => by
    simp only [renumberKids]
    rw [renumberKids_other rest (setPfield σ k) f (by
      intro k' hk'; rw [setPfield_astF]; exact h k' (List.mem_cons_of_mem _ hk'))]
    exact setPfield_other σ k f (h k List.mem_cons_self)

end Pfst.Links
