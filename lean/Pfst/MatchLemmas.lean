import Pfst.Match

/-!
Lemmas behind `Pfst/Props/C17.lean`.

Part L: for a quantifier whose body matches in at most one way (a single element pattern, or a sublist of element
patterns), the loops of `_match__inside_list_quantifier` (two counting phases, then back-off / extension) return the
first success of the ordered list-of-successes enumeration `allIter`.
-/
namespace Pfst.Match

/-! ### generic list facts -/

theorem head?_filter_flatMap {α β} (L : List α) (F : α → List β) (p : β → Bool) :
    ((L.flatMap F).filter p).head? = L.findSome? (fun x => ((F x).filter p).head?) := by
  induction L with
  | nil => rfl
  | cons a L ih =>
    rw [List.flatMap_cons, List.filter_append, List.head?_append, ih, List.findSome?_cons]
    cases h : ((F a).filter p).head? <;> simp [Option.or]

theorem findSome?_congr {α β} (L : List α) (f g : α → Option β) (h : ∀ x, f x = g x) :
    L.findSome? f = L.findSome? g := by
  have : f = g := funext h
  rw [this]

/-! ### the quantifier loops -/

section Quant
variable (q : QSpec) (once : Dict → Nat → Option Entry) (rest : Dict → Nat → Option (Dict × Nat)) (ctx : Dict)

/-- the spec's body for a deterministic, single-result iteration -/
def bodyOf (once : Dict → Nat → Option Entry) : Dict → Nat → List Entry :=
  fun c j => match once c j with | none => [] | some en => [en]

/-- what trying the rest of the list after the quantifier gives, for one way `r` of iterating -/
def contK (rest : Dict → Nat → Option (Dict × Nat)) (ctx : Dict) (r : Dict × Nat) : Option (Dict × Nat) :=
  match rest (ctx ++ r.1) r.2 with
  | none => none
  | some (m, k) => some (r.1 ++ m, k)

/-- first success of the spec enumeration from a loop state -/
def G (f : Nat) (st : QState) : Option (Dict × Nat) :=
  (allIter q (bodyOf once) ctx f st.count st.idx st.entries).findSome? (contK rest ctx)

/-- how many copies of the static tags are bound at count `c` -/
def sn (c : Nat) : Nat := if q.mn ≤ c then 1 else 0

/-- the static tags the loop state carries are those the spec binds at this count -/
def SI (st : QState) : Prop := statics q st.nstatic = statics q (sn q st.count)

theorem vis_eq (st : QState) (h : SI q st) : st.vis q = visible q st.entries (sn q st.count) := by
  unfold SI at h
  simp only [QState.vis, visible]
  rw [h]

theorem SI_push (st : QState) (e : Entry) (h : SI q st) (hc : q.mn ≤ st.count) : SI q (st.push e) := by
  have h1 : sn q st.count = 1 := by simp [sn, hc]
  have h2 : sn q (st.count + 1) = 1 := by simp [sn]; omega
  simp only [SI, QState.push] at *
  rw [h2, ← h1]; exact h

theorem SI_addStatic (st : QState) (hn : st.nstatic = 0) (hc : st.count = q.mn) : SI q (addStatic q st) := by
  have h1 : sn q st.count = 1 := by simp [sn, hc]
  unfold addStatic
  split
  · next he =>
    have : q.static = [] := by simpa using he
    simp [SI, h1, hn, statics, staticDict, this]
  · simp [SI, h1, hn]

theorem G_addStatic (f : Nat) (st : QState) : G q once rest ctx f (addStatic q st) = G q once rest ctx f st := by
  unfold addStatic; split <;> rfl

/-- trying the rest at the current state (what both `backOff` and `tryMore` do first) -/
def here (st : QState) : Option (Dict × Nat) := contK rest ctx (st.vis q, st.idx)

theorem G_zero (st : QState) (hv : SI q st) :
    G q once rest ctx 0 st = if q.mn ≤ st.count then here q rest ctx st else none := by
  unfold G
  simp only [allIter]
  split
  · next hc =>
    have h1 : sn q st.count = 1 := by simp [sn, hc]
    simp [here, vis_eq q st hv, h1]
  · rfl

theorem push_nstatic (st : QState) (e : Entry) : (st.push e).nstatic = st.nstatic := rfl
theorem push_count (st : QState) (e : Entry) : (st.push e).count = st.count + 1 := rfl
theorem push_idx (st : QState) (e : Entry) : (st.push e).idx = e.stop := rfl
theorem push_entries (st : QState) (e : Entry) : (st.push e).entries = st.entries ++ [e] := rfl

/-- one more iteration, as the spec sees it -/
def more (f : Nat) (st : QState) : Option (Dict × Nat) :=
  if ltTo st.count q.mx then
    match once (ctx ++ st.vis q) st.idx with
    | none => none
    | some e => G q once rest ctx f (st.push e)
  else none

theorem G_succ (hadv : ∀ c j e, once c j = some e → j < e.stop) (f : Nat) (st : QState) (hv : SI q st) :
    G q once rest ctx (f + 1) st =
      if q.greedy then (more q once rest ctx f st).or (if q.mn ≤ st.count then here q rest ctx st else none)
      else (if q.mn ≤ st.count then here q rest ctx st else none).or (more q once rest ctx f st) := by
  have hstop : (if q.mn ≤ st.count then [(visible q st.entries 1, st.idx)] else []).findSome? (contK rest ctx)
      = if q.mn ≤ st.count then here q rest ctx st else none := by
    split
    · next hc =>
      have h1 : sn q st.count = 1 := by simp [sn, hc]
      simp only [List.findSome?_cons, here, vis_eq q st hv, h1, List.findSome?_nil]
      cases contK rest ctx (visible q st.entries 1, st.idx) <;> rfl
    · rfl
  have hmore : (if ltTo st.count q.mx then
        (bodyOf once (ctx ++ visible q st.entries (if q.mn ≤ st.count then 1 else 0)) st.idx).flatMap (fun e =>
          if q.mx.isSome || st.idx < e.stop then allIter q (bodyOf once) ctx f (st.count + 1) e.stop (st.entries ++ [e]) else [])
      else []).findSome? (contK rest ctx) = more q once rest ctx f st := by
    unfold more
    split
    · simp only [bodyOf, vis_eq q st hv, sn]
      cases ho : once (ctx ++ visible q st.entries (if q.mn ≤ st.count then 1 else 0)) st.idx with
      | none => simp
      | some e =>
        have := hadv _ _ _ ho
        simp [this, G, push_count, push_idx, push_entries]
    · rfl
  unfold G
  simp only [allIter]
  split
  · rw [List.findSome?_append, hmore, hstop]
  · rw [List.findSome?_append, hmore, hstop]

/-- `leTo c mx`: the count has not passed the maximum -/
def leTo (c : Nat) : Option Nat → Bool
  | none => true
  | some m => decide (c ≤ m)

theorem SI_below (st : QState) (hn : st.nstatic = 0) (h : st.count < q.mn) : SI q st := by
  have : sn q st.count = 0 := by simp [sn]; omega
  simp [SI, hn, this]

/-- Phase 1 (counting up to `min`): levels below `min` cannot stop, so the spec's first success is that of the state
phase 1 ends in; and if phase 1 breaks, the spec has no success at all. -/
theorem phase1_G (hadv : ∀ c j e, once c j = some e → j < e.stop) (hwf : leTo q.mn q.mx = true) :
    ∀ (f : Nat) (st : QState), st.nstatic = 0 → st.count ≤ q.mn →
      let r := phase q once ctx (some q.mn) f st
      (r.2.2 = false → G q once rest ctx f st = none) ∧
      (r.2.2 = true → r.2.1.count = q.mn ∧ r.2.1.nstatic = 0 ∧ G q once rest ctx f st = G q once rest ctx r.1 r.2.1) := by
  intro f
  induction f with
  | zero =>
    intro st hn hc
    simp only [phase, ltTo]
    by_cases h : st.count < q.mn
    · simp only [h, decide_true, if_true]
      refine ⟨fun _ => ?_, fun h' => by simp at h'⟩
      rw [G_zero q once rest ctx st (SI_below q st hn h)]
      simp; omega
    · simp only [h, decide_false, Bool.false_eq_true, if_false]
      refine ⟨fun h' => by simp at h', fun _ => ⟨by omega, hn, trivial⟩⟩
  | succ f ih =>
    intro st hn hc
    simp only [phase, ltTo]
    by_cases h : st.count < q.mn
    · simp only [h, decide_true, if_true]
      have hlt : ltTo st.count q.mx = true := by
        cases hm : q.mx with
        | none => rfl
        | some m => simp [leTo, hm] at hwf; simp [ltTo]; omega
      have hmn : ¬ q.mn ≤ st.count := by omega
      have hv := SI_below q st hn h
      cases ho : once (ctx ++ st.vis q) st.idx with
      | none =>
        simp only
        refine ⟨fun _ => ?_, fun h' => by simp at h'⟩
        rw [G_succ q once rest ctx hadv f st hv]
        simp [more, hlt, ho, hmn]
      | some e =>
        simp only
        have hG : G q once rest ctx (f + 1) st = G q once rest ctx f (st.push e) := by
          rw [G_succ q once rest ctx hadv f st hv]
          simp [more, hlt, ho, hmn]
        have := ih (st.push e) (by simp [push_nstatic, hn]) (by simp [push_count]; omega)
        rw [hG]
        exact this
    · simp only [h, decide_false, Bool.false_eq_true, if_false]
      refine ⟨fun h' => by simp at h', fun _ => ⟨by omega, hn, trivial⟩⟩

/-- `backOff` started with its recursion bound at the current count -/
def BO (st : QState) : Option (Dict × Nat) := backOff q rest ctx st.count st

theorem BO_unfold (st : QState) (hc : q.mn ≤ st.count) :
    BO q rest ctx st = (here q rest ctx st).or (if st.count = q.mn then none else BO q rest ctx (dropOne q st)) := by
  unfold BO
  rw [backOff.eq_def]
  simp only [here, contK]
  cases hr : rest (ctx ++ st.vis q) st.idx with
  | some r => obtain ⟨m, j⟩ := r; simp [Option.or]
  | none =>
    simp only [Option.or]
    by_cases h : st.count = q.mn
    · simp [h]
    · have hb : (st.count == q.mn) = false := by simp [h]
      simp only [hb, h, if_false, Bool.false_eq_true]
      have hpos : st.count = (st.count - 1) + 1 := by omega
      have hd : (dropOne q st).count = st.count - 1 := rfl
      rw [hd]
      generalize st.count - 1 = n at hpos
      rw [hpos]

theorem dropOne_push (st : QState) (e : Entry) (he : e.start = st.idx) : dropOne q (st.push e) = st := by
  simp [dropOne, QState.push, he]

/-- Phase 2 (counting up to `max`) followed by the back-off loop tries exactly the spec's candidates from the current
level upwards, best first, then continues below. -/
theorem phase2_BO (hst : ∀ c j e, once c j = some e → e.start = j) (hadv : ∀ c j e, once c j = some e → j < e.stop) :
    ∀ (f : Nat) (st : QState), SI q st → q.mn ≤ st.count → q.greedy = true →
      BO q rest ctx (phase q once ctx q.mx f st).2.1 =
        (G q once rest ctx f st).or (if st.count = q.mn then none else BO q rest ctx (dropOne q st)) := by
  intro f
  induction f with
  | zero =>
    intro st hv hc hg
    have : (phase q once ctx q.mx 0 st).2.1 = st := by simp only [phase]; split <;> rfl
    rw [this, G_zero q once rest ctx st hv, if_pos hc, BO_unfold q rest ctx st hc]
  | succ f ih =>
    intro st hv hc hg
    rw [G_succ q once rest ctx hadv f st hv, hg]
    simp only [if_true, if_pos hc]
    simp only [phase]
    by_cases hlt : ltTo st.count q.mx = true
    · simp only [hlt, if_true]
      cases ho : once (ctx ++ st.vis q) st.idx with
      | none =>
        simp only [more, hlt, ho, if_true, Option.none_or]
        exact BO_unfold q rest ctx st hc
      | some e =>
        simp only [more, hlt, ho, if_true]
        have hne : ¬ (st.push e).count = q.mn := by simp [push_count]; omega
        rw [ih (st.push e) (SI_push q st e hv hc) (by simp [push_count]; omega) hg, if_neg hne,
          dropOne_push q st e (hst _ _ _ ho), BO_unfold q rest ctx st hc, Option.or_assoc]
    · simp only [hlt, more]
      exact BO_unfold q rest ctx st hc

/-- the non-greedy extension loop is the spec's enumeration: stop first, then one more iteration -/
theorem tryMore_G (hadv : ∀ c j e, once c j = some e → j < e.stop) :
    ∀ (f : Nat) (st : QState), SI q st → q.mn ≤ st.count → leTo st.count q.mx = true → q.greedy = false →
      tryMore q once rest ctx f st = G q once rest ctx f st := by
  intro f
  induction f with
  | zero =>
    intro st hv hc hle hg
    rw [G_zero q once rest ctx st hv, if_pos hc, tryMore]
    unfold here contK
    cases hr : rest (ctx ++ st.vis q) st.idx with
    | some r => rfl
    | none => simp only; split <;> rfl
  | succ f ih =>
    intro st hv hc hle hg
    rw [G_succ q once rest ctx hadv f st hv, hg, tryMore]
    simp only [Bool.false_eq_true, if_false, if_pos hc]
    unfold here contK
    cases hr : rest (ctx ++ st.vis q) st.idx with
    | some r => obtain ⟨m, j⟩ := r; simp [Option.or]
    | none =>
      simp only [Option.none_or]
      unfold more
      cases hm : q.mx with
      | none =>
        simp only [ltTo, if_true]
        have : (some st.count == (none : Option Nat)) = false := rfl
        simp only [this]
        cases ho : once (ctx ++ st.vis q) st.idx with
        | none => rfl
        | some e =>
          simp only [Bool.false_eq_true, if_false]
          exact ih (st.push e) (SI_push q st e hv hc) (by simp [push_count]; omega) (by simp [leTo, hm]) hg
      | some m =>
        simp only [leTo, hm, decide_eq_true_eq] at hle
        by_cases heq : st.count = m
        · simp [ltTo, heq]
        · have : (some st.count == some m) = false := by simp [heq]
          have hlt : st.count < m := by omega
          simp only [this, ltTo, hlt, decide_true, if_true, Bool.false_eq_true, if_false]
          cases ho : once (ctx ++ st.vis q) st.idx with
          | none => rfl
          | some e =>
            simp only
            exact ih (st.push e) (SI_push q st e hv hc) (by simp [push_count]; omega)
              (by rw [push_count, hm]; simp only [leTo, decide_eq_true_eq]; omega) hg

/-- **The quantifier loop theorem**: for a body that matches in at most one way, starts where it is asked to and
consumes at least one element, the loops return the first success of the spec's enumeration. -/
theorem matchQuant_eq (hst : ∀ c j e, once c j = some e → e.start = j) (hadv : ∀ c j e, once c j = some e → j < e.stop)
    (hwf : leTo q.mn q.mx = true) (fuel i : Nat) :
    matchQuant fuel q once rest ctx i =
      (allIter q (bodyOf once) ctx fuel 0 i []).findSome? (contK rest ctx) := by
  change _ = G q once rest ctx fuel ⟨0, i, [], 0⟩
  unfold matchQuant
  have hp := phase1_G q once rest ctx hadv hwf fuel ⟨0, i, [], 0⟩ rfl (Nat.zero_le _)
  rcases hph : phase q once ctx (some q.mn) fuel ⟨0, i, [], 0⟩ with ⟨f1, st1, done1⟩
  rw [hph] at hp
  simp only [hph] at hp ⊢
  cases done1 with
  | false => simp [hp.1 rfl]
  | true =>
    obtain ⟨hc, hn, hG⟩ := hp.2 rfl
    simp only [Bool.not_true, Bool.false_eq_true, if_false]
    rw [hG, ← G_addStatic q once rest ctx f1 st1]
    have hv := SI_addStatic q st1 hn hc
    have hc' : (addStatic q st1).count = q.mn := by unfold addStatic; split <;> exact hc
    by_cases hg : q.greedy = true
    · simp only [hg, if_true]
      have h2 := phase2_BO q once rest ctx hst hadv f1 (addStatic q st1) hv (by omega) hg
      simp only [hc', if_true, Option.or_none] at h2
      rw [← h2]
      rfl
    · have hg' : q.greedy = false := by simpa using hg
      simp only [hg', Bool.false_eq_true, if_false]
      exact tryMore_G q once rest ctx hadv f1 (addStatic q st1) hv (by omega) (by rw [hc']; exact hwf) hg'

end Quant

/-! ### the whole list -/

def isElem : LPat → Bool
  | .elem _ => true
  | _ => false

/-- every quantifier has `min ≤ max` and iterates a body without choice points: a single element pattern, or a
non-empty sublist of element patterns (static tags and a pattern tag are allowed) -/
def simpleItem : LPat → Bool
  | .elem _ => true
  | .qs q _ => leTo q.mn q.mx
  | .ql q ps => leTo q.mn q.mx && !ps.isEmpty && ps.all isElem

def okEnd (xs : List Nat) (allowPartial : Bool) (r : Dict × Nat) : Bool := allowPartial || r.2 == xs.length

theorem onceE_start (xs : List Nat) (e : EPat) : ∀ c j en, onceE xs e c j = some en → en.start = j := by
  intro c j en h
  unfold onceE at h
  split at h
  · cases h
  · split at h
    · cases h
    · cases h; rfl

theorem onceE_stop (xs : List Nat) (e : EPat) : ∀ c j en, onceE xs e c j = some en → j < en.stop := by
  intro c j en h
  unfold onceE at h
  split at h
  · cases h
  · split at h
    · cases h
    · cases h; simp

/-- a sublist of element patterns matches in at most one way: the spec's enumeration is the matcher's answer -/
theorem allSeq_elems (xs : List Nat) : ∀ (ps : List LPat), ps.all isElem = true → ∀ (ctx : Dict) (i : Nat),
    allSeq xs ps ctx i = (match matchInside xs ps true ctx i with | none => [] | some r => [r]) ∧
    (∀ r, matchInside xs ps true ctx i = some r → r.2 = i + ps.length) := by
  intro ps
  induction ps with
  | nil => intro _ ctx i; simp [allSeq, matchInside]
  | cons p rest ih =>
    intro h ctx i
    simp only [List.all_cons, Bool.and_eq_true] at h
    cases p with
    | qs q e => simp [isElem] at h
    | ql q ps' => simp [isElem] at h
    | elem e =>
      simp only [allSeq, matchInside, matchPat, allPat]
      cases hx : xs[i]? with
      | none => simp
      | some x =>
        simp only
        cases hm : matchE ctx e i x with
        | none => simp
        | some m =>
          have ihr := ih h.2 (ctx ++ m) (i + 1)
          simp only [List.flatMap_cons, List.flatMap_nil, List.append_nil, ihr.1]
          cases hr : matchInside xs rest true (ctx ++ m) (i + 1) with
          | none => simp
          | some r =>
            obtain ⟨d, j⟩ := r
            have := ihr.2 _ hr
            simp only at this
            simp [this]; omega

theorem matchInside_eq (xs : List Nat) : ∀ (ps : List LPat), ps.all simpleItem = true →
    ∀ (ap : Bool) (ctx : Dict) (i : Nat),
      matchInside xs ps ap ctx i = ((allSeq xs ps ctx i).filter (okEnd xs ap)).head? := by
  intro ps
  induction ps with
  | nil =>
    intro _ ap ctx i
    by_cases h : (ap || i == xs.length) = true
    · simp [matchInside, allSeq, okEnd, h]
    · simp [matchInside, allSeq, okEnd, h]
  | cons p rest ih =>
    intro hsimple ap ctx i
    simp only [List.all_cons, Bool.and_eq_true] at hsimple
    have ihr := ih hsimple.2 ap
    rw [matchInside, allSeq, head?_filter_flatMap]
    have hcont : (fun c j => matchInside xs rest ap c j) = (fun c j => ((allSeq xs rest c j).filter (okEnd xs ap)).head?) := by
      funext c j; exact ihr c j
    rw [hcont]
    -- the per-candidate continuation, in the spec's shape
    have hK : ∀ r : Dict × Nat,
        (((allSeq xs rest (ctx ++ r.1) r.2).map (fun r' => (r.1 ++ r'.1, r'.2))).filter (okEnd xs ap)).head? =
        contK (fun c j => ((allSeq xs rest c j).filter (okEnd xs ap)).head?) ctx r := by
      intro r
      rw [List.filter_map, List.head?_map]
      have : (okEnd xs ap ∘ fun r' : Dict × Nat => (r.1 ++ r'.1, r'.2)) = okEnd xs ap := by
        funext r'; simp [okEnd]
      rw [this]
      unfold contK
      show _ = match (List.filter (okEnd xs ap) (allSeq xs rest (ctx ++ r.1) r.2)).head? with
        | none => none
        | some (m, k) => some (r.1 ++ m, k)
      generalize ((allSeq xs rest (ctx ++ r.1) r.2).filter (okEnd xs ap)).head? = o
      cases o with
      | none => rfl
      | some v => obtain ⟨m, k⟩ := v; rfl
    rw [findSome?_congr _ _ _ hK]
    cases p with
    | elem e =>
      simp only [matchPat, allPat]
      cases hx : xs[i]? with
      | none => rfl
      | some x =>
        simp only
        cases hm : matchE ctx e i x with
        | none => rfl
        | some m =>
          simp only [List.findSome?_cons, contK, List.findSome?_nil]
          cases ((allSeq xs rest (ctx ++ m) (i + 1)).filter (okEnd xs ap)).head? with
          | none => rfl
          | some v => obtain ⟨d, j⟩ := v; rfl
    | qs q e =>
      simp only [simpleItem] at hsimple
      simp only [matchPat, allPat]
      exact matchQuant_eq q (onceE xs e) _ ctx (onceE_start xs e) (onceE_stop xs e) hsimple.1 _ i
    | ql q ps' =>
      simp only [simpleItem, Bool.and_eq_true, Bool.not_eq_true', List.isEmpty_eq_false_iff] at hsimple
      obtain ⟨⟨⟨hwf, hne⟩, hel⟩, _⟩ := hsimple
      simp only [matchPat, allPat]
      have hbody : (fun c j => (allSeq xs ps' c j).map (fun r => (⟨j, r.2, r.1⟩ : Entry))) =
          bodyOf (fun c j => match matchInside xs ps' true c j with
                             | none => none
                             | some (d, k) => some ⟨j, k, d⟩) := by
        funext c j
        simp only [bodyOf, (allSeq_elems xs ps' hel c j).1]
        cases matchInside xs ps' true c j with
        | none => rfl
        | some r => obtain ⟨d, k⟩ := r; rfl
      rw [hbody]
      apply matchQuant_eq
      · intro c j en h
        cases hm : matchInside xs ps' true c j with
        | none => simp [hm] at h
        | some r => obtain ⟨d, k⟩ := r; simp [hm] at h; rw [← h]
      · intro c j en h
        cases hm : matchInside xs ps' true c j with
        | none => simp [hm] at h
        | some r =>
          obtain ⟨d, k⟩ := r
          have hk := (allSeq_elems xs ps' hel c j).2 _ hm
          simp [hm] at h
          rw [← h]
          simp only at hk ⊢
          have : 0 < ps'.length := List.length_pos_iff.2 hne
          omega
      · exact hwf

theorem matchList_eq_spec (ps : List LPat) (xs : List Nat) (h : ps.all simpleItem = true) :
    matchList ps xs = specMatch ps xs := by
  unfold matchList specMatch allMatches
  rw [matchInside_eq xs ps h false [] 0, List.head?_map]
  have : (fun r : Dict × Nat => r.2 == xs.length) = okEnd xs false := by funext r; simp [okEnd]
  rw [this]
  cases ((allSeq xs ps [] 0).filter (okEnd xs false)).head? with
  | none => rfl
  | some v => obtain ⟨d, j⟩ := v; rfl

/-! ### Part T: a tree against the pattern built from a tree -/

mutual
theorem matchTree_refl : ∀ t : Tree, matchTree t t = true
  | .node i k ks => by simp [matchTree, Tree.kind, Tree.kids, matchTrees_refl ks]
theorem matchTrees_refl : ∀ ts : List Tree, matchTrees ts ts = true
  | [] => by simp [matchTrees]
  | t :: ts => by simp [matchTrees, matchTree_refl t, matchTrees_refl ts]
end

mutual
theorem toPattern_of_same (K : Kinds) : ∀ (p t : Tree) (ctx : TEnv), matchTree p t = true →
    matchNode K (toPattern p) ctx t = some []
  | .node i k ps, t, ctx, h => by
    simp only [matchTree, Bool.and_eq_true] at h
    simp only [toPattern, matchNode, h.1, if_true]
    exact toPatterns_of_same K ps t.kids ctx h.2
theorem toPatterns_of_same (K : Kinds) : ∀ (ps ts : List Tree) (ctx : TEnv), matchTrees ps ts = true →
    matchFields K (toPatterns ps) ctx ts = some []
  | [], ts, ctx, h => by
    simp only [matchTrees] at h
    simp [toPatterns, matchFields, h]
  | p :: ps, [], ctx, h => by simp [matchTrees] at h
  | p :: ps, t :: ts, ctx, h => by
    simp only [matchTrees, Bool.and_eq_true] at h
    simp only [toPatterns, matchFields, toPattern_of_same K p t ctx h.1, List.append_nil,
      toPatterns_of_same K ps ts ctx h.2]
end

mutual
/-- `diff1 t t'`: `t'` is `t` with exactly one leaf (a node without children) given another kind; ids are ignored -/
def diff1 : Tree → Tree → Bool
  | .node _ k ks, t' =>
    if ks.isEmpty && t'.kids.isEmpty then k != t'.kind else k == t'.kind && diff1List ks t'.kids
termination_by structural t => t
def diff1List : List Tree → List Tree → Bool
  | [], _ => false
  | t :: ts, ts' =>
    match ts' with
    | [] => false
    | t' :: ts'' => (diff1 t t' && matchTrees ts ts'') || (matchTree t t' && diff1List ts ts'')
termination_by structural ts => ts
end

mutual
theorem toPattern_of_diff1 (K : Kinds) : ∀ (p t : Tree) (ctx : TEnv), diff1 p t = true →
    matchNode K (toPattern p) ctx t = none
  | .node i k ps, t, ctx, h => by
    simp only [diff1] at h
    simp only [toPattern, matchNode]
    split at h
    · have : (k == t.kind) = false := by simpa using h
      simp [this]
    · simp only [Bool.and_eq_true] at h
      simp only [h.1, if_true]
      exact toPatterns_of_diff1 K ps t.kids ctx h.2
theorem toPatterns_of_diff1 (K : Kinds) : ∀ (ps ts : List Tree) (ctx : TEnv), diff1List ps ts = true →
    matchFields K (toPatterns ps) ctx ts = none
  | [], ts, ctx, h => by simp [diff1List] at h
  | p :: ps, [], ctx, h => by simp [diff1List] at h
  | p :: ps, t :: ts, ctx, h => by
    simp only [diff1List, Bool.or_eq_true, Bool.and_eq_true] at h
    simp only [toPatterns, matchFields]
    rcases h with h | h
    · simp [toPattern_of_diff1 K p t ctx h.1]
    · simp [toPattern_of_same K p t ctx h.1, toPatterns_of_diff1 K ps ts ctx h.2]
end

/-! ### Part P: the pre-filter -/

theorem mem_union (a b : List Nat) (x : Nat) : x ∈ union a b ↔ x ∈ a ∨ x ∈ b := by
  by_cases h : x ∈ a <;> simp [union, h]

theorem mem_inter (a b : List Nat) (x : Nat) : x ∈ inter a b ↔ x ∈ a ∧ x ∈ b := by
  simp [inter]

theorem mem_diff (a b : List Nat) (x : Nat) : x ∈ diff a b ↔ x ∈ a ∧ x ∉ b := by
  simp [diff]

theorem isFull_mem (K : Kinds) (la : List Nat) (tk : Nat) (hall : tk ∈ K.all) (hf : isFull K la = true) : tk ∈ la := by
  simp only [isFull, List.all_eq_true] at hf
  simpa using hf tk hall

/-- What the tables must satisfy at the kind `tk` of a target node (checked for the extracted tables in
`Pfst.C17.leaf_table_ok`): it is a leaf kind, `AST2ASTSLEAF[tk]` contains it, and `AST2ASTSLEAF[k]` lists it exactly
for the classes `k` it is an instance of. -/
def TargetOK (K : Kinds) (tk : Nat) : Prop :=
  tk ∈ K.all ∧ tk ∈ K.leafOf tk ∧ (∀ k, tk ∈ K.inst k → tk ∈ K.leafOf k) ∧ (∀ k, tk ∈ K.leafOf k → tk ∈ K.inst k)

theorem leafTypes_mem (K : Kinds) (tk : Nat) (hall : tk ∈ K.all) : ∀ (ks : List Nat) (acc : List Nat),
    (tk ∈ acc ∨ ∃ k ∈ ks, tk ∈ K.leafOf k) → tk ∈ leafTypes K ks acc
  | [], acc, h => by
    rcases h with h | ⟨k, hk, _⟩
    · simpa [leafTypes] using h
    · cases hk
  | k :: ks, acc, h => by
    simp only [leafTypes]
    split
    · next hf => exact isFull_mem K _ tk hall hf
    · split
      · next hf => exact isFull_mem K _ tk hall hf
      · apply leafTypes_mem K tk hall ks
        rcases h with h | ⟨k', hk', hm⟩
        · exact Or.inl ((mem_union _ _ _).2 (Or.inl h))
        · rcases List.mem_cons.1 hk' with rfl | hk''
          · exact Or.inl ((mem_union _ _ _).2 (Or.inr hm))
          · exact Or.inr ⟨k', hk'', hm⟩

theorem leafTypes_sub (K : Kinds) (tk : Nat) : ∀ (ks : List Nat) (acc : List Nat),
    tk ∈ leafTypes K ks acc → tk ∈ acc ∨ ∃ k ∈ ks, tk ∈ K.leafOf k
  | [], acc, h => by simp only [leafTypes] at h; exact Or.inl h
  | k :: ks, acc, h => by
    simp only [leafTypes] at h
    split at h
    · exact Or.inr ⟨k, List.mem_cons_self, h⟩
    · split at h
      · rcases (mem_union _ _ _).1 h with h | h
        · exact Or.inl h
        · exact Or.inr ⟨k, List.mem_cons_self, h⟩
      · rcases leafTypes_sub K tk ks _ h with h | ⟨k', hk', hm⟩
        · rcases (mem_union _ _ _).1 h with h | h
          · exact Or.inl h
          · exact Or.inr ⟨k, List.mem_cons_self, h⟩
        · exact Or.inr ⟨k', List.mem_cons_of_mem _ hk', hm⟩

/-- a type-only pattern matches exactly the kinds of its leaf set -/
theorem typeOnly_exact (K : Kinds) (p : Pat) (hp : typeOnly p = true) (ctx : TEnv) (t : Tree) (la : List Nat)
    (hk : TargetOK K t.kind) (hl : leafAsts K p = some la) (hin : t.kind ∈ la) : (matchNode K p ctx t).isSome = true := by
  cases p with
  | wild => simp [matchNode]
  | type k =>
    simp only [leafAsts, Option.some.injEq] at hl; subst hl
    have := hk.2.2.2 k hin
    simp [matchNode, this]
  | types ks =>
    simp only [leafAsts, Option.some.injEq] at hl; subst hl
    rcases leafTypes_sub K t.kind ks [] hin with h | ⟨k, hk1, hk2⟩
    · cases h
    · have := hk.2.2.2 k hk2
      simp only [matchNode, List.any_eq_true, List.contains_eq_mem, decide_eq_true_eq]
      rw [if_pos ⟨k, hk1, this⟩]; rfl
  | node _ _ => simp [typeOnly] at hp
  | typesF _ _ _ => simp [typeOnly] at hp
  | ctxInst => simp [typeOnly] at hp
  | m _ _ _ => simp [typeOnly] at hp
  | mnot _ _ _ => simp [typeOnly] at hp
  | mor _ => simp [typeOnly] at hp
  | mand _ => simp [typeOnly] at hp
  | mmaybe _ _ _ => simp [typeOnly] at hp
  | ref _ => simp [typeOnly] at hp

mutual
theorem sound_node (K : Kinds) : ∀ (p : Pat) (ctx : TEnv) (t : Tree) (e : TEnv) (la : List Nat),
    TargetOK K t.kind → leafAsts K p = some la → matchNode K p ctx t = some e → t.kind ∈ la
  | .wild, ctx, t, e, la, hk, hl, _ => by
    simp only [leafAsts, Option.some.injEq] at hl; subst hl; exact hk.1
  | .node k ps, ctx, t, e, la, hk, hl, hm => by
    simp only [leafAsts, Option.some.injEq] at hl; subst hl
    simp only [matchNode] at hm
    split at hm
    · next h =>
      have : k = t.kind := by simpa using h
      rw [this]; exact hk.2.1
    · cases hm
  | .type k, ctx, t, e, la, hk, hl, hm => by
    simp only [leafAsts, Option.some.injEq] at hl; subst hl
    simp only [matchNode] at hm
    split at hm
    · next h => exact hk.2.2.1 k (by simpa using h)
    · cases hm
  | .ctxInst, ctx, t, e, la, hk, hl, hm => by
    simp only [leafAsts, Option.some.injEq] at hl; subst hl
    simp only [matchNode] at hm
    split at hm
    · next h => exact hk.2.2.1 _ (by simpa using h)
    · cases hm
  | .types ks, ctx, t, e, la, hk, hl, hm => by
    simp only [leafAsts, Option.some.injEq] at hl; subst hl
    simp only [matchNode] at hm
    split at hm
    · next h =>
      simp only [List.any_eq_true] at h
      obtain ⟨k, hk1, hk2⟩ := h
      exact leafTypes_mem K t.kind hk.1 ks [] (Or.inr ⟨k, hk1, hk.2.2.1 k (by simpa using hk2)⟩)
    · cases hm
  | .typesF ks k0 ps, ctx, t, e, la, hk, hl, hm => by
    simp only [leafAsts, Option.some.injEq] at hl; subst hl
    simp only [matchNode] at hm
    split at hm
    · next h =>
      simp only [List.any_eq_true] at h
      obtain ⟨k, hk1, hk2⟩ := h
      exact leafTypes_mem K t.kind hk.1 ks [] (Or.inr ⟨k, hk1, hk.2.2.1 k (by simpa using hk2)⟩)
    · cases hm
  | .m p tag st, ctx, t, e, la, hk, hl, hm => by
    simp only [leafAsts] at hl
    simp only [matchNode] at hm
    split at hm
    · cases hm
    · next e' he => exact sound_node K p ctx t e' la hk hl he
  | .mnot p tag st, ctx, t, e, la, hk, hl, hm => by
    simp only [leafAsts] at hl
    simp only [matchNode] at hm
    split at hm
    · cases hm
    · next hnone =>
      split at hl
      · simp only [Option.some.injEq] at hl; subst hl; exact hk.1
      · next hto =>
        have hto' : typeOnly p = true := by simpa using hto
        split at hl
        · cases hl
        · next la' hla' =>
          have hnot : t.kind ∉ la' := fun hin => by
            have := typeOnly_exact K p hto' ctx t la' hk hla' hin
            simp [hnone] at this
          split at hl
          · simp only [Option.some.injEq] at hl; subst hl; exact hk.1
          · split at hl
            · next hf => exact absurd (isFull_mem K la' t.kind hk.1 hf) hnot
            · simp only [Option.some.injEq] at hl; subst hl
              exact (mem_diff _ _ _).2 ⟨hk.1, hnot⟩
  | .mor ps, ctx, t, e, la, hk, hl, hm => by
    simp only [leafAsts] at hl
    simp only [matchNode] at hm
    exact (sound_or K ps ctx t [] la hk hl).2 e hm
  | .mand ps, ctx, t, e, la, hk, hl, hm => by
    simp only [leafAsts] at hl
    simp only [matchNode] at hm
    exact sound_and K ps ctx t K.all la e hk hl hk.1 hm
  | .mmaybe p tag st, ctx, t, e, la, hk, hl, _ => by
    simp only [leafAsts, Option.some.injEq] at hl; subst hl; exact hk.1
  | .ref n, ctx, t, e, la, hk, hl, _ => by simp [leafAsts] at hl
theorem sound_or (K : Kinds) : ∀ (ps : List (Option Name × Pat)),
    ∀ (ctx : TEnv) (t : Tree) (acc r : List Nat), TargetOK K t.kind → leafOr K ps acc = some r →
      (t.kind ∈ acc → t.kind ∈ r) ∧ (∀ e, matchOr K ps ctx t = some e → t.kind ∈ r)
  | [], ctx, t, acc, r, hk, hl => by
    simp only [leafOr, Option.some.injEq] at hl; subst hl
    exact ⟨id, fun e h => by simp [matchOr] at h⟩
  | (tag, p) :: ps, ctx, t, acc, r, hk, hl => by
    simp only [leafOr] at hl
    split at hl
    · cases hl
    · next la hla =>
      split at hl
      · next hf =>
        simp only [Option.some.injEq] at hl; subst hl
        have := isFull_mem K _ t.kind hk.1 hf
        exact ⟨fun _ => this, fun _ _ => this⟩
      · split at hl
        · next hf =>
          simp only [Option.some.injEq] at hl; subst hl
          have := isFull_mem K _ t.kind hk.1 hf
          exact ⟨fun _ => this, fun _ _ => this⟩
        · have ih := sound_or K ps ctx t (union acc la) r hk hl
          refine ⟨fun h => ih.1 ((mem_union _ _ _).2 (Or.inl h)), fun e hm => ?_⟩
          simp only [matchOr] at hm
          split at hm
          · next e' he => exact ih.1 ((mem_union _ _ _).2 (Or.inr (sound_node K p ctx t e' la hk hla he)))
          · exact ih.2 e hm
theorem sound_and (K : Kinds) : ∀ (ps : List (Option Name × Pat)),
    ∀ (ctx : TEnv) (t : Tree) (acc r : List Nat) (e : TEnv), TargetOK K t.kind → leafAnd K ps acc = some r →
      t.kind ∈ acc → matchAnd K ps ctx t = some e → t.kind ∈ r
  | [], ctx, t, acc, r, e, hk, hl, ha, _ => by
    simp only [leafAnd, Option.some.injEq] at hl; subst hl; exact ha
  | (tag, p) :: ps, ctx, t, acc, r, e, hk, hl, ha, hm => by
    simp only [leafAnd] at hl
    simp only [matchAnd] at hm
    split at hm
    · cases hm
    · next e0 he0 =>
      split at hm
      · cases hm
      · next e1 he1 =>
        split at hl
        · cases hl
        · next la hla =>
          have hin := sound_node K p ctx t e0 la hk hla he0
          split at hl
          · next hemp => simp [List.isEmpty_iff] at hemp; subst hemp; cases hin
          · split at hl
            · next hemp =>
              have : t.kind ∈ inter acc la := (mem_inter _ _ _).2 ⟨ha, hin⟩
              simp [List.isEmpty_iff] at hemp; rw [hemp] at this; cases this
            · exact sound_and K ps _ t (inter acc la) r e1 hk hl ((mem_inter _ _ _).2 ⟨ha, hin⟩) he1
end

/-! ### search events -/

/-- the walk, restricted to an `on` mode, filtered by the verdict of each event's own node -/
def matchedEvents (K : Kinds) (p : Pat) (on : On) (t : Tree) : List (Tree × Bool × TEnv) :=
  ((walkBoth K t).filter (fun ev => on.keeps ev.2)).filterMap (fun ev =>
    match matchNode K p [] ev.1 with
    | none => none
    | some e => some (ev.1, ev.2, e))

theorem filterMap_filter_of_imp {α β} (l : List α) (q : α → Bool) (f : α → Option β)
    (h : ∀ a ∈ l, (f a).isSome = true → q a = true) : (l.filter q).filterMap f = l.filterMap f := by
  induction l with
  | nil => rfl
  | cons a l ih =>
    have ih' := ih (fun b hb => h b (List.mem_cons_of_mem _ hb))
    by_cases hq : q a = true
    · simp [List.filter_cons, hq, List.filterMap_cons, ih']
    · have hf : f a = none := by
        cases hfa : f a with
        | none => rfl
        | some b => exact absurd (h a List.mem_cons_self (by simp [hfa])) hq
      simp [List.filter_cons, hq, List.filterMap_cons, hf, ih']

mutual
theorem mem_walkBoth_kind (K : Kinds) : ∀ (t : Tree) (ev : Tree × Bool), ev ∈ walkBoth K t → ev.1.kind ∈ K.all
  | .node i k ks, ev, h => by
    simp only [walkBoth] at h
    split at h
    · next hk =>
      simp only [List.mem_cons, List.mem_append, List.not_mem_nil, or_false] at h
      rcases h with h | h | h
      · subst h; simpa [Tree.kind] using hk
      · exact mem_walkBothList_kind K ks ev h
      · subst h; simpa [Tree.kind] using hk
    · exact mem_walkBothList_kind K ks ev h
theorem mem_walkBothList_kind (K : Kinds) : ∀ (ts : List Tree) (ev : Tree × Bool), ev ∈ walkBothList K ts → ev.1.kind ∈ K.all
  | [], ev, h => by simp [walkBothList] at h
  | t :: ts, ev, h => by
    simp only [walkBothList, List.mem_append] at h
    rcases h with h | h
    · exact mem_walkBoth_kind K t ev h
    · exact mem_walkBothList_kind K ts ev h
end

mutual
/-- the enter events of the two-sided walk are the pre-order walk -/
theorem walk_of_both (K : Kinds) : ∀ t : Tree, ((walkBoth K t).filter (fun ev => !ev.2)).map (·.1) = walk K t
  | .node i k ks => by
    simp only [walkBoth, walk]
    split
    · simp [List.filter_cons, List.filter_append, walkList_of_both K ks]
    · exact walkList_of_both K ks
theorem walkList_of_both (K : Kinds) : ∀ ts : List Tree,
    ((walkBothList K ts).filter (fun ev => !ev.2)).map (·.1) = walkList K ts
  | [] => by simp [walkBothList, walkList]
  | t :: ts => by simp [walkBothList, walkList, List.filter_append, walk_of_both K t, walkList_of_both K ts]
end

end Pfst.Match
