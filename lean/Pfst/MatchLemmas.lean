import Pfst.Match

/-!
Lemmas behind `Pfst/Props/C17.lean`.

Part L: for a quantifier whose body consumes exactly one element per iteration and which has no static tags, the loops
of `_match__inside_list_quantifier` (two counting phases, then back-off / extension) return the first success of the
ordered list-of-successes enumeration `allIter`.
-/
namespace Pfst.Match

/-! ### generic list facts -/

theorem head?_filter_flatMap {α β} (L : List α) (F : α → List β) (p : β → Bool) :
    ((L.flatMap F).filter p).head? = L.findSome? (fun x => ((F x).filter p).head?) := by
  induction L with
  | nil => rfl
  | cons a L ih =>
    rw [List.flatMap_cons, List.filter_append, List.head?_append, ih, List.findSome?_cons]
    cases h : ((F a).filter p).head? <;> simp [Option.or]

theorem findSome?_congr {α β} (L : List α) (f g : α → Option β) (h : ∀ x, f x = g x) :
    L.findSome? f = L.findSome? g := by
  have : f = g := funext h
  rw [this]

/-! ### the quantifier loops -/

section Quant
variable (q : QSpec) (once : Dict → Nat → Option Entry) (rest : Dict → Nat → Option (Dict × Nat)) (ctx : Dict)

/-- the spec's body for a deterministic, single-result iteration -/
def bodyOf (once : Dict → Nat → Option Entry) : Dict → Nat → List Entry :=
  fun c j => match once c j with | none => [] | some en => [en]

/-- what trying the rest of the list after the quantifier gives, for one way `r` of iterating -/
def contK (rest : Dict → Nat → Option (Dict × Nat)) (ctx : Dict) (r : Dict × Nat) : Option (Dict × Nat) :=
  match rest (ctx ++ r.1) r.2 with
  | none => none
  | some (m, k) => some (r.1 ++ m, k)

/-- first success of the spec enumeration from a loop state -/
def G (f : Nat) (st : QState) : Option (Dict × Nat) :=
  (allIter q (bodyOf once) ctx f st.count st.idx st.entries).findSome? (contK rest ctx)

theorem statics_nil (h : q.static = []) (n : Nat) : statics q n = [] := by
  induction n with
  | zero => rfl
  | succ n ih => simp [statics, staticDict, h, ih]

theorem visible_nil (h : q.static = []) (es : List Entry) (n m : Nat) : visible q es n = visible q es m := by
  simp [visible, statics_nil q h]

theorem addStatic_nil (h : q.static = []) (st : QState) : addStatic q st = st := by
  simp [addStatic, h]

/-- trying the rest at the current state (what both `backOff` and `tryMore` do first) -/
def here (st : QState) : Option (Dict × Nat) := contK rest ctx (st.vis q, st.idx)

theorem G_zero (hs : q.static = []) (st : QState) (hn : st.nstatic = 0) :
    G q once rest ctx 0 st = if q.mn ≤ st.count then here q rest ctx st else none := by
  unfold G
  simp only [allIter]
  split
  · simp [here, QState.vis, hn, visible_nil q hs st.entries 1 0]
  · rfl

theorem push_nstatic (st : QState) (e : Entry) : (st.push e).nstatic = st.nstatic := rfl
theorem push_count (st : QState) (e : Entry) : (st.push e).count = st.count + 1 := rfl
theorem push_idx (st : QState) (e : Entry) : (st.push e).idx = e.stop := rfl
theorem push_entries (st : QState) (e : Entry) : (st.push e).entries = st.entries ++ [e] := rfl

/-- one more iteration, as the spec sees it -/
def more (f : Nat) (st : QState) : Option (Dict × Nat) :=
  if ltTo st.count q.mx then
    match once (ctx ++ st.vis q) st.idx with
    | none => none
    | some e => G q once rest ctx f (st.push e)
  else none

theorem G_succ (hs : q.static = []) (hadv : ∀ c j e, once c j = some e → j < e.stop) (f : Nat) (st : QState)
    (hn : st.nstatic = 0) :
    G q once rest ctx (f + 1) st =
      if q.greedy then (more q once rest ctx f st).or (if q.mn ≤ st.count then here q rest ctx st else none)
      else (if q.mn ≤ st.count then here q rest ctx st else none).or (more q once rest ctx f st) := by
  have hstop : (if q.mn ≤ st.count then [(visible q st.entries 1, st.idx)] else []).findSome? (contK rest ctx)
      = if q.mn ≤ st.count then here q rest ctx st else none := by
    split
    · simp [List.findSome?_cons, here, QState.vis, hn, visible_nil q hs st.entries 1 0]
      cases contK rest ctx (visible q st.entries 0, st.idx) <;> rfl
    · rfl
  have hmore : (if ltTo st.count q.mx then
        (bodyOf once (ctx ++ visible q st.entries 0) st.idx).flatMap (fun e =>
          if q.mx.isSome || st.idx < e.stop then allIter q (bodyOf once) ctx f (st.count + 1) e.stop (st.entries ++ [e]) else [])
      else []).findSome? (contK rest ctx) = more q once rest ctx f st := by
    unfold more
    split
    · simp only [bodyOf, QState.vis, hn]
      cases ho : once (ctx ++ visible q st.entries 0) st.idx with
      | none => simp
      | some e =>
        have := hadv _ _ _ ho
        simp [this, G, push_count, push_idx, push_entries]
    · rfl
  unfold G
  simp only [allIter]
  split
  · rw [List.findSome?_append, hmore, hstop]
  · rw [List.findSome?_append, hmore, hstop]

/-- `leTo c mx`: the count has not passed the maximum -/
def leTo (c : Nat) : Option Nat → Bool
  | none => true
  | some m => decide (c ≤ m)

/-- Phase 1 (counting up to `min`): levels below `min` cannot stop, so the spec's first success is that of the state
phase 1 ends in; and if phase 1 breaks, the spec has no success at all. -/
theorem phase1_G (hs : q.static = []) (hadv : ∀ c j e, once c j = some e → j < e.stop) (hwf : leTo q.mn q.mx = true) :
    ∀ (f : Nat) (st : QState), st.nstatic = 0 → st.count ≤ q.mn →
      let r := phase q once ctx (some q.mn) f st
      (r.2.2 = false → G q once rest ctx f st = none) ∧
      (r.2.2 = true → r.2.1.count = q.mn ∧ r.2.1.nstatic = 0 ∧ G q once rest ctx f st = G q once rest ctx r.1 r.2.1) := by
  intro f
  induction f with
  | zero =>
    intro st hn hc
    simp only [phase, ltTo]
    by_cases h : st.count < q.mn
    · simp only [h, decide_true, if_true]
      refine ⟨fun _ => ?_, fun h' => by simp at h'⟩
      rw [G_zero q once rest ctx hs st hn]
      simp; omega
    · simp only [h, decide_false, Bool.false_eq_true, if_false]
      refine ⟨fun h' => by simp at h', fun _ => ⟨by omega, hn, trivial⟩⟩
  | succ f ih =>
    intro st hn hc
    simp only [phase, ltTo]
    by_cases h : st.count < q.mn
    · simp only [h, decide_true, if_true]
      have hlt : ltTo st.count q.mx = true := by
        cases hm : q.mx with
        | none => rfl
        | some m => simp [leTo, hm] at hwf; simp [ltTo]; omega
      have hmn : ¬ q.mn ≤ st.count := by omega
      cases ho : once (ctx ++ st.vis q) st.idx with
      | none =>
        simp only
        refine ⟨fun _ => ?_, fun h' => by simp at h'⟩
        rw [G_succ q once rest ctx hs hadv f st hn]
        simp [more, hlt, ho, hmn]
      | some e =>
        simp only
        have hG : G q once rest ctx (f + 1) st = G q once rest ctx f (st.push e) := by
          rw [G_succ q once rest ctx hs hadv f st hn]
          simp [more, hlt, ho, hmn]
        have := ih (st.push e) (by simp [push_nstatic, hn]) (by simp [push_count]; omega)
        rw [hG]
        exact this
    · simp only [h, decide_false, Bool.false_eq_true, if_false]
      refine ⟨fun h' => by simp at h', fun _ => ⟨by omega, hn, trivial⟩⟩

/-- `backOff` started with its recursion bound at the current count -/
def BO (st : QState) : Option (Dict × Nat) := backOff q rest ctx st.count st

theorem BO_unfold (st : QState) (hc : q.mn ≤ st.count) :
    BO q rest ctx st = (here q rest ctx st).or (if st.count = q.mn then none else BO q rest ctx (dropOne q st)) := by
  unfold BO
  rw [backOff.eq_def]
  simp only [here, contK]
  cases hr : rest (ctx ++ st.vis q) st.idx with
  | some r => obtain ⟨m, j⟩ := r; simp [Option.or]
  | none =>
    simp only [Option.or]
    by_cases h : st.count = q.mn
    · simp [h]
    · have hb : (st.count == q.mn) = false := by simp [h]
      simp only [hb, h, if_false, Bool.false_eq_true]
      have hpos : st.count = (st.count - 1) + 1 := by omega
      have hd : (dropOne q st).count = st.count - 1 := by
        simp only [dropOne]
        split <;> (try split) <;> rfl
      rw [hd]
      generalize st.count - 1 = n at hpos
      rw [hpos]

theorem dropOne_push (hs : q.static = []) (st : QState) (e : Entry) (he : e.stop = st.idx + 1) :
    dropOne q (st.push e) = st := by
  simp [dropOne, hs, QState.push, he]

/-- Phase 2 (counting up to `max`) followed by the back-off loop tries exactly the spec's candidates from the current
level upwards, best first, then continues below. -/
theorem phase2_BO (hs : q.static = []) (h1 : ∀ c j e, once c j = some e → e.stop = j + 1) :
    ∀ (f : Nat) (st : QState), st.nstatic = 0 → q.mn ≤ st.count → q.greedy = true →
      BO q rest ctx (phase q once ctx q.mx f st).2.1 =
        (G q once rest ctx f st).or (if st.count = q.mn then none else BO q rest ctx (dropOne q st)) := by
  have hadv : ∀ c j e, once c j = some e → j < e.stop := fun c j e h => by have := h1 c j e h; omega
  intro f
  induction f with
  | zero =>
    intro st hn hc hg
    have : (phase q once ctx q.mx 0 st).2.1 = st := by simp only [phase]; split <;> rfl
    rw [this, G_zero q once rest ctx hs st hn, if_pos hc, BO_unfold q rest ctx st hc]
  | succ f ih =>
    intro st hn hc hg
    rw [G_succ q once rest ctx hs hadv f st hn, hg]
    simp only [if_true, if_pos hc]
    simp only [phase]
    by_cases hlt : ltTo st.count q.mx = true
    · simp only [hlt, if_true]
      cases ho : once (ctx ++ st.vis q) st.idx with
      | none =>
        simp only [more, hlt, ho, if_true, Option.none_or]
        exact BO_unfold q rest ctx st hc
      | some e =>
        simp only [more, hlt, ho, if_true]
        have hne : ¬ (st.push e).count = q.mn := by simp [push_count]; omega
        rw [ih (st.push e) (by simp [push_nstatic, hn]) (by simp [push_count]; omega) hg, if_neg hne,
          dropOne_push q hs st e (h1 _ _ _ ho), BO_unfold q rest ctx st hc, Option.or_assoc]
    · simp only [hlt, more]
      exact BO_unfold q rest ctx st hc

/-- the non-greedy extension loop is the spec's enumeration: stop first, then one more iteration -/
theorem tryMore_G (hs : q.static = []) (hadv : ∀ c j e, once c j = some e → j < e.stop) :
    ∀ (f : Nat) (st : QState), st.nstatic = 0 → q.mn ≤ st.count → leTo st.count q.mx = true → q.greedy = false →
      tryMore q once rest ctx f st = G q once rest ctx f st := by
  intro f
  induction f with
  | zero =>
    intro st hn hc hle hg
    rw [G_zero q once rest ctx hs st hn, if_pos hc, tryMore]
    unfold here contK
    cases hr : rest (ctx ++ st.vis q) st.idx with
    | some r => rfl
    | none => simp only; split <;> rfl
  | succ f ih =>
    intro st hn hc hle hg
    rw [G_succ q once rest ctx hs hadv f st hn, hg, tryMore]
    simp only [Bool.false_eq_true, if_false, if_pos hc]
    unfold here contK
    cases hr : rest (ctx ++ st.vis q) st.idx with
    | some r => obtain ⟨m, j⟩ := r; simp [Option.or]
    | none =>
      simp only [Option.none_or]
      unfold more
      cases hm : q.mx with
      | none =>
        simp only [ltTo, if_true]
        have : (some st.count == (none : Option Nat)) = false := rfl
        simp only [this]
        cases ho : once (ctx ++ st.vis q) st.idx with
        | none => rfl
        | some e =>
          simp only [Bool.false_eq_true, if_false]
          exact ih (st.push e) (by simp [push_nstatic, hn]) (by simp [push_count]; omega) (by simp [leTo, hm]) hg
      | some m =>
        simp only [leTo, hm, decide_eq_true_eq] at hle
        by_cases heq : st.count = m
        · simp [ltTo, heq]
        · have : (some st.count == some m) = false := by simp [heq]
          have hlt : st.count < m := by omega
          simp only [this, ltTo, hlt, decide_true, if_true, Bool.false_eq_true, if_false]
          cases ho : once (ctx ++ st.vis q) st.idx with
          | none => rfl
          | some e =>
            simp only
            exact ih (st.push e) (by simp [push_nstatic, hn]) (by simp [push_count]; omega)
              (by rw [push_count, hm]; simp only [leTo, decide_eq_true_eq]; omega) hg

/-- **The quantifier loop theorem.** -/
theorem matchQuant_eq (hs : q.static = []) (h1 : ∀ c j e, once c j = some e → e.stop = j + 1)
    (hwf : leTo q.mn q.mx = true) (fuel i : Nat) :
    matchQuant fuel q once rest ctx i =
      (allIter q (bodyOf once) ctx fuel 0 i []).findSome? (contK rest ctx) := by
  have hadv : ∀ c j e, once c j = some e → j < e.stop := fun c j e h => by have := h1 c j e h; omega
  change _ = G q once rest ctx fuel ⟨0, i, [], 0⟩
  unfold matchQuant
  have hp := phase1_G q once rest ctx hs hadv hwf fuel ⟨0, i, [], 0⟩ rfl (Nat.zero_le _)
  rcases hph : phase q once ctx (some q.mn) fuel ⟨0, i, [], 0⟩ with ⟨f1, st1, done1⟩
  rw [hph] at hp
  simp only [hph] at hp ⊢
  cases done1 with
  | false => simp [hp.1 rfl]
  | true =>
    obtain ⟨hc, hn, hG⟩ := hp.2 rfl
    simp only [Bool.not_true, Bool.false_eq_true, if_false, addStatic_nil q hs]
    rw [hG]
    by_cases hg : q.greedy = true
    · simp only [hg, if_true]
      have h2 := phase2_BO q once rest ctx hs h1 f1 st1 hn (by omega) hg
      simp only [hc, if_true, Option.or_none] at h2
      rw [← h2]
      simp only [BO, ite_self]
    · have hg' : q.greedy = false := by simpa using hg
      simp only [hg', Bool.false_eq_true, if_false]
      exact tryMore_G q once rest ctx hs hadv f1 st1 hn (by omega) (by rw [hc]; exact hwf) hg'

end Quant

/-! ### the whole list -/

/-- every quantifier iterates a single element pattern, has no static tags and `min ≤ max` -/
def simpleItem : LPat → Bool
  | .elem _ => true
  | .qs q _ => q.static.isEmpty && leTo q.mn q.mx
  | .ql _ _ => false

def okEnd (xs : List Nat) (allowPartial : Bool) (r : Dict × Nat) : Bool := allowPartial || r.2 == xs.length

theorem onceE_stop (xs : List Nat) (e : EPat) : ∀ c j en, onceE xs e c j = some en → en.stop = j + 1 := by
  intro c j en h
  unfold onceE at h
  split at h
  · cases h
  · split at h
    · cases h
    · cases h; rfl

theorem matchInside_eq (xs : List Nat) : ∀ (ps : List LPat), ps.all simpleItem = true →
    ∀ (ap : Bool) (ctx : Dict) (i : Nat),
      matchInside xs ps ap ctx i = ((allSeq xs ps ctx i).filter (okEnd xs ap)).head? := by
  intro ps
  induction ps with
  | nil =>
    intro _ ap ctx i
    by_cases h : (ap || i == xs.length) = true
    · simp [matchInside, allSeq, okEnd, h]
    · simp [matchInside, allSeq, okEnd, h]
  | cons p rest ih =>
    intro hsimple ap ctx i
    simp only [List.all_cons, Bool.and_eq_true] at hsimple
    have ihr := ih hsimple.2 ap
    rw [matchInside, allSeq, head?_filter_flatMap]
    have hcont : (fun c j => matchInside xs rest ap c j) = (fun c j => ((allSeq xs rest c j).filter (okEnd xs ap)).head?) := by
      funext c j; exact ihr c j
    rw [hcont]
    -- the per-candidate continuation, in the spec's shape
    have hK : ∀ r : Dict × Nat,
        (((allSeq xs rest (ctx ++ r.1) r.2).map (fun r' => (r.1 ++ r'.1, r'.2))).filter (okEnd xs ap)).head? =
        contK (fun c j => ((allSeq xs rest c j).filter (okEnd xs ap)).head?) ctx r := by
      intro r
      rw [List.filter_map, List.head?_map]
      have : (okEnd xs ap ∘ fun r' : Dict × Nat => (r.1 ++ r'.1, r'.2)) = okEnd xs ap := by
        funext r'; simp [okEnd]
      rw [this]
      unfold contK
      show _ = match (List.filter (okEnd xs ap) (allSeq xs rest (ctx ++ r.1) r.2)).head? with
        | none => none
        | some (m, k) => some (r.1 ++ m, k)
      generalize ((allSeq xs rest (ctx ++ r.1) r.2).filter (okEnd xs ap)).head? = o
      cases o with
      | none => rfl
      | some v => obtain ⟨m, k⟩ := v; rfl
    rw [findSome?_congr _ _ _ hK]
    cases p with
    | elem e =>
      simp only [matchPat, allPat]
      cases hx : xs[i]? with
      | none => rfl
      | some x =>
        simp only
        cases hm : matchE ctx e i x with
        | none => rfl
        | some m =>
          simp only [List.findSome?_cons, contK, List.findSome?_nil]
          cases ((allSeq xs rest (ctx ++ m) (i + 1)).filter (okEnd xs ap)).head? with
          | none => rfl
          | some v => obtain ⟨d, j⟩ := v; rfl
    | qs q e =>
      simp only [simpleItem, Bool.and_eq_true, List.isEmpty_iff] at hsimple
      simp only [matchPat, allPat]
      exact matchQuant_eq q (onceE xs e) _ ctx hsimple.1.1 (onceE_stop xs e) hsimple.1.2 _ i
    | ql q ps' => simp [simpleItem] at hsimple

theorem matchList_eq_spec (ps : List LPat) (xs : List Nat) (h : ps.all simpleItem = true) :
    matchList ps xs = specMatch ps xs := by
  unfold matchList specMatch allMatches
  rw [matchInside_eq xs ps h false [] 0, List.head?_map]
  have : (fun r : Dict × Nat => r.2 == xs.length) = okEnd xs false := by funext r; simp [okEnd]
  rw [this]
  cases ((allSeq xs ps [] 0).filter (okEnd xs false)).head? with
  | none => rfl
  | some v => obtain ⟨d, j⟩ := v; rfl


/-! ### Part T: a tree against the pattern built from a tree -/

mutual
theorem matchTree_refl : ∀ t : Tree, matchTree t t = true
  | .node i k ks => by simp [matchTree, Tree.kind, Tree.kids, matchTrees_refl ks]
theorem matchTrees_refl : ∀ ts : List Tree, matchTrees ts ts = true
  | [] => by simp [matchTrees]
  | t :: ts => by simp [matchTrees, matchTree_refl t, matchTrees_refl ts]
end

mutual
theorem toPattern_of_same (K : Kinds) : ∀ (p t : Tree) (ctx : TEnv), matchTree p t = true →
    matchNode K (toPattern p) ctx t = some []
  | .node i k ps, t, ctx, h => by
    simp only [matchTree, Bool.and_eq_true] at h
    simp only [toPattern, matchNode, h.1, if_true]
    exact toPatterns_of_same K ps t.kids ctx h.2
theorem toPatterns_of_same (K : Kinds) : ∀ (ps ts : List Tree) (ctx : TEnv), matchTrees ps ts = true →
    matchFields K (toPatterns ps) ctx ts = some []
  | [], ts, ctx, h => by
    simp only [matchTrees] at h
    simp [toPatterns, matchFields, h]
  | p :: ps, [], ctx, h => by simp [matchTrees] at h
  | p :: ps, t :: ts, ctx, h => by
    simp only [matchTrees, Bool.and_eq_true] at h
    simp only [toPatterns, matchFields, toPattern_of_same K p t ctx h.1, List.append_nil,
      toPatterns_of_same K ps ts ctx h.2]
end

mutual
/-- `diff1 t t'`: `t'` is `t` with exactly one leaf (a node without children) given another kind; ids are ignored -/
def diff1 : Tree → Tree → Bool
  | .node _ k ks, t' =>
    if ks.isEmpty && t'.kids.isEmpty then k != t'.kind else k == t'.kind && diff1List ks t'.kids
termination_by structural t => t
def diff1List : List Tree → List Tree → Bool
  | [], _ => false
  | t :: ts, ts' =>
    match ts' with
    | [] => false
    | t' :: ts'' => (diff1 t t' && matchTrees ts ts'') || (matchTree t t' && diff1List ts ts'')
termination_by structural ts => ts
end

mutual
theorem toPattern_of_diff1 (K : Kinds) : ∀ (p t : Tree) (ctx : TEnv), diff1 p t = true →
    matchNode K (toPattern p) ctx t = none
  | .node i k ps, t, ctx, h => by
    simp only [diff1] at h
    simp only [toPattern, matchNode]
    split at h
    · have : (k == t.kind) = false := by simpa using h
      simp [this]
    · simp only [Bool.and_eq_true] at h
      simp only [h.1, if_true]
      exact toPatterns_of_diff1 K ps t.kids ctx h.2
theorem toPatterns_of_diff1 (K : Kinds) : ∀ (ps ts : List Tree) (ctx : TEnv), diff1List ps ts = true →
    matchFields K (toPatterns ps) ctx ts = none
  | [], ts, ctx, h => by simp [diff1List] at h
  | p :: ps, [], ctx, h => by simp [diff1List] at h
  | p :: ps, t :: ts, ctx, h => by
    simp only [diff1List, Bool.or_eq_true, Bool.and_eq_true] at h
    simp only [toPatterns, matchFields]
    rcases h with h | h
    · simp [toPattern_of_diff1 K p t ctx h.1]
    · simp [toPattern_of_same K p t ctx h.1, toPatterns_of_diff1 K ps ts ctx h.2]
end

/-! ### Part P: the pre-filter -/

theorem mem_union (a b : List Nat) (x : Nat) : x ∈ union a b ↔ x ∈ a ∨ x ∈ b := by
  by_cases h : x ∈ a <;> simp [union, h]

theorem mem_inter (a b : List Nat) (x : Nat) : x ∈ inter a b ↔ x ∈ a ∧ x ∈ b := by
  simp [inter]

theorem mem_diff (a b : List Nat) (x : Nat) : x ∈ diff a b ↔ x ∈ a ∧ x ∉ b := by
  simp [diff]

theorem isFull_mem (K : Kinds) (la : List Nat) (tk : Nat) (hall : tk ∈ K.all) (hf : isFull K la = true) : tk ∈ la := by
  simp only [isFull, List.all_eq_true] at hf
  simpa using hf tk hall

/-- What the tables must satisfy at the kind `tk` of a target node (checked for the extracted tables in
`Pfst.C17.leaf_table_ok`): it is a leaf kind, `AST2ASTSLEAF[tk]` contains it, and every class `k` it is an instance of
lists it in `AST2ASTSLEAF[k]`. -/
def TargetOK (K : Kinds) (tk : Nat) : Prop :=
  tk ∈ K.all ∧ tk ∈ K.leafOf tk ∧ ∀ k, tk ∈ K.inst k → tk ∈ K.leafOf k

mutual
/-- no `MNOT` decides the kind of the node itself (field patterns do not matter for the pre-filter) -/
def noMnot : Pat → Bool
  | .wild => true
  | .node _ _ => true
  | .type _ => true
  | .types _ => true
  | .m p _ _ => noMnot p
  | .mnot _ _ _ => false
  | .mor ps => noMnotL ps
  | .mand ps => noMnotL ps
  | .mmaybe _ _ _ => true
  | .ref _ => true
termination_by structural p => p
def noMnotL : List (Option Name × Pat) → Bool
  | [] => true
  | (_, p) :: ps => noMnot p && noMnotL ps
termination_by structural ps => ps
end

theorem leafTypes_mem (K : Kinds) (tk : Nat) (hall : tk ∈ K.all) : ∀ (ks : List Nat) (acc : List Nat),
    (tk ∈ acc ∨ ∃ k ∈ ks, tk ∈ K.leafOf k) → tk ∈ leafTypes K ks acc
  | [], acc, h => by
    rcases h with h | ⟨k, hk, _⟩
    · simpa [leafTypes] using h
    · cases hk
  | k :: ks, acc, h => by
    simp only [leafTypes]
    split
    · next hf => exact isFull_mem K _ tk hall hf
    · split
      · next hf => exact isFull_mem K _ tk hall hf
      · apply leafTypes_mem K tk hall ks
        rcases h with h | ⟨k', hk', hm⟩
        · exact Or.inl ((mem_union _ _ _).2 (Or.inl h))
        · rcases List.mem_cons.1 hk' with rfl | hk''
          · exact Or.inl ((mem_union _ _ _).2 (Or.inr hm))
          · exact Or.inr ⟨k', hk'', hm⟩

mutual
theorem sound_node (K : Kinds) : ∀ (p : Pat), noMnot p = true → ∀ (ctx : TEnv) (t : Tree) (e : TEnv) (la : List Nat),
    TargetOK K t.kind → leafAsts K p = some la → matchNode K p ctx t = some e → t.kind ∈ la
  | .wild, _, ctx, t, e, la, hk, hl, _ => by
    simp only [leafAsts, Option.some.injEq] at hl; subst hl; exact hk.1
  | .node k ps, _, ctx, t, e, la, hk, hl, hm => by
    simp only [leafAsts, Option.some.injEq] at hl; subst hl
    simp only [matchNode] at hm
    split at hm
    · next h =>
      have : k = t.kind := by simpa using h
      rw [this]; exact hk.2.1
    · cases hm
  | .type k, _, ctx, t, e, la, hk, hl, hm => by
    simp only [leafAsts, Option.some.injEq] at hl; subst hl
    simp only [matchNode] at hm
    split at hm
    · next h => exact hk.2.2 k (by simpa using h)
    · cases hm
  | .types ks, _, ctx, t, e, la, hk, hl, hm => by
    simp only [leafAsts, Option.some.injEq] at hl; subst hl
    simp only [matchNode] at hm
    split at hm
    · next h =>
      simp only [List.any_eq_true] at h
      obtain ⟨k, hk1, hk2⟩ := h
      exact leafTypes_mem K t.kind hk.1 ks [] (Or.inr ⟨k, hk1, hk.2.2 k (by simpa using hk2)⟩)
    · cases hm
  | .m p tag st, hn, ctx, t, e, la, hk, hl, hm => by
    simp only [noMnot] at hn
    simp only [leafAsts] at hl
    simp only [matchNode] at hm
    split at hm
    · cases hm
    · next e' he => exact sound_node K p hn ctx t e' la hk hl he
  | .mnot p tag st, hn, _, _, _, _, _, _, _ => by simp [noMnot] at hn
  | .mor ps, hn, ctx, t, e, la, hk, hl, hm => by
    simp only [noMnot] at hn
    simp only [leafAsts] at hl
    simp only [matchNode] at hm
    exact (sound_or K ps hn ctx t [] la hk hl).2 e hm
  | .mand ps, hn, ctx, t, e, la, hk, hl, hm => by
    simp only [noMnot] at hn
    simp only [leafAsts] at hl
    simp only [matchNode] at hm
    exact sound_and K ps hn ctx t K.all la e hk hl hk.1 hm
  | .mmaybe p tag st, _, ctx, t, e, la, hk, hl, _ => by
    simp only [leafAsts, Option.some.injEq] at hl; subst hl; exact hk.1
  | .ref n, _, ctx, t, e, la, hk, hl, _ => by simp [leafAsts] at hl
theorem sound_or (K : Kinds) : ∀ (ps : List (Option Name × Pat)), noMnotL ps = true →
    ∀ (ctx : TEnv) (t : Tree) (acc r : List Nat), TargetOK K t.kind → leafOr K ps acc = some r →
      (t.kind ∈ acc → t.kind ∈ r) ∧ (∀ e, matchOr K ps ctx t = some e → t.kind ∈ r)
  | [], _, ctx, t, acc, r, hk, hl => by
    simp only [leafOr, Option.some.injEq] at hl; subst hl
    exact ⟨id, fun e h => by simp [matchOr] at h⟩
  | (tag, p) :: ps, hn, ctx, t, acc, r, hk, hl => by
    simp only [noMnotL, Bool.and_eq_true] at hn
    simp only [leafOr] at hl
    split at hl
    · cases hl
    · next la hla =>
      split at hl
      · next hf =>
        simp only [Option.some.injEq] at hl; subst hl
        have := isFull_mem K _ t.kind hk.1 hf
        exact ⟨fun _ => this, fun _ _ => this⟩
      · split at hl
        · next hf =>
          simp only [Option.some.injEq] at hl; subst hl
          have := isFull_mem K _ t.kind hk.1 hf
          exact ⟨fun _ => this, fun _ _ => this⟩
        · have ih := sound_or K ps hn.2 ctx t (union acc la) r hk hl
          refine ⟨fun h => ih.1 ((mem_union _ _ _).2 (Or.inl h)), fun e hm => ?_⟩
          simp only [matchOr] at hm
          split at hm
          · next e' he => exact ih.1 ((mem_union _ _ _).2 (Or.inr (sound_node K p hn.1 ctx t e' la hk hla he)))
          · exact ih.2 e hm
theorem sound_and (K : Kinds) : ∀ (ps : List (Option Name × Pat)), noMnotL ps = true →
    ∀ (ctx : TEnv) (t : Tree) (acc r : List Nat) (e : TEnv), TargetOK K t.kind → leafAnd K ps acc = some r →
      t.kind ∈ acc → matchAnd K ps ctx t = some e → t.kind ∈ r
  | [], _, ctx, t, acc, r, e, hk, hl, ha, _ => by
    simp only [leafAnd, Option.some.injEq] at hl; subst hl; exact ha
  | (tag, p) :: ps, hn, ctx, t, acc, r, e, hk, hl, ha, hm => by
    simp only [noMnotL, Bool.and_eq_true] at hn
    simp only [leafAnd] at hl
    simp only [matchAnd] at hm
    split at hm
    · cases hm
    · next e0 he0 =>
      split at hm
      · cases hm
      · next e1 he1 =>
        split at hl
        · cases hl
        · next la hla =>
          have hin := sound_node K p hn.1 ctx t e0 la hk hla he0
          split at hl
          · next hemp => simp [List.isEmpty_iff] at hemp; subst hemp; cases hin
          · split at hl
            · next hemp =>
              have : t.kind ∈ inter acc la := (mem_inter _ _ _).2 ⟨ha, hin⟩
              simp [List.isEmpty_iff] at hemp; rw [hemp] at this; cases this
            · exact sound_and K ps hn.2 _ t (inter acc la) r e1 hk hl ((mem_inter _ _ _).2 ⟨ha, hin⟩) he1
end

end Pfst.Match
