import Pfst.Copy
import Pfst.OffsetLemmas

/-! Helper lemmas for C07: bytes vs characters, slices of cropped / dedented lines, flat text of split lines,
single-position behaviour of the rebase. -/
namespace Pfst.Copy
open Pfst.Offset

/-! ### bytes and characters -/

theorem blen_append (a b : Line) : blen (a ++ b) = blen a + blen b := by
  induction a with
  | nil => simp [blen]
  | cons c r ih => simp [blen, ih]; omega

theorem c2b_le (l : Line) (k : Nat) : c2b l k ≤ blen l := by
  unfold c2b
  have h : blen l = blen (l.take k) + blen (l.drop k) := by
    rw [← blen_append, List.take_append_drop]
  omega

theorem c2b_mono (l : Line) (a b : Nat) (h : a ≤ b) : c2b l a ≤ c2b l b := by
  unfold c2b
  have h1 : l.take a = (l.take b).take a := by
    rw [List.take_take]; congr 1; omega
  rw [h1]
  exact c2b_le (l.take b) a

theorem take_split (l : Line) (col k : Nat) (h : col ≤ k) :
    l.take k = l.take col ++ (l.drop col).take (k - col) := by
  have h2 : (l.take col ++ l.drop col).take k = l.take col ++ (l.drop col).take (k - col) := by
    rw [List.take_append]
    by_cases hc : col ≤ l.length
    · have : (l.take col).length = col := by simp; omega
      rw [this]
      have : (l.take col).take k = l.take col := by
        rw [List.take_take]; congr 1; omega
      rw [this]
    · have hl : l.length < col := by omega
      have e1 : l.take col = l := List.take_of_length_le (by omega)
      have e2 : l.drop col = [] := List.drop_of_length_le (by omega)
      rw [e1, e2]; simp
      exact List.take_of_length_le (by omega)
  rw [List.take_append_drop] at h2
  exact h2

/-! ### slices -/

theorem slice_drop (l : Line) (col a b : Nat) (h : col ≤ a) :
    slice (l.drop col) (a - col) (b - col) = slice l a b := by
  unfold slice
  by_cases hb : col ≤ b
  · rw [← List.drop_take]
    · rw [List.drop_drop]; congr 1; omega
  · have hb' : b < col := by omega
    have e1 : b - col = 0 := by omega
    rw [e1]
    simp
    omega

theorem slice_take (l : Line) (e a b : Nat) (h : b ≤ e) : slice (l.take e) a b = slice l a b := by
  unfold slice
  rw [List.take_take]; congr 2; omega

/-! ### flat text -/

theorem flat_cons (l : Line) (rest : Lines) (h : rest ≠ []) : flat (l :: rest) = l ++ '\n' :: flat rest := by
  cases rest with
  | nil => exact absurd rfl h
  | cons a r => rfl

theorem flat_append_ne (X Y : Lines) (hX : X ≠ []) (hY : Y ≠ []) : flat (X ++ Y) = flat X ++ '\n' :: flat Y := by
  induction X with
  | nil => exact absurd rfl hX
  | cons x xs ih =>
    cases xs with
    | nil =>
      simp only [List.cons_append, List.nil_append]
      rw [flat_cons x Y hY]; rfl
    | cons x2 xs2 =>
      have h1 : (x :: x2 :: xs2) ++ Y = x :: ((x2 :: xs2) ++ Y) := rfl
      rw [h1, flat_cons x _ (by simp), ih (by simp), flat_cons x (x2 :: xs2) (by simp)]
      simp

/-- Splitting one line in two splits the flat text at that point. -/
theorem flat_split (X Y : Lines) (a b : Line) : flat (X ++ [a ++ b] ++ Y) = flat (X ++ [a]) ++ flat ([b] ++ Y) := by
  have base : flat ([a ++ b] ++ Y) = a ++ flat ([b] ++ Y) := by
    cases Y with
    | nil => rfl
    | cons y ys => simp [flat]
  cases X with
  | nil => simpa [flat] using base
  | cons x xs =>
    rw [List.append_assoc, flat_append_ne (x :: xs) _ (by simp) (by simp), base,
        flat_append_ne (x :: xs) [a] (by simp) (by simp)]
    simp [flat]

/-! ### line access in appended lists -/

theorem lineAt_append_right (A : Lines) (x : Line) (B : Lines) : lineAt (A ++ x :: B) A.length = x := by
  unfold lineAt
  simp

theorem lineAt_mid (A : Lines) (x : Line) (M : Lines) (y : Line) (B : Lines) :
    lineAt (A ++ x :: (M ++ y :: B)) (A.length + M.length + 1) = y := by
  unfold lineAt
  have : A ++ x :: (M ++ y :: B) = (A ++ x :: M) ++ y :: B := by simp
  rw [this]
  have hl : (A ++ x :: M).length = A.length + M.length + 1 := by simp; omega
  rw [← hl]
  simp

/-! ### dedent / indent of one line -/

theorem startsWith_append (p l : Line) : startsWith (p ++ l) p = true := by
  induction p with
  | nil => cases l <;> rfl
  | cons c r ih => simp [startsWith, ih]

theorem dedentLine_drop (d l : Line) :
    ∃ r : Nat, (dedentLine d l).2 = -(r : Int) ∧ (dedentLine d l).1 = l.drop r ∧ r ≤ d.length := by
  unfold dedentLine
  split
  · exact ⟨0, by simp, by simp, by omega⟩
  · split
    · exact ⟨d.length, rfl, rfl, by omega⟩
    · rename_i h
      simp only [Bool.or_eq_true, decide_eq_true_eq, not_or] at h
      exact ⟨leadWs l, rfl, rfl, by omega⟩

/-! ### one position under the rebase -/

/-- A position that starts at or after the offset point and ends strictly after it is shifted as a whole by
`(dln, dcol on the line of the point)` when `tail = False`, `head = True` (the defaults `_make_fst_and_dedent` uses). -/
theorem offsetPos_rebase (π : Params) (p : Pos) (ht : π.tail = .f) (hh : π.head = .t) (hw : p.wf = true)
    (hs : π.lno < p.lno ∨ (p.lno = π.lno ∧ π.colo ≤ p.col))
    (he : π.lno < p.elno ∨ (p.elno = π.lno ∧ π.colo < p.ecol)) :
    offsetPos π p = ⟨p.lno + π.dln, if p.lno = π.lno then p.col + π.dcol else p.col,
                     p.elno + π.dln, if p.elno = π.lno then p.ecol + π.dcol else p.ecol⟩ := by
  obtain ⟨a, b, c, d⟩ := p
  simp only [Pos.wf, le2, Bool.or_eq_true, decide_eq_true_eq, Bool.and_eq_true, beq_iff_eq] at hw
  simp only at hs he
  have h1 : endMoves π ⟨a, b, c, d⟩ = true := by
    simp only [endMoves]
    rw [if_neg (by omega)]
    split
    · rfl
    · rw [if_neg (by omega)]
      have : decide (d > π.colo) = true := by simp; omega
      simp [this]
  have h2 : startMoves π ⟨a, b, c, d⟩ = true := by
    simp only [startMoves]
    split
    · rfl
    · have hal : a = π.lno := by omega
      rw [if_pos (by simp [hal])]
      by_cases hb : b > π.colo
      · simp [hb]
      · have hbe : b = π.colo := by omega
        have hz : Pos.zero ⟨a, b, c, d⟩ = false := by
          simp only [Pos.zero]
          rcases he with h | ⟨h1, h2⟩
          · have : (a == c) = false := by simp; omega
            simp [this]
          · have : (b == d) = false := by simp; omega
            simp [this]
        have hbeq : (b == π.colo) = true := by simp [hbe]
        have hbgt : decide (b > π.colo) = false := by simp; omega
        simp [hbgt, hbeq, hh, ht, hz]
  simp only [offsetPos, h1, h2, if_true]
  congr 1
  · split <;> split <;> first | rfl | omega
  · split <;> split <;> first | rfl | omega

theorem offsetLnsPos_wf (d : List Int) (p : Pos) (hw : p.wf = true) : (offsetLnsPos d p).wf = true := by
  obtain ⟨a, b, c, e⟩ := p
  simp only [Pos.wf, le2, Bool.or_eq_true, decide_eq_true_eq, Bool.and_eq_true, beq_iff_eq] at hw
  show le2 a (b + d.getD (a - 1).toNat 0) c (e + d.getD (c - 1).toNat 0) = true
  unfold le2
  rcases hw with h | ⟨h1, h2⟩
  · simp [h]
  · subst h1
    simp
    omega

end Pfst.Copy

namespace Pfst.Copy

/-! ### canonical decomposition `A ++ x :: (M ++ y :: B)` of the lines around a multi-line span -/

theorem canon_assoc (A M B : Lines) (x y : Line) : A ++ x :: (M ++ y :: B) = (A ++ x :: M) ++ y :: B := by simp

theorem canon_len (A M : Lines) (x : Line) : (A ++ x :: M).length = A.length + M.length + 1 := by
  simp; omega

theorem take_canon (A M B : Lines) (x y : Line) :
    (A ++ x :: (M ++ y :: B)).take (A.length + M.length + 1) = A ++ x :: M := by
  rw [canon_assoc, ← canon_len A M x]
  exact List.take_left' rfl

theorem drop_canon (A M : Lines) (x : Line) : (A ++ x :: M).drop (A.length + 1) = M := by
  have : A ++ x :: M = (A ++ [x]) ++ M := by simp
  rw [this]
  exact List.drop_left' (by simp)

theorem drop_canon2 (A M B : Lines) (x y : Line) :
    (A ++ x :: (M ++ y :: B)).drop (A.length + M.length + 1 + 1) = B := by
  have : A ++ x :: (M ++ y :: B) = (A ++ x :: M ++ [y]) ++ B := by simp
  rw [this]
  exact List.drop_left' (by simp; omega)

theorem take_A (A R : Lines) : (A ++ R).take A.length = A := List.take_left' rfl

/-! ### temporaries: insert at a point, delete what was inserted -/

/-- inserting `x` at a point of a line (`_put_src([x], ln, col, ln, col)`) -/
theorem insert_at (A B : Lines) (p q x : Line) :
    putSrcLines (A ++ (p ++ q) :: B) ⟨A.length, p.length, A.length, p.length⟩ (some [x]) = A ++ (p ++ x ++ q) :: B := by
  have hl : lineAt (A ++ (p ++ q) :: B) A.length = p ++ q := lineAt_append_right A _ _
  have htk : (A ++ (p ++ q) :: B).take A.length = A := take_A A _
  have hdr : (A ++ (p ++ q) :: B).drop (A.length + 1) = B := drop_canon A B _
  simp only [putSrcLines, hl, htk, hdr, beq_self_eq_true, if_true]
  simp

/-- deleting exactly what was inserted (`_put_src(None, ln, col, ln, col + len(x))`) -/
theorem delete_inserted (A B : Lines) (p q x : Line) :
    putSrcLines (A ++ (p ++ x ++ q) :: B) ⟨A.length, p.length, A.length, p.length + x.length⟩ none = A ++ (p ++ q) :: B := by
  have hl : lineAt (A ++ (p ++ x ++ q) :: B) A.length = p ++ x ++ q := lineAt_append_right A _ _
  have htk : (A ++ (p ++ x ++ q) :: B).take A.length = A := take_A A _
  have hdr : (A ++ (p ++ x ++ q) :: B).drop (A.length + 1) = B := drop_canon A B _
  have hne : (A.length != A.length) = false := by simp
  by_cases hx : x = []
  · subst hx
    simp [putSrcLines]
  · have hlen : (p.length + x.length != p.length) = true := by
      simp
      exact hx
    simp only [putSrcLines, hl, htk, hdr, hne, hlen, if_true, Bool.false_eq_true, if_false]
    have e1 : (p ++ x ++ q).take p.length = p := by
      rw [List.append_assoc]; exact List.take_left' rfl
    have e2 : (p ++ x ++ q).drop (p.length + x.length) = q := by
      exact List.drop_left' (by simp)
    rw [e1, e2]
    simp

end Pfst.Copy
