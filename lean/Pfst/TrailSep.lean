import Pfst.Scan
import Pfst.ParseWrap
/-!
# TrailSep — model of `parsex._has_trailing_comma` / `_has_trailing_semicolon` (repaired patterns)

`_re_trailing_comma = (?: [)\s] | \\\n | \#[^\n]*\n )* ,` (and the same with `;`): skip closing parentheses, blanks, line
continuations and whole comment lines, then expect the separator.  Every alternative starts with a different character and
none starts with the separator, so the match is a deterministic left-to-right scan (`scan`) — linear time.  (The
pattern before the repair, `(?: [)\s]* (?: (?: \\ | \#[^\n]* ) \n )? )* ,`, accepts the same strings but nests a star over
a starred class and backtracks exponentially when no separator follows: finding C05-F7.)  No imports beyond model files.
-/
namespace Pfst.TrailSep
open Pfst.Scan (isSpace)
open Pfst.ParseWrap (takeB)

/-- `[)\s]` -/
def isSkip (c : Char) : Bool := c == ')' || isSpace c

/-- where the scan is: between units, inside a comment, just after a backslash -/
inductive St where
  | unit | comment | bslash
deriving DecidableEq, Repr

/-- `bool(_re_trailing_<sep>.match(text))` as the deterministic scan the pattern amounts to (one pass, no backtracking) -/
def scan (sep : Char) : St → List Char → Bool
  | _, [] => false
  | .unit, c :: cs =>
    if c = sep then true
    else if isSkip c then scan sep .unit cs
    else if c = '\\' then scan sep .bslash cs
    else if c = '#' then scan sep .comment cs
    else false
  | .comment, c :: cs => if c = '\n' then scan sep .unit cs else scan sep .comment cs
  | .bslash, c :: cs => if c = '\n' then scan sep .unit cs else false

def scanSep (sep : Char) (s : List Char) : Bool := scan sep .unit s

/-- `pos = 0; for _ in range(end_lineno - 1): pos = src.find('\n', pos) + 1` (a missing newline sends `pos` back to 0) -/
def skipLines (src : List Char) : Nat → Nat → Nat
  | 0, pos => pos
  | n + 1, pos =>
    match (src.drop pos).findIdx? (· = '\n') with
    | some i => skipLines src n (pos + i + 1)
    | none => skipLines src n 0

/-- `_has_trailing_comma(src, end_lineno, end_col_offset)` (`sep = ','`) / `_has_trailing_semicolon` (`sep = ';'`):
skip `end_lineno - 1` lines, convert the BYTE column to characters on that line, scan -/
def hasTrailingSep (sep : Char) (src : List Char) (endLineno endCol : Nat) : Bool :=
  let pos := skipLines src (endLineno - 1) 0
  let pos := pos + (takeB endCol ((src.drop pos).take endCol)).length
  scanSep sep (src.drop pos)

end Pfst.TrailSep
