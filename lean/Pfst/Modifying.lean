/-
Model of the modification registry of pfst (src/fst/fst_core.py):

  `_MODIFYING = {}`  (fst_core.py:112)       process-global dict  root -> (node, depth)
  `class _Modifying` (fst_core.py:236-422)   `enter / success / fail / __exit__`

and of the three places that drive it with a non-trivial control skeleton:

  `FST.unpar`   (fst.py:3713-3737)            manual `enter() ... fail() | success()`
  `_put_one`    (fst_put_one.py:3216-3339)    guards, handler inside `with`, raw fallback inside a second `with`
  `_put_slice`  (fst_put_slice.py:3853-3903)  same skeleton (no `force`)
  `FST.replace` on a root node (fst.py)       guards (`code is None`, `to`, own root, consumed FST — the last two since
                                              fix C12-F2/F3) BEFORE `with self._modifying(): code_as_all; swap lines; _set_ast`
  `FST.put_src(action='reparse')` (fst.py)    `with parent._modifying(False, True): parent._reparse_raw(...)`: this is
                                              `Prog.withM parent (raw := true) (force := false) body`; the correspondence
                                              drives the real `put_src` with `_reparse_raw` stubbed to run `body`

plus an abstract edit step `step = validate >> apply` over an abstract tree state (the shape the put handlers are
supposed to have: all parsing / coercion / validation before the first splice).

The registry part mirrors the code that exists: a Python dict is an insertion-ordered association list with first-match
lookup; assigning an existing key keeps its place, a new key goes to the end, `del` removes the key.  The f-string
debug-text bookkeeping done by `enter`/`success` (fields `fst`, `field`, `data`) is NOT modelled: it does not touch the
registry.  No imports: this file is linked into the native driver.
-/
namespace Pfst.Modifying

abbrev Root := Nat
abbrev NodeId := Nat

/-- An `FST` node as the registry sees it: the root of its tree (`fst_.root` at `enter()` time, stored in `self.root`)
and its identity inside that tree. -/
structure NodeRef where
  root : Root
  node : NodeId
deriving DecidableEq, Repr, Inhabited

/-- `_MODIFYING`: `{root: (fst_, count)}` as an insertion-ordered association list. -/
abbrev Reg := List (Root × (NodeId × Nat))

/-- `_MODIFYING.get(root)` -/
def Reg.get : Reg → Root → Option (NodeId × Nat)
  | [], _ => none
  | (k, v) :: t, r => if k = r then some v else Reg.get t r

/-- `_MODIFYING[root] = v` (existing key: replaced in place; new key: appended) -/
def Reg.set : Reg → Root → (NodeId × Nat) → Reg
  | [], r, v => [(r, v)]
  | (k, w) :: t, r, v => if k = r then (k, v) :: t else (k, w) :: Reg.set t r v

/-- `del _MODIFYING[root]` -/
def Reg.del : Reg → Root → Reg
  | [], _ => []
  | (k, w) :: t, r => if k = r then t else (k, w) :: Reg.del t r

/-- Every entry has depth ≥ 1 (what `enter` establishes; the state space the code can reach). -/
def Reg.wf : Reg → Bool
  | [] => true
  | (_, (_, d)) :: t => decide (1 ≤ d) && Reg.wf t

/-- Exceptions that matter to the registry. -/
inductive Exc where
  /-- raised by the code running inside the modification (`catchable` = `NodeError | SyntaxError |
  NotImplementedError`, the classes the raw fallback of `_put_one` / `_put_slice` catches) -/
  | user (catchable : Bool)
  /-- `RuntimeError('nested modification of different nodes not allowed')` from `enter()` -/
  | nested
  /-- `TypeError`: `_MODIFYING.get(root)` returned `None` inside `success()` / `fail()` (unbalanced use) -/
  | internal
  /-- `ValueError` of the guards at the top of `_put_one` / `_put_slice` (circular put, consumed FST, 'to' on slice) -/
  | guard
deriving DecidableEq, Repr, Inhabited

/-- `_Modifying.enter` (fst_core.py:286-354), registry effect only.  `raw` only decides whether f-string bookkeeping
data is collected (`self.fst = False`), it has no registry effect and is kept as a parameter for the record. -/
def enter (n : NodeRef) (_raw : Bool) (force : Bool) (reg : Reg) : Except Exc Reg :=
  match reg.get n.root with
  | some (n0, d) =>                               -- `if nesting := _MODIFYING.get(root):`
    if n.node != n0 && !force then .error .nested -- `if fst_ is not nesting[0] and not force: raise RuntimeError`
    else .ok (reg.set n.root (n0, d + 1))         -- `_MODIFYING[root] = (nesting[0], nesting[1] + 1)`
  | none => .ok (reg.set n.root (n.node, 1))      -- `_MODIFYING[root] = (fst_, 1)`

/-- `_Modifying.success` (fst_core.py:356-411), registry effect only (the f-string fix-up after `del` is not modelled). -/
def success (root : Root) (reg : Reg) : Except Exc Reg :=
  match reg.get root with
  | none => .error .internal                       -- `None[1]`
  | some (n0, d) =>
    if d > 1 then .ok (reg.set root (n0, d - 1))   -- `_MODIFYING[root] = (nesting[0], nesting[1] - 1); return`
    else .ok (reg.del root)                        -- `del _MODIFYING[root]`

/-- `_Modifying.fail` (fst_core.py:413-421). -/
def fail (root : Root) (reg : Reg) : Except Exc Reg :=
  match reg.get root with
  | none => .error .internal
  | some (n0, d) =>
    if d > 1 then .ok (reg.set root (n0, d - 1))
    else .ok (reg.del root)

/-- `_Modifying.__exit__` (fst_core.py:276-284): `success()` if no exception else `fail(exc_val)`; returns `False`
(the exception keeps propagating). -/
def exit_ (root : Root) (exc : Option Exc) (reg : Reg) : Except Exc Reg :=
  match exc with
  | none => success root reg
  | some _ => fail root reg

/-- The `raw` option of a put: `False | 'auto' | True`. -/
inductive RawOpt where
  | off | auto | on
deriving DecidableEq, Repr, Inhabited

/-- Well-nested histories of registry events, as programs.  Exceptions can be raised at any depth and position. -/
inductive Prog where
  /-- `raise E(...)` at this point -/
  | raise (catchable : Bool)
  /-- `with n._modifying(field, raw, force=force): body` -/
  | withM (n : NodeRef) (raw force : Bool) (body : List Prog)
  /-- the manual skeleton of `FST.unpar` on node `n`: phase 1 (`if pars: modifying = enter(); body1`), phase 2
  (`if node and ...: modifying = modifying or enter(); body2`), `except: if modifying: modifying.fail(); raise`,
  `else: if modifying: modifying.success()` -/
  | unpar (n : NodeRef) (do1 : Bool) (body1 : List Prog) (do2 : Bool) (body2 : List Prog)
  /-- `try: body  except <catchable only | everything>: pass` -/
  | try_ (catchAll : Bool) (body : List Prog)
  /-- the skeleton of `_put_one` / `_put_slice` on parent node `n`: guards, handler body inside `with` (non-raw),
  raw body inside a second `with` when `raw=True` or (`raw='auto'` and the handler raised a catchable exception) -/
  | put (n : NodeRef) (raw : RawOpt) (force : Bool) (guardFails : Bool) (handler rawBody : List Prog)
  /-- the root branch of `FST.replace` on root node `n`: guards (`cannot delete root node`, `to` option, `circular put
  detected`, `already been consumed`) and only then `with self._modifying(): body` (`code_as_all`, line swap, `_set_ast`) -/
  | rootReplace (n : NodeRef) (guardFails : Bool) (body : List Prog)
deriving Repr, Inhabited

/-- Result of running a history: registry afterwards, exception propagating out (if any), and the registry as it was
after every registry event (each `enter` attempt, each `success`/`fail`). -/
structure Res where
  reg : Reg
  exc : Option Exc
  trace : List Reg
deriving DecidableEq, Repr, Inhabited

/-- `with M: body` given the already computed run of the body (shared by `withM` and `put`). -/
def withExit (root : Root) (reg1 : Reg) (b : Res) : Res :=
  match exit_ root b.exc b.reg with
  | .ok reg2 => ⟨reg2, b.exc, reg1 :: b.trace ++ [reg2]⟩
  | .error e => ⟨b.reg, some e, reg1 :: b.trace ++ [b.reg]⟩     -- exception raised inside `__exit__` replaces

/-- `with n._modifying(field, raw, force=force): body` where `body` is given as a function of the registry. -/
def withRun (n : NodeRef) (raw force : Bool) (body : Reg → Res) (reg : Reg) : Res :=
  match enter n raw force reg with
  | .error e => ⟨reg, some e, [reg]⟩             -- `__enter__` raised: body not run, `__exit__` not called
  | .ok reg1 => withExit n.root reg1 (body reg1)

/-- `except: if modifying: modifying.fail(); raise` / `else: if modifying: modifying.success()` of `FST.unpar`, reached
with `modifying` set; `b` is everything that ran since (and including) the `enter()`. -/
def unparFinish (root : Root) (b : Res) : Res :=
  match exit_ root b.exc b.reg with
  | .ok reg2 => ⟨reg2, b.exc, b.trace ++ [reg2]⟩
  | .error e => ⟨b.reg, some e, b.trace ++ [b.reg]⟩

/-- The skeleton of `FST.unpar` (fst.py:3713-3737), written out path by path:
```
modifying = None
try:
    if <pars present>:                       -- do1
        modifying = self._modifying().enter()
        self._unparenthesize_grouping(shared)                     -- body1
    if node and <delimited>:                 -- do2
        modifying = modifying or self._modifying().enter()
        self._undelimit_node()                                     -- body2
except:
    if modifying: modifying.fail()
    raise
else:
    if modifying: modifying.success()
```
An `enter()` that raises leaves `modifying` as it was (`None`): nothing to undo. -/
def unparRun (n : NodeRef) (do1 : Bool) (body1 : Reg → Res) (do2 : Bool) (body2 : Reg → Res) (reg : Reg) : Res :=
  if do1 then
    match enter n false false reg with
    | .error e => ⟨reg, some e, [reg]⟩
    | .ok reg1 =>
      let b1 := body1 reg1
      match b1.exc with
      | some x => unparFinish n.root ⟨b1.reg, some x, reg1 :: b1.trace⟩
      | none =>
        if do2 then
          let b2 := body2 b1.reg
          unparFinish n.root ⟨b2.reg, b2.exc, reg1 :: b1.trace ++ b2.trace⟩
        else unparFinish n.root ⟨b1.reg, none, reg1 :: b1.trace⟩
  else if do2 then
    match enter n false false reg with
    | .error e => ⟨reg, some e, [reg]⟩
    | .ok reg1 =>
      let b2 := body2 reg1
      unparFinish n.root ⟨b2.reg, b2.exc, reg1 :: b2.trace⟩
  else ⟨reg, none, []⟩

/-- `try: body  except (NodeError, SyntaxError, NotImplementedError) | except BaseException: pass` -/
def tryRun (catchAll : Bool) (b : Res) : Res :=
  match b.exc with
  | some (.user true) => ⟨b.reg, none, b.trace⟩
  | some x => if catchAll then ⟨b.reg, none, b.trace⟩ else ⟨b.reg, some x, b.trace⟩
  | none => b

/-- The skeleton of `_put_one` (fst_put_one.py:3246-3339) and `_put_slice` (fst_put_slice.py:3865-3903). -/
def putRun (n : NodeRef) (raw : RawOpt) (force : Bool) (guardFails : Bool) (handler rawBody : Reg → Res) (reg : Reg) :
    Res :=
  if guardFails then ⟨reg, some .guard, []⟩       -- the guards come before any `with`
  else
    -- `if raw is not True: try: with self._modifying(field, force=force_modifying): handler(...)`
    -- `except (NodeError, SyntaxError, NotImplementedError): if not raw: raise`
    let first : Res × Bool :=                       -- (result, fall through to the raw attempt)
      if raw == .on then (⟨reg, none, []⟩, true)
      else
        let r := withRun n false force handler reg
        match r.exc with
        | some (.user true) => if raw == .auto then (⟨r.reg, none, r.trace⟩, true) else (r, false)
        | _ => (r, false)
    if first.2 then
      -- `with self._modifying(field, True, force=force_modifying): _put_one_raw(...)`
      let r := withRun n true force rawBody first.1.reg
      ⟨r.reg, r.exc, first.1.trace ++ r.trace⟩
    else first.1

/-- The root branch of `FST.replace` (fst.py): every guard comes before the `with`. -/
def rootReplaceRun (n : NodeRef) (guardFails : Bool) (body : Reg → Res) (reg : Reg) : Res :=
  if guardFails then ⟨reg, some .guard, []⟩
  else withRun n false false body reg

mutual
def run : Prog → Reg → Res
  | .raise c, reg => ⟨reg, some (.user c), []⟩
  | .withM n raw force body, reg => withRun n raw force (runList body) reg
  | .unpar n do1 body1 do2 body2, reg => unparRun n do1 (runList body1) do2 (runList body2) reg
  | .try_ catchAll body, reg => tryRun catchAll (runList body reg)
  | .put n raw force guardFails handler rawBody, reg =>
    putRun n raw force guardFails (runList handler) (runList rawBody) reg
  | .rootReplace n guardFails body, reg => rootReplaceRun n guardFails (runList body) reg

def runList : List Prog → Reg → Res
  | [], reg => ⟨reg, none, []⟩
  | p :: ps, reg =>
    let a := run p reg
    match a.exc with
    | some _ => a
    | none => let b := runList ps a.reg; ⟨b.reg, b.exc, a.trace ++ b.trace⟩
end

/-- `k` nested `with` blocks on the same node around `body`. -/
def nest (n : NodeRef) : Nat → List Prog → Prog
  | 0, body => .withM n false false body
  | k + 1, body => .withM n false false [nest n k body]

/-! ## Abstract edit step -/

/-- An edit operation that has the validate-then-apply shape: `validate` reads the state and the request and either
refuses or produces a plan; `apply` cannot fail. -/
structure Op (σ ρ π ε : Type) where
  validate : σ → ρ → Except ε π
  apply : σ → π → σ

/-- `step := validate ≫ apply` -/
def Op.step {σ ρ π ε : Type} (op : Op σ ρ π ε) (s : σ) (r : ρ) : σ × Option ε :=
  match op.validate s r with
  | .error e => (s, some e)
  | .ok p => (op.apply s p, none)

/-- A sequence of requests, failing ones included; returns the final state and the outcome of each. -/
def Op.runSeq {σ ρ π ε : Type} (op : Op σ ρ π ε) : σ → List ρ → σ × List (Option ε)
  | s, [] => (s, [])
  | s, r :: rs =>
    let a := op.step s r
    let b := Op.runSeq op a.1 rs
    (b.1, a.2 :: b.2)

/-- Errors of the full put: the handler's own, or one of the registry's. -/
inductive Err (ε : Type) where
  | op (e : ε)
  | reg (e : Exc)
deriving DecidableEq, Repr

/-- One edit step under `with n._modifying(...)`: state and registry together. -/
def withStep {σ ρ π ε : Type} (op : Op σ ρ π ε) (n : NodeRef) (raw force : Bool) (w : σ × Reg) (r : ρ) :
    (σ × Reg) × Option (Err ε) :=
  match enter n raw force w.2 with
  | .error e => (w, some (.reg e))
  | .ok reg1 =>
    let a := op.step w.1 r
    match exit_ n.root (a.2.map fun _ => Exc.user true) reg1 with
    | .error e => ((a.1, reg1), some (.reg e))
    | .ok reg2 => ((a.1, reg2), a.2.map .op)

/-- `_put_one` over the abstract state: guards, non-raw handler under `with`, raw fallback under a second `with`
(on the preserved copy of the request: `preserved_code = code.copy() if raw and is_FST else code`). -/
def putOne {σ ρ π ε : Type} (handler rawHandler : Op σ ρ π ε) (catchable : ε → Bool) (guard : ρ → Bool)
    (n : NodeRef) (raw : RawOpt) (force : Bool) (w : σ × Reg) (r : ρ) : (σ × Reg) × Option (Err ε) :=
  if guard r then (w, some (.reg .guard))
  else
    let first : ((σ × Reg) × Option (Err ε)) × Bool :=
      if raw == .on then ((w, none), true)
      else
        let a := withStep handler n false force w r
        match a.2 with
        | some (.op e) => if catchable e && raw == .auto then ((a.1, none), true) else (a, false)
        | _ => (a, false)
    if first.2 then withStep rawHandler n true force first.1.1 r
    else first.1

end Pfst.Modifying
