/-
Model of `fst_core._set_end_pos` / `_set_start_pos` (src/fst/fst_core.py): walk up the parent chain setting the end
(resp. start) position as long as the node is the last (resp. first) child, optionally only while the node still has an
expected old position; every node written - and every node without own location passed on the way - gets `_touch()`ed.

The chain is given self first, root last.  Whether `self.next()` / `self.prev()` finds a sibling is an input (`hasSib`;
the sibling walk is the subject of the C14 model).  No imports: linked into the native driver.
-/
namespace Pfst.SetPos

structure Link where
  id     : Nat
  /-- `(end_lineno, end_col_offset)` resp. `(lineno, col_offset)`; `none`: the AST has no location (empty `arguments`) -/
  pos    : Option (Int × Int)
  /-- `self.next()` resp. `self.prev()` is not `None` -/
  hasSib : Bool
deriving Repr, DecidableEq, Inhabited

/-- `check_old_pos and (eco != old_end_col_offset or a.end_lineno != old_end_lineno)`: only for nodes with a location -/
def blocked (old : Option (Int × Int)) (l : Link) : Bool :=
  match l.pos, old with
  | some e, some o => e != o
  | _, _ => false

/-- `a.end_lineno = end_lineno; a.end_col_offset = end_col_offset` (nothing to write without a location) -/
def write (new : Int × Int) (l : Link) : Link := { l with pos := l.pos.map (fun _ => new) }

/-- the `while True` loop: returns the chain afterwards and the ids `_touch()`ed, in order -/
def setPos (new : Int × Int) (old : Option (Int × Int)) : List Link → List Link × List Nat
  | [] => ([], [])
  | l :: rest =>
    if blocked old l then (l :: rest, [])
    else if rest.isEmpty || l.hasSib then (write new l :: rest, [l.id])
    else
      let r := setPos new old rest
      (write new l :: r.1, l.id :: r.2)

end Pfst.SetPos
