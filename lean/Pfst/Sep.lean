import Pfst.Text
import Pfst.Scan
/-
Model of the SEPARATOR / DELIMITER primitives of pfst that almost every sequence edit goes through
(src/fst/fst_misc.py):

* `FST._trail_sep`                 query / delete / delete-if-unaesthetic of the separator after a span
* `FST._maybe_ins_sep`             insert the separator (and / or a space) if it is not there
* `FST._is_delimited_seq`          is the whole sequence inside one balanced delimiter pair
* `FST._maybe_add_singleton_comma`, `FST._fix_undelimited_seq`, `FST._delimit_node`, `FST._fix_Tuple`
* `FST._fix_joined_alnums`, the per-line rewrite of `FST._maybe_add_line_continuations`

Every function is a pure function of (lines, positions, flags); the source change is made by `Pfst.Text.putSrc`
(the model of `_put_src`, C04) and the scanning is `Pfst.Scan.nextFrag` / `nextFind` / `nextDelims` (C06).  The
position bookkeeping of the tree (`_offset`, C11) is not part of this model: wherever the Python code re-reads a
location after a put, the model recomputes it with the shift rule of `_put_src` (tail / head as passed).
Decisions that depend on the tree (is the tuple enclosed by its parents, …) are inputs.

Lines are `List Char` without `'\n'` inside (pfst invariant for `root._lines`); columns are character indices.
The `while` loops run on a fuel that is larger than the number of iterations (each iteration consumes a character).
Imports only import-free model files: linked into the native driver.
-/
namespace Pfst.Sep
open Pfst.Scan

/-! ## small regex / string helpers -/

/-- `src.lstrip(')')` -/
def lstripPar (s : Line) : Line := s.dropWhile (· == ')')

/-- number of trailing characters of `w` satisfying `p` -/
def trailCount (p : Char → Bool) (w : Line) : Nat := (w.reverse.takeWhile p).length

/-- `re_empty_space.search(l, pos, endpos).start()` for `re_empty_space = \s*$`: the start of the run of whitespace
that ends the window `l[pos:endpos]` (both clipped to the line like `Pattern.search` clips them).  For
`endpos < pos` Python has no match (`.start()` would raise); the model answers the clipped `pos`. -/
def emptySpaceStart (l : Line) (pos endpos : Nat) : Nat :=
  let e := min endpos l.length
  let p := min pos l.length
  if e < p then p else e - trailCount isSpace ((l.take e).drop p)

/-- `_re_one_space_or_end.match(l, c)` for `\s|$`: a whitespace character at `c`, or `c` at / past the end. -/
def oneSpaceOrEnd (l : Line) (c : Nat) : Bool :=
  match l[c]? with
  | none => true
  | some ch => isSpace ch

/-- lines the scanning loops can walk: `Σ (len + 1)` over `n` lines from line `i` -/
def spanChars (lines : List Line) : Nat → Nat → Nat
  | _, 0 => 0
  | i, n + 1 => (lineAt lines i).length + 1 + spanChars lines (i + 1) n

/-- more than the number of iterations of the `while frag := next_frag(...)` loops between `ln` and `endLn` -/
def sepFuel (lines : List Line) (ln endLn : Nat) : Nat := spanChars lines ln (endLn + 1 - ln) + 1

/-! ## the loop shared by `_trail_sep` and `_maybe_ins_sep` -/

/-- where the `while frag := next_frag(lines, ln, col, end_ln, end_col)` loop (the same text in both functions) stops:
`(ln, col)` = the start of the last search (moved behind every closing parenthesis that was skipped), `frag` = the first
fragment that is not only closing parentheses, with its leading `)` stripped: `(cln, ccol, src)`; `none` = `next_frag`
found nothing more inside the bound. -/
structure ScanOut where
  ln : Nat
  col : Nat
  frag : Option (Nat × Nat × Line)
deriving DecidableEq, Repr, Inhabited

/-- ```
while frag := next_frag(lines, ln, col, end_ln, end_col):
    cln, ccol, src = frag
    if src.startswith(')'):
        old_len = len(src); src = src.lstrip(')'); ln = cln; col = ccol = ccol + old_len - len(src)
        if not src: continue
    <tail>
``` -/
def sepScan (lines : List Line) (endLn endCol : Nat) : Nat → Nat → Nat → ScanOut
  | 0, ln, col => ⟨ln, col, none⟩
  | fuel + 1, ln, col =>
    match nextFrag lines ln col endLn endCol false .f with
    | none => ⟨ln, col, none⟩
    | some fr =>
      if fr.src.head? == some ')' then
        let src := lstripPar fr.src
        let ccol := fr.col + fr.src.length - src.length
        if src.isEmpty then sepScan lines endLn endCol fuel fr.ln ccol
        else ⟨fr.ln, ccol, some (fr.ln, ccol, src)⟩
      else ⟨ln, col, some (fr.ln, fr.col, fr.src)⟩

/-! ## `_trail_sep` -/

/-- the `del_` parameter: `False | True | None` -/
inductive Del where
  | no | yes | aesth
deriving DecidableEq, Repr, Inhabited

structure TSOut where
  /-- returned `(ln, col)` of the separator, `none` = `None` -/
  pos : Option (Nat × Nat)
  /-- the rectangle `(line, from, to)` handed to `_put_src(None, …)`, if a delete was made -/
  del : Option (Nat × Nat × Nat)
  /-- `root._lines` afterwards -/
  lines : List Line
deriving DecidableEq, Repr, Inhabited

/-- `del_ is None`: the separator is kept iff the next thing on its line (inside the bound) is a comment or a line
continuation. -/
def unaesthetic (lines : List Line) (endLn endCol cln after : Nat) : Bool :=
  match nextFrag lines cln after cln (if cln == endLn then endCol else hugeCol) true .t with
  | none => true
  | some f => !(f.src.head? == some '#' || f.src.head? == some '\\')

/-- does this call delete the separator it found: `del_` is `True`, or `None` and the separator is not "aesthetic" -/
def doDelete (lines : List Line) (endLn endCol : Nat) (del : Del) (cln after : Nat) : Bool :=
  match del with
  | .no => false
  | .yes => true
  | .aesth => unaesthetic lines endLn endCol cln after

/-- first column handed to `_put_src(None, …)`:
```
if cln != ln: col = re_empty_space.search(lines[cln], 0 if cln > ln else col, ccol).start()
… col or ccol
```
(on a later line than the search start: the whitespace in front of the separator, unless it reaches the start of the
line; on the line of the search start: from the search start, unless that is column 0) -/
def delFrom (lines : List Line) (ln col cln ccol : Nat) : Nat :=
  let col' := if cln != ln then emptySpaceStart (lineAt lines cln) (if cln > ln then 0 else col) ccol else col
  if col' == 0 then ccol else col'

/-- the body of the loop of `_trail_sep` after the closing parentheses of the fragment were stripped:
`(ln, col)` = start of this search (moved behind the parentheses if there were any), `(cln, ccol, src)` = rest of
the fragment. -/
def trailSepTail (lines : List Line) (endLn endCol : Nat) (sep : Line) (del : Del)
    (ln col cln ccol : Nat) (src : Line) : TSOut :=
  if !sep.isPrefixOf src then ⟨none, none, lines⟩
  else if doDelete lines endLn endCol del cln (ccol + sep.length) then
    ⟨some (cln, ccol), some (cln, delFrom lines ln col cln ccol, ccol + sep.length),
     Pfst.Text.putSrc lines [] cln (delFrom lines ln col cln ccol) cln (ccol + sep.length)⟩
  else ⟨some (cln, ccol), none, lines⟩

/-- `FST._trail_sep(ln, col, end_ln, end_col, sep, del_)` with all four bounds given (the harness resolves the
defaults `self.loc` / `parent.loc` / end of source exactly like the first lines of the function). -/
def trailSep (lines : List Line) (ln col endLn endCol : Nat) (sep : Line) (del : Del) : TSOut :=
  let r := sepScan lines endLn endCol (sepFuel lines ln endLn) ln col
  match r.frag with
  | none => ⟨none, none, lines⟩
  | some (cln, ccol, src) => trailSepTail lines endLn endCol sep del r.ln r.col cln ccol src

/-! ## `_maybe_ins_sep` -/

structure InsOut where
  /-- the returned `srcwpos(ln, col, src)`, `none` = nothing was put -/
  put : Option (Nat × Nat × Line)
  lines : List Line
deriving DecidableEq, Repr, Inhabited

/-- the code after the loop of `_maybe_ins_sep`: put a new separator at `(ln, col)` -/
def insNew (lines : List Line) (endLn endCol : Nat) (sep : Line) (space : Bool) (ln col : Nat) : InsOut :=
  let sep1 := if sep != [','] then ' ' :: sep else sep
  let sep2 := if space && ((ln == endLn && col == endCol) || !oneSpaceOrEnd (lineAt lines ln) col)
    then sep1 ++ [' '] else sep1
  ⟨some (ln, col, sep2), Pfst.Text.putSrc lines [sep2] ln col ln col⟩

def insTail (lines : List Line) (endLn endCol : Nat) (sep : Line) (space : Bool)
    (ln col cln ccol : Nat) (src : Line) : InsOut :=
  if sep.isPrefixOf src then
    let c := ccol + sep.length
    if space && ((cln == endLn && c == endCol) || !oneSpaceOrEnd (lineAt lines cln) c) then
      ⟨some (cln, c, [' ']), Pfst.Text.putSrc lines [[' ']] cln c cln c⟩
    else ⟨none, lines⟩
  else insNew lines endLn endCol sep space ln col

/-- `FST._maybe_ins_sep(ln, col, space, end_ln, end_col, sep)` (source part; `exclude` only steers `_offset`) -/
def maybeInsSep (lines : List Line) (ln col : Nat) (space : Bool) (endLn endCol : Nat) (sep : Line) : InsOut :=
  let r := sepScan lines endLn endCol (sepFuel lines ln endLn) ln col
  match r.frag with
  | none => insNew lines endLn endCol sep space r.ln r.col
  | some (cln, ccol, src) => insTail lines endLn endCol sep space r.ln r.col cln ccol src

/-! ## `_is_delimited_seq` -/

def charAt (lines : List Line) (ln col : Nat) : Option Char := (lineAt lines ln)[col]?

/-- `FST._is_delimited_seq(field, delims)`: `self` = `self.loc`, `f0` / `fn` = `.loc` of the first / last element. -/
def isDelimitedSeq (lines : List Line) (self : Loc) (nElts : Nat) (f0 fn : Loc) (ldelim rdelim : Char) : Bool :=
  if self.endCol == 0 then false
  else if charAt lines self.endLn (self.endCol - 1) != some rdelim then false
  else if nElts == 0 then true
  else if charAt lines self.ln self.col != some ldelim then false
  else if f0.col == self.col && f0.ln == self.ln then false
  else if fn.endCol == self.endCol && fn.endLn == self.endLn then false
  else
    let ld := (nextDelims lines self.ln self.col f0.ln f0.col ldelim).length
    let rd := (nextDelims lines f0.endLn f0.endCol self.endLn (self.endCol - 1) rdelim).length
    decide (ld > rd)

/-! ## `_maybe_add_singleton_comma` -/

/-- `FST._maybe_add_singleton_comma(is_delimited)`: `f0End` = end of the only element, `selfEnd` = end of the tuple -/
def maybeAddSingletonComma (lines : List Line) (nElts : Nat) (f0End selfEnd : Nat × Nat) (isDelim : Bool) : InsOut :=
  if nElts == 1 then
    maybeInsSep lines f0End.1 f0End.2 false selfEnd.1 (selfEnd.2 - (if isDelim then 1 else 0)) [',']
  else ⟨none, lines⟩

/-! ## end-of-line regexes -/

def idxOf (c : Char) : Line → Option Nat
  | [] => none
  | x :: r => if x == c then some 0 else (idxOf c r).map (· + 1)

/-- `re_line_end_ws_cont_or_comment.search(l, pos, endpos)` for `\s*(\\|#.*)?$` on a line without `'\n'`:
`(m.start(0), m.start(1) if group 1 is non-empty, is group 1 a comment)`.  The leftmost match starts at the
whitespace in front of the first `#` of the window; without a `#`, in front of a final backslash, or of the end. -/
def lineEndWsContOrComment (l : Line) (pos endpos : Nat) : Nat × Option (Nat × Bool) :=
  let e := min endpos l.length
  let p := min pos l.length
  let w := (l.take e).drop p
  match idxOf '#' w with
  | some i => (p + (i - trailCount isSpace (w.take i)), some (p + i, true))
  | none =>
    if w.getLast? == some '\\' then
      (p + (w.length - 1 - trailCount isSpace w.dropLast), some (p + (w.length - 1), false))
    else (p + (w.length - trailCount isSpace w), none)

/-- `_re_line_end_ws_maybe_cont.search(l, pos, endpos).start()` for `\s*\\?$` -/
def lineEndWsMaybeCont (l : Line) (pos endpos : Nat) : Nat :=
  let e := min endpos l.length
  let p := min pos l.length
  let w := (l.take e).drop p
  if w.getLast? == some '\\' then p + (w.length - 1 - trailCount isSpace w.dropLast)
  else p + (w.length - trailCount isSpace w)

/-- `re_line_end_cont_or_comment.search(l, pos)` for `(\\|#.*)?$`: start of group 1 and whether it is a comment;
`none` = group 1 empty. -/
def lineEndContOrComment (l : Line) (pos : Nat) : Option (Nat × Bool) :=
  let p := min pos l.length
  let w := l.drop p
  match idxOf '#' w with
  | some i => some (p + i, true)
  | none => if w.getLast? == some '\\' then some (p + (w.length - 1), false) else none

/-! ## position shift after one `_put_src` (what re-reading `.loc` after the put gives) -/

/-- a point strictly after the start of the put (or at it when `atMoves`), on or after its end, moves with the text -/
def shiftPos (put : List Line) (ln col endLn endCol : Nat) (atMoves : Bool) (p : Nat × Nat) : Nat × Nat :=
  let after := decide (p.1 > endLn) || (p.1 == endLn && (decide (p.2 > endCol) || (p.2 == endCol && atMoves)))
  if after then
    (Pfst.Text.shiftLn put ln endLn p.1, Pfst.Text.shiftCol put col endLn endCol p.1 p.2)
  else p

/-! ## `_fix_joined_alnums` -/

/-- `[\w…]` restricted to ASCII plus the explicitly listed characters (`extra` = the non-ASCII characters of the lines
that Python's `re` puts into `pat_alnum`; supplied by the caller, Unicode tables are not modelled) -/
def isWord (extra : List Char) (c : Char) : Bool :=
  c.isAlphanum || c == '_' || extra.contains c

/-- `re_alnumdot_alnum.match(l, c)`: `[\w.][\w]` at `c` -/
def alnumdotAlnum (extra : List Char) (l : Line) (c : Nat) : Bool :=
  match l[c]?, l[c + 1]? with
  | some a, some b => (isWord extra a || a == '.') && isWord extra b
  | _, _ => false

/-- `FST._fix_joined_alnums(ln, col, end_ln, end_col)`; `endPos = none` = `end_ln is None` -/
def fixJoinedAlnums (extra : List Char) (lines : List Line) (ln col : Nat) (endPos : Option (Nat × Nat)) : List Line :=
  let l1 :=
    match endPos with
    | some (el, ec) =>
      if ec != 0 && alnumdotAlnum extra (lineAt lines el) (ec - 1) then Pfst.Text.putSrc lines [[' ']] el ec el ec
      else lines
    | none => lines
  if col != 0 && alnumdotAlnum extra (lineAt l1 ln) (col - 1) then Pfst.Text.putSrc l1 [[' ']] ln col ln col else l1

/-! ## `_delimit_node` -/

/-- `FST._delimit_node(whole=True, delims)`: `isRoot` = `self.is_root`; `lastChildEnd` = end of `last_child('loc')`.
Returns the new lines. -/
def delimitNode (lines : List Line) (self : Loc) (isRoot : Bool) (lastChildEnd : Option (Nat × Nat))
    (ldelim rdelim : Char) : List Line :=
  let ln := if isRoot then 0 else self.ln
  let col := if isRoot then 0 else self.col
  let endLn := if isRoot then lines.length - 1 else self.endLn
  let endTo := if isRoot then (lineAt lines (lines.length - 1)).length else self.endCol
  let (endFrom, lastComment) :=
    if !isRoot then (endTo, false)
    else
      let searchCol :=
        match lastChildEnd with
        | none => 0
        | some (cl, cc) => if cl < endLn then 0 else cc
      match (lineEndWsContOrComment (lineAt lines endLn) searchCol hugeCol) with
      | (_, none) => (endTo, false)
      | (_, some (_, true)) => (endTo, true)
      | (s0, some (_, false)) => (s0, false)
  let l1 :=
    if lastComment then Pfst.Text.putSrc lines [[], [rdelim]] endLn endFrom endLn endTo
    else Pfst.Text.putSrc lines [[rdelim]] endLn endFrom endLn endTo
  Pfst.Text.putSrc l1 [[ldelim]] ln col ln col

/-! ## `_fix_undelimited_seq` / `_fix_Tuple` -/

structure TupIn where
  self : Loc                 -- `self.loc`
  nElts : Nat
  f0 : Loc                   -- `elts[0].f.loc`
  fn : Loc                   -- `elts[-1].f.loc`
  p0 : Nat × Nat             -- start of `elts[0].f.pars()`
  pn : Nat × Nat             -- end of `elts[-1].f.pars()`
  isDelim : Option Bool      -- the `is_delimited` argument
  parIfNeeded : Bool
  isRoot : Bool
  enclosed : Bool            -- `_is_enclosed_or_line(check_pars=False) or _is_enclosed_in_parents()` (tree decision)
  namedExpr : Bool           -- some element is an unparenthesised `NamedExpr` (tree decision)
  extra : List Char          -- see `isWord`
deriving Repr, Inhabited

structure TupOut where
  delimited : Bool           -- the return value
  lines : List Line
deriving DecidableEq, Repr, Inhabited

/-- `_fix_undelimited_seq(body = [], delims)` -/
def fixUndelimEmpty (lines : List Line) (self : Loc) (ldelim rdelim : Char) : List Line :=
  match nextFrag lines self.ln self.col self.endLn self.endCol true .f with
  | none => Pfst.Text.putSrc lines [[ldelim, rdelim]] self.ln self.col self.endLn self.endCol
  | some _ =>
    let l := lineAt lines self.endLn
    let l1 :=
      match (lineEndWsContOrComment l (if self.endLn == self.ln then self.col else 0) self.endCol).2 with
      | some _ => Pfst.Text.putSrc lines [[], [rdelim]] self.endLn self.endCol self.endLn self.endCol
      | none =>
        let ec := min self.endCol l.length
        if ec != 0 && l[ec - 1]? == some ' ' then
          lines.set self.endLn (l.take (self.endCol - 1) ++ [rdelim] ++ l.drop self.endCol)
        else Pfst.Text.putSrc lines [[rdelim]] self.endLn self.endCol self.endLn self.endCol
    let l0 := lineAt l1 self.ln
    if l0[self.col]? == some ' ' then l1.set self.ln (l0.take self.col ++ [ldelim] ++ l0.drop (self.col + 1))
    else Pfst.Text.putSrc l1 [[ldelim]] self.ln self.col self.ln self.col

/-- the tail of `_fix_undelimited_seq` for a non-empty sequence that is not going to be delimited: start at the first
element, end at the last element or its trailing comma, trailing blanks trimmed, joined alphanumerics separated. -/
def fixUndelimTrim (lines : List Line) (self : Loc) (p0 pn : Nat × Nat) (extra : List Char) : List Line :=
  -- `if ecol != col or eln != ln: self._put_src(None, ln, col, eln, ecol, False)`
  let moved := p0.2 != self.col || p0.1 != self.ln
  let l1 := if moved then Pfst.Text.putSrc lines [] self.ln self.col p0.1 p0.2 else lines
  let sh := fun (p : Nat × Nat) => if moved then shiftPos [[]] self.ln self.col p0.1 p0.2 true p else p
  let endP := sh (self.endLn, self.endCol)
  let eend0 := sh pn
  let eend :=
    match nextFind l1 eend0.1 eend0.2 endP.1 endP.2 [','] false false .f with
    | some c => (c.1, c.2 + 1)
    | none => eend0
  let (l2, endQ) :=
    if endP.2 != eend.2 || endP.1 != eend.1 then
      let endLine := lineAt l1 endP.1
      let l2 :=
        if endLine.length == endP.2 && l1.length - 1 == endP.1 then
          if endLine.isEmpty then
            Pfst.Text.putSrc l1 [] (endP.1 - 1) (lineEndWsMaybeCont (lineAt l1 (l1.length - 2)) 0 hugeCol) endP.1 0
          else
            let ws := lineEndWsMaybeCont endLine 0 hugeCol
            if ws != endP.2 then Pfst.Text.putSrc l1 [] endP.1 ws endP.1 endP.2 else l1
        else if eend.1 == endP.1 then
          let ws := lineEndWsMaybeCont endLine eend.2 endP.2
          if ws != endP.2 then Pfst.Text.putSrc l1 [] endP.1 ws endP.1 endP.2 else l1
        else l1
      (l2, eend)
    else (l1, endP)
  fixJoinedAlnums extra l2 self.ln self.col (some endQ)

/-- `FST._fix_Tuple(is_delimited, par_if_needed)` -/
def fixTuple (lines : List Line) (a : TupIn) : TupOut :=
  let isDelim :=
    match a.isDelim with
    | some b => b
    | none => isDelimitedSeq lines a.self a.nElts a.f0 a.fn '(' ')'
  -- `if body := self.a.elts: self._maybe_add_singleton_comma(is_delimited)`
  let ins :=
    if a.nElts != 0 then
      maybeAddSingletonComma lines a.nElts (a.f0.endLn, a.f0.endCol) (a.self.endLn, a.self.endCol) isDelim
    else ⟨none, lines⟩
  if isDelim then ⟨true, ins.lines⟩
  else
    -- `self.loc` after the put of `_maybe_ins_sep` (`tail=True`, the tuple itself is offset, its children are not)
    let self1 : Loc :=
      match ins.put with
      | none => a.self
      | some (l, c, s) =>
        let e := shiftPos [s] l c l c true (a.self.endLn, a.self.endCol)
        ⟨a.self.ln, a.self.col, e.1, e.2⟩
    if a.nElts == 0 then ⟨true, fixUndelimEmpty ins.lines self1 '(' ')'⟩
    else if a.parIfNeeded && ((!(self1.endLn == self1.ln || a.enclosed)) || a.namedExpr) then
      ⟨true, delimitNode ins.lines self1 a.isRoot (some (a.fn.endLn, a.fn.endCol)) '(' ')'⟩
    else ⟨false, fixUndelimTrim ins.lines self1 a.p0 a.pn a.extra⟩

/-! ## `_maybe_add_line_continuations`: what happens to one line -/

/-- the loop body of `FST._maybe_add_line_continuations` for line `l` (`endCol` = `end_cols.get(ln, 0)`), in the modes
that only rewrite the line in place (`del_comment_lines=False`); `none` = `raise NodeError` (`del_comments=False` and
the line ends with a comment). -/
def lineContLine (l : Line) (endCol : Nat) (delComments addLconts : Bool) : Option Line :=
  match lineEndContOrComment l endCol with
  | none =>
    if addLconts then
      some (l ++ (if l.isEmpty || (l.getLast?.map isSpace).getD false then ['\\'] else [' ', '\\']))
    else some l
  | some (_, false) => some l
  | some (cs, true) =>
    if !delComments then none
    else
      let ws := emptySpaceStart l 0 cs
      if !addLconts then some (l.take ws)
      else if ws == 0 then some (l.take cs ++ ['\\'])
      else some (l.take ws ++ [' ', '\\'])

end Pfst.Sep
