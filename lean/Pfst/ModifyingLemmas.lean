import Pfst.Modifying
/-! Helper lemmas about the registry model (`Pfst/Modifying.lean`). -/
namespace Pfst.Modifying

theorem Reg.get_set_self (reg : Reg) (r : Root) (v : NodeId × Nat) : (reg.set r v).get r = some v := by
  induction reg with
  | nil => simp [Reg.set, Reg.get]
  | cons h t ih =>
    obtain ⟨k, w⟩ := h
    by_cases hk : k = r
    · simp [Reg.set, Reg.get, hk]
    · simp [Reg.set, Reg.get, hk, ih]

theorem Reg.del_set_of_get_none (reg : Reg) (r : Root) (v : NodeId × Nat) (h : reg.get r = none) :
    (reg.set r v).del r = reg := by
  induction reg with
  | nil => simp [Reg.set, Reg.del]
  | cons hd t ih =>
    obtain ⟨k, w⟩ := hd
    by_cases hk : k = r
    · simp [Reg.get, hk] at h
    · simp only [Reg.get, hk, if_false] at h
      simp [Reg.set, Reg.del, hk, ih h]

theorem Reg.set_set_of_get (reg : Reg) (r : Root) (v v0 : NodeId × Nat) (h : reg.get r = some v0) :
    (reg.set r v).set r v0 = reg := by
  induction reg with
  | nil => simp [Reg.get] at h
  | cons hd t ih =>
    obtain ⟨k, w⟩ := hd
    by_cases hk : k = r
    · simp only [Reg.get, hk, if_true, Option.some.injEq] at h
      simp [Reg.set, hk, h]
    · simp only [Reg.get, hk, if_false] at h
      simp [Reg.set, hk, ih h]

theorem Reg.wf_set (reg : Reg) (r : Root) (v : NodeId × Nat) (h : reg.wf = true) (hv : 1 ≤ v.2) :
    (reg.set r v).wf = true := by
  induction reg with
  | nil => obtain ⟨n, d⟩ := v; simp [Reg.set, Reg.wf]; exact hv
  | cons hd t ih =>
    obtain ⟨k, n0, d0⟩ := hd
    obtain ⟨n, d⟩ := v
    simp only [Reg.wf, Bool.and_eq_true, decide_eq_true_eq] at h
    by_cases hk : k = r
    · simp [Reg.set, hk, Reg.wf, h.2]; exact hv
    · simp [Reg.set, hk, Reg.wf, h.1, ih h.2]

theorem Reg.wf_get (reg : Reg) (r : Root) (n : NodeId) (d : Nat) (h : reg.wf = true) (hg : reg.get r = some (n, d)) :
    1 ≤ d := by
  induction reg with
  | nil => simp [Reg.get] at hg
  | cons hd t ih =>
    obtain ⟨k, n0, d0⟩ := hd
    simp only [Reg.wf, Bool.and_eq_true, decide_eq_true_eq] at h
    by_cases hk : k = r
    · simp only [Reg.get, hk, if_true, Option.some.injEq, Prod.mk.injEq] at hg
      omega
    · simp only [Reg.get, hk, if_false] at hg
      exact ih h.2 hg

/-- The registry part of `success` and `fail` is the same function. -/
theorem fail_eq_success (root : Root) (reg : Reg) : fail root reg = success root reg := rfl

theorem exit_eq_success (root : Root) (exc : Option Exc) (reg : Reg) : exit_ root exc reg = success root reg := by
  cases exc <;> rfl

/-- A successful `enter` on a well-formed registry gives a well-formed registry from which `success`/`fail`/`__exit__`
restores exactly the registry before the `enter`. -/
theorem enter_then_exit (n : NodeRef) (raw force : Bool) (reg reg1 : Reg) (h : reg.wf = true)
    (he : enter n raw force reg = .ok reg1) :
    reg1.wf = true ∧ ∀ exc, exit_ n.root exc reg1 = .ok reg := by
  unfold enter at he
  split at he
  · next n0 d hg =>
    split at he
    · cases he
    · injection he with he
      subst he
      have hd := Reg.wf_get reg n.root n0 d h hg
      refine ⟨Reg.wf_set _ _ _ h (by simp), fun exc => ?_⟩
      rw [exit_eq_success]
      unfold success
      rw [Reg.get_set_self]
      simp only
      rw [if_pos (by omega)]
      simp [Reg.set_set_of_get reg n.root _ _ hg]
  · next hg =>
    injection he with he
    subst he
    refine ⟨Reg.wf_set _ _ _ h (by simp), fun exc => ?_⟩
    rw [exit_eq_success]
    unfold success
    rw [Reg.get_set_self]
    simp [Reg.del_set_of_get_none reg n.root _ hg]

/-- A failing `enter` is the `RuntimeError` and nothing else. -/
theorem enter_error (n : NodeRef) (raw force : Bool) (reg : Reg) (e : Exc) (he : enter n raw force reg = .error e) :
    e = .nested := by
  unfold enter at he
  split at he
  · split at he
    · injection he with he; exact he.symm
    · cases he
  · cases he

theorem withExit_spec (root : Root) (reg reg1 : Reg) (b : Res) (hb : b.reg = reg1)
    (hx : ∀ exc, exit_ root exc reg1 = .ok reg) :
    (withExit root reg1 b).reg = reg ∧ (withExit root reg1 b).exc = b.exc := by
  unfold withExit
  rw [hb, hx b.exc]
  exact ⟨rfl, rfl⟩

/-- A piece of code (as a function of the registry) restores the registry and never trips over a missing entry. -/
def Restores (f : Reg → Res) : Prop := ∀ r, r.wf = true → (f r).reg = r ∧ (f r).exc ≠ some .internal

/-- `with n._modifying(...)` around a body that restores the registry restores the registry; the outcome is the
body's outcome or the `RuntimeError` of `enter`. -/
theorem withRun_restores (n : NodeRef) (raw force : Bool) (body : Reg → Res) (hbody : Restores body) :
    Restores (withRun n raw force body) := by
  intro reg h
  unfold withRun
  cases he : enter n raw force reg with
  | error e =>
    have := enter_error n raw force reg e he
    subst this
    simp
  | ok reg1 =>
    obtain ⟨hw, hx⟩ := enter_then_exit n raw force reg reg1 h he
    obtain ⟨hb1, hb2⟩ := hbody reg1 hw
    obtain ⟨h1, h2⟩ := withExit_spec n.root reg reg1 (body reg1) hb1 hx
    simp only
    exact ⟨h1, by rw [h2]; exact hb2⟩

theorem withRun_exc_of_ok (n : NodeRef) (raw force : Bool) (body : Reg → Res) (hbody : Restores body) (reg reg1 : Reg)
    (h : reg.wf = true) (he : enter n raw force reg = .ok reg1) :
    (withRun n raw force body reg).exc = (body reg1).exc := by
  obtain ⟨hw, hx⟩ := enter_then_exit n raw force reg reg1 h he
  obtain ⟨hb1, _⟩ := hbody reg1 hw
  unfold withRun
  simp only [he]
  exact (withExit_spec n.root reg reg1 (body reg1) hb1 hx).2

theorem tryRun_spec (c : Bool) (b : Res) (r : Reg) (h : b.reg = r ∧ b.exc ≠ some .internal) :
    (tryRun c b).reg = r ∧ (tryRun c b).exc ≠ some .internal := by
  obtain ⟨h1, h2⟩ := h
  unfold tryRun
  cases hb : b.exc with
  | none => simp only; exact ⟨h1, by rw [hb]; simp⟩
  | some x =>
    rw [hb] at h2
    cases x with
    | user k => cases k <;> cases c <;> simp [h1]
    | nested => cases c <;> simp [h1]
    | internal => exact absurd rfl h2
    | guard => cases c <;> simp [h1]

theorem unparFinish_spec (root : Root) (reg reg1 : Reg) (b : Res) (hb : b.reg = reg1)
    (hx : ∀ exc, exit_ root exc reg1 = .ok reg) :
    (unparFinish root b).reg = reg ∧ (unparFinish root b).exc = b.exc := by
  unfold unparFinish
  rw [hb, hx b.exc]
  exact ⟨rfl, rfl⟩

theorem unparRun_restores (n : NodeRef) (do1 do2 : Bool) (body1 body2 : Reg → Res) (h1 : Restores body1)
    (h2 : Restores body2) : Restores (unparRun n do1 body1 do2 body2) := by
  intro reg h
  unfold unparRun
  cases he : enter n false false reg with
  | error e =>
    have := enter_error n false false reg e he
    subst this
    cases do1 <;> cases do2 <;> simp
  | ok reg1 =>
    obtain ⟨hw, hx⟩ := enter_then_exit n false false reg reg1 h he
    obtain ⟨a1, a2⟩ := h1 reg1 hw
    obtain ⟨b1, b2⟩ := h2 reg1 hw
    cases do1
    · cases do2
      · simp
      · simp only [Bool.false_eq_true, if_false, if_true]
        obtain ⟨u1, u2⟩ := unparFinish_spec n.root reg reg1
          ⟨(body2 reg1).reg, (body2 reg1).exc, reg1 :: (body2 reg1).trace⟩ b1 hx
        exact ⟨u1, by rw [u2]; exact b2⟩
    · simp only [if_true]
      cases hx1 : (body1 reg1).exc with
      | some x =>
        simp only
        obtain ⟨u1, u2⟩ := unparFinish_spec n.root reg reg1
          ⟨(body1 reg1).reg, some x, reg1 :: (body1 reg1).trace⟩ a1 hx
        exact ⟨u1, by rw [u2]; rw [hx1] at a2; exact a2⟩
      | none =>
        simp only
        cases do2
        · simp only [Bool.false_eq_true, if_false]
          obtain ⟨u1, u2⟩ := unparFinish_spec n.root reg reg1
            ⟨(body1 reg1).reg, none, reg1 :: (body1 reg1).trace⟩ a1 hx
          exact ⟨u1, by rw [u2]; simp⟩
        · simp only [if_true, a1]
          obtain ⟨u1, u2⟩ := unparFinish_spec n.root reg reg1
            ⟨(body2 reg1).reg, (body2 reg1).exc, reg1 :: (body1 reg1).trace ++ (body2 reg1).trace⟩ b1 hx
          exact ⟨u1, by rw [u2]; exact b2⟩

theorem rootReplaceRun_restores (n : NodeRef) (g : Bool) (body : Reg → Res) (h : Restores body) :
    Restores (rootReplaceRun n g body) := by
  intro reg hr
  unfold rootReplaceRun
  cases g
  · simp only [Bool.false_eq_true, if_false]
    exact withRun_restores n false false body h reg hr
  · simp

theorem putRun_restores (n : NodeRef) (raw : RawOpt) (force guardFails : Bool) (handler rawBody : Reg → Res)
    (h1 : Restores handler) (h2 : Restores rawBody) : Restores (putRun n raw force guardFails handler rawBody) := by
  intro reg h
  have hw1 := withRun_restores n false force handler h1 reg h
  have hw2 := withRun_restores n true force rawBody h2 reg h
  unfold putRun
  cases guardFails
  · simp only [Bool.false_eq_true, if_false]
    by_cases hr : raw = .on
    · simp [hr, hw2.1, hw2.2]
    · have hr' : (raw == RawOpt.on) = false := by simp [hr]
      simp only [hr', Bool.false_eq_true, if_false]
      split
      · split
        · simp only [if_true, hw1.1]
          exact ⟨hw2.1, hw2.2⟩
        · simp only [Bool.false_eq_true, if_false]
          exact hw1
      · simp only [Bool.false_eq_true, if_false]
        exact hw1
  · simp

end Pfst.Modifying
