/-!
# Model of `_can_del_all` (src/fst/slice_stmtlike.py) and of the block grammar it protects

`_can_del_all(self, field, options)` decides whether a slice edit may remove EVERY element of a statement-like list field.
With normalisation enabled it must allow that exactly when the statement is still valid Python afterwards; with
normalisation disabled everything is allowed (intermediate invalid states are the caller's business).
-/
namespace Pfst.CanDel

inductive Kind where
  | module | funcdef | classdef | ifS | forS | whileS | withS | tryS | tryStar | matchS | handler | matchCase
  | exceptHandlers | matchCases
deriving DecidableEq, Repr

inductive Field where
  | body | handlers | orelse | finalbody | cases
deriving DecidableEq, Repr

/-- What the decision reads: the node kind and which of the optional block lists are non-empty. -/
structure Shape where
  kind : Kind
  handlers : Bool
  orelse : Bool
  finalbody : Bool
deriving DecidableEq, Repr

/-- The decision function, transcribed branch by branch. -/
def canDelAll (normSelf : Bool) (s : Shape) (f : Field) : Bool :=
  if f = .orelse || !normSelf then true
  else match f with
    | .body => s.kind = .module
    | .cases => s.kind = .matchCases
    | .finalbody => s.handlers
    | _ => s.kind = .exceptHandlers || (s.finalbody && !s.orelse)

/-- The field exists on the kind. -/
def hasField (k : Kind) (f : Field) : Bool :=
  match k, f with
  | .module, .body | .funcdef, .body | .classdef, .body | .withS, .body | .handler, .body | .matchCase, .body => true
  | .ifS, .body | .ifS, .orelse | .forS, .body | .forS, .orelse | .whileS, .body | .whileS, .orelse => true
  | .tryS, .body | .tryS, .handlers | .tryS, .orelse | .tryS, .finalbody => true
  | .tryStar, .body | .tryStar, .handlers | .tryStar, .orelse | .tryStar, .finalbody => true
  | .matchS, .cases | .exceptHandlers, .handlers | .matchCases, .cases => true
  | _, _ => false

/-- The grammar: `try` needs a handler or (a `finally` and no `else`); the other optional lists are free. -/
def valid (s : Shape) : Bool :=
  match s.kind with
  | .tryS | .tryStar => s.handlers || (s.finalbody && !s.orelse)
  | _ => true

/-- The shape after the field has been emptied (`body` and `cases` are not part of the shape: see `validAfter`). -/
def emptied (s : Shape) (f : Field) : Shape :=
  match f with
  | .handlers => { s with handlers := false }
  | .orelse => { s with orelse := false }
  | .finalbody => { s with finalbody := false }
  | _ => s

/-- Is the statement valid Python once every element of `f` is gone?  A block body may be empty only in a module, a
`match` needs a case, the special containers `_ExceptHandlers` / `_match_cases` may be empty. -/
def validAfter (s : Shape) (f : Field) : Bool :=
  match f with
  | .body => s.kind = .module
  | .cases => s.kind = .matchCases
  | _ => valid (emptied s f)

end Pfst.CanDel
