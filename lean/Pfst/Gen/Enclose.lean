-- GENERATED on every run by harness/c09b.py (extract_c09b) from /repo: kind sets tested by FST._is_atom,
-- FST._is_enclosed_or_line, FST._is_enclosed_in_parents (module-level sets read; inline isinstance tuples recovered by
-- evaluating the real function on a mock node of every kind).  The committed copy corresponds to the pinned tree.
import Pfst.Gen.Precedence
namespace Pfst.Gen.Enclose
open Pfst.Gen.Precedence

def atomInnate : List K := [.«Add», .«And», .«AnnAssign», .«Assert», .«Assign», .«AsyncFor», .«AsyncFunctionDef», .«AsyncWith», .«AugAssign», .«BitAnd», .«BitOr», .«BitXor», .«Break», .«ClassDef», .«Continue», .«Del», .«Delete», .«Dict», .«DictComp», .«Div», .«ExceptHandler», .«Expr», .«Expression», .«FloorDiv», .«For», .«FunctionDef», .«FunctionType», .«GeneratorExp», .«Global», .«If», .«Import», .«ImportFrom», .«Interactive», .«Invert», .«LShift», .«List», .«ListComp», .«Load», .«MatMult», .«Match», .«MatchMapping», .«MatchSingleton», .«MatchValue», .«Mod», .«Module», .«Mult», .«Name», .«Nonlocal», .«Not», .«Or», .«Pass», .«Pow», .«RShift», .«Raise», .«Return», .«Set», .«SetComp», .«Store», .«Sub», .«Try», .«TryStar», .«TypeAlias», .«TypeIgnore», .«UAdd», .«USub», .«While», .«With», .«match_case»]
def cmpopOneWord : List K := [.«Eq», .«Gt», .«GtE», .«In», .«Is», .«Lt», .«LtE», .«NotEq»]
def cmpopTwoWord : List K := [.«IsNot», .«NotIn»]
def exprOrPattern : List K := [.«Attribute», .«Await», .«BinOp», .«BoolOp», .«Call», .«Compare», .«Constant», .«Dict», .«DictComp», .«FormattedValue», .«GeneratorExp», .«IfExp», .«Interpolation», .«JoinedStr», .«Lambda», .«List», .«ListComp», .«MatchAs», .«MatchClass», .«MatchMapping», .«MatchOr», .«MatchSequence», .«MatchSingleton», .«MatchStar», .«MatchValue», .«Name», .«NamedExpr», .«Set», .«SetComp», .«Slice», .«Starred», .«Subscript», .«TemplateStr», .«Tuple», .«UnaryOp», .«Yield», .«YieldFrom»]
def atomUnencl : List K := [.«Attribute», .«Call», .«IsNot», .«JoinedStr», .«MatchClass», .«MatchStar», .«NotIn», .«ParamSpec», .«Subscript», .«TemplateStr», .«TypeVar», .«TypeVarTuple», .«alias», .«arg», .«arguments», .«comprehension», .«keyword», .«withitem»]
def atomCantPar : List K := [.«ParamSpec», .«TypeVar», .«TypeVarTuple», .«alias», .«arg», .«arguments», .«comprehension», .«keyword»]
def eolAlways : List K := [.«Add», .«And», .«BitAnd», .«BitOr», .«BitXor», .«Del», .«Dict», .«DictComp», .«Div», .«FloorDiv», .«FormattedValue», .«GeneratorExp», .«Interpolation», .«Invert», .«LShift», .«List», .«ListComp», .«Load», .«MatMult», .«MatchMapping», .«MatchSingleton», .«Mod», .«Mult», .«Name», .«Not», .«Or», .«ParamSpec», .«Pow», .«RShift», .«Set», .«SetComp», .«Slice», .«Store», .«Sub», .«TypeIgnore», .«TypeVar», .«TypeVarTuple», .«UAdd», .«USub», .«keyword»]
def eolBlock : List K := [.«AsyncFor», .«AsyncFunctionDef», .«ClassDef», .«ExceptHandler», .«For», .«FunctionDef», .«If», .«Interactive», .«Match», .«Module», .«Try», .«TryStar», .«While», .«match_case»]
def withKinds : List K := [.«AsyncWith», .«With»]
def exprContext : List K := [.«Del», .«Load», .«Store»]
def exprKinds : List K := [.«Attribute», .«Await», .«BinOp», .«BoolOp», .«Call», .«Compare», .«Constant», .«Dict», .«DictComp», .«FormattedValue», .«GeneratorExp», .«IfExp», .«Interpolation», .«JoinedStr», .«Lambda», .«List», .«ListComp», .«Name», .«NamedExpr», .«Set», .«SetComp», .«Slice», .«Starred», .«Subscript», .«TemplateStr», .«Tuple», .«UnaryOp», .«Yield», .«YieldFrom»]

/-- `_is_enclosed_in_parents`: (parent kind, field of the child) ↦ 1 encloses, 2 stops with False, 3 ImportFrom names
parentheses decide, 4 With items parentheses decide, 0 look at tuple / match-sequence delimiters and grouping
parentheses of the parent, then go on up -/
def encTable : List (K × F × Nat) := [
  (.«AnnAssign», .«target», 2),
  (.«AnnAssign», .«annotation», 2),
  (.«AnnAssign», .«value», 2),
  (.«Assert», .«test», 2),
  (.«Assert», .«msg», 2),
  (.«Assign», .«targets», 2),
  (.«Assign», .«value», 2),
  (.«AsyncFor», .«target», 2),
  (.«AsyncFor», .«iter», 2),
  (.«AsyncFor», .«body», 2),
  (.«AsyncFor», .«orelse», 2),
  (.«AsyncFunctionDef», .«decorator_list», 2),
  (.«AsyncFunctionDef», .«type_params», 1),
  (.«AsyncFunctionDef», .«args», 1),
  (.«AsyncFunctionDef», .«returns», 2),
  (.«AsyncFunctionDef», .«body», 2),
  (.«AsyncWith», .«items», 4),
  (.«AsyncWith», .«body», 4),
  (.«Attribute», .«value», 0),
  (.«Attribute», .«ctx», 0),
  (.«AugAssign», .«target», 2),
  (.«AugAssign», .«op», 2),
  (.«AugAssign», .«value», 2),
  (.«Await», .«value», 0),
  (.«BinOp», .«left», 0),
  (.«BinOp», .«op», 0),
  (.«BinOp», .«right», 0),
  (.«BoolOp», .«op», 0),
  (.«BoolOp», .«values», 0),
  (.«Call», .«func», 0),
  (.«Call», .«args», 1),
  (.«Call», .«keywords», 1),
  (.«ClassDef», .«decorator_list», 2),
  (.«ClassDef», .«type_params», 1),
  (.«ClassDef», .«bases», 1),
  (.«ClassDef», .«keywords», 1),
  (.«ClassDef», .«body», 2),
  (.«Compare», .«left», 0),
  (.«Compare», .«ops», 0),
  (.«Compare», .«comparators», 0),
  (.«Delete», .«targets», 2),
  (.«Dict», .«keys», 1),
  (.«Dict», .«values», 1),
  (.«DictComp», .«key», 1),
  (.«DictComp», .«value», 1),
  (.«DictComp», .«generators», 1),
  (.«ExceptHandler», .«type», 2),
  (.«ExceptHandler», .«body», 2),
  (.«Expr», .«value», 2),
  (.«Expression», .«body», 2),
  (.«For», .«target», 2),
  (.«For», .«iter», 2),
  (.«For», .«body», 2),
  (.«For», .«orelse», 2),
  (.«FormattedValue», .«value», 1),
  (.«FormattedValue», .«format_spec», 1),
  (.«FunctionDef», .«decorator_list», 2),
  (.«FunctionDef», .«type_params», 1),
  (.«FunctionDef», .«args», 1),
  (.«FunctionDef», .«returns», 2),
  (.«FunctionDef», .«body», 2),
  (.«FunctionType», .«argtypes», 2),
  (.«FunctionType», .«returns», 2),
  (.«GeneratorExp», .«elt», 1),
  (.«GeneratorExp», .«generators», 1),
  (.«If», .«test», 2),
  (.«If», .«body», 2),
  (.«If», .«orelse», 2),
  (.«IfExp», .«body», 0),
  (.«IfExp», .«test», 0),
  (.«IfExp», .«orelse», 0),
  (.«Import», .«names», 2),
  (.«ImportFrom», .«names», 3),
  (.«Interactive», .«body», 2),
  (.«Interpolation», .«value», 1),
  (.«Interpolation», .«format_spec», 1),
  (.«JoinedStr», .«values», 1),
  (.«Lambda», .«args», 0),
  (.«Lambda», .«body», 0),
  (.«List», .«elts», 1),
  (.«List», .«ctx», 1),
  (.«ListComp», .«elt», 1),
  (.«ListComp», .«generators», 1),
  (.«Match», .«subject», 2),
  (.«Match», .«cases», 2),
  (.«MatchAs», .«pattern», 0),
  (.«MatchClass», .«cls», 0),
  (.«MatchClass», .«patterns», 1),
  (.«MatchClass», .«kwd_patterns», 1),
  (.«MatchMapping», .«keys», 1),
  (.«MatchMapping», .«patterns», 1),
  (.«MatchOr», .«patterns», 0),
  (.«MatchSequence», .«patterns», 0),
  (.«MatchValue», .«value», 0),
  (.«Module», .«body», 2),
  (.«Name», .«ctx», 0),
  (.«NamedExpr», .«target», 0),
  (.«NamedExpr», .«value», 0),
  (.«ParamSpec», .«default_value», 0),
  (.«Raise», .«exc», 2),
  (.«Raise», .«cause», 2),
  (.«Return», .«value», 2),
  (.«Set», .«elts», 1),
  (.«SetComp», .«elt», 1),
  (.«SetComp», .«generators», 1),
  (.«Slice», .«lower», 0),
  (.«Slice», .«upper», 0),
  (.«Slice», .«step», 0),
  (.«Starred», .«value», 0),
  (.«Starred», .«ctx», 0),
  (.«Subscript», .«value», 0),
  (.«Subscript», .«slice», 1),
  (.«Subscript», .«ctx», 0),
  (.«TemplateStr», .«values», 1),
  (.«Try», .«body», 2),
  (.«Try», .«handlers», 2),
  (.«Try», .«orelse», 2),
  (.«Try», .«finalbody», 2),
  (.«TryStar», .«body», 2),
  (.«TryStar», .«handlers», 2),
  (.«TryStar», .«orelse», 2),
  (.«TryStar», .«finalbody», 2),
  (.«Tuple», .«elts», 0),
  (.«Tuple», .«ctx», 0),
  (.«TypeAlias», .«name», 2),
  (.«TypeAlias», .«type_params», 1),
  (.«TypeAlias», .«value», 2),
  (.«TypeVar», .«bound», 0),
  (.«TypeVar», .«default_value», 0),
  (.«TypeVarTuple», .«default_value», 0),
  (.«UnaryOp», .«op», 0),
  (.«UnaryOp», .«operand», 0),
  (.«While», .«test», 2),
  (.«While», .«body», 2),
  (.«While», .«orelse», 2),
  (.«With», .«items», 4),
  (.«With», .«body», 4),
  (.«Yield», .«value», 0),
  (.«YieldFrom», .«value», 0),
  (.«_Assign_targets», .«targets», 0),
  (.«_ExceptHandlers», .«handlers», 0),
  (.«_aliases», .«names», 0),
  (.«_arglikes», .«arglikes», 1),
  (.«_comprehension_ifs», .«ifs», 1),
  (.«_comprehensions», .«generators», 0),
  (.«_decorator_list», .«decorator_list», 0),
  (.«_match_cases», .«cases», 0),
  (.«_pattern_attrlikes», .«patterns», 0),
  (.«_pattern_attrlikes», .«kwd_patterns», 0),
  (.«_type_params», .«type_params», 0),
  (.«_withitems», .«items», 0),
  (.«arg», .«annotation», 0),
  (.«arguments», .«posonlyargs», 0),
  (.«arguments», .«args», 0),
  (.«arguments», .«defaults», 0),
  (.«arguments», .«vararg», 0),
  (.«arguments», .«kwonlyargs», 0),
  (.«arguments», .«kw_defaults», 0),
  (.«arguments», .«kwarg», 0),
  (.«comprehension», .«target», 0),
  (.«comprehension», .«iter», 0),
  (.«comprehension», .«ifs», 0),
  (.«keyword», .«value», 0),
  (.«match_case», .«pattern», 2),
  (.«match_case», .«guard», 2),
  (.«match_case», .«body», 2),
  (.«withitem», .«context_expr», 0),
  (.«withitem», .«optional_vars», 0)
]

def kindOfName (s : String) : Option K :=
  match s with
  | "Add" => some .«Add»
  | "And" => some .«And»
  | "AnnAssign" => some .«AnnAssign»
  | "Assert" => some .«Assert»
  | "Assign" => some .«Assign»
  | "AsyncFor" => some .«AsyncFor»
  | "AsyncFunctionDef" => some .«AsyncFunctionDef»
  | "AsyncWith" => some .«AsyncWith»
  | "Attribute" => some .«Attribute»
  | "AugAssign" => some .«AugAssign»
  | "Await" => some .«Await»
  | "BinOp" => some .«BinOp»
  | "BitAnd" => some .«BitAnd»
  | "BitOr" => some .«BitOr»
  | "BitXor" => some .«BitXor»
  | "BoolOp" => some .«BoolOp»
  | "Break" => some .«Break»
  | "Call" => some .«Call»
  | "ClassDef" => some .«ClassDef»
  | "Compare" => some .«Compare»
  | "Constant" => some .«Constant»
  | "Continue" => some .«Continue»
  | "Del" => some .«Del»
  | "Delete" => some .«Delete»
  | "Dict" => some .«Dict»
  | "DictComp" => some .«DictComp»
  | "Div" => some .«Div»
  | "Eq" => some .«Eq»
  | "ExceptHandler" => some .«ExceptHandler»
  | "Expr" => some .«Expr»
  | "Expression" => some .«Expression»
  | "FloorDiv" => some .«FloorDiv»
  | "For" => some .«For»
  | "FormattedValue" => some .«FormattedValue»
  | "FunctionDef" => some .«FunctionDef»
  | "FunctionType" => some .«FunctionType»
  | "GeneratorExp" => some .«GeneratorExp»
  | "Global" => some .«Global»
  | "Gt" => some .«Gt»
  | "GtE" => some .«GtE»
  | "If" => some .«If»
  | "IfExp" => some .«IfExp»
  | "Import" => some .«Import»
  | "ImportFrom" => some .«ImportFrom»
  | "In" => some .«In»
  | "Interactive" => some .«Interactive»
  | "Interpolation" => some .«Interpolation»
  | "Invert" => some .«Invert»
  | "Is" => some .«Is»
  | "IsNot" => some .«IsNot»
  | "JoinedStr" => some .«JoinedStr»
  | "LShift" => some .«LShift»
  | "Lambda" => some .«Lambda»
  | "List" => some .«List»
  | "ListComp" => some .«ListComp»
  | "Load" => some .«Load»
  | "Lt" => some .«Lt»
  | "LtE" => some .«LtE»
  | "MatMult" => some .«MatMult»
  | "Match" => some .«Match»
  | "MatchAs" => some .«MatchAs»
  | "MatchClass" => some .«MatchClass»
  | "MatchMapping" => some .«MatchMapping»
  | "MatchOr" => some .«MatchOr»
  | "MatchSequence" => some .«MatchSequence»
  | "MatchSingleton" => some .«MatchSingleton»
  | "MatchStar" => some .«MatchStar»
  | "MatchValue" => some .«MatchValue»
  | "Mod" => some .«Mod»
  | "Module" => some .«Module»
  | "Mult" => some .«Mult»
  | "Name" => some .«Name»
  | "NamedExpr" => some .«NamedExpr»
  | "Nonlocal" => some .«Nonlocal»
  | "Not" => some .«Not»
  | "NotEq" => some .«NotEq»
  | "NotIn" => some .«NotIn»
  | "Or" => some .«Or»
  | "ParamSpec" => some .«ParamSpec»
  | "Pass" => some .«Pass»
  | "Pow" => some .«Pow»
  | "RShift" => some .«RShift»
  | "Raise" => some .«Raise»
  | "Return" => some .«Return»
  | "Set" => some .«Set»
  | "SetComp" => some .«SetComp»
  | "Slice" => some .«Slice»
  | "Starred" => some .«Starred»
  | "Store" => some .«Store»
  | "Sub" => some .«Sub»
  | "Subscript" => some .«Subscript»
  | "TemplateStr" => some .«TemplateStr»
  | "Try" => some .«Try»
  | "TryStar" => some .«TryStar»
  | "Tuple" => some .«Tuple»
  | "TypeAlias" => some .«TypeAlias»
  | "TypeIgnore" => some .«TypeIgnore»
  | "TypeVar" => some .«TypeVar»
  | "TypeVarTuple" => some .«TypeVarTuple»
  | "UAdd" => some .«UAdd»
  | "USub" => some .«USub»
  | "UnaryOp" => some .«UnaryOp»
  | "While" => some .«While»
  | "With" => some .«With»
  | "Yield" => some .«Yield»
  | "YieldFrom" => some .«YieldFrom»
  | "_Assign_targets" => some .«_Assign_targets»
  | "_ExceptHandlers" => some .«_ExceptHandlers»
  | "_aliases" => some .«_aliases»
  | "_arglikes" => some .«_arglikes»
  | "_comprehension_ifs" => some .«_comprehension_ifs»
  | "_comprehensions" => some .«_comprehensions»
  | "_decorator_list" => some .«_decorator_list»
  | "_match_cases" => some .«_match_cases»
  | "_pattern_attrlikes" => some .«_pattern_attrlikes»
  | "_type_params" => some .«_type_params»
  | "_withitems" => some .«_withitems»
  | "alias" => some .«alias»
  | "arg" => some .«arg»
  | "arguments" => some .«arguments»
  | "comprehension" => some .«comprehension»
  | "keyword" => some .«keyword»
  | "match_case" => some .«match_case»
  | "withitem" => some .«withitem»
  | _ => none

def fieldOfName (s : String) : Option F :=
  match s with
  | "annotation" => some .«annotation»
  | "arglikes" => some .«arglikes»
  | "args" => some .«args»
  | "argtypes" => some .«argtypes»
  | "bases" => some .«bases»
  | "body" => some .«body»
  | "bound" => some .«bound»
  | "cases" => some .«cases»
  | "cause" => some .«cause»
  | "cls" => some .«cls»
  | "comparators" => some .«comparators»
  | "context_expr" => some .«context_expr»
  | "ctx" => some .«ctx»
  | "decorator_list" => some .«decorator_list»
  | "default_value" => some .«default_value»
  | "defaults" => some .«defaults»
  | "elt" => some .«elt»
  | "elts" => some .«elts»
  | "exc" => some .«exc»
  | "finalbody" => some .«finalbody»
  | "format_spec" => some .«format_spec»
  | "func" => some .«func»
  | "generators" => some .«generators»
  | "guard" => some .«guard»
  | "handlers" => some .«handlers»
  | "ifs" => some .«ifs»
  | "items" => some .«items»
  | "iter" => some .«iter»
  | "key" => some .«key»
  | "keys" => some .«keys»
  | "keywords" => some .«keywords»
  | "kw_defaults" => some .«kw_defaults»
  | "kwarg" => some .«kwarg»
  | "kwd_patterns" => some .«kwd_patterns»
  | "kwonlyargs" => some .«kwonlyargs»
  | "left" => some .«left»
  | "lower" => some .«lower»
  | "msg" => some .«msg»
  | "name" => some .«name»
  | "names" => some .«names»
  | "op" => some .«op»
  | "operand" => some .«operand»
  | "ops" => some .«ops»
  | "optional_vars" => some .«optional_vars»
  | "orelse" => some .«orelse»
  | "pattern" => some .«pattern»
  | "patterns" => some .«patterns»
  | "posonlyargs" => some .«posonlyargs»
  | "returns" => some .«returns»
  | "right" => some .«right»
  | "slice" => some .«slice»
  | "step" => some .«step»
  | "subject" => some .«subject»
  | "target" => some .«target»
  | "targets" => some .«targets»
  | "test" => some .«test»
  | "type" => some .«type»
  | "type_params" => some .«type_params»
  | "upper" => some .«upper»
  | "value" => some .«value»
  | "values" => some .«values»
  | "vararg" => some .«vararg»
  | _ => none

end Pfst.Gen.Enclose
