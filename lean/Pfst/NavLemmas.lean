import Pfst.Walk
/-!
# Pfst.NavLemmas — sibling navigation, stepping and path theorems for the `Pfst.Walk` model (C14)
-/
namespace Pfst.Walk

/-! ## basic facts on `pre` / `preL` -/

theorem nav_pre_eq (b : Bool) (n : Node) : pre b n = n :: preL b n.kids := by
  cases n; simp [pre, Node.kids]

theorem preL_nil (b : Bool) : preL b [] = [] := by simp [preL]

theorem preL_cons_false (k : Node) (ks : List Node) :
    preL false (k :: ks) = pre false k ++ preL false ks := by simp [preL]

theorem preL_cons_true (k : Node) (ks : List Node) :
    preL true (k :: ks) = preL true ks ++ pre true k := by simp [preL]

theorem nav_preL_false_append (a b : List Node) : preL false (a ++ b) = preL false a ++ preL false b := by
  induction a with
  | nil => simp [preL_nil]
  | cons x xs ih => simp [preL_cons_false, ih]

theorem preL_true_append (a b : List Node) : preL true (a ++ b) = preL true b ++ preL true a := by
  induction a with
  | nil => simp [preL_nil]
  | cons x xs ih => simp [preL_cons_true, ih]

theorem preL_true_reverse_cons (x : Node) (xs : List Node) :
    preL true (x :: xs).reverse = pre true x ++ preL true xs.reverse := by
  simp [preL_true_append, preL_cons_true, preL_nil]

mutual
theorem pre_length (b : Bool) : (n : Node) → (pre b n).length = size n
  | .mk i l c k ks => by simp [pre, size, preL_length b ks]; omega
theorem preL_length (b : Bool) : (ks : List Node) → (preL b ks).length = sizeL ks
  | [] => by simp [preL, sizeL]
  | k :: ks => by
    cases b <;> simp [preL, sizeL, pre_length _ k, preL_length _ ks]
    omega
end

theorem mem_preL_of_mem_kid {k : Node} {ks : List Node} (hk : k ∈ ks) :
    ∀ x ∈ pre false k, x ∈ preL false ks := by
  induction ks with
  | nil => cases hk
  | cons y ys ih =>
    intro x hx
    rw [preL_cons_false]
    cases hk with
    | head => exact List.mem_append_left _ hx
    | tail _ hk => exact List.mem_append_right _ (ih hk x hx)

theorem exists_kid_of_mem_preL {x : Node} {ks : List Node} (hx : x ∈ preL false ks) :
    ∃ k, k ∈ ks ∧ x ∈ pre false k := by
  induction ks with
  | nil => simp [preL_nil] at hx
  | cons y ys ih =>
    rw [preL_cons_false] at hx
    cases List.mem_append.mp hx with
    | inl h => exact ⟨y, List.mem_cons_self, h⟩
    | inr h =>
      obtain ⟨k, hk, hxk⟩ := ih h
      exact ⟨k, List.mem_cons_of_mem _ hk, hxk⟩

theorem size_le_sizeL_of_mem {k : Node} {ks : List Node} (hk : k ∈ ks) : size k ≤ sizeL ks := by
  induction ks with
  | nil => cases hk
  | cons y ys ih =>
    cases hk with
    | head => simp [sizeL]
    | tail _ hk => have := ih hk; simp [sizeL]; omega

/-! ## `iter` -/

theorem iter_none (f : Loc → Option Loc) (n : Nat) : iter f n none = [] := by
  cases n <;> rfl

/-! ## A. sibling navigation -/

theorem nextFrom_some (p : Node → Bool) (par : Node) (c : List Frame) :
    ∀ (ls rs : List Node) (m : Loc), nextFrom p par c ls rs = some m →
      ∃ sk rs', rs = sk ++ m.focus :: rs' ∧ (∀ x ∈ sk, p x = false) ∧ p m.focus = true ∧
        m.ctx = ⟨par, sk.reverse ++ ls, rs'⟩ :: c
  | _, [], m, h => by simp [nextFrom] at h
  | ls, r :: rs, m, h => by
    rw [nextFrom] at h
    by_cases hr : p r = true
    · simp [hr] at h; subst h
      exact ⟨[], rs, rfl, by simp, hr, rfl⟩
    · have hr' : p r = false := by simpa using hr
      simp [hr'] at h
      obtain ⟨sk, rs', h1, h2, h3, h4⟩ := nextFrom_some p par c (r :: ls) rs m h
      refine ⟨r :: sk, rs', by simp [h1], ?_, h3, ?_⟩
      · intro x hx
        cases hx with
        | head => exact hr'
        | tail _ hx => exact h2 x hx
      · simp [h4]

theorem nextFrom_none (p : Node → Bool) (par : Node) (c : List Frame) (ls rs : List Node) :
    nextFrom p par c ls rs = none ↔ ∀ x ∈ rs, p x = false := by
  induction rs generalizing ls with
  | nil => simp [nextFrom]
  | cons r rs ih =>
    rw [nextFrom]
    by_cases hr : p r = true
    · simp [hr]
    · have hr' : p r = false := by simpa using hr
      simp [hr', ih]

theorem prevFrom_some (p : Node → Bool) (par : Node) (c : List Frame) :
    ∀ (ls rs : List Node) (m : Loc), prevFrom p par c ls rs = some m →
      ∃ sk ls', ls = sk ++ m.focus :: ls' ∧ (∀ x ∈ sk, p x = false) ∧ p m.focus = true ∧
        m.ctx = ⟨par, ls', sk.reverse ++ rs⟩ :: c
  | [], _, m, h => by simp [prevFrom] at h
  | l :: ls, rs, m, h => by
    rw [prevFrom] at h
    by_cases hl : p l = true
    · simp [hl] at h; subst h
      exact ⟨[], ls, rfl, by simp, hl, rfl⟩
    · have hl' : p l = false := by simpa using hl
      simp [hl'] at h
      obtain ⟨sk, ls', h1, h2, h3, h4⟩ := prevFrom_some p par c ls (l :: rs) m h
      refine ⟨l :: sk, ls', by simp [h1], ?_, h3, ?_⟩
      · intro x hx
        cases hx with
        | head => exact hl'
        | tail _ hx => exact h2 x hx
      · simp [h4]

theorem prevFrom_none (p : Node → Bool) (par : Node) (c : List Frame) (ls rs : List Node) :
    prevFrom p par c ls rs = none ↔ ∀ x ∈ ls, p x = false := by
  induction ls generalizing rs with
  | nil => simp [prevFrom]
  | cons l ls ih =>
    rw [prevFrom]
    by_cases hl : p l = true
    · simp [hl]
    · have hl' : p l = false := by simpa using hl
      simp [hl', ih]

theorem prevFrom_skip (p : Node → Bool) (par : Node) (c : List Frame) (sk : List Node)
    (hsk : ∀ x ∈ sk, p x = false) (ls rs : List Node) :
    prevFrom p par c (sk.reverse ++ ls) rs = prevFrom p par c ls (sk ++ rs) := by
  induction sk generalizing ls with
  | nil => rfl
  | cons x sk ih =>
    have hx : p x = false := hsk x List.mem_cons_self
    have := ih (fun y hy => hsk y (List.mem_cons_of_mem _ hy)) (x :: ls)
    simp only [List.reverse_cons, List.append_assoc, List.cons_append, List.nil_append]
    rw [this, prevFrom]; simp [hx]

theorem nextFrom_skip (p : Node → Bool) (par : Node) (c : List Frame) (sk : List Node)
    (hsk : ∀ x ∈ sk, p x = false) (ls rs : List Node) :
    nextFrom p par c ls (sk.reverse ++ rs) = nextFrom p par c (sk ++ ls) rs := by
  induction sk generalizing rs with
  | nil => rfl
  | cons x sk ih =>
    have hx : p x = false := hsk x List.mem_cons_self
    have := ih (fun y hy => hsk y (List.mem_cons_of_mem _ hy)) (x :: rs)
    simp only [List.reverse_cons, List.append_assoc, List.cons_append, List.nil_append]
    rw [this, nextFrom]; simp [hx]

theorem next_prev_inverse (p : Node → Bool) (a b : Loc) (ha : p a.focus = true)
    (h : next p a = some b) : prev p b = some a := by
  obtain ⟨f, ctx⟩ := a
  cases ctx with
  | nil => simp [next] at h
  | cons fr c =>
    obtain ⟨par, ls, rs⟩ := fr
    simp only [next] at h
    obtain ⟨sk, rs', h1, h2, h3, h4⟩ := nextFrom_some p par c (f :: ls) rs b h
    obtain ⟨g, bctx⟩ := b
    simp only at h1 h3 h4 ha
    subst h4 h1
    simp only [prev]
    rw [prevFrom_skip p par c sk h2, prevFrom]
    simp [ha]

theorem prev_next_inverse (p : Node → Bool) (a b : Loc) (ha : p a.focus = true)
    (h : prev p a = some b) : next p b = some a := by
  obtain ⟨f, ctx⟩ := a
  cases ctx with
  | nil => simp [prev] at h
  | cons fr c =>
    obtain ⟨par, ls, rs⟩ := fr
    simp only [prev] at h
    obtain ⟨sk, ls', h1, h2, h3, h4⟩ := prevFrom_some p par c ls (f :: rs) b h
    obtain ⟨g, bctx⟩ := b
    simp only at h1 h3 h4 ha
    subst h4 h1
    simp only [next]
    rw [nextFrom_skip p par c sk h2, nextFrom]
    simp [ha]

/-- iterating `next p` from the result of `nextFrom` enumerates the remaining siblings satisfying `p` -/
theorem iter_next_nextFrom (p : Node → Bool) (par : Node) (c : List Frame) :
    ∀ (rs ls : List Node) (n : Nat), rs.length ≤ n →
      iter (next p) n (nextFrom p par c ls rs) = rs.filter p
  | [], ls, n, _ => by simp [nextFrom, iter_none]
  | r :: rs, ls, n, hn => by
    rw [nextFrom]
    by_cases hr : p r = true
    · cases n with
      | zero => simp at hn
      | succ n =>
        simp only [hr, if_true, iter, next, List.filter_cons]
        rw [iter_next_nextFrom p par c rs (r :: ls) n (by simpa using hn)]
    · have hr' : p r = false := by simpa using hr
      simp only [hr', List.filter_cons]
      simp
      exact iter_next_nextFrom p par c rs (r :: ls) n (by simp at hn; omega)

theorem iter_prev_prevFrom (p : Node → Bool) (par : Node) (c : List Frame) :
    ∀ (ls rs : List Node) (n : Nat), ls.length ≤ n →
      iter (prev p) n (prevFrom p par c ls rs) = ls.filter p
  | [], rs, n, _ => by simp [prevFrom, iter_none]
  | l :: ls, rs, n, hn => by
    rw [prevFrom]
    by_cases hl : p l = true
    · cases n with
      | zero => simp at hn
      | succ n =>
        simp only [hl, if_true, iter, prev, List.filter_cons]
        rw [iter_prev_prevFrom p par c ls (l :: rs) n (by simpa using hn)]
    · have hl' : p l = false := by simpa using hl
      simp only [hl', List.filter_cons]
      simp
      exact iter_prev_prevFrom p par c ls (l :: rs) n (by simp at hn; omega)

theorem children_fwd_nodes (p : Node → Bool) (l : Loc) :
    iter (fun c => nextChild p l (some c)) l.focus.kids.length (nextChild p l none)
      = l.focus.kids.filter p :=
  iter_next_nextFrom p l.focus l.ctx l.focus.kids [] _ (Nat.le_refl _)

theorem children_fwd (p : Node → Bool) (l : Loc) :
    ids (iter (fun c => nextChild p l (some c)) l.focus.kids.length (nextChild p l none))
      = ids (l.focus.kids.filter p) := by
  rw [children_fwd_nodes]

theorem children_back_nodes (p : Node → Bool) (l : Loc) :
    iter (fun c => prevChild p l (some c)) l.focus.kids.length (prevChild p l none)
      = l.focus.kids.reverse.filter p :=
  iter_prev_prevFrom p l.focus l.ctx l.focus.kids.reverse [] _ (by simp)

theorem children_back (p : Node → Bool) (l : Loc) :
    ids (iter (fun c => prevChild p l (some c)) l.focus.kids.length (prevChild p l none))
      = ids (l.focus.kids.reverse.filter p) := by
  rw [children_back_nodes]

/-! ## B. stepping -/

/-- `o` is the first location in the sequence `s` whose focus satisfies `p` (`r` = remainder after a location) -/
def FirstSat (p : Node → Bool) (r : Loc → List Node) (s : List Node) : Option Loc → Prop
  | some m => ∃ sk, s = sk ++ m.focus :: r m ∧ (∀ x ∈ sk, p x = false) ∧ p m.focus = true
  | none => ∀ x ∈ s, p x = false

theorem FirstSat.cons {p : Node → Bool} {r : Loc → List Node} {s : List Node} {o : Option Loc}
    (x : Node) (hx : p x = false) (h : FirstSat p r s o) : FirstSat p r (x :: s) o := by
  cases o with
  | none =>
    intro y hy
    cases hy with
    | head => exact hx
    | tail _ hy => exact h y hy
  | some m =>
    obtain ⟨sk, h1, h2, h3⟩ := h
    refine ⟨x :: sk, by simp [h1], ?_, h3⟩
    intro y hy
    cases hy with
    | head => exact hx
    | tail _ hy => exact h2 y hy

theorem firstChild_true_some (l ch : Loc) (h : firstChild (fun _ => true) l = some ch) :
    rest l = ch.focus :: rest ch := by
  unfold firstChild at h
  cases hk : l.focus.kids with
  | nil => rw [hk] at h; simp [nextFrom] at h
  | cons k ks =>
    rw [hk] at h; simp [nextFrom] at h; subst h
    simp [rest, restUp, hk, preL_cons_false, nav_pre_eq]

theorem firstChild_true_none (l : Loc) : firstChild (fun _ => true) l = none ↔ l.focus.kids = [] := by
  unfold firstChild
  cases hk : l.focus.kids with
  | nil => simp [nextFrom]
  | cons k ks => simp [nextFrom]

theorem ascendNext_some : ∀ (f : Node) (ctx : List Frame) (n : Loc),
    ascendNext f ctx = some n → restUp ctx = n.focus :: rest n
  | _, [], n, h => by simp [ascendNext] at h
  | f, ⟨par, ls, r :: rs⟩ :: c, n, h => by
    simp [ascendNext] at h; subst h
    simp [restUp, rest, preL_cons_false, nav_pre_eq]
  | f, ⟨par, ls, []⟩ :: c, n, h => by
    simp [ascendNext] at h
    simp [restUp, preL_nil]
    exact ascendNext_some par c n h

theorem ascendNext_none : ∀ (f : Node) (ctx : List Frame), ascendNext f ctx = none → restUp ctx = []
  | _, [], _ => by simp [restUp]
  | f, ⟨par, ls, r :: rs⟩ :: c, h => by simp [ascendNext] at h
  | f, ⟨par, ls, []⟩ :: c, h => by
    simp [ascendNext] at h
    simp [restUp, preL_nil]
    exact ascendNext_none par c h

theorem fwdLoop_spec (p : Node → Bool) : ∀ (fuel : Nat) (l : Loc),
    (l.focus :: rest l).length ≤ fuel → FirstSat p rest (l.focus :: rest l) (fwdLoop p fuel l)
  | 0, l, h => by simp at h
  | fuel + 1, l, h => by
    rw [fwdLoop]
    by_cases hp : p l.focus = true
    · simp only [hp, if_true]
      exact ⟨[], rfl, by simp, hp⟩
    · have hp' : p l.focus = false := by simpa using hp
      simp only [hp']
      cases hfc : firstChild (fun _ => true) l with
      | some ch =>
        have hr := firstChild_true_some l ch hfc
        simp only [Bool.false_eq_true, if_false]
        rw [hr]
        apply FirstSat.cons _ hp'
        apply fwdLoop_spec p fuel ch
        rw [hr] at h; simpa using h
      | none =>
        have hk := (firstChild_true_none l).mp hfc
        have hr : rest l = restUp l.ctx := by simp [rest, hk, preL_nil]
        simp only [Bool.false_eq_true, if_false]
        rw [hr]
        apply FirstSat.cons _ hp'
        cases han : ascendNext l.focus l.ctx with
        | none =>
          rw [ascendNext_none _ _ han]
          intro x hx; cases hx
        | some n =>
          have hn := ascendNext_some _ _ _ han
          simp only []
          rw [hn]
          apply fwdLoop_spec p fuel n
          rw [hr, hn] at h; simpa using h

theorem stepFwd_spec (p : Node → Bool) (l : Loc) : FirstSat p rest (rest l) (stepFwd p true l) := by
  unfold stepFwd
  simp only [if_true]
  cases hfc : firstChild (fun _ => true) l with
  | some ch =>
    have hr := firstChild_true_some l ch hfc
    simp only []
    rw [hr]
    exact fwdLoop_spec p _ ch (Nat.le_refl _)
  | none =>
    have hk := (firstChild_true_none l).mp hfc
    have hr : rest l = restUp l.ctx := by simp [rest, hk, preL_nil]
    simp only []
    cases han : ascendNext l.focus l.ctx with
    | none =>
      rw [hr, ascendNext_none _ _ han]
      intro x hx; cases hx
    | some n =>
      have hn := ascendNext_some _ _ _ han
      simp only []
      rw [hr, hn]
      exact fwdLoop_spec p _ n (Nat.le_refl _)

theorem stepFwd_some (p : Node → Bool) (l m : Loc) (h : stepFwd p true l = some m) :
    ∃ sk, rest l = sk ++ m.focus :: rest m ∧ (∀ x ∈ sk, p x = false) ∧ p m.focus = true := by
  have := stepFwd_spec p l
  rw [h] at this
  exact this

theorem stepFwd_none (p : Node → Bool) (l : Loc) (h : stepFwd p true l = none) :
    ∀ x ∈ rest l, p x = false := by
  have := stepFwd_spec p l
  rw [h] at this
  exact this

/-- generic: iterating a step function satisfying `FirstSat` enumerates the filtered remainder -/
theorem iter_of_firstSat (p : Node → Bool) (r : Loc → List Node) (step : Loc → Option Loc)
    (hs : ∀ l, FirstSat p r (r l) (step l)) :
    ∀ (n : Nat) (l : Loc), (r l).length ≤ n → iter step n (step l) = (r l).filter p
  | 0, l, h => by
    have : r l = [] := List.eq_nil_of_length_eq_zero (Nat.le_zero.mp h)
    simp [iter, this]
  | n + 1, l, h => by
    have hsl := hs l
    cases hst : step l with
    | none =>
      rw [hst] at hsl
      have : (r l).filter p = [] := by
        rw [List.filter_eq_nil_iff]
        intro x hx; simp [hsl x hx]
      rw [this]; rfl
    | some m =>
      rw [hst] at hsl
      obtain ⟨sk, h1, h2, h3⟩ := hsl
      have hsk : sk.filter p = [] := by
        rw [List.filter_eq_nil_iff]
        intro x hx; simp [h2 x hx]
      have hlen : (r m).length ≤ n := by
        rw [h1] at h; simp at h; omega
      simp only [iter]
      rw [iter_of_firstSat p r step hs n m hlen, h1, List.filter_append, hsk, List.filter_cons]
      simp [h3]

theorem step_iter_fwd_nodes (p : Node → Bool) (t : Node) :
    iter (stepFwd p true) (size t) (stepFwd p true (rootLoc t)) = (preL false t.kids).filter p := by
  have h := iter_of_firstSat p rest (stepFwd p true) (stepFwd_spec p) (size t) (rootLoc t)
    (by simp [rest, rootLoc, restUp, preL_length, size_eq])
  rw [h]; simp [rest, rootLoc, restUp]

theorem step_iter_fwd (p : Node → Bool) (t : Node) :
    ids (iter (stepFwd p true) (size t) (stepFwd p true (rootLoc t)))
      = ids ((preL false t.kids).filter p) := by
  rw [step_iter_fwd_nodes]

/-! ### backward -/

theorem lastChild_true_some (l ch : Loc) (h : lastChild (fun _ => true) l = some ch) :
    restB l = ch.focus :: restB ch := by
  unfold lastChild at h
  cases hk : l.focus.kids.reverse with
  | nil => rw [hk] at h; simp [prevFrom] at h
  | cons k ks =>
    rw [hk] at h; simp [prevFrom] at h; subst h
    have hk' : l.focus.kids = (k :: ks).reverse := by rw [← hk]; simp
    simp only [restB, restUpB]
    rw [hk', preL_true_reverse_cons, nav_pre_eq]
    simp

theorem lastChild_true_none (l : Loc) : lastChild (fun _ => true) l = none ↔ l.focus.kids = [] := by
  unfold lastChild
  cases hk : l.focus.kids.reverse with
  | nil => simp [prevFrom]; simpa using hk
  | cons k ks =>
    simp [prevFrom]
    intro h; rw [h] at hk; simp at hk

theorem ascendPrev_some : ∀ (f : Node) (ctx : List Frame) (n : Loc),
    ascendPrev f ctx = some n → restUpB ctx = n.focus :: restB n
  | _, [], n, h => by simp [ascendPrev] at h
  | f, ⟨par, l :: ls, rs⟩ :: c, n, h => by
    simp [ascendPrev] at h; subst h
    simp only [restUpB, restB]
    rw [preL_true_reverse_cons, nav_pre_eq]
    simp
  | f, ⟨par, [], rs⟩ :: c, n, h => by
    simp [ascendPrev] at h
    simp [restUpB, preL_nil]
    exact ascendPrev_some par c n h

theorem ascendPrev_none : ∀ (f : Node) (ctx : List Frame), ascendPrev f ctx = none → restUpB ctx = []
  | _, [], _ => by simp [restUpB]
  | f, ⟨par, l :: ls, rs⟩ :: c, h => by simp [ascendPrev] at h
  | f, ⟨par, [], rs⟩ :: c, h => by
    simp [ascendPrev] at h
    simp [restUpB, preL_nil]
    exact ascendPrev_none par c h

theorem backLoop_spec (p : Node → Bool) : ∀ (fuel : Nat) (l : Loc),
    (l.focus :: restB l).length ≤ fuel → FirstSat p restB (l.focus :: restB l) (backLoop p fuel l)
  | 0, l, h => by simp at h
  | fuel + 1, l, h => by
    rw [backLoop]
    by_cases hp : p l.focus = true
    · simp only [hp, if_true]
      exact ⟨[], rfl, by simp, hp⟩
    · have hp' : p l.focus = false := by simpa using hp
      simp only [hp']
      cases hfc : lastChild (fun _ => true) l with
      | some ch =>
        have hr := lastChild_true_some l ch hfc
        simp only [Bool.false_eq_true, if_false]
        rw [hr]
        apply FirstSat.cons _ hp'
        apply backLoop_spec p fuel ch
        rw [hr] at h; simpa using h
      | none =>
        have hk := (lastChild_true_none l).mp hfc
        have hr : restB l = restUpB l.ctx := by simp [restB, hk, preL_nil]
        simp only [Bool.false_eq_true, if_false]
        rw [hr]
        apply FirstSat.cons _ hp'
        cases han : ascendPrev l.focus l.ctx with
        | none =>
          rw [ascendPrev_none _ _ han]
          intro x hx; cases hx
        | some n =>
          have hn := ascendPrev_some _ _ _ han
          simp only []
          rw [hn]
          apply backLoop_spec p fuel n
          rw [hr, hn] at h; simpa using h

theorem stepBack_spec (p : Node → Bool) (l : Loc) : FirstSat p restB (restB l) (stepBack p true l) := by
  unfold stepBack
  simp only [if_true]
  cases hfc : lastChild (fun _ => true) l with
  | some ch =>
    have hr := lastChild_true_some l ch hfc
    simp only []
    rw [hr]
    exact backLoop_spec p _ ch (Nat.le_refl _)
  | none =>
    have hk := (lastChild_true_none l).mp hfc
    have hr : restB l = restUpB l.ctx := by simp [restB, hk, preL_nil]
    simp only []
    cases han : ascendPrev l.focus l.ctx with
    | none =>
      rw [hr, ascendPrev_none _ _ han]
      intro x hx; cases hx
    | some n =>
      have hn := ascendPrev_some _ _ _ han
      simp only []
      rw [hr, hn]
      exact backLoop_spec p _ n (Nat.le_refl _)

theorem stepBack_some (p : Node → Bool) (l m : Loc) (h : stepBack p true l = some m) :
    ∃ sk, restB l = sk ++ m.focus :: restB m ∧ (∀ x ∈ sk, p x = false) ∧ p m.focus = true := by
  have := stepBack_spec p l
  rw [h] at this
  exact this

theorem stepBack_none (p : Node → Bool) (l : Loc) (h : stepBack p true l = none) :
    ∀ x ∈ restB l, p x = false := by
  have := stepBack_spec p l
  rw [h] at this
  exact this

theorem step_iter_back_nodes (p : Node → Bool) (t : Node) :
    iter (stepBack p true) (size t) (stepBack p true (rootLoc t)) = (preL true t.kids).filter p := by
  have h := iter_of_firstSat p restB (stepBack p true) (stepBack_spec p) (size t) (rootLoc t)
    (by simp [restB, rootLoc, restUpB, preL_length, size_eq])
  rw [h]; simp [restB, rootLoc, restUpB]

theorem step_iter_back (p : Node → Bool) (t : Node) :
    ids (iter (stepBack p true) (size t) (stepBack p true (rootLoc t)))
      = ids ((preL true t.kids).filter p) := by
  rw [step_iter_back_nodes]

/-! ## C. paths -/

/-- ids of the strict descendants -/
def descIds (n : Node) : List Nat := ids (preL false n.kids)

theorem findKid_some (lab : Nat) (par : Node) (c : List Frame) :
    ∀ (ls rs : List Node) (m : Loc), findKid lab par c ls rs = some m →
      m.focus ∈ rs ∧ m.focus.lab = lab ∧ ∃ ls' rs', m.ctx = ⟨par, ls', rs'⟩ :: c
  | _, [], m, h => by simp [findKid] at h
  | ls, r :: rs, m, h => by
    rw [findKid] at h
    by_cases hr : (r.lab == lab) = true
    · simp only [hr, if_true, Option.some.injEq] at h; subst h
      exact ⟨List.mem_cons_self, by simpa using hr, ls, rs, rfl⟩
    · simp only [hr] at h
      obtain ⟨h1, h2, h3⟩ := findKid_some lab par c (r :: ls) rs m h
      exact ⟨List.mem_cons_of_mem _ h1, h2, h3⟩

theorem childPathGo_climb (sid : Nat) : ∀ (π : List Nat) (l c : Loc) (acc : List Nat),
    (∀ x ∈ preL false l.focus.kids, x.id ≠ sid) → childFromPath l π = some c →
      childPathGo sid c.focus acc c.ctx = childPathGo sid l.focus (π ++ acc) l.ctx
  | [], l, c, acc, _, h => by
    simp [childFromPath] at h; subst h; rfl
  | lab :: π, l, c, acc, hd, h => by
    rw [childFromPath] at h
    cases hf : findKid lab l.focus l.ctx [] l.focus.kids with
    | none => simp [hf] at h
    | some ch =>
      simp only [hf] at h
      obtain ⟨hmem, hlab, ls', rs', hctx⟩ := findKid_some _ _ _ _ _ _ hf
      have hsub : ∀ x ∈ pre false ch.focus, x ∈ preL false l.focus.kids := mem_preL_of_mem_kid hmem
      have hd' : ∀ x ∈ preL false ch.focus.kids, x.id ≠ sid := fun x hx =>
        hd x (hsub x (by rw [nav_pre_eq]; exact List.mem_cons_of_mem _ hx))
      rw [childPathGo_climb sid π ch c acc hd' h]
      have hne : (ch.focus.id == sid) = false := by
        have := hd ch.focus (hsub _ (by rw [nav_pre_eq]; exact List.mem_cons_self))
        simpa using this
      rw [hctx, childPathGo]
      simp [hne, hlab]

theorem path_roundtrip (s : Loc) (π : List Nat) (c : Loc) (hid : s.focus.id ∉ descIds s.focus)
    (h : childFromPath s π = some c) : childPath s c = some π := by
  have hd : ∀ x ∈ preL false s.focus.kids, x.id ≠ s.focus.id := by
    intro x hx heq
    apply hid
    rw [← heq]
    exact List.mem_map_of_mem hx
  unfold childPath
  rw [childPathGo_climb s.focus.id π s c [] hd h]
  cases s.ctx <;> simp [childPathGo]

set_option linter.unusedVariables false in
theorem path_inverse (s c c' : Loc) (π π' : List Nat) (hid : s.focus.id ∉ descIds s.focus)
    (hc : childFromPath s π' = some c) (h : childPath s c = some π) : childFromPath s π = some c := by
  have := path_roundtrip s π' c hid hc
  rw [h] at this
  cases this
  exact hc

/-! ### surjectivity under unique sibling labels -/

def nodupB : List Nat → Bool
  | [] => true
  | x :: xs => !xs.contains x && nodupB xs

mutual
/-- every node of the tree has children with pairwise distinct `lab` -/
def labUnique : Node → Bool
  | .mk _ _ _ _ ks => nodupB (ks.map Node.lab) && labUniqueL ks
def labUniqueL : List Node → Bool
  | [] => true
  | k :: ks => labUnique k && labUniqueL ks
end

theorem labUnique_eq (n : Node) : labUnique n = (nodupB (n.kids.map Node.lab) && labUniqueL n.kids) := by
  cases n; simp [labUnique, Node.kids]

theorem labUniqueL_mem {ks : List Node} (h : labUniqueL ks = true) {k : Node} (hk : k ∈ ks) :
    labUnique k = true := by
  induction ks with
  | nil => cases hk
  | cons y ys ih =>
    simp [labUniqueL] at h
    cases hk with
    | head => exact h.1
    | tail _ hk => exact ih h.2 hk

theorem findKid_of_mem (par : Node) (c : List Frame) (k : Node) :
    ∀ (rs ls : List Node), nodupB (rs.map Node.lab) = true → k ∈ rs →
      ∃ ls' rs', findKid k.lab par c ls rs = some ⟨k, ⟨par, ls', rs'⟩ :: c⟩
  | [], _, _, hk => by cases hk
  | r :: rs, ls, hnd, hk => by
    simp [nodupB] at hnd
    rw [findKid]
    by_cases hr : (r.lab == k.lab) = true
    · have hrk : r.lab = k.lab := by simpa using hr
      cases hk with
      | head => exact ⟨ls, rs, by simp⟩
      | tail _ hk =>
        exfalso
        exact hnd.1 k hk hrk.symm
    · cases hk with
      | head => simp at hr
      | tail _ hk =>
        simp only [hr]
        exact findKid_of_mem par c k rs (r :: ls) hnd.2 hk

theorem path_reaches_all_aux : ∀ (sz : Nat) (s : Loc), size s.focus ≤ sz → labUnique s.focus = true →
    ∀ n, n ∈ pre false s.focus → ∃ π c, childFromPath s π = some c ∧ c.focus = n
  | 0, s, hsz, _, _, _ => by have := size_pos s.focus; omega
  | sz + 1, s, hsz, h, n, hn => by
    rw [nav_pre_eq] at hn
    cases hn with
    | head => exact ⟨[], s, rfl, rfl⟩
    | tail _ hn =>
      obtain ⟨k, hk, hnk⟩ := exists_kid_of_mem_preL hn
      rw [labUnique_eq] at h
      simp at h
      obtain ⟨ls', rs', hf⟩ := findKid_of_mem s.focus s.ctx k s.focus.kids [] h.1 hk
      have hks : size k ≤ sz := by
        have := size_le_sizeL_of_mem hk
        rw [size_eq] at hsz; omega
      obtain ⟨π, c, hπ, hc⟩ := path_reaches_all_aux sz ⟨k, ⟨s.focus, ls', rs'⟩ :: s.ctx⟩ hks
        (labUniqueL_mem h.2 hk) n hnk
      exact ⟨k.lab :: π, c, by rw [childFromPath, hf]; exact hπ, hc⟩

theorem path_reaches_all (s : Loc) (h : labUnique s.focus = true) (n : Node)
    (hn : n ∈ pre false s.focus) : ∃ π c, childFromPath s π = some c ∧ c.focus = n :=
  path_reaches_all_aux _ s (Nat.le_refl _) h n hn

end Pfst.Walk
