import Pfst.Quote

/-! Lemmas about the line-comment model (`reMatch`, `commentGet`, `commentPut`, `commentDel`). -/
namespace Pfst.Quote

theorem spanS_append (k : Cls) (w r : List Char) (hw : w.all k.space = true)
    (hr : ∀ c r', r = c :: r' → k.space c = false) : spanS k (w ++ r) = (w, r) := by
  induction w with
  | nil =>
    cases r with
    | nil => rfl
    | cons c r' => simp [spanS, hr c r' rfl]
  | cons c w ih =>
    simp only [List.all_cons, Bool.and_eq_true] at hw
    simp [spanS, hw.1, ih hw.2]

theorem spanS_spec (k : Cls) (l : List Char) :
    (spanS k l).1.all k.space = true ∧ (spanS k l).1 ++ (spanS k l).2 = l
      ∧ (∀ c r', (spanS k l).2 = c :: r' → k.space c = false) := by
  induction l with
  | nil => simp [spanS]
  | cons c l ih =>
    by_cases h : k.space c = true
    · simp only [spanS, h, if_true, List.all_cons, Bool.true_and, List.cons_append]
      exact ⟨ih.1, by rw [ih.2.1], ih.2.2⟩
    · have h' : k.space c = false := by simpa using h
      simp only [spanS, h']
      refine ⟨rfl, rfl, ?_⟩
      intro c' r' e
      simp only [Bool.false_eq_true, if_false, List.cons.injEq] at e
      rw [← e.1]; exact h'

/-- shape of group 1: absent, or whitespace and a semicolon -/
def G1 (k : Cls) (g : List Char) : Prop := g = [] ∨ ∃ ws, ws.all k.space = true ∧ g = ws ++ [';']

theorem reGroup2_build (k : Cls) (hh : k.space '#' = false) (g w text : List Char) (hw : w.all k.space = true) :
    reGroup2 k g (w ++ '#' :: text) = ⟨g, w, some text⟩ := by
  have hsp : spanS k (w ++ '#' :: text) = (w, '#' :: text) :=
    spanS_append k w _ hw (by intro c r' e; simp at e; rw [← e.1]; exact hh)
  simp [reGroup2, hsp]

/-- the regex finds exactly the comment that a line of the shape `g1 ws # text` carries -/
theorem reMatch_build (k : Cls) (hh : k.space '#' = false) (hs : k.space ';' = false) (g w text : List Char)
    (hg : G1 k g) (hw : w.all k.space = true) : reMatch k (g ++ w ++ '#' :: text) = ⟨g, w, some text⟩ := by
  have hsp : spanS k (w ++ '#' :: text) = (w, '#' :: text) :=
    spanS_append k w _ hw (by intro c r' e; simp at e; rw [← e.1]; exact hh)
  rcases hg with rfl | ⟨ws, hws, rfl⟩
  · have h1 : reGroup1 k ([] ++ w ++ '#' :: text) = ([], w ++ '#' :: text) := by
      simp only [reGroup1, List.nil_append, hsp]
      simp (decide := true)
    rw [reMatch, h1]; exact reGroup2_build k hh _ _ _ hw
  · have e : ws ++ [';'] ++ w ++ '#' :: text = ws ++ (';' :: (w ++ '#' :: text)) := by simp
    have hsp1 : spanS k (ws ++ (';' :: (w ++ '#' :: text))) = (ws, ';' :: (w ++ '#' :: text)) :=
      spanS_append k ws _ hws (by intro c r' e; simp at e; rw [← e.1]; exact hs)
    have h1 : reGroup1 k (ws ++ [';'] ++ w ++ '#' :: text) = (ws ++ [';'], w ++ '#' :: text) := by
      rw [e]; simp [reGroup1, hsp1]
    rw [reMatch, h1]; exact reGroup2_build k hh _ _ _ hw

theorem reGroup1_spec (k : Cls) (tail : List Char) :
    G1 k (reGroup1 k tail).1 ∧ tail = (reGroup1 k tail).1 ++ (reGroup1 k tail).2 := by
  obtain ⟨h1a, h1b, _⟩ := spanS_spec k tail
  unfold reGroup1
  split
  · next c r hp =>
    by_cases hc : c = ';'
    · subst hc
      simp only [beq_self_eq_true, if_true]
      refine ⟨.inr ⟨_, h1a, rfl⟩, ?_⟩
      rw [hp] at h1b
      simp only [List.append_assoc, List.cons_append, List.nil_append]; exact h1b.symm
    · have : (c == ';') = false := by simpa using hc
      simp only [this]
      exact ⟨.inl rfl, rfl⟩
  · exact ⟨.inl rfl, rfl⟩

theorem reGroup2_spec (k : Cls) (g after : List Char) :
    (reGroup2 k g after).g1 = g ∧ (reGroup2 k g after).w2.all k.space = true ∧
      (∀ t, (reGroup2 k g after).text = some t → after = (reGroup2 k g after).w2 ++ '#' :: t) := by
  obtain ⟨h2a, h2b, _⟩ := spanS_spec k after
  unfold reGroup2
  split
  · next c r hp =>
    by_cases hc : c = '#'
    · subst hc
      simp only [beq_self_eq_true, if_true]
      refine ⟨trivial, h2a, ?_⟩
      intro t e
      simp only [Option.some.injEq] at e
      subst e
      rw [hp] at h2b; exact h2b.symm
    · have : (c == '#') = false := by simpa using hc
      simp only [this]
      exact ⟨rfl, h2a, by simp⟩
  · exact ⟨rfl, h2a, by simp⟩

/-- every line decomposes along its match -/
theorem reMatch_decomp (k : Cls) (tail : List Char) :
    G1 k (reMatch k tail).g1 ∧ (reMatch k tail).w2.all k.space = true ∧
      (∀ t, (reMatch k tail).text = some t → tail = (reMatch k tail).g1 ++ (reMatch k tail).w2 ++ '#' :: t) ∧
      (∃ rest, tail = (reMatch k tail).g1 ++ rest) := by
  obtain ⟨hg, ht⟩ := reGroup1_spec k tail
  obtain ⟨e1, hw, h3⟩ := reGroup2_spec k (reGroup1 k tail).1 (reGroup1 k tail).2
  unfold reMatch
  rw [e1]
  refine ⟨hg, hw, ?_, ⟨_, ht⟩⟩
  intro t e
  rw [List.append_assoc, ← h3 t e]; exact ht

theorem strip_cons_space (k : Cls) (c : Char) (l : List Char) (h : k.space c = true) : strip k (c :: l) = strip k l := by
  simp [strip, List.dropWhile, h]

theorem take_g1 (g rest : List Char) : (g ++ rest).take g.length = g := by simp
theorem drop_g1 (g rest : List Char) : (g ++ rest).drop g.length = rest := by simp

end Pfst.Quote
