/-
One-dimensional model of a structured single-node replacement (what every `_put_one_*` handler of fst_put_one.py does to
the document, seen through the flattening of C04's text layer): the text is spliced at one rectangle `[s, e)`, the
sub-tree at a path is replaced by a new sub-tree sitting on the new text, every node after the rectangle is moved by the
size difference, every node containing it (the ancestors on the path) grows or shrinks, every node before it stays.

Positions are offsets into the flat text.  No imports.
-/
namespace Pfst.Edit

structure Span where
  s : Nat
  e : Nat
deriving DecidableEq, Repr, Inhabited

/-- replace `text[s, e)` by `new` -/
structure Ed (α : Type) where
  s : Nat
  e : Nat
  new : List α

def applyText {α} (t : List α) (ed : Ed α) : List α := t.take ed.s ++ ed.new ++ t.drop ed.e

/-- text denoted by a span -/
def textAt {α} (t : List α) (sp : Span) : List α := (t.drop sp.s).take (sp.e - sp.s)

/-- where a point at or after the rectangle's end lands -/
def shiftPt {α} (ed : Ed α) (p : Nat) : Nat := p - ed.e + (ed.s + ed.new.length)

def shiftSpan {α} (ed : Ed α) (sp : Span) : Span := ⟨shiftPt ed sp.s, shiftPt ed sp.e⟩

/-- a node that contains the rectangle: start fixed, end moved -/
def growSpan {α} (ed : Ed α) (sp : Span) : Span := ⟨sp.s, shiftPt ed sp.e⟩

inductive T where
  | mk (id : Nat) (sp : Span) (kids : List T)
deriving Repr, Inhabited

def T.sp : T → Span | .mk _ sp _ => sp
def T.id : T → Nat | .mk i _ _ => i
def T.kids : T → List T | .mk _ _ k => k

mutual
/-- move a whole sub-tree that lies after the rectangle -/
def shiftT {α} (ed : Ed α) : T → T
  | .mk i sp kids => .mk i (shiftSpan ed sp) (shiftL ed kids)
def shiftL {α} (ed : Ed α) : List T → List T
  | [] => []
  | k :: r => shiftT ed k :: shiftL ed r
end

mutual
/-- place a new sub-tree (spans relative to the start of the new text) at offset `o` -/
def placeT (o : Nat) : T → T
  | .mk i sp kids => .mk i ⟨sp.s + o, sp.e + o⟩ (placeL o kids)
def placeL (o : Nat) : List T → List T
  | [] => []
  | k :: r => placeT o k :: placeL o r
end

mutual
/-- Replace the sub-tree at `path` by `sub` (placed at `ed.s`): ancestors grow, later siblings (at every level) move. -/
def replaceAt {α} (ed : Ed α) (sub : T) : List Nat → T → T
  | [], _ => placeT ed.s sub
  | i :: rest, .mk id sp kids => .mk id (growSpan ed sp) (replaceKids ed sub i rest kids)
def replaceKids {α} (ed : Ed α) (sub : T) : Nat → List Nat → List T → List T
  | _, _, [] => []
  | 0, rest, k :: r => replaceAt ed sub rest k :: shiftL ed r
  | i + 1, rest, k :: r => k :: replaceKids ed sub i rest r
end

mutual
/-- well-formed: `s ≤ e`, children inside the parent, siblings ordered without overlap -/
def wfT : T → Bool
  | .mk _ sp kids => decide (sp.s ≤ sp.e) && wfL sp.s sp.e kids
/-- children start at or after `lo`, follow each other, end at or before `hi` -/
def wfL (lo hi : Nat) : List T → Bool
  | [] => decide (lo ≤ hi)
  | .mk i sp kids :: r => decide (lo ≤ sp.s) && wfT (.mk i sp kids) && wfL sp.e hi r
end

mutual
/-- the path leads to a node whose span is exactly the rectangle, and the rectangle lies inside every ancestor -/
def pathOk {α} (ed : Ed α) : List Nat → T → Bool
  | [], .mk _ sp _ => sp.s == ed.s && sp.e == ed.e
  | i :: rest, .mk _ sp kids => decide (sp.s ≤ ed.s) && decide (ed.e ≤ sp.e) && pathOkKids ed i rest kids
def pathOkKids {α} (ed : Ed α) : Nat → List Nat → List T → Bool
  | _, _, [] => false
  | 0, rest, k :: _ => pathOk ed rest k
  | i + 1, rest, _ :: r => pathOkKids ed i rest r
end

mutual
/-- preorder list of (id, span) -/
def flattenT : T → List (Nat × Span)
  | .mk i sp kids => (i, sp) :: flattenL kids
def flattenL : List T → List (Nat × Span)
  | [] => []
  | k :: r => flattenT k ++ flattenL r
end

end Pfst.Edit
