import Pfst.SetPos
/-! Lemmas about `Pfst.SetPos.setPos`. -/
namespace Pfst.SetPos

theorem write_id (new : Int × Int) (l : Link) : (write new l).id = l.id := rfl
theorem write_hasSib (new : Int × Int) (l : Link) : (write new l).hasSib = l.hasSib := rfl

theorem write_write (new : Int × Int) (l : Link) : write new (write new l) = write new l := by
  cases l with | mk i p h => cases p <;> rfl

theorem blocked_none (l : Link) : blocked none l = false := by
  cases l with | mk i p h => cases p <;> rfl

/-- complete description of the loop: it touches a prefix of the chain, writes exactly that prefix, and every node of
the prefix passed the old-position guard -/
theorem setPos_prefix (new : Int × Int) (old : Option (Int × Int)) : ∀ chain : List Link,
    ∃ k, k ≤ chain.length ∧ (setPos new old chain).2 = (chain.take k).map (·.id) ∧
      (setPos new old chain).1 = (chain.take k).map (write new) ++ chain.drop k ∧
      ∀ l ∈ chain.take k, blocked old l = false
  | [] => ⟨0, Nat.le_refl _, rfl, rfl, fun _ h => by cases h⟩
  | l :: rest => by
    simp only [setPos]
    by_cases hb : blocked old l = true
    · simp only [hb, if_true]
      exact ⟨0, Nat.zero_le _, rfl, rfl, fun _ h => by cases h⟩
    · simp only [hb, Bool.false_eq_true, if_false]
      have hb' : blocked old l = false := by simpa using hb
      by_cases hs : (rest.isEmpty || l.hasSib) = true
      · simp only [hs, if_true]
        refine ⟨1, by simp, by simp, by simp, ?_⟩
        intro x hx
        simp only [List.take_succ_cons, List.take_zero, List.mem_singleton] at hx
        rw [hx]; exact hb'
      · simp only [hs, Bool.false_eq_true, if_false]
        obtain ⟨k, hk, h1, h2, h3⟩ := setPos_prefix new old rest
        refine ⟨k + 1, by simp; omega, by simp [h1], by simp [h2], ?_⟩
        intro x hx
        simp only [List.take_succ_cons, List.mem_cons] at hx
        cases hx with
        | inl e => rw [e]; exact hb'
        | inr e => exact h3 x e

theorem setPos_length (new : Int × Int) (old : Option (Int × Int)) (chain : List Link) :
    (setPos new old chain).1.length = chain.length := by
  obtain ⟨k, hk, _, h2, _⟩ := setPos_prefix new old chain
  rw [h2]; simp; omega

/-- the walk never changes which nodes are on the chain nor their sibling flags -/
theorem setPos_ids (new : Int × Int) (old : Option (Int × Int)) (chain : List Link) :
    (setPos new old chain).1.map (·.id) = chain.map (·.id) ∧
    (setPos new old chain).1.map (·.hasSib) = chain.map (·.hasSib) := by
  obtain ⟨k, hk, _, h2, _⟩ := setPos_prefix new old chain
  rw [h2]
  constructor
  · simp only [List.map_append, List.map_map]
    have : ((fun x : Link => x.id) ∘ write new) = (fun x : Link => x.id) := rfl
    rw [this, ← List.map_append, List.take_append_drop]
  · simp only [List.map_append, List.map_map]
    have : ((fun x : Link => x.hasSib) ∘ write new) = (fun x : Link => x.hasSib) := rfl
    rw [this, ← List.map_append, List.take_append_drop]

end Pfst.SetPos
