import Pfst.Scan
import Pfst.ParseWrap
/-!
# SeqFix — model of `parsex._fix_undelimited_seq_parsed_delimited`

An undelimited `Tuple` / `MatchSequence` spread over several lines is parsed inside wrapper parentheses, so CPython gives
it the location of those parentheses.  The function repairs the location from the first and last element: it verifies that
the wrapper was not closed (`_verify_no_close_delimiters`), converts the element byte offsets to character columns, looks
for an opening parenthesis before the first element (`next_frag`) and a trailing comma / closing parenthesis after the last
(`prev_frag`), and converts the resulting CHARACTER columns back to BYTE offsets.  No imports beyond model files.
-/
namespace Pfst.SeqFix
open Pfst.ParseWrap (Loc Line takeB verifyNoClose)
open Pfst.Scan (nextFrag prevFrag c2bRaw LCont hugeCol lineAt)

/-- `len(line.encode()[:b].decode())` -/
def b2cTake (l : Line) (b : Nat) : Nat := (takeB b l).length

/-- `src.startswith('(')` -/
def startsParen (s : Line) : Bool := s.head? == some '('

/-- `src.endswith(',') or src.endswith(')')` -/
def endsCommaOrParen (s : Line) : Bool := s.getLast? == some ',' || s.getLast? == some ')'

/-- the two early `raise`s: the container ends past the source, or the wrapper's delimiter is closed around the first
element (`_verify_no_close_delimiters`) -/
def guardOk (lines : List Line) (e0 : Loc) (e1Lineno : Option Int) (astEndLineno lineno : Int) (o c : Char) : Bool :=
  let nlines : Int := lines.length
  let endLn : Int := match e1Lineno with | none => nlines - 1 | some l => l - lineno
  !(decide (astEndLineno - (lineno + 1) ≥ nlines))
  && verifyNoClose lines (e0.lineno - lineno) e0.col.toNat (e0.endLineno - lineno).toNat e0.endCol.toNat endLn.toNat o c

/-- start of the sequence in (line index, CHARACTER column): the first element, or an opening parenthesis found before it -/
def startPos (lines : List Line) (e0Ln e0Col : Nat) : Option (Nat × Nat) :=
  match nextFrag lines 0 0 e0Ln e0Col false LCont.f with
  | none => some (e0Ln, e0Col)
  | some f => if startsParen f.src then some (f.ln, f.col) else none

/-- end of the sequence in (line index, CHARACTER column): the last element, or the end of a trailing comma / closing
parenthesis fragment found after it -/
def endPos (lines : List Line) (enEndLn enEndCol : Nat) : Option (Nat × Nat) :=
  match prevFrag lines enEndLn enEndCol (lines.length - 1) hugeCol false LCont.f with
  | none => some (enEndLn, enEndCol)
  | some f => if endsCommaOrParen f.src then some (f.ln, f.col + f.src.length) else none

/-- `_fix_undelimited_seq_parsed_delimited(src, ast, field, lineno, delims)`: `lines = src.split('\n')`, `e0`/`en` the first
and last element, `e1Lineno` the line of the second element (`none` for a single element), `astEndLineno` the container's
`end_lineno` as parsed.  `none` = raises SyntaxError, `some loc` = the location stored into the container: the CHARACTER
columns are converted back to BYTE offsets (`len(lines[ln][:col].encode())` = `c2bRaw`). -/
def fixSeq (lines : List Line) (e0 en : Loc) (e1Lineno : Option Int) (astEndLineno lineno : Int) (o c : Char) : Option Loc :=
  if guardOk lines e0 e1Lineno astEndLineno lineno o c then
    let e0Ln := (e0.lineno - lineno).toNat
    let enEndLn := (en.endLineno - lineno).toNat
    match startPos lines e0Ln (b2cTake (lineAt lines e0Ln) e0.col.toNat),
          endPos lines enEndLn (b2cTake (lineAt lines enEndLn) en.endCol.toNat) with
    | some (sLn, sCol), some (eLn, eCol) =>
      some ⟨(sLn : Int) + lineno, c2bRaw (lineAt lines sLn) sCol, (eLn : Int) + lineno, c2bRaw (lineAt lines eLn) eCol⟩
    | _, _ => none
  else none

end Pfst.SeqFix
