/-!
# ParseWrap — executable model of what pfst adds around CPython's parser (`/repo/src/fst/parsex.py`)

CPython's parser itself is an external parameter.  Every `parse_*` function of `parsex.py` works the same way: embed the
fragment source in a wrapper `pre ++ "\n" ++ src ++ "\n" ++ post`, hand that to CPython, take a sub-tree, move the line
numbers back (`_offset_linenos`), give SPECIAL SLICE containers the location of the whole source (`_astloc_from_src`),
and make sure the wrapper's own delimiters were not closed by the source (`_verify_no_close_delimiters` and the
`lineno == 1` shape tests).  This file models exactly those additions.  Text is `List Char`; columns are UTF-8 BYTE
offsets as in CPython's `col_offset`.  Import-free (linked into the native driver).
-/
namespace Pfst.ParseWrap

abbrev Line := List Char

/-! ### text: bytes, lines -/

/-- `len(s.encode())` -/
def blen : List Char → Nat
  | [] => 0
  | c :: cs => c.utf8Size + blen cs

/-- `s.count('\n')` -/
def countNl : List Char → Nat
  | [] => 0
  | c :: cs => (if c = '\n' then 1 else 0) + countNl cs

/-- `src if (i := src.rfind('\n')) == -1 else src[i + 1:]`  (first statement of `_astloc_from_src`) -/
def lastLine : List Char → List Char
  | [] => []
  | c :: cs => if c = '\n' ∨ countNl cs ≠ 0 then lastLine cs else c :: cs

/-- helper of `splitLines`: put `c` in front of the first line -/
def consHead (c : Char) : List Line → List Line
  | [] => [[c]]
  | l :: ls => (c :: l) :: ls

/-- `s.split('\n')` -/
def splitLines : List Char → List Line
  | [] => [[]]
  | c :: cs => if c = '\n' then [] :: splitLines cs else consHead c (splitLines cs)

/-- `line.encode()[:n].decode()` for `n` on a character boundary (greedy prefix of at most `n` bytes) -/
def takeB : Nat → Line → Line
  | _, [] => []
  | n, c :: cs => if c.utf8Size ≤ n then c :: takeB (n - c.utf8Size) cs else []

/-- `line.encode()[n:].decode()` for `n` on a character boundary -/
def dropB : Nat → Line → Line
  | _, [] => []
  | n, c :: cs => if c.utf8Size ≤ n then dropB (n - c.utf8Size) cs else c :: cs

/-- text of one line between byte columns `a` and `b` -/
def sliceB (a b : Nat) (l : Line) : Line := takeB (b - a) (dropB a l)

/-! ### locations -/

/-- `lineno, col_offset, end_lineno, end_col_offset` as CPython stores them (1-based lines, byte columns) -/
structure Loc where
  lineno : Int
  col : Int
  endLineno : Int
  endCol : Int
deriving DecidableEq, Repr

/-- `parsex._astloc_from_src(src, lineno)`: location of the whole source, used for SPECIAL SLICE containers. -/
def astlocFromSrc (src : List Char) (lineno : Int := 1) : Loc :=
  ⟨lineno, 0, lineno + countNl src, blen (lastLine src)⟩

/-- a span of text in a list of lines: 1-based lines, byte columns -/
structure Span where
  ln : Nat
  col : Nat
  eln : Nat
  ecol : Nat
deriving DecidableEq, Repr

def mapHead (f : Line → Line) : List Line → List Line
  | [] => []
  | l :: ls => f l :: ls

def mapLast (f : Line → Line) : List Line → List Line
  | [] => []
  | [l] => [f l]
  | l :: l' :: ls => l :: mapLast f (l' :: ls)

/-- the text a span denotes: the lines `ln..eln`, the last cut at `ecol` bytes, the first starting at `col` bytes
(what `FST.get_src` / `ast.get_source_segment` return, as a list of lines) -/
def getSpan (lines : List Line) (s : Span) : List Line :=
  mapHead (dropB s.col) (mapLast (takeB s.ecol) ((lines.drop (s.ln - 1)).take (s.eln + 1 - s.ln)))

/-- the same span `k` lines further down -/
def Span.shift (s : Span) (k : Nat) : Span := ⟨s.ln + k, s.col, s.eln + k, s.ecol⟩

/-- the wrapper text handed to CPython: `f'{pre}\n{src}\n{post}'` -/
def wrapText (pre src post : List Char) : List Char := pre ++ '\n' :: (src ++ '\n' :: post)

/-! ### position trees and `_offset_linenos` -/

/-- an AST reduced to its positions (nodes without location attributes carry `none`) -/
inductive PTree where
  | node (pos : Option Loc) (kids : List PTree)

/-- body of the loop of `parsex._offset_linenos`: `if end_lineno := getattr(a, 'end_lineno', None): ...`
(a missing **or zero** `end_lineno` is skipped, exactly as the walrus test does) -/
def offPos (δ : Int) : Option Loc → Option Loc
  | none => none
  | some p => if p.endLineno = 0 then some p else some ⟨p.lineno + δ, p.col, p.endLineno + δ, p.endCol⟩

mutual
/-- `parsex._offset_linenos(ast, delta)` -/
def offsetLinenos (δ : Int) : PTree → PTree
  | .node p ks => .node (offPos δ p) (offsetKids δ ks)
def offsetKids (δ : Int) : List PTree → List PTree
  | [] => []
  | t :: ts => offsetLinenos δ t :: offsetKids δ ts
end

mutual
/-- apply a function to every location of a tree -/
def mapTree (f : Loc → Loc) : PTree → PTree
  | .node p ks => .node (p.map f) (mapKids f ks)
def mapKids (f : Loc → Loc) : List PTree → List PTree
  | [] => []
  | t :: ts => mapTree f t :: mapKids f ts
end

mutual
/-- every located node has `end_lineno ≥ 1` (CPython line numbers are 1-based) -/
def linesPos : PTree → Bool
  | .node p ks => (match p with | none => true | some q => decide (1 ≤ q.endLineno)) && linesPosKids ks
def linesPosKids : List PTree → Bool
  | [] => true
  | t :: ts => linesPos t && linesPosKids ts
end

/-- what CPython does to the positions of a fragment that sits `k` lines down in a wrapper whose prefix ends in a
newline: every line number grows by `k`, columns unchanged -/
def embedLines (k : Int) (p : Loc) : Loc := ⟨p.lineno + k, p.col, p.endLineno + k, p.endCol⟩

/-- a fragment that starts at line `l0` (1-based), byte column `c0` of a larger text: fragment-relative → absolute -/
def embedAt (l0 c0 : Int) (p : Loc) : Loc :=
  ⟨p.lineno + (l0 - 1), if p.lineno = 1 then p.col + c0 else p.col,
   p.endLineno + (l0 - 1), if p.endLineno = 1 then p.endCol + c0 else p.endCol⟩

/-- absolute → fragment-relative ("lines minus start line, first-line byte columns minus start column") -/
def rebaseAt (l0 c0 : Int) (p : Loc) : Loc :=
  ⟨p.lineno - (l0 - 1), if p.lineno = l0 then p.col - c0 else p.col,
   p.endLineno - (l0 - 1), if p.endLineno = l0 then p.endCol - c0 else p.endCol⟩

/-! ### delimiters -/

/-- the counting loop at the end of `parsex._verify_no_close_delimiters` (`dcount`); `none` = raises SyntaxError -/
def scanDepth (o c : Char) : List Char → Nat → Option Nat
  | [], d => some d
  | x :: xs, d =>
    if x = c then (if d = 0 then none else scanDepth o c xs (d - 1))
    else if x = o then scanDepth o c xs (d + 1)
    else scanDepth o c xs d

/-- index of the closing delimiter that matches an opening delimiter standing just before the list, with `d` further
openers pending -/
def matchClose (o c : Char) : List Char → Nat → Option Nat
  | [], _ => none
  | x :: xs, d =>
    if x = c then (if d = 0 then some 0 else (matchClose o c xs (d - 1)).map (· + 1))
    else if x = o then (matchClose o c xs (d + 1)).map (· + 1)
    else (matchClose o c xs d).map (· + 1)

/-- `l[:i] if (i := l.find('#')) != -1 else l` -/
def stripComment (l : Line) : Line := l.takeWhile (· ≠ '#')

/-- `l.find(',') != -1` -/
def hasComma (l : Line) : Bool := l.any (· = ',')

/-- `l[:l.find(',')]` -/
def uptoComma (l : Line) : Line := l.takeWhile (· ≠ ',')

/-- the `for l in lines[e0_end_ln + 1 : end_ln + 1]` loop of `_verify_no_close_delimiters` (stops at the first comma) -/
def restLines : List Line → List Line
  | [] => []
  | l :: ls =>
    let l := stripComment l
    if hasComma l then [uptoComma l] else l :: restLines ls

/-- `parsex._verify_no_close_delimiters(lines, e0_ln, e0_col_offset, e0_end_ln, e0_end_col_offset, end_ln, delims)`;
`true` = returns, `false` = raises SyntaxError.  (`.strip()` of each line is omitted: blanks are not delimiters.) -/
def verifyNoClose (lines : List Line) (e0Ln : Int) (e0Col e0EndLn e0EndCol endLn : Nat) (o c : Char) : Bool :=
  if e0Ln < 0 ∨ endLn ≥ lines.length then false else
  let e0 := e0Ln.toNat
  let before := (lines.take e0).map stripComment ++ [takeB e0Col (lines.getD e0 [])]
  let l := stripComment (dropB e0EndCol (lines.getD e0EndLn []))
  let after := if hasComma l then [uptoComma l]
               else l :: restLines ((lines.drop (e0EndLn + 1)).take (endLn + 1 - (e0EndLn + 1)))
  (scanDepth o c (before ++ after).flatten 0).isSome

/-! ### `parse_arg`: "is the parsed `arguments` exactly one parameter?" -/

/-- what `parse_arg` looks at in the `arguments` node CPython returns for its wrapper: list lengths and presence flags
(`kw_defaults` has one entry per keyword-only parameter, `None` entries included) -/
structure ArgsShape where
  posonly : Nat
  args : Nat
  vararg : Bool
  kwonly : Nat
  kwDefaults : Nat
  kwarg : Bool
  defaults : Nat
deriving DecidableEq, Repr

/-- result check after the normal wrapper `def f(\n{src}\n): pass`; `true` = returns `args.args[0]` -/
def argNormalOk (s : ArgsShape) : Bool :=
  !(s.posonly != 0 || s.vararg || s.kwonly != 0 || s.defaults != 0 || s.kwDefaults != 0 || s.kwarg || s.args != 1)

/-- result check after the star wrapper `def f(*\n{src}\n): pass` (star-annotated vararg); `true` = returns `args.vararg` -/
def argStarOk (s : ArgsShape) : Bool :=
  !(s.posonly != 0 || s.args != 0 || s.kwonly != 0 || s.defaults != 0 || s.kwDefaults != 0 || s.kwarg) && s.vararg

/-- number of parameters of the `arguments` node -/
def nParams (s : ArgsShape) : Nat :=
  s.posonly + s.args + (if s.vararg then 1 else 0) + s.kwonly + (if s.kwarg then 1 else 0)

/-! ### `parse_ImportFrom_name` / `parse__ImportFrom_names`: "the names carry no parentheses of their own" -/

/-- `nn.end_col_offset != import_.end_col_offset or nn.end_lineno != import_.end_lineno` negated: the last alias ends exactly
where the wrapper statement `from . import \\\n{src}` ends (a closing parenthesis after it would end the statement later) -/
def endsWithStmt (lastAlias stmt : Loc) : Bool :=
  lastAlias.endCol == stmt.endCol && lastAlias.endLineno == stmt.endLineno

/-- verdict of `parse_ImportFrom_name` once CPython has parsed the wrapper: exactly one alias, no own parentheses -/
def importFromNameOk (nNames : Nat) (lastAlias stmt : Loc) : Bool := nNames == 1 && endsWithStmt lastAlias stmt

/-- `(l1, c1) < (l2, c2)` -/
def posLt (l1 c1 l2 c2 : Int) : Bool := decide (l1 < l2) || (l1 == l2 && decide (c1 < c2))

/-! ### `parse__match_cases`: undoing the one-blank indentation of the wrapper -/

/-- CPython's positions of a fragment whose lines sit `k` lines down in the wrapper and whose lines listed in `ind`
(fragment line numbers; the others are continuation lines of multi-line strings, kept verbatim) are indented by one blank -/
def indentEmbed (k : Int) (ind : List Int) (p : Loc) : Loc :=
  ⟨p.lineno + k, if ind.contains p.lineno then p.col + 1 else p.col,
   p.endLineno + k, if ind.contains p.endLineno then p.endCol + 1 else p.endCol⟩

/-- the final walk of `parsex.parse__match_cases` (`k = 2`): lines back up, and INDEPENDENTLY for start and end: one column
less when the (new) line is one of the indented lines -/
def undoIndent (k : Int) (ind : List Int) (p : Loc) : Loc :=
  let ln := p.lineno - k
  let eln := p.endLineno - k
  ⟨ln, if ind.contains ln then p.col - 1 else p.col, eln, if ind.contains eln then p.endCol - 1 else p.endCol⟩

end Pfst.ParseWrap
