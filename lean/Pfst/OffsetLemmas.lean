import Pfst.Offset

/-!
Geometric well-formedness of a position tree (`geo`, executable so that the correspondence harness evaluates it on every
real tree) and the lemma behind the WARNING in `_offset`: on a geometrically ordered tree the walk with the two early
`break`s and the `continue` computes exactly the naive map of `offsetPos` over all nodes.
-/
namespace Pfst.Offset

/-- `(a,b) ≤ (c,d)` lexicographically. -/
def le2 (a b c d : Int) : Bool := decide (a < c) || (a == c && decide (b ≤ d))

def Pos.wf (p : Pos) : Bool := le2 p.lno p.col p.elno p.ecol

mutual
/-- every positioned node of the subtree is well-formed and ends at or before `(L, C)` -/
def endsLe (L C : Int) : Node → Bool
  | .mk _ pos _ kids =>
    (match pos with | none => true | some p => p.wf && le2 p.elno p.ecol L C) && endsLeList L C kids
def endsLeList (L C : Int) : List Node → Bool
  | [] => true
  | n :: rest => endsLe L C n && endsLeList L C rest
end

mutual
/-- every positioned node of the subtree is well-formed and starts on a line `≥ L` -/
def linesGe (L : Int) : Node → Bool
  | .mk _ pos _ kids =>
    (match pos with | none => true | some p => p.wf && decide (L ≤ p.lno)) && linesGeList L kids
def linesGeList (L : Int) : List Node → Bool
  | [] => true
  | n :: rest => linesGe L n && linesGeList L rest
end

/-- every *top-level* positioned node of `rest` ends at or after every end inside `n`'s subtree -/
def beforeAll (n : Node) : List Node → Bool
  | [] => true
  | k :: rest => (match k.pos with | none => true | some q => endsLe q.elno q.ecol n) && beforeAll n rest

def blockStart (p : Pos) (deco : Option Int) : Int :=
  match deco with | none => p.lno | some d => min p.lno d

mutual
/-- Geometric order: positions well-formed, descendants end inside their positioned ancestors and start no earlier
than its first line (first decorator line for decorated nodes), earlier siblings end before later positioned ones end. -/
def geo : Node → Bool
  | .mk _ pos deco kids =>
    (match pos with
     | none => true
     | some p => p.wf && endsLeList p.elno p.ecol kids && linesGeList (blockStart p deco) kids)
    && geoList kids
def geoList : List Node → Bool
  | [] => true
  | n :: rest => geo n && beforeAll n rest && geoList rest
end

/-! ### single position lemmas -/

theorem offsetPos_of_endsBefore (π : Params) (p : Pos) (hw : p.wf = true) (hb : endsBefore π p = true) :
    offsetPos π p = p := by
  obtain ⟨a, b, c, d⟩ := p
  simp only [Pos.wf, le2, endsBefore, Bool.or_eq_true, decide_eq_true_eq, Bool.and_eq_true, beq_iff_eq] at hw hb
  have h1 : endMoves π ⟨a, b, c, d⟩ = false := by
    simp only [endMoves]; split
    · rfl
    · split
      · omega
      · split
        · rfl
        · omega
  have h2 : startMoves π ⟨a, b, c, d⟩ = false := by
    simp only [startMoves]
    rw [if_neg (by omega)]
    split
    · next he =>
      have he' : a = π.lno := by simpa using he
      have hb1 : (decide (b > π.colo)) = false := by simp; omega
      have hb2 : (b == π.colo) = false := by simp; omega
      simp [hb1, hb2]
    · rfl
  simp [offsetPos, h1, h2]

theorem offsetPos_of_lineAfter (π : Params) (p : Pos) (hw : p.wf = true) (hl : π.lno < p.lno) (hd : π.dln = 0) :
    offsetPos π p = p := by
  obtain ⟨a, b, c, d⟩ := p
  simp only [Pos.wf, le2, Bool.or_eq_true, decide_eq_true_eq, Bool.and_eq_true, beq_iff_eq] at hw
  simp only at hl
  have h1 : endMoves π ⟨a, b, c, d⟩ = true := by
    simp only [endMoves]; split
    · omega
    · split
      · rfl
      · omega
  have h2 : startMoves π ⟨a, b, c, d⟩ = true := by
    simp only [startMoves]; split
    · rfl
    · omega
  have hc : π.lno < c := by omega
  simp [offsetPos, h1, h2, hd, hc, hl]

/-! ### subtree lemmas -/

theorem le2_trans_before (π : Params) (p : Pos) (L C : Int) (h : le2 p.elno p.ecol L C = true)
    (hb : endsBefore π ⟨0, 0, L, C⟩ = true) : endsBefore π p = true := by
  simp only [le2, endsBefore, Bool.or_eq_true, decide_eq_true_eq, Bool.and_eq_true, beq_iff_eq] at *
  omega

mutual
theorem naive_of_endsLe (π : Params) (L C : Int) (hb : endsBefore π ⟨0, 0, L, C⟩ = true) :
    ∀ t : Node, endsLe L C t = true → naiveNode π t = t
  | .mk i pos deco kids, h => by
    simp only [endsLe, Bool.and_eq_true] at h
    have hk := naiveList_of_endsLe π L C hb kids h.2
    simp only [naiveNode]
    split
    · rfl
    · cases pos with
      | none => simp [hk]
      | some p =>
        simp only [Bool.and_eq_true] at h
        have := offsetPos_of_endsBefore π p h.1.1 (le2_trans_before π p L C h.1.2 hb)
        simp [this, hk]
theorem naiveList_of_endsLe (π : Params) (L C : Int) (hb : endsBefore π ⟨0, 0, L, C⟩ = true) :
    ∀ l : List Node, endsLeList L C l = true → naiveList π l = l
  | [], _ => rfl
  | n :: rest, h => by
    simp only [endsLeList, Bool.and_eq_true] at h
    simp [naiveList, naive_of_endsLe π L C hb n h.1, naiveList_of_endsLe π L C hb rest h.2]
end

mutual
theorem naive_of_linesGe (π : Params) (L : Int) (hl : π.lno < L) (hd : π.dln = 0) :
    ∀ t : Node, linesGe L t = true → naiveNode π t = t
  | .mk i pos deco kids, h => by
    simp only [linesGe, Bool.and_eq_true] at h
    have hk := naiveList_of_linesGe π L hl hd kids h.2
    simp only [naiveNode]
    split
    · rfl
    · cases pos with
      | none => simp [hk]
      | some p =>
        simp only [Bool.and_eq_true, decide_eq_true_eq] at h
        have := offsetPos_of_lineAfter π p h.1.1 (by omega) hd
        simp [this, hk]
theorem naiveList_of_linesGe (π : Params) (L : Int) (hl : π.lno < L) (hd : π.dln = 0) :
    ∀ l : List Node, linesGeList L l = true → naiveList π l = l
  | [], _ => rfl
  | n :: rest, h => by
    simp only [linesGeList, Bool.and_eq_true] at h
    simp [naiveList, naive_of_linesGe π L hl hd n h.1, naiveList_of_linesGe π L hl hd rest h.2]
end

/-- A `break` flag from a sibling stack comes from a top-level positioned node that ends before the point. -/
theorem goList_flag (π : Params) : ∀ l : List Node, (goList π l).2 = true →
    ∃ k ∈ l, ∃ q, k.pos = some q ∧ endsBefore π q = true
  | [], h => by simp [goList] at h
  | n :: rest, h => by
    simp only [goList] at h
    split at h
    · next hr =>
      obtain ⟨k, hk, q, hq⟩ := goList_flag π rest hr
      exact ⟨k, List.mem_cons_of_mem _ hk, q, hq⟩
    · obtain ⟨i, pos, deco, kids⟩ := n
      simp only [goNode] at h
      split at h
      · simp at h
      · cases pos with
        | none => simp at h
        | some p =>
          simp only at h
          split at h
          · next hb => exact ⟨_, List.mem_cons_self, p, rfl, hb⟩
          · split at h <;> simp at h

theorem beforeAll_mem (n : Node) : ∀ l : List Node, beforeAll n l = true → ∀ k ∈ l, ∀ q, k.pos = some q →
    endsLe q.elno q.ecol n = true
  | [], _, k, hk, _, _ => by cases hk
  | m :: rest, h, k, hk, q, hq => by
    simp only [beforeAll, Bool.and_eq_true] at h
    cases hk with
    | head => simpa [hq] using h.1
    | tail _ hk' => exact beforeAll_mem n rest h.2 k hk' q hq

mutual
/-- The WARNING invariant of `_offset`: on geometrically ordered trees, `break`/`continue` lose nothing. -/
theorem goNode_eq_naive (π : Params) : ∀ t : Node, geo t = true → (goNode π t).1 = naiveNode π t
  | .mk i pos deco kids, h => by
    simp only [geo, Bool.and_eq_true] at h
    have hk := goList_eq_naive π kids h.2
    simp only [goNode, naiveNode]
    split
    · rfl
    · cases pos with
      | none => simp [hk]
      | some p =>
        simp only [Bool.and_eq_true] at h
        obtain ⟨⟨⟨hw, he⟩, hl⟩, _⟩ := h
        simp only [Option.map_some]
        split
        · next hb =>
          -- break at this node: itself and everything below ends before the point
          have hb' : endsBefore π ⟨0, 0, p.elno, p.ecol⟩ = true := by simpa [endsBefore] using hb
          have h1 := offsetPos_of_endsBefore π p hw hb
          have h2 := naiveList_of_endsLe π p.elno p.ecol hb' kids he
          simp only [h1, h2]; split <;> rfl
        · split
          · next hs =>
            -- continue: starts on a later line, no line change, no decorator on or before the line
            simp only [skipKids, Bool.and_eq_true, decide_eq_true_eq, beq_iff_eq] at hs
            have hL : π.lno < blockStart p deco := by
              unfold blockStart
              cases deco with
              | none => simpa using hs.1.1
              | some d =>
                have := hs.2
                simp only [decide_eq_true_eq] at this
                simp only; omega
            have h2 := naiveList_of_linesGe π _ hL hs.1.2 kids hl
            simp only [h2]; split <;> rfl
          · simp [hk]
theorem goList_eq_naive (π : Params) : ∀ l : List Node, geoList l = true → (goList π l).1 = naiveList π l
  | [], _ => rfl
  | n :: rest, h => by
    simp only [geoList, Bool.and_eq_true] at h
    obtain ⟨⟨hg, hb⟩, hr⟩ := h
    have ih := goList_eq_naive π rest hr
    simp only [goList, naiveList]
    split
    · next hf =>
      obtain ⟨k, hk, q, hq, hqb⟩ := goList_flag π rest hf
      have hle := beforeAll_mem n rest hb k hk q hq
      have hb' : endsBefore π ⟨0, 0, q.elno, q.ecol⟩ = true := by simpa [endsBefore] using hqb
      simp [ih, naive_of_endsLe π q.elno q.ecol hb' n hle]
    · simp [ih, goNode_eq_naive π n hg]
end

end Pfst.Offset
