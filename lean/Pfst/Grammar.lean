/-
Spec grammar for Python's expression / pattern levels, in slot-acceptance form, and a printer parameterised by a
parenthesisation policy.  Written from the grammar of the Python language reference (3.12 `python.gram`), NOT from
pfst's precedence table: every construct has a syntactic class, every operand position (slot) states which classes it
accepts without parentheses.  `Derives s toks e` is the grammar: "token list `toks` is a phrase for slot `s` whose
abstract syntax is `e`".  No imports.
-/
namespace Pfst.Grammar

inductive Tok where
  | lp | rp                 -- grouping / call parentheses
  | sym (n : Nat)           -- operator, keyword or punctuation token
  | name (n : Nat)
  | int (n : Nat)
deriving DecidableEq, Repr, Inhabited

/-- The ladder of `python.gram` from `expression` up to `atom`. -/
def TEST := 0      -- expression: disjunction 'if' disjunction 'else' expression | lambdef
def OR := 1        -- disjunction
def AND := 2       -- conjunction
def NOT := 3       -- inversion
def CMP := 4       -- comparison
def BOR := 5       -- bitwise_or
def BXOR := 6
def BAND := 7
def SHIFT := 8     -- shift_expr
def ARITH := 9     -- sum
def TERM := 10     -- term
def FACTOR := 11   -- factor
def POWER := 12    -- power
def AWAIT := 13    -- await_primary
def ATOM := 14     -- primary / atom

/-- Syntactic class of a construct. -/
inductive Cls where
  | lad (l : Nat)   -- on the ladder, at level `l`
  | named           -- assignment expression  NAME ':=' expression
  | tuple           -- unparenthesised tuple / open sequence pattern  (star_expressions with a comma)
  | yieldc          -- yield_expr
  | star            -- '*' bitwise_or  /  '*' expression (cannot be parenthesised)
  | intlit          -- integer literal atom (an atom, but `1.x` does not lex as attribute access)
deriving DecidableEq, Repr, Inhabited

/-- An operand position: the lowest ladder level it accepts plus the off-ladder classes it accepts. -/
structure Slot where
  minLad : Nat
  named : Bool := false
  tuple : Bool := false
  yieldc : Bool := false
  star : Bool := false
  noInt : Bool := false
deriving DecidableEq, Repr, Inhabited

def sl (n : Nat) : Slot := { minLad := n }

/-- inside grouping parentheses: `'(' (yield_expr | named_expression) ')'` or a tuple -/
def top : Slot := { minLad := 0, named := true, tuple := true, yieldc := true }

def accepts (s : Slot) : Cls → Bool
  | .lad l => decide (s.minLad ≤ l)
  | .named => s.named
  | .tuple => s.tuple
  | .yieldc => s.yieldc
  | .star => s.star
  | .intlit => !s.noInt

/-- Operator / keyword token numbers (only distinctness matters). -/
def tPow := 20
def tIf := 40
def tElse := 41
def tLambda := 42
def tColon := 43
def tWalrus := 44
def tAwait := 45
def tYield := 46
def tFrom := 47
def tStar := 48
def tComma := 49
def tDot := 50
def tLb := 51
def tRb := 52
def tLc := 53
def tRc := 54
def tFor := 55
def tIn := 56
def tEq := 57
def tDStar := 58
def tNot := 59
def tReturn := 60
def tAs := 61
def tBar := 62
def tAssert := 63

/-- Binary operators: token number ↦ ladder level (`|`=5 … `**`=12). -/
def binLevel (op : Nat) : Nat :=
  match op with
  | 0 => BOR | 1 => BXOR | 2 => BAND | 3 => SHIFT | 4 => SHIFT | 5 => ARITH | 6 => ARITH
  | 7 => TERM | 8 => TERM | 9 => TERM | 10 => TERM | 11 => TERM | _ => POWER    -- 12 = `**`

inductive Kind where
  | bin (op : Nat)                 -- op < 12: left-assoc binary; 12: `**`
  | un (op : Nat)                  -- unary + - ~
  | not_
  | boolop (isOr : Bool)           -- n-ary, flattened
  | cmp (ops : List Nat)           -- chain
  | ifexp                          -- kids [body, test, orelse]
  | lambda                         -- kids [body]
  | named (target : Nat)           -- kids [value]
  | await_
  | yield_                         -- kids [value]
  | yieldFrom
  | star                           -- in displays / star_expressions: '*' bitwise_or
  | starArg                        -- in call arguments: '*' expression
  | tuple                          -- bare tuple, n ≥ 1
  | call (nargs : Nat) (kws : List Nat)   -- kids func :: args ++ keyword values
  | attr (name : Nat)
  | subscr                         -- kids [value, slice]
  | list | set
  | dict (keyed : List Bool)       -- per entry: true = `k: v` (2 kids), false = `**v` (1 kid)
  | comp (target : Nat) (nifs : Nat)      -- `[elt for t in iter if c …]`, kids elt :: iter :: ifs
  | exprStmt | assignValue (target : Nat) | returnValue | ifTest | assertTest
  | matchOr | matchAs (name : Nat) | matchSeq | matchSeqBare | matchClass (nargs : Nat)
deriving DecidableEq, Repr, Inhabited

def Kind.arityOk : Kind → Nat → Bool
  | .bin _, n => n == 2
  | .un _, n | .not_, n | .lambda, n | .named _, n | .await_, n | .yield_, n | .yieldFrom, n | .star, n | .starArg, n
  | .attr _, n | .exprStmt, n | .assignValue _, n | .returnValue, n | .ifTest, n | .assertTest, n | .matchAs _, n => n == 1
  | .boolop _, n | .matchOr, n => decide (2 ≤ n)
  | .cmp ops, n => n == ops.length + 1 && decide (1 ≤ ops.length)
  | .ifexp, n => n == 3
  | .tuple, n | .matchSeqBare, n | .set, n => decide (1 ≤ n)
  | .call na kws, n => n == 1 + na + kws.length
  | .subscr, n => n == 2
  | .list, _ | .matchSeq, _ => true
  | .dict keyed, n => n == (keyed.map (fun b => if b then 2 else 1)).sum
  | .comp _ nifs, n => n == 2 + nifs
  | .matchClass na, n => n == 1 + na

def Kind.cls : Kind → Cls
  | .bin op => .lad (binLevel op)
  | .un _ => .lad FACTOR
  | .not_ => .lad NOT
  | .boolop isOr => .lad (if isOr then OR else AND)
  | .cmp _ => .lad CMP
  | .ifexp | .lambda => .lad TEST
  | .named _ => .named
  | .await_ => .lad AWAIT
  | .yield_ | .yieldFrom => .yieldc
  | .star | .starArg => .star
  | .tuple | .matchSeqBare => .tuple
  | .call _ _ | .attr _ | .subscr | .list | .set | .dict _ | .comp _ _ | .matchSeq | .matchClass _ => .lad ATOM
  | .exprStmt | .assignValue _ | .returnValue | .ifTest | .assertTest => .lad TEST
  | .matchOr => .lad BOR          -- or_pattern
  | .matchAs _ => .lad TEST       -- as_pattern

def dictSlots : List Bool → List Slot
  | [] => []
  | true :: r => sl TEST :: sl TEST :: dictSlots r
  | false :: r => sl BOR :: dictSlots r

/-- The slot of child `i` of a node of kind `k` (the grammar's nonterminal at that position). -/
def Kind.slot (k : Kind) (i : Nat) : Slot :=
  match k with
  | .bin op =>
    if op ≥ 12 then (if i == 0 then sl AWAIT else sl FACTOR)          -- power: await_primary '**' factor
    else (if i == 0 then sl (binLevel op) else sl (binLevel op + 1))  -- left recursion
  | .un _ => sl FACTOR
  | .not_ => sl NOT
  | .boolop isOr => sl (if isOr then AND else NOT)
  | .cmp _ => sl BOR
  | .ifexp => if i == 2 then sl TEST else sl OR
  | .lambda => sl TEST
  | .named _ => sl TEST
  | .await_ => sl ATOM
  | .yield_ => { minLad := TEST, tuple := true }
  | .yieldFrom => sl TEST
  | .star => sl BOR
  | .starArg => sl TEST
  | .tuple => { minLad := TEST, star := true }
  | .call na _ => if i == 0 then sl ATOM else if i ≤ na then { minLad := TEST, named := true, star := true } else sl TEST
  | .attr _ => { minLad := ATOM, noInt := true }
  | .subscr => if i == 0 then sl ATOM else { minLad := TEST, named := true, tuple := true }
  | .list | .set => { minLad := TEST, named := true, star := true }
  | .dict keyed => (dictSlots keyed).getD i (sl TEST)
  | .comp _ _ => if i == 0 then { minLad := TEST, named := true } else sl OR
  | .exprStmt | .assignValue _ => { minLad := TEST, tuple := true, yieldc := true }
  | .returnValue => { minLad := TEST, tuple := true }
  | .ifTest => { minLad := TEST, named := true }
  | .assertTest => sl TEST
  | .matchOr => sl (BOR + 1)       -- closed_pattern
  | .matchAs _ => sl BOR           -- or_pattern 'as' NAME
  | .matchSeq | .matchSeqBare => sl TEST
  | .matchClass _ => if i == 0 then sl ATOM else sl TEST

def sepBy (sep : List Tok) : List (List Tok) → List Tok
  | [] => []
  | [x] => x
  | x :: y :: r => x ++ sep ++ sepBy sep (y :: r)

def cmpRender : List Nat → List (List Tok) → List Tok
  | op :: ops, x :: r => Tok.sym op :: x ++ cmpRender ops r
  | _, _ => []

def dictRender : List Bool → List (List Tok) → List (List Tok)
  | true :: r, k :: v :: rest => (k ++ [Tok.sym tColon] ++ v) :: dictRender r rest
  | false :: r, v :: rest => (Tok.sym tDStar :: v) :: dictRender r rest
  | _, _ => []

def kwRender : List Nat → List (List Tok) → List (List Tok)
  | n :: r, v :: rest => (Tok.name n :: Tok.sym tEq :: v) :: kwRender r rest
  | _, _ => []

def ifsRender : List (List Tok) → List Tok
  | [] => []
  | c :: r => Tok.sym tIf :: c ++ ifsRender r

/-- Concrete syntax of a node given the token lists of its children. -/
def Kind.render (k : Kind) (ts : List (List Tok)) : List Tok :=
  match k, ts with
  | .bin op, [l, r] => l ++ [Tok.sym (if op ≥ 12 then tPow else op)] ++ r
  | .un op, [x] => Tok.sym (30 + op) :: x
  | .not_, [x] => Tok.sym tNot :: x
  | .boolop isOr, ts => sepBy [Tok.sym (if isOr then 70 else 71)] ts
  | .cmp ops, x :: r => x ++ cmpRender ops r
  | .ifexp, [b, t, o] => b ++ [Tok.sym tIf] ++ t ++ [Tok.sym tElse] ++ o
  | .lambda, [b] => Tok.sym tLambda :: Tok.sym tColon :: b
  | .named t, [v] => Tok.name t :: Tok.sym tWalrus :: v
  | .await_, [x] => Tok.sym tAwait :: x
  | .yield_, [x] => Tok.sym tYield :: x
  | .yieldFrom, [x] => Tok.sym tYield :: Tok.sym tFrom :: x
  | .star, [x] | .starArg, [x] => Tok.sym tStar :: x
  | .tuple, [x] | .matchSeqBare, [x] => x ++ [Tok.sym tComma]
  | .tuple, ts | .matchSeqBare, ts => sepBy [Tok.sym tComma] ts
  | .call na kws, f :: rest => f ++ [Tok.lp] ++ sepBy [Tok.sym tComma] (rest.take na ++ kwRender kws (rest.drop na)) ++ [Tok.rp]
  | .attr n, [v] => v ++ [Tok.sym tDot, Tok.name n]
  | .subscr, [v, s] => v ++ [Tok.sym tLb] ++ s ++ [Tok.sym tRb]
  | .list, ts | .matchSeq, ts => Tok.sym tLb :: sepBy [Tok.sym tComma] ts ++ [Tok.sym tRb]
  | .set, ts => Tok.sym tLc :: sepBy [Tok.sym tComma] ts ++ [Tok.sym tRc]
  | .dict keyed, ts => Tok.sym tLc :: sepBy [Tok.sym tComma] (dictRender keyed ts) ++ [Tok.sym tRc]
  | .comp t _, e :: it :: ifs => Tok.sym tLb :: e ++ [Tok.sym tFor, Tok.name t, Tok.sym tIn] ++ it ++ ifsRender ifs ++ [Tok.sym tRb]
  | .exprStmt, [x] => x
  | .assignValue t, [x] => Tok.name t :: Tok.sym tEq :: x
  | .returnValue, [x] => Tok.sym tReturn :: x
  | .ifTest, [x] => Tok.sym tIf :: x ++ [Tok.sym tColon]
  | .assertTest, [x] => Tok.sym tAssert :: x
  | .matchOr, ts => sepBy [Tok.sym tBar] ts
  | .matchAs n, [p] => p ++ [Tok.sym tAs, Tok.name n]
  | .matchClass _, c :: rest => c ++ [Tok.lp] ++ sepBy [Tok.sym tComma] rest ++ [Tok.rp]
  | _, _ => []

/-- Abstract syntax. -/
inductive E where
  | leaf (t : Tok) (c : Cls)
  | node (k : Kind) (kids : List E)
deriving Repr, Inhabited

def E.cls : E → Cls
  | .leaf _ c => c
  | .node k _ => k.cls

/-- can be wrapped in grouping parentheses (everything except a starred expression) -/
def parenable (c : Cls) : Bool := accepts top c

mutual
/-- The grammar. -/
inductive Derives : Slot → List Tok → E → Prop where
  | leaf (s : Slot) (t : Tok) (c : Cls) : accepts s c = true → Derives s [t] (.leaf t c)
  | node (s : Slot) (k : Kind) (kids : List E) (tss : List (List Tok)) :
      k.arityOk kids.length = true → accepts s k.cls = true → DerivesL k 0 kids tss →
      Derives s (k.render tss) (.node k kids)
  /-- a parenthesised group is an atom: accepted by every slot -/
  | paren (s : Slot) (ts : List Tok) (e : E) : parenable e.cls = true → Derives top ts e →
      Derives s (Tok.lp :: ts ++ [Tok.rp]) e
inductive DerivesL : Kind → Nat → List E → List (List Tok) → Prop where
  | nil (k : Kind) (i : Nat) : DerivesL k i [] []
  | cons (k : Kind) (i : Nat) (e : E) (es : List E) (ts : List Tok) (tss : List (List Tok)) :
      Derives (k.slot i) ts e → DerivesL k (i + 1) es tss → DerivesL k i (e :: es) (ts :: tss)
end

def wrap (b : Bool) (ts : List Tok) : List Tok := if b then Tok.lp :: ts ++ [Tok.rp] else ts

mutual
/-- Printer with parenthesisation policy `P slot class`. -/
def pr (P : Slot → Cls → Bool) (s : Slot) : E → List Tok
  | .leaf t c => wrap (P s c) [t]
  | .node k kids => wrap (P s k.cls) (k.render (prL P k 0 kids))
def prL (P : Slot → Cls → Bool) (k : Kind) (i : Nat) : List E → List (List Tok)
  | [] => []
  | e :: es => pr P (k.slot i) e :: prL P k (i + 1) es
end

mutual
/-- well-formed abstract syntax: arities fit and every node either is accepted by its slot or can be parenthesised -/
def wf (s : Slot) : E → Bool
  | .leaf _ c => accepts s c || parenable c
  | .node k kids => k.arityOk kids.length && (accepts s k.cls || parenable k.cls) && wfL k 0 kids
def wfL (k : Kind) (i : Nat) : List E → Bool
  | [] => true
  | e :: es => wf (k.slot i) e && wfL k (i + 1) es
end

/-- what the grammar requires: parentheses exactly when the slot does not accept the class -/
def specNeed (s : Slot) (c : Cls) : Bool := !accepts s c

/-- the minimal policy -/
def minimal : Slot → Cls → Bool := specNeed

end Pfst.Grammar
