import Pfst.SubLemmas

/-!
# C18 — substitution rewrites exactly the matched nodes with the filled-in template

Property theorems about the model of `FST.subn` (`Pfst/Sub.lean`): the walk driven by `search` with its mutation
rules, the `dirty` set, `count`, `loop`, the slice-vs-one decision of every template slot and the index arithmetic of
`_sub_quantifier_list_edge_item`.  The matcher is a parameter (`P.mtch`; C17 is about the matcher).  Trees carry the
mark `dirty` (membership in the Python set `dirty`); `clean`/`cleanList` erase the marks, which is what `ast.dump`
sees.  The model is compared with the real `subn` on every run (harness/props/C18.py).
-/
namespace Pfst.C18
open Pfst.Sub

/-- the template fills for every match (no documented refusal, no put outside the modelled set) -/
def Fills (P : Params) : Prop := ∀ env u, ∃ r s, fillRoot P.isStmt P.tmpl env u = .ok (r, s)

/-- **sub_spec.** `nested=False`, no `loop`, no `count`: the result of the driver (stack walk, `dirty` test, countdown,
`break`) is exactly the independent reference transformer: every outermost matching node replaced by the filled
template, nothing else touched, nothing inside a replacement looked at. Any tree, any matcher, any template. -/
theorem sub_spec (P : Params) (hn : P.nested = false) (hl : P.loop = none) (hf : Fills P)
    (fuel : Nat) (t : Tree) (hh : height t ≤ fuel) (hc : isClean t = true) :
    (run P false 0 fuel t).trees = rewriteOutermost P.mtch (fillD P) t ∧ (run P false 0 fuel t).err = 0 := by
  have p := enter_flat P hn hl hf fuel t ⟨0, 0, false, 0, []⟩ hh hc rfl (by decide)
  exact ⟨p.trees, p.err⟩

/-- **sub_counts.** In the same setting both reported counts equal the number of rewritten positions. -/
theorem sub_counts (P : Params) (hn : P.nested = false) (hl : P.loop = none) (hf : Fills P)
    (fuel : Nat) (t : Tree) (hh : height t ≤ fuel) (hc : isClean t = true) :
    (run P false 0 fuel t).unique = countOutermost P.mtch t ∧ (run P false 0 fuel t).total = countOutermost P.mtch t := by
  have p := enter_flat P hn hl hf fuel t ⟨0, 0, false, 0, []⟩ hh hc rfl (by decide)
  refine ⟨?_, ?_⟩
  · have hcnt := p.count
    dsimp only at hcnt
    show uniqueOf 0 (enterNode P fuel t ⟨0, 0, false, 0, []⟩).2.count = _
    simp only [uniqueOf]
    split <;> omega
  · have := p.total
    dsimp only at this
    show (enterNode P fuel t ⟨0, 0, false, 0, []⟩).2.total = _
    omega

/-- **sub_counts (cap).** `count = k > 0` caps the number of unique substitutions at `k` — for every setting of
`nested`, `loop`, `on`, every template and matcher (the countdown never passes zero).
Full statement `unique = min k (number of matches in walk order)` is not proved (`…_partial` in that sense); the
equality is checked on every correspondence case. -/
theorem sub_counts_cap (P : Params) (onLeave : Bool) (k : Int) (hk : 0 < k) (fuel : Nat) (t : Tree) :
    0 ≤ (run P onLeave k fuel t).unique ∧ (run P onLeave k fuel t).unique ≤ k := by
  have h0 : CapInv k ⟨k, 0, false, 0, []⟩ := ⟨Int.le_refl k, Or.inl hk⟩
  have hck : clamp k = k := by simp only [clamp]; split <;> omega
  cases onLeave with
  | false =>
    obtain ⟨p1, p2⟩ := enter_cap P k fuel t _ h0
    show 0 ≤ uniqueOf (clamp k) (enterNode P fuel t ⟨clamp k, 0, false, 0, []⟩).2.count ∧
      uniqueOf (clamp k) (enterNode P fuel t ⟨clamp k, 0, false, 0, []⟩).2.count ≤ k
    rw [hck]
    simp only [uniqueOf]
    split <;> omega
  | true =>
    obtain ⟨p1, p2⟩ := leave_cap P k fuel t _ h0
    show 0 ≤ uniqueOf (clamp k) (leaveNode P fuel t ⟨clamp k, 0, false, 0, []⟩).2.count ∧
      uniqueOf (clamp k) (leaveNode P fuel t ⟨clamp k, 0, false, 0, []⟩).2.count ≤ k
    rw [hck]
    simp only [uniqueOf]
    split <;> omega

/-- **sub_frame.** A subtree in which nothing matches is returned unchanged and costs no count — for every setting
(`nested`, `loop`, `count`, `on`), every template. -/
theorem sub_frame (P : Params) (onLeave : Bool) (count : Int) (fuel : Nat) (t : Tree) (hh : height t ≤ fuel)
    (hno : noMatch P.mtch t = true) :
    (run P onLeave count fuel t).trees = [t] ∧ (run P onLeave count fuel t).unique = 0
      ∧ (run P onLeave count fuel t).total = 0 := by
  have hcl : 0 ≤ clamp count := by simp only [clamp]; split <;> omega
  cases onLeave with
  | false =>
    have p := enter_frame P fuel t ⟨clamp count, 0, false, 0, []⟩ hh hno
    refine ⟨p.trees, ?_, p.total⟩
    have := p.count
    dsimp only at this
    show uniqueOf (clamp count) (enterNode P fuel t ⟨clamp count, 0, false, 0, []⟩).2.count = 0
    simp only [uniqueOf]
    split <;> omega
  | true =>
    have p := leave_frame P fuel t ⟨clamp count, 0, false, 0, []⟩ hh hno
    refine ⟨p.trees, ?_, p.total⟩
    have := p.count
    dsimp only at this
    show uniqueOf (clamp count) (leaveNode P fuel t ⟨clamp count, 0, false, 0, []⟩).2.count = 0
    simp only [uniqueOf]
    split <;> omega

/-- **sub_frame (siblings).** While the children of a node are walked, every child in which nothing matches comes out
unchanged, whatever happens to its siblings (any setting). -/
theorem sub_frame_kids (P : Params) (f : Nat) (ks : List Tree) (st : St) (hh : heightL ks ≤ f)
    (hno : noMatchL P.mtch ks = true) : (mapKids (enterNode P f) ks st).1 = ks :=
  (mapKids_frame P.mtch f (enterNode P f) (enter_frame P f) ks st hh hno).trees

/-- **sub_frame (node).** A node that does not match keeps its label and mark; only its children are processed. -/
theorem sub_frame_node (P : Params) (hn : P.nested = false) (hl : P.loop = none) (hf : Fills P) (fuel : Nat)
    (l : Nat) (ks : List Tree) (hh : height (.node l false ks) ≤ fuel) (hc : isClean (.node l false ks) = true)
    (hm : P.mtch (.node l false ks) = none) :
    (run P false 0 fuel (.node l false ks)).trees = [.node l false (rewriteOutermostL P.mtch (fillD P) ks)] := by
  rw [(sub_spec P hn hl hf fuel _ hh hc).1]
  simp only [rewriteOutermost, hm]

/-- **sub_wrapper.** The wrapper is the identity on parameters: for every setting `sub p = (subn p).1`.  In the model this
holds by definition; that the real wrappers (`FST.sub`, `fst.match.sub`, the command line tool) forward every parameter
is checked on every run by the wrapper sweep (harness/c18_wrap.py). -/
theorem sub_wrapper (P : Params) (onLeave : Bool) (count : Int) (fuel : Nat) (t : Tree) :
    sub P onLeave count fuel t = (run P onLeave count fuel t).trees := rfl

/-- the whole-match template `__FST_` (any prefix letter) always fills, with a marked copy of the match -/
theorem fills_identity (P : Params) (il : Bool) (ov : Option Bool) (ht : P.tmpl = .single (.slot none il ov)) :
    Fills P ∧ fillD P = fun _ u => [markRoot true (clean u)] := by
  refine ⟨fun env u => ⟨[markRoot true (clean u)], false, by simp [fillRoot, ht, resolve]⟩, ?_⟩
  funext env u
  simp [fillD, fillRoot, ht, resolve]

/-- **sub_identity.** A template that is only the whole-match slot leaves the structure unchanged (marks erased =
what `ast.dump` shows) and both counts equal the number of matches visited. -/
theorem sub_identity (P : Params) (hn : P.nested = false) (hl : P.loop = none) (il : Bool) (ov : Option Bool)
    (ht : P.tmpl = .single (.slot none il ov)) (fuel : Nat) (t : Tree) (hh : height t ≤ fuel)
    (hc : isClean t = true) :
    cleanList (run P false 0 fuel t).trees = [t] ∧ (run P false 0 fuel t).unique = countOutermost P.mtch t
      ∧ (run P false 0 fuel t).total = countOutermost P.mtch t := by
  obtain ⟨hf, hd⟩ := fills_identity P il ov ht
  refine ⟨?_, sub_counts P hn hl hf fuel t hh hc⟩
  rw [(sub_spec P hn hl hf fuel t hh hc).1, hd, clean_rewrite_id, clean_of_isClean t hc]

/-- **edge_item.** When the elements a quantifier captured are contiguous (`stop_i = start_{i+1}`), the first/last
index arithmetic of `_sub_quantifier_list_edge_item` followed by `_get_slice(first, last)` yields exactly the captured
elements, in order — through empty sub-lists, nested sub-sequence matches and one-element views. -/
theorem edge_item (field : List Tree) (q : List QItem) (p : Nat × Nat) (r : List (Nat × Nat))
    (hq : flatQ q = p :: r) (hc : Contig (p :: r)) : qSlice field q = some (segs field (flatQ q)) := by
  obtain ⟨e, he, _⟩ := contig_le p r hc
  have hs := segs_contig field p r hc e he
  cases q with
  | nil => simp [flatQ] at hq
  | cons x xs =>
    simp only [qSlice, edgeItem_first, edgeItem_last, hq, he, List.head?_cons, Option.map_some]
    rw [hs]

/-- **edge_item (virtual fields).** For elements living in `Call.args` / `Call.keywords` (`ClassDef.bases` /
`keywords`) the index used is the position in the virtual field `_args` (`_bases`), i.e. in SOURCE order.  When the
captured elements are consecutive in source order, the substituted slice is exactly the captured elements, in source
order — whatever mixture of positional, starred and keyword arguments they are. -/
theorem edge_item_virtual (field : List Tree) (order : List (Nat × Nat)) (q : List RItem) (p : Nat × Nat)
    (r : List (Nat × Nat)) (hq : flatR q = p :: r) (hc : Contig (virtPairs order (p :: r))) :
    qSlice field (virtQ order q) = some (elemsAt field order (flatR q)) := by
  have h1 : flatQ (virtQ order q) = virtPairs order (p :: r) := by rw [flatQ_virtQ, hq]
  have h2 := edge_item field (virtQ order q) _ _ (by rw [h1]; rfl) (by simpa [virtPairs] using hc)
  rw [h2, h1, segs_virtPairs, hq]

/-- no captured element: the slot is deleted (`repl_slot_new = None`) -/
theorem edge_item_empty (field : List Tree) (q : List QItem) (hq : flatQ q = []) : qSlice field q = none := by
  cases q with
  | nil => rfl
  | cons x xs => simp only [qSlice, edgeItem_first, hq, List.head?_nil, Option.map_none]

/-- **sub_nested (dirty nodes).** A node of the template (dirty) is never substituted, whatever the matcher says:
it keeps its label; only its children are walked. -/
theorem nested_dirty_kept (P : Params) (f : Nat) (l : Nat) (ks : List Tree) (st : St) :
    ∃ ks' st', enterNode P f (.node l true ks) st = ([.node l true ks'], st') := by
  cases f with
  | zero => exact ⟨ks, _, rfl⟩
  | succ f =>
    rw [enterNode]
    dsimp only
    split
    · exact ⟨_, _, rfl⟩
    · split
      · exact ⟨_, _, rfl⟩
      · simp only [if_true]
        split
        · exact ⟨_, _, rfl⟩
        · exact ⟨_, _, rfl⟩

/-- **sub_nested (identity template).** `nested=True`: every matching node at every depth is substituted exactly once,
top-down (the walk continues inside the replacement, the root of the copy is not substituted again), the structure is
unchanged and both counts equal the number of ALL matching nodes.

Full statement for arbitrary templates (not proved, `sub_nested_partial` in that sense; it is what the correspondence
and the reference sweep check on every run):
  `nested = true → loop = none → tmpl = single _ →
     clean (run …).trees = rewriteAll t` where `rewriteAll` replaces a matching node by the template whose captures
  have been rewritten recursively and leaves template nodes alone.
Proved here: this theorem, `nested_dirty_kept` (template nodes are never substituted, only walked through) and the
concrete instance `ex_nested` below. -/
theorem sub_nested_id (P : Params) (hn : P.nested = true) (hl : P.loop = none) (il : Bool) (ov : Option Bool)
    (ht : P.tmpl = .single (.slot none il ov)) (fuel : Nat) (t : Tree) (hh : height t ≤ fuel)
    (hc : isClean t = true) :
    cleanList (run P false 0 fuel t).trees = [t] ∧ (run P false 0 fuel t).unique = countAll P.mtch t
      ∧ (run P false 0 fuel t).total = countAll P.mtch t ∧ (run P false 0 fuel t).err = 0 := by
  have p := enter_nested_id P hn hl il ov ht fuel t ⟨0, 0, false, 0, []⟩ hh hc rfl (by decide)
  refine ⟨p.trees, ?_, ?_, p.err⟩
  · have hcnt := p.count
    dsimp only at hcnt
    show uniqueOf 0 (enterNode P fuel t ⟨0, 0, false, 0, []⟩).2.count = _
    simp only [uniqueOf]
    split <;> omega
  · have := p.total
    dsimp only at this
    show (enterNode P fuel t ⟨0, 0, false, 0, []⟩).2.total = _
    omega

/-! ## Non-vacuity: a concrete tree, matcher and template meet the hypotheses and give a non-trivial result

Labels: 1 = `Call`-like node whose children are its arguments, 3 4 9 = leaves.  `exT` is `f(g(a), b)`; the matcher
is `MCall(args=M(x=...))` (whole argument list as a slice capture); the template is `h(k, __FST_x, __FST_)`. -/

def exT : Tree := .node 1 false [.node 1 false [.node 3 false []], .node 4 false []]
def exM : Tree → Option Env := fun t => if t.lbl == 1 then some [(0, .view t.kids false)] else none
def exTmpl : TRoot := .single (.node 1 [.node 9 [], .slot (some 0) true none, .slot none true none])
def exP (nested : Bool) : Params := ⟨exM, fun _ => false, exTmpl, nested, none, 8⟩

example : isClean exT = true ∧ height exT ≤ 10 ∧ countOutermost exM exT = 1 ∧ countAll exM exT = 2 := by decide

example : Fills (exP false) := by
  intro env u
  simp only [exP, exTmpl, fillRoot, fillKids, fillT, fillSlot, resolve, decideOne, R.cat]
  cases List.lookup 0 env with
  | none => exact ⟨_, _, rfl⟩
  | some c =>
    cases c with
    | one t r => exact ⟨_, _, rfl⟩
    | view ts s => exact ⟨_, _, rfl⟩
    | qlist fl q s =>
      simp only []
      cases qSlice fl q with
      | none => exact ⟨_, _, rfl⟩
      | some ts => exact ⟨_, _, rfl⟩
    | qlistV fl o q s =>
      simp only []
      cases qSlice fl (virtQ o q) with
      | none => exact ⟨_, _, rfl⟩
      | some ts => exact ⟨_, _, rfl⟩

/-- flat: `h(k, g(a), b, f(g(a), b))`, one substitution; the slice capture is spliced in -/
example : Tree.beqL (cleanList (run (exP false) false 0 10 exT).trees)
    [.node 1 false [.node 9 false [], .node 1 false [.node 3 false []], .node 4 false [],
                    .node 1 false [.node 1 false [.node 3 false []], .node 4 false []]]] = true
    ∧ (run (exP false) false 0 10 exT).unique = 1 := by decide

/-- nested: the captured `g(a)` and the `g(a)` inside the copy of the whole match are rewritten too (3 in all);
the template node `k` and the root of the copy are not -/
theorem ex_nested : Tree.beqL (cleanList (run (exP true) false 0 10 exT).trees)
    [.node 1 false [.node 9 false [],
                    .node 1 false [.node 9 false [], .node 3 false [], .node 1 false [.node 3 false []]],
                    .node 4 false [],
                    .node 1 false [.node 1 false [.node 9 false [], .node 3 false [], .node 1 false [.node 3 false []]],
                                   .node 4 false []]]] = true
    ∧ (run (exP true) false 0 10 exT).unique = 3 ∧ (run (exP true) false 0 10 exT).total = 3 := by decide

/-- `count=1` stops after the first substitution; `on='leave'` substitutes bottom-up (2 matches) -/
example : (run (exP true) false 1 10 exT).unique = 1 ∧ (run (exP true) true 0 10 exT).unique = 2 := by decide

/-- `loop=2`: the replacement (it is a label-1 node again) is substituted a second time at the same location -/
example : (run ⟨exM, fun _ => false, exTmpl, false, some 2, 8⟩ false 0 10 exT).unique = 1
    ∧ (run ⟨exM, fun _ => false, exTmpl, false, some 2, 8⟩ false 0 10 exT).total = 2 := by decide

/-- edge items: `[one 1..2, empty sub-list, sub-list (2..3, 3..4)]` is contiguous and yields elements 1, 2, 3 -/
def exQ : List QItem := [.one 1 2, .many [], .many [(2, 3), (3, 4)]]
example : Contig (flatQ exQ) := by simp [exQ, flatQ, Contig]
example : edgeItem exQ false = some 1 ∧ edgeItem exQ true = some 4 := by decide

/-- virtual field: `log(fmt, level=1, *extra)`: args = [fmt, *extra], keywords = [level=1]; source order of `_args` is
fmt (0,0), level=1 (1,0), *extra (0,1).  The capture `rest = [level=1, *extra]` maps to the virtual range 1..3 and
yields exactly those two elements; with the raw `args` index of `*extra` (1) the range would be 1..2 and lose it. -/
def exOrder : List (Nat × Nat) := [(0, 0), (1, 0), (0, 1)]
def exField : List Tree := [.node 30 false [], .node 31 false [], .node 32 false []]
def exR : List RItem := [.one 1 0, .one 0 1]
example : Contig (virtPairs exOrder (flatR exR)) := by simp [exOrder, exR, flatR, virtPairs, virtIdx, Contig]
example : (match qSlice exField (virtQ exOrder exR) with
           | some ts => Tree.beqL ts [.node 31 false [], .node 32 false []]
           | none => false) = true
    ∧ edgeItem (virtQ exOrder exR) true = some 3 ∧ edgeItem [QItem.one 1 2, QItem.one 1 2] true = some 2 := by decide

end Pfst.C18
