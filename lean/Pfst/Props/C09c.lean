import Pfst.ParseSound
import Pfst.Props.C09

/-!
# C09c — the spec grammar is unambiguous on the operator fragment; the printer round-trips through a parser

`Pfst/Parse.lean` is an executable precedence-climbing parser written from the grammar's levels and operand slots.
On the fragment `inFrag` (names, integer literals, parenthesised groups, all binary operators incl. `**`, unary
`+ - ~`, `not`, n-ary `and`/`or`, comparison chains, conditional expression, `lambda:`, `await`, and the postfix
trailers: attribute access, subscript by an expression, call with positional expression arguments):

* `parse_iff`      the parser decides the grammar: `parse s ts = some e  ↔  Derives s ts e ∧ inFrag e`;
* `derives_unique` a phrase derives at most one tree of the fragment (unambiguity);
* `parse_pr`       printing with ANY covering policy and parsing gives the tree back (parentheses are transparent),
                   also in front of any continuation `rest` that cannot extend the phrase (`follow`);
* `replace_groups_unique`  the printed phrase of a tree with a replaced operand derives ONLY that tree.

Kinds covered: `bin op` (op ≤ 12), `un op` (op < 3), `not_`, `boolop _`, `cmp ops` (ops ∈ 80..89), `ifexp`, `lambda`,
`await_`, `attr _`, `subscr`, `call n []` — with all children again in the fragment (so: no starred / named / keyword
arguments, no tuple or slice as subscript).  Not covered (still validated against CPython only): `named`, `yield_`,
`yieldFrom`, `star`, `starArg`, `tuple`, `call` with keywords, displays, comprehensions, statement and pattern kinds.  Uniqueness is *within the fragment*:
the relation `Derives` lets a leaf carry any class and has unit-like kinds (`exprStmt`), so a tree outside the fragment
can share a phrase with one inside (`derives_unique_false_outside_fragment` gives the witnesses).
-/
namespace Pfst.C09c
open Pfst.Grammar Pfst.Parse Pfst.C09

/-- **The parser is complete for the grammar, in front of any continuation.**  `follow s.minLad rest` says precisely:
the first token of `rest` (if any) is not an infix-operator token — binary operator, `**`, comparison operator, `and`,
`or`, `if`, or a trailer opener `(` `[` `.` (level `ATOM`) — whose construct has ladder level `≥ s.minLad` (such a
token would continue the phrase). -/
theorem parse_derives (s : Slot) (ts : List Tok) (e : E) (rest : List Tok) (hd : Derives s ts e)
    (hf : inFrag e = true) (hfol : follow s.minLad rest = true) : parseE s (ts ++ rest) = some (e, rest) :=
  parse_complete rest hd hf hfol

/-- **The parser decides the grammar on the fragment** (every slot of the grammar has `minLad ≤ ATOM`). -/
theorem parse_iff (s : Slot) (hs : s.minLad ≤ ATOM) (ts : List Tok) (e : E) :
    parse s ts = some e ↔ (Derives s ts e ∧ inFrag e = true) := by
  constructor
  · intro h
    unfold parse at h
    split at h
    · next e1 heq =>
      simp only [Option.some.injEq] at h
      subst h
      obtain ⟨pre, hpre, hd, hf⟩ := parse_sound hs heq
      rw [List.append_nil] at hpre
      subst hpre
      exact ⟨hd, hf⟩
    · cases h
  · intro ⟨hd, hf⟩
    exact parse_complete_nil hd hf

/-- **Unambiguity**: a phrase derives at most one tree of the fragment. -/
theorem derives_unique (s : Slot) (ts : List Tok) (e₁ e₂ : E) (h₁ : Derives s ts e₁) (h₂ : Derives s ts e₂)
    (f₁ : inFrag e₁ = true) (f₂ : inFrag e₂ = true) : e₁ = e₂ := by
  have a := parse_complete_nil h₁ f₁
  have b := parse_complete_nil h₂ f₂
  rw [a] at b
  exact Option.some.inj b

/-- **Round trip, any covering policy**: for every well-formed tree of the fragment, every slot, every policy `P`
that parenthesises at least where the grammar needs it (over-parenthesising allowed: parentheses are transparent),
the parser gives the tree back and leaves exactly `rest`, whenever `rest` cannot continue the phrase. -/
theorem parse_pr (P : Slot → Cls → Bool)
    (hneed : ∀ s c, specNeed s c = true → P s c = true)
    (hpar : ∀ s c, P s c = true → accepts s c = true → parenable c = true)
    (s : Slot) (e : E) (rest : List Tok) (hw : wf s e = true) (hf : inFrag e = true)
    (hfol : follow s.minLad rest = true) : parseE s (pr P s e ++ rest) = some (e, rest) :=
  parse_complete rest (pr_derives P hneed hpar s e hw) hf hfol

/-- round trip with the minimal policy -/
theorem parse_pr_minimal (s : Slot) (e : E) (rest : List Tok) (hw : wf s e = true) (hf : inFrag e = true)
    (hfol : follow s.minLad rest = true) : parseE s (pr minimal s e ++ rest) = some (e, rest) :=
  parse_complete rest (pr_minimal_derives s e hw) hf hfol

/-- round trip on a whole phrase -/
theorem parse_pr_whole (s : Slot) (e : E) (hw : wf s e = true) (hf : inFrag e = true) :
    parse s (pr minimal s e) = some e :=
  parse_complete_nil (pr_minimal_derives s e hw) hf

/-- **The printed phrase derives only the intended tree**: `pr_derives` + unambiguity. -/
theorem pr_derives_only (P : Slot → Cls → Bool)
    (hneed : ∀ s c, specNeed s c = true → P s c = true)
    (hpar : ∀ s c, P s c = true → accepts s c = true → parenable c = true)
    (s : Slot) (e e' : E) (hw : wf s e = true) (hf : inFrag e = true) (hf' : inFrag e' = true)
    (hd : Derives s (pr P s e) e') : e' = e :=
  derives_unique s _ e' e hd (pr_derives P hneed hpar s e hw) hf' hf

/-- **Replacing an operand and printing with a covering policy yields a phrase that derives ONLY the parent with
exactly that replacement in that position** (closes the gap left by `C09.replace_groups`, which shows that it derives
that tree, not that it derives no other). -/
theorem replace_groups_unique (P : Slot → Cls → Bool)
    (hneed : ∀ s c, specNeed s c = true → P s c = true)
    (hpar : ∀ s c, P s c = true → accepts s c = true → parenable c = true)
    (s : Slot) (e r : E) (i : Nat) (e' : E) (hw : wf s (setKid e i r) = true)
    (hf : inFrag (setKid e i r) = true) (hf' : inFrag e' = true)
    (hd : Derives s (pr P s (setKid e i r)) e') : e' = setKid e i r :=
  pr_derives_only P hneed hpar s _ e' hw hf hf' hd

/-! ### why the fragment hypothesis is needed: outside it the relation `Derives` is NOT unambiguous -/

/-- Full-strength unambiguity (`∀ e₁ e₂`, no `inFrag`) is false of the grammar as modelled: `Derives.leaf` lets a leaf
carry any class, statement kinds such as `exprStmt` render exactly like their child, and the two kinds of starred
expression (`star`: `'*' bitwise_or` in displays, `starArg`: `'*' expression` in calls) render alike and share the class
`star` — which of them a slot means is fixed by the context, not by `Derives`.  Concrete witnesses: -/
theorem derives_unique_false_outside_fragment :
    (∃ e₁ e₂, Derives (sl TEST) [.name 0] e₁ ∧ Derives (sl TEST) [.name 0] e₂ ∧ e₁ ≠ e₂) ∧
    (∃ e₁ e₂, Derives { minLad := TEST, named := true, star := true } [.sym tStar, .name 0] e₁ ∧
      Derives { minLad := TEST, named := true, star := true } [.sym tStar, .name 0] e₂ ∧ e₁ ≠ e₂) := by
  refine ⟨⟨.leaf (.name 0) (.lad ATOM), .node .exprStmt [.leaf (.name 0) (.lad ATOM)], ?_, ?_, by simp⟩,
    ⟨.node .star [.leaf (.name 0) (.lad ATOM)], .node .starArg [.leaf (.name 0) (.lad ATOM)], ?_, ?_, by simp⟩⟩
  · exact Derives.leaf _ _ _ (by decide)
  · exact Derives.node (sl TEST) .exprStmt [_] [[.name 0]] rfl (by decide)
      (DerivesL.cons _ 0 _ [] [.name 0] [] (Derives.leaf _ _ _ (by decide)) (DerivesL.nil _ 1))
  · exact Derives.node _ .star [_] [[.name 0]] rfl (by decide)
      (DerivesL.cons _ 0 _ [] [.name 0] [] (Derives.leaf _ _ _ (by decide)) (DerivesL.nil _ 1))
  · exact Derives.node _ .starArg [_] [[.name 0]] rfl (by decide)
      (DerivesL.cons _ 0 _ [] [.name 0] [] (Derives.leaf _ _ _ (by decide)) (DerivesL.nil _ 1))

/-! ### non-vacuity -/

private def nm (i : Nat) : E := .leaf (.name i) (.lad ATOM)
private def a := nm 0
private def b := nm 1
private def c := nm 2
private def d := nm 3
private def g := nm 4
private def ta : Tok := .name 0
private def tb : Tok := .name 1
private def tc : Tok := .name 2
private def td : Tok := .name 3
private def tg : Tok := .name 4

/-- `not (a + b * -c ** d) < 7 <= (a if b else c)  or  d and (lambda: a | b) and not await g ** -a` -/
private def big : E :=
  .node (.boolop true)
    [.node .not_ [.node (.cmp [82, 83])
        [.node (.bin 5) [a, .node (.bin 7) [b, .node (.un 1) [.node (.bin 12) [c, d]]]],
         .leaf (.int 7) .intlit,
         .node .ifexp [a, b, c]]],
     .node (.boolop false)
       [d, .node .lambda [.node (.bin 0) [a, b]],
        .node .not_ [.node (.bin 12) [.node .await_ [g], .node (.un 1) [a]]]]]

example : inFrag big = true := by decide
example : wf (sl TEST) big = true := by decide

/-- the printed phrase (parentheses exactly around the conditional and the lambda) … -/
example : pr minimal (sl TEST) big =
    [.sym tNot, ta, .sym 5, tb, .sym 7, .sym 31, tc, .sym tPow, td, .sym 82, .int 7, .sym 83, .lp, ta, .sym tIf, tb,
     .sym tElse, tc, .rp, .sym 70, td, .sym 71, .lp, .sym tLambda, .sym tColon, ta, .sym 0, tb, .rp, .sym 71, .sym tNot,
     .sym tAwait, tg, .sym tPow, .sym 31, ta] := by decide

/-- … is parsed back to the tree by evaluation of the executable parser (depth 6, all constructs of the fragment) -/
example : parse (sl TEST) (pr minimal (sl TEST) big) = some big := by with_unfolding_all rfl

/-- and so is the fully parenthesised print (policy: parenthesise everything parenthesisable) -/
example : parse (sl TEST) (pr (fun _ c => parenable c) (sl TEST) big) = some big := by with_unfolding_all rfl

/-- `fun _ c => parenable c` is a covering policy for well-formed trees' needs … on the fragment's classes -/
example : ∀ s c, (fun (_ : Slot) c => parenable c) s c = true → accepts s c = true → parenable c = true :=
  fun _ _ h _ => h

/-- in front of a continuation that cannot extend the phrase: `a + b` then `) …`, `else …`, `if …` (slot `OR`) -/
example : parseE (sl OR) ([ta, .sym 5, tb] ++ [.sym tIf, tc]) = some (.node (.bin 5) [a, b], [.sym tIf, tc]) := by
  with_unfolding_all rfl
example : follow (sl OR).minLad [.sym tIf, tc] = true := by decide
/-- … while `* c` does continue it (the follow condition is necessary) -/
example : follow (sl TEST).minLad [.sym 7, tc] = false := by decide
example : parseE (sl TEST) ([ta, .sym 5, tb] ++ [.sym 7, tc]) =
    some (.node (.bin 5) [a, .node (.bin 7) [b, c]], []) := by with_unfolding_all rfl

/-! ambiguous-looking phrases and the unique tree each one parses to (hence, by `parse_iff`, derives) -/

/-- `a - b - c` is `(a - b) - c` -/
example : parse (sl TEST) [ta, .sym 6, tb, .sym 6, tc] = some (.node (.bin 6) [.node (.bin 6) [a, b], c]) := by
  with_unfolding_all rfl
/-- `a ** b ** c` is `a ** (b ** c)` -/
example : parse (sl TEST) [ta, .sym tPow, tb, .sym tPow, tc] = some (.node (.bin 12) [a, .node (.bin 12) [b, c]]) := by
  with_unfolding_all rfl
/-- `not a == b` is `not (a == b)` -/
example : parse (sl TEST) [.sym tNot, ta, .sym 80, tb] = some (.node .not_ [.node (.cmp [80]) [a, b]]) := by
  with_unfolding_all rfl
/-- `a if b else c if d else g` is `a if b else (c if d else g)` -/
example : parse (sl TEST) [ta, .sym tIf, tb, .sym tElse, tc, .sym tIf, td, .sym tElse, tg] =
    some (.node .ifexp [a, b, .node .ifexp [c, d, g]]) := by with_unfolding_all rfl
/-- `-a ** b` is `-(a ** b)` -/
example : parse (sl TEST) [.sym 31, ta, .sym tPow, tb] = some (.node (.un 1) [.node (.bin 12) [a, b]]) := by
  with_unfolding_all rfl
/-- `a ** -b ** c` is `a ** (-(b ** c))` -/
example : parse (sl TEST) [ta, .sym tPow, .sym 31, tb, .sym tPow, tc] =
    some (.node (.bin 12) [a, .node (.un 1) [.node (.bin 12) [b, c]]]) := by with_unfolding_all rfl
/-- `a or b or c` is the flat 3-ary BoolOp; the nested one needs its parentheses -/
example : parse (sl TEST) [ta, .sym 70, tb, .sym 70, tc] = some (.node (.boolop true) [a, b, c]) := by
  with_unfolding_all rfl
example : parse (sl TEST) [.lp, ta, .sym 70, tb, .rp, .sym 70, tc] =
    some (.node (.boolop true) [.node (.boolop true) [a, b], c]) := by with_unfolding_all rfl
/-- `a < b < c` is one chain -/
example : parse (sl TEST) [ta, .sym 82, tb, .sym 82, tc] = some (.node (.cmp [82, 82]) [a, b, c]) := by
  with_unfolding_all rfl
/-- `await a ** b` is `(await a) ** b` -/
example : parse (sl TEST) [.sym tAwait, ta, .sym tPow, tb] = some (.node (.bin 12) [.node .await_ [a], b]) := by
  with_unfolding_all rfl
/-- `lambda: a if b else c` is `lambda: (a if b else c)` -/
example : parse (sl TEST) [.sym tLambda, .sym tColon, ta, .sym tIf, tb, .sym tElse, tc] =
    some (.node .lambda [.node .ifexp [a, b, c]]) := by with_unfolding_all rfl
/-! postfix trailers bind tightest; an integer literal needs parentheses before `.` -/
/-- `-a.x ** b(c, d)[g]` is `-((a.x) ** ((b(c, d))[g]))` -/
example : parse (sl TEST) [.sym 31, ta, .sym tDot, .name 7, .sym tPow, tb, .lp, tc, .sym tComma, td, .rp, .sym tLb, tg,
      .sym tRb] =
    some (.node (.un 1) [.node (.bin 12) [.node (.attr 7) [a],
      .node .subscr [.node (.call 2 []) [b, c, d], g]]]) := by with_unfolding_all rfl
/-- `await a(b).x` is `await ((a(b)).x)`; `(await a)(b)` needs its parentheses -/
example : parse (sl TEST) [.sym tAwait, ta, .lp, tb, .rp, .sym tDot, .name 7] =
    some (.node .await_ [.node (.attr 7) [.node (.call 1 []) [a, b]]]) := by with_unfolding_all rfl
example : parse (sl TEST) [.lp, .sym tAwait, ta, .rp, .lp, tb, .rp] =
    some (.node (.call 1 []) [.node .await_ [a], b]) := by with_unfolding_all rfl
/-- `(lambda: a)()` and `a()()` -/
example : parse (sl TEST) [.lp, .sym tLambda, .sym tColon, ta, .rp, .lp, .rp] =
    some (.node (.call 0 []) [.node .lambda [a]]) := by with_unfolding_all rfl
example : parse (sl TEST) [ta, .lp, .rp, .lp, .rp] = some (.node (.call 0 []) [.node (.call 0 []) [a]]) := by
  with_unfolding_all rfl
/-- `(1).x` is an attribute of the literal; `1 .x` (tokens `1` `.` `x`) is not a phrase of the grammar; `1[a]` is -/
example : parse (sl TEST) [.lp, .int 1, .rp, .sym tDot, .name 7] = some (.node (.attr 7) [.leaf (.int 1) .intlit]) := by
  with_unfolding_all rfl
example : parse (sl TEST) [.int 1, .sym tDot, .name 7] = none := by with_unfolding_all rfl
example : parse (sl TEST) [.int 1, .sym tLb, ta, .sym tRb] = some (.node .subscr [.leaf (.int 1) .intlit, a]) := by
  with_unfolding_all rfl
example : pr minimal (sl TEST) (.node (.attr 7) [.leaf (.int 1) .intlit]) = [.lp, .int 1, .rp, .sym tDot, .name 7] := by
  decide
/-- a printed tree with trailers, operators and conditionals (depth 5) round-trips by evaluation -/
private def big2 : E :=
  .node (.call 2 []) [.node (.attr 3) [.node .ifexp [a, b, c]],
    .node (.bin 6) [.node .subscr [a, .node .lambda [b]], .node (.call 0 []) [.node (.un 2) [c]]],
    .node (.boolop false) [.node (.attr 1) [.leaf (.int 5) .intlit], .node .not_ [.node (.call 1 []) [d, g]]]]
example : inFrag big2 = true := by decide
example : wf (sl TEST) big2 = true := by decide
example : parse (sl TEST) (pr minimal (sl TEST) big2) = some big2 := by with_unfolding_all rfl
example : parse (sl TEST) (pr (fun _ c => parenable c) (sl TEST) big2) = some big2 := by with_unfolding_all rfl

/-- not phrases: `a + not b`, `a ** not b`, `a < (nothing)`, `a if b` -/
example : parse (sl TEST) [ta, .sym 5, .sym tNot, tb] = none := by with_unfolding_all rfl
example : parse (sl TEST) [ta, .sym 82] = none := by with_unfolding_all rfl
example : parse (sl TEST) [ta, .sym tIf, tb] = none := by with_unfolding_all rfl
/-- hence (by `parse_iff`) `a + not b` derives no tree of the fragment at all -/
example (e : E) (hf : inFrag e = true) : ¬ Derives (sl TEST) [ta, .sym 5, .sym tNot, tb] e := by
  intro hd
  have := (parse_iff (sl TEST) (by decide) _ e).2 ⟨hd, hf⟩
  have h2 : parse (sl TEST) [ta, .sym 5, .sym tNot, tb] = none := by with_unfolding_all rfl
  rw [h2] at this
  cases this

/-- `C09.not_derives_sub_right` as an instance of unambiguity -/
example : ¬ Derives (sl TEST) [ta, .sym 6, tb, .sym 6, tc] (.node (.bin 6) [a, .node (.bin 6) [b, c]]) := by
  intro hd
  have := (parse_iff (sl TEST) (by decide) _ _).2 ⟨hd, by decide⟩
  have h2 : parse (sl TEST) [ta, .sym 6, tb, .sym 6, tc] = some (.node (.bin 6) [.node (.bin 6) [a, b], c]) := by
    with_unfolding_all rfl
  rw [h2] at this
  simp [a, b, c, nm] at this

/-- non-vacuity of `replace_groups_unique`: replace the right operand of `a * b` by `c + d` -/
example : setKid (.node (.bin 7) [a, b]) 1 (.node (.bin 5) [c, d]) = .node (.bin 7) [a, .node (.bin 5) [c, d]] := rfl
example : wf (sl TEST) (setKid (.node (.bin 7) [a, b]) 1 (.node (.bin 5) [c, d])) = true := by decide
example : pr minimal (sl TEST) (setKid (.node (.bin 7) [a, b]) 1 (.node (.bin 5) [c, d])) =
    [ta, .sym 7, .lp, tc, .sym 5, td, .rp] := by decide

end Pfst.C09c
