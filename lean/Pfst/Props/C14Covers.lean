import Pfst.TableCheck
import Pfst.Gen.SyntaxOrder
/-! C14, tables: every AST child exactly once. -/
namespace Pfst.C14
open Pfst

theorem order_covers_A : Gen.SyntaxOrder.shapesEncA.all TableCheck.coversOk = true := by
  decide +kernel

theorem order_covers_B : Gen.SyntaxOrder.shapesEncB.all TableCheck.coversOk = true := by
  decide +kernel

end Pfst.C14
