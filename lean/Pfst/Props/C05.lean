import Pfst.ParseWrapLemmas
import Pfst.Gen.Modes
import Pfst.SeqFix
import Pfst.TrailSepLemmas

/-!
# C05 — parsing is lossless and agrees with Python's parser in every parse mode

CPython's parser is an external parameter (trusted; it is the judge in the sweep of `harness/props/C05.py`).  The
theorems below are about everything `fst.parsex` adds around it (model: `Pfst/ParseWrap.lean`):

* `wrap_positions`, `embed_text`, `rebase_embed`, `rebase_embed_at` — the positions algebra of a fragment embedded in a
  wrapper and moved back;
* `astloc_whole` — `_astloc_from_src` is the span of the whole source, in bytes;
* `no_escape`, `verify_sound`, `escape_detected` — the delimiter lemma behind "invalid source is never parsed into something
  else because of the wrapper";
* `mode_total`, `modes_match_spec`, `class_modes_match_spec`, `wrappers_sound` — facts about the mode table and the wrapper
  families **regenerated from the working tree on every run** (`Pfst/Gen/Modes.lean`), checked by the kernel.
-/
namespace Pfst.C05
open Pfst.ParseWrap

/-! ## positions algebra -/

/-- **A span inside the source lines of a wrapper denotes the same text as the span shifted up in the source.**
For every wrapper `pre ++ "\n" ++ src ++ "\n" ++ post` (any prefix, any suffix, any source — multi-line prefixes such as
`match _:\n case (` included) and every span lying inside the lines of `src`: the text CPython sees at the span moved down
by the number of prefix lines is exactly the text of the span in `src`; columns are untouched.  This is why
`_offset_linenos(ast, -k)` with `k` = number of lines of the prefix (`countNl pre + 1`) is the whole position fix-up of
the `parse_*` functions (`wrappers_sound` checks that each parser uses exactly that `k`). -/
theorem wrap_positions (pre src post : List Char) (s : Span)
    (h1 : 1 ≤ s.ln) (h2 : s.ln ≤ s.eln) (h3 : s.eln ≤ (splitLines src).length) :
    getSpan (splitLines (wrapText pre src post)) (s.shift (countNl pre + 1)) = getSpan (splitLines src) s := by
  have hw : splitLines (wrapText pre src post) = splitLines pre ++ (splitLines src ++ splitLines post) := by
    simp only [wrapText]
    rw [splitLines_append_nl, splitLines_append_nl]
  have hk : countNl pre + 1 = (splitLines pre).length := (splitLines_length pre).symm
  rw [hw, hk]
  simp only [getSpan, Span.shift]
  have e1 : s.ln + (splitLines pre).length - 1 = (splitLines pre).length + (s.ln - 1) := by omega
  have e2 : s.eln + (splitLines pre).length + 1 - (s.ln + (splitLines pre).length) = s.eln + 1 - s.ln := by omega
  rw [e1, e2, drop_pre, take_drop_append _ _ _ _ (by omega)]

/-- **First-line column shift is the prefix length in BYTES.**  A fragment line `l` that sits behind a prefix `p` on its
line (and before any suffix `q`): the text between byte columns `a..b` of `l` is the text between byte columns
`|p|+a .. |p|+b` of the host line, where `|p|` is the UTF-8 length of `p` (any characters, multi-byte included). -/
theorem embed_text (p l q : Line) (a b : Nat) (hb : b ≤ blen l) :
    sliceB (blen p + a) (blen p + b) (p ++ l ++ q) = sliceB a b l := by
  simp only [sliceB]
  have e : blen p + b - (blen p + a) = b - a := by omega
  rw [e, List.append_assoc, dropB_prefix]
  by_cases ha : a ≤ blen l
  · rw [dropB_append_le _ _ _ ha, takeB_append_le]
    have := blen_dropB a l
    omega
  · have : b - a = 0 := by omega
    rw [this, takeB_zero, takeB_zero]

/-- **rebase ∘ embed = id, for every tree.**  CPython reports a fragment that sits `k ≥ 0` lines down with every line
number `k` larger; `_offset_linenos(ast, -k)` (the code, including its "skip when `end_lineno` is falsy" test) gives back
exactly the fragment's own positions, for every tree whose line numbers are 1-based.  Induction over the nested tree. -/
theorem rebase_embed (k : Int) (hk : 0 ≤ k) (t : PTree) (h : linesPos t = true) :
    offsetLinenos (-k) (mapTree (embedLines k) t) = t :=
  offset_embed_tree k hk t h

/-- The harness-side rebasing of a fragment cut out at `(line l0, byte column c0)` of a program ("lines minus start line,
first-line byte columns minus start column") inverts the embedding, for every tree and every origin. -/
theorem rebase_embed_at (l0 c0 : Int) (t : PTree) : mapTree (rebaseAt l0 c0) (mapTree (embedAt l0 c0) t) = t :=
  mapTree_comp_id _ _ (rebaseAt_embedAt l0 c0) t

/-- **`_astloc_from_src` is the span of the whole source, in bytes.**  Start `(lineno, 0)`, end on the last line
(`lineno +` number of newlines) at the UTF-8 length of the last line; and the text that span denotes (for `lineno = 1`)
is the whole source, whatever characters it contains. -/
theorem astloc_whole (src : List Char) (n : Int) :
    astlocFromSrc src n
      = ⟨n, 0, n + (((splitLines src).length - 1 : Nat) : Int),
         (blen ((splitLines src).getLast (splitLines_ne_nil src)) : Nat)⟩
    ∧ getSpan (splitLines src) ⟨1, 0, (splitLines src).length, (astlocFromSrc src 1).endCol.toNat⟩ = splitLines src := by
  have hl := splitLines_getLast? src
  have hlast : (splitLines src).getLast (splitLines_ne_nil src) = lastLine src := by
    have := List.getLast?_eq_some_getLast (splitLines_ne_nil src)
    rw [this] at hl
    exact Option.some.inj hl
  constructor
  · simp only [astlocFromSrc, hlast, splitLines_length]
    congr 1
  · simp only [getSpan, astlocFromSrc]
    have e : (splitLines src).length + 1 - 1 = (splitLines src).length := by omega
    simp only [Nat.sub_self, List.drop_zero, e, List.take_length, Int.toNat_natCast]
    rw [mapLast_id]
    · cases hs : splitLines src with
      | nil => rfl
      | cons l ls => simp [mapHead, dropB_zero]
    · intro l hl'
      rw [hl] at hl'
      cases hl'
      exact takeB_blen _

/-! ## delimiters -/

/-- **No escape.**  In `o ++ src ++ c` (e.g. `"(" ++ src ++ ")"`) the first delimiter is matched by the last one **iff**
the delimiter depth of `src` never goes negative and ends at zero — which is what the counting loop of
`_verify_no_close_delimiters` computes (`scanDepth … = some 0`). -/
theorem no_escape (o c : Char) (src : List Char) :
    matchClose o c (src ++ [c]) 0 = some src.length ↔ scanDepth o c src 0 = some 0 := by
  constructor
  · intro h
    cases hs : scanDepth o c src 0 with
    | none =>
      obtain ⟨i, hi, hm⟩ := matchClose_append_none o c src [c] 0 hs
      rw [hm] at h
      simp at h; omega
    | some e =>
      rw [matchClose_append_some o c src [c] 0 e hs] at h
      cases e with
      | zero => rfl
      | succ e => simp [matchClose] at h
  · intro h
    rw [matchClose_append_some o c src [c] 0 0 h]
    simp [matchClose]

/-- **The verification is sound.**  If the counting loop passes over `src` (depth never negative), then whatever follows,
the wrapper's opening delimiter is not closed inside `src`: its match, if any, lies at or after the end of `src`. -/
theorem verify_sound (o c : Char) (src rest : List Char) (e i : Nat)
    (h : scanDepth o c src 0 = some e) (hm : matchClose o c (src ++ rest) 0 = some i) : src.length ≤ i := by
  rw [matchClose_append_some o c src rest 0 e h] at hm
  cases hr : matchClose o c rest e with
  | none => simp [hr] at hm
  | some j => simp [hr] at hm; omega

/-- **…and complete.**  If the counting loop raises on `src`, the wrapper's opening delimiter really is closed inside
`src` (at the same place whatever follows): the source escapes the wrapper. -/
theorem escape_detected (o c : Char) (src : List Char) (h : scanDepth o c src 0 = none) :
    ∃ i, i < src.length ∧ ∀ rest, matchClose o c (src ++ rest) 0 = some i := by
  obtain ⟨i, hi, hm⟩ := matchClose_append_none o c src [] 0 h
  refine ⟨i, hi, fun rest => ?_⟩
  obtain ⟨j, hj, hm'⟩ := matchClose_append_none o c src rest 0 h
  -- both are the first place where the depth goes negative; compare through the prefix
  have key : ∀ (xs r1 r2 : List Char) (d a b : Nat), scanDepth o c xs d = none →
      matchClose o c (xs ++ r1) d = some a → matchClose o c (xs ++ r2) d = some b → a = b := by
    intro xs
    induction xs with
    | nil => intro r1 r2 d a b hn; simp [scanDepth] at hn
    | cons x xs ih =>
      intro r1 r2 d a b hn h1 h2
      simp only [scanDepth] at hn
      simp only [List.cons_append, matchClose] at h1 h2
      by_cases hx : x = c
      · simp only [hx, if_true] at hn h1 h2
        by_cases hd : d = 0
        · simp only [hd, if_true] at h1 h2
          cases h1; cases h2; rfl
        · simp only [hd, if_false] at hn h1 h2
          cases m1 : matchClose o c (xs ++ r1) (d - 1) with
          | none => simp [m1] at h1
          | some a' =>
            cases m2 : matchClose o c (xs ++ r2) (d - 1) with
            | none => simp [m2] at h2
            | some b' =>
              simp [m1] at h1; simp [m2] at h2
              have := ih r1 r2 (d - 1) a' b' hn m1 m2
              omega
      · simp only [hx, if_false] at hn h1 h2
        by_cases ho : x = o
        · simp only [ho, if_true] at hn h1 h2
          cases m1 : matchClose o c (xs ++ r1) (d + 1) with
          | none => simp [m1] at h1
          | some a' =>
            cases m2 : matchClose o c (xs ++ r2) (d + 1) with
            | none => simp [m2] at h2
            | some b' =>
              simp [m1] at h1; simp [m2] at h2
              have := ih r1 r2 (d + 1) a' b' hn m1 m2
              omega
        · simp only [ho, if_false] at hn h1 h2
          cases m1 : matchClose o c (xs ++ r1) d with
          | none => simp [m1] at h1
          | some a' =>
            cases m2 : matchClose o c (xs ++ r2) d with
            | none => simp [m2] at h2
            | some b' =>
              simp [m1] at h1; simp [m2] at h2
              have := ih r1 r2 d a' b' hn m1 m2
              omega
  have := key src [] rest 0 i j h hm hm'
  rw [hm', this]

/-- **Text inside comments never influences the verdict of `_verify_no_close_delimiters`.**  Two sources whose lines agree
after comment stripping (`l[:l.find('#')]`) and agree on the two lines the first element starts and ends on get the same
verdict, for any element position, scan end and delimiter pair: whatever stands after a `#` on the lines before the
element and on the lines between the element and the next one — commas, closing delimiters, quotes — is never scanned. -/
theorem verify_comments_irrelevant (lines lines' : List Line) (e0Ln : Int) (e0Col e0EndLn e0EndCol endLn : Nat) (o c : Char)
    (hmap : lines.map stripComment = lines'.map stripComment)
    (h0 : lines.getD e0Ln.toNat [] = lines'.getD e0Ln.toNat [])
    (h1 : lines.getD e0EndLn [] = lines'.getD e0EndLn []) :
    verifyNoClose lines e0Ln e0Col e0EndLn e0EndCol endLn o c = verifyNoClose lines' e0Ln e0Col e0EndLn e0EndCol endLn o c := by
  have hlen : lines.length = lines'.length := by simpa using congrArg List.length hmap
  have htake : (lines.take e0Ln.toNat).map stripComment = (lines'.take e0Ln.toNat).map stripComment := by
    rw [List.map_take, List.map_take, hmap]
  have hrest : restLines ((lines.drop (e0EndLn + 1)).take (endLn + 1 - (e0EndLn + 1)))
      = restLines ((lines'.drop (e0EndLn + 1)).take (endLn + 1 - (e0EndLn + 1))) := by
    apply restLines_congr
    rw [List.map_take, List.map_take, List.map_drop, List.map_drop, hmap]
  simp only [verifyNoClose, hlen, htake, h0, h1, hrest]

/-- a comment with a comma and a closing parenthesis between two elements changes nothing: `a\n# 2) second, optional\n, b` -/
example : verifyNoClose ["a".toList, "# 2) second, optional".toList, ", b".toList] 0 0 0 1 2 '(' ')' = true
    ∧ verifyNoClose ["a".toList, "# x, y".toList, "),(b".toList] 0 0 0 1 2 '(' ')' = false := by decide

/-- **`parse_arg` returns a node only for exactly one parameter without default**, on both of its paths: after the normal
wrapper the single parameter is a plain one, after the star wrapper (`name: *annotation`) it is the vararg; anything else in
any other slot of the `arguments` node (positional-only, keyword-only, `*args`, `**kwargs`, a default) is refused.
(`kw_defaults` has one entry per keyword-only parameter, so `kwDefaults = kwonly` in what CPython returns.) -/
theorem arg_single (s : ArgsShape) (hk : s.kwDefaults = s.kwonly) :
    (argNormalOk s = true ↔ nParams s = 1 ∧ s.args = 1 ∧ s.defaults = 0)
    ∧ (argStarOk s = true ↔ nParams s = 1 ∧ s.vararg = true ∧ s.defaults = 0) := by
  obtain ⟨po, ar, va, ko, kd, kw, de⟩ := s
  simp only at hk
  subst hk
  constructor
  · cases va <;> cases kw <;> simp [argNormalOk, nParams] <;> omega
  · cases va <;> cases kw <;> simp [argStarOk, nParams] <;> omega

example : argStarOk ⟨0, 0, true, 0, 0, true, 0⟩ = false ∧ argStarOk ⟨0, 0, true, 0, 0, false, 0⟩ = true
    ∧ argNormalOk ⟨0, 1, false, 0, 0, true, 0⟩ = false := by decide

/-- **The "no parentheses of their own" test of the ImportFrom name parsers is exact.**  The last alias lies inside the wrapper
statement, so its end is at or before the statement's end; the test passes iff nothing of the statement lies after the
alias (end positions equal as (line, column) pairs) — in particular a closing parenthesis on a LATER line, at whatever
column, fails it. -/
theorem importfrom_no_own_parens (a s : Loc) (hin : posLt s.endLineno s.endCol a.endLineno a.endCol = false) :
    endsWithStmt a s = true ↔ posLt a.endLineno a.endCol s.endLineno s.endCol = false := by
  obtain ⟨_, _, al, ac⟩ := a
  obtain ⟨_, _, sl, sc⟩ := s
  simp only [posLt, endsWithStmt, Bool.or_eq_false_iff, Bool.and_eq_false_iff, Bool.and_eq_true, decide_eq_false_iff_not,
    beq_iff_eq, beq_eq_false_iff_ne] at *
  constructor
  · rintro ⟨h1, h2⟩; subst h1; subst h2; simp
  · intro h; omega

/-- `(\nab\n )`: the alias `ab` ends at (3, 2), the statement `from . import \\⏎(⏎ab⏎ )` at (4, 2): same column, later line — refused;
comparing columns alone would accept it -/
example : importFromNameOk 1 ⟨3, 0, 3, 2⟩ ⟨1, 0, 4, 2⟩ = false ∧ importFromNameOk 1 ⟨2, 0, 2, 6⟩ ⟨1, 0, 2, 6⟩ = true := by decide

/-- **Undoing the wrapper indentation of `parse__match_cases` is exact, for every tree**: whichever lines are indented
(multi-line strings leave some lines as they are), start and end of every node come back to the fragment's own positions —
also for a node that starts on an un-indented line and ends on an indented one, or the other way round. -/
theorem match_cases_undo_indent (k : Int) (ind : List Int) (t : PTree) :
    mapTree (undoIndent k ind) (mapTree (indentEmbed k ind) t) = t := by
  apply mapTree_comp_id
  intro p
  obtain ⟨a, b, c, d⟩ := p
  simp only [undoIndent, indentEmbed]
  have e1 : a + k - k = a := by omega
  have e2 : c + k - k = c := by omega
  rw [e1, e2]
  congr 1
  · split <;> omega
  · split <;> omega

/-- a node starting on a string's tail line (3, not indented) and ending on an ordinary line (4, indented) -/
example : undoIndent 2 [1, 2, 4] (indentEmbed 2 [1, 2, 4] ⟨3, 7, 4, 9⟩) = ⟨3, 7, 4, 9⟩
    ∧ indentEmbed 2 [1, 2, 4] ⟨3, 7, 4, 9⟩ = ⟨5, 7, 6, 10⟩ := by decide

/-! ## location repair of an undelimited sequence (`_fix_undelimited_seq_parsed_delimited`, model `Pfst/SeqFix.lean`) -/

section SeqFix
open Pfst.SeqFix
open Pfst.Scan (byteLen c2bRaw prevFrag nextFrag Frag LCont hugeCol lineAt)

theorem blen_eq_byteLen (l : Line) : blen l = byteLen l := by
  induction l with
  | nil => rfl
  | cons c cs ih => simp [blen, byteLen, ih]

/-- **Byte → character → byte is the identity on character boundaries** (any characters): the two conversions
`_fix_undelimited_seq_parsed_delimited` performs cancel on the offsets CPython reports. -/
theorem b2c_c2b_boundary (l : Line) (k : Nat) :
    b2cTake l (c2bRaw l k) = min k l.length ∧ c2bRaw l (b2cTake l (c2bRaw l k)) = c2bRaw l k := by
  have h : takeB (c2bRaw l k) l = l.take k := by
    have := takeB_prefix (l.take k) (l.drop k) 0
    rw [List.take_append_drop, Nat.add_zero, takeB_zero, List.append_nil, blen_eq_byteLen] at this
    exact this
  constructor
  · simp [b2cTake, h]
  · simp only [b2cTake, h, List.length_take]
    simp only [c2bRaw]
    congr 1
    rw [List.take_eq_take_iff]
    omega

/-- **The repaired end is a BYTE offset.**  Whenever the repair succeeds and a trailing comma / closing parenthesis
fragment `f` follows the last element, the stored end is the line of that fragment and the UTF-8 byte offset
(`c2bRaw`) of the character position just after it — not the character column. -/
theorem fixSeq_trailing (lines : List Line) (e0 en : Loc) (e1 : Option Int) (ae ln : Int) (o c : Char) (loc : Loc) (f : Frag)
    (h : fixSeq lines e0 en e1 ae ln o c = some loc)
    (hf : prevFrag lines (en.endLineno - ln).toNat (b2cTake (lineAt lines (en.endLineno - ln).toNat) en.endCol.toNat)
            (lines.length - 1) hugeCol false LCont.f = some f) :
    loc.endLineno = (f.ln : Int) + ln ∧ loc.endCol = c2bRaw (lineAt lines f.ln) (f.col + f.src.length) := by
  unfold fixSeq at h
  split at h
  · simp only [endPos, hf] at h
    split at h
    · rename_i sLn sCol eLn eCol hs he
      split at he
      · simp only [Option.some.injEq, Prod.mk.injEq] at he
        obtain ⟨h1, h2⟩ := he
        subst h1; subst h2
        simp only [Option.some.injEq] at h
        subst h
        exact ⟨rfl, rfl⟩
      · exact absurd he (by simp)
    · exact absurd h (by simp)
  · exact absurd h (by simp)

/-- without a trailing fragment the end stays the last element's end (byte offset → character column → byte offset) -/
theorem fixSeq_no_trailing (lines : List Line) (e0 en : Loc) (e1 : Option Int) (ae ln : Int) (o c : Char) (loc : Loc)
    (h : fixSeq lines e0 en e1 ae ln o c = some loc)
    (hf : prevFrag lines (en.endLineno - ln).toNat (b2cTake (lineAt lines (en.endLineno - ln).toNat) en.endCol.toNat)
            (lines.length - 1) hugeCol false LCont.f = none) :
    loc.endLineno = ((en.endLineno - ln).toNat : Int) + ln
    ∧ loc.endCol = c2bRaw (lineAt lines (en.endLineno - ln).toNat)
                     (b2cTake (lineAt lines (en.endLineno - ln).toNat) en.endCol.toNat) := by
  unfold fixSeq at h
  split at h
  · simp only [endPos, hf] at h
    split at h
    · rename_i sLn sCol eLn eCol hs he
      simp only [Option.some.injEq, Prod.mk.injEq] at he
      obtain ⟨h1, h2⟩ := he
      subst h1; subst h2
      simp only [Option.some.injEq] at h
      subst h
      exact ⟨rfl, rfl⟩
    · exact absurd h (by simp)
  · exact absurd h (by simp)

/-- `a,\n"é",` parsed as `(\na,\n"é",\n)`: elements at lines 2 and 3, the tuple ends after the comma at BYTE 5 (character 4) -/
example : fixSeq ["a,".toList, "\"é\",".toList] ⟨2, 0, 2, 1⟩ ⟨3, 0, 3, 4⟩ (some 3) 4 2 '(' ')' = some ⟨2, 0, 3, 5⟩ := by decide +kernel

/-- `a),(b` is refused -/
example : fixSeq ["a),(b".toList] ⟨2, 0, 2, 1⟩ ⟨2, 4, 2, 5⟩ (some 2) 3 2 '(' ')' = none := by decide +kernel

end SeqFix

/-! ## trailing separator search (`_has_trailing_comma` / `_has_trailing_semicolon`, model `Pfst/TrailSep.lean`) -/

section TrailSep
open Pfst.TrailSep

/-- **The trailing-separator search is a single deterministic pass and decides exactly the pattern.**  For a separator that
is not itself skippable (`,` and `;` are not): the scan — structural recursion, one step per character, no backtracking —
answers `true` iff the text starts with any sequence of `)` / blanks / line continuations / whole comment lines followed by
the separator (the language of `(?: [)\s] | \\\n | \#[^\n]*\n )* sep`). -/
theorem trailing_sep_spec (sep : Char) (hs : isSkip sep = false) (h1 : sep ≠ '\\') (h2 : sep ≠ '#') (s : List Char) :
    scanSep sep s = true ↔ Matches sep s := by
  constructor
  · exact (matches_of_scan sep s).1
  · rintro ⟨pre, rest, hp, rfl⟩
    exact scan_of_matches sep hs h1 h2 pre rest hp

/-- instances for the two separators pfst searches for -/
theorem trailing_comma_spec (s : List Char) : scanSep ',' s = true ↔ Matches ',' s :=
  trailing_sep_spec ',' (by decide) (by decide) (by decide) s

theorem trailing_semicolon_spec (s : List Char) : scanSep ';' s = true ↔ Matches ';' s :=
  trailing_sep_spec ';' (by decide) (by decide) (by decide) s

/-- **The repair changed no answer**: the pattern before the repair (`(?: [)\s]* (?: (?: \\ | \#[^\n]* ) \n )? )*`, a star
over a starred class — exponential backtracking, finding C05-F7) and the repaired one match exactly the same strings. -/
theorem trailing_sep_same_language (s : List Char) : TriviaOld s ↔ Trivia s := triviaOld_iff s

/-- any number of blanks with no separator after them: answered `false` (by the single pass — this is the input on which
the old pattern needed time exponential in `n`) -/
theorem trailing_sep_blanks (sep : Char) (hs : sep ≠ ' ') (n : Nat) : scanSep sep (List.replicate n ' ') = false := by
  induction n with
  | zero => rfl
  | succ n ih =>
    have h1 : ¬ (' ' = sep) := fun e => hs e.symm
    have h2 : isSkip ' ' = true := by decide
    simpa [scanSep, List.replicate_succ, scan, h1, h2] using ih

example : scanSep ',' "  ) # c, \n \\\n ,x".toList = true ∧ scanSep ',' "  ) # c, \n x,".toList = false
    ∧ scanSep ';' "  # c ;".toList = false := by decide
/-- `_has_trailing_comma('é, b\n"ü" # c\n ,', 2, 4)`: line 2, BYTE column 4 is after `"ü"` (3 characters) -/
example : hasTrailingSep ',' "é, b\n\"ü\" # c\n ,".toList 2 4 = true ∧ hasTrailingSep ',' "é, b\n\"ü\" # c\n ,".toList 2 3 = false := by
  decide

end TrailSep

/-! ## the regenerated mode table and wrapper families (`Pfst/Gen/Modes.lean`) -/

open Pfst.Gen.Modes

/-- the parser the `Mode` documentation assigns to each string mode: `parse_<mode>`, except the three `ast.parse` modes -/
def specParser (m : String) : String :=
  if m == "exec" then "parse_Module" else if m == "eval" then "parse_Expression"
  else if m == "single" then "parse_Interactive" else "parse_" ++ m

/-- the parser the `Mode` documentation / `_PARSE_MODE_FUNCS` comments assign to a node class used as mode, by category -/
def specClassParser (cls cat : String) : Option String :=
  if cls == "FunctionType" || cls == "FormattedValue" || cls == "Interpolation" || cls == "TypeIgnore" then some ""
  else if cat == "_ASTDummy" then none                      -- class does not exist in this Python version
  else if cat == "stmt" then some "parse_stmt"
  else if cat == "expr" then
    (if cls == "Starred" then some "parse_expr_arglike" else if cls == "Slice" then some "parse_expr_slice"
     else if cls == "Tuple" || cls == "List" || cls == "Set" then some ("parse_" ++ cls) else some "parse_expr")
  else if cat == "mod" then some ("parse_" ++ cls)
  else if cat == "expr_context" then some "const"
  else if cat == "excepthandler" then some "parse_ExceptHandler"
  else if cat == "boolop" || cat == "operator" || cat == "unaryop" || cat == "cmpop" || cat == "pattern" || cat == "type_param"
    then some ("parse_" ++ cat)
  else some ("parse_" ++ cls)                                -- own category (arg, keyword, …) and SPECIAL SLICE containers

def modeNames : List String := modes.map (·.1)

/-- every mode literal occurs once, has a parser and at least one result kind, probes never raised anything but
`SyntaxError`/`ParseError`; modes that name a node type return only that type; every leaf node class resolves to a parser
(the same one for the class and for its name) or is explicitly prohibited. -/
def modeTotal : Bool :=
  decide modeNames.Nodup
  && modes.all (fun m => m.2.1 != "" && !m.2.2.2.isEmpty && m.2.2.2.all (fun k => !k.startsWith "!")
                 && (m.2.2.1 == "" || (m.2.2.1 == m.1 && m.2.2.2 == [m.1])))
  && classes.all (fun c => c.2.2.2.1 == c.2.2.2.2
                   && (c.2.2.2.1.isSome || c.2.1 == "_ASTDummy"))

/-- **Mode table is total and functional** (kernel-checked on the table regenerated from the working tree). -/
theorem mode_total : modeTotal = true := by decide +kernel

/-- **Every string mode is served by the parser the documentation names.** -/
theorem modes_match_spec : (modes.all fun m => m.2.1 == specParser m.1) = true := by decide +kernel

/-- **Every node class used as a mode is served by the parser of its category** (with the documented exceptions
`Starred`, `Slice`, `Tuple`, `List`, `Set` and the four prohibited classes). -/
theorem class_modes_match_spec :
    (classes.all fun c => c.2.2.2.1 == specClassParser c.1 c.2.1 || (c.2.1 == "_ASTDummy" && c.2.2.2.1 == some "")) = true := by
  decide +kernel

def endsNl (s : String) : Bool := s.toList.getLast? == some '\n'
def nlCount (s : String) : Nat := countNl s.toList

/-- shape the positions algebra needs of a wrapper: the source starts on a line of its own (prefix empty or ending in a
newline — so first-line columns are not shifted), and the lines subtracted afterwards are exactly the prefix lines.
`parse__match_cases` (used by `parse_match_case`) indents every source line by one blank and undoes that itself. -/
def wrapOk (w : String × String × String × Option Int) : Bool :=
  (if w.1 == "parse__match_cases" || w.1 == "parse_match_case" then w.2.1 == "match x:\n case None: pass\n "
   else w.2.1 == "" || endsNl w.2.1)
  && (match w.2.2.2 with | none => true | some d => d == (nlCount w.2.1 : Int))

/-- **Every wrapper actually handed to CPython has the shape `wrap_positions`/`rebase_embed` need**, and every parser
that shifts line numbers back shifts by the number of lines of its prefix (kernel-checked on the regenerated families). -/
theorem wrappers_sound : (wrappers.all wrapOk) = true := by decide +kernel

/-- each extended parser was observed succeeding through a wrapper with a known line delta -/
def observed (p : String) : Bool := wrappers.any (fun w => w.1 == p && w.2.2.2.isSome && w.2.1 != "")

theorem wrappers_observed :
    (["parse__ExceptHandlers", "parse_expr", "parse_expr_arglike", "parse_expr_slice", "parse_List", "parse_Set",
      "parse__Assign_targets", "parse__arglike", "parse__arglikes", "parse_comprehension", "parse__comprehensions",
      "parse__comprehension_ifs", "parse_arguments", "parse_arguments_lambda", "parse_arg", "parse_keyword",
      "parse_Import_name", "parse__Import_names", "parse_ImportFrom_name", "parse__ImportFrom_names", "parse_withitem",
      "parse__withitems", "parse_pattern", "parse__pattern_attrlikes", "parse_type_param", "parse__type_params"].all observed)
    = true := by decide +kernel

/-! ## non-vacuity: concrete states that meet the hypotheses -/

/-- `"a[\n" ++ "é,\nb" ++ "\n]"`: the span of `b` (line 2 of the source) is found on line 3 of the wrapper. -/
example :
    getSpan (splitLines (wrapText "a[".toList "é,\nb".toList "]".toList)) (Span.shift ⟨2, 0, 2, 1⟩ 1) = [['b']]
    ∧ getSpan (splitLines "é,\nb".toList) ⟨2, 0, 2, 1⟩ = [['b']] := by decide

/-- a two-line prefix (`match _:\n case (`) shifts by two lines -/
example : getSpan (splitLines (wrapText "match _:\n case (".toList "x |\ny".toList "): pass".toList))
            (Span.shift ⟨1, 0, 2, 1⟩ 2) = [['x', ' ', '|'], ['y']] := by decide

/-- multi-byte prefix: `ü = ` is 5 bytes; the `b` of `a+b` is at byte column 2 in the fragment, 7 in the line -/
example : sliceB (blen "ü = ".toList + 2) (blen "ü = ".toList + 3) ("ü = ".toList ++ "a+b".toList ++ " # c".toList) = ['b']
    ∧ blen "ü = ".toList = 5 := by decide

example : astlocFromSrc "é = 1\nñé".toList 2 = ⟨2, 0, 3, 4⟩ := by decide

/-- a tree that meets `linesPos`, embedded one line down and moved back -/
def exTree : PTree := PTree.node (some ⟨1, 0, 2, 3⟩) [PTree.node none [PTree.node (some ⟨2, 1, 2, 3⟩) []]]
example : linesPos exTree = true ∧ offsetLinenos (-1) (mapTree (embedLines 1) exTree) = exTree
    ∧ mapTree (embedLines 1) exTree
      = PTree.node (some ⟨2, 0, 3, 3⟩) [PTree.node none [PTree.node (some ⟨3, 1, 3, 3⟩) []]] := ⟨rfl, rfl, rfl⟩

/-- the skip on a falsy `end_lineno` is real: such a node is NOT moved (so `linesPos` is needed in `rebase_embed`) -/
example : offPos (-1) (some ⟨1, 0, 0, 0⟩) = some ⟨1, 0, 0, 0⟩ := by decide

/-- `)+(` escapes `(`…`)`; `(a)+(b)` does not -/
example : scanDepth '(' ')' ")+(".toList 0 = none ∧ matchClose '(' ')' (")+(".toList ++ [')']) 0 = some 0 := by decide
example : scanDepth '(' ')' "(a)+(b)".toList 0 = some 0
    ∧ matchClose '(' ')' ("(a)+(b)".toList ++ [')']) 0 = some 7 := by decide

/-- `_verify_no_close_delimiters` on `a),(b` (first element `a` at 0..1): raises; on `(a),(b)` with element `(a)`: passes -/
example : verifyNoClose ["a),(b".toList] 0 0 0 1 0 '(' ')' = false := by decide
example : verifyNoClose ["(a),(b)".toList] 0 1 0 2 0 '(' ')' = true := by decide

end Pfst.C05
