import Pfst.ReconcileCorrect
/-!
C13 — runs of nodes taken from ANOTHER FST tree (`recurse_slice` / `recurse_slice_dict`, the `childf.root is not work_root`
branch).  The flag `ok` of `Origin.foreign` is the verdict of `Reconcile.verify_other` on the node (links of the subtree, the
node still sits at the position its `FST` records in its own tree) and of the reparse of the copy; it is decided by the
harness independently (`c13_lib.foreign_ok`).  `verify_other` is a CHECKED PRECONDITION of the positional fetch
`child_parent.get_slice(child_idx, ...)`: the theorems say the model fetches a run by position only when EVERY node of the
run passed, and otherwise does nothing at the run head and hands every element to `recurse_node`, whose unverified branch
puts the pure AST.
-/
namespace Pfst.C13
open Pfst.Reconcile

/-- A run of another tree (`tid ≠ 0`) is fetched by position (a `putSlice` from that tree, the elements then skipped) ONLY IF
every node of the run is verified. -/
theorem foreign_run_needs_verified (mark : T) (np : NP) (fi : Nat) (ns : Option Nat) (i : Nat) (cur : List T) (x : T)
    (rest : List T) (tid : Nat) (pp : Path) (cfi ci : Nat)
    (h : sliceHead mark np fi ns i x.origin = some (tid, pp, cfi, ci)) (ht : tid ≠ 0)
    (hops : (detect mark np fi ns i cur x rest).1 ≠ []) :
    allOk ((x :: rest).take (1 + runLen tid pp cfi (ci + 1) rest)) = true := by
  rw [detect_some mark np fi ns i cur x rest tid pp cfi ci h] at hops
  have ht' : (tid == 0) = false := by simpa using ht
  simp only [ht', Bool.false_eq_true, if_false] at hops
  by_cases hok : allOk ((x :: rest).take (1 + runLen tid pp cfi (ci + 1) rest)) = true
  · exact hok
  · simp [hok] at hops

/-- If some node of the run is NOT verified (moved in its own tree, broken links, stale source) nothing is fetched by
position: no operation at the run head, the output list is untouched and all `n` elements are processed one by one. -/
theorem foreign_run_unverified_falls_back (mark : T) (np : NP) (fi : Nat) (ns : Option Nat) (i : Nat) (cur : List T) (x : T)
    (rest : List T) (tid : Nat) (pp : Path) (cfi ci : Nat)
    (h : sliceHead mark np fi ns i x.origin = some (tid, pp, cfi, ci)) (ht : tid ≠ 0)
    (hbad : allOk ((x :: rest).take (1 + runLen tid pp cfi (ci + 1) rest)) = false) :
    detect mark np fi ns i cur x rest
      = ([], cur, { proc := 1 + runLen tid pp cfi (ci + 1) rest, lenRead := cur.length }) := by
  rw [detect_some mark np fi ns i cur x rest tid pp cfi ci h]
  have ht' : (tid == 0) = false := by simpa using ht
  simp [ht', hbad]

/-- ... and an unverified node of another tree, processed on its own under an in-tree parent, is first put as a pure AST
(then recursed): `recurse_node` never copies it from the other tree. -/
theorem foreign_unverified_is_ast_put (mark : T) (q : Path) (t : Nat) (rel : Path) (outa : T) (tid : Nat) (l : Option Loc)
    (sg : Option Nat) (k : Nat) (cs : List T) :
    ∃ tail, (recNode mark (.fst t q) rel outa (.node (.foreign false tid l sg) k cs)).ops
      = ⟨[], .put .ast (.node .new k (eraseL cs))⟩ :: tail := by
  rw [recNode_foreign_bad]
  simp only [astPath, bne_iff_ne, ne_eq, reduceCtorEq, not_false_eq_true, decide_true, if_true, T.isNode, Bool.not_true,
    Bool.false_eq_true, if_false]
  exact ⟨_, rfl⟩

/-- non-vacuity: two elements of another tree's list, the second one moved in its own tree (`ok = false`) -/
def fe (ok : Bool) (i : Nat) : T := .node (.foreign ok 1 (some ⟨[0], 0, some i⟩) (some 0)) 1 [.prim ⟨i, i⟩]
example : (detect (.node (.tree none) 0 [.many (some 0) 1 []]) (.fst 0 []) 0 (some 0) 0 [] (fe true 2) [fe false 3]).1 = [] := by
  decide
example : (detect (.node (.tree none) 0 [.many (some 0) 1 []]) (.fst 0 []) 0 (some 0) 0 [] (fe true 2) [fe true 3]).1.length = 1 := by
  decide

end Pfst.C13
