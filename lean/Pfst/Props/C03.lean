import Pfst.IndexLemmas
import Pfst.Gen.Handlers

/-!
# C03 — edits follow Python container semantics and change nothing else in the tree

Theorems about the executable model of pfst's index normalisation (`Pfst/Index.lean`), view windows
(`Pfst/View.lean`), virtual combined fields (`Pfst/Virt.lean`) and the extracted handler table
(`Pfst/Gen/Handlers.lean`).  The SPEC side (`pyClamp`, `pySliceIndices`, `pyIndex`, `List.take/drop`) is written
independently of the model.  What the handlers then do with the text is not modelled: the per-field law
"field after = old[:start] + new + old[stop:], everything else unchanged" is evaluated directly on the real code by the
harness sweep (`harness/props/C03.py`).
-/
namespace Pfst.C03
open Pfst.Index Pfst.View Pfst.Virt

/-! ## index normalisation -/

/-- **fixup_slice_indices agrees with Python's `slice.indices`** whenever it does not refuse: the pair it returns is
`slice(start, stop).indices(len)` (with `'end'` read as `len` for a start and as an omitted bound for a stop), and it is a
well-formed range of the list. -/
theorem fixupSlice_spec (n : Nat) (a b : Idx) (s e : Int) (h : fixupSlice n a b 0 = some (s, e)) :
    (s, e) = pySliceIndices n (a.pyStart n) b.pyStop ∧ 0 ≤ s ∧ s ≤ e ∧ e ≤ n := by
  unfold fixupSlice at h
  simp only at h
  split at h
  · exact absurd h (by simp)
  · next hlt =>
    simp only [Option.some.injEq, Prod.mk.injEq] at h
    obtain ⟨rfl, rfl⟩ := h
    have h1 := clipStart_spec n a
    have h2 := clipStop_spec n b
    have r1 := clipStop_range n a 0 (Nat.zero_le _)
    have r2 := clipStop_range n b 0 (Nat.zero_le _)
    rw [← clipStart_eq_clipStop] at r1
    refine ⟨?_, ?_, ?_, r2.2⟩
    · simp only [pySliceIndices, Prod.mk.injEq]
      exact ⟨by rw [h1]; cases a.pyStart n <;> rfl, by rw [h2]; cases b.pyStop <;> rfl⟩
    · simpa using r1.1
    · omega

/-- **fixup_slice_indices refuses exactly** when Python's clipped start lies after Python's clipped stop (the
documented `IndexError('start index must precede stop index')`; Python itself would treat that as an empty slice at
`start`). -/
theorem fixupSlice_refuses_only (n : Nat) (a b : Idx) :
    fixupSlice n a b 0 = none ↔
      (pySliceIndices n (a.pyStart n) b.pyStop).2 < (pySliceIndices n (a.pyStart n) b.pyStop).1 := by
  have h1 := clipStart_spec n a
  have h2 := clipStop_spec n b
  have e1 : (pySliceIndices n (a.pyStart n) b.pyStop).1 = clipStart n a 0 := by
    rw [h1]; simp only [pySliceIndices]; cases a.pyStart n <;> rfl
  have e2 : (pySliceIndices n (a.pyStart n) b.pyStop).2 = clipStop n b 0 := by
    rw [h2]; simp only [pySliceIndices]; cases b.pyStop <;> rfl
  rw [e1, e2]
  unfold fixupSlice
  simp only
  split <;> simp_all

/-- **Docstring offset** (`_body`): clipping in the real `body` of length `n + 1` with `start_at = 1` is clipping in
the docstring-less list of length `n`, shifted by one — so `_body` behaves like a Python list of the non-docstring
statements (refusals included). -/
theorem fixupSlice_startAt (n : Nat) (a b : Idx) :
    fixupSlice (n + 1) a b 1 = (fixupSlice n a b 0).map (fun p => (p.1 + 1, p.2 + 1)) := by
  unfold fixupSlice
  simp only [clipStart_eq_clipStop, clipStop_shift]
  split <;> split <;> simp <;> omega

/-- **fixup_one_index agrees with Python list indexing**: accepted exactly when `range(len)[i]` exists, and then it is
that position; `'end'` is never a valid single index. -/
theorem fixupOne_spec (n : Nat) (k : Int) : fixupOne n (.i k) 0 = pyIndex n k ∧ fixupOne n .end 0 = none := by
  constructor
  · simp only [fixupOne, pyIndex]; grind
  · simp [fixupOne]

/-- single index with the docstring offset: the same as indexing the docstring-less list, plus one -/
theorem fixupOne_startAt (n : Nat) (i : Idx) : fixupOne (n + 1) i 1 = (fixupOne n i 0).map (· + 1) := by
  cases i with
  | «end» => simp [fixupOne]
  | i k => simp only [fixupOne]; grind

/-! ## Python slice assignment on lists -/

/-- **Slice put law**: for a well-formed range, `xs[s:e] = new` is `xs[:s] + new + xs[e:]`, and the length changes by
`len(new) - (e - s)`. -/
theorem putSlice_law {α} (xs : List α) (s e : Nat) (new : List α) (h : s ≤ e) (he : e ≤ xs.length) :
    putSlice xs s e new = xs.take s ++ new ++ xs.drop e ∧
    (putSlice xs s e new).length + (e - s) = xs.length + new.length := by
  rw [putSlice_eq xs s e new h]
  refine ⟨rfl, ?_⟩
  simp only [List.length_append, List.length_take, List.length_drop]
  omega

/-- reading back the slice that was put returns the new elements -/
theorem putSlice_get {α} (xs : List α) (s e : Nat) (new : List α) (h : s ≤ e) (he : e ≤ xs.length) :
    getSlice (putSlice xs s e new) s (s + new.length) = new := by
  rw [putSlice_eq xs s e new h]
  have hl : (xs.take s).length = s := by simp; omega
  simp only [getSlice]
  rw [List.append_assoc, List.take_append, List.drop_append]
  simp [hl, List.take_of_length_le, List.drop_of_length_le]

/-- **Frame (inside the field)**: positions before the slice keep their element, positions after it keep theirs,
shifted by the length change. -/
theorem putSlice_frame {α} (xs : List α) (s e : Nat) (new : List α) (h : s ≤ e) (he : e ≤ xs.length) :
    (∀ i, i < s → (putSlice xs s e new)[i]? = xs[i]?) ∧
    (∀ i, (putSlice xs s e new)[s + new.length + i]? = xs[e + i]?) := by
  rw [putSlice_eq xs s e new h]
  have hl : (xs.take s).length = s := by simp; omega
  constructor
  · intro i hi
    rw [List.append_assoc, List.getElem?_append_left (by omega)]
    simp [List.getElem?_take, hi]
  · intro i
    rw [List.getElem?_append_right (by simp; omega)]
    simp only [List.length_append, hl, List.getElem?_drop]
    congr 1
    omega

/-- **Put-back law**: putting back the slice that was there changes nothing. -/
theorem putSlice_putback {α} (xs : List α) (s e : Nat) (h : s ≤ e) :
    putSlice xs s e (getSlice xs s e) = xs := by
  rw [putSlice_eq xs s e _ h]
  simp only [getSlice]
  have : List.take s xs = List.take s (List.take e xs) := by rw [List.take_take]; congr 1; omega
  rw [this, List.take_append_drop, List.take_append_drop]

/-- deleting / replacing one element through the slice operation on `[j, j+1)` is `eraseIdx` / `set` -/
theorem putSlice_single {α} (xs : List α) (j : Nat) (x : α) (hj : j < xs.length) :
    putSlice xs j (j + 1) [] = xs.eraseIdx j ∧ putSlice xs j (j + 1) [x] = xs.set j x := by
  rw [putSlice_eq xs j (j + 1) _ (by omega), putSlice_eq xs j (j + 1) _ (by omega)]
  constructor
  · simp [List.eraseIdx_eq_take_drop_succ]
  · simp [List.set_eq_take_append_cons_drop, hj]

/-! ## entry-point equivalence (canonical normalisation) -/

/-- `insert(code, i, one)` is `put_slice(code, i, i, one)` (and so is `put(code, i, i, one)` for `i ≠ 0`-or-not: `put`
maps a `0`/omitted first index to `0`). -/
theorem entry_insert (i : Int) (one : One) :
    canon (.insert (.int i) .omitted one) = canon (.putSlice (.int i) (.int i) .omitted one) ∧
    canon (.put (.int i) (.int i) .omitted one) = canon (.putSlice (.int i) (.int i) .omitted one) := by
  simp [canon, swizzle, orZero]

/-- `append(code)` = `insert(code, 'end')` = `put_slice(code, 'end', 'end', one=True)`; on a list of length `n` it is
the slice `[n, n)` — the same place as `insert(code, n)`. -/
theorem entry_append (n : Nat) :
    canon (.append .omitted) = canon (.insert .end .omitted (some true)) ∧
    resolve n 0 (canon (.append .omitted)) = some ((n : Int), (n : Int)) ∧
    resolve n 0 (canon (.insert (.int n) .omitted (some true))) = some ((n : Int), (n : Int)) := by
  refine ⟨by simp [canon, swizzle], by simp [canon, resolve, Arg.toIdx, fixupSlice, clipStart, clipStop], ?_⟩
  simp only [canon, swizzle, resolve, Arg.toIdx, fixupSlice, clipStart, clipStop]
  grind

/-- `prepend(code)` = `insert(code, 0)`, `extend` / `prextend` are the `one=False` forms at the same places. -/
theorem entry_prepend (n : Nat) (one : One) :
    canon (.prepend .omitted) = canon (.insert (.int 0) .omitted (some true)) ∧
    resolve n 0 (canon (.prepend .omitted)) = some (0, 0) ∧
    resolve n 0 (canon (.prextend .omitted one)) = some (0, 0) ∧
    resolve n 0 (canon (.extend .omitted one)) = some ((n : Int), (n : Int)) := by
  refine ⟨by simp [canon, swizzle], ?_, ?_, ?_⟩ <;>
    simp only [canon, resolve, Arg.toIdx, fixupSlice, clipStart, clipStop] <;> grind

/-- `put(code)` with no index is the whole-field slice `put_slice(code, 0, 'end')`; with only `'end'` it is an append
position; a field name may be passed in any positional slot. -/
theorem entry_put_forms (one : One) (f : String) :
    canon (.put .omitted .omitted .omitted one) = .slice (.int 0) .end .omitted one ∧
    canon (.put .end .omitted .omitted one) = .slice .end .end .omitted one ∧
    canon (.put (.name f) .omitted .omitted one) = canon (.put .omitted .omitted (.name f) one) ∧
    canon (.putSlice (.name f) .end .omitted one) = canon (.putSlice (.int 0) .end (.name f) one) ∧
    canon (.putSlice (.int 2) (.name f) .omitted one) = canon (.putSlice (.int 2) .end (.name f) one) := by
  simp [canon, swizzle, orZero]

/-- **Single-element form = slice form**: `put(code, i)` / `remove` on a sliceable field resolve to the slice
`[j, j+1)` where `j` is the position Python's `xs[i]` denotes — and to a refusal exactly when `xs[i]` raises. -/
theorem entry_put_one (n : Nat) (i : Int) :
    resolve n 0 (canon (.put (.int i) .omitted .omitted (some true))) = (pyIndex n i).map (fun j => (j, j + 1)) := by
  have h := (fixupOne_spec n i).1
  have hc : canon (.put (.int i) .omitted .omitted (some true)) = .one (.int i) .omitted := by
    simp [canon, swizzle]
  rw [hc]
  simp only [resolve, Arg.toIdx, h]
  cases hp : pyIndex n i with
  | none => rfl
  | some j =>
    have : 0 ≤ j ∧ j < n := by
      simp only [pyIndex] at hp
      grind
    simp only [Option.map_some, fixupSlice, clipStart, clipStop]
    grind

/-! ## view windows -/

/-- **Self-healing**: whatever `_start` / `_stop` a view carries and however the field length changed behind its back,
`_base_indices` returns a well-formed window of the field, and healing is idempotent. -/
theorem view_heal (v : View) (len : Nat) :
    let (s, e, v1) := baseIndices v len
    s ≤ e ∧ e ≤ len ∧ baseIndices v1 len = (s, e, v1) := by
  obtain ⟨st, sp⟩ := v
  cases sp with
  | none => simp only [baseIndices]; split <;> simp_all <;> omega
  | some k =>
    simp only [baseIndices]
    by_cases h1 : k > len <;> simp only [h1, ↓reduceIte]
    · by_cases h2 : st > len <;> simp [h2] <;> omega
    · by_cases h2 : st > k <;> simp [h2, h1] <;> omega

/-- **View window law**: assigning `new` to `view[a:b]` — with the base node's slice put obeying the list law — makes
the window show exactly what a Python list of the old window shows after `window[a:b] = new`; the field outside the
window is untouched. -/
theorem view_setitem {α} (v : View) (xs new : List α) (a b : Option Int) (ed : Edit)
    (h : setItem v xs.length (.slice a b) = some ed) :
    let (s, e, _) := baseIndices v xs.length
    ∃ a' b' : Nat, fixupItem (e - s) (.slice a b) = some ((a' : Int), some (b' : Int)) ∧ a' ≤ b' ∧ b' ≤ e - s ∧
      ed.s = s + a' ∧ ed.e = s + b' ∧
      (let xs' := putSlice xs (s + a') (s + b') new
       window (ed.after xs'.length) xs' = putSlice (getSlice xs s e) a' b' new ∧
       xs'.take s = xs.take s ∧ xs'.drop (e + new.length - (b' - a')) = xs.drop e) := by
  revert h
  simp only [setItem, fixupItem]
  rcases hb : baseIndices v xs.length with ⟨s, e, v1⟩
  obtain ⟨hse, hel, _, _⟩ := baseIndices_shape v xs.length s e v1 hb
  simp only
  intro h
  rcases hf : fixupSlice (e - s) (keyStart a) (keyStop b) with _ | ⟨x, y⟩
  · simp [hf] at h
  · obtain ⟨hx0, hxy, hyn⟩ := fixupSlice_range _ _ _ _ _ hf
    simp only [hf, Option.map_some, Option.some.injEq] at h
    subst h
    refine ⟨x.toNat, y.toNat, ?_, by omega, by omega, by simp only; omega, by simp only; omega, ?_⟩
    · simp only [Option.map_some]; congr 3 <;> omega
    · -- decompose xs = P ++ W ++ S
      have hxs : xs = xs.take s ++ getSlice xs s e ++ xs.drop e := by
        simp only [getSlice]
        have : xs.take s = (xs.take e).take s := by rw [List.take_take]; congr 1; omega
        rw [this, List.take_append_drop, List.take_append_drop]
      have hP : (xs.take s).length = s := by simp; omega
      have hW : (getSlice xs s e).length = e - s := by simp [getSlice]; omega
      have aux := window_put_aux (xs.take s) (getSlice xs s e) (xs.drop e) new x.toNat y.toNat (by omega) (by omega)
      rw [← hxs, hP, hW] at aux
      have hse' : s + (e - s) = e := by omega
      rw [hse'] at aux
      obtain ⟨aux1, aux2, aux3⟩ := aux
      refine ⟨?_, aux2, aux3⟩
      have hlen : (putSlice xs (s + x.toNat) (s + y.toNat) new).length = xs.length + new.length - (y.toNat - x.toNat) := by
        have := (putSlice_eq xs (s + x.toNat) (s + y.toNat) new (by omega))
        rw [this]; simp only [List.length_append, List.length_take, List.length_drop]; omega
      obtain ⟨w, hw⟩ := baseIndices_bump v xs.length new.length (y.toNat - x.toNat) s e v1 hb (by omega)
      simp only [window, hlen, hw]
      exact aux1

/-- **`view.insert` agrees with `FST.insert`** on a whole-field view: the view's own index arithmetic (clip to the view
length, negative from the end, floor at 0) gives the place `fixup_slice_indices` gives. -/
theorem view_insert_agrees (n : Nat) (idx : Idx) :
    some ((Pfst.View.insert ⟨0, none⟩ n idx).s, (Pfst.View.insert ⟨0, none⟩ n idx).e) = fixupSlice n idx idx 0 := by
  cases idx with
  | «end» => simp [Pfst.View.insert, baseIndices, fixupSlice, clipStart, clipStop]
  | i k => simp only [Pfst.View.insert, baseIndices, fixupSlice, clipStart, clipStop]; grind

/-- `del view[i]` and `view[i] = x` address the element Python's `window[i]` denotes -/
theorem view_item_index (v : View) (len : Nat) (k : Int) (ed : Edit) (h : delItem v len (.int k) = some ed) :
    let (s, e, _) := baseIndices v len
    ∃ j, pyIndex (e - s) k = some j ∧ ed.s = s + j ∧ ed.e = s + j + 1 := by
  revert h
  simp only [delItem, fixupItem]
  rcases baseIndices v len with ⟨s, e, v1⟩
  simp only
  rw [(fixupOne_spec (e - s) k).1]
  cases pyIndex (e - s) k with
  | none => simp
  | some j => simp only [Option.map_some, Option.some.injEq]; rintro rfl; exact ⟨j, rfl, rfl, rfl⟩

/-- **Name indexing = integer indexing**: when `view['name']` resolves to a direct child, the index it computes is a
valid non-negative index of the window (`_fixup_item_indices` of that int returns it unchanged, so `__getitem__`,
`__setitem__`, `__delitem__` and `at` by name are the same operation as by that int), the element it addresses in the real
field — view start, plus docstring offset for `_body` — is a definition of that name, and it is the first one in the
window.  Any window, with or without docstring offset. -/
theorem view_name_index (v : View) (names : List (Option String)) (off : Nat) (name : String) (j : Int) (r : Option Int)
    (h : nameItem v names off name = some (j, r)) :
    let (s, e, _) := baseIndices v (names.length - off)
    r = none ∧ 0 ≤ j ∧ j < (e : Int) - s ∧ fixupItem (e - s) (.int j) = some (j, none) ∧
      names[s + off + j.toNat]? = some (some name) ∧
      (∀ q, s + off ≤ q → q < s + off + j.toNat → names[q]? ≠ some (some name)) := by
  revert h
  simp only [nameItem]
  rcases hb : baseIndices v (names.length - off) with ⟨s, e, v1⟩
  obtain ⟨hse, _, _, _⟩ := baseIndices_shape v _ s e v1 hb
  simp only
  cases hf : findName names (s + off) (e + off) name with
  | none => simp
  | some p =>
    simp only [Option.some.injEq, Prod.mk.injEq]
    rintro ⟨rfl, rfl⟩
    have hmem := List.mem_of_find?_eq_some hf
    have hpred := List.find?_some hf
    rw [List.mem_range'_1] at hmem
    have hp : s + off ≤ p ∧ p < e + off := by omega
    have hj : ((p : Int) - s - off).toNat = p - s - off := by omega
    refine ⟨rfl, by omega, by omega, ?_, ?_, ?_⟩
    · have := (fixupOne_spec (e - s) ((p : Int) - s - off)).1
      simp only [fixupItem, this, pyIndex]
      have h1 : ¬ ((p : Int) - s - off < 0) := by omega
      have h2 : (p : Int) - s - off < ((e - s : Nat) : Int) := by omega
      simp [h1, h2]
    · rw [hj]
      have : s + off + (p - s - off) = p := by omega
      rw [this]
      simpa using hpred
    · intro q hq1 hq2 hq
      rw [hj] at hq2
      -- q is an earlier element of the searched range satisfying the predicate: contradiction with `find?`
      have hlt : q < p := by omega
      have := List.find?_eq_some_iff_append.mp hf
      obtain ⟨_, as, bs, hsplit, hall⟩ := this
      have hq_mem : q ∈ List.range' (s + off) (e + off - (s + off)) := by
        rw [List.mem_range'_1]; omega
      rw [hsplit] at hq_mem
      rcases List.mem_append.mp hq_mem with hqa | hqb
      · have := hall q hqa
        simp [hq] at this
      · -- q after or at p in a strictly increasing list: impossible since q < p
        have hsorted : (List.range' (s + off) (e + off - (s + off))).Pairwise (· < ·) := List.pairwise_lt_range'
        rw [hsplit] at hsorted
        have := (List.pairwise_append.mp hsorted).2.2
        rcases List.mem_cons.mp hqb with rfl | hqb'
        · omega
        · have h2 := (List.pairwise_cons.mp (List.pairwise_append.mp hsorted).2.1).1 q hqb'
          omega

/-! ## virtual combined fields -/

/-- **Dict `_all`**: the virtual list and the pair of real fields determine each other, element `i` is
`(keys[i], values[i])`, and a slice put on `_all` is the same slice put on both real fields. -/
theorem virt_dict {κ ν} (ks : List κ) (vs : List ν) (h : ks.length = vs.length)
    (ks' : List κ) (vs' : List ν) (h' : ks'.length = vs'.length) (s e : Nat) (hse : s ≤ e) :
    dictOfAll (dictAll ks vs) = (ks, vs) ∧ (dictAll ks vs).length = dictLen ks ∧
    (∀ (i : Nat) (k : κ) (v : ν), (dictAll ks vs)[i]? = some (k, v) ↔ ks[i]? = some k ∧ vs[i]? = some v) ∧
    dictOfAll (putSlice (dictAll ks vs) s e (dictAll ks' vs')) = (putSlice ks s e ks', putSlice vs s e vs') := by
  refine ⟨List.unzip_zip h, by simp [dictAll, dictLen, h], ?_, ?_⟩
  · intro i k v
    simp only [dictAll, List.getElem?_zip_eq_some]
  · rw [putSlice_eq _ _ _ _ hse, putSlice_eq _ _ _ _ hse, putSlice_eq _ _ _ _ hse]
    simp only [dictOfAll, dictAll, List.unzip_eq_map, List.map_append, List.map_take, List.map_drop, Prod.mk.injEq]
    have a1 := List.map_fst_zip (l₁ := ks) (l₂ := vs) (by omega)
    have a2 := List.map_snd_zip (l₁ := ks) (l₂ := vs) (by omega)
    have b1 := List.map_fst_zip (l₁ := ks') (l₂ := vs') (by omega)
    have b2 := List.map_snd_zip (l₁ := ks') (l₂ := vs') (by omega)
    simp [a1, a2, b1, b2]

/-- **Compare `_all`**: element 0 is `left`, element `i` is `comparators[i-1]`; the view's `_getitem` arithmetic is
list indexing of `left :: comparators`, and the map is invertible. -/
theorem virt_compare {α} (left : α) (cs : List α) :
    (∀ i, cmpGet left cs i = (cmpAll left cs)[i]?) ∧ (cmpAll left cs).length = cmpLen cs ∧
    cmpOfAll (cmpAll left cs) = some (left, cs) := by
  refine ⟨?_, by simp [cmpAll, cmpLen]; omega, rfl⟩
  intro i
  cases i with
  | zero => simp [cmpGet, cmpAll]
  | succ i => simp [cmpGet, cmpAll]

/-- **MatchMapping `_all`**: pairs first, `rest` (if any) last; invertible; length as the view computes it. -/
theorem virt_mapping {κ ν ρ} (ks : List κ) (ps : List ν) (r : Option ρ) (h : ks.length = ps.length) :
    mmOfAll (mmAll ks ps r) = (ks, ps, r) ∧ (mmAll ks ps r).length = mmLen ks r := by
  constructor
  · induction ks generalizing ps with
    | nil =>
      cases ps with
      | nil => cases r <;> simp [mmAll, mmOfAll]
      | cons => simp at h
    | cons k ks ih =>
      cases ps with
      | nil => simp at h
      | cons p ps =>
        have := ih ps (by simpa using h)
        simp only [mmAll, List.zip_cons_cons, List.map_cons, List.cons_append, mmOfAll] at this ⊢
        rw [this]
  · cases r <;> simp [mmAll, mmLen, h]

/-- **arguments `_all`**: the virtual list is exactly `posonlyargs + args + [vararg] + kwonlyargs + [kwarg]` in that
order, and `argSlot` names the real field and index of every element. -/
theorem virt_arguments_order {α δ} (a : Arguments α δ) :
    (argsAll a).map (·.2.1) = allargs a ∧ (argsAll a).length = (allargs a).length := by
  have key : (argsAll a).map (·.2.1) = allargs a := by
    simp only [argsAll, allargs, List.map_append, List.map_map]
    have hz : ∀ (k : ArgKind) (off : Nat) (l : List α),
        List.map ((fun x => x.2.1) ∘ fun (x : α × Nat) => (k, x.1, argDefault a x.2)) (l.zipIdx off) = l := by
      intro k off l
      induction l generalizing off with
      | nil => rfl
      | cons x xs ih => simp [List.zipIdx_cons, ih]
    cases hv : a.vararg <;> cases hk : a.kwarg <;> simp [hz, Function.comp_def]
  exact ⟨key, by rw [← key, List.length_map]⟩

/-- `argSlot` is list indexing into the concatenation -/
theorem virt_arguments_slot {α δ} (a : Arguments α δ) (i : Nat) (k : ArgKind) (j : Nat)
    (h : argSlot a i = some (k, j)) :
    (allargs a)[i]? = (match k with
      | .posonly => a.posonly[j]? | .arg => a.args[j]? | .vararg => a.vararg
      | .kwonly => a.kwonly[j]? | .kwarg => a.kwarg) := by
  simp only [argSlot] at h
  simp only [allargs]
  cases hv : a.vararg <;> cases hk : a.kwarg <;> simp only [hv, hk, Option.isSome] at h ⊢ <;>
    (repeat' split at h) <;> simp only [Option.some.injEq, Prod.mk.injEq, reduceCtorEq, false_and] at h <;>
    (try obtain ⟨rfl, rfl⟩ := h) <;> simp only [List.append_assoc, List.getElem?_append, List.length_append,
      List.length_cons, List.length_nil, List.append_nil] <;> grind

/-- **Call `_args` / ClassDef `_bases`**: the merged list is a permutation of `args + keywords` sorted by source
position, and — the two real lists being in source order and all positions distinct, as in any parsed tree — it keeps the
relative order inside `args` and inside `keywords`: an order-preserving bijection onto the two real fields. -/
theorem virt_arglikes {α : Type} (key : α → Nat × Nat) (isKw : α → Bool) (exprs kws : List α)
    (he : ∀ x ∈ exprs, isKw x = false) (hk : ∀ x ∈ kws, isKw x = true)
    (hse : exprs.Pairwise (fun a b => posLe (key a) (key b) = true))
    (hsk : kws.Pairwise (fun a b => posLe (key a) (key b) = true))
    (hinj : ∀ a ∈ exprs ++ kws, ∀ b ∈ exprs ++ kws, key a = key b → a = b) :
    let m := mergeArglikes key exprs kws
    m.Perm (exprs ++ kws) ∧ m.Pairwise (fun a b => posLe (key a) (key b) = true) ∧
    m.filter (fun x => !isKw x) = exprs ∧ m.filter isKw = kws := by
  intro m
  let le := fun a b => posLe (key a) (key b)
  have htrans : ∀ a b c, le a b = true → le b c = true → le a c = true := fun a b c => posLe_trans _ _ _
  have htotal : ∀ a b, le a b = true ∨ le b a = true := fun a b => posLe_total _ _
  have hperm : m.Perm (exprs ++ kws) := by
    show (mergeArglikes key exprs kws).Perm _
    unfold mergeArglikes
    split
    · next h => simp [List.isEmpty_iff.mp h]
    · split
      · next h => simp [List.isEmpty_iff.mp h]
      · exact insSort_perm _ _
  have hsorted : m.Pairwise (fun a b => le a b = true) := by
    show (mergeArglikes key exprs kws).Pairwise _
    unfold mergeArglikes
    split
    · exact hse
    · split
      · exact hsk
      · exact insSort_sorted _ htrans htotal _
  have hfe : (exprs ++ kws).filter (fun x => !isKw x) = exprs := by
    rw [List.filter_append, List.filter_eq_self.mpr (by intro x hx; simp [he x hx]),
      List.filter_eq_nil_iff.mpr (by intro x hx; simp [hk x hx]), List.append_nil]
  have hfk : (exprs ++ kws).filter isKw = kws := by
    rw [List.filter_append, List.filter_eq_nil_iff.mpr (by intro x hx; simp [he x hx]),
      List.filter_eq_self.mpr (by intro x hx; exact hk x hx), List.nil_append]
  have uniq : ∀ (p : α → Bool) (l : List α), l.Pairwise (fun a b => le a b = true) →
      (exprs ++ kws).filter p = l → m.filter p = l := by
    intro p l hl hf
    have hp : (m.filter p).Perm l := hf ▸ hperm.filter p
    refine List.Perm.eq_of_pairwise (le := fun a b => le a b = true) ?_ (hsorted.filter p) hl hp
    intro a b ha hb hab hba
    have ha' : a ∈ exprs ++ kws := hperm.mem_iff.mp (List.mem_filter.mp ha).1
    have hb' : b ∈ exprs ++ kws := by
      have : b ∈ (exprs ++ kws).filter p := hf ▸ hb
      exact (List.mem_filter.mp this).1
    exact hinj a ha' b hb' (posLe_antisymm _ _ hab hba)
  exact ⟨hperm, hsorted, uniq _ _ hse hfe, uniq _ _ hsk hfk⟩

/-! ## the handler table (extracted from the working tree on every run) -/

open Pfst.Gen.Handlers in
/-- Operations the README "TODO" section documents as not implemented: prescribed slices of `JoinedStr.values` /
`TemplateStr.values`, put-one to `FormattedValue.conversion/format_spec`, `Interpolation.str/conversion/format_spec`. -/
def documentedNotImplemented : List (String × String) :=
  [("JoinedStr", "values"), ("TemplateStr", "values"),
   ("FormattedValue", "conversion"), ("FormattedValue", "format_spec"),
   ("Interpolation", "str"), ("Interpolation", "conversion"), ("Interpolation", "format_spec")]

/-- "NOT DONE" block at the end of `_PUT_ONE_HANDLERS` in fst_put_one.py (node kind of the `func_type` parse mode). -/
def sourceNotDone : List (String × String) := [("FunctionType", "argtypes"), ("FunctionType", "returns")]

/-- real list fields that are edited through a virtual combined field (their own slice entry refuses and says so) -/
def coveredByVirtual : List (String × String × String) :=
  [("Dict", "keys", "_all"), ("Dict", "values", "_all"),
   ("MatchMapping", "keys", "_all"), ("MatchMapping", "patterns", "_all"),
   ("Compare", "ops", "_all"), ("Compare", "comparators", "_all"),
   ("arguments", "posonlyargs", "_all"), ("arguments", "args", "_all"), ("arguments", "defaults", "_all"),
   ("arguments", "kwonlyargs", "_all"), ("arguments", "kw_defaults", "_all"),
   ("MatchClass", "kwd_patterns", "_attrs"), ("_pattern_attrlikes", "kwd_patterns", "_attrs")]

open Pfst.Gen.Handlers in
def lookup (k f : String) : Option Row := rows.find? (fun r => r.kind == k && r.field == f)

open Pfst.Gen.Handlers in
def exempt (r : Row) : Bool := documentedNotImplemented.contains (r.kind, r.field) || sourceNotDone.contains (r.kind, r.field)

open Pfst.Gen.Handlers in
/-- single-element put is available: a handler, or delegation to a working slice handler -/
def putOneOk (r : Row) : Bool := r.putOne == .handler || (r.putOne == .viaSlice && r.putSlice == .handler)

open Pfst.Gen.Handlers in
/-- slice put is available: a working handler with a matching get handler, or coverage by a virtual field which has one -/
def putSliceOk (r : Row) : Bool :=
  (r.putSlice == .handler && r.getSlice == .handler)
  || coveredByVirtual.any (fun (k, f, vf) => k == r.kind && f == r.field &&
        (match lookup k vf with | some v => v.putSlice == .handler && v.getSlice == .handler | none => false))

open Pfst.Gen.Handlers in
def rowOk (r : Row) : Bool :=
  if r.astField || r.virt then
    exempt r || (putOneOk r && (!r.isList || putSliceOk r))
  else true

open Pfst.Gen.Handlers in
/-- **Totality of the dispatch tables**: every (kind, field) of `AST_FIELDS` and every virtual field has a working
single-element put, and every list-valued one a working slice put/get (directly or through its virtual combined field) —
or is in the explicit documented-not-implemented list.  Re-checked against the tables extracted from the working tree. -/
theorem handlers_total : rows.all rowOk = true := by decide +kernel

open Pfst.Gen.Handlers in
/-- the exemption list is not stale: each documented entry really is a refusing stub (or absent) in the tables, and
every default field names a field that can be edited -/
theorem handlers_exempt_exact :
    (documentedNotImplemented.all (fun (k, f) => match lookup k f with
        | some r => r.putOne == .notImpl || r.putSlice == .notImpl | none => false)) = true ∧
    (sourceNotDone.all (fun (k, f) => match lookup k f with
        | some r => r.putOne == .absent && r.putSlice == .absent | none => false)) = true ∧
    (defaultField.all (fun (k, f) => match lookup k f with
        | some r => putOneOk r || exempt r | none => false)) = true := by decide +kernel

/-! ## non-vacuity: the hypotheses are met by concrete, non-trivial data -/

example : fixupSlice 5 (.i (-3)) (.i 9) 0 = some (2, 5) := by decide
example : fixupSlice 5 (.i 4) (.i (-4)) 0 = none := by decide               -- the documented refusal
example : pySliceIndices 5 (some 4) (some (-4)) = (4, 1) := by decide       -- Python: empty slice at 4
example : fixupSlice 4 (.i 0) .end 1 = some (1, 4) := by decide             -- `_body[0:]` skips the docstring
example : fixupOne 4 (.i (-1)) 0 = some 3 ∧ fixupOne 4 (.i 4) 0 = none ∧ fixupOne 4 (.i 0) 1 = some 1 := by decide
example : putSlice [10, 11, 12, 13, 14] 1 3 [7, 8, 9] = [10, 7, 8, 9, 13, 14] := by decide
example : setItem ⟨1, some 4⟩ 6 (.slice (some (-2)) none) ≠ none := by decide
example : (baseIndices ⟨5, some 9⟩ 3) = (3, 3, ⟨3, some 3⟩) := by decide    -- healing after the field shrank
example : window ⟨1, some 4⟩ [0, 1, 2, 3, 4, 5] = [1, 2, 3] := by decide
example : nameItem ⟨1, none⟩ [none, some "f", none, some "g"] 1 "g" = some (1, none) := by decide   -- `_body[1:]['g']` with docstring
example : nameItem ⟨2, some 4⟩ [some "f", none, none, some "g"] 0 "f" = none := by decide           -- outside the window
example : mergeArglikes (fun (x : Nat × Nat × Bool) => (x.1, x.2.1)) [(1, 2, false), (1, 9, false)] [(1, 5, true), (2, 0, true)]
    = [(1, 2, false), (1, 5, true), (1, 9, false), (2, 0, true)] := by decide
example : argsOfAll (argsAll (⟨[1], [2, 3], some 4, [5, 6], [none, some 60], some 7, [20, 30]⟩ : Arguments Nat Nat))
    = ⟨[1], [2, 3], some 4, [5, 6], [none, some 60], some 7, [20, 30]⟩ := by decide
example : (argsAll (⟨[1], [2, 3], none, [], [], none, [20, 30]⟩ : Arguments Nat Nat))
    = [(.posonly, 1, none), (.arg, 2, some 20), (.arg, 3, some 30)] := by decide
example : canon (.put (.name "elts") .omitted .omitted (some false)) = .slice (.int 0) .end (.name "elts") (some false) := by
  decide

end Pfst.C03
