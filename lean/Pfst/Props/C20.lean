import Pfst.OptionsLemmas
/-!
# C20 — options and edits are isolated per call, per block and per thread

Property text: *An option passed to a call affects only that call; options set through the options() context manager
are restored exactly on exit, also when the block raises; unknown options or invalid values are rejected before anything
is changed; option defaults set in one thread are never visible in another.  Threads that edit different trees
concurrently obtain exactly the results they would obtain running alone.*

All theorems are about the executable model `Pfst/Options.lean` of `src/fst/fst_options.py`; they hold for EVERY table
`c : Cfg` (so they do not depend on which values the `_check_opt_*` functions accept); the `real_*` theorems
instantiate them with the table extracted from the imported module (`Pfst/Gen/Options.lean`, regenerated on every run).
The atomic step is one API call; preemption inside a call is outside the model.
-/
namespace Pfst.C20
open Pfst.Options

/-! ## rejected before anything is changed -/

/-- `set_options` whose validation fails returns the store itself (not merely an equal dict for the calling thread),
    with that validation error. -/
theorem set_invalid_identity (c : Cfg) (σ : Store) (t : Thread) (kvs : Kvs) (e : Err)
    (h : checkOptions c false kvs = some e) : setOptions c σ t kvs = (σ, .error e) := by
  simp [setOptions, setOptionsD, h]

/-- Whatever the reason `set_options` raises for (validation, or the `KeyError` branch of the snapshot), the store is
    returned untouched. -/
theorem set_error_identity (c : Cfg) (σ : Store) (t : Thread) (kvs : Kvs) (e : Err)
    (h : (setOptions c σ t kvs).2 = .error e) : (setOptions c σ t kvs).1 = σ := by
  unfold setOptions at h ⊢
  cases hs : setOptionsD c (getT c t σ) kvs with
  | error e' => simp
  | ok r => rw [hs] at h; obtain ⟨m', old⟩ := r; simp at h

/-- `check_options({n: v}, all)` accepts -/
def accepts (c : Cfg) (all : Bool) (n : Name) (v : Val) : Bool :=
  match alook n (if all then c.acceptAll else c.acceptGlobal) with
  | some (acc, cr) => !cr.contains v && acc.contains v
  | none => false

theorem checkLoop_rejects (tbl : List (Name × List Val × List Val)) (n : Name) (v : Val)
    (hbad : (match alook n tbl with | some (acc, cr) => !cr.contains v && acc.contains v | none => false) = false) :
    ∀ (kvs : Kvs), (n, v) ∈ kvs → checkLoop tbl kvs ≠ none
  | [], h => by simp at h
  | (n0, v0) :: r, h => by
    simp only [checkLoop]
    cases hl : alook n0 tbl with
    | none => simp
    | some p =>
      obtain ⟨acc, cr⟩ := p
      simp only []
      split
      · simp
      · split
        · rename_i hc ha
          simp only [List.mem_cons] at h
          rcases h with h | h
          · cases h
            rw [hl] at hbad
            have hc' : cr.contains v = false := by
              cases hcv : cr.contains v with
              | false => rfl
              | true => exact absurd hcv hc
            simp only [] at hbad
            rw [hc', ha] at hbad
            exact absurd hbad (by decide)
          · exact checkLoop_rejects tbl n v hbad r h
        · simp

/-- One unacceptable item ANYWHERE in the keyword arguments (unknown name, a value its check function rejects or
    crashes on, the internal marker key) makes `set_options` raise and leave the store untouched.
    Hypothesis `hm`: the marker key is no key of the thread's dict (true of every reachable store, `real_tables_wf`). -/
theorem set_invalid_any_position (c : Cfg) (σ : Store) (t : Thread) (kvs : Kvs) (n : Name) (v : Val)
    (hin : (n, v) ∈ kvs) (hbad : accepts c false n v = false)
    (hm : ∀ mk, c.marker = some mk → mk ∉ keys (getT c t σ)) :
    ∃ e, setOptions c σ t kvs = (σ, .error e) := by
  unfold setOptions setOptionsD
  cases hc : checkOptions c false kvs with
  | some e => exact ⟨e, by simp⟩
  | none =>
    -- validation passed: only possible through the early return on the marker key
    have hne : kvs.isEmpty = false := by cases kvs with | nil => simp at hin | cons _ _ => rfl
    unfold checkOptions at hc
    by_cases hmk : hasMarker c kvs = true
    · unfold hasMarker at hmk
      cases hcm : c.marker with
      | none => rw [hcm] at hmk; simp at hmk
      | some mk =>
        rw [hcm] at hmk
        have hk : mk ∈ keys kvs := (alook_isSome_iff mk kvs).1 hmk
        have hnone : alook mk (getT c t σ) = none := (alook_none_iff mk _).2 (hm mk hcm)
        obtain ⟨b, hb⟩ := snapshot_error_of_missing mk kvs (getT c t σ) hk hnone
        exact ⟨.badName b, by simp [hb]⟩
    · simp only [hne, hmk, Bool.false_or] at hc
      have := checkLoop_rejects c.acceptGlobal n v (by simpa [accepts] using hbad) kvs hin
      simp at hc
      exact absurd hc this

/-! ## blocks restore -/

/-- Frame of every program: option `k` keeps its value unless a `set_options` statement naming `k` occurs outside all
    `with options(...)` blocks naming `k`; and the set of keys never changes. -/
theorem exec_frame (c : Cfg) (p : Prog) (m : OptMap) :
    keys (execL c p m).m = keys m ∧ ∀ k, k ∉ dirty p → alook k (execL c p m).m = alook k m :=
  execL_frame c p m

/-- `with options(**kvs): body` leaves every option named in `kvs` at the value it had before the block, for EVERY
    body: nested blocks, `set_options` of the same keys inside, raises, caught or propagating exceptions, and also when
    entering the block is itself rejected. -/
theorem block_restores (c : Cfg) (kvs : Kvs) (body : Prog) (m : OptMap) (k : Name) (hk : k ∈ keys kvs) :
    alook k (execL c (.block kvs body) m).m = alook k m := by
  apply (execL_frame c (.block kvs body) m).2
  simp [dirty, hk]

/-- If everything the body leaves dirty is named by the block (in particular: the body contains no bare `set_options`)
    the WHOLE dict is restored exactly, order included. -/
theorem block_restores_all (c : Cfg) (kvs : Kvs) (body : Prog) (m : OptMap) (hn : (keys m).Nodup)
    (hd : ∀ k ∈ dirty body, k ∈ keys kvs) : (execL c (.block kvs body) m).m = m := by
  obtain ⟨hk, hf⟩ := execL_frame c (.block kvs body) m
  apply ext_of_keys_alook _ _ hk hn
  intro k
  apply hf
  simp only [dirty, List.mem_filter]
  intro ⟨h1, h2⟩
  have := hd k h1
  simp [this] at h2

/-- the same for any program that leaves nothing dirty -/
theorem exec_clean (c : Cfg) (p : Prog) (m : OptMap) (hn : (keys m).Nodup) (hd : dirty p = []) :
    (execL c p m).m = m := by
  obtain ⟨hk, hf⟩ := execL_frame c p m
  exact ext_of_keys_alook _ _ hk hn (fun k => hf k (by simp [hd]))

/-! ## per-call options -/

/-- `get_option(n, opts)` and an edit call with per-call options (valid or rejected) never write the option store:
    neither the dict of the calling thread nor any other thread's. -/
theorem percall_no_leak (c : Cfg) (t u : Thread) (σ : Store) (opts : Kvs) (n : Name) :
    getT c u (exec c t (.call opts) σ).1 = getT c u σ ∧ getT c u (exec c t (.get n opts) σ).1 = getT c u σ := by
  by_cases h : u = t
  · subst h
    simp [exec, execL, getT, putT, aget_aput_same]
  · simp [exec, execL, getT, putT, aget_aput_ne _ _ _ h]

/-- A valid call with per-call options is transparent for the rest of the program: what follows observes exactly what
    it would observe had the call not been made. -/
theorem percall_transparent (c : Cfg) (opts : Kvs) (q : Prog) (m : OptMap) (h : checkOptions c true opts = none) :
    execL c (.seq (.call opts) q) m =
      ⟨(execL c q m).m, .view (viewOf c m opts) (effsOf c m opts) m :: (execL c q m).tr, (execL c q m).exc⟩ := by
  simp [execL, callObs, h]

/-- What a call sees depends only on "per-call value, else thread default": any dict `M` with those lookups, passed
    with no per-call options, gives the same `get_option` answers and the same five `_get_opt_eff_*` answers. -/
theorem eff_merged (c : Cfg) (m M : OptMap) (opts : Kvs)
    (hM : ∀ n, alook n M = (alook n opts).orElse (fun _ => alook n m)) :
    effsOf c m opts = effsOf c M [] ∧ ∀ n, getOption c m n opts = getOption c M n [] := by
  have e : ∀ spec gen, effSpecific c m spec gen opts = effSpecific c M spec gen [] := by
    intro spec gen
    simp only [effSpecific, alook, hM]
    cases alook spec opts <;> cases alook gen opts <;> simp
  have s : ∀ spec, effSetNorm c m spec opts = effSetNorm c M spec [] := by
    intro spec
    simp only [effSetNorm, e, alook, hM]
    cases alook c.nSetNorm opts <;> simp
  refine ⟨by simp [effsOf, e, s], fun n => ?_⟩
  simp only [getOption, alook, hM]
  cases alook n opts <;> simp

/-- **Three-level lookup, level 1.**  An option PRESENT in the call's options decides, whatever its value (`None`
    included): `get_option` returns it for every thread dict. -/
theorem percall_present_decides (c : Cfg) (m : OptMap) (n : Name) (opts : Kvs) (o : Val) (h : alook n opts = some o) :
    getOption c m n opts = o := by
  simp [getOption, h]

/-- Levels 2/3: the thread/block default (and through `getT` the library default) is consulted only for an ABSENT key. -/
theorem percall_absent_consults (c : Cfg) (m : OptMap) (n : Name) (opts : Kvs) (h : alook n opts = none) :
    getOption c m n opts = (alook n m).getD c.noneVal := by
  simp [getOption, h]

/-- The resolvers `_get_opt_eff_pars_arglike / _norm_self / _norm_get`: when the specific option is present in the call
    (even as `None`) its thread/block default is never consulted: two thread dicts that differ ONLY in the specific
    option (any values there) give the same answer.  An explicit `norm_self=None` shields the call from a
    `with options(norm_self=True)` around it. -/
theorem eff_present_shields (c : Cfg) (m m' : OptMap) (spec gen : Name) (opts : Kvs) (o : Val)
    (h : alook spec opts = some o) (hg : alook gen m = alook gen m') :
    effSpecific c m spec gen opts = effSpecific c m' spec gen opts := by
  simp [effSpecific, h, hg]

/-- with the general option present as well, no default is consulted at all -/
theorem eff_all_present_independent (c : Cfg) (m m' : OptMap) (spec gen : Name) (opts : Kvs) (o g : Val)
    (h : alook spec opts = some o) (hg : alook gen opts = some g) :
    effSpecific c m spec gen opts = effSpecific c m' spec gen opts := by
  simp [effSpecific, h, hg]

/-- the same for `_get_opt_eff_set_norm_self / _get`: specific, `norm` and `set_norm` passed ⇒ independent of every default -/
theorem effSetNorm_all_present_independent (c : Cfg) (m m' : OptMap) (spec : Name) (opts : Kvs) (o g s : Val)
    (h : alook spec opts = some o) (hg : alook c.nNorm opts = some g) (hs : alook c.nSetNorm opts = some s) :
    effSetNorm c m spec opts = effSetNorm c m' spec opts := by
  simp [effSetNorm, effSpecific, h, hg, hs]

/-- and a present specific option shields `set_norm` resolution from the specific default too -/
theorem effSetNorm_present_shields (c : Cfg) (m m' : OptMap) (spec : Name) (opts : Kvs) (o : Val)
    (h : alook spec opts = some o) (hg : alook c.nNorm m = alook c.nNorm m') (hs : alook c.nSetNorm m = alook c.nSetNorm m') :
    effSetNorm c m spec opts = effSetNorm c m' spec opts := by
  simp [effSetNorm, effSpecific, h, hg, hs]

/-- when the specific option is absent from the call its default decides if it is not `None` -/
theorem eff_absent_consults (c : Cfg) (m : OptMap) (spec gen : Name) (opts : Kvs) (o : Val)
    (h : alook spec opts = none) (hm : alook spec m = some o) (ho : o ≠ c.noneVal) :
    effSpecific c m spec gen opts = some o := by
  simp [effSpecific, h, hm, ho]

/-! ## per-position grammar of `trivia` -/

/-- Acceptance of a `trivia` value implies that EVERY position matches its OWN grammar: a lone value and the first of
    two the leading grammar, the only element of a 1-tuple and the second of two the trailing grammar; longer tuples are
    never accepted. -/
theorem trivia_positions :
    (∀ t, checkTrivia (.one t) = true → leadOk t = true) ∧
    (∀ t, checkTrivia (.tup [t]) = true → trailOk t = true) ∧
    (∀ t0 t1, checkTrivia (.tup [t0, t1]) = true → leadOk t0 = true ∧ trailOk t1 = true) ∧
    (∀ t0 t1 t2 r, checkTrivia (.tup (t0 :: t1 :: t2 :: r)) = false) := by
  refine ⟨fun t h => h, fun t h => h, fun t0 t1 h => ?_, fun _ _ _ _ => rfl⟩
  simpa [checkTrivia] using h

/-- With the extracted token table: 'line' is a trailing-only word: alone or as the LEADING element it is rejected
    whatever stands in the trailing position, and it is accepted in the trailing positions. -/
theorem real_trivia_line_is_trailing_only :
    checkTrivia (.one (realTrivTok Pfst.Gen.Options.trivLine)) = false ∧
    ((List.range Pfst.Gen.Options.trivTokens.length).all fun j =>
      !checkTrivia (.tup [realTrivTok Pfst.Gen.Options.trivLine, realTrivTok j])) = true ∧
    checkTrivia (.tup [realTrivTok Pfst.Gen.Options.trivLine]) = true ∧
    checkTrivia (.tup [realTrivTok 0, realTrivTok Pfst.Gen.Options.trivLine]) = true := by decide

/-! ## nested option dicts and memoised reads -/

/-- A phase that was given a dict - the EMPTY dict included - never consults the call's top-level options: whatever
    they are, the phase sees the same thing.  (`copy_options={}` = plain thread/library defaults.) -/
theorem phase_given_ignores_top (c : Cfg) (m : OptMap) (top top' : Kvs) (d : Kvs) (n : Name) :
    phaseView c m top (some d) n = phaseView c m top' (some d) n := rfl

/-- in particular `{}`: the phase sees exactly the thread default of every option -/
theorem phase_empty_is_defaults (c : Cfg) (m : OptMap) (top : Kvs) (n : Name) :
    phaseView c m top (some []) n = (alook n m).getD c.noneVal := by
  simp [phaseView, phaseOptions, getOption, alook]

/-- only `None` inherits: then the phase sees what the top level sees -/
theorem phase_none_inherits (c : Cfg) (m : OptMap) (top : Kvs) (n : Name) :
    phaseView c m top none n = getOption c m n top := rfl

/-- `{}` and `None` are different things as soon as the top level passes the option -/
example : phaseView realCfg realCfg.defaults [(7, 0)] (some []) 7 = 10 ∧
          phaseView realCfg realCfg.defaults [(7, 0)] none 7 = 0 := by decide

theorem memo_eff_inv {α : Type} (f : Val → α) (cache : List (Nat × α)) (r : Req)
    (h : ∀ k a, alook k cache = some a → a = f k) :
    (memoStep keyEff f cache r).2 = f r.eff ∧ ∀ k a, alook k (memoStep keyEff f cache r).1 = some a → a = f k := by
  unfold memoStep
  cases hl : alook (keyEff r) cache with
  | some a => exact ⟨h _ _ hl, h⟩
  | none =>
    refine ⟨rfl, fun k a hk => ?_⟩
    by_cases e : k = keyEff r
    · subst e
      rw [alook_aput_same] at hk
      cases hk
      rfl
    · rw [alook_aput_ne _ _ e] at hk
      exact h k a hk

/-- **A memo keyed by the EFFECTIVE option value is transparent**: for every sequence of reads (any raw arguments,
    any thread defaults changing between the reads: blocks entered, left, left by exception, set_options) the answers
    are those of no memo at all. -/
theorem memo_effective_transparent {α : Type} (f : Val → α) : ∀ (rs : List Req) (cache : List (Nat × α)),
    (∀ k a, alook k cache = some a → a = f k) → memoRun keyEff f rs cache = rs.map (fun r => f r.eff)
  | [], _, _ => rfl
  | r :: rs, cache, h => by
    obtain ⟨h1, h2⟩ := memo_eff_inv f cache r h
    simp only [memoRun, List.map_cons, h1]
    rw [memo_effective_transparent f rs _ h2]

/-- **A memo keyed by the RAW argument is not**: two reads with the argument left out, the thread default changed in
    between (0 then 1): the second read answers with the first read's default. -/
theorem memo_raw_not_transparent :
    memoRun keyRaw (fun v => v) [⟨none, 0⟩, ⟨none, 1⟩] [] = [0, 0] ∧
    [(⟨none, 0⟩ : Req), ⟨none, 1⟩].map (fun r => r.eff) = [0, 1] ∧
    memoRun keyEff (fun v => v) [⟨none, 0⟩, ⟨none, 1⟩] [] = [0, 1] := by decide

/-! ## threads -/

/-- A whole program run by thread `t` leaves the dict of every other thread untouched. -/
theorem thread_frame (c : Cfg) (t u : Thread) (p : Prog) (σ : Store) (h : u ≠ t) :
    getT c u (exec c t p σ).1 = getT c u σ := by
  simp [exec, getT, putT, aget_aput_ne _ _ _ h]

/-- worlds that thread `t` cannot tell apart: same dict for `t`, same machine state of `t` -/
def agree (c : Cfg) (t : Thread) (w1 w2 : World) : Prop :=
  getT c t w1.σ = getT c t w2.σ ∧ aget idle t w1.ts = aget idle t w2.ts

/-- One machine step: (locality) what thread `t` does depends only on `t`'s own dict and state; (frame) a step of
    another thread `u` changes neither. -/
theorem thread_local_step (c : Cfg) (t : Thread) :
    (∀ w1 w2, agree c t w1 w2 → agree c t (stepW c w1 t) (stepW c w2 t)) ∧
    (∀ w u, u ≠ t → agree c t (stepW c w u) w) := by
  constructor
  · intro w1 w2 ⟨h1, h2⟩
    simp [agree, stepW, getT, putT, aget_aput_same] at h1 h2 ⊢
    rw [h1, h2]
    simp
  · intro w u h
    have h' : t ≠ u := fun e => h e.symm
    simp [agree, stepW, getT, putT, aget_aput_ne _ _ _ h']

theorem interleave_aux (c : Cfg) (t : Thread) : ∀ (sched : List Thread) (w1 w2 : World), agree c t w1 w2 →
    agree c t (runSched c w1 sched) (runSched c w2 (List.replicate (sched.count t) t))
  | [], _, _, h => by simpa [runSched] using h
  | u :: rest, w1, w2, h => by
    by_cases hu : u = t
    · subst hu
      have := interleave_aux c u rest (stepW c w1 u) (stepW c w2 u) ((thread_local_step c u).1 w1 w2 h)
      simpa [runSched, List.replicate_succ] using this
    · have h1 : agree c t (stepW c w1 u) w1 := (thread_local_step c t).2 w1 u hu
      have h2 : agree c t (stepW c w1 u) w2 := ⟨h1.1.trans h.1, h1.2.trans h.2⟩
      have := interleave_aux c t rest (stepW c w1 u) w2 h2
      have hc : (u :: rest).count t = rest.count t := by simp [hu]
      rw [hc]
      simpa [runSched] using this

/-- **Interleaving.**  For EVERY schedule (any sequence of thread ids, each occurrence = one machine step of that
    thread) and every thread `t`: the trace `t` has produced, its control state and its option dict are exactly those
    of `t` running ALONE for as many steps as it was scheduled. -/
theorem interleave (c : Cfg) (w : World) (sched : List Thread) (t : Thread) :
    agree c t (runSched c w sched) (runSched c w (List.replicate (sched.count t) t)) :=
  interleave_aux c t sched w w ⟨rfl, rfl⟩

/-- The machine run on `p` reaches, for every continuation stack `K`, the big-step result: control = normal/exception,
    same stack, trace extended by the big-step trace, dict = big-step dict. -/
theorem machine_exec (c : Cfg) : ∀ (p : Prog) (m : OptMap) (K : List Frame) (tr : List Obs),
    ∃ n, iterL c n (m, ⟨.run p, K, tr⟩) = ((execL c p m).m, ⟨outCtl (execL c p m).exc, K, tr ++ (execL c p m).tr⟩) := by
  intro p
  induction p with
  | skip => intro m K tr; exact ⟨1, by simp [iterL, stepL, execL, outCtl]⟩
  | get n opts => intro m K tr; exact ⟨1, by simp [iterL, stepL, execL, outCtl]⟩
  | raise => intro m K tr; exact ⟨1, by simp [iterL, stepL, execL, outCtl]⟩
  | call opts =>
    intro m K tr
    refine ⟨1, ?_⟩
    cases h : (callObs c m opts).2 <;> simp [iterL, stepL, execL, outCtl, h]
  | set kvs =>
    intro m K tr
    refine ⟨1, ?_⟩
    cases h : (doSet c m kvs).exc <;> simp [iterL, stepL, execL, outCtl, h]
  | seq p q ihp ihq =>
    intro m K tr
    obtain ⟨n1, h1⟩ := ihp m (.seqK q :: K) tr
    by_cases he : (execL c p m).exc = true
    · refine ⟨1 + n1 + 1, ?_⟩
      rw [iterL_add, iterL_add]
      have : iterL c 1 (m, ⟨.run (.seq p q), K, tr⟩) = (m, ⟨.run p, .seqK q :: K, tr⟩) := by simp [iterL, stepL]
      rw [this, h1]
      simp [iterL, stepL, execL, outCtl, he]
    · have he' : (execL c p m).exc = false := by simpa using he
      obtain ⟨n2, h2⟩ := ihq (execL c p m).m K (tr ++ (execL c p m).tr)
      refine ⟨1 + n1 + 1 + n2, ?_⟩
      rw [iterL_add, iterL_add, iterL_add]
      have : iterL c 1 (m, ⟨.run (.seq p q), K, tr⟩) = (m, ⟨.run p, .seqK q :: K, tr⟩) := by simp [iterL, stepL]
      rw [this, h1]
      have : iterL c 1 ((execL c p m).m, ⟨outCtl (execL c p m).exc, .seqK q :: K, tr ++ (execL c p m).tr⟩)
          = ((execL c p m).m, ⟨.run q, K, tr ++ (execL c p m).tr⟩) := by simp [iterL, stepL, outCtl, he']
      rw [this, h2]
      simp [execL, he', List.append_assoc]
  | block kvs body ih =>
    intro m K tr
    cases hs : setOptionsD c m kvs with
    | error e => exact ⟨1, by simp [iterL, stepL, execL, outCtl, hs]⟩
    | ok r =>
      obtain ⟨m1, old⟩ := r
      obtain ⟨n1, h1⟩ := ih m1 (.blockK old :: K) (tr ++ [.enter old m1])
      refine ⟨1 + n1 + 1, ?_⟩
      rw [iterL_add, iterL_add]
      have : iterL c 1 (m, ⟨.run (.block kvs body), K, tr⟩)
          = (m1, ⟨.run body, .blockK old :: K, tr ++ [.enter old m1]⟩) := by simp [iterL, stepL, hs]
      rw [this, h1]
      cases he : (execL c body m1).exc <;> simp [iterL, stepL, execL, outCtl, hs, he, List.append_assoc]
  | «catch» body ih =>
    intro m K tr
    obtain ⟨n1, h1⟩ := ih m (.catchK :: K) tr
    refine ⟨1 + n1 + 1, ?_⟩
    rw [iterL_add, iterL_add]
    have : iterL c 1 (m, ⟨.run (.catch body), K, tr⟩) = (m, ⟨.run body, .catchK :: K, tr⟩) := by simp [iterL, stepL]
    rw [this, h1]
    cases he : (execL c body m).exc <;> simp [iterL, stepL, execL, outCtl]

/-- `n` consecutive steps of thread `t` alone = `n` local machine steps on `t`'s own dict -/
theorem solo_iter (c : Cfg) (t : Thread) : ∀ (n : Nat) (w : World),
    (getT c t (runSched c w (List.replicate n t)).σ, aget idle t (runSched c w (List.replicate n t)).ts)
      = iterL c n (getT c t w.σ, aget idle t w.ts)
  | 0, w => by simp [runSched, iterL]
  | n + 1, w => by
    have := solo_iter c t n (stepW c w t)
    simp only [runSched, List.replicate_succ, List.foldl_cons] at this ⊢
    rw [this]
    simp [iterL, stepW, getT, putT, aget_aput_same]

/-- **Interleaving, end to end.**  Thread `t` starts program `p`.  There is a step count `n` such that for EVERY schedule
    that gives `t` at least `n` steps - whatever the other threads do in between, with whatever programs - `t` ends
    halted with exactly the observations, the exception status and the option dict of `p` run alone (big-step). -/
theorem interleave_exec (c : Cfg) (w : World) (t : Thread) (p : Prog) (h0 : aget idle t w.ts = ⟨.run p, [], []⟩) :
    ∃ n, ∀ sched : List Thread, sched.count t ≥ n →
      aget idle t (runSched c w sched).ts
          = ⟨outCtl (execL c p (getT c t w.σ)).exc, [], (execL c p (getT c t w.σ)).tr⟩ ∧
      getT c t (runSched c w sched).σ = (execL c p (getT c t w.σ)).m := by
  obtain ⟨n, hn⟩ := machine_exec c p (getT c t w.σ) [] []
  refine ⟨n, fun sched hge => ?_⟩
  obtain ⟨a1, a2⟩ := interleave c w sched t
  have hs := solo_iter c t (sched.count t) w
  obtain ⟨k, hk⟩ : ∃ k, sched.count t = n + k := ⟨sched.count t - n, by omega⟩
  rw [hk, iterL_add, h0, hn] at hs
  simp only [List.nil_append] at hs
  rw [iterL_halted] at hs
  rw [hk] at a1 a2
  have h1 := congrArg Prod.fst hs
  have h2 := congrArg Prod.snd hs
  simp only at h1 h2
  exact ⟨a2.trans h2, a1.trans h1⟩

/-- One lock-step turn of the harness (`stepVis`: run thread `t` until it has made one more observation) is `k` machine
    steps of `t`, so the schedules the harness plays are instances of the schedules of `interleave`. -/
theorem stepVis_is_schedule (c : Cfg) (t : Thread) : ∀ (fuel : Nat) (w : World),
    ∃ k, stepVis c fuel w t = runSched c w (List.replicate k t)
  | 0, w => ⟨0, by simp [stepVis, runSched]⟩
  | fuel + 1, w => by
    simp only [stepVis]
    by_cases hh : (aget idle t w.ts).halted = true
    · exact ⟨0, by simp [hh, runSched]⟩
    · simp only [hh]
      by_cases hg : (aget idle t (stepW c w t).ts).tr.length > (aget idle t w.ts).tr.length
      · exact ⟨1, by simp [hg, runSched]⟩
      · obtain ⟨k, hk⟩ := stepVis_is_schedule c t fuel (stepW c w t)
        exact ⟨k + 1, by simp [hg, hk, runSched, List.replicate_succ]⟩

/-! ## the extracted tables -/

/-- Facts about the table extracted from the imported module, re-decided on every run: the default dict has no
    duplicate key; the marker key `__options_checked` is no option; `set_options` validates exactly the keys of the
    default dict (so the `KeyError` branch is dead for validated keys); every default value passes its own check; the
    names read by the `_get_opt_eff_*` resolvers are global options; call-only options are not settable. -/
theorem real_tables_wf :
    (keys realCfg.defaults).Nodup ∧
    (match realCfg.marker with | some mk => !(keys realCfg.defaults).contains mk | none => true) = true ∧
    keys realCfg.acceptGlobal = keys realCfg.defaults ∧
    (realCfg.defaults.all fun kv => accepts realCfg false kv.1 kv.2) = true ∧
    ([realCfg.nPars, realCfg.nParsArglike, realCfg.nNorm, realCfg.nNormSelf, realCfg.nNormGet, realCfg.nSetNorm].all
      fun n => (keys realCfg.defaults).contains n) = true ∧
    (Pfst.Gen.Options.dyn.all fun n => !(keys realCfg.acceptGlobal).contains n && (keys realCfg.acceptAll).contains n) = true := by
  refine ⟨by decide, by decide, by decide, by decide, by decide, by decide⟩

theorem real_marker_fresh (mk : Name) (h : realCfg.marker = some mk) : mk ∉ keys realCfg.defaults := by
  have := real_tables_wf.2.1
  rw [h] at this
  simpa using this

/-- The real tables, any thread whose dict still has the default keys (every reachable one, `exec_frame`): a
    `set_options` / `options()` call with an unacceptable item at any position raises and changes nothing. -/
theorem real_set_invalid (σ : Store) (t : Thread) (kvs : Kvs) (n : Name) (v : Val)
    (hk : keys (getT realCfg t σ) = keys realCfg.defaults)
    (hin : (n, v) ∈ kvs) (hbad : accepts realCfg false n v = false) :
    ∃ e, setOptions realCfg σ t kvs = (σ, .error e) :=
  set_invalid_any_position realCfg σ t kvs n v hin hbad (fun mk h => by rw [hk]; exact real_marker_fresh mk h)

/-- The real tables, a thread at the library defaults: a with-block whose body leaves nothing dirty outside the block's
    own keys gives back exactly the defaults - for every body, raising or not. -/
theorem real_block_restores_all (kvs : Kvs) (body : Prog) (hd : ∀ k ∈ dirty body, k ∈ keys kvs) :
    (execL realCfg (.block kvs body) realCfg.defaults).m = realCfg.defaults :=
  block_restores_all realCfg kvs body realCfg.defaults real_tables_wf.1 hd

/-! ## non-vacuity: concrete programs over the real tables (names/values by code, see `Pfst.Gen.Options`) -/

section examples
-- codes used below: names 7 = pars, 0 = raw, 1 = trivia, 20 = bogus ; values 1 = False, 0 = True, 10 = 'auto', 27 = 'x'

/-- `with options(pars=False): set_options(pars=True, raw=True); raise` inside try/except: the block really changes
    `pars`, the body changes it again, the raise propagates through the block, and afterwards `pars` is back to 'auto'
    while `raw` (not named by the block) stays `True`. -/
example :
    let p := Prog.catch (.block [(7, 1)] (.seq (.set [(7, 0), (0, 0)]) .raise))
    let r := execL realCfg p realCfg.defaults
    alook 7 r.m = some 10 ∧ alook 0 r.m = some 0 ∧ r.exc = false ∧ r.tr.length = 4 ∧
    (execL realCfg (.block [(7, 1)] (.seq (.set [(7, 0), (0, 0)]) .raise)) realCfg.defaults).exc = true := by decide

/-- nested blocks with a raise in the inner one, nothing dirty: the dict is exactly the defaults again, and the trace is
    not trivial (the options really were different inside) -/
example :
    let p := Prog.block [(7, 1), (1, 17)] (.catch (.block [(7, 0)] (.seq (.call [(0, 10)]) .raise)))
    let r := execL realCfg p realCfg.defaults
    r.m = realCfg.defaults ∧ r.exc = false ∧ r.tr.length = 6 ∧
    r.tr.head? = some (.enter [(7, 10), (1, 0)] (update realCfg.defaults [(7, 1), (1, 17)])) := by decide

/-- a bad value in the middle and an unknown name at the end are both rejected with the store untouched -/
example : setOptions realCfg [] 0 [(0, 0), (7, 27), (1, 0)] = ([], .error (.badValue 7 27)) ∧
          setOptions realCfg [] 0 [(0, 0), (1, 0), (20, 0)] = ([], .error (.badName 20)) ∧
          accepts realCfg false 7 27 = false ∧ accepts realCfg false 20 0 = false := ⟨rfl, rfl, rfl, rfl⟩

/-- the same keyword arguments without the bad item ARE accepted and change the store (the hypothesis of
    `set_invalid_*` is what makes the difference) -/
example : (setOptions realCfg [] 0 [(0, 0), (1, 0)]).2 = .ok [(0, 1), (1, 0)] ∧
          getT realCfg 0 (setOptions realCfg [] 0 [(0, 0), (1, 0)]).1 ≠ realCfg.defaults := ⟨rfl, by decide⟩

/-- a per-call option is seen by the call and by nothing after it -/
example :
    let r := execL realCfg (.seq (.call [(7, 1)]) (.get 7 [])) realCfg.defaults
    r.tr.map (fun o => match o with | .view vs _ _ => vs.getD 7 99 | .val v _ => v | _ => 99) = [1, 10] ∧
    r.m = realCfg.defaults := by decide

/-- two threads, an interleaved schedule: thread 0 sets `pars=False` inside a block while thread 1 reads `pars` in
    between and still sees 'auto'; both end with the results of their solo runs -/
example :
    let p0 := Prog.block [(7, 1)] (.get 7 [])
    let p1 := Prog.seq (.get 7 []) (.get 7 [])
    let w0 : World := ⟨[], [(0, ⟨.run p0, [], []⟩), (1, ⟨.run p1, [], []⟩)]⟩
    let w := runVis realCfg 10 w0 [0, 1, 0, 1, 0, 1, 0]
    (aget idle 1 w.ts).tr = (execL realCfg p1 realCfg.defaults).tr ∧
    (aget idle 0 w.ts).tr = (execL realCfg p0 realCfg.defaults).tr ∧
    (aget idle 1 w.ts).tr = [.val 10 realCfg.defaults, .val 10 realCfg.defaults] ∧
    ((aget idle 0 w.ts).tr.map fun o => match o with | .val v _ => v | _ => 99) = [99, 1, 99] ∧
    (aget idle 0 w.ts).halted = true ∧ (aget idle 1 w.ts).halted = true := by decide

/-- presence, not value: under a block default `norm_self=True` (name 11, value 0) a call passing `norm_self=None,
    norm=False` resolves to `False`, a call passing only `norm=False` resolves to `True`; under library defaults both
    resolve to `False` -/
example :
    let m := update realCfg.defaults [(11, 0)]
    effSpecific realCfg m 11 10 [(11, 2), (10, 1)] = some 1 ∧ effSpecific realCfg m 11 10 [(10, 1)] = some 0 ∧
    effSpecific realCfg realCfg.defaults 11 10 [(11, 2), (10, 1)] = some 1 ∧
    effSpecific realCfg realCfg.defaults 11 10 [(10, 1)] = some 1 ∧
    realCfg.nNormSelf = 11 ∧ realCfg.nNorm = 10 ∧ realCfg.noneVal = 2 := by decide

end examples

end Pfst.C20
