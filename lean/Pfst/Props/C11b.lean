import Pfst.Clip

/-!
# C11b — the coordinate spellings accepted by `put_src` / `get_src` all denote the same location

`clip_src_loc` is what turns the caller's `(ln, col, end_ln, end_col)` (integers, negative integers counted from the end of
the source / of the line, or `'end'`) into the location every later step of `put_src(action='offset')` works on.  The
theorems say that a successful result is always inside the source, that a canonical location is a fixed point, and that
the negative and `'end'` spellings of a location resolve to exactly that location — each end column against ITS OWN line.
-/
namespace Pfst.C11b
open Pfst.Clip

theorem lineLen_nonneg (lens : List Nat) (i : Int) : 0 ≤ lineLen lens i := by
  simp [lineLen]

/-- a successful clip is inside the source: lines within `[0, n)`, columns within their own line, start not after end -/
theorem clip_bounds (lens : List Nat) (ln col endLn endCol : Coord) (l c e ec : Int) (hn : 0 < lens.length)
    (h : clip lens ln col endLn endCol = .ok l c e ec) :
    0 ≤ l ∧ l ≤ e ∧ e < (lens.length : Nat) ∧ 0 ≤ c ∧ c ≤ lineLen lens l ∧ 0 ≤ ec ∧ ec ≤ lineLen lens e ∧ (e = l → c ≤ ec) := by
  simp only [clip] at h
  split at h
  · cases h
  · split at h
    · cases h
    · rename_i h1 h2
      injection h with hl hc he hec
      have hl0 := lineLen_nonneg lens l
      have he0 := lineLen_nonneg lens e
      subst hl; subst he
      have hcb : ∀ (len : Int) (k : Coord), 0 ≤ len → 0 ≤ resolveCol len k ∧ resolveCol len k ≤ len := by
        intro len k hlen
        cases k with
        | fin => simp [resolveCol]; omega
        | idx i => simp only [resolveCol]; split <;> omega
      have hc' := hcb _ col hl0
      have hec' := hcb _ endCol he0
      rw [hc] at hc'; rw [hec] at hec'
      refine ⟨by simp only [clamp]; omega, ?_, by simp only [clamp]; omega, hc'.1, hc'.2, hec'.1, hec'.2, ?_⟩
      · simp only [clamp]; omega
      · intro heq
        rw [← hc, ← hec]
        exact Decidable.byContradiction (fun hcon => h2 ⟨heq, Int.not_le.mp hcon⟩)

/-- `clip` in terms of the resolved coordinates -/
theorem clip_of_resolved (lens : List Nat) (kl kc ke kec : Coord) (l c e ec : Int)
    (rl : resolveLn (lens.length : Nat) kl = l) (re : resolveLn (lens.length : Nat) ke = e)
    (_h0 : 0 ≤ l) (hle : l ≤ e) (h3 : e < (lens.length : Nat))
    (rc : resolveCol (lineLen lens l) kc = c) (rec' : resolveCol (lineLen lens e) kec = ec) (h8 : e = l → c ≤ ec) :
    clip lens kl kc ke kec = .ok l c e ec := by
  have hl : clamp 0 ((lens.length : Nat) - 1) l = l := by simp only [clamp]; omega
  have he : clamp 0 ((lens.length : Nat) - 1) e = e := by simp only [clamp]; omega
  have hgt : ¬ l > e := by omega
  have hcol : ¬ (e = l ∧ c > ec) := by intro ⟨x, y⟩; have := h8 x; omega
  simp only [clip, rl, re, if_neg hgt, hl, he, rc, rec', if_neg hcol]

/-- a canonical location is a fixed point -/
theorem clip_canonical (lens : List Nat) (l c e ec : Int) (h : canonical lens l c e ec) :
    clip lens (.idx l) (.idx c) (.idx e) (.idx ec) = .ok l c e ec := by
  obtain ⟨h1, h2, h3, h4, h5, h6, h7, h8⟩ := h
  refine clip_of_resolved lens _ _ _ _ l c e ec ?_ ?_ h1 h2 h3 ?_ ?_ h8
  · simp only [resolveLn]; rw [if_neg (by omega)]
  · simp only [resolveLn]; rw [if_neg (by omega)]
  · simp only [resolveCol]; rw [if_neg (by omega)]; omega
  · simp only [resolveCol]; rw [if_neg (by omega)]; omega

/-- the line spelled from the end (`l - n`) or as `'end'` (for the last line) is the same line -/
theorem resolveLn_neg (n l : Int) (h0 : 0 ≤ l) (h1 : l < n) : resolveLn n (.idx (l - n)) = l := by
  simp only [resolveLn]; rw [if_pos (by omega)]; omega

theorem resolveLn_fin (n : Int) : resolveLn n .fin = n - 1 := rfl

/-- a column spelled from the end of ITS line (`c - len`, for `c < len`) or as `'end'` (for `c = len`) is the same column -/
theorem resolveCol_neg (len c : Int) (h0 : 0 ≤ c) (h1 : c < len) : resolveCol len (.idx (c - len)) = c := by
  simp only [resolveCol]; rw [if_pos (by omega)]; omega

theorem resolveCol_fin (len : Int) : resolveCol len .fin = len := rfl

/-- **every spelling of a canonical location clips to that location**: each of the four coordinates may independently be
given plainly, from the end (negative), or as `'end'` where that names it. -/
inductive Spells (len : Int) (x : Int) : Coord → Prop
  | plain : Spells len x (.idx x)
  | neg : x < len → Spells len x (.idx (x - len))
  | fin : x = len → Spells len x .fin

inductive SpellsLn (n : Int) (x : Int) : Coord → Prop
  | plain : SpellsLn n x (.idx x)
  | neg : SpellsLn n x (.idx (x - n))
  | fin : x = n - 1 → SpellsLn n x .fin

theorem clip_spellings (lens : List Nat) (l c e ec : Int) (h : canonical lens l c e ec)
    (kl kc ke kec : Coord) (sl : SpellsLn (lens.length : Nat) l kl) (se : SpellsLn (lens.length : Nat) e ke)
    (sc : Spells (lineLen lens l) c kc) (sec : Spells (lineLen lens e) ec kec) :
    clip lens kl kc ke kec = .ok l c e ec := by
  obtain ⟨h1, h2, h3, h4, h5, h6, h7, h8⟩ := h
  have rl : resolveLn (lens.length : Nat) kl = l := by
    cases sl with
    | plain => simp only [resolveLn]; rw [if_neg (by omega)]
    | neg => exact resolveLn_neg _ _ h1 (by omega)
    | fin hx => simp only [resolveLn]; omega
  have re : resolveLn (lens.length : Nat) ke = e := by
    cases se with
    | plain => simp only [resolveLn]; rw [if_neg (by omega)]
    | neg => exact resolveLn_neg _ _ (by omega) h3
    | fin hx => simp only [resolveLn]; omega
  have rc : resolveCol (lineLen lens l) kc = c := by
    cases sc with
    | plain => simp only [resolveCol]; rw [if_neg (by omega)]; omega
    | neg hx => exact resolveCol_neg _ _ h4 hx
    | fin hx => simp only [resolveCol]; omega
  have rec' : resolveCol (lineLen lens e) kec = ec := by
    cases sec with
    | plain => simp only [resolveCol]; rw [if_neg (by omega)]; omega
    | neg hx => exact resolveCol_neg _ _ h6 hx
    | fin hx => simp only [resolveCol]; omega
  exact clip_of_resolved lens kl kc ke kec l c e ec rl re h1 h2 h3 rc rec' h8

/-- the two refusals are exactly the two ordering errors (after resolution), nothing else is refused -/
theorem clip_refuses_iff (lens : List Nat) (ln col endLn endCol : Coord) :
    (clip lens ln col endLn endCol = .errLine ↔ resolveLn (lens.length : Nat) ln > resolveLn (lens.length : Nat) endLn) := by
  simp only [clip]
  constructor
  · intro h
    split at h
    · assumption
    · split at h <;> cases h
  · intro h
    rw [if_pos h]

/-- non-vacuity: a three-line source; the span from (0,2) to (2,1) spelled with negative end coordinates -/
example : clip [5, 9, 3] (.idx 0) (.idx 2) (.idx (-1)) (.idx (-2)) = .ok 0 2 2 1 := by decide
example : canonical [5, 9, 3] 0 2 2 1 := by simp [canonical, lineLen]
/-- resolving the end column against the START line (the seeded slip) gives another column: 5 - 2 = 3, clipped to 3 -/
example : resolveCol (lineLen [5, 9, 3] 0) (.idx (-2)) ≠ resolveCol (lineLen [5, 9, 3] 2) (.idx (-2)) := by decide

end Pfst.C11b
