import Pfst.TableCheck
import Pfst.Gen.SyntaxOrder
import Pfst.Gen.NextPrev
/-! C14, tables, first half of the shapes (the kernel evaluations are spread over four modules that build in
parallel: C14Tables, C14TablesB, C14Covers, C14Static).  The tables are regenerated from the working tree on every run,
so these `decide`s are re-checked against the code that is there. -/
namespace Pfst.C14
open Pfst

theorem table_consistent_A : TableCheck.allOk Gen.SyntaxOrder.shapesEncA Gen.NextPrev.tablesEncA = true := by
  decide +kernel

end Pfst.C14
