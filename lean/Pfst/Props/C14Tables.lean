import Pfst.TableCheck
import Pfst.Gen.SyntaxOrder
import Pfst.Gen.NextPrev
/-! C14, table part 1 (separate module: the kernel evaluation takes ~20 s).  The tables are regenerated from the working
tree on every run, so these `decide`s are re-checked against the code that is there. -/
namespace Pfst.C14
open Pfst

/-- **NEXT is exactly "successor", PREV exactly "predecessor" in the syntax-ordered child list**, for every tabulated
parent shape (every node class; list lengths 0..3, optional fields present/absent, None entries in `Dict.keys` and
`arguments.kw_defaults`, every valid interleaving of ≤3 positional/starred and ≤3 keyword arguments of Call/ClassDef):
`NEXT_FUNCS[cls, None]` answers the first element of `syntax_ordered_children`, `NEXT_FUNCS[cls, field](parent, idx)` the
element after the child at (field, idx), None after the last; `PREV_FUNCS` the mirror image. -/
theorem table_consistent : TableCheck.allOk Gen.SyntaxOrder.shapesEnc Gen.NextPrev.tablesEnc = true := by
  decide +kernel

end Pfst.C14
