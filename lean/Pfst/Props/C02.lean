import Pfst.LinksSwapLemmas
import Pfst.SetPosLemmas

/-!
# C02 — an edited tree is observationally identical to a fresh parse of its own source

Property theorems about the model of the link store, the cache flushing and the view windows (`Pfst/Links.lean`).
Helper lemmas: `Pfst/LinksLemmas.lean`.  What the theorems do not cover (contents of cached answers computed from
source text, `pars` keys) is compared on the real code by the query–edit–query sweep of `harness/props/C02.py`.
-/
namespace Pfst.C02
open Pfst.Links Pfst.Offset

/-- **Link invariant** of a state: for every AST `a` reachable from the root there is an FST `f` with `a.f = f`,
`f.a = a`, `f.parent` = the FST of the parent AST (`None` at the root), `f.pfield` = the slot `a` occupies; and the
root AST's FST is the root FST object.  (Executable form `linkInvB`, evaluated by the driver on every dumped graph;
`linkInv_mem` below unfolds it into the ∀∃ form.) -/
def LinkInv (s : State) : Prop := linkInvB s = true

mutual
/-- all subtrees (= all reachable AST nodes) of a tree, preorder -/
def subtrees : Ast → List Ast
  | .mk i k f ks => .mk i k f ks :: subtreesList ks
def subtreesList : List Ast → List Ast
  | [] => []
  | k :: r => subtrees k ++ subtreesList r
end

mutual
private theorem linked_mem (σ : Store) : ∀ (t : Ast) (pf : Option Nat), linkedB σ pf t = true → ∀ n ∈ subtrees t,
    ∃ f, σ.astF n.id = some f ∧ (σ.fst f).a = some n.id ∧ (σ.fst f).pfield = n.fld ∧
      ∀ k ∈ n.kids, ∃ g, σ.astF k.id = some g ∧ (σ.fst g).parent = some f
  | .mk a kind fld kids, pf, h, n, hn => by
    simp only [linkedB] at h
    cases hf : σ.astF a with
    | none => simp [hf] at h
    | some f =>
      simp only [hf, Bool.and_eq_true, beq_iff_eq] at h
      simp only [subtrees, List.mem_cons] at hn
      cases hn with
      | inl h0 =>
        subst h0
        refine ⟨f, hf, h.1.1.1, h.1.2, ?_⟩
        intro k hk
        exact linkedList_parent σ kids (some f) h.2 k hk
      | inr h1 => exact linkedList_mem σ kids (some f) h.2 n h1
private theorem linkedList_mem (σ : Store) : ∀ (l : List Ast) (pf : Option Nat), linkedListB σ pf l = true →
    ∀ n ∈ subtreesList l,
    ∃ f, σ.astF n.id = some f ∧ (σ.fst f).a = some n.id ∧ (σ.fst f).pfield = n.fld ∧
      ∀ k ∈ n.kids, ∃ g, σ.astF k.id = some g ∧ (σ.fst g).parent = some f
  | [], _, _, n, hn => by simp [subtreesList] at hn
  | k :: rest, pf, h, n, hn => by
    simp only [linkedListB, Bool.and_eq_true] at h
    simp only [subtreesList, List.mem_append] at hn
    cases hn with
    | inl h0 => exact linked_mem σ k pf h.1 n h0
    | inr h1 => exact linkedList_mem σ rest pf h.2 n h1
private theorem linkedList_parent (σ : Store) : ∀ (l : List Ast) (pf : Option Nat), linkedListB σ pf l = true →
    ∀ k ∈ l, ∃ g, σ.astF k.id = some g ∧ (σ.fst g).parent = pf
  | [], _, _, k, hk => by cases hk
  | c :: rest, pf, h, k, hk => by
    simp only [linkedListB, Bool.and_eq_true] at h
    cases hk with
    | head =>
      obtain ⟨a, kind, fld, kids⟩ := c
      have h1 := h.1
      simp only [linkedB] at h1
      cases hf : σ.astF a with
      | none => simp [hf] at h1
      | some g =>
        simp only [hf, Bool.and_eq_true, beq_iff_eq] at h1
        exact ⟨g, hf, h1.1.1.2⟩
    | tail _ hk' => exact linkedList_parent σ rest pf h.2 k hk'
end

/-- **LinkInv in ∀∃ form**: every reachable AST has an FST that points back at it and records the slot it occupies;
each child's FST has the parent's FST as `.parent`; the root's FST is the root FST object and has no parent. -/
theorem linkInv_mem (s : State) (h : LinkInv s) :
    s.σ.astF s.root.id = some s.rootF ∧
    ∀ n ∈ subtrees s.root,
      ∃ f, s.σ.astF n.id = some f ∧ (s.σ.fst f).a = some n.id ∧ (s.σ.fst f).pfield = n.fld ∧
        ∀ k ∈ n.kids, ∃ g, s.σ.astF k.id = some g ∧ (s.σ.fst g).parent = some f := by
  simp only [LinkInv, linkInvB, Bool.and_eq_true, beq_iff_eq] at h
  exact ⟨h.2, linked_mem s.σ s.root none h.1⟩

/-- **unmake_dead**: after `_unmake_fst_tree` every node of the detached subtree is dead: `a.f = None` for every AST
of the subtree and `f.a = None` for the FST object each of them had. Any store, any subtree. -/
theorem unmake_dead (σ : Store) (t : Ast) :
    ∀ x ∈ ids t, (unmake σ t).astF x = none ∧ ∀ f, σ.astF x = some f → ((unmake σ t).fst f).a = none := by
  intro x hx
  have hk := unmake_kills t σ x hx
  refine ⟨hk, ?_⟩
  intro f hf
  have hc : Coupled σ σ := fun _ _ h => Or.inl h
  cases unmake_coupled σ t σ hc x f hf with
  | inl h => rw [hk] at h; cases h
  | inr h => exact h.2

/-- **make_inv**: `_make_fst_tree` on a root whose FST exists (`rootF`, an existing object without parent) and whose
descendants are pairwise distinct ASTs without FSTs (a freshly parsed tree) establishes the link invariant. Any size,
any shape. -/
theorem make_inv (σ : Store) (a : Nat) (kind : String) (kids : List Ast) (rootF : Nat)
    (hF : rootF < σ.next) (ha : σ.astF a = some rootF)
    (hr : (σ.fst rootF).a = some a ∧ (σ.fst rootF).parent = none ∧ (σ.fst rootF).pfield = none)
    (hnd : (ids (.mk a kind none kids)).Nodup) (hfresh : ∀ x ∈ idsList kids, σ.astF x = none) :
    LinkInv { root := .mk a kind none kids, rootF := rootF, σ := makeKids σ rootF kids } := by
  simp only [ids, List.nodup_cons] at hnd
  obtain ⟨hfr, hl⟩ := makeKids_spec kids σ rootF hF hnd.2 hfresh
  have hA : (makeKids σ rootF kids).astF a = some rootF := by rw [hfr.astF_out a hnd.1, ha]
  have hR : (makeKids σ rootF kids).fst rootF = σ.fst rootF := hfr.fst_old rootF hF
  simp only [LinkInv, linkInvB, linkedB, Ast.id, hA, hR, hr.1, hr.2.1, hr.2.2, beq_self_eq_true, Bool.true_and, hl]

/-- **unmake_frame**: `_unmake_fst_tree` writes nothing outside the detached subtree: `a.f` of every AST that is not in
the subtree is unchanged, every FST record that is not the `a.f` of an AST of the subtree is unchanged, and no object is
created. Any store, any subtree. -/
theorem unmake_frame (σ : Store) (t : Ast) :
    (∀ x, x ∉ ids t → (unmake σ t).astF x = σ.astF x) ∧
    (∀ g, (∀ x ∈ ids t, σ.astF x ≠ some g) → (unmake σ t).fst g = σ.fst g) ∧
    (unmake σ t).next = σ.next :=
  ⟨unmake_astF_frame t σ, unmake_fst_frame t σ, unmake_next t σ⟩

/-- **linked_injective**: in a linked tree two different ASTs never share an FST object (`a ↦ a.f` is injective),
because each FST points back at its own AST. -/
theorem linked_injective (σ : Store) (t : Ast) (pf : Option Nat) (h : linkedB σ pf t = true) :
    ∀ x ∈ ids t, ∀ y ∈ ids t, ∀ f, σ.astF x = some f → σ.astF y = some f → x = y := by
  intro x hx y hy f hfx hfy
  have h1 := linked_back σ t pf h x hx f hfx
  have h2 := linked_back σ t pf h y hy f hfy
  rw [h1] at h2
  exact Option.some.inj h2

/-- **unmake_keeps_linked**: the step that was missing for `_set_ast` / `_set_field` away from the root. Unmaking a
linked subtree `t` leaves every other linked subtree `u` that shares no AST with it (a sibling, an element of another
field, the spine above) linked exactly as it was: the FSTs of `u` are not FSTs of `t` (each points back at its own
AST), so `_unmake_fst_tree` writes none of them. Any store, any two subtrees. -/
theorem unmake_keeps_linked (σ : Store) (t u : Ast) (pt pu : Option Nat)
    (ht : linkedB σ pt t = true) (hu : linkedB σ pu u = true) (hd : ∀ x ∈ ids u, x ∉ ids t) :
    linkedB (unmake σ t) pu u = true := by
  have hbu := linked_back σ u pu hu
  have hbt := linked_back σ t pt ht
  refine linkedB_congrP σ (unmake σ t) (fun g => ∀ y ∈ ids t, σ.astF y ≠ some g) u pu
    (fun x hx => unmake_astF_frame t σ x (hd x hx)) ?_ (fun g hg => unmake_fst_frame t σ g hg) hu
  intro x hx f hf y hy hfy
  have h1 := hbu x hx f hf
  have h2 := hbt y hy f hfy
  rw [h1] at h2
  have : x = y := Option.some.inj h2
  exact hd x hx (this ▸ hy)

/- The full statement for `_set_ast` is `setAst_inv` below (every non-root position) together with
`setAst_inv_partial` (the root position, kept under its earlier name). Steps: `linked_injective` (injectivity of
`a ↦ a.f` on a linked tree), `unmake_frame` / `unmake_keeps_linked` (unmaking the old subtree leaves every disjoint
linked subtree linked), `Pfst.Links.swap_linked` (the spine from the root to `f`). -/
/-- **setAst_inv (root position)**: replacing the AST under the root FST by a fresh tree (pairwise distinct ASTs
without FSTs) re-establishes the link invariant, and the root FST object is the same object as before: the old tree is
unmade (see `unmake_dead`), the root FST is kept, new FSTs are made below it. -/
theorem setAst_inv_partial (s : State) (new : Ast)
    (hF : s.rootF < s.σ.next) (hra : (s.σ.fst s.rootF).a = some s.root.id)
    (hrp : (s.σ.fst s.rootF).parent = none ∧ (s.σ.fst s.rootF).pfield = none)
    (hnd : (ids new).Nodup) (hfresh : ∀ x ∈ ids new, s.σ.astF x = none) :
    LinkInv (setAst s s.rootF new) ∧ (setAst s s.rootF new).rootF = s.rootF := by
  rcases hroot : s.root with ⟨rid, rk, rf, rks⟩
  obtain ⟨nid, nk, nf, nks⟩ := new
  simp only [ids, List.nodup_cons] at hnd
  have hfind : findId rid (Ast.mk rid rk rf rks) = some (Ast.mk rid rk rf rks) := by simp [findId]
  have hra' : (s.σ.fst s.rootF).a = some rid := by rw [hra, hroot]; rfl
  -- the store after unmaking the old tree
  have hn1 : (unmake s.σ (Ast.mk rid rk rf rks)).astF nid = none :=
    unmake_keeps_none _ _ _ (hfresh nid (by simp [ids]))
  have hpar := unmake_fst_other (Ast.mk rid rk rf rks) s.σ s.rootF
  have hnext : (unmake s.σ (Ast.mk rid rk rf rks)).next = s.σ.next := unmake_next _ _
  generalize hσ1 : unmake s.σ (Ast.mk rid rk rf rks) = σ1 at hn1 hpar hnext
  -- self.a = ast; ast.f = self
  obtain ⟨σ2, hσ2⟩ : ∃ σ2 : Store, σ2 = relink σ1 s.rootF nid := ⟨_, rfl⟩
  have h2next : σ2.next = s.σ.next := by rw [hσ2]; exact hnext
  have h2astF : σ2.astF = upd σ1.astF nid (some s.rootF) := by rw [hσ2]; rfl
  have h2fst : σ2.fst = upd σ1.fst s.rootF { σ1.fst s.rootF with a := some nid } := by rw [hσ2]; rfl
  have h2fresh : ∀ x ∈ idsList nks, σ2.astF x = none := by
    intro x hx
    have hxn : x ≠ nid := fun e => hnd.1 (e ▸ hx)
    rw [h2astF, upd_other _ _ _ _ hxn]
    rw [← hσ1]
    exact unmake_keeps_none _ _ _ (hfresh x (by simp [ids, hx]))
  obtain ⟨hfr, hl⟩ := makeKids_spec nks σ2 s.rootF (by omega) hnd.2 h2fresh
  have h3A : (makeKids σ2 s.rootF nks).astF nid = some s.rootF := by
    rw [hfr.astF_out nid hnd.1, h2astF, upd_same]
  have h3F : (makeKids σ2 s.rootF nks).fst s.rootF = { σ1.fst s.rootF with a := some nid } := by
    rw [hfr.fst_old s.rootF (by omega), h2fst, upd_same]
  have hres : setAst s s.rootF (Ast.mk nid nk nf nks) =
      { s with root := (Ast.mk nid nk nf nks).setFld none, σ := touch (makeKids σ2 s.rootF nks) s.rootF } := by
    simp only [setAst, hra', Option.bind_some, hroot, hfind, hσ1, Ast.id, hn1, Ast.kids, ← hσ2, h3F, hpar.1, hpar.2,
      hrp.1, hrp.2, if_true, Bool.false_eq_true, if_false]
  rw [hres]
  refine ⟨?_, rfl⟩
  simp only [LinkInv, linkInvB, Ast.setFld, Ast.id, linkedB_touch, Bool.and_eq_true, beq_iff_eq]
  refine ⟨?_, by simp only [touch]; exact h3A⟩
  simp only [linkedB, h3A, h3F, hpar.1, hpar.2, hrp.1, hrp.2, beq_self_eq_true, Bool.true_and, hl]

/-- **setAst_inv (any non-root position)**: `_set_ast` on the FST `f` of any node `old` below the root of a linked tree
with pairwise distinct ASTs, given a fresh `new` tree (pairwise distinct ASTs without FSTs): the link invariant holds
for the whole resulting tree, which is the old tree with `new` (carrying `old`'s slot) in place of `old`; the root FST
object is unchanged. Together with `setAst_inv_partial` (root position) this covers every position. The store
hypothesis `hbd` says that the FST objects of the tree exist (`< next`). Any tree, any position, any new tree. -/
theorem setAst_inv (s : State) (f : Nat) (old new : Ast)
    (hinv : LinkInv s) (hnd : (ids s.root).Nodup)
    (hbd : ∀ x ∈ ids s.root, ∀ g, s.σ.astF x = some g → g < s.σ.next)
    (hold : findId old.id s.root = some old) (hf : s.σ.astF old.id = some f) (hne : s.root.id ≠ old.id)
    (hnnd : (ids new).Nodup) (hfresh : ∀ x ∈ ids new, s.σ.astF x = none) :
    LinkInv (setAst s f new) ∧ (setAst s f new).rootF = s.rootF ∧
      (setAst s f new).root = replaceId old.id (new.setFld old.fld) s.root ∧
      (setAst s f new).σ = touch (swapσ s.σ old f new) f := by
  simp only [LinkInv, linkInvB, Bool.and_eq_true, beq_iff_eq] at hinv
  obtain ⟨hl, hrootF⟩ := hinv
  have hback : ∀ x ∈ ids s.root, ∀ g, s.σ.astF x = some g → (s.σ.fst g).a = some x ∧ g < s.σ.next :=
    fun x hx g hg => ⟨linked_back s.σ s.root none hl x hx g hg, hbd x hx g hg⟩
  obtain ⟨_, holdR⟩ := findId_some s.root old.id old hold
  have C := swapσ_ctx s.σ (ids s.root) old new f hback holdR hf hnnd hfresh
  have hdn : ∀ x ∈ ids s.root, x ∉ ids new := fun x hx hn => linked_isSome s.σ s.root none hl x hx (hfresh x hn)
  -- `old` is linked below the FST of its parent
  obtain ⟨po, hpo, hc⟩ := linked_find s.σ s.root none old.id old hl hold
  have hpo' : ∃ p, po = some p := by
    cases hc with
    | inl c => exact absurd c.2 hne
    | inr c => cases po with
      | none => simp at c
      | some p => exact ⟨p, rfl⟩
  obtain ⟨p, rfl⟩ := hpo'
  have ho := linkedB_root s.σ (some p) old hpo f hf
  have hspine := swap_linked C s.root none hl hnd (fun _ h => h) hdn hold
  -- unfold the operation
  have hn1 : (unmake s.σ old).astF new.id = none := unmake_keeps_none _ _ _ (hfresh _ (id_mem_ids new))
  have hP : ((swapσ s.σ old f new).fst f).parent = some p := C.newFp.trans ho.2.1
  have hQ : ((swapσ s.σ old f new).fst f).pfield = old.fld := C.newFq.trans ho.2.2.1
  have hres : setAst s f new =
      { s with root := replaceId old.id (new.setFld old.fld) s.root, σ := touch (swapσ s.σ old f new) f } := by
    simp only [setAst, ho.1, Option.bind_some, hold, hn1, if_true, Bool.false_eq_true, if_false]
    simp only [swapσ] at hP hQ
    simp only [swapσ, hP, hQ]
  rw [hres]
  refine ⟨?_, rfl, rfl, rfl⟩
  simp only [LinkInv, linkInvB, linkedB_touch, Bool.and_eq_true, beq_iff_eq]
  refine ⟨hspine, ?_⟩
  -- the root AST is not replaced and keeps its FST
  rcases hroot : s.root with ⟨rid, rk, rf, rks⟩
  have hne' : rid ≠ old.id := by rw [hroot] at hne; exact hne
  rw [hroot] at hold hnd hdn hrootF
  have hrootF' : s.σ.astF rid = some s.rootF := hrootF
  simp only [findId, if_neg hne'] at hold
  obtain ⟨_, hsub⟩ := findIdList_some rks old.id old hold
  simp only [ids, List.nodup_cons] at hnd
  have hro : rid ∉ ids old := fun h => hnd.1 (hsub rid h)
  have hrn : rid ∉ ids new := hdn rid (by simp [ids])
  simp only [replaceId, if_neg hne']
  show (swapσ s.σ old f new).astF rid = some s.rootF
  rw [C.astF_keep rid hro hrn]
  exact hrootF'

/- The full statement for `_set_field` (default flags) is `setField_inv` below the element-loop theorem. -/
/-- **setField_inv (new elements)**: with `valid_fst=False` the element loop of `_set_field` is `_make_fst_tree` over
the new elements: on fresh, pairwise distinct new elements every new element is linked below `f` with the slot it was
given, and nothing but new FST objects and the new elements' own `a.f` is written (so everything else is as
`_unmake_fst_tree` left it). -/
theorem setField_inv_partial (σ : Store) (f : Nat) (new : List Ast) (hF : f < σ.next)
    (hnd : (idsList new).Nodup) (hfresh : ∀ x ∈ idsList new, σ.astF x = none) :
    newElems σ f false new = makeKids σ f new ∧
    linkedListB (newElems σ f false new) (some f) new = true ∧
    (∀ x, x ∉ idsList new → (newElems σ f false new).astF x = σ.astF x) ∧
    (∀ g, g < σ.next → (newElems σ f false new).fst g = σ.fst g) := by
  have he : ∀ (l : List Ast) (σ : Store), newElems σ f false l = makeKids σ f l := by
    intro l
    induction l with
    | nil => intro σ; simp [newElems, makeKids]
    | cons k rest ih =>
      intro σ
      obtain ⟨a, kind, fld, kids⟩ := k
      simp only [newElems, makeKids, makeChild, Ast.id, Ast.fld, Ast.kids, Bool.false_eq_true, if_false, ih]
  obtain ⟨hfr, hl⟩ := makeKids_spec new σ f hF hnd hfresh
  rw [he new σ]
  exact ⟨rfl, hl, hfr.astF_out, hfr.fst_old⟩

/-- **setField_inv (any position, default flags)**: `_set_field` on the FST `f` of any node `P` (the root included) of a
linked tree with pairwise distinct ASTs, given fresh new elements (pairwise distinct ASTs without FSTs): the old
elements of the field are unmade, the new ones are made below `f` with their slots `astfield(name, i)`, and the link
invariant holds for the whole resulting tree, which is the old tree with the field's elements replaced; siblings in
other fields and the rest of the tree stay linked; the root FST object is unchanged. Any tree, any node, any field,
any new elements. -/
theorem setField_inv (s : State) (f : Nat) (name : String) (isList : Bool) (P : Ast) (new0 : List Ast)
    (hinv : LinkInv s) (hnd : (ids s.root).Nodup)
    (hbd : ∀ x ∈ ids s.root, ∀ g, s.σ.astF x = some g → g < s.σ.next)
    (hP : findId P.id s.root = some P) (hf : s.σ.astF P.id = some f)
    (hnnd : (idsList new0).Nodup) (hfresh : ∀ x ∈ idsList new0, s.σ.astF x = none) :
    LinkInv (setField s f name isList new0) ∧ (setField s f name isList new0).rootF = s.rootF ∧
      (setField s f name isList new0).root = setKids P.id name (relabel name isList 0 new0) s.root ∧
      (setField s f name isList new0).σ = touch (fieldσ s.σ (fieldOf name P) f (relabel name isList 0 new0)) f := by
  simp only [LinkInv, linkInvB, Bool.and_eq_true, beq_iff_eq] at hinv
  obtain ⟨hl, hrootF⟩ := hinv
  have hback : ∀ x ∈ ids s.root, ∀ g, s.σ.astF x = some g → (s.σ.fst g).a = some x ∧ g < s.σ.next :=
    fun x hx g hg => ⟨linked_back s.σ s.root none hl x hx g hg, hbd x hx g hg⟩
  obtain ⟨_, hPR⟩ := findId_some s.root P.id P hP
  have hPb := hback P.id (hPR _ (id_mem_ids P)) f hf
  have hids : idsList (relabel name isList 0 new0) = idsList new0 := idsList_relabel name isList new0 0
  have hbodyP : ∀ y ∈ idsList (fieldOf name P), y ∈ idsList P.kids := fun y hy => idsList_filter_sub _ _ y hy
  have hbodyR : ∀ y ∈ idsList (fieldOf name P), y ∈ ids s.root :=
    fun y hy => hPR y (idsList_kids_sub P y (hbodyP y hy))
  have C := fieldσ_ctx s.σ (ids s.root) (fieldOf name P) (relabel name isList 0 new0) f hPb.2 hback hbodyR
    (by rw [hids]; exact hnnd) (by rw [hids]; exact hfresh)
  have hdn : ∀ x ∈ ids s.root, x ∉ idsList (relabel name isList 0 new0) := by
    intro x hx hn; rw [hids] at hn
    exact linked_isSome s.σ s.root none hl x hx (hfresh x hn)
  have hspine := field_linked C name P rfl hf s.root none hl hnd (fun _ h => h) hdn hP
  have hres : setField s f name isList new0 =
      { s with root := setKids P.id name (relabel name isList 0 new0) s.root,
               σ := touch (fieldσ s.σ (fieldOf name P) f (relabel name isList 0 new0)) f } := by
    simp only [setField, hPb.1, hP, if_true, newElems_eq_makeKids, fieldσ, fieldOf]
    rfl
  rw [hres]
  refine ⟨?_, rfl, rfl, rfl⟩
  simp only [LinkInv, linkInvB, linkedB_touch, Bool.and_eq_true, beq_iff_eq]
  refine ⟨hspine, ?_⟩
  rw [setKids_id]
  show (fieldσ s.σ (fieldOf name P) f (relabel name isList 0 new0)).astF s.root.id = some s.rootF
  have hrn : s.root.id ∉ idsList (relabel name isList 0 new0) := hdn _ (id_mem_ids s.root)
  have hro : s.root.id ∉ idsList (fieldOf name P) := by
    intro h
    have hk := hbodyP _ h
    rcases hroot : s.root with ⟨rid, rk, rf, rks⟩
    rw [hroot] at hP hnd hk
    simp only [ids, List.nodup_cons] at hnd
    simp only [Ast.id] at hk
    by_cases e : rid = P.id
    · simp only [findId, if_pos e] at hP
      have hT : Ast.mk rid rk rf rks = P := Option.some.inj hP
      rw [← hT] at hk
      exact hnd.1 hk
    · simp only [findId, if_neg e] at hP
      obtain ⟨_, hsub⟩ := findIdList_some rks P.id P hP
      exact hnd.1 (hsub rid (idsList_kids_sub P rid hk))
  rw [C.astF_keep _ hro hrn]
  exact hrootF

/-- **Well-formed state**: the link invariant, pairwise distinct ASTs in the tree, the FST objects of the tree exist
(`< next`), and the root AST occupies no slot. This is what every operation below assumes and re-establishes. -/
def WF (s : State) : Prop :=
  LinkInv s ∧ (ids s.root).Nodup ∧ (∀ x ∈ ids s.root, ∀ g, s.σ.astF x = some g → g < s.σ.next) ∧ s.root.fld = none

private theorem replaceId_fld (T : Ast) (i : Nat) (new : Ast) (h : T.id ≠ i) : (replaceId i new T).fld = T.fld := by
  obtain ⟨j, k, f, ks⟩ := T
  simp only [Ast.id] at h
  simp only [replaceId, if_neg h, Ast.fld]

private theorem setKids_fld (T : Ast) (i : Nat) (name : String) (new : List Ast) :
    (setKids i name new T).fld = T.fld := by
  obtain ⟨j, k, f, ks⟩ := T
  simp only [setKids]
  split <;> rfl

private theorem findId_self (T : Ast) : findId T.id T = some T := by
  obtain ⟨j, k, f, ks⟩ := T
  simp [findId, Ast.id]

/-- **setAst_wf**: `_set_ast` (non-root position, fresh new tree) keeps the state well formed. -/
theorem setAst_wf (s : State) (f : Nat) (old new : Ast) (h : WF s)
    (hold : findId old.id s.root = some old) (hf : s.σ.astF old.id = some f) (hne : s.root.id ≠ old.id)
    (hnnd : (ids new).Nodup) (hfresh : ∀ x ∈ ids new, s.σ.astF x = none) : WF (setAst s f new) := by
  obtain ⟨hinv, hnd, hbd, hfl⟩ := h
  obtain ⟨hi, _, hrt, hσ⟩ := setAst_inv s f old new hinv hnd hbd hold hf hne hnnd hfresh
  have hl : linkedB s.σ none s.root = true := by
    simp only [LinkInv, linkInvB, Bool.and_eq_true] at hinv; exact hinv.1
  have hdn : ∀ x ∈ ids s.root, x ∉ ids new := fun x hx hn => linked_isSome s.σ s.root none hl x hx (hfresh x hn)
  obtain ⟨_, holdR⟩ := findId_some s.root old.id old hold
  have hF : f < s.σ.next := hbd old.id (holdR _ (id_mem_ids old)) f hf
  have hback : ∀ x ∈ ids s.root, ∀ g, s.σ.astF x = some g → (s.σ.fst g).a = some x ∧ g < s.σ.next :=
    fun x hx g hg => ⟨linked_back s.σ s.root none hl x hx g hg, hbd x hx g hg⟩
  have C := swapσ_ctx s.σ (ids s.root) old new f hback holdR hf hnnd hfresh
  obtain ⟨hle, hnew, hdead⟩ := swapσ_bounds s.σ old new f hF hnnd hfresh
  refine ⟨hi, ?_, ?_, by rw [hrt, replaceId_fld _ _ _ hne]; exact hfl⟩
  · rw [hrt]
    exact replaceId_nodup s.root old.id _ hnd (by rw [ids_setFld]; exact hnnd) (by rw [ids_setFld]; exact hdn)
  · intro x hx g hg
    rw [hrt] at hx
    rw [hσ] at hg ⊢
    change (swapσ s.σ old f new).astF x = some g at hg
    change g < (swapσ s.σ old f new).next
    have hx' := replaceId_ids_sub s.root old.id _ x hx
    rw [ids_setFld] at hx'
    by_cases hxn : x ∈ ids new
    · exact hnew x hxn g hg
    · have hxr : x ∈ ids s.root := hx'.resolve_right hxn
      by_cases hxo : x ∈ ids old
      · rw [hdead x hxo hxn] at hg; cases hg
      · rw [C.astF_keep x hxo hxn] at hg
        have := hbd x hxr g hg
        omega

/-- **setField_wf**: `_set_field` (any node, fresh new elements) keeps the state well formed. -/
theorem setField_wf (s : State) (f : Nat) (name : String) (isList : Bool) (P : Ast) (new0 : List Ast) (h : WF s)
    (hP : findId P.id s.root = some P) (hf : s.σ.astF P.id = some f)
    (hnnd : (idsList new0).Nodup) (hfresh : ∀ x ∈ idsList new0, s.σ.astF x = none) :
    WF (setField s f name isList new0) := by
  obtain ⟨hinv, hnd, hbd, hfl⟩ := h
  obtain ⟨hi, _, hrt, hσ⟩ := setField_inv s f name isList P new0 hinv hnd hbd hP hf hnnd hfresh
  have hl : linkedB s.σ none s.root = true := by
    simp only [LinkInv, linkInvB, Bool.and_eq_true] at hinv; exact hinv.1
  have hids : idsList (relabel name isList 0 new0) = idsList new0 := idsList_relabel name isList new0 0
  have hdn : ∀ x ∈ ids s.root, x ∉ idsList (relabel name isList 0 new0) := by
    intro x hx hn; rw [hids] at hn
    exact linked_isSome s.σ s.root none hl x hx (hfresh x hn)
  obtain ⟨_, hPR⟩ := findId_some s.root P.id P hP
  have hF : f < s.σ.next := hbd P.id (hPR _ (id_mem_ids P)) f hf
  have hback : ∀ x ∈ ids s.root, ∀ g, s.σ.astF x = some g → (s.σ.fst g).a = some x ∧ g < s.σ.next :=
    fun x hx g hg => ⟨linked_back s.σ s.root none hl x hx g hg, hbd x hx g hg⟩
  have hbodyR : ∀ y ∈ idsList (fieldOf name P), y ∈ ids s.root :=
    fun y hy => hPR y (idsList_kids_sub P y (idsList_filter_sub _ _ y hy))
  have hn' : (idsList (relabel name isList 0 new0)).Nodup := by rw [hids]; exact hnnd
  have hf' : ∀ x ∈ idsList (relabel name isList 0 new0), s.σ.astF x = none := by rw [hids]; exact hfresh
  have C := fieldσ_ctx s.σ (ids s.root) (fieldOf name P) (relabel name isList 0 new0) f hF hback hbodyR hn' hf'
  obtain ⟨hle, hnew, hdead⟩ := fieldσ_bounds s.σ (fieldOf name P) (relabel name isList 0 new0) f hF hn' hf'
  refine ⟨hi, ?_, ?_, by rw [hrt, setKids_fld]; exact hfl⟩
  · rw [hrt]
    exact setKids_nodup s.root P.id name _ hnd hn' hdn
  · intro x hx g hg
    rw [hrt] at hx
    rw [hσ] at hg ⊢
    change (fieldσ s.σ (fieldOf name P) f (relabel name isList 0 new0)).astF x = some g at hg
    change g < (fieldσ s.σ (fieldOf name P) f (relabel name isList 0 new0)).next
    have hx' := setKids_ids_sub s.root P.id name _ x hx
    by_cases hxn : x ∈ idsList (relabel name isList 0 new0)
    · exact hnew x hxn g hg
    · have hxr : x ∈ ids s.root := hx'.resolve_right hxn
      by_cases hxo : x ∈ idsList (fieldOf name P)
      · rw [hdead x hxo hxn] at hg; cases hg
      · rw [C.astF_keep x hxo hxn] at hg
        have := hbd x hxr g hg
        omega

/-- **root_identity**: no sequence of link operations changes which FST object is the root. -/
theorem root_identity (ops : List Op) : ∀ s : State, (run s ops).rootF = s.rootF := by
  induction ops with
  | nil => intro s; rfl
  | cons o rest ih =>
    intro s
    simp only [run]
    rw [ih]
    cases o with
    | setAst f new v u => simp only [step, setAst]
    | setField f name l new v u =>
      simp only [step, setField]
      split <;> rfl
    | touch f => rfl
    | touchall f p sf c =>
      simp only [step]
      split <;> rfl

/-- `_touch` only empties a cache: the link invariant neither needs nor notices it. -/
theorem touch_preserves_links (s : State) (g : Nat) : LinkInv { s with σ := touch s.σ g } ↔ LinkInv s := by
  simp only [LinkInv, linkInvB, linkedB_touch]
  simp only [touch]

/-- **setAst_root_wf**: `_set_ast` on the root FST (fresh new tree) keeps the state well formed; the new root AST is
`new` with no slot. -/
theorem setAst_root_wf (s : State) (new : Ast) (h : WF s)
    (hnnd : (ids new).Nodup) (hfresh : ∀ x ∈ ids new, s.σ.astF x = none) : WF (setAst s s.rootF new) := by
  obtain ⟨hinv, hnd, hbd, hfl⟩ := h
  have hinv' := hinv
  simp only [LinkInv, linkInvB, Bool.and_eq_true, beq_iff_eq] at hinv'
  obtain ⟨hl, hrootF⟩ := hinv'
  have hback : ∀ x ∈ ids s.root, ∀ g, s.σ.astF x = some g → (s.σ.fst g).a = some x ∧ g < s.σ.next :=
    fun x hx g hg => ⟨linked_back s.σ s.root none hl x hx g hg, hbd x hx g hg⟩
  have hF : s.rootF < s.σ.next := hbd _ (id_mem_ids s.root) _ hrootF
  have ho := linkedB_root s.σ none s.root hl s.rootF hrootF
  have hq : (s.σ.fst s.rootF).pfield = none := ho.2.2.1.trans hfl
  have C := swapσ_ctx s.σ (ids s.root) s.root new s.rootF hback (fun _ h => h) hrootF hnnd hfresh
  obtain ⟨hle, hnew, _⟩ := swapσ_bounds s.σ s.root new s.rootF hF hnnd hfresh
  have hi := (setAst_inv_partial s new hF ho.1 ⟨ho.2.1, hq⟩ hnnd hfresh).1
  have hn1 : (unmake s.σ s.root).astF new.id = none := unmake_keeps_none _ _ _ (hfresh _ (id_mem_ids new))
  have hP : ((swapσ s.σ s.root s.rootF new).fst s.rootF).parent = none := C.newFp.trans ho.2.1
  have hQ : ((swapσ s.σ s.root s.rootF new).fst s.rootF).pfield = none := C.newFq.trans hq
  have hres : setAst s s.rootF new =
      { s with root := new.setFld none, σ := touch (swapσ s.σ s.root s.rootF new) s.rootF } := by
    simp only [setAst, ho.1, Option.bind_some, findId_self, hn1, if_true, Bool.false_eq_true, if_false]
    simp only [swapσ] at hP hQ
    simp only [swapσ, hP, hQ]
  rw [hres] at hi ⊢
  refine ⟨hi, by rw [ids_setFld]; exact hnnd, ?_, by cases new; rfl⟩
  intro x hx g hg
  rw [ids_setFld] at hx
  exact hnew x hx g hg

/-- an operation the theorems cover, in state `s`: `_set_ast` with the default flags on the root FST or on the FST of a
non-root node of the tree, `_set_field` with the default flags on the FST of any node of the tree, both with fresh pairwise distinct
new ASTs (none has an FST in `s`); `_touch` / `_touchall` of any FST with any flags. (The non-default flags of
`_set_ast` / `_set_field` are outside this predicate: correspondence only.) -/
def Admissible (s : State) : Op → Prop
  | .setAst f new v u => v = false ∧ u = true ∧ (ids new).Nodup ∧ (∀ x ∈ ids new, s.σ.astF x = none) ∧
      (f = s.rootF ∨ ∃ old, findId old.id s.root = some old ∧ s.σ.astF old.id = some f ∧ s.root.id ≠ old.id)
  | .setField f _ _ new v u => v = false ∧ u = true ∧ ∃ P, findId P.id s.root = some P ∧ s.σ.astF P.id = some f ∧
      (idsList new).Nodup ∧ ∀ x ∈ idsList new, s.σ.astF x = none
  | .touch _ => True
  | .touchall _ _ _ _ => True

/-- every operation of the sequence is admissible in the state it is applied to -/
def AdmissibleRun : State → List Op → Prop
  | _, [] => True
  | s, o :: rest => Admissible s o ∧ AdmissibleRun (step s o) rest

/-- **wf_cacheOnly**: an operation that only empties caches (`_touch`, `_touchall` with any flags) keeps the state well
formed. -/
theorem wf_cacheOnly (s : State) (σ' : Store) (h : CacheOnly s.σ σ') (hw : WF s) : WF { s with σ := σ' } := by
  obtain ⟨hinv, hnd, hbd, hfl⟩ := hw
  refine ⟨?_, hnd, ?_, hfl⟩
  · simp only [LinkInv, linkInvB] at hinv ⊢
    simp only [linkedB_cacheOnly h, h.1]
    exact hinv
  · intro x hx g hg
    simp only [h.1] at hg
    simp only [h.2.1]
    exact hbd x hx g hg

/-- **step_wf**: one admissible operation keeps the state well formed. -/
theorem step_wf (s : State) (o : Op) (h : WF s) (ha : Admissible s o) : WF (step s o) := by
  cases o with
  | setAst f new v u =>
    obtain ⟨hv, hu, h4, h5, hpos⟩ := ha
    subst hv; subst hu
    cases hpos with
    | inl e => subst e; exact setAst_root_wf s new h h4 h5
    | inr hx =>
      obtain ⟨old, h1, h2, h3⟩ := hx
      exact setAst_wf s f old new h h1 h2 h3 h4 h5
  | setField f name l new v u =>
    obtain ⟨hv, hu, P, h1, h2, h3, h4⟩ := ha
    subst hv; subst hu
    exact setField_wf s f name l P new h h1 h2 h3 h4
  | touch f =>
    obtain ⟨hinv, hnd, hbd, hfl⟩ := h
    exact ⟨(touch_preserves_links s f).mpr hinv, hnd, hbd, hfl⟩
  | touchall f p sf c =>
    simp only [step]
    split
    · next t _ => exact wf_cacheOnly s _ (touchall_cacheOnly s.σ f t p sf c) h
    · exact h

/-- **run_wf**: the link invariant (with pairwise distinct ASTs and existing FST objects) holds in every state reached
from a well-formed state by any sequence of admissible operations, of any length. -/
theorem run_wf (ops : List Op) : ∀ s : State, WF s → AdmissibleRun s ops → WF (run s ops) := by
  induction ops with
  | nil => intro s h _; exact h
  | cons o rest ih =>
    intro s h ha
    exact ih (step s o) (step_wf s o h ha.1) ha.2

/-- `wfB` (evaluated by the driver on real states) decides `WF` -/
theorem wfB_iff (s : State) : wfB s = true ↔ WF s := by
  simp only [wfB, WF, LinkInv, boundedB, Bool.and_eq_true, decide_eq_true_eq, List.all_eq_true, and_assoc,
    Option.isNone_iff_eq_none]
  constructor
  · rintro ⟨a, b, c, d⟩
    refine ⟨a, b, fun x hx g hg => ?_, d⟩
    have := c x hx
    rw [hg] at this
    simpa using this
  · rintro ⟨a, b, c, d⟩
    refine ⟨a, b, fun x hx => ?_, d⟩
    cases h : s.σ.astF x with
    | none => rfl
    | some g => simpa using c x hx g h

private theorem freshB_spec (σ : Store) (l : List Nat) (h : freshB σ l = true) :
    l.Nodup ∧ ∀ x ∈ l, σ.astF x = none := by
  simp only [freshB, Bool.and_eq_true, decide_eq_true_eq, List.all_eq_true, Option.isNone_iff_eq_none] at h
  exact h

/-- `admissibleB` (evaluated by the driver on real calls) implies `Admissible` -/
theorem admissibleB_sound (s : State) (o : Op) (h : admissibleB s o = true) : Admissible s o := by
  cases o with
  | setAst f new v u =>
    simp only [admissibleB, Bool.and_eq_true, Bool.not_eq_true', Bool.or_eq_true, beq_iff_eq] at h
    obtain ⟨⟨⟨hv, hu⟩, hfrb⟩, hm⟩ := h
    obtain ⟨hn, hfr⟩ := freshB_spec _ _ hfrb
    refine ⟨hv, hu, hn, hfr, ?_⟩
    cases hm with
    | inl e => exact Or.inl e
    | inr hm =>
      cases hfo : ((s.σ.fst f).a).bind (fun i => findId i s.root) with
      | none => simp [hfo] at hm
      | some old =>
        simp only [hfo, Bool.and_eq_true, beq_iff_eq, bne_iff_ne] at hm
        obtain ⟨i, _, hfi⟩ := Option.bind_eq_some_iff.mp hfo
        have hid := (findId_some s.root i old hfi).1
        rw [← hid] at hfi
        exact Or.inr ⟨old, hfi, hm.1, hm.2⟩
  | setField f name l new v u =>
    simp only [admissibleB, Bool.and_eq_true, Bool.not_eq_true'] at h
    obtain ⟨⟨hv, hu⟩, hm⟩ := h
    cases hfo : ((s.σ.fst f).a).bind (fun i => findId i s.root) with
    | none => simp [hfo] at hm
    | some P =>
      simp only [hfo, Bool.and_eq_true, beq_iff_eq] at hm
      obtain ⟨i, _, hfi⟩ := Option.bind_eq_some_iff.mp hfo
      have hid := (findId_some s.root i P hfi).1
      rw [← hid] at hfi
      obtain ⟨hn, hfr⟩ := freshB_spec _ _ hm.2
      exact ⟨hv, hu, P, hfi, hm.1, hn, hfr⟩
  | touch f => trivial
  | touchall f p sf c => trivial

/-- **step_wfB**: the executable form the correspondence uses: if the driver reports `wfB` for the state before a call
and `admissibleB` for the call, then `wfB` (in particular the link invariant `linkInvB`) holds for the model's state
after it — so on such a call any disagreement between the implementation's graph and the invariant is a disagreement
with the model. -/
theorem step_wfB (s : State) (o : Op) (h : wfB s = true) (ha : admissibleB s o = true) : wfB (step s o) = true :=
  (wfB_iff _).mpr (step_wf s o ((wfB_iff s).mp h) (admissibleB_sound s o ha))

/-- **slicePut_flushes_children** (repaired C02-F1 call site): the tail of a slice put to `Call` / `ClassDef` /
`MatchClass` leaves every direct child that has an FST with an empty cache, changes no link, and keeps LinkInv. -/
theorem slicePut_flushes_children (s : State) (l : List Ast) :
    (∀ k ∈ l, ∀ f, s.σ.astF k.id = some f → ((touchKids s.σ l).fst f).cache = []) ∧
    (LinkInv { s with σ := touchKids s.σ l } ↔ LinkInv s) := by
  constructor
  · generalize s.σ = σ
    induction l generalizing σ with
    | nil => intro k hk; cases hk
    | cons c rest ih =>
      intro k hk f hf
      simp only [touchKids]
      cases hk with
      | head =>
        apply touchKids_cache_stays
        simp only [touchAst, hf]
        exact touch_cache_self σ f
      | tail _ hk' =>
        exact ih (touchAst σ c.id) k hk' f (by rw [touchAst_astF]; exact hf)
  · simp only [LinkInv, linkInvB, linkedB_touchKids, touchKids_astF]

/-- **unpar_flushes_self** (repaired C02-F3 call site `self._touchall(True, True, False)`): afterwards the node's own
cache is empty, whatever the parent chain looks like. -/
theorem unpar_flushes_self (σ : Store) (f : Nat) (t : Ast) (parents : Bool) :
    ((touchall σ f t parents true false).fst f).cache = [] := by
  simp only [touchall, Bool.false_eq_true, if_false, if_true]
  split
  · exact touchParents_cache_stays _ _ _ f (touch_cache_self σ f)
  · exact touch_cache_self σ f

/-- **offsetLns_flushes_subtree**: the cache clearing of `_offset_lns` (every node of `walk(self.a)` touched, then
`_touchall(True, False, False)`; in the model `_touchall(parents, True, True)`) leaves every node of the subtree that
has an FST with an empty cache - whatever the parents flag, any store, any subtree. -/
theorem offsetLns_flushes_subtree (σ : Store) (f : Nat) (t : Ast) (parents : Bool) :
    ∀ x ∈ ids t, ∀ g, σ.astF x = some g → ((touchall σ f t parents true true).fst g).cache = [] := by
  intro x hx g hg
  simp only [touchall, if_true]
  split
  · exact touchParents_cache_stays _ _ _ g (touchTree_clears t σ x hx g hg)
  · exact touchTree_clears t σ x hx g hg

/-- **renumber_positions**: after the renumbering loop that follows the removal of a span from (parallel) list fields,
the FST of every remaining child records exactly the slot (field name and list index) the child now occupies, and the
loop writes nothing else (`a`, `parent`, `a.f` untouched) - for any lists, provided the children are distinct objects
with distinct FSTs. -/
theorem renumber_positions (σ : Store) (kids : List Ast) (hnd : (kids.map Ast.id).Nodup)
    (hinj : ∀ k ∈ kids, ∀ k' ∈ kids, ∀ f, σ.astF k.id = some f → σ.astF k'.id = some f → k.id = k'.id) :
    (renumberKids σ kids).astF = σ.astF ∧
    ∀ k ∈ kids, ∀ f, σ.astF k.id = some f →
      ((renumberKids σ kids).fst f).pfield = k.fld ∧ ((renumberKids σ kids).fst f).a = (σ.fst f).a ∧
      ((renumberKids σ kids).fst f).parent = (σ.fst f).parent := by
  refine ⟨renumberKids_astF kids σ, ?_⟩
  induction kids generalizing σ with
  | nil => intro k hk; cases hk
  | cons c rest ih =>
    intro k hk f hf
    simp only [List.map_cons, List.nodup_cons] at hnd
    simp only [renumberKids]
    cases hk with
    | head =>
      -- the later children have other FSTs, so the record written for `c` survives
      have hrest : ∀ k' ∈ rest, (setPfield σ c).astF k'.id ≠ some f := by
        intro k' hk' he
        rw [setPfield_astF] at he
        have := hinj c List.mem_cons_self k' (List.mem_cons_of_mem _ hk') f hf he
        exact hnd.1 (this ▸ List.mem_map_of_mem hk')
      rw [renumberKids_other rest _ f hrest]
      exact setPfield_self σ c f hf
    | tail _ hk' =>
      have hck : σ.astF c.id ≠ some f := by
        intro he
        have := hinj c List.mem_cons_self k (List.mem_cons_of_mem _ hk') f he hf
        exact hnd.1 (this ▸ List.mem_map_of_mem hk')
      have h1 := ih (setPfield σ c) hnd.2
        (by intro a ha b hb g h1 h2; rw [setPfield_astF] at h1 h2
            exact hinj a (List.mem_cons_of_mem _ ha) b (List.mem_cons_of_mem _ hb) g h1 h2)
        k hk' f (by rw [setPfield_astF]; exact hf)
      rw [setPfield_other σ c f hck] at h1
      exact h1

/-! ### cache coherence of the `_offset` walk -/

/-- **offset_touches_changed**: on every geometrically ordered tree (`geo`, evaluated on each real tree by the
harness; it holds that nodes cut off by a `break` end strictly before the spot) and for all parameters, after the
walk every node is either in the set whose `_cache` was cleared or heads a subtree in which no position changed
(`okNode`: same shape, same ids, `id ∈ touched ∨ flatten` equal, hereditarily). -/
theorem offset_touches_changed (π : Params) (t : Node) (h : geo t = true) :
    okNode (touchNode π t).1 t (offsetTree π t) = true := by
  unfold offsetTree
  rw [goNode_eq_naive π t h]
  exact touchNode_ok π t h

/-- Cached answers (`loc`, `bloc`, ...) as a function `compute key (positions of the node's subtree)`; `cache i` is the
`_cache` dictionary of the node with id `i`. -/
def CacheCoherent {Ans : Type} (compute : String → List (Nat × Option Pos) → Ans) (cache : Nat → List (String × Ans))
    (t : Node) : Prop :=
  ∀ s ∈ subnodes t, ∀ k v, (k, v) ∈ cache s.id → v = compute k (flatten s)

def clearAll {Ans : Type} (T : List Nat) (cache : Nat → List (String × Ans)) : Nat → List (String × Ans) :=
  fun i => if T.contains i then [] else cache i

/-- **offset_cache_coherent**: if every cached answer equals its recomputation before the walk, the same holds after
it (caches of visited nodes cleared, all others kept), for every answer that is determined by the positions inside the
node's own subtree. -/
theorem offset_cache_coherent {Ans : Type} (compute : String → List (Nat × Option Pos) → Ans)
    (cache : Nat → List (String × Ans)) (π : Params) (t : Node) (h : geo t = true)
    (hc : CacheCoherent compute cache t) :
    CacheCoherent compute (clearAll (touchNode π t).1 cache) (offsetTree π t) := by
  intro s' hs' k v hv
  obtain ⟨s, hs, hid, hor⟩ := ok_mem _ t (offsetTree π t) (offset_touches_changed π t h) s' hs'
  simp only [clearAll] at hv
  cases hor with
  | inl ht =>
    rw [← hid, ht] at hv
    simp at hv
  | inr he =>
    split at hv
    · simp at hv
    · rw [← hid] at hv
      rw [← he]
      exact hc s hs k v hv

/-! ### view windows -/

/-- a window `[start, stop)` of a field of length `n` -/
def validView (v : View) (n : Nat) : Prop :=
  match v.stop with
  | none => v.start ≤ n
  | some s => v.start ≤ s ∧ s ≤ n

/-- **view_heal**: `_base_indices` always returns a window of the current field (`start ≤ stop ≤ len`), leaves the
view healed (`valid`, idempotent), and does nothing to a view that is already a valid window — whatever happened to
the field length behind the view's back. -/
theorem view_heal (v : View) (n : Nat) :
    let b := baseIndices v n
    b.2.1 ≤ b.2.2.1 ∧ b.2.2.1 ≤ n ∧ b.2.2.2 = n ∧ validView b.1 n ∧ baseIndices b.1 n = b ∧ (validView v n → b.1 = v) := by
  obtain ⟨start, stop⟩ := v
  cases stop with
  | none =>
    simp only [baseIndices, validView]
    by_cases h : start > n <;> simp [h] <;> omega
  | some s =>
    simp only [baseIndices, validView]
    by_cases h1 : s > n <;> by_cases h2 : start > s <;> by_cases h3 : start > n <;>
      simp [h1, h2, h3] <;> omega

/-- **view_len**: an edit made through a valid window `[start, stop)` that changes the field length from `lb` to `la`
without deleting more than the window holds (`lb ≤ la + (stop - start)`) leaves the window `[start, stop + la - lb)`:
valid for the new field, and its length changed by exactly the length change of the field. -/
theorem view_len (v : View) (s lb la : Nat) (hs : v.stop = some s) (hv : validView v lb)
    (hd : lb ≤ la + (s - v.start)) :
    let v' := viewAfter v .lenDelta lb la
    v'.start = v.start ∧ v'.stop = some (s + la - lb) ∧ validView v' la ∧ viewLen v' la + lb = viewLen v lb + la := by
  obtain ⟨start, stop⟩ := v
  simp only at hs
  subst hs
  simp only [validView] at hv
  simp only at hd
  have h1 : ¬ s > lb := by omega
  have h2 : ¬ start > s := by omega
  have e : Int.toNat ((s : Int) + ((la : Int) - (lb : Int))) = s + la - lb := by omega
  have h3 : ¬ s + la - lb > la := by omega
  have h4 : ¬ start > s + la - lb := by omega
  simp [viewAfter, baseIndices, stopAdd, viewLen, validView, h1, h2, h3, h4, e]
  omega

/-- the length change each editing method of `FSTView` causes when it succeeds -/
def natural (v : View) (op : VOp) (lb la : Nat) : Prop :=
  let b := baseIndices v lb
  match op with
  | .lenDelta => lb ≤ la + (b.2.2.1 - b.2.1)
  | .delitem k => k ≤ b.2.2.1 - b.2.1 ∧ la + k = lb
  | .append => la = lb + 1
  | .extend => lb ≤ la
  | .prepend => la = lb + 1
  | .cut => la + (b.2.2.1 - b.2.1) = lb

/-- **view_ops_valid**: after every editing method (`replace/remove/insert/__setitem__`, `__delitem__`, `append`,
`extend`, `prepend`, `cut`) the stored window is a valid window of the new field, for any stored window (also a stale
one: the method heals it first) and any field lengths consistent with what the method does. -/
theorem view_ops_valid (v : View) (op : VOp) (lb la : Nat) (h : natural v op lb la) :
    validView (viewAfter v op lb la) la := by
  obtain ⟨start, stop⟩ := v
  cases stop with
  | none =>
    cases op <;> simp only [natural, baseIndices] at h <;>
      simp only [viewAfter, baseIndices, validView] <;>
      (by_cases h0 : start > lb <;> simp [h0] at h ⊢ <;> omega)
  | some s =>
    cases op <;> simp only [natural, baseIndices] at h <;>
      simp only [viewAfter, baseIndices, validView, stopAdd] <;>
      (by_cases h1 : s > lb <;> by_cases h2 : start > s <;> by_cases h3 : start > lb <;>
        simp [h1, h2, h3] at h ⊢ <;> omega)

/-! ### `_set_end_pos` / `_set_start_pos` (model `Pfst/SetPos.lean`) -/
section SetPos
open Pfst.SetPos

/-- **setPos_touches_changed**: every node of the parent chain whose position `_set_end_pos` / `_set_start_pos` changed
had its cache cleared (so no cached `loc` / `bloc` / `pars` of a node whose end moved survives). Any chain, any old-
position guard. -/
theorem setPos_touches_changed (new : Int × Int) (old : Option (Int × Int)) (chain : List Link) :
    ∀ i (h : i < chain.length),
      ((setPos new old chain).1[i]'(by rw [setPos_length]; exact h)) ≠ chain[i] →
      chain[i].id ∈ (setPos new old chain).2 := by
  intro i h hne
  obtain ⟨k, hk, h1, h2, _⟩ := setPos_prefix new old chain
  have hlen : ((chain.take k).map (write new)).length = k := by simp; omega
  by_cases hik : i < k
  · rw [h1]
    have : chain[i] ∈ chain.take k := by
      rw [List.mem_take_iff_getElem]
      exact ⟨i, by omega, rfl⟩
    exact List.mem_map_of_mem this
  · exfalso
    apply hne
    have hge : k ≤ i := by omega
    simp only [h2]
    rw [List.getElem_append_right (by rw [hlen]; exact hge)]
    simp only [hlen, List.getElem_drop]
    congr 1
    omega

/-- **setPos_written**: without the old-position guard the node itself is always written and touched: its position (if
it has one) is the new position afterwards. -/
theorem setPos_written (new : Int × Int) (l : Link) (rest : List Link) :
    ((setPos new none (l :: rest)).1.head?).map (·.pos) = some (l.pos.map (fun _ => new)) ∧
    l.id ∈ (setPos new none (l :: rest)).2 := by
  simp only [setPos, blocked_none, Bool.false_eq_true, if_false]
  split <;> simp [write]

/-- **setPos_guard**: with the old-position guard, every node that was written had either no location or exactly the
expected old position. -/
theorem setPos_guard (new o : Int × Int) (chain : List Link) :
    ∃ k, (setPos new (some o) chain).2 = (chain.take k).map (·.id) ∧
      ∀ l ∈ chain.take k, l.pos = none ∨ l.pos = some o := by
  obtain ⟨k, _, h1, _, h3⟩ := setPos_prefix new (some o) chain
  refine ⟨k, h1, fun l hl => ?_⟩
  have := h3 l hl
  cases hp : l.pos with
  | none => exact Or.inl rfl
  | some e =>
    right
    simp only [blocked, hp, bne_eq_false_iff_eq] at this
    rw [this]

/-- **setPos_idempotent**: repeating the unguarded call changes nothing more. -/
theorem setPos_idempotent (new : Int × Int) : ∀ chain : List Link,
    setPos new none (setPos new none chain).1 = setPos new none chain
  | [] => rfl
  | l :: rest => by
    simp only [setPos, blocked_none, Bool.false_eq_true, if_false]
    by_cases hs : (rest.isEmpty || l.hasSib) = true
    · simp only [hs, if_true, setPos, blocked_none, Bool.false_eq_true, if_false, write_hasSib, write_write, write_id]
    · simp only [hs, Bool.false_eq_true, if_false, setPos, blocked_none, write_hasSib, write_write, write_id]
      have he : (setPos new none rest).1.isEmpty = rest.isEmpty := by
        have hl := setPos_length new none rest
        generalize (setPos new none rest).1 = q at hl
        cases q <;> cases rest <;> simp_all
      simp only [he, hs, Bool.false_eq_true, if_false, setPos_idempotent new rest]

end SetPos

/-! ### non-vacuity -/

private def fld (n : String) (i : Option Nat := none) : Option Fld := some ⟨n, i⟩

/-- `x = [a, b]`: Module(0) > Assign(1) > Name(2), List(3) > Name(4), Name(5) -/
private def tree0 : Ast :=
  .mk 0 "Module" none [ .mk 1 "Assign" (fld "body" (some 0))
    [ .mk 2 "Name" (fld "targets" (some 0)) [], .mk 3 "List" (fld "value") [ .mk 4 "Name" (fld "elts" (some 0)) [],
      .mk 5 "Name" (fld "elts" (some 1)) [] ] ] ]

private def σ0 : Store :=
  { astF := fun a => if a = 0 then some 0 else none,
    fst := fun f => if f = 0 then { a := some 0 } else {},
    next := 1 }

private def s1 : State := { root := tree0, rootF := 0, σ := makeKids σ0 0 tree0.kids }

example : LinkInv s1 := by unfold LinkInv; decide
-- renumbering repairs stale indices: FST 5 (`b` of `[a, b]`) claims index 3, afterwards it records its real slot
example : ((renumberKids { s1.σ with fst := upd s1.σ.fst 5 { s1.σ.fst 5 with pfield := fld "elts" (some 3) } }
    [ .mk 4 "Name" (fld "elts" (some 0)) [], .mk 5 "Name" (fld "elts" (some 1)) [] ]).fst 5).pfield = fld "elts" (some 1) := by decide
-- the repaired slice-put tail really empties a populated cache of a child
example : ((touchKids { s1.σ with fst := upd s1.σ.fst 4 { s1.σ.fst 4 with cache := [("parsN", [0, 2, 0, 3, 0])] } }
    [ .mk 4 "Name" none [], .mk 5 "Name" none [] ]).fst 4).cache = [] := by decide
-- the hypotheses of `make_inv` are met by the empty-store-plus-root state
example : (ids tree0).Nodup ∧ (∀ x ∈ idsList tree0.kids, σ0.astF x = none) := by decide
-- replacing `[a, b]` (FST 3) by a fresh `f(c)` keeps the invariant, kills the old elements, keeps FST 3
private def newCall : Ast := .mk 10 "Call" none [ .mk 11 "Name" (fld "func") [], .mk 12 "Name" (fld "args" (some 0)) [] ]
private def s2 : State := setAst s1 3 newCall
example : LinkInv s2 ∧ s2.σ.astF 10 = some 3 ∧ (s2.σ.fst 4).a = none ∧ (s2.σ.fst 5).a = none ∧ s2.σ.astF 4 = none
    ∧ s2.rootF = 0 := by unfold LinkInv; decide
-- `_set_field` of `Module.body` with two fresh statements
private def s3 : State := setField s2 0 "body" true [ .mk 20 "Pass" none [], .mk 21 "Expr" none [ .mk 22 "Name" (fld "value") [] ] ]
example : LinkInv s3 ∧ (s3.σ.fst 1).a = none ∧ (s3.σ.fst 3).a = none := by unfold LinkInv; decide
-- `unmake_keeps_linked`: unmaking the List `[a, b]` (AST 3) leaves the sibling target Name (AST 2) linked below FST 1,
-- and the hypotheses are met by the real state s1; the unmade elements are dead
private def listSub : Ast := .mk 3 "List" (fld "value") [ .mk 4 "Name" (fld "elts" (some 0)) [], .mk 5 "Name" (fld "elts" (some 1)) [] ]
private def nameSub : Ast := .mk 2 "Name" (fld "targets" (some 0)) []
example : linkedB s1.σ (some 1) listSub = true ∧ linkedB s1.σ (some 1) nameSub = true ∧
    (∀ x ∈ ids nameSub, x ∉ ids listSub) := by decide
example : linkedB (unmake s1.σ listSub) (some 1) nameSub = true ∧ (unmake s1.σ listSub).astF 4 = none ∧
    linkedB (unmake s1.σ listSub) (some 1) listSub = false := by decide
-- `setAst_inv` (general position): its hypotheses are met by s1 with old = the List `[a, b]` (AST 3, FST 3) and the
-- fresh `f(c)`; the conclusion is the state s2 evaluated above
example : LinkInv s1 ∧ (ids s1.root).Nodup ∧ s1.σ.astF listSub.id = some 3
    ∧ s1.root.id ≠ listSub.id ∧ (ids newCall).Nodup := by unfold LinkInv; decide
example : findId listSub.id s1.root = some listSub := rfl
example : (∀ x ∈ ids s1.root, ∀ g, s1.σ.astF x = some g → g < s1.σ.next) ∧ (∀ x ∈ ids newCall, s1.σ.astF x = none) := by
  decide
example : s2.root = replaceId listSub.id (newCall.setFld listSub.fld) s1.root := rfl
-- `setField_inv`: its hypotheses are met by s2 with P = the Module (AST 0, FST 0, the root itself), field `body`, and
-- two fresh statements; the conclusion's state is s3. Also at a non-root node: the `args` of the Call (AST 10, FST 3)
private def newBody : List Ast := [ .mk 20 "Pass" none [], .mk 21 "Expr" none [ .mk 22 "Name" (fld "value") [] ] ]
example : LinkInv s2 ∧ (ids s2.root).Nodup ∧ s2.σ.astF s2.root.id = some 0 ∧ (idsList newBody).Nodup := by
  unfold LinkInv; decide
example : findId s2.root.id s2.root = some s2.root := rfl
example : (∀ x ∈ ids s2.root, ∀ g, s2.σ.astF x = some g → g < s2.σ.next) ∧ (∀ x ∈ idsList newBody, s2.σ.astF x = none) := by
  decide
example : s3.root = setKids s2.root.id "body" (relabel "body" true 0 newBody) s2.root := rfl
private def s4 : State := setField s2 3 "args" true [ .mk 40 "Name" none [], .mk 41 "Name" none [] ]
example : LinkInv s4 ∧ s4.σ.astF 12 = none ∧ s4.σ.astF 11 = some 6 ∧ (s4.σ.fst (s4.σ.astF 41).get!).pfield = fld "args" (some 1)
    := by unfold LinkInv; decide
-- `run_wf`: a well-formed start state and an admissible three-step history (replace the List by a Call, replace the
-- Module body, touch the root)
example : WF s1 := ⟨by unfold LinkInv; decide, by decide, by decide, rfl⟩
example : AdmissibleRun s1 [.setAst 3 newCall false true, .setField 0 "body" true newBody false true, .touch 0] := by
  refine ⟨⟨rfl, rfl, by decide, by decide, Or.inr ⟨listSub, rfl, by decide, by decide⟩⟩,
    ⟨rfl, rfl, s2.root, rfl, by decide, by decide, by decide⟩, trivial, trivial⟩
example : WF (run s1 [.setAst 3 newCall false true, .touchall 3 true true true, .touchall 0 false true false]) :=
  run_wf _ s1 ⟨by unfold LinkInv; decide, by decide, by decide, rfl⟩
    ⟨⟨rfl, rfl, by decide, by decide, Or.inr ⟨listSub, rfl, by decide, by decide⟩⟩, trivial, trivial, trivial⟩
-- the executable premises agree on the same history, root-position `_set_ast` included
example : wfB s1 = true ∧ admissibleB s1 (.setAst 3 newCall false true) = true ∧
    admissibleB s1 (.setAst 0 (.mk 30 "Module" none [ .mk 31 "Pass" (fld "body" (some 0)) [] ]) false true) = true ∧
    admissibleB s1 (.setAst 3 listSub false true) = false := by decide
-- root position of `setAst_inv_partial`
example : s1.rootF < s1.σ.next ∧ (s1.σ.fst s1.rootF).a = some s1.root.id ∧ (s1.σ.fst s1.rootF).parent = none := by decide
example : LinkInv (setAst s1 0 (.mk 30 "Module" none [ .mk 31 "Pass" (fld "body" (some 0)) [] ])) := by
  unfold LinkInv; decide
-- a broken store is rejected: child 4 claims parent 1 instead of 3
example : ¬ LinkInv { s1 with σ := { s1.σ with fst := upd s1.σ.fst 4 { s1.σ.fst 4 with parent := some 1 } } } := by
  unfold LinkInv; decide

-- `_set_end_pos` up a chain Name(7) < Call(6) < Expr(5) < If(2, has a next sibling) < Module(0): the If is the last one
-- written, the Module is not reached; with a guard that the Call does not meet the walk stops before it
private def chain0 : List Pfst.SetPos.Link :=
  [⟨7, some (3, 9), false⟩, ⟨6, some (3, 9), false⟩, ⟨5, some (3, 9), false⟩, ⟨2, some (3, 9), true⟩, ⟨0, none, false⟩]
example : (Pfst.SetPos.setPos (3, 12) none chain0).2 = [7, 6, 5, 2] ∧
    ((Pfst.SetPos.setPos (3, 12) none chain0).1.map (·.pos)) = [some (3, 12), some (3, 12), some (3, 12), some (3, 12), none] := by
  decide
example : (Pfst.SetPos.setPos (3, 12) (some (3, 9))
    [⟨7, some (3, 9), false⟩, ⟨6, some (3, 10), false⟩, ⟨5, some (3, 10), false⟩]).2 = [7] := by decide
private def ptree : Node :=
  .mk 0 none none [ .mk 1 (some ⟨1,0,1,9⟩) none [ .mk 2 (some ⟨1,0,1,1⟩) none [], .mk 9 (some ⟨1,2,1,3⟩) none [], .mk 3 (some ⟨1,4,1,9⟩) none
    [ .mk 4 (some ⟨1,4,1,5⟩) none [], .mk 5 (some ⟨1,8,1,9⟩) none [] ] ],
    .mk 6 (some ⟨3,0,4,7⟩) (some 2) [ .mk 7 (some ⟨2,1,2,5⟩) none [], .mk 8 (some ⟨4,2,4,7⟩) none [] ] ]
private def π0 : Params := { lno := 1, colo := 6, dln := 0, dcol := 3, tail := .f, head := .t }

example : geo ptree = true := by decide
-- the walk skips nodes (2 by the `break` at 9; 7 and 8 by the `continue` at 6) and still covers all changes
example : (touchNode π0 ptree).1 = [0, 1, 9, 3, 4, 5, 6] := by decide
example : flatten (offsetTree π0 ptree) ≠ flatten ptree := by decide
example : okNode [0, 1, 3, 5, 6] ptree (offsetTree π0 ptree) = true := by decide
-- and the statement has teeth: without node 5 (whose position moved) in the set it is false
example : okNode [0, 1, 3, 4, 6] ptree (offsetTree π0 ptree) = false := by decide

example : (baseIndices ⟨2, some 7⟩ 4).2 = (2, 4, 4) ∧ (baseIndices ⟨6, some 7⟩ 4).1 = ⟨4, some 4⟩ := by decide
example : natural ⟨1, some 3⟩ .lenDelta 4 5 ∧ viewAfter ⟨1, some 3⟩ .lenDelta 4 5 = ⟨1, some 4⟩ := by
  unfold natural; decide

end Pfst.C02
