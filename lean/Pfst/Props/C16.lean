import Pfst.ScopeLemmas

/-!
# C16 — scope analysis agrees with Python's own symbol table

Statements are about the executable model in `Pfst/Scope.lean` (`walkRoot` = `FST.walk(scope=True, self_=False)`,
`symbols` = `FST.scope_symbols(full=True)`), against the declarative spec there (`owned`, `ownedWalk`, `scopeOf`,
`classify`).  The model is tied to /repo on every run by the correspondence in `harness/props/C16.py`; the spec is tied
to CPython's `symtable` and to a reference implementation written from the language reference by the sweep there.

The property at full strength would read

    ∀ r, walkRoot false r = owned r        and        ∀ r, symbols r = classify r

The first is FALSE of the code (`scopeWalk_false_lambdaWalrus`, finding C16-F3); what holds is proved under the computable
side condition `goodRoot`, which the driver evaluates on every real tree.  The two former counterexamples for the second
(capture binders, C16-F1; non-Name first iterable of a nested comprehension, C16-F2) were repaired in the code; the trees
that witnessed them are kept below as positive examples.
-/
namespace Pfst.C16
open Pfst.Scope

/-- **Scope walk = spec.**  With `all=True`, on every scope `r` whose tree passes the side-by-side check `goodRoot`
(argument/generator/header children sit in the fields the grammar gives them, and no walrus target is reached by
`walk_Comp`'s unscoped walk below a lambda body), the model's scope walk yields, in this order, exactly the nodes the spec
assigns to the scope of `r`: not the decorators, defaults, annotations, returns, bases, keywords, type-parameter bounds of
`r` itself nor the first iterable of `r` if it is a comprehension; the scope-defining nodes of directly nested scopes and
those same header parts of them, but nothing else of them; walrus targets from nested comprehensions, at any depth.
If `r` is itself a comprehension the walk additionally yields its walrus targets (`ownedWalk`; documented quirk of
`walk`).  Partial: the unconditional statement is false, see `scopeWalk_false_lambdaWalrus`. -/
theorem scopeWalk_eq_spec_partial (r : Node) (hg : goodRoot r = true) : walkRoot false r = ownedWalk r := by
  rw [(walkRoot_eq false r hg).1]
  exact List.filter_eq_self.mpr (fun _ _ => rfl)

/-- For every scope that is not a comprehension the documented walk set is exactly the scope (`ownedWalk = owned`). -/
theorem ownedWalk_eq_owned (r : Node) (hc : isComp r = false) : ownedWalk r = owned r := by
  obtain ⟨i, k, ro, ns, kids⟩ := r
  cases k <;> first | rfl | (simp [isComp, Node.kind, Kind.kc] at hc)

/-- The same through any `all` filter, in particular the one `scope_symbols` walks with
(`all=_ASTS_LEAF_SCOPE_SYMBOLS`): under the same side condition the walk yields exactly the nodes of the scope that pass
the filter, whether or not the first iterable of a nested comprehension (or anything above the names in it) passes. -/
theorem scopeWalk_filtered (r : Node) (hg : goodRoot r = true) :
    walkRoot true r = (ownedWalk r).filter (fun n => n.kind.isSym) := by
  have h := (walkRoot_eq true r hg).1
  simpa using h

/-- **Direction independence.**  For every tree, scope and `all` filter the backward scope walk (`back=True`) yields the
same nodes as the forward one (as a permutation: parents before children, siblings reversed).  In the model this holds by
construction - one table `mStep` decides for both directions which children of a nested def / class / lambda /
comprehension are pushed - so it is a statement about the code exactly as far as the correspondence ties BOTH directions
of `stack_funcdef`, `stack_ClassDef`, `stack_Lambda`, `stack_arguments`, `stack_comprehension`, `create` and `walk_Comp` to
that one table (it does, on every run). -/
theorem scopeWalk_back_perm (flt : Bool) (r : Node) : (walkRootB flt r).Perm (walkRoot flt r) :=
  travLB_perm (mStep flt) r.kids (mInit r.kind)

/-- and under `goodRoot` the backward walk is the backward traversal of the spec's scope -/
theorem scopeWalk_back_eq_spec (r : Node) (hg : goodRoot r = true) :
    (walkRootB false r).Perm (ownedWalk r) :=
  (scopeWalk_back_perm false r).trans (by rw [scopeWalk_eq_spec_partial r hg])

/-- **Explicit node lists.**  `r.walk(scope=True, asts=<children of r>)` excludes nothing of `r` itself (decorators, defaults,
annotations, type-parameter bounds, the first iterable are walked) and still does not enter nested scopes: it yields
exactly the nodes below `r` that belong to the scope of `r` or to the scope `r` is defined in. -/
theorem scopeWalk_asts (r : Node) (hg : goodAsts r = true) : walkAsts false r = ownedAsts r := by
  rw [walkAsts_eq false r hg]
  exact List.filter_eq_self.mpr (fun _ _ => rfl)

/-- **Replacement during the walk.**  If the consumer replaces nodes it is handed (`old i k` = the class node `i` had when
it was popped), the walk of the final tree in which the rule for a node's children is the rule of the class the node has
WHEN ITS CHILDREN ARE PUSHED (after the yield) is exactly the scope walk of the final tree: with `all=True` the decision to
yield a node does not depend on its class, everything else is read after the yield. -/
theorem scopeWalk_replace (old : Nat → Kind → Kind) (r : Node) : walkRootO old false r = walkRoot false r :=
  travLO_eq old (mStep false) (fun s k k' ro => mStep_emit s k k' ro) r.kids (mInit r.kind)

/-- **Every node belongs to exactly one scope**: the global labelling `scopeOf` lists every node below the root exactly
once, in preorder, each with one scope id.  (That the per-scope view `owned r` used by the other theorems is the fibre
`{n | scopeOf n = r.id}` needs unique node ids; it is evaluated by the driver on every tree of every run and compared
in the correspondence, not proved.) -/
theorem scopes_partition (t : Node) : (scopeOf t).map (·.1) = (preorderL t.kids).map Node.id := by
  unfold scopeOf
  exact labelsL_fst (rootSS t) t.kids

/-- **scope_symbols = classification**, for scopes that are not comprehensions and whose tree passes `goodRoot`: the
seven classes the model of `scope_symbols(full=True)` computes are the spec's: load / store / del / global / nonlocal from
the binding forms of the nodes of the scope (including `except … as`, capture patterns, imports, parameters, type
parameters, def/class names, augmented assignment), local = store − declared, free = load − store − del − declared.
Partial: comprehension roots (where pfst documents walrus targets as store + free) are covered by the correspondence and the
sweep only; `goodRoot` fails in the situation of `scopeWalk_false_lambdaWalrus`. -/
theorem symbols_partial (r : Node) (hc : isComp r = false) (hg : goodRoot r = true) : symbols r = classify r := by
  have hw := scopeWalk_filtered r hg
  rw [ownedWalk_eq_owned r hc] at hw
  have hf := fold_sym (owned r) {}
  unfold symbols classify
  rw [hw, hc]
  generalize hA : List.foldl (symStep false) {} (List.filter (fun n => n.kind.isSym) (owned r)) = A at hf
  obtain ⟨h1, h2⟩ := hf
  rw [foldl_cStep] at h1
  simp only [Acc.core, Core.mk.injEq] at h1
  obtain ⟨hl, hs, hd, hgl, hn⟩ := h1
  have h2' : A.walrus = [] := h2
  simp only [finish, keysOf, hl, hs, hd, hgl, hn, h2', List.append_nil]
  rfl

/-! ### the former counterexamples, now instances of the theorems -/



private def nm (i : Nat) (k : Kind) (x : Nat) (r : Role := .plain) : Node := .mk i k r [x] []
private def oth (i : Nat) (kids : List Node) (r : Role := .plain) : Node := .mk i .other r [] kids

/-- `try: pass` / `except E as e: pass` (names: E = 0, e = 1) -/
def tCapture : Node :=
  .mk 0 .module .plain [] [oth 1 [oth 2 [], .mk 3 .handler .plain [1] [nm 4 .nameLoad 0, oth 5 []]]]

/-- (was C16-F1) `except E as e`: `e` is a store and a local of the scope, not a free name -/
example : goodRoot tCapture = true ∧ symbols tCapture = classify tCapture ∧ (symbols tCapture).store = [1] ∧
    (symbols tCapture).loc = [1] ∧ (symbols tCapture).free = [0] := by decide

/-- `match x:` / `case [a, *b]: …` / `case {1: c, **d}: …` / `case C(k=y) as z: …`  (x=0 a=1 b=2 c=3 d=4 C=5 y=6 z=7) -/
def tMatch : Node :=
  .mk 0 .module .plain [] [oth 1 [nm 2 .nameLoad 0,
    oth 3 [oth 4 [.mk 5 .matchAs .plain [1] [], .mk 6 .matchStar .plain [2] []]],
    oth 7 [.mk 8 .matchMap .plain [4] [oth 9 [], .mk 10 .matchAs .plain [3] []]],
    oth 11 [.mk 12 .matchAs .plain [7] [oth 13 [nm 14 .nameLoad 5, .mk 15 .matchAs .plain [6] []]]]]]

example : goodRoot tMatch = true ∧ symbols tMatch = classify tMatch ∧ (symbols tMatch).store = [1, 2, 4, 3, 7, 6] := by
  decide

/-- `def f(n): xs = [i for i in range(n)]`  (f=0 n=1 xs=2 i=3 range=4) -/
def tFirstIter : Node :=
  .mk 0 .module .plain [] [
    .mk 1 .funcdef .plain [0] [
      .mk 2 .arguments .args [] [.mk 3 .arg .argr [1] []],
      .mk 4 .other .body [] [nm 5 .nameStore 2,
        .mk 6 .comp .plain [] [nm 7 .nameLoad 3 .elt,
          .mk 8 .gen .gen0 [] [nm 9 .nameStore 3 .target,
            .mk 10 .other .iter [] [nm 11 .nameLoad 4, nm 12 .nameLoad 1]]]]]]

def tFirstIter_f : Node := match tFirstIter with | .mk _ _ _ _ (f :: _) => f | n => n

/-- (was C16-F2) `range` and `n` are read in the scope of `f` although the call node `range(n)` does not pass the filter -/
example : goodRoot tFirstIter_f = true ∧ symbols tFirstIter_f = classify tFirstIter_f ∧
    (symbols tFirstIter_f).load = [4, 1] ∧ (symbols tFirstIter_f).free = [4] ∧
    (walkRoot true tFirstIter_f).map Node.id = [3, 5, 11, 12] := by decide

/-- `def f(): return [(lambda: (y := 1)) for _ in z]`  (f=0 y=1 _=2 z=3) -/
def tLamWalrus : Node :=
  .mk 0 .module .plain [] [
    .mk 1 .funcdef .plain [0] [
      .mk 2 .arguments .args [] [],
      .mk 3 .other .body [] [
        .mk 4 .comp .plain [] [
          .mk 5 .lambda .elt [] [.mk 6 .arguments .args [] [],
            .mk 7 .namedexpr .body [] [nm 8 .nameStore 1 .wtarget, oth 9 []]],
          .mk 10 .gen .gen0 [] [nm 11 .nameStore 2 .target, nm 12 .nameLoad 3 .iter]]]]]

def tLamWalrus_f : Node := match tLamWalrus with | .mk _ _ _ _ (f :: _) => f | n => n

/-- **C16-F3.** A walrus inside a lambda that sits inside a comprehension binds in the *lambda*; `walk_Comp` walks
the comprehension without regard to scopes and hands the target to the enclosing function: the model's walk of `f` contains
node 8 (`y`), the spec's scope of `f` does not, and `scope_symbols` reports `y` as a local of `f`. -/
theorem scopeWalk_false_lambdaWalrus :
    8 ∈ (walkRoot false tLamWalrus_f).map Node.id ∧ 8 ∉ (owned tLamWalrus_f).map Node.id ∧
    1 ∈ (symbols tLamWalrus_f).loc ∧ 1 ∉ (classify tLamWalrus_f).loc ∧ goodRoot tLamWalrus_f = false := by decide

/-! ### non-vacuity: a tree with every header part, nested scopes, a walrus in nested comprehensions -/

/-- ```
@d
def f(a: A = da, *, k=kd) -> R:
    global g
    class C(B, m=M): x = a
    h = lambda p=a: p
    return [[(w := j) for j in i] for i in a]
``` names: d0 f1 a2 A3 da4 k5 kd6 R7 g8 C9 B10 M11 x12 h13 p14 w15 j16 i17 -/
def tBig : Node :=
  .mk 0 .module .plain [] [
    .mk 1 .funcdef .plain [1] [
      nm 2 .nameLoad 0 .deco,
      .mk 3 .arguments .args [] [.mk 4 .arg .argr [2] [nm 5 .nameLoad 3 .ann], nm 6 .nameLoad 4 .dflt,
                                 .mk 7 .arg .argr [5] [], nm 8 .nameLoad 6 .dflt],
      nm 9 .nameLoad 7 .returns,
      .mk 10 .global .body [8] [],
      .mk 11 .classdef .body [9] [nm 12 .nameLoad 10 .base, .mk 13 .other .kw [] [nm 14 .nameLoad 11],
        .mk 15 .other .body [] [nm 16 .nameStore 12, nm 17 .nameLoad 2]],
      .mk 18 .other .body [] [nm 19 .nameStore 13,
        .mk 20 .lambda .plain [] [.mk 21 .arguments .args [] [.mk 22 .arg .argr [14] [], nm 23 .nameLoad 2 .dflt],
                                  nm 24 .nameLoad 14 .body]],
      .mk 25 .other .body [] [
        .mk 26 .comp .plain [] [
          .mk 27 .comp .elt [] [
            .mk 28 .namedexpr .elt [] [nm 29 .nameStore 15 .wtarget, nm 30 .nameLoad 16],
            .mk 31 .gen .gen0 [] [nm 32 .nameStore 16 .target, nm 33 .nameLoad 17 .iter]],
          .mk 34 .gen .gen0 [] [nm 35 .nameStore 17 .target, nm 36 .nameLoad 2 .iter]]]]]

def tBig_f : Node := match tBig with | .mk _ _ _ _ (f :: _) => f | n => n

example : goodRoot tBig = true := by decide
example : goodRoot tBig_f = true ∧ isComp tBig_f = false := by decide
/-- what the theorems then say for `f`: defaults/annotation/decorator/returns are not in the scope, the class's base and
keyword value, the lambda's default, the outer comprehension's first iterable and the walrus target two comprehensions
down are -/
example : (walkRoot false tBig_f).map Node.id = [3, 4, 7, 10, 11, 12, 13, 14, 18, 19, 20, 23, 25, 26, 29, 36] := by decide
example : (walkRootB false tBig_f).map Node.id = [25, 26, 36, 29, 18, 20, 23, 19, 11, 13, 14, 12, 10, 3, 7, 4] := by decide
example : goodAsts tBig_f = true ∧ (walkAsts false tBig_f).map Node.id =
    [2, 3, 4, 5, 6, 7, 8, 9, 10, 11, 12, 13, 14, 18, 19, 20, 23, 25, 26, 29, 36] := by decide
/-- replacement: node 19 (`h`) was a comprehension when popped, node 26 a plain call: same walk -/
example : (walkRootO (fun i k => if i = 26 then .other else if i = 19 then .comp else k) false tBig_f).map Node.id =
    (walkRoot false tBig_f).map Node.id := by decide
example : symbols tBig_f =
    { load := [10, 11, 2], store := [2, 5, 9, 13, 15], del := [], glob := [8], nonl := [], loc := [2, 5, 9, 13, 15],
      free := [10, 11] } := by decide
/-- the module scope of the same tree: decorator, annotation, defaults, returns -/
example : (walkRoot false tBig).map Node.id = [1, 2, 5, 6, 8, 9] := by decide
/-- the partition on the same tree: 36 nodes below the root, each listed once -/
example : (scopeOf tBig).length = 36 ∧ (scopeOf tBig).lookup 29 = some 1 ∧ (scopeOf tBig).lookup 36 = some 1 ∧
    (scopeOf tBig).lookup 33 = some 26 ∧ (scopeOf tBig).lookup 30 = some 27 ∧ (scopeOf tBig).lookup 6 = some 0 := by decide

/-! ### type parameters that are not the walk root's own (`type A[T: B] = v` in a def body) -/

/-- `def f[G: GB](): type A[T: B] = v`  (names: f0 G1 GB2 A3 T4 B5 v6) -/
def tAlias : Node :=
  .mk 0 .module .plain [] [
    .mk 1 .funcdef .plain [0] [
      .mk 2 .tparam .tparam [1] [nm 3 .nameLoad 2 .bound],
      .mk 4 .arguments .args [] [],
      .mk 5 .other .body [] [nm 6 .nameStore 3, .mk 7 .tparam .tparam [4] [nm 8 .nameLoad 5 .bound], nm 9 .nameLoad 6]]]

def tAlias_f : Node := match tAlias with | .mk _ _ _ _ (f :: _) => f | n => n

/-- the bound `GB` of the def's own type parameter is outside its scope, the bound `B` of the alias' type parameter - an
ordinary statement of the body - is inside: `stack_type_param` must not stop at a type parameter whose parent is not the
walk root -/
example : goodRoot tAlias_f = true ∧ (walkRoot false tAlias_f).map Node.id = [2, 4, 5, 6, 7, 8, 9] ∧
    (walkRootB false tAlias_f).map Node.id = [5, 9, 7, 8, 6, 4, 2] ∧
    (symbols tAlias_f).load = [5, 6] ∧ (symbols tAlias_f).store = [1, 3, 4] ∧
    (walkRoot false tAlias).map Node.id = [1, 3] := by decide

end Pfst.C16
