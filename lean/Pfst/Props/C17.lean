import Pfst.MatchLemmas
import Pfst.Gen.Leaf

/-!
# C17 — matching depends only on structure; quantifiers behave like regular expressions

Property theorems about the model in `Pfst/Match.lean` (list matcher as written, regular-expression spec, structural
matcher, search pre-filter).  Lemmas live in `Pfst/MatchLemmas.lean`; the kind tables in `Pfst/Gen/Leaf.lean` are
regenerated from `/repo` on every run and the table facts below are re-checked against them.

Purity (`match_pure` of the design): `matchNode`, `matchList` are Lean functions of (pattern, structure) — there is no
state to carry between calls in the model; that the implementation behaves like a function is what the
repeated/shuffled-call correspondence checks.
-/
namespace Pfst.C17
open Pfst.Match

/-! ## structure -/

/-- Every tree matches the pattern built from it, with no tags, whatever tags are already bound. -/
theorem match_self (K : Kinds) (t : Tree) (ctx : TEnv) : matchNode K (toPattern t) ctx t = some [] :=
  toPattern_of_same K t t ctx (matchTree_refl t)

/-- A tree that differs from `t` in exactly one leaf (`diff1`, node ids ignored) does not match the pattern built from
`t`. -/
theorem match_one_leaf (K : Kinds) (t t' : Tree) (ctx : TEnv) (h : diff1 t t' = true) :
    matchNode K (toPattern t) ctx t' = none :=
  toPattern_of_diff1 K t t' ctx h

/-- ... and a tree with the same structure (other node ids, e.g. another layout of the same program) does. -/
theorem match_same_structure (K : Kinds) (t t' : Tree) (ctx : TEnv) (h : matchTree t t' = true) :
    matchNode K (toPattern t) ctx t' = some [] :=
  toPattern_of_same K t t' ctx h

/-- **Purity.** In the model a pattern is a value and the tags of a match are a new value computed from (pattern, tags
in scope, target): whatever history of other matches was evaluated before — also matches of patterns that contain `p`
or that `p` contains — the result for `(p, ctx, t)` is the same. Trivial in a pure model; the tie to the
implementation, where patterns are mutable objects holding their `static_tags` dictionaries, is the harness: the
structural dump of every pattern object (and of the shared containers of `fst.match`) is compared before and after
every call, and a used pattern is compared with an equal fresh one (`harness/c17_pure.py`). -/
theorem match_pure (K : Kinds) (history : List (Pat × TEnv × Tree)) (p : Pat) (ctx : TEnv) (t : Tree) :
    (history.map (fun h => matchNode K h.1 h.2.1 h.2.2), matchNode K p ctx t).2 = matchNode K p ctx t := rfl

/-- Wrapping a pattern in `M(inner, **static)` / `M(tag=inner, **static)` extends the tags of the inner match by a new
binding list; the inner result itself is what `inner` gives on its own (the wrapper cannot change it). -/
theorem m_wrap_extends (K : Kinds) (p : Pat) (tag : Option Name) (st : List (Name × Nat)) (ctx : TEnv) (t : Tree) :
    matchNode K (.m p tag st) ctx t = (matchNode K p ctx t).map (fun e => e ++ tagEnv tag (.node t) ++ stEnv st) := by
  simp only [matchNode]
  cases matchNode K p ctx t <;> rfl

/-! ## the pre-filter of `search` -/

/-- The extracted tables are what the pre-filter needs at every leaf kind except the listed `badTargets` (on CPython
3.12: `Interpolation` and `TemplateStr`, stand-in classes that `AST2ASTSLEAF[expr]` lists but that are not `expr`
subclasses and never occur in a tree): each leaf kind is in its own entry, and in the entry of a class exactly when it
is an instance of that class. Re-checked against `Pfst/Gen/Leaf.lean` on every run. -/
theorem leaf_table_ok (tk : Nat) (h : tk ∈ Pfst.Gen.Leaf.all) (hb : tk ∉ Pfst.Gen.Leaf.badTargets) :
    TargetOK Pfst.Gen.Leaf.kinds tk := by
  have hchk : (Pfst.Gen.Leaf.all.all fun tk => Pfst.Gen.Leaf.badTargets.contains tk ||
      ((Pfst.Gen.Leaf.leafTable.getD tk []).contains tk &&
       (List.range Pfst.Gen.Leaf.nKinds).all fun k =>
         (Pfst.Gen.Leaf.instTable.getD k []).contains tk == (Pfst.Gen.Leaf.leafTable.getD k []).contains tk)) = true := by
    decide +kernel
  have hlen : Pfst.Gen.Leaf.instTable.length = Pfst.Gen.Leaf.nKinds := by decide +kernel
  have hlen2 : Pfst.Gen.Leaf.leafTable.length = Pfst.Gen.Leaf.nKinds := by decide +kernel
  rw [List.all_eq_true] at hchk
  have h1 := hchk tk h
  have hb' : Pfst.Gen.Leaf.badTargets.contains tk = false := by simpa using hb
  simp only [hb', Bool.false_or, Bool.and_eq_true, List.all_eq_true] at h1
  have key : ∀ k, tk ∈ Pfst.Gen.Leaf.instTable.getD k [] ↔ tk ∈ Pfst.Gen.Leaf.leafTable.getD k [] := by
    intro k
    by_cases hkn : k < Pfst.Gen.Leaf.nKinds
    · have := h1.2 k (List.mem_range.2 hkn)
      simp only [List.contains_eq_mem, beq_iff_eq, decide_eq_decide] at this
      exact this
    · have hn1 : Pfst.Gen.Leaf.instTable[k]? = none := List.getElem?_eq_none (by omega)
      have hn2 : Pfst.Gen.Leaf.leafTable[k]? = none := List.getElem?_eq_none (by omega)
      simp [hn1, hn2]
  refine ⟨h, by simpa [Pfst.Gen.Leaf.kinds] using h1.1, fun k hk => ?_, fun k hk => ?_⟩
  · exact (key k).1 hk
  · exact (key k).2 hk

/-- every leaf kind has a non-empty entry inside `ASTS_LEAF__ALL`, and so has every class -/
theorem leaf_table_nonempty :
    (Pfst.Gen.Leaf.leafTable.all fun la => !la.isEmpty && la.all fun x => Pfst.Gen.Leaf.all.contains x) = true := by
  decide +kernel

/-- **Pre-filter soundness** for every pattern (all combinators, `MNOT` included): a node that matches has a kind the
pre-filter keeps.  (`MNOT._leaf_asts` complements the inner leaf set only for type-only inner patterns — a class, `...`,
`MTYPES` without fields — for which that set is exact; before the repair this was false, finding C17-F1.  A `Load()` /
`Store()` / `Del()` instance, which matches every `expr_context`, has the leaf set of `expr_context`; finding C17-F6.) -/
theorem prefilter_sound (K : Kinds) (p : Pat) (ctx : TEnv) (t : Tree) (e : TEnv)
    (la : List Nat) (hk : TargetOK K t.kind) (hl : leafAsts K p = some la) (hm : matchNode K p ctx t = some e) :
    t.kind ∈ la :=
  sound_node K p ctx t e la hk hl hm

private def nameY : Tree := .node 0 Pfst.Gen.Leaf.kName [.node 1 1000 [], .node 2 Pfst.Gen.Leaf.kLoad []]
private def notNameX : Pat := .mnot (.node Pfst.Gen.Leaf.kName [.node 1001 [], .wild]) none []

-- the former counterexample C17-F6: `search(Store())` finds the `Load` node that `match(Store())` accepts
example : (search Pfst.Gen.Leaf.kinds .ctxInst nameY).map Tree.id = [2] := by decide +kernel

-- the former counterexample: `MNOT(MName('x'))` matches the node `y`, and `search` now finds it
example : (search Pfst.Gen.Leaf.kinds notNameX nameY).map Tree.id = [0, 2] ∧
    (search Pfst.Gen.Leaf.kinds (.mnot (.type Pfst.Gen.Leaf.kName) none []) nameY).map Tree.id = [2] := by
  decide +kernel

/-- Under pre-filter soundness on the walked nodes, `search` is the walk filtered by `match`, in walk order. -/
theorem search_eq_filter (K : Kinds) (p : Pat) (t : Tree)
    (hs : ∀ n ∈ walk K t, ∀ la, leafAsts K p = some la → (matchNode K p [] n).isSome = true → la.contains n.kind = true) :
    search K p t = (walk K t).filter (fun n => (matchNode K p [] n).isSome) := by
  unfold search
  split
  · rfl
  · next la hla =>
    split
    · rfl
    · rw [List.filter_filter]
      apply List.filter_congr
      intro n hn
      cases hm : (matchNode K p [] n).isSome with
      | false => rfl
      | true => simpa using hs n hn la hla hm

/-- ... hence for every pattern, on trees whose node kinds the tables cover (`leaf_table_ok`). -/
theorem search_eq_filter_all (K : Kinds) (p : Pat) (t : Tree) (hk : ∀ n ∈ walk K t, TargetOK K n.kind) :
    search K p t = (walk K t).filter (fun n => (matchNode K p [] n).isSome) := by
  apply search_eq_filter
  intro n hn la hla hm
  cases he : matchNode K p [] n with
  | none => simp [he] at hm
  | some e => simpa using sound_node K p [] n e la (hk n hn) hla he

/-- **`search` is `filter match ∘ walk events`, for every `on` mode**: the events `search(pat, on=...)` yields are
the walk events (`enter`: before the children, `leave`: after them, `both`: both) of exactly the nodes `match` accepts,
in walk order, and each event carries the verdict and the tags of ITS OWN node (`matchedEvents`) — whatever was
matched between the enter and the leave event of a node. Holds for every pattern on trees whose node kinds the tables
cover (`leaf_table_ok`). -/
theorem search_events (K : Kinds) (p : Pat) (on : On) (t : Tree) (hk : ∀ ev ∈ walkBoth K t, TargetOK K ev.1.kind) :
    searchEvents K p on t = matchedEvents K p on t := by
  unfold searchEvents walkEvents matchedEvents
  split
  · rfl
  · next la hla =>
    split
    · rfl
    · apply filterMap_filter_of_imp
      intro ev hev hsome
      have hmem : ev ∈ walkBoth K t := (List.mem_filter.1 hev).1
      cases he : matchNode K p [] ev.1 with
      | none => simp [he] at hsome
      | some e => simpa using sound_node K p [] ev.1 e la (hk ev hmem) hla he

/-- the `enter` events of the two-sided walk are the pre-order walk `search_eq_filter` speaks about -/
theorem enter_events_are_walk (K : Kinds) (t : Tree) :
    ((walkBoth K t).filter (fun ev => On.enter.keeps ev.2)).map (·.1) = walk K t :=
  walk_of_both K t

-- a node that matches although its last descendant does not, and the other way round: `[a, [1]]`-like shapes;
-- every event carries its own node's verdict (2 events for the outer list, none for the inner one)
private def listK : Nat := Pfst.Gen.Leaf.kList
private def evT : Tree :=
  .node 0 listK [.node 1 Pfst.Gen.Leaf.listKind
    [.node 2 Pfst.Gen.Leaf.kName [.node 3 1000 [], .node 4 Pfst.Gen.Leaf.kLoad []],
     .node 5 listK [.node 6 Pfst.Gen.Leaf.listKind [.node 7 Pfst.Gen.Leaf.kConstant [.node 8 1001 [], .node 9 Pfst.Gen.Leaf.noneKind []]],
                    .node 10 Pfst.Gen.Leaf.kLoad []]],
    .node 11 Pfst.Gen.Leaf.kLoad []]
private def evP : Pat :=
  .node listK [.node Pfst.Gen.Leaf.listKind [.m (.type Pfst.Gen.Leaf.kName) (some 0) [], .type listK], .wild]
example : (searchEvents Pfst.Gen.Leaf.kinds evP .both evT).map (fun ev => (ev.1.id, ev.2.1)) = [(0, false), (0, true)] ∧
    (searchEvents Pfst.Gen.Leaf.kinds evP .leave evT).map (fun ev => (ev.1.id, ev.2.1)) = [(0, true)] := by decide +kernel

/-! ## quantifiers -/

/-
Full statement (list_regex): for ALL pattern sequences `matchList ps xs = (allMatches ps xs).head?`.
It is false when a quantified sublist itself contains a quantifier (`list_regex_false_reentry`, finding C17-F3: the
matcher has no way back into a finished iteration).  Proved for every other shape.
-/
/-- **Quantifiers are regular expressions** when no quantified sublist contains a quantifier: for every pattern
sequence of elements, wildcards, tagged elements, back-references and greedy / non-greedy `{min,max}` quantifiers
(`min ≤ max`; with or without pattern tag and static tags) over a single element pattern or over a non-empty sublist of
element patterns, and every element sequence, the matcher as written returns exactly the first match of the ordered
list-of-successes semantics — same accept/reject, same tags. -/
theorem list_regex_partial (ps : List LPat) (xs : List Nat) (h : ps.all simpleItem = true) :
    matchList ps xs = (allMatches ps xs).head? :=
  matchList_eq_spec ps xs h

private def star : QSpec := { mn := 0, mx := none, greedy := true }

/-- `[MQ(['a', MQSTAR('b')], 1, 2), 'b']` rejects `[a, b, b]` in the code as written; `(?:ab*){1,2}b` matches `abb`
(finding C17-F3: a choice point inside a finished sublist iteration is never re-entered). -/
theorem list_regex_false_reentry :
    matchList [.ql { mn := 1, mx := some 2, greedy := true } [.elem (.lit 0), .qs star (.lit 1)], .elem (.lit 1)] [0, 1, 1] = none ∧
    specMatch [.ql { mn := 1, mx := some 2, greedy := true } [.elem (.lit 0), .qs star (.lit 1)], .elem (.lit 1)] [0, 1, 1] = some [] := by
  decide +kernel

-- the former counterexamples C17-F2 (`(?:ab)*bc` on `abc`) and C17-F4 (static tags on a bounded greedy quantifier)
-- are inside the proved fragment; the repaired matcher rejects / reports the capture of the kept iteration
private def f2Ps : List LPat := [.ql star [.elem (.lit 0), .elem (.lit 1)], .elem (.lit 1), .elem (.lit 2)]
private def f4Ps : List LPat :=
  [.qs { mn := 0, mx := some 2, greedy := true, static := [(5, 1)] } (.cap 0 .any), .elem (.lit 1), .elem (.lit 2)]
example : f2Ps.all simpleItem = true ∧ f4Ps.all simpleItem = true := by decide
example : matchList f2Ps [0, 1, 2] = none ∧ (matchList f2Ps [0, 1, 0, 1, 1, 2]).isSome = true := by decide +kernel
example : (matchList f4Ps [0, 1, 2]).map (fun d => (lookup d 0, lookup d 5)) =
    some (some (.elem 0 0), some (.static 1)) := by decide +kernel

/-! ## non-vacuity -/

-- a pattern sequence in the proved fragment with a tag, a back-reference, a non-greedy and a bounded quantifier, that
-- matches with back-tracking: M(t0=...), MQSTAR.NG(...), MQ(MTAG('t0'), 1, 2), 'b'  on  [a, c, a, a, b]
private def exPs : List LPat :=
  [.elem (.cap 0 .any), .qs { mn := 0, mx := none, greedy := false } .any,
   .qs { mn := 1, mx := some 2, greedy := true, tag := some 1 } (.ref 0), .elem (.lit 1)]
-- a back-reference to a capture made inside a keyword member of MAND: `.*?(?P<k>(?P<v>.))(?P=v).*` on [b, a, a]
private def exAnd : List LPat :=
  [.qs { mn := 0, mx := none, greedy := false } .any, .elem (.and2 none .any (some 1) (.cap 0 .any)), .elem (.ref 0),
   .qs { mn := 0, mx := none, greedy := true } .any]
example : exAnd.all simpleItem = true ∧
    (matchList exAnd [1, 0, 0]).map (fun d => (lookup d 0, lookup d 1)) = some (some (.elem 1 0), some (.elem 1 0)) ∧
    matchList exAnd [0, 1, 0] = none := by decide +kernel
example : exPs.all simpleItem = true := by decide
example : (matchList exPs [0, 2, 0, 0, 1]).isSome = true ∧ matchList exPs [0, 2, 0, 2, 1] = none := by decide +kernel
example : (allMatches exPs [0, 0, 0, 0, 1]).length = 2 := by decide +kernel

private def exT : Tree := .node 0 Pfst.Gen.Leaf.kBinOp [.node 1 Pfst.Gen.Leaf.kName [.node 2 1000 [], .node 3 Pfst.Gen.Leaf.kLoad []],
  .node 4 Pfst.Gen.Leaf.kAdd [], .node 5 Pfst.Gen.Leaf.kConstant [.node 6 1001 [], .node 7 Pfst.Gen.Leaf.noneKind []]]
private def exT' : Tree := .node 9 Pfst.Gen.Leaf.kBinOp [.node 8 Pfst.Gen.Leaf.kName [.node 7 1000 [], .node 6 Pfst.Gen.Leaf.kLoad []],
  .node 5 Pfst.Gen.Leaf.kAdd [], .node 4 Pfst.Gen.Leaf.kConstant [.node 3 1002 [], .node 2 Pfst.Gen.Leaf.noneKind []]]
example : diff1 exT exT' = true := by decide
example : Pfst.Gen.Leaf.kName ∈ Pfst.Gen.Leaf.all ∧ Pfst.Gen.Leaf.kName ∉ Pfst.Gen.Leaf.badTargets := by decide
example : (walk Pfst.Gen.Leaf.kinds exT).length = 5 := by decide +kernel

end Pfst.C17
