import Pfst.MatchLemmas
import Pfst.Gen.Leaf

/-!
# C17 — matching depends only on structure; quantifiers behave like regular expressions

Property theorems about the model in `Pfst/Match.lean` (list matcher as written, regular-expression spec, structural
matcher, search pre-filter).  Lemmas live in `Pfst/MatchLemmas.lean`; the kind tables in `Pfst/Gen/Leaf.lean` are
regenerated from `/repo` on every run and the table facts below are re-checked against them.

Purity (`match_pure` of the design): `matchNode`, `matchList` are Lean functions of (pattern, structure) — there is no
state to carry between calls in the model; that the implementation behaves like a function is what the
repeated/shuffled-call correspondence checks.
-/
namespace Pfst.C17
open Pfst.Match

/-! ## structure -/

/-- Every tree matches the pattern built from it, with no tags, whatever tags are already bound. -/
theorem match_self (K : Kinds) (t : Tree) (ctx : TEnv) : matchNode K (toPattern t) ctx t = some [] :=
  toPattern_of_same K t t ctx (matchTree_refl t)

/-- A tree that differs from `t` in exactly one leaf (`diff1`, node ids ignored) does not match the pattern built from
`t`. -/
theorem match_one_leaf (K : Kinds) (t t' : Tree) (ctx : TEnv) (h : diff1 t t' = true) :
    matchNode K (toPattern t) ctx t' = none :=
  toPattern_of_diff1 K t t' ctx h

/-- ... and a tree with the same structure (other node ids, e.g. another layout of the same program) does. -/
theorem match_same_structure (K : Kinds) (t t' : Tree) (ctx : TEnv) (h : matchTree t t' = true) :
    matchNode K (toPattern t) ctx t' = some [] :=
  toPattern_of_same K t t' ctx h

/-! ## the pre-filter of `search` -/

/-- The extracted tables are what the pre-filter needs at every leaf kind except the listed `badTargets` (on the pinned
tree: `FunctionType`, which `AST2ASTSLEAF[mod]` omits): each leaf kind is in its own entry and in the entry of every
class it is an instance of. Re-checked against `Pfst/Gen/Leaf.lean` on every run. -/
theorem leaf_table_ok (tk : Nat) (h : tk ∈ Pfst.Gen.Leaf.all) (hb : tk ∉ Pfst.Gen.Leaf.badTargets) :
    TargetOK Pfst.Gen.Leaf.kinds tk := by
  have hchk : (Pfst.Gen.Leaf.all.all fun tk => Pfst.Gen.Leaf.badTargets.contains tk ||
      ((Pfst.Gen.Leaf.leafTable.getD tk []).contains tk &&
       (List.range Pfst.Gen.Leaf.nKinds).all fun k =>
         !(Pfst.Gen.Leaf.instTable.getD k []).contains tk || (Pfst.Gen.Leaf.leafTable.getD k []).contains tk)) = true := by
    decide +kernel
  have hlen : Pfst.Gen.Leaf.instTable.length = Pfst.Gen.Leaf.nKinds := by decide +kernel
  rw [List.all_eq_true] at hchk
  have h1 := hchk tk h
  have hb' : Pfst.Gen.Leaf.badTargets.contains tk = false := by simpa using hb
  simp only [hb', Bool.false_or, Bool.and_eq_true, List.all_eq_true] at h1
  refine ⟨h, by simpa [Pfst.Gen.Leaf.kinds] using h1.1, fun k hk => ?_⟩
  by_cases hkn : k < Pfst.Gen.Leaf.nKinds
  · have := h1.2 k (List.mem_range.2 hkn)
    have hk' : (Pfst.Gen.Leaf.instTable.getD k []).contains tk = true := by simpa [Pfst.Gen.Leaf.kinds] using hk
    simp only [hk', Bool.not_true, Bool.false_or] at this
    simpa [Pfst.Gen.Leaf.kinds] using this
  · exfalso
    have hnone : Pfst.Gen.Leaf.instTable[k]? = none := List.getElem?_eq_none (by omega)
    simp [Pfst.Gen.Leaf.kinds, hnone] at hk

/-- every leaf kind has a non-empty entry inside `ASTS_LEAF__ALL`, and so has every class -/
theorem leaf_table_nonempty :
    (Pfst.Gen.Leaf.leafTable.all fun la => !la.isEmpty && la.all fun x => Pfst.Gen.Leaf.all.contains x) = true := by
  decide +kernel

/-
Full statement (prefilter_sound): for every pattern `p` in which each `MNOT` covers only a type-exact pattern
(built from `...`, classes, `MTYPES`, `M`, `MOR`, `MAND`, `MNOT` of such), `match` succeeds on a node of kind `k` only
if `k ∈ leafAsts p`.  Proved below for patterns in which no `MNOT` decides the kind of the node (`noMnot`); the
`MNOT`-over-type-exact case additionally needs `leafOf k ⊆ inst k` at the node's kind and is covered by the
correspondence only.  For `MNOT` over a field-constrained pattern the statement is false: `prefilter_false`.
-/
/-- **Pre-filter soundness** (no `MNOT` on the node's own kind): a node that matches has a kind the pre-filter keeps. -/
theorem prefilter_sound_partial (K : Kinds) (p : Pat) (hp : noMnot p = true) (ctx : TEnv) (t : Tree) (e : TEnv)
    (la : List Nat) (hk : TargetOK K t.kind) (hl : leafAsts K p = some la) (hm : matchNode K p ctx t = some e) :
    t.kind ∈ la :=
  sound_node K p hp ctx t e la hk hl hm

private def nameY : Tree := .node 0 Pfst.Gen.Leaf.kName [.node 1 1000 [], .node 2 Pfst.Gen.Leaf.kLoad []]
private def notNameX : Pat := .mnot (.node Pfst.Gen.Leaf.kName [.node 1001 [], .wild]) none []

/-- `MNOT(MName('x'))` matches the node `y` but the pre-filter computed for it excludes `Name` nodes: `search` cannot
find `y` (finding C17-F1). -/
theorem prefilter_false :
    (matchNode Pfst.Gen.Leaf.kinds notNameX [] nameY).isSome = true ∧
    (match leafAsts Pfst.Gen.Leaf.kinds notNameX with
     | some la => la.contains nameY.kind
     | none => true) = false ∧
    (search Pfst.Gen.Leaf.kinds notNameX nameY).map Tree.id = [2] ∧
    ((walk Pfst.Gen.Leaf.kinds nameY).filter (fun n => (matchNode Pfst.Gen.Leaf.kinds notNameX [] n).isSome)).map Tree.id = [0, 2] := by
  decide +kernel

/-- Under pre-filter soundness on the walked nodes, `search` is the walk filtered by `match`, in walk order. -/
theorem search_eq_filter (K : Kinds) (p : Pat) (t : Tree)
    (hs : ∀ n ∈ walk K t, ∀ la, leafAsts K p = some la → (matchNode K p [] n).isSome = true → la.contains n.kind = true) :
    search K p t = (walk K t).filter (fun n => (matchNode K p [] n).isSome) := by
  unfold search
  split
  · rfl
  · next la hla =>
    split
    · rfl
    · rw [List.filter_filter]
      apply List.filter_congr
      intro n hn
      cases hm : (matchNode K p [] n).isSome with
      | false => rfl
      | true => simpa using hs n hn la hla hm

/-- ... in particular for every pattern without a kind-deciding `MNOT`, on trees whose node kinds the tables cover. -/
theorem search_eq_filter_noMnot (K : Kinds) (p : Pat) (t : Tree) (hp : noMnot p = true)
    (hk : ∀ n ∈ walk K t, TargetOK K n.kind) :
    search K p t = (walk K t).filter (fun n => (matchNode K p [] n).isSome) := by
  apply search_eq_filter
  intro n hn la hla hm
  cases he : matchNode K p [] n with
  | none => simp [he] at hm
  | some e => simpa using sound_node K p hp [] n e la (hk n hn) hla he

/-! ## quantifiers -/

/-
Full statement (list_regex): for ALL pattern sequences `matchList ps xs = (allMatches ps xs).head?`.
It is false for sublist bodies (`list_regex_false_backoff`, `list_regex_false_reentry`) and for static tags on an
untagged bounded greedy quantifier (`list_regex_false_static`).
-/
/-- **Quantifiers are regular expressions** when every quantifier body is a single element pattern, there are no
static tags and `min ≤ max`: for every pattern sequence (elements, wildcards, tagged elements, back-references,
greedy and non-greedy `{min,max}` quantifiers with or without a tag) and every element sequence, the matcher as
written returns exactly the first match of the ordered list-of-successes semantics — same accept/reject, same tags. -/
theorem list_regex_partial (ps : List LPat) (xs : List Nat) (h : ps.all simpleItem = true) :
    matchList ps xs = (allMatches ps xs).head? :=
  matchList_eq_spec ps xs h

private def star : QSpec := { mn := 0, mx := none, greedy := true }

/-- `[MQSTAR(['a','b']), 'b', 'c']` accepts `[a, b, c]` in the code as written; `(?:ab)*bc` does not match `abc`
(finding C17-F2: the greedy back-off steps back one element although the iteration consumed two). -/
theorem list_regex_false_backoff :
    matchList [.ql star [.elem (.lit 0), .elem (.lit 1)], .elem (.lit 1), .elem (.lit 2)] [0, 1, 2] = some [] ∧
    specMatch [.ql star [.elem (.lit 0), .elem (.lit 1)], .elem (.lit 1), .elem (.lit 2)] [0, 1, 2] = none := by
  decide +kernel

/-- `[MQ(['a', MQSTAR('b')], 1, 2), 'b']` rejects `[a, b, b]` in the code as written; `(?:ab*){1,2}b` matches `abb`
(finding C17-F3: a choice point inside a finished sublist iteration is never re-entered). -/
theorem list_regex_false_reentry :
    matchList [.ql { mn := 1, mx := some 2, greedy := true } [.elem (.lit 0), .qs star (.lit 1)], .elem (.lit 1)] [0, 1, 1] = none ∧
    specMatch [.ql { mn := 1, mx := some 2, greedy := true } [.elem (.lit 0), .qs star (.lit 1)], .elem (.lit 1)] [0, 1, 1] = some [] := by
  decide +kernel

/-- `[MQ(M(t=...), 0, 2, s=1), 'b', 'c']` on `[a, b, c]`: the quantifier keeps one iteration (`a`) but the code as
written reports `t = b`, the capture of the iteration it gave back (finding C17-F4: `static_tags` is appended once per
completed counting phase, so `del matches[-2]` removes the first copy of the static tags instead of the last match). -/
theorem list_regex_false_static :
    (matchList [.qs { mn := 0, mx := some 2, greedy := true, static := [(5, 1)] } (.cap 0 .any), .elem (.lit 1), .elem (.lit 2)]
      [0, 1, 2]).map (fun d => lookup d 0) = some (some (.elem 1 1)) ∧
    (specMatch [.qs { mn := 0, mx := some 2, greedy := true, static := [(5, 1)] } (.cap 0 .any), .elem (.lit 1), .elem (.lit 2)]
      [0, 1, 2]).map (fun d => lookup d 0) = some (some (.elem 0 0)) := by
  decide +kernel

/-! ## non-vacuity -/

-- a pattern sequence in the proved fragment with a tag, a back-reference, a non-greedy and a bounded quantifier, that
-- matches with back-tracking: M(t0=...), MQSTAR.NG(...), MQ(MTAG('t0'), 1, 2), 'b'  on  [a, c, a, a, b]
private def exPs : List LPat :=
  [.elem (.cap 0 .any), .qs { mn := 0, mx := none, greedy := false } .any,
   .qs { mn := 1, mx := some 2, greedy := true, tag := some 1 } (.ref 0), .elem (.lit 1)]
example : exPs.all simpleItem = true := by decide
example : (matchList exPs [0, 2, 0, 0, 1]).isSome = true ∧ matchList exPs [0, 2, 0, 2, 1] = none := by decide +kernel
example : (allMatches exPs [0, 0, 0, 0, 1]).length = 2 := by decide +kernel

private def exT : Tree := .node 0 Pfst.Gen.Leaf.kBinOp [.node 1 Pfst.Gen.Leaf.kName [.node 2 1000 [], .node 3 Pfst.Gen.Leaf.kLoad []],
  .node 4 Pfst.Gen.Leaf.kAdd [], .node 5 Pfst.Gen.Leaf.kConstant [.node 6 1001 [], .node 7 Pfst.Gen.Leaf.noneKind []]]
private def exT' : Tree := .node 9 Pfst.Gen.Leaf.kBinOp [.node 8 Pfst.Gen.Leaf.kName [.node 7 1000 [], .node 6 Pfst.Gen.Leaf.kLoad []],
  .node 5 Pfst.Gen.Leaf.kAdd [], .node 4 Pfst.Gen.Leaf.kConstant [.node 3 1002 [], .node 2 Pfst.Gen.Leaf.noneKind []]]
example : diff1 exT exT' = true := by decide
example : Pfst.Gen.Leaf.kName ∈ Pfst.Gen.Leaf.all ∧ Pfst.Gen.Leaf.kName ∉ Pfst.Gen.Leaf.badTargets := by decide
example : noMnot (.mor [(none, .type Pfst.Gen.Leaf.kexpr), (some 0, .mand [(none, .node Pfst.Gen.Leaf.kName [.wild, .wild])])]) = true := by
  decide
example : (walk Pfst.Gen.Leaf.kinds exT).length = 5 := by decide +kernel

end Pfst.C17
