import Pfst.NeedParsLemmas

/-!
# C09b — the decision pfst actually takes when it puts an expression

Statements about the executable model `Pfst/NeedPars.lean` of `FST._is_atom`, `FST._is_enclosed_in_parents`,
`FST._is_enclosed_or_line` and of `need_pars` / the `pars` option logic inside `_make_exprlike_fst`.  The model is tied to
the real functions on every run (whole mock domain, every node of corpus programs, run-time instrumented `replace()`), its
kind sets / tables are regenerated from `/repo` (`Pfst/Gen/Enclose.lean`, `Pfst/Gen/Precedence.lean`).

Together with `Pfst.C09.table_sound` (the extracted table covers what the grammar needs):
`need_pars_covers_table` + `atom_skip_sound` say the precedence part of the decision is at least the table's, for
non-atoms by consulting it and for atoms because the table never asks for parentheses around them (except `3 .real`,
which is the special case in `need_pars`); `needed_enclosed` says that whenever `need_pars` answers yes the put node ends
up inside parentheses; `needed_kept` that existing source parentheses are removed only when `need_pars` answers no;
`enclosedOrLine_sound` / `enclosedOrLine_sound_str` that the line-structure answer "enclosed or one logical line" is
right — since /repo 48b6578 also for (implicitly concatenated) string literals (finding C09-F1, fixed).
-/
namespace Pfst.C09b
open Pfst.NeedPars Pfst.Gen.Precedence Pfst.Gen.Enclose Pfst.Prec

/-! ### `need_pars` -/

/-- For a put node that is not an atom and not a `Starred`, `need_pars(adding)` answers `True` whenever the extracted
precedence table requires parentheses for (child kind, parent kind, field, flags) — whatever `adding`, the enclosure of the
parents and the line structure say.  (With `Pfst.C09.table_sound`: whatever the grammar needs is parenthesised.) -/
theorem need_pars_covers_table (x : NPIn) (adding : Bool)
    (hatom : (isAtom x.put false false).truthy = false) (hstar : x.put.info.kind ≠ .«Starred»)
    (htab : precRequire x.put.info x.slf x.fld x.dictKeyNone false = some true) :
    needPars x adding = some true := by
  have hs : (x.put.info.kind != .«Starred») = true := by simpa using hstar
  simp [needPars, needFirst, hatom, hs, htab]

/-- The same for a `Starred` put node, whose value is checked against the `Starred.value` slot: the answer is `True`
whenever the table requires parentheses for the value, unless parentheses are being added and the value already has its own
(or the value is a `Tuple`, assumed parenthesised). -/
theorem need_pars_covers_table_starred (x : NPIn) (adding : Bool) (sc : Node)
    (hatom : (isAtom x.put false false).truthy = false) (hstar : x.put.info.kind = .«Starred»)
    (hsc : starChild x.put = some sc) (hnt : sc.info.kind ≠ .«Tuple»)
    (htab : precRequire sc.info x.put.info .«value» false x.arglike = some true)
    (hown : adding = false ∨ sc.info.n = 0) :
    needPars x adding = some true := by
  have hs : (x.put.info.kind != .«Starred») = false := by simp [hstar]
  have ht : (sc.info.kind != .«Tuple») = true := by simpa using hnt
  rcases hown with h | h <;> simp [needPars, needFirst, hatom, hs, hsc, ht, htab, h]

/-- the `3 .real` special case: an `int` constant put as the `value` of an `Attribute` -/
def intAttrCase (x : NPIn) : Bool :=
  x.tgtIsFST && x.fld == .«value» && x.put.info.kind == .«Constant» && x.put.info.cint && x.tgtParent == some .«Attribute»

/-- An atom (`_is_atom(pars=False)` truthy: `True` or `'unenclosable'`) never reaches the precedence table: the answer is
exactly "int constant as attribute base, or (not enclosed in parents and not enclosed-or-line), or Lambda inside a
formatted value" — it never refuses and does not depend on the table. -/
theorem atom_never_table (x : NPIn) (adding : Bool) (hatom : (isAtom x.put false false).truthy = true) :
    needPars x adding = some (intAttrCase x || lineBranch x adding || lambdaBranch x) := by
  unfold needPars needFirst intAttrCase
  simp only [hatom, Bool.not_true, Bool.false_eq_true, if_false]
  cases h : (x.tgtIsFST && x.fld == .«value» && x.put.info.kind == .«Constant» && x.put.info.cint &&
    x.tgtParent == some .«Attribute») <;> simp

/-- expression / pattern kinds whose `_is_atom(pars=False)` is truthy by kind alone.  (Operator classes such as `Add` are
left out: as a node an operator is an atom, but in the precedence table `Add` stands for "a `BinOp` whose operator is
`Add`".) -/
def atomKinds : List K := (atomInnate ++ cmpopOneWord ++ atomUnencl ++ [K.«Constant»]).filter exprOrPattern.contains

def maskOkForAtom (mask : Nat) : Bool :=
  mask == 65536 || (List.range 16).all (fun fl => !(bit mask fl) || fAttrInt fl)

/-- **Skipping the table for atoms loses nothing**: in the regenerated table no (slot, flags) cell requires parentheses
around a kind that `_is_atom` calls an atom, except under the `attr_val_int` flag — which `precedence_require_parens`
sets only for an `int` `Constant` that is the `value` of an `Attribute` (`precRequire`), the case `need_pars` handles by
hand (`intAttrCase`).  Re-checked by the kernel against both regenerated tables. -/
theorem atom_skip_sound :
    rows.all (fun r => (List.zip children r.2.2).all (fun cm => !atomKinds.contains cm.1 || maskOkForAtom cm.2)) = true := by
  decide +kernel

/-- the same on the model's lookup function: for an atom kind and a flag set without `attr_val_int` the table never
answers "parentheses required" -/
theorem atom_table_free (p : K) (f : F) (c : K) (fl : Nat) (hc : atomKinds.contains c = true) (hfl : fl < 16)
    (hf : fAttrInt fl = false) : tableLookup p f c fl ≠ some true := by
  intro h
  unfold tableLookup at h
  split at h
  · exact absurd h (by simp)
  · rename_i r hr
    split at h
    · exact absurd h (by simp)
    · rename_i cm hcm
      have hrm : r ∈ rows := List.mem_of_find?_eq_some hr
      have hcmm : cm ∈ List.zip children r.2.2 := List.mem_of_find?_eq_some hcm
      have hc1 : cm.1 = c := by simpa using List.find?_some hcm
      have hall := atom_skip_sound
      rw [List.all_eq_true] at hall
      have h1 := hall r hrm
      rw [List.all_eq_true] at h1
      have h2 := h1 cm hcmm
      rw [hc1, hc] at h2
      simp only [Bool.not_true, Bool.false_or, maskOkForAtom, Bool.or_eq_true, beq_iff_eq, List.all_eq_true] at h2
      split at h
      · exact absurd h (by simp)
      · rename_i hne
        rcases h2 with h2 | h2
        · exact hne (by simpa using h2)
        · have h3 := h2 fl (List.mem_range.2 hfl)
          simp only [Option.some.injEq] at h
          rw [h, hf] at h3
          simp at h3

/-- `precedence_require_parens` through the table never asks for parentheses around an atom kind, except for the `int`
constant that is the value of an `Attribute` (`operator` kinds are excluded by `atomKinds`). -/
theorem atom_prec_free (c par : Info) (f : F) (dkn al : Bool) (hc : atomKinds.contains (typeOf c) = true)
    (hni : (par.kind == .«Attribute» && c.kind == .«Constant» && c.cint) = false) :
    precRequire c par f dkn al ≠ some true := by
  unfold precRequire
  rw [hni]
  apply atom_table_free _ _ _ _ hc
  · cases (par.kind == .«Dict» && dkn) <;> cases (c.kind == .«MatchAs» && c.matchAsNone) <;> cases al <;> simp
  · cases (par.kind == .«Dict» && dkn) <;> cases (c.kind == .«MatchAs» && c.matchAsNone) <;> cases al <;> decide

/-- … and under that flag the table asks for parentheses around a `Constant` only in the `Attribute.value` slot. -/
theorem atom_int_only_attribute_value :
    rows.all (fun r => (List.zip children r.2.2).all (fun cm =>
      !(cm.1 == .«Constant») || cm.2 == 65536 || cm.2 == 0 || (r.1 == .«Attribute» && r.2.1 == .«value»))) = true := by
  decide +kernel

/-! ### `_is_enclosed_in_parents` -/

/-- Spec (trusted, written from the Python grammar, not from pfst): the (parent kind, field) positions whose text always
lies between brackets that belong to the parent — `(...)` of a call / class / def / generator expression / class pattern,
`[...]` of a list / subscript / comprehension / type parameter list, `{...}` of a set / dict / mapping pattern / replacement
field of an f-string (the parts of an f-string are inside the string token) — plus pfst's own `_arglikes` /
`_comprehension_ifs` containers, which are only used for such positions. -/
def specEnclosing : List (K × F) := [
  (.«Call», .«args»), (.«Call», .«keywords»),
  (.«ClassDef», .«bases»), (.«ClassDef», .«keywords»), (.«ClassDef», .«type_params»),
  (.«FunctionDef», .«args»), (.«FunctionDef», .«type_params»),
  (.«AsyncFunctionDef», .«args»), (.«AsyncFunctionDef», .«type_params»), (.«TypeAlias», .«type_params»),
  (.«List», .«elts»), (.«List», .«ctx»), (.«Set», .«elts»), (.«Dict», .«keys»), (.«Dict», .«values»),
  (.«ListComp», .«elt»), (.«ListComp», .«generators»), (.«SetComp», .«elt»), (.«SetComp», .«generators»),
  (.«DictComp», .«key»), (.«DictComp», .«value»), (.«DictComp», .«generators»),
  (.«GeneratorExp», .«elt»), (.«GeneratorExp», .«generators»),
  (.«Subscript», .«slice»),
  (.«FormattedValue», .«value»), (.«FormattedValue», .«format_spec»), (.«Interpolation», .«value»),
  (.«Interpolation», .«format_spec»), (.«JoinedStr», .«values»), (.«TemplateStr», .«values»),
  (.«MatchClass», .«patterns»), (.«MatchClass», .«kwd_patterns»), (.«MatchMapping», .«keys»), (.«MatchMapping», .«patterns»),
  (.«_arglikes», .«arglikes»), (.«_comprehension_ifs», .«ifs»)]

/-- Every (parent kind, field) for which the regenerated table of `_is_enclosed_in_parents` answers "encloses" outright
is enclosing by the grammar; the two run-time cases (3: `from m import (...)`, 4: `with (...)`) are only `ImportFrom.names`
and the fields of `With` / `AsyncWith`. -/
theorem enc_table_sound :
    encTable.all (fun e =>
      (e.2.2 != 1 || specEnclosing.contains (e.1, e.2.1)) &&
      (e.2.2 != 3 || (e.1 == .«ImportFrom» && e.2.1 == .«names»)) &&
      (e.2.2 != 4 || withKinds.contains e.1) && decide (e.2.2 ≤ 4)) = true := by
  decide +kernel

/-- `_is_enclosed_in_parents` answers `True` only for a reason: some ancestor step returned `True`. -/
theorem encWalk_true (ups : List (F × Info)) (h : encWalk ups = true) :
    ∃ fp ∈ ups, encStep fp.1 fp.2 = some true := by
  induction ups with
  | nil => simp [encWalk] at h
  | cons a r ih =>
    obtain ⟨f, p⟩ := a
    unfold encWalk at h
    cases hs : encStep f p with
    | none =>
      rw [hs] at h
      obtain ⟨fp, hm, he⟩ := ih h
      exact ⟨fp, List.mem_cons_of_mem _ hm, he⟩
    | some b =>
      rw [hs] at h
      simp only at h
      exact ⟨(f, p), List.mem_cons_self, by rw [hs, h]⟩

/-- … and such a step is: an enclosing position by the table (hence by the grammar, `enc_table_sound`), parenthesised
`from … import (…)` names or `with (…)` items, a parenthesised tuple, a delimited match sequence, or grouping parentheses
of that ancestor. -/
theorem encStep_true (f : F) (p : Info) (h : encStep f p = some true) :
    encCode p.kind f = 1 ∨ ((encCode p.kind f = 3 ∨ encCode p.kind f = 4) ∧ 0 < specialN p) ∨
    p.ptup = some true ∨ p.dms = some true ∨ 0 < p.n := by
  unfold encStep at h
  split at h
  · exact Or.inl (by assumption)
  · simp at h
  · rename_i h3; simp only [Option.some.injEq, decide_eq_true_eq] at h; exact Or.inr (Or.inl ⟨Or.inl h3, h⟩)
  · rename_i h4; simp only [Option.some.injEq, decide_eq_true_eq] at h; exact Or.inr (Or.inl ⟨Or.inr h4, h⟩)
  · simp only at h
    split at h
    · rename_i hc; simp only [Bool.and_eq_true, beq_iff_eq] at hc; exact Or.inr (Or.inr (Or.inl hc.2))
    · split at h
      · rename_i hc; simp only [Bool.and_eq_true, beq_iff_eq] at hc; exact Or.inr (Or.inr (Or.inr (Or.inl hc.2)))
      · split at h
        · rename_i hc; simp only [decide_eq_true_eq] at hc; exact Or.inr (Or.inr (Or.inr (Or.inr hc)))
        · simp at h

/-! ### which kinds `_is_enclosed_or_line` answers `True` for without looking -/

/-- Spec (trusted, written from the Python grammar, not from pfst): node kinds whose text can never contain a newline
that needs enclosing — they carry their own brackets (displays, comprehensions, mapping patterns), live inside a string
token (replacement fields), are one token (names, `None`/`True`/`False` patterns, operators, contexts, type-ignore), or
can only ever stand inside brackets of their parent (`Slice` in a subscript, `keyword` in a call, type parameters in
`[...]`).  `MatchValue` is NOT one of them (`-\n 2`, `a.\n b`, `"a"\n "b"` — finding C09-F2). -/
def specSelfEnclosed : List K := [
  .«List», .«Dict», .«Set», .«ListComp», .«SetComp», .«DictComp», .«GeneratorExp», .«MatchMapping»,
  .«FormattedValue», .«Interpolation»,
  .«Name», .«MatchSingleton», .«TypeIgnore», .«Load», .«Store», .«Del»,
  .«And», .«Or», .«Add», .«Sub», .«Mult», .«MatMult», .«Div», .«Mod», .«Pow», .«LShift», .«RShift», .«BitOr», .«BitXor»,
  .«BitAnd», .«FloorDiv», .«Invert», .«Not», .«UAdd», .«USub»,
  .«Slice», .«keyword», .«TypeVar», .«ParamSpec», .«TypeVarTuple»]

/-- Every kind in the regenerated always-`True` list of `_is_enclosed_or_line` is self-enclosed by the grammar; in
particular `MatchValue` is not in it (C09-F2): a pattern whose value spans lines goes through the child walk. -/
theorem eol_always_sound : eolAlways.all specSelfEnclosed.contains = true ∧ eolAlways.contains .«MatchValue» = false := by
  decide +kernel

/-! ### the `pars` option logic -/

/-- Existing parentheses of the source are removed (`_unparenthesize_grouping`) only if the source has them, the option is
`'auto'`, and `need_pars(adding=False)` answered `False`: needed parentheses are never removed. -/
theorem needed_kept_core (opt : ParsOpt) (sh th ut pz an : Bool) (nF nT : Option Bool) (o : Outcome)
    (h : actionCore opt sh th ut pz an nF nT = some o) (hu : o.src = .unpar) :
    sh = true ∧ opt = .auto ∧ nF = some false := by
  cases opt <;> cases sh <;> cases th <;> cases ut <;> cases pz <;> cases an <;>
    rcases nF with _ | _ | _ <;> rcases nT with _ | _ | _ <;> simp_all [actionCore] <;> (subst h; simp_all)

theorem needed_kept (x : NPIn) (opt : ParsOpt) (o : Outcome) (h : action x opt = some o) (hu : o.src = .unpar) :
    srcHasPars x.put = true ∧ opt = .auto ∧ needPars x false = some false :=
  needed_kept_core _ _ _ _ _ _ _ _ o h hu

/-- Whenever `need_pars` (asked with `adding = not "source has parentheses"`) answers `True` and the `pars` option is not
off, the put node ends up enclosed: by its own kept parentheses, by the kept parentheses of the target, by added grouping
parentheses, by tuple delimiters, or by the deferred parenthesisation of the parent. -/
theorem needed_enclosed_core (opt : ParsOpt) (sh th ut pz an : Bool) (nF nT : Option Bool) (o : Outcome)
    (h : actionCore opt sh th ut pz an nF nT = some o) (hopt : opt ≠ .off)
    (hneed : (if sh then nF else nT) = some true) : resultEnclosed sh th o = true := by
  cases opt <;> cases sh <;> cases th <;> cases ut <;> cases pz <;> cases an <;>
    rcases nF with _ | _ | _ <;> rcases nT with _ | _ | _ <;> simp_all [actionCore, resultEnclosed] <;>
    (subst h; simp_all)

theorem needed_enclosed (x : NPIn) (opt : ParsOpt) (o : Outcome) (h : action x opt = some o) (hopt : opt ≠ .off)
    (hneed : needPars x (!srcHasPars x.put) = some true) :
    resultEnclosed (srcHasPars x.put) (x.tgtIsFST && decide (0 < x.tgtN)) o = true := by
  apply needed_enclosed_core _ _ _ _ _ _ _ _ o h hopt
  cases hs : srcHasPars x.put <;> simp_all

/-- The option logic is total and its outcome is one source action plus one yes/no on the target's parentheses.
As written in the task ("exactly one action") the statement is FALSE of the code: the source action and the removal of the
target's parentheses are independent (`(x)` ← `(a + b)` with `pars='auto'` removes both pairs).  What holds:
* an outcome exists whenever the `need_pars` call of the branch taken answered;
* parentheses / delimiters are added only if the source had none, and grouping parentheses (or the deferred ones) only if
  the target has none — never a second pair;
* a bare tuple that is delimited takes the place of the target's parentheses (they are removed, not kept as well);
* source parentheses are removed only together with replacing the target's (`del_tgt_pars`). -/
theorem action_total (opt : ParsOpt) (sh th ut pz an : Bool) (nF nT : Option Bool)
    (hF : sh = true → opt = .auto → nF.isSome = true) (hT : sh = false → opt ≠ .off → nT.isSome = true) :
    ∃ o, actionCore opt sh th ut pz an nF nT = some o ∧
      ((o.src = .group ∨ o.src = .delimit ∨ o.src = .deferred) → sh = false) ∧
      ((o.src = .group ∨ o.src = .deferred) → th = false) ∧
      (o.src = .delimit → ut = true ∧ (th = true → o.delTgt = true)) ∧
      (o.src = .unpar → o.delTgt = true) ∧
      (opt = .off → o = ⟨.none, false⟩) := by
  cases opt <;> cases sh <;> cases th <;> cases ut <;> cases pz <;> cases an <;>
    rcases nF with _ | _ | _ <;> rcases nT with _ | _ | _ <;> simp_all [actionCore]

/-- non-vacuity: every source action occurs -/
example : actionCore .auto true false false true false (some false) none = some ⟨.unpar, true⟩ := by decide
example : actionCore .auto false false false true false none (some true) = some ⟨.group, false⟩ := by decide
example : actionCore .auto false true true true false none (some true) = some ⟨.delimit, true⟩ := by decide
example : actionCore .auto false false false false false none (some true) = some ⟨.deferred, false⟩ := by decide
example : actionCore .auto false true false true true none (some false) = some ⟨.none, false⟩ := by decide   -- AnnAssign target
example : actionCore .on false true false true true none (some false) = some ⟨.none, true⟩ := by decide

/-! ### line structure: a put that spans lines where nothing encloses it is parenthesised -/

/-- If the first part of `need_pars` answers (the precedence call does not refuse) and the line branch fires — the
position is not enclosed by its parents and the source is not enclosed-or-one-logical-line, or (C09-F3) it is a `Starred`
whose value, looked at WITHOUT the parentheses under consideration, is not — then `need_pars` is `True`.  This holds for
every kind of source: expressions, patterns (`MatchValue` included, `eol_always_sound`), `Starred`. -/
theorem line_branch_needs (x : NPIn) (adding : Bool) (b : Bool) (hf : needFirst x adding = some b)
    (hl : lineBranch x adding = true) : needPars x adding = some true := by
  unfold needPars
  rw [hf]
  cases b <;> simp [hl]

/-- Hence (with `needed_enclosed`): whenever the `pars` option is not off, such a put ends up enclosed — by its own kept
parentheses, the target's kept parentheses, added grouping parentheses, tuple delimiters or the deferred parentheses. -/
theorem multiline_put_enclosed (x : NPIn) (opt : ParsOpt) (o : Outcome) (b : Bool) (h : action x opt = some o)
    (hopt : opt ≠ .off) (hf : needFirst x (!srcHasPars x.put) = some b)
    (hl : lineBranch x (!srcHasPars x.put) = true) :
    resultEnclosed (srcHasPars x.put) (x.tgtIsFST && decide (0 < x.tgtN)) o = true :=
  needed_enclosed x opt o h hopt (line_branch_needs x _ b hf hl)

/-- … and for a `Starred` source whose value has its own parentheses (C09-F3): if the position is not enclosed by its
parents and the value without those parentheses is not one logical line, `pars='auto'` does not remove them. -/
theorem starred_value_pars_kept (x : NPIn) (opt : ParsOpt) (o : Outcome) (b : Bool) (sc : Node)
    (h : action x opt = some o) (hkind : x.put.info.kind = .«Starred») (hsc : starChild x.put = some sc)
    (hf : needFirst x false = some b)
    (henc : enclosedInParents (some x.fld) x.slf x.ups = false)
    (hopen : (eol x.putLines false sc).1.truthy = false) : o.src ≠ .unpar := by
  intro hu
  have hnk := needed_kept x opt o h hu
  have hl : lineBranch x false = true := by
    simp [lineBranch, starValueOpen, henc, hkind, hsc, hopen]
  have := line_branch_needs x false b hf hl
  rw [this] at hnk
  simp at hnk

/-! ### `_is_enclosed_or_line` -/

/-- the node needs no look at its lines: always-enclosed kind, one line, own grouping parentheses (when asked to look at
them), parenthesised tuple, delimited match sequence -/
def SelfEnclosed (i : Info) (l : Loc) (checkPars : Bool) : Prop :=
  eolAlways.contains i.kind = true ∨ l.endLn = l.ln ∨ (checkPars = true ∧ 0 < i.n) ∨ i.ptup = some true
    ∨ (i.ptup = none ∧ i.dms = some true)

/-- **`_is_enclosed_or_line` is sound outside string literals.**  If the model answers `True`/`'pars'` for a node that is
not a `Constant` / `JoinedStr` / `TemplateStr`, then the node is self-enclosed, or EVERY newline `j` inside its span
(`ln ≤ j < end_ln`; for `With` the header) is harmless (`NewlineOk`): it lies inside the span of one of the walked children
(a child with its own parentheses, a mock "enclosed" span — call / subscript / import / with-items parentheses — or a child
that was itself asked and answered yes), or line `j` ends in a backslash with no `#` between the column where the walk
stood on that line (0, the node's start, or the end of a child ending there) and that backslash — a real line
continuation, not the tail of a comment.  (The children that are asked are those not ending on the line the walk has
reached; with children in source order those are one-line children.) -/
theorem enclosedOrLine_sound (lines : List Line) (checkPars : Bool) (i : Info) (kids : List Node) (l : Loc)
    (hl : i.loc = some l) (hk : isStrKind i.kind = false)
    (h : (eol lines checkPars (.mk i kids)).1.truthy = true) :
    SelfEnclosed i l checkPars ∨
    ∀ j, l.ln ≤ j → j < tailEnd i l → NewlineOk lines (selectSteps i (stepsOf lines kids)) l.ln l.col j := by
  rcases eol_cases lines checkPars i kids l hl h with h1 | ⟨h2, _⟩ | h3
  · exact Or.inl h1
  · rw [hk] at h2; exact absurd h2 (by simp)
  · exact Or.inr (finish_sound lines _ l.ln l.col _ h3)

/-- **… and for string literals** (`Constant` / `JoinedStr` / `TemplateStr`; `strLns` = the lines tokenize reports as
continued INSIDE a string token, all inside the node — checked per case by the harness): answer `True` ⇒ every newline `j`
of the span is inside a string token (`j + 1 ∈ strLns`), or line `j` ends in a backslash with no `#` between the walk
column (the node's start column on its first line, 0 on later lines) and that backslash — a real line continuation, not
the tail of a comment between two implicitly concatenated parts.  (Before /repo 48b6578 the code tested
`lines[j].endswith('\\')` and this statement was false: finding C09-F1.) -/
theorem enclosedOrLine_sound_str (lines : List Line) (checkPars : Bool) (i : Info) (kids : List Node) (l : Loc)
    (hl : i.loc = some l) (hk : isStrKind i.kind = true) (hnp : checkPars = false ∨ i.n = 0) (hml : l.endLn ≠ l.ln)
    (hs : ∀ x ∈ i.strLns, l.ln < x ∧ x ≤ l.endLn)
    (h : (eol lines checkPars (.mk i kids)).1.truthy = true) :
    eolAlways.contains i.kind = true ∨
    ∀ j, l.ln ≤ j → j < l.endLn →
      (j + 1 ∈ i.strLns ∨ lineEndCont (lines.getD j []) (if j = l.ln then l.col else 0) = true) := by
  rw [eol] at h
  simp only [hl] at h
  by_cases h1 : eolAlways.contains i.kind = true
  · exact Or.inl h1
  · right
    have h3 : ¬ (l.endLn == l.ln) = true := by simpa using hml
    have h4 : ¬ (checkPars && decide (0 < i.n)) = true := by
      rcases hnp with h | h <;> simp [h]
    by_cases h2 : eolBlock.contains i.kind = true
    · rw [if_neg h1, if_pos h2] at h; simp [EolRes.truthy] at h
    · rw [if_neg h1, if_neg h2, if_neg h3, if_neg h4, if_pos hk] at h
      exact strBranch_sound lines l i.strLns hs h

/-! #### witnesses -/

private def L (s : String) : Line := s.toList
private def nm (f : F) (ln col endCol : Nat) : Node :=
  .mk { kind := .«Name», field := f, loc := some ⟨ln, col, ln, endCol⟩, pars := some ⟨ln, col, ln, endCol⟩ } []
private def addOp (ln col : Nat) : Node :=
  .mk { kind := .«Add», field := .«op», loc := some ⟨ln, col, ln, col + 1⟩, pars := some ⟨ln, col, ln, col + 1⟩ } []
/-- the BinOp `a + b` spread over lines 0 and 1, `+` at column 2 of line 0, `b` at column 1 of line 1 -/
private def binop2 : Node :=
  .mk { kind := .«BinOp», op := some .«Add», loc := some ⟨0, 0, 1, 2⟩, pars := some ⟨0, 0, 1, 2⟩ }
    [nm .«left» 0 0 1, addOp 0 2, nm .«right» 1 1 2]

/-- `a + \` / ` b`: one logical line -/
example : (eol [L "a + \\", L " b"] false binop2).1 = .yes := by decide +kernel
/-- `a +` / ` b`: not, and line 0 is reported as the one needing a continuation -/
example : eol [L "a +", L " b"] false binop2 = (.no, [0]) := by decide +kernel
/-- `a +  # c\` / ` b`: a comment ending in a backslash is not a continuation (repaired in /repo 97ae14d) -/
example : (eol [L "a +  # c\\", L " b"] false binop2).1 = .no := by decide +kernel

/-- the implicitly concatenated string `"s"  # c\` / ` "t"` (a `Constant` on lines 0–1, no multi-line token) -/
private def strNode : Node :=
  .mk { kind := .«Constant», cstr := true, loc := some ⟨0, 0, 1, 4⟩, pars := some ⟨0, 0, 1, 4⟩, strLns := [] } []
private def strLines : List Line := [L "\"s\"  # c\\", L " \"t\""]

/-- the former defect witness (C09-F1, fixed in /repo 48b6578): the backslash on line 0 ends a comment, the answer is
now `False` and line 0 is reported as the one needing a continuation -/
example : eol strLines false strNode = (.no, [0]) := by decide +kernel
/-- `"s" \` / ` "t"`: a real continuation between the parts — one logical line; the hypotheses of
`enclosedOrLine_sound_str` are met by this node -/
example : (eol [L "\"s\" \\", L " \"t\""] false strNode).1 = .yes ∧ isStrKind strNode.info.kind = true ∧
    (∀ x ∈ strNode.info.strLns, 0 < x ∧ x ≤ 1) := by decide +kernel
/-- a triple-quoted string over lines 0–1: line 1 is a continuation line reported by tokenize -/
example : (eol [L "\"\"\"s", L "t\"\"\""] false
    (.mk { kind := .«Constant», cstr := true, loc := some ⟨0, 0, 1, 4⟩, pars := some ⟨0, 0, 1, 4⟩, strLns := [1] } [])).1 = .yes := by
  decide +kernel

/-! #### `need_pars` witnesses (non-vacuity of the hypotheses above) -/

private def pq : Node :=
  .mk { kind := .«BinOp», op := some .«Add», loc := some ⟨0, 0, 0, 5⟩, pars := some ⟨0, 0, 0, 5⟩ }
    [nm .«left» 0 0 1, addOp 0 2, nm .«right» 0 4 5]
/-- put `p + q` as the right operand of `a * b` in `x = a * b` -/
private def exMul : NPIn :=
  { put := pq, putLines := [L "p + q"], slf := { kind := .«BinOp», op := some .«Mult», field := .«value» },
    ups := [(.«value», { kind := .«Assign», field := .«body» }), (.«body», { kind := .«Module» })], fld := .«right»,
    tgtParent := some .«BinOp» }

example : (isAtom exMul.put false false).truthy = false ∧ exMul.put.info.kind ≠ .«Starred» ∧
    precRequire exMul.put.info exMul.slf exMul.fld exMul.dictKeyNone false = some true := by decide +kernel
example : action exMul .auto = some ⟨.group, false⟩ := by decide +kernel

/-- put the int constant `7` as the base of `a.b`: atom, parenthesised by the special case only -/
private def exInt : NPIn :=
  { put := .mk { kind := .«Constant», cint := true, loc := some ⟨0, 0, 0, 1⟩, pars := some ⟨0, 0, 0, 1⟩ } [],
    putLines := [L "7"], slf := { kind := .«Attribute», field := .«value» },
    ups := [(.«value», { kind := .«Assign», field := .«body» }), (.«body», { kind := .«Module» })], fld := .«value»,
    tgtParent := some .«Attribute» }

example : (isAtom exInt.put false false).truthy = true ∧ needPars exInt true = some true ∧ lineBranch exInt true = false := by
  decide +kernel

/-- the source `(p + q)` put into `x = a` with `pars='auto'`: parentheses not needed, removed -/
private def exUnpar : NPIn :=
  { put := .mk { kind := .«BinOp», op := some .«Add», loc := some ⟨0, 1, 0, 6⟩, pars := some ⟨0, 0, 0, 7⟩, n := 1 }
      [nm .«left» 0 1 2, addOp 0 3, nm .«right» 0 5 6],
    putLines := [L "(p + q)"], slf := { kind := .«Assign», field := .«body» }, ups := [(.«body», { kind := .«Module» })],
    fld := .«value», tgtParent := some .«Assign» }

example : action exUnpar .auto = some ⟨.unpar, true⟩ ∧ needPars exUnpar false = some false := by decide +kernel

end Pfst.C09b
