import Pfst.Gen.ReconcileParams
/-!
C13 — the parameter defaults of `Reconcile.__init__` (`trivia_ast_put`, `trivia_fst_put`, `trivia_fst_get`).

`Pfst/Gen/ReconcileParams.lean` is regenerated on every run: `Reconcile.__init__` is called with every combination of the three
parameters omitted / `None` / given, and the value each attribute ends up with is recorded.  The model of the default logic
is `effective`; the theorems say that the extracted table IS that model on the whole lattice, i.e. that the effective value
of a parameter depends on what was passed for THAT parameter only.
-/
namespace Pfst.C13
open Pfst.Gen.ReconcileParams

/-- documented behaviour ("`None` means use default"): omitted (0) or `None` (1) gives the default, a value (2) is kept -/
def effective (passed : Nat) : String := if passed == 2 then "given" else "default"

/-- the table covers the whole presence lattice: 27 distinct rows of three codes `< 3` -/
theorem params_lattice_complete :
    rows.length = 27 ∧ (rows.map (·.1)).eraseDups.length = 27 ∧ rows.all (fun r => r.1.length == 3 && r.1.all (· < 3)) = true ∧
    params.length = 3 := by decide

/-- An omitted (or `None`) parameter always gets its documented default, REGARDLESS of the other two. -/
theorem omitted_gets_default :
    rows.all (fun r => (List.zip r.1 r.2).all (fun p => p.1 == 2 || p.2 == "default")) = true := by decide

/-- A given parameter is kept, regardless of the other two. -/
theorem given_is_kept :
    rows.all (fun r => (List.zip r.1 r.2).all (fun p => p.1 != 2 || p.2 == "given")) = true := by decide

/-- Together: every attribute is a function of its own parameter only (`effective`), on every row. -/
theorem param_independent : rows.all (fun r => r.2 == r.1.map effective) = true := by decide

/-- non-vacuity: the row the bare call uses, and a row where only the middle parameter is given -/
example : ([0, 0, 0], ["default", "default", "default"]) ∈ rows := by decide
example : ([0, 2, 0], ["default", "given", "default"]) ∈ rows := by decide

end Pfst.C13
