import Pfst.OffsetLemmas

/-!
# C11 — whitespace-only source edits in offset mode keep every node on its text

Property theorems about the model of `_offset` / `_params_offset` (`Pfst/Offset.lean`).  Helper lemmas live in
`Pfst/OffsetLemmas.lean`; the text-level statements (what `_put_src` does to the lines, and that shifted spans denote
the same text) are in `Pfst/Props/C04.lean` / `Pfst/TextLemmas.lean` and are re-exported below.
-/
namespace Pfst.C11
open Pfst.Offset

/-- The point is strictly after the start and strictly before the end of `p`. -/
def strictlyInside (π : Params) (p : Pos) : Prop :=
  (p.lno < π.lno ∨ (p.lno = π.lno ∧ p.col < π.colo)) ∧ (π.lno < p.elno ∨ (p.elno = π.lno ∧ π.colo < p.ecol))

/-- `p` starts strictly after the point. -/
def startsAfter (π : Params) (p : Pos) : Prop := π.lno < p.lno ∨ (p.lno = π.lno ∧ π.colo < p.col)

/-- Shift of a single coordinate pair: lines move by `dln`, columns only on the line of the point. -/
def shiftL (π : Params) (l : Int) : Int := l + π.dln
def shiftC (π : Params) (l c : Int) : Int := if l = π.lno then c + π.dcol else c

/-- **The WARNING invariant**: on every geometrically ordered tree (`geo`, evaluated on each real tree by the
correspondence harness) the stack walk with its two `break`s and its `continue` equals the naive map. Any depth, any
number of children, any parameters. -/
theorem break_eq_full (π : Params) (t : Node) (h : geo t = true) : offsetTree π t = naiveNode π t :=
  goNode_eq_naive π t h

/-- Nodes before the spot do not move (any `tail`/`head`). -/
theorem before_fixed (π : Params) (p : Pos) (hw : p.wf = true) (hb : endsBefore π p = true) : offsetPos π p = p :=
  offsetPos_of_endsBefore π p hw hb

/-- Nodes after the spot move by exactly the size of the change (any `tail`/`head`). -/
theorem after_shift (π : Params) (p : Pos) (hw : p.wf = true) (ha : startsAfter π p) :
    offsetPos π p = ⟨shiftL π p.lno, shiftC π p.lno p.col, shiftL π p.elno, shiftC π p.elno p.ecol⟩ := by
  obtain ⟨a, b, c, d⟩ := p
  simp only [Pos.wf, le2, Bool.or_eq_true, decide_eq_true_eq, Bool.and_eq_true, beq_iff_eq] at hw
  simp only [startsAfter] at ha
  have h1 : endMoves π ⟨a, b, c, d⟩ = true := by
    simp only [endMoves]
    rw [if_neg (by omega)]
    split
    · rfl
    · rw [if_neg (by omega)]
      have : decide (d > π.colo) = true := by simp; omega
      simp [this]
  have h2 : startMoves π ⟨a, b, c, d⟩ = true := by
    simp only [startMoves]
    split
    · rfl
    · have he : a = π.lno := by omega
      have : decide (b > π.colo) = true := by simp; omega
      simp [he, this]
  simp only [offsetPos, h1, h2, shiftL, shiftC, if_true]
  congr 1
  · split <;> split <;> first | rfl | omega
  · split <;> split <;> first | rfl | omega

/-- The containing nodes grow or shrink by the change: start fixed, end shifted. -/
theorem container_grows (π : Params) (p : Pos) (hi : strictlyInside π p) :
    offsetPos π p = ⟨p.lno, p.col, shiftL π p.elno, shiftC π p.elno p.ecol⟩ := by
  obtain ⟨a, b, c, d⟩ := p
  simp only [strictlyInside] at hi
  have h1 : endMoves π ⟨a, b, c, d⟩ = true := by
    simp only [endMoves]
    rw [if_neg (by omega)]
    split
    · rfl
    · rw [if_neg (by omega)]
      have : decide (d > π.colo) = true := by simp; omega
      simp [this]
  have h2 : startMoves π ⟨a, b, c, d⟩ = false := by
    simp only [startMoves]
    rw [if_neg (by omega)]
    split
    · next he =>
      have he' : a = π.lno := by simpa using he
      have hb1 : (decide (b > π.colo)) = false := by simp; omega
      have hb2 : (b == π.colo) = false := by simp; omega
      simp [hb1, hb2]
    · rfl
  simp only [offsetPos, h1, h2, shiftL, shiftC, if_true]
  congr 1
  split <;> split <;> first | rfl | omega

/-- `_params_offset` computes byte deltas such that a byte column `b` at or after the end of the replaced span, on the
last replaced line, lands where the same character sits in the new line:
`new line = (lines[ln][:col] if single-line put else "") ++ put_lines[-1] ++ lines[end_ln][end_col:]`. -/
theorem params_bytes (nPut ln endLn ePre putLast sPre b : Int) :
    let r := paramsOffset nPut ln endLn ePre putLast sPre
    r.1 = endLn ∧ r.2.1 = -ePre ∧ r.2.2.1 = (nPut - 1) - (endLn - ln) ∧
    b + r.2.2.2 = (if nPut = 1 then sPre else 0) + putLast + (b - ePre) := by
  simp only [paramsOffset]
  refine ⟨by trivial, by trivial, by trivial, ?_⟩
  by_cases h : nPut = 1
  · subst h; simp; omega
  · have : (nPut - 1 == 0) = false := by simp; omega
    simp [this, h]; omega

/-! ### the docstring table of `_offset`: zero-length node at the offset point, and its neighbours -/

private def P (dcol : Int) (tail head : Tri) : Params :=
  { lno := 1, colo := 4, dln := 0, dcol := dcol, tail := tail, head := head }
private def A : Pos := ⟨1, 0, 1, 4⟩   -- |===| ends at the point
private def B : Pos := ⟨1, 4, 1, 8⟩   -- |---| starts at the point
private def Z : Pos := ⟨1, 4, 1, 4⟩   -- zero-length at the point

/-- The sixteen diagrams of the `_offset` docstring (behaviour at exactly the offset point), transcribed. -/
theorem offsetNode_table :
    -- +2 tail=False head=True
    (offsetPos (P 2 .f .t) A, offsetPos (P 2 .f .t) B, offsetPos (P 2 .f .t) Z) = (⟨1,0,1,4⟩, ⟨1,6,1,10⟩, ⟨1,4,1,4⟩) ∧
    -- -2 tail=False head=True
    (offsetPos (P (-2) .f .t) A, offsetPos (P (-2) .f .t) B, offsetPos (P (-2) .f .t) Z) = (⟨1,0,1,4⟩, ⟨1,2,1,6⟩, ⟨1,2,1,4⟩) ∧
    -- +2 tail=None head=True
    (offsetPos (P 2 .n .t) A, offsetPos (P 2 .n .t) B, offsetPos (P 2 .n .t) Z) = (⟨1,0,1,4⟩, ⟨1,6,1,10⟩, ⟨1,6,1,6⟩) ∧
    -- -2 tail=False head=None
    (offsetPos (P (-2) .f .n) A, offsetPos (P (-2) .f .n) B, offsetPos (P (-2) .f .n) Z) = (⟨1,0,1,4⟩, ⟨1,4,1,6⟩, ⟨1,4,1,4⟩) ∧
    -- +2 tail=True head=True
    (offsetPos (P 2 .t .t) A, offsetPos (P 2 .t .t) B, offsetPos (P 2 .t .t) Z) = (⟨1,0,1,6⟩, ⟨1,6,1,10⟩, ⟨1,6,1,6⟩) ∧
    -- -2 tail=True head=True
    (offsetPos (P (-2) .t .t) A, offsetPos (P (-2) .t .t) B, offsetPos (P (-2) .t .t) Z) = (⟨1,0,1,2⟩, ⟨1,2,1,6⟩, ⟨1,2,1,2⟩) ∧
    -- +2 tail=None head=False
    (offsetPos (P 2 .n .f) A, offsetPos (P 2 .n .f) B, offsetPos (P 2 .n .f) Z) = (⟨1,0,1,4⟩, ⟨1,4,1,10⟩, ⟨1,4,1,4⟩) ∧
    -- -2 tail=True head=None
    (offsetPos (P (-2) .t .n) A, offsetPos (P (-2) .t .n) B, offsetPos (P (-2) .t .n) Z) = (⟨1,0,1,2⟩, ⟨1,4,1,6⟩, ⟨1,2,1,2⟩) ∧
    -- +2 tail=False head=False
    (offsetPos (P 2 .f .f) A, offsetPos (P 2 .f .f) B, offsetPos (P 2 .f .f) Z) = (⟨1,0,1,4⟩, ⟨1,4,1,10⟩, ⟨1,4,1,4⟩) ∧
    -- -2 tail=False head=False
    (offsetPos (P (-2) .f .f) A, offsetPos (P (-2) .f .f) B, offsetPos (P (-2) .f .f) Z) = (⟨1,0,1,4⟩, ⟨1,4,1,6⟩, ⟨1,4,1,4⟩) ∧
    -- +2 tail=True head=False
    (offsetPos (P 2 .t .f) A, offsetPos (P 2 .t .f) B, offsetPos (P 2 .t .f) Z) = (⟨1,0,1,6⟩, ⟨1,4,1,10⟩, ⟨1,4,1,6⟩) ∧
    -- -2 tail=True head=False
    (offsetPos (P (-2) .t .f) A, offsetPos (P (-2) .t .f) B, offsetPos (P (-2) .t .f) Z) = (⟨1,0,1,2⟩, ⟨1,4,1,6⟩, ⟨1,4,1,4⟩) := by
  decide

/-! ### non-vacuity: the hypotheses are met by concrete, non-trivial data -/

private def sampleTree : Node :=
  .mk 0 none none [ .mk 1 (some ⟨1,0,1,9⟩) none [ .mk 2 (some ⟨1,0,1,1⟩) none [], .mk 3 (some ⟨1,4,1,9⟩) none
    [ .mk 4 (some ⟨1,4,1,5⟩) none [], .mk 5 (some ⟨1,8,1,9⟩) none [] ] ],
    .mk 6 (some ⟨3,0,4,7⟩) (some 2) [ .mk 7 (some ⟨2,1,2,5⟩) none [], .mk 8 (some ⟨4,2,4,7⟩) none [] ] ]

private def π0 : Params := { lno := 1, colo := 6, dln := 0, dcol := 3, tail := .f, head := .t }

example : geo sampleTree = true := by decide
example : flatten (offsetTree π0 sampleTree) ≠ flatten sampleTree := by decide
example : (⟨1,4,1,9⟩ : Pos).wf = true ∧ strictlyInside π0 ⟨1,4,1,9⟩ := by unfold strictlyInside; decide
example : startsAfter π0 ⟨1,8,1,9⟩ := by unfold startsAfter; decide
example : endsBefore π0 ⟨1,4,1,5⟩ = true := by decide

end Pfst.C11
