import Pfst.Gen.ReconcilePrims
/-!
C13 — "changing primitive values": the two places where reconcile decides whether a primitive changed.

* in-tree nodes: `Reconcile.recurse_children` (`child != o or child.__class__ is not o.__class__`, model `pyNe`);
* nodes taken from ANOTHER tree: the reparse of the copy (`copy().verify()` / `get_slice().verify()`), which compares
  primitives with `astutil.compare_asts` (`_compare_primitive_type_comments_func`).

`Pfst/Gen/ReconcilePrims.lean` evaluates both on every ordered pair of a value battery (ints, bools, floats, complex, str,
bytes, None) on every run.  The judge is Python `==` together with identity of type; `1 == True == 1.0` must not pass.
-/
set_option maxRecDepth 8000
namespace Pfst.C13
open Pfst.Gen.ReconcilePrims

/-- exact equality of two primitives: same value under `==` AND same type -/
def exact (r : String × String × Bool × Bool × Bool × Bool × Bool) : Bool := r.2.2.1 && r.2.2.2.1

/-- 13 values, every ordered pair, with conflating pairs among them (equal under `==`, other type) -/
theorem prims_battery_complete :
    rows.length = 169 ∧ (rows.filter (fun r => r.2.2.1 && !r.2.2.2.1)).length ≥ 10 := by decide +kernel

/-- The comparison used to validate a copy from another tree says "equal" exactly for the same value of the same type, with
type comments off and on. -/
theorem verify_compares_exactly :
    rows.all (fun r => r.2.2.2.2.1 == exact r && r.2.2.2.2.2.1 == exact r) = true := by decide +kernel

/-- `reconcile()` of an in-tree Constant returns the new value exactly when it differs in value or in type. -/
theorem reconcile_compares_exactly : rows.all (fun r => r.2.2.2.2.2.2 == !exact r) = true := by decide +kernel

/-- The two sites agree on every pair: what the in-tree diff treats as a change is what invalidates a copy. -/
theorem comparison_sites_agree : rows.all (fun r => r.2.2.2.2.1 == !r.2.2.2.2.2.2) = true := by decide +kernel

/-- non-vacuity: `1` vs `True` is in the battery, conflated by `==`, told apart by both sites -/
example : ("1", "True", true, false, false, false, true) ∈ rows := by decide +kernel

end Pfst.C13
