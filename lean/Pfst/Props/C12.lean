import Pfst.ModifyingLemmas

/-!
# C12 — a failed edit leaves the target tree untouched and still editable

Property theorems about the model of the modification registry (`Pfst/Modifying.lean`: `_MODIFYING`, `_Modifying.enter /
success / fail / __exit__`, the skeletons of `FST.unpar`, `_put_one`, `_put_slice`) and about the abstract edit step
`validate ≫ apply`.

What is proved here is (1) for every well-nested history of registry events — `with` blocks that complete, `with`
blocks in which an exception is raised at any depth and position, the manual `enter … fail | success` of `unpar`, the
`try … except` + second `with` of the raw fallback, exceptions caught by a caller and editing continued — the registry
afterwards is exactly the registry before, so from the empty registry no lock survives; (2) an edit whose handler
validates before it mutates is the identity on (tree state, registry) when it raises, also through the raw fallback.
WHICH handlers have that shape is not provable from a model: it is evaluated on the real code by the sweep of
`harness/props/C12.py` (source, tree dump with positions, registry and the following valid edit, per failing call).
-/
namespace Pfst.C12
open Pfst.Modifying

/-! ## The registry -/

mutual
/-- Every history restores the registry it started from (any well-formed registry: every depth ≥ 1), and never hits
the `TypeError` of `success()`/`fail()` on a missing entry. -/
theorem run_restores : ∀ p : Prog, Restores (run p)
  | .raise c => by intro r _; simp [run]
  | .withM n raw force body => by
    intro r h
    simp only [run]
    exact withRun_restores n raw force (runList body) (runList_restores body) r h
  | .unpar n do1 body1 do2 body2 => by
    intro r h
    simp only [run]
    exact unparRun_restores n do1 do2 (runList body1) (runList body2) (runList_restores body1)
      (runList_restores body2) r h
  | .try_ c body => by
    intro r h
    simp only [run]
    exact tryRun_spec c (runList body r) r (runList_restores body r h)
  | .put n raw force g handler rawBody => by
    intro r h
    simp only [run]
    exact putRun_restores n raw force g (runList handler) (runList rawBody) (runList_restores handler)
      (runList_restores rawBody) r h

  | .rootReplace n g body => by
    intro r h
    simp only [run]
    exact rootReplaceRun_restores n g (runList body) (runList_restores body) r h

theorem runList_restores : ∀ ps : List Prog, Restores (runList ps)
  | [] => by intro r _; simp [runList]
  | p :: ps => by
    intro r h
    obtain ⟨a1, a2⟩ := run_restores p r h
    simp only [runList]
    cases hx : (run p r).exc with
    | some x => simp only; exact ⟨a1, by rw [hx] at a2; rw [hx]; exact a2⟩
    | none =>
      simp only
      rw [a1]
      exact runList_restores ps r h
end

/-- **registry_balanced.** For EVERY well-nested history — exceptions raised anywhere, `RuntimeError`s of nested
modification of a different node, raw fallbacks, exceptions caught and editing continued — that starts with the empty
registry, the registry is empty afterwards. -/
theorem registry_balanced (ps : List Prog) : (runList ps []).reg = [] :=
  (runList_restores ps [] rfl).1

/-- The general form: from any well-formed registry (this history may itself run inside an outer modification) the
registry afterwards is exactly the registry before: same roots, same nodes, same depths, same order. -/
theorem registry_restored (ps : List Prog) (reg : Reg) (h : reg.wf = true) : (runList ps reg).reg = reg :=
  (runList_restores ps reg h).1

/-- `success()` / `fail()` never find their entry missing in a well-nested history (no `TypeError` out of `__exit__`
masking the user's exception). -/
theorem no_internal_error (ps : List Prog) (reg : Reg) (h : reg.wf = true) : (runList ps reg).exc ≠ some .internal :=
  (runList_restores ps reg h).2

/-- **registry_no_stale.** An exception `x` raised by the body of a `with` block entered at any depth (the registry
may already hold this root at depth k−1, or other roots) propagates as `x` and leaves the registry exactly as it was
before the block was entered: `__exit__` unwinds its own level; by `registry_restored` every enclosing level then does
the same, down to depth 0. -/
theorem registry_no_stale (n : NodeRef) (raw force : Bool) (body : List Prog) (reg reg1 : Reg) (x : Exc)
    (h : reg.wf = true) (he : enter n raw force reg = .ok reg1) (hx : (runList body reg1).exc = some x) :
    (run (.withM n raw force body) reg).reg = reg ∧ (run (.withM n raw force body) reg).exc = some x := by
  refine ⟨(run_restores _ reg h).1, ?_⟩
  simp only [run]
  rw [withRun_exc_of_ok n raw force (runList body) (runList_restores body) reg reg1 h he, hx]

/-- …and therefore after any history whatsoever from the empty registry — failed or not — a modification of ANY node
of ANY tree can be entered (no "nested modification of different nodes not allowed" from a stale entry). -/
theorem next_enter_ok (ps : List Prog) (m : NodeRef) (raw force : Bool) :
    enter m raw force (runList ps []).reg = .ok [(m.root, (m.node, 1))] := by
  rw [registry_balanced]
  rfl

/-- The same for the skeleton of `_put_one` / `_put_slice` alone, spelled out: whatever the handler and the raw
fallback do (as long as they are themselves well-nested), whichever of them raises, the registry is restored. -/
theorem put_skeleton_restores (n : NodeRef) (raw : RawOpt) (force g : Bool) (handler rawBody : List Prog) (reg : Reg)
    (h : reg.wf = true) : (run (.put n raw force g handler rawBody) reg).reg = reg :=
  (run_restores _ reg h).1

/-- The same for the root branch of `FST.replace` as repaired by C12-F2/F3 (all guards, including "own root" and
"already consumed", before the `with`): a refused request has not touched the registry — nor, in the code, the lines —
and whatever `code_as_all` / `_set_ast` do inside, the registry is restored. -/
theorem root_replace_skeleton_restores (n : NodeRef) (g : Bool) (body : List Prog) (reg : Reg) (h : reg.wf = true) :
    (run (.rootReplace n g body) reg).reg = reg :=
  (run_restores _ reg h).1

/-- A refused root replace is a no-op of the model: no registry event at all. -/
theorem root_replace_guard_first (n : NodeRef) (body : List Prog) (reg : Reg) :
    run (.rootReplace n true body) reg = ⟨reg, some .guard, []⟩ := by
  simp [run, rootReplaceRun]

/-- The same for the manual skeleton of `FST.unpar`. -/
theorem unpar_skeleton_restores (n : NodeRef) (do1 do2 : Bool) (b1 b2 : List Prog) (reg : Reg) (h : reg.wf = true) :
    (run (.unpar n do1 b1 do2 b2) reg).reg = reg :=
  (run_restores _ reg h).1

/-! ## The abstract edit step -/

section step
variable {σ ρ π ε : Type}

/-- **failed_is_identity.** If validation refuses the request, the step returns the state it was given. -/
theorem failed_is_identity (op : Op σ ρ π ε) (s : σ) (r : ρ) (e : ε) (h : op.validate s r = .error e) :
    op.step s r = (s, some e) := by
  simp [Op.step, h]

/-- A step that reports an error (in whatever way we learn of it) did not change the state. -/
theorem failed_state_eq (op : Op σ ρ π ε) (s : σ) (r : ρ) (e : ε) (h : (op.step s r).2 = some e) :
    (op.step s r).1 = s := by
  unfold Op.step at h ⊢
  cases hv : op.validate s r with
  | error e' => rfl
  | ok p => simp [hv] at h

/-- **next_edit_ok.** After a failed edit the next edit behaves exactly as it does on the tree that never saw the
failed one (the "fresh twin"). -/
theorem next_edit_ok (op : Op σ ρ π ε) (s : σ) (r₁ r₂ : ρ) (e : ε) (h : (op.step s r₁).2 = some e) :
    op.step (op.step s r₁).1 r₂ = op.step s r₂ := by
  rw [failed_state_eq op s r₁ e h]

/-- Sequences mixing failing and succeeding edits: a run of failing edits in front of a sequence can be dropped. -/
theorem failed_prefix_dropped (op : Op σ ρ π ε) (s : σ) (fs rs : List ρ)
    (h : ∀ r ∈ fs, ∃ e, op.validate s r = .error e) :
    (op.runSeq s (fs ++ rs)).1 = (op.runSeq s rs).1 := by
  induction fs with
  | nil => rfl
  | cons f fs ih =>
    obtain ⟨e, he⟩ := h f (by simp)
    simp only [List.cons_append, Op.runSeq, failed_is_identity op s f e he]
    exact ih (fun r hr => h r (by simp [hr]))

/-- One edit under `with`: if it reports an error, state AND registry are what they were. -/
theorem withStep_failed (op : Op σ ρ π ε) (n : NodeRef) (raw force : Bool) (w : σ × Reg) (r : ρ) (e : Err ε)
    (hw : w.2.wf = true) (h : (withStep op n raw force w r).2 = some e) : (withStep op n raw force w r).1 = w := by
  unfold withStep at h ⊢
  cases he : enter n raw force w.2 with
  | error x => rfl
  | ok reg1 =>
    obtain ⟨_, hx⟩ := enter_then_exit n raw force w.2 reg1 hw he
    simp only [he, hx] at h ⊢
    cases hs : (op.step w.1 r).2 with
    | none => simp [hs] at h
    | some e' => rw [failed_state_eq op w.1 r e' hs]

/-- One edit under `with`: the registry is restored whether the edit succeeded or not. -/
theorem withStep_registry (op : Op σ ρ π ε) (n : NodeRef) (raw force : Bool) (w : σ × Reg) (r : ρ)
    (hw : w.2.wf = true) : (withStep op n raw force w r).1.2 = w.2 := by
  unfold withStep
  cases he : enter n raw force w.2 with
  | error x => rfl
  | ok reg1 =>
    obtain ⟨_, hx⟩ := enter_then_exit n raw force w.2 reg1 hw he
    simp only [hx]

/-- **raw_fallback_atomic.** `_put_one` with both handlers of validate-then-apply shape: if the call raises — by a
guard, by the non-raw handler (`raw=False`), by the raw handler (`raw=True`), or by the non-raw handler AND then the raw
fallback (`raw='auto'`) — tree state and registry are exactly what they were before the call. -/
theorem raw_fallback_atomic (handler rawHandler : Op σ ρ π ε) (catchable : ε → Bool) (guard : ρ → Bool) (n : NodeRef)
    (raw : RawOpt) (force : Bool) (w : σ × Reg) (r : ρ) (e : Err ε) (hw : w.2.wf = true)
    (h : (putOne handler rawHandler catchable guard n raw force w r).2 = some e) :
    (putOne handler rawHandler catchable guard n raw force w r).1 = w := by
  unfold putOne at h ⊢
  by_cases hg : guard r = true
  · simp [hg]
  · simp only [hg, Bool.false_eq_true, if_false] at h ⊢
    by_cases hr : raw = .on
    · simp only [hr, beq_self_eq_true, if_true] at h ⊢
      exact withStep_failed rawHandler n true force w r e hw h
    · have hr' : (raw == RawOpt.on) = false := by simp [hr]
      simp only [hr', Bool.false_eq_true, if_false] at h ⊢
      cases h1 : (withStep handler n false force w r).2 with
      | none => simp [h1] at h
      | some e1 =>
        have hs := withStep_failed handler n false force w r e1 hw h1
        cases e1 with
        | reg x => simp only [h1] at h ⊢; exact hs
        | op x =>
          simp only [h1] at h ⊢
          by_cases hc : (catchable x && raw == RawOpt.auto) = true
          · simp only [hc, if_true, hs] at h ⊢
            exact withStep_failed rawHandler n true force w r e hw h
          · simp only [hc, Bool.false_eq_true, if_false] at h ⊢
            exact hs

/-- `_put_one`: the registry is restored on every path, success included. -/
theorem putOne_registry (handler rawHandler : Op σ ρ π ε) (catchable : ε → Bool) (guard : ρ → Bool) (n : NodeRef)
    (raw : RawOpt) (force : Bool) (w : σ × Reg) (r : ρ) (hw : w.2.wf = true) :
    (putOne handler rawHandler catchable guard n raw force w r).1.2 = w.2 := by
  have h1 := withStep_registry handler n false force w r hw
  unfold putOne
  by_cases hg : guard r = true
  · simp [hg]
  · simp only [hg, Bool.false_eq_true, if_false]
    by_cases hr : raw = .on
    · simp only [hr, beq_self_eq_true, if_true]
      exact withStep_registry rawHandler n true force w r hw
    · have hr' : (raw == RawOpt.on) = false := by simp [hr]
      simp only [hr', Bool.false_eq_true, if_false]
      cases h2 : (withStep handler n false force w r).2 with
      | none => simp only; exact h1
      | some e1 =>
        cases e1 with
        | reg x => simp only; exact h1
        | op x =>
          simp only
          by_cases hc : (catchable x && raw == RawOpt.auto) = true
          · simp only [hc, if_true]
            have := withStep_registry rawHandler n true force (withStep handler n false force w r).1 r (by rw [h1]; exact hw)
            rw [this, h1]
          · simp only [hc, Bool.false_eq_true, if_false]; exact h1

end step

/-! ## Non-vacuity: concrete histories and a concrete operation -/

def nA : NodeRef := ⟨0, 3⟩
def nB : NodeRef := ⟨0, 7⟩     -- another node of the same tree
def nC : NodeRef := ⟨1, 2⟩     -- a node of another tree

/-- An exception three `with` levels deep on the same node: depths go 1,2,3 then 2,1,0. -/
example : (run (nest nA 2 [.raise false]) []).trace
    = [[(0, (3, 1))], [(0, (3, 2))], [(0, (3, 3))], [(0, (3, 2))], [(0, (3, 1))], []] := by decide

example : (run (nest nA 2 [.raise false]) []).exc = some (.user false) := by decide

/-- A different node of the same tree inside a modification: `RuntimeError`, and it unwinds cleanly. -/
example : run (.withM nA false false [.withM nB false false []]) []
    = ⟨[], some .nested, [[(0, (3, 1))], [(0, (3, 1))], []]⟩ := by decide

/-- `force=True` lets the different node in; the entry keeps the FIRST node. -/
example : (run (.withM nA false false [.withM nB false true [.raise true]]) []).trace
    = [[(0, (3, 1))], [(0, (3, 2))], [(0, (3, 1))], []] := by decide

/-- Two trees at once (target and code), exception in the inner one, caught, then a raw-fallback put whose handler and
raw attempt both raise: registry empty at the end, the last exception propagates. -/
example : run (.withM nA false false
    [.try_ true [.withM nC false false [.raise false]],
     .put nA .auto false false [.raise true] [.raise false]]) []
    = ⟨[], some (.user false),
       [[(0, (3, 1))], [(0, (3, 1)), (1, (2, 1))], [(0, (3, 1))], [(0, (3, 2))], [(0, (3, 1))], [(0, (3, 2))],
        [(0, (3, 1))], []]⟩ := by decide

/-- root replace whose `code_as_all` raises (unparsable code): entered, failed, registry empty. -/
example : run (.rootReplace nA false [.raise true]) [] = ⟨[], some (.user true), [[(0, (3, 1))], []]⟩ := by decide

/-- `unpar` skeleton: phase 1 entered, phase 2 raises: one `fail()`, registry empty. -/
example : run (.unpar nA true [] true [.raise false]) [] = ⟨[], some (.user false), [[(0, (3, 1))], []]⟩ := by decide

/-- The hypothesis `wf` of `registry_restored` is needed and is what `enter` produces: from a registry with a depth-0
entry (unreachable) an enter/exit pair would delete the entry. -/
example : (run (.withM nA false false []) [(0, (3, 0))]).reg = [] := by decide

/-- A concrete validate-then-apply operation: replace element `i` of a list, refusing an out-of-range index. -/
def setOp : Op (List Nat) (Nat × Nat) (Nat × Nat) String where
  validate := fun s r => if r.1 < s.length then .ok r else .error "index out of range"
  apply := fun s p => s.set p.1 p.2

example : setOp.step [1, 2, 3] (5, 9) = ([1, 2, 3], some "index out of range") := by decide
example : setOp.step [1, 2, 3] (1, 9) = ([1, 9, 3], none) := by decide
example : (setOp.runSeq [1, 2, 3] [(5, 9), (1, 9), (7, 0), (0, 4)]).1 = [4, 9, 3] := by decide

/-- `raw='auto'`: handler refuses, raw handler refuses too: state and registry unchanged, error reported. -/
example : putOne setOp setOp (fun _ => true) (fun _ => false) nA .auto false ([1, 2, 3], []) (5, 9)
    = (([1, 2, 3], []), some (.op "index out of range")) := by decide

end Pfst.C12
