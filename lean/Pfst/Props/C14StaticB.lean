import Pfst.TableCheck
import Pfst.Gen.SyntaxOrder
/-! C14, tables: static field orders, second half of the shapes. -/
namespace Pfst.C14
open Pfst

theorem static_field_order_B :
    Gen.SyntaxOrder.shapesEncB.all (TableCheck.staticOk Gen.SyntaxOrder.fieldOrder) = true := by
  decide +kernel

end Pfst.C14
