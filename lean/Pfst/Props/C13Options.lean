import Pfst.Gen.ReconcileOptions
/-!
C13 — "fixed option set during reconcile": the tables of `Pfst/Gen/ReconcileOptions.lean` are regenerated on every run from
the imported modules (the keyword names of the `with FST.options(...)` block that `FST.reconcile` enters, the options it
refuses as keywords, the global options, and the options the put machinery reads from the THREAD DEFAULT during the replay).
The theorems say that the result of the replay cannot see a caller default it is not supposed to see.
-/
namespace Pfst.C13
open Pfst.Gen.ReconcileOptions

/-- Every option `reconcile()` refuses as a keyword ("managed during the process") is pinned by its `FST.options` block:
the caller can influence it neither by keyword nor through the thread defaults. -/
theorem refused_pinned : ∀ o ∈ refused, o ∈ pinned := by decide

/-- Nothing else is pinned: what the caller may pass as keyword is not overridden behind his back. -/
theorem pinned_refused : ∀ o ∈ pinned, o ∈ refused := by decide

/-- Pinned names are real global options (a misspelt keyword would raise in `FST.options`, and would pin nothing). -/
theorem pinned_global : ∀ o ∈ pinned, o ∈ globalOptions := by decide

/-- Every global option that the put handlers read from the thread default during the replay is either pinned or one the
caller is allowed to control (accepted by `reconcile()` as keyword: `elif_`, `pep8space`, ...). -/
theorem read_controlled : ∀ o ∈ readDefault, o ∈ pinned ∨ (o ∈ globalOptions ∧ o ∉ refused) := by decide

/-- the options whose default value decides parenthesisation are read, and pinned (non-vacuity) -/
example : "pars" ∈ readDefault ∧ "pars" ∈ pinned ∧ "pars" ∈ refused := by decide
example : ("pars", "'auto'") ∈ pinnedValues := by decide
example : "elif_" ∈ readDefault ∧ "elif_" ∉ pinned ∧ "elif_" ∉ refused := by decide

end Pfst.C13
