import Pfst.CanDel
import Pfst.Gen.CanDelAll

/-!
# C01c — "delete all elements" is allowed under normalisation exactly when the statement stays valid

`Pfst/CanDel.lean` models `_can_del_all` and the block grammar.  `Pfst/Gen/CanDelAll.lean` is regenerated on every run from
the real function called on real nodes (and from CPython's verdict on the emptied statement).  The general theorems are
about the model for EVERY shape; the table theorems tie model and grammar to the code and to CPython on every run.
-/
namespace Pfst.C01c
open Pfst.CanDel Pfst.Gen.CanDelAll

/-- **Sound and complete under normalisation**: for every valid statement shape and every list field it has, emptying the
field is allowed iff the statement is valid Python afterwards. -/
theorem canDelAll_iff_valid (s : Shape) (f : Field) (hf : hasField s.kind f = true) (hv : valid s = true) :
    canDelAll true s f = validAfter s f := by
  rcases s with ⟨k, h, e, fb⟩
  cases k <;> cases f <;> cases h <;> cases e <;> cases fb <;> simp_all [canDelAll, validAfter, valid, emptied, hasField]

/-- **Without normalisation nothing is refused** (intermediate invalid states are documented). -/
theorem canDelAll_raw (s : Shape) (f : Field) : canDelAll false s f = true := by
  simp [canDelAll]

/-- After an allowed emptying under normalisation the shape is valid again, so the invariant `valid` is kept by every
sequence of allowed "delete all" steps. -/
theorem valid_preserved (s : Shape) (f : Field) (hf : hasField s.kind f = true) (hv : valid s = true)
    (hc : canDelAll true s f = true) : valid (emptied s f) = true := by
  rcases s with ⟨k, h, e, fb⟩
  cases k <;> cases f <;> cases h <;> cases e <;> cases fb <;> simp_all [canDelAll, valid, emptied, hasField]

/-- **Tie to the code**: on every extracted row the real `_can_del_all` answers what the model answers, with
normalisation on and off. -/
theorem table_matches_model :
    rows.all (fun r => r.canNorm == canDelAll true r.shape r.field && r.canRaw == canDelAll false r.shape r.field) = true := by
  decide

/-- **Tie to CPython**: on every extracted row the grammar model agrees with Python's parser about the emptied statement. -/
theorem table_grammar_agrees : rows.all (fun r => r.parsesAfter == validAfter r.shape r.field) = true := by
  decide

/-- Every extracted row is a valid statement with that field (the hypotheses of `canDelAll_iff_valid` are met by what was
extracted), and the table is not empty. -/
theorem table_rows_wellformed :
    rows.all (fun r => hasField r.shape.kind r.field && valid r.shape) = true ∧ rows.length ≥ 30 := by
  decide

/-- The end-to-end statement on the extracted rows: the real function allows the deletion iff CPython accepts the result. -/
theorem table_sound_complete : rows.all (fun r => r.canNorm == r.parsesAfter) = true := by
  decide

/-- Where the emptying is allowed, doing it for real (delete and cut) leaves a statement whose live class is the class
CPython gives the resulting source (a `TryStar` that loses all its `except*` handlers and keeps a `finally` becomes a `Try`). -/
theorem table_class_after : rows.all (fun r => r.clsOk) = true := by
  decide

example : canDelAll true ⟨.tryS, true, true, true⟩ .handlers = false ∧ validAfter ⟨.tryS, true, true, true⟩ .handlers = false ∧
    canDelAll true ⟨.tryS, true, false, true⟩ .handlers = true := by decide

end Pfst.C01c
