import Pfst.WalkLemmas
import Pfst.NavLemmas
import Pfst.SynOrderLemmas
import Pfst.Props.C14Tables
import Pfst.Props.C14TablesB
import Pfst.Props.C14Covers
import Pfst.Props.C14Static
import Pfst.Props.C14StaticB

/-!
# C14 — traversal visits every node once, in source order, consistently across APIs

Property theorems about the model of `FST.walk`, the sibling/child/step navigation and the path functions
(`Pfst/Walk.lean`), about the model of the position-dependent child orders (`Pfst/SynOrder.lean`) and about the tables
extracted from the generated `traverse_next.py` / `traverse_prev.py` and from `syntax_ordered_children`
(`Pfst/Gen/*.lean`, re-extracted every run; theorems `table_consistent`, `order_covers`, `static_field_order`,
`non_static_classes`, `field_order_pinned` in `Props/C14Tables.lean`, `Props/C14Static.lean`).  Helper lemmas:
`Pfst/WalkLemmas.lean`, `Pfst/NavLemmas.lean`, `Pfst/SynOrderLemmas.lean`.

`p` is the `all` filter (any predicate on nodes; `checkAll m` for the four kinds of `all` values).
-/
namespace Pfst.C14
open Pfst.Walk Pfst.SynOrder

/-! ## the three stack machines equal their recursive specifications, for every tree -/

/-- `walk(all, 'enter', back=, self_=)`: the explicit-stack loop yields exactly the preorder list (children reversed at
every level when `back`) filtered by `all`; with `self_=False` without the root. -/
theorem walkEnter_preorder (p : Node → Bool) (back self_ : Bool) (t : Node) :
    walkEnter p back true self_ t = ids (((if self_ then [t] else []) ++ preL back t.kids).filter p) :=
  walkEnter_eq p back self_ t

/-- `recurse=False`: the root (if `self_`) and its direct children only. -/
theorem walkEnter_norecurse (p : Node → Bool) (back self_ : Bool) (t : Node) :
    walkEnter p back false self_ t = ids (((if self_ then [t] else []) ++ orient back t.kids).filter p) :=
  walkEnter_norec_eq p back self_ t

/-- `walk(all, 'leave')`: exactly the postorder list filtered by `all` — children before parents — for every filter,
direction and tree; with `self_=False` without the root.  (Before the repair of finding C14-F1 the root was yielded
regardless of the filter and this statement was false.) -/
theorem walkLeave_postorder (p : Node → Bool) (back self_ : Bool) (t : Node) :
    walkLeave p back true self_ t = ids ((postL back t.kids ++ (if self_ then [t] else [])).filter p) := by
  rw [walkLeave_eq]
  cases self_ <;> cases h : p t <;> simp [h, ids]

/-- with `self_=True`: the filtered postorder of the whole tree -/
theorem walkLeave_postorder_self (p : Node → Bool) (back : Bool) (t : Node) :
    walkLeave p back true true t = ids ((post back t).filter p) :=
  walkLeave_self p back t

/-- `walk(all, 'both')`: every node that passes the filter is yielded on entering and on leaving, its descendants'
yields in between (the bracketed order filtered by `all`), for every filter, direction and tree — the root included. -/
theorem walkBoth_bracket (p : Node → Bool) (back : Bool) (t : Node) :
    walkBoth p back true true t = ids2 ((brk back t).filter (fun x => p x.1)) :=
  walkBoth_self p back t

theorem walkBoth_bracket_noself (p : Node → Bool) (back : Bool) (t : Node) :
    walkBoth p back true false t = ids2 ((brkL back t.kids).filter (fun x => p x.1)) := by
  rw [walkBoth_eq]; simp

/-- `recurse=False` for the other two modes -/
theorem walkLeave_norecurse (p : Node → Bool) (back self_ : Bool) (t : Node) :
    walkLeave p back false self_ t = ids ((orient back t.kids).filter p) ++ (if self_ && p t then [t.id] else []) :=
  walkLeave_norec_eq p back self_ t

theorem walkBoth_norecurse (p : Node → Bool) (back self_ : Bool) (t : Node) :
    walkBoth p back false self_ t = (if self_ && p t then [(t.id, false)] else [])
      ++ ((orient back t.kids).flatMap (fun n => if p n then [(n.id, false), (n.id, true)] else []))
      ++ (if self_ && p t then [(t.id, true)] else []) :=
  walkBoth_norec_eq p back self_ t

/-- children before parents: the postorder is the reversed preorder of the opposite direction -/
theorem leave_is_reversed_enter (back : Bool) (t : Node) : post back t = (pre (!back) t).reverse :=
  post_eq_reverse_pre_flip back t

/-! ## every node exactly once -/

/-- `walk(all=True)` in any direction, entering or leaving, yields a permutation of the nodes of the tree; when the node
identities are distinct no node is yielded twice.  (For `on='both'`: `brk_enter_perm`, `brk_leave_perm`.) -/
theorem walk_nodup_perm (back : Bool) (t : Node) (h : (ids (pre false t)).Nodup) :
    (walkEnter (fun _ => true) back true true t).Nodup
    ∧ (walkEnter (fun _ => true) back true true t).Perm (ids (pre false t))
    ∧ (walkLeave (fun _ => true) back true true t).Nodup
    ∧ (walkLeave (fun _ => true) back true true t).Perm (ids (pre false t)) :=
  walk_nodup back t h

theorem walkBoth_each_twice (back : Bool) (t : Node) :
    (((brk back t).filter (fun x => !x.2)).map Prod.fst).Perm (pre false t)
    ∧ (((brk back t).filter (fun x => x.2)).map Prod.fst).Perm (pre false t) :=
  ⟨brk_enter_perm back t, brk_leave_perm back t⟩

/-! ## `back=True` reverses sibling order only -/

/-- The backward walk is the forward walk of the tree with every child list reversed: parents still come before their
children, only the order among siblings is reversed (at every level). -/
theorem back_sibling_only (m : AllMode) (self_ : Bool) (t : Node) :
    walkEnter (checkAll m) true true self_ t = walkEnter (checkAll m) false true self_ (mirror t) :=
  walkEnter_back_mirror m self_ t

/-! ## step_fwd / step_back reproduce the walk -/

/-- Starting at the root and applying `step_fwd(all)` until it returns None visits exactly what
`walk(all, self_=False)` yields, in the same order (the internal fuel of the model is proved sufficient on the way:
`stepFwd_spec`). -/
theorem step_iter (p : Node → Bool) (t : Node) :
    ids (iter (stepFwd p true) (size t) (stepFwd p true (rootLoc t))) = walkEnter p false true false t := by
  rw [step_iter_fwd, walkEnter_eq]; simp

/-- the same for `step_back` and `walk(all, back=True, self_=False)` -/
theorem step_iter_back (p : Node → Bool) (t : Node) :
    ids (iter (stepBack p true) (size t) (stepBack p true (rootLoc t))) = walkEnter p true true false t := by
  rw [Pfst.Walk.step_iter_back, walkEnter_eq]; simp

/-- one step: `step_fwd` returns the first node after the current one (in preorder) that passes the filter, skipping
only nodes that do not, and None only if no later node passes -/
theorem step_fwd_first (p : Node → Bool) (l : Loc) :
    FirstSat p rest (rest l) (stepFwd p true l) := stepFwd_spec p l

/-! ## next/prev, next_child/prev_child -/

/-- `next()` and `prev()` are mutually inverse on nodes that pass the filter -/
theorem next_prev_inverse (p : Node → Bool) (a b : Loc) (ha : p a.focus = true) :
    (next p a = some b → prev p b = some a) ∧ (prev p a = some b → next p b = some a) :=
  ⟨Pfst.Walk.next_prev_inverse p a b ha, Pfst.Walk.prev_next_inverse p a b ha⟩

/-- iterating `next_child` from None enumerates exactly `walk(all, recurse=False, self_=False)`; `prev_child` the
backward one -/
theorem children_agree_with_walk (p : Node → Bool) (l : Loc) :
    ids (iter (fun c => nextChild p l (some c)) l.focus.kids.length (nextChild p l none))
      = walkEnter p false false false l.focus
    ∧ ids (iter (fun c => prevChild p l (some c)) l.focus.kids.length (prevChild p l none))
      = walkEnter p true false false l.focus := by
  rw [children_fwd, children_back, walkEnter_norec_eq, walkEnter_norec_eq]
  simp [orient]

/-! ## paths -/

/-- `child_path` / `child_from_path` are inverse bijections between the nodes below `s` and the valid paths:
(1) the path of the node reached by a valid path is that path (so different valid paths reach different nodes),
(2) following the path of a reachable node leads back to it,
(3) if sibling `pfield`s are distinct every node below `s` is reached by some path.
`hid`: the identity of `s` does not recur below it. -/
theorem path_bijection (s : Loc) (hid : s.focus.id ∉ descIds s.focus) :
    (∀ π c, childFromPath s π = some c → childPath s c = some π)
    ∧ (∀ π π' c, childFromPath s π' = some c → childPath s c = some π → childFromPath s π = some c)
    ∧ (labUnique s.focus = true → ∀ n ∈ pre false s.focus, ∃ π c, childFromPath s π = some c ∧ c.focus = n) :=
  ⟨fun π c h => path_roundtrip s π c hid h,
   fun π π' c hc h => path_inverse s c c π π' hid hc h,
   fun h n hn => path_reaches_all s h n hn⟩

/-! ## the Call / ClassDef merge -/

/-- The merge of positional arguments (bases) and keywords by position is a permutation of both lists and is sorted by
start position, given that each list is sorted (CPython) and that, when the last positional argument is not starred,
all positional arguments precede all keywords (Python's syntax). -/
theorem merge_sorted (args kws : List PNode) (ha : Sorted args) (hk : Sorted kws)
    (hsep : ∀ last, args.getLast? = some last → last.star = false → ∀ a ∈ args, ∀ k ∈ kws, posLe a k) :
    Sorted (mergeArgsKws args kws) ∧ (mergeArgsKws args kws).Perm (args ++ kws) :=
  Pfst.SynOrder.merge_sorted args kws ha hk hsep

/-! ## the extracted tables (halves A and B are checked in separate modules) -/

/-- **NEXT is exactly "successor", PREV exactly "predecessor" in the syntax-ordered child list**, for every tabulated
parent shape (every node class; list lengths 0..3, optional fields present/absent, None entries in `Dict.keys` and
`arguments.kw_defaults`, every valid interleaving of ≤3 positional/starred and ≤3 keyword arguments of Call/ClassDef):
`NEXT_FUNCS[cls, None]` answers the first element of `syntax_ordered_children`, `NEXT_FUNCS[cls, field](parent, idx)` the
element after the child at (field, idx), None after the last; `PREV_FUNCS` the mirror image. -/
theorem table_consistent :
    Pfst.TableCheck.allOk Pfst.Gen.SyntaxOrder.shapesEncA Pfst.Gen.NextPrev.tablesEncA = true
    ∧ Pfst.TableCheck.allOk Pfst.Gen.SyntaxOrder.shapesEncB Pfst.Gen.NextPrev.tablesEncB = true :=
  ⟨table_consistent_A, table_consistent_B⟩

/-- `syntax_ordered_children` returns every AST child of the parent exactly once (nothing dropped, nothing twice), for
every tabulated parent shape.  The children are the `ast.AST` instances in the fields CPython's class docstring declares. -/
theorem order_covers : Pfst.Gen.SyntaxOrder.shapesEnc.all Pfst.TableCheck.coversOk = true := by
  simp only [Pfst.Gen.SyntaxOrder.shapesEnc, List.all_append, order_covers_A, order_covers_B, Bool.and_self]

/-- For every class listed in `Gen.SyntaxOrder.fieldOrder` the child list is, for every tabulated shape, the
concatenation of the field blocks in that one fixed order of fields (list fields in index order). -/
theorem static_field_order :
    Pfst.Gen.SyntaxOrder.shapesEnc.all (Pfst.TableCheck.staticOk Pfst.Gen.SyntaxOrder.fieldOrder) = true := by
  simp only [Pfst.Gen.SyntaxOrder.shapesEnc, List.all_append, static_field_order_A, static_field_order_B, Bool.and_self]

/-! ## non-vacuity -/

/-- `[a, [b, c], d]`-like tree: root 0 with kids 1, 2 (kids 3, 4), 5 -/
def ex : Node := .mk 0 0 0 0 [.mk 1 10 0 1 [], .mk 2 11 0 2 [.mk 3 10 0 1 [], .mk 4 11 1 3 []], .mk 5 12 0 1 []]

example : walkEnter (fun _ => true) false true true ex = [0, 1, 2, 3, 4, 5] := by
  rw [walkEnter_eq]; decide
example : walkEnter (fun _ => true) true true true ex = [0, 5, 2, 4, 3, 1] := by
  rw [walkEnter_eq]; decide
example : walkLeave (fun _ => true) false true true ex = [1, 3, 4, 2, 5, 0] := by
  rw [walkLeave_eq]; decide
example : walkBoth (fun _ => true) false true true ex
    = [(0, false), (1, false), (1, true), (2, false), (3, false), (3, true), (4, false), (4, true), (2, true),
       (5, false), (5, true), (0, true)] := by
  rw [walkBoth_eq]; decide
/-- the former witness of C14-F1 (`walk(Name, 'leave'|'both')` on `Module[Name]`): the root is filtered out now -/
example : walkLeave (fun n => n.kind == 1) false true true (.mk 0 0 0 0 [.mk 1 1 0 1 []]) = [1] := by
  rw [walkLeave_eq]; decide
example : walkBoth (fun n => n.kind == 1) false true true (.mk 0 0 0 0 [.mk 1 1 0 1 []]) = [(1, false), (1, true)] := by
  rw [walkBoth_eq]; decide
example : walkEnter (checkAll .dflt) false true true ex = [0, 1, 2, 3, 5] := by
  rw [walkEnter_eq]; decide
example : (ids (pre false ex)).Nodup := by decide
example : ex.id ∉ descIds ex := by decide
example : labUnique ex = true := by decide
example : (stepFwd (fun _ => true) true (rootLoc ex)).map (·.focus.id) = some 1 := by decide
example : ((childFromPath (rootLoc ex) [11, 10]).map (·.focus.id)) = some 3 := by decide
example : ((childFromPath (rootLoc ex) [11, 10]).bind (childPath (rootLoc ex))) = some [11, 10] := by decide

end Pfst.C14
