import Pfst.ReconcileLemmas
/-!
C13 — reconcile() returns a valid tree that equals the externally edited AST.

Theorems about the executable model `Pfst/Reconcile.lean` of `Reconcile.recurse_node / recurse_children / recurse_slice /
recurse_slice_dict` and the trace interpreter `applyOps` (container laws).  `result mark edited` is the structure obtained by
replaying the emitted operation trace on the structure of the marked copy.
-/
namespace Pfst.C13
open Pfst.Reconcile

/-! ### concrete trees used by the witnesses and non-vacuity examples -/

def v (n : Nat) : Val := ⟨n, n⟩
/-- `Name(id)` : kind 1, one primitive field -/
def name (o : Origin) (id : Nat) : T := .node o 1 [.prim (v id)]
/-- `Assign(target, value)` : kind 2 -/
def assign (o : Origin) (t val : T) : T := .node o 2 [t, val]
/-- `Module(body)` : kind 0, one slice-mode list field with compatibility class 0 -/
def modl (o : Origin) (body : List T) : T := .node o 0 [.many (some 0) 1 body]
def loc (pp : Path) (fi : Nat) (idx : Option Nat := none) : Origin := .tree (some ⟨pp, fi, idx⟩)

/-- marked tree `a = b ; c = d` with every node tagged in place -/
def m0 : T := modl (.tree none)
  [assign (loc [] 0 (some 0)) (name (loc [0, 0] 0) 10) (name (loc [0, 0] 1) 11),
   assign (loc [] 0 (some 1)) (name (loc [0, 1] 0) 12) (name (loc [0, 1] 1) 13)]

/-- edited: statements swapped, the value of the (old) first one replaced by a new `Name`, a new statement appended -/
def e0 : T := modl (.tree none)
  [assign (loc [] 0 (some 1)) (name (loc [0, 1] 0) 12) (name (loc [0, 1] 1) 13),
   assign (loc [] 0 (some 0)) (name (loc [0, 0] 0) 10) (name .new 99),
   assign .new (name .new 20) (name (loc [0, 0] 1) 11)]

/-! ### the trace interpreter -/

/-- Frame law of the interpreter: a trace whose operations all lie under child `i` only changes child `i`. -/
theorem frame (i : Nat) (ops : List Op) (t : T) : applyOps (preAll i ops) t = modKid i (applyOps ops) t :=
  applyOps_preAll i ops t

/-- The documented retry ("retries the operation at a higher level node"): whatever the operations emitted below a node did
before the failure, the final pure-AST put of the node leaves exactly that node's structure in the slot. -/
theorem fallback_overrides (ops : List Op) (n t : T) : applyOps (ops ++ [⟨[], .put .ast (erase n)⟩]) t = erase n :=
  applyOps_put_last ops .ast (erase n) t

/-- A verified node of another tree, and a node put under an in-tree parent, are replaced wholesale: the slot then holds the
structure of the edited node regardless of what was there. -/
theorem foreign_ok_correct (mark : T) (np : NP) (rel : Path) (outa : T) (tid : Nat) (l : Option Loc) (sig : Option Nat)
    (k : Nat) (cs : List T) :
    applyOps (recNode mark np rel outa (.node (.foreign true tid l sig) k cs)).ops outa
      = erase (.node (.foreign true tid l sig) k cs) := by
  simp [recNode, applyOps, applyOp, applyAt, applyAct, erase]

/-
FULL STATEMENT (not proved in this package; evaluated by the driver on every correspondence case as `res_ok`):

  theorem trace_correct (mark edited : T) (wf : WF mark edited) (px : PrimExact mark edited)
      (h : (reconcile mark edited).fail = false) : result mark edited = erase edited

where `WF` says that every in-tree origin names an existing node of `mark` with the same kind and field shapes, that
verified nodes of other trees are unmodified, and `PrimExact` that primitives that are `==` are identical.
Proved below: the case of a node whose fields are all scalars (`trace_correct_partial`: in place, off path, new), the
wholesale cases (`foreign_ok_correct`, `fallback_overrides`), the frame law that composes children (`frame`), and the
negation of the unconditional statement (`trace_correct_false`).  Missing: the mutual induction over
recFields / recPlain / recSliceGo / recPair that threads `cur` through the slice loop.
-/

/-- `recurse_children` on scalar fields: after the emitted `setPrim`s the fields are the edited ones, provided Python `==`
is exact on the pairs compared (`hx`) and, under a pure-AST parent, the slot already holds the edited values (`hast`). -/
theorem fields_scalar_correct (mark : T) (np : NP) (o : Origin) (k : Nat) (cs : List T) :
    ∀ (oks pre : List T), (∀ c ∈ cs, scalar c = true) → oks.length = cs.length →
    (∀ p ∈ cs.zip oks, pyNe p.1 p.2 = false → p.1 = p.2) → (np = .ast → oks = cs) →
    (recFields mark np pre.length oks cs).fail = false ∧
    applyOps (recFields mark np pre.length oks cs).ops (.node o k (pre ++ oks)) = .node o k (pre ++ cs) := by
  induction cs with
  | nil =>
    intro oks pre _ hl _ _
    cases oks with
    | nil => simp [recFields, applyOps]
    | cons a b => simp at hl
  | cons c rest ih =>
    intro oks pre hs hl hx hast
    cases oks with
    | nil => simp at hl
    | cons ok oks' =>
      have hc : scalar c = true := hs c (by simp)
      have hrest : ∀ c ∈ rest, scalar c = true := fun x hx' => hs x (by simp [hx'])
      have hl' : oks'.length = rest.length := by simpa using hl
      have hx' : ∀ p ∈ rest.zip oks', pyNe p.1 p.2 = false → p.1 = p.2 := fun p hp => hx p (by simp [hp])
      have hast' : np = .ast → oks' = rest := fun h => by have := hast h; simp at this; exact this.2
      have hhead : pyNe c ok = false → c = ok := hx (c, ok) (by simp)
      have ih' := ih oks' (pre ++ [c]) hrest hl' hx' hast'
      simp only [List.length_append, List.length_cons, List.length_nil, List.append_assoc, List.cons_append,
        List.nil_append, Nat.zero_add] at ih'
      obtain ⟨ihf, iha⟩ := ih'
      rw [recFields_scalar_step mark np pre.length ok c oks' rest hc]
      refine ⟨ihf, ?_⟩
      simp only [applyOps_append, applyOps_preAll, modKid_node_at]
      have hval : applyOps (if (np != .ast && pyNe c ok) = true then [⟨[], .setPrim c⟩] else []) ok = c := by
        by_cases hput : (np != .ast && pyNe c ok) = true
        · simp [hput, applyOps, applyOp, applyAt, applyAct]
        · simp only [hput, if_false, Bool.false_eq_true, applyOps]
          simp only [Bool.and_eq_true, bne_iff_ne, ne_eq, not_and, Bool.not_eq_true] at hput
          by_cases hnp : np = .ast
          · have := hast hnp; simp at this; exact this.1
          · exact (hhead (hput hnp)).symm
      rw [hval]; exact iha

/-- PARTIAL form of `trace_correct` (full statement above): an in-tree node in place whose fields are all scalars
(identifiers, constants, operators' absence, `None`).  Replaying the emitted trace on what the output tree holds at the slot
(`.node .new k ocs`, the marked node) yields exactly the edited node, when Python `==` is exact on the compared pairs. -/
theorem trace_correct_partial (mark : T) (np : NP) (rel : Path) (l : Option Loc) (k : Nat) (cs ocs : List T)
    (hin : inPlace np rel l = true) (hs : ∀ c ∈ cs, scalar c = true) (hl : ocs.length = cs.length)
    (hx : ∀ p ∈ cs.zip ocs, pyNe p.1 p.2 = false → p.1 = p.2) :
    applyOps (recNode mark np rel (.node .new k ocs) (.node (.tree l) k cs)).ops (.node .new k ocs) = .node .new k cs := by
  have h := fields_scalar_correct mark (.fst 0 (qOf l)) .new k cs ocs [] hs hl hx (by intro h; cases h)
  simp only [List.length_nil, List.nil_append] at h
  obtain ⟨hf, ha⟩ := h
  simp only [recNode, hin, Bool.not_true, T.isNode, T.kids, hf, if_false, Bool.false_eq_true, List.nil_append]
  exact ha

/-- `trace_correct` WITHOUT the exactness hypothesis is false of the code: `1 -> True` (same `==` class, other identity)
emits no operation and the result keeps the old constant (finding C13-F1). -/
theorem trace_correct_false :
    ∃ mark edited : T, (reconcile mark edited).fail = false ∧ reconcileOps mark edited = [] ∧
      result mark edited ≠ erase edited := by
  refine ⟨.node (.tree none) 1 [.prim ⟨0, 0⟩], .node (.tree none) 1 [.prim ⟨0, 1⟩], by rfl, by rfl, ?_⟩
  have h : result (.node (.tree none) 1 [.prim ⟨0, 0⟩]) (.node (.tree none) 1 [.prim ⟨0, 1⟩]) = .node .new 1 [.prim ⟨0, 0⟩] := by rfl
  rw [h]
  simp [erase, eraseL]

theorem pyNe_self (c : T) (h : scalar c = true) : pyNe c c = false := by
  cases c <;> simp_all [scalar, pyNe]

theorem fields_scalar_silent (mark : T) (np : NP) (cs : List T) :
    ∀ fi, (∀ c ∈ cs, scalar c = true) → recFields mark np fi cs cs = ⟨[], false⟩ := by
  induction cs with
  | nil => intro fi _; simp [recFields]
  | cons c rest ih =>
    intro fi hs
    have hc : scalar c = true := hs c (by simp)
    rw [recFields_scalar_step mark np fi c c rest rest hc, ih (fi + 1) (fun x hx => hs x (by simp [hx]))]
    simp [pyNe_self c hc, preAll]

/-- PARTIAL form of `untouched_kept` / `no_change` at a node: an in-tree node in place whose (scalar) fields are what the
output tree already holds emits NO operation and cannot fail; the full statements (whole unchanged subtrees, absence of
covering slice operations in the ancestors) are in the comment below. -/
theorem untouched_silent (mark : T) (np : NP) (rel : Path) (l : Option Loc) (k : Nat) (cs : List T)
    (hin : inPlace np rel l = true) (hs : ∀ c ∈ cs, scalar c = true) :
    recNode mark np rel (.node .new k cs) (.node (.tree l) k cs) = ⟨[], false⟩ := by
  simp [recNode, hin, T.isNode, T.kids, fields_scalar_silent mark (.fst 0 (qOf l)) cs 0 hs]

/-
FULL STATEMENTS (not proved; the first is exercised on every run by the `nochange` cases of the harness, where the model
trace is compared with the real one and the source must be identical):

  theorem no_change (mark : T) (h : NoScalarElems mark) : reconcileOps mark (tagInPlace mark) = []
  theorem untouched_kept (mark edited : T) (p : Path) : all ancestors of `p` in place ∧ subtree at `p` = tagged mark subtree →
      ∀ op ∈ reconcileOps mark edited, ¬ covers op p

`no_change` without `NoScalarElems` is false of the code: `None` / `str` elements of list fields under an in-tree parent
(`Global.names`, `arguments.kw_defaults`) are re-put on every reconcile (`no_change_false`).
-/

/-- `global a` unchanged: the trace is not empty (the identifier is put again; harmless for the source, observed in the real
trace as `put('a', 0, None, 'names')`). -/
theorem no_change_false :
    ∃ mark : T, reconcileOps mark mark ≠ [] := by
  refine ⟨.node (.tree none) 5 [.many none 1 [.prim ⟨3, 3⟩]], ?_⟩
  have h : (reconcileOps (.node (.tree none) 5 [.many none 1 [.prim ⟨3, 3⟩]])
      (.node (.tree none) 5 [.many none 1 [.prim ⟨3, 3⟩]])).length = 1 := by rfl
  intro h2; rw [h2] at h; simp at h

/-- Rounds: the tree returned by one round is the marked copy of the next.  If every round replays to its edited structure
(the conclusion of `trace_correct` for that round) then after any number of mark / mutate / reconcile rounds the structure
is that of the last edited tree; with no round it is the initial structure. -/
def runRounds : T → List T → T
  | m, [] => erase m
  | m, e :: es => runRounds (result m e) es

/-- every round meets the hypotheses `ok` of `trace_correct` against the tree returned by the previous round -/
def roundsOK (ok : T → T → Prop) : T → List T → Prop
  | _, [] => True
  | m, e :: es => ok m e ∧ roundsOK ok (result m e) es

theorem rounds (ok : T → T → Prop) (hok : ∀ m e, ok m e → result m e = erase e) :
    ∀ (es : List T) (m : T), roundsOK ok m es → runRounds m es = erase (es.getLastD m) := by
  intro es
  induction es with
  | nil => intro m _; rfl
  | cons e rest ih =>
    intro m h
    obtain ⟨h0, hr⟩ := h
    have h1 := ih (result m e) hr
    cases rest with
    | nil => simp [runRounds, hok m e h0, erase_erase]
    | cons e2 r2 =>
      have hg : ∀ x y : T, (e2 :: r2).getLastD x = (e2 :: r2).getLastD y := by
        intro x y; simp [List.getLastD]
      simp only [runRounds] at h1 ⊢
      rw [h1]
      have : (e :: e2 :: r2).getLastD m = (e2 :: r2).getLastD (result m e) := by
        simp [List.getLastD]
      rw [this]

/-! ### non-vacuity -/

/-- the swap / replace / append script on `a = b ; c = d` replays to the edited structure -/
example : (reconcile m0 e0).fail = false ∧ beq (result m0 e0) (erase e0) = true := by decide

/-- its trace has eight operations: slice-put + re-put of each moved statement, the new value, the appended statement -/
example : (reconcileOps m0 e0).length = 8 := by decide

/-- the hypotheses of `trace_correct_partial` are met by a renamed identifier -/
example : applyOps (recNode m0 (.fst 0 [0, 0]) [0] (name .new 10) (name (loc [0, 0] 0) 77)).ops (name .new 10) = name .new 77 :=
  trace_correct_partial m0 (.fst 0 [0, 0]) [0] _ 1 [.prim (v 77)] [.prim (v 10)] (by rfl) (by simp [scalar]) rfl
    (by simp [pyNe, v])

/-- unchanged tree: empty trace -/
example : reconcileOps m0 m0 = [] := by decide

end Pfst.C13
