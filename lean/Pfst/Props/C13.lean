import Pfst.ReconcileKept
/-!
C13 — reconcile() returns a valid tree that equals the externally edited AST.

Theorems about the executable model `Pfst/Reconcile.lean` of `Reconcile.recurse_node / recurse_children / recurse_slice /
recurse_slice_dict` and the trace interpreter `applyOps` (container laws).  `result mark edited` is the structure obtained by
replaying the emitted operation trace on the structure of the marked copy.
-/
namespace Pfst.C13
open Pfst.Reconcile

/-! ### concrete trees used by the witnesses and non-vacuity examples -/

def v (n : Nat) : Val := ⟨n, n⟩
/-- `Name(id)` : kind 1, one primitive field -/
def name (o : Origin) (id : Nat) : T := .node o 1 [.prim (v id)]
/-- `Assign(target, value)` : kind 2 -/
def assign (o : Origin) (t val : T) : T := .node o 2 [t, val]
/-- `Module(body)` : kind 0, one slice-mode list field with compatibility class 0 -/
def modl (o : Origin) (body : List T) : T := .node o 0 [.many (some 0) 1 body]
def loc (pp : Path) (fi : Nat) (idx : Option Nat := none) : Origin := .tree (some ⟨pp, fi, idx⟩)

/-- marked tree `a = b ; c = d` with every node tagged in place -/
def m0 : T := modl (.tree none)
  [assign (loc [] 0 (some 0)) (name (loc [0, 0] 0) 10) (name (loc [0, 0] 1) 11),
   assign (loc [] 0 (some 1)) (name (loc [0, 1] 0) 12) (name (loc [0, 1] 1) 13)]

/-- edited: statements swapped, the value of the (old) first one replaced by a new `Name`, a new statement appended -/
def e0 : T := modl (.tree none)
  [assign (loc [] 0 (some 1)) (name (loc [0, 1] 0) 12) (name (loc [0, 1] 1) 13),
   assign (loc [] 0 (some 0)) (name (loc [0, 0] 0) 10) (name .new 99),
   assign .new (name .new 20) (name (loc [0, 0] 1) 11)]

/-! ### the trace interpreter -/

/-- Frame law of the interpreter: a trace whose operations all lie under child `i` only changes child `i`. -/
theorem frame (i : Nat) (ops : List Op) (t : T) : applyOps (preAll i ops) t = modKid i (applyOps ops) t :=
  applyOps_preAll i ops t

/-- The documented retry ("retries the operation at a higher level node"): whatever the operations emitted below a node did
before the failure, the final pure-AST put of the node leaves exactly that node's structure in the slot. -/
theorem fallback_overrides (ops : List Op) (n t : T) : applyOps (ops ++ [⟨[], .put .ast (erase n)⟩]) t = erase n :=
  applyOps_put_last ops .ast (erase n) t

/-- A verified node of another tree, and a node put under an in-tree parent, are replaced wholesale: the slot then holds the
structure of the edited node regardless of what was there. -/
theorem foreign_ok_correct (mark : T) (np : NP) (rel : Path) (outa : T) (tid : Nat) (l : Option Loc) (sig : Option Nat)
    (k : Nat) (cs : List T) :
    applyOps (recNode mark np rel outa (.node (.foreign true tid l sig) k cs)).ops outa
      = erase (.node (.foreign true tid l sig) k cs) := by
  simp [recNode, applyOps, applyOp, applyAt, applyAct, erase]

/-
STATUS of `trace_correct`: proved below (section "the full theorems") for every pair of trees meeting the decidable side
condition `wfN mark edited` (defined in `Pfst/Reconcile.lean`, evaluated by the driver on every case as `wf`): every
in-tree origin names a node of the marked tree of the same kind and field shapes, tree ids of other trees are `≠ 0`,
list elements are not lists, and the
`pair` pseudo nodes of a `Dict` (mode 2) have one kind, a key that is a node or `None`, and an origin consistent with key and
value (`wfPs` / `pairCons`: what `recurse_slice_dict` reads off `values[i].f` and `keys[i].f`).
The earlier partial results are kept: the case of a node whose fields are all scalars (`trace_correct_partial`), the
wholesale cases (`foreign_ok_correct`, `fallback_overrides`), the frame law (`frame`).  Since the repair of finding F1
(`recurse_children` compares value AND type) no hypothesis about primitives is left: the comparison is exact (`pyNe_exact`)
and the former counterexample `1 -> True` is an instance of the theorem (`conflation_seen`).
-/

/-- `recurse_children` on scalar fields: after the emitted `setPrim`s the fields are the edited ones, provided Python `==`
is exact on the pairs compared (`hx`) and, under a pure-AST parent, the slot already holds the edited values (`hast`). -/
theorem fields_scalar_correct (mark : T) (np : NP) (o : Origin) (k : Nat) (cs : List T) :
    ∀ (oks pre : List T), (∀ c ∈ cs, scalar c = true) → oks.length = cs.length →
    (∀ p ∈ cs.zip oks, pyNe p.1 p.2 = false → p.1 = p.2) → (np = .ast → oks = cs) →
    (recFields mark np pre.length oks cs).fail = false ∧
    applyOps (recFields mark np pre.length oks cs).ops (.node o k (pre ++ oks)) = .node o k (pre ++ cs) := by
  induction cs with
  | nil =>
    intro oks pre _ hl _ _
    cases oks with
    | nil => simp [recFields, applyOps]
    | cons a b => simp at hl
  | cons c rest ih =>
    intro oks pre hs hl hx hast
    cases oks with
    | nil => simp at hl
    | cons ok oks' =>
      have hc : scalar c = true := hs c (by simp)
      have hrest : ∀ c ∈ rest, scalar c = true := fun x hx' => hs x (by simp [hx'])
      have hl' : oks'.length = rest.length := by simpa using hl
      have hx' : ∀ p ∈ rest.zip oks', pyNe p.1 p.2 = false → p.1 = p.2 := fun p hp => hx p (by simp [hp])
      have hast' : np = .ast → oks' = rest := fun h => by have := hast h; simp at this; exact this.2
      have hhead : pyNe c ok = false → c = ok := hx (c, ok) (by simp)
      have ih' := ih oks' (pre ++ [c]) hrest hl' hx' hast'
      simp only [List.length_append, List.length_cons, List.length_nil, List.append_assoc, List.cons_append,
        List.nil_append, Nat.zero_add] at ih'
      obtain ⟨ihf, iha⟩ := ih'
      rw [recFields_scalar_step mark np pre.length ok c oks' rest hc]
      refine ⟨ihf, ?_⟩
      simp only [applyOps_append, applyOps_preAll, modKid_node_at]
      have hval : applyOps (if (np != .ast && pyNe c ok) = true then [⟨[], .setPrim c⟩] else []) ok = c := by
        by_cases hput : (np != .ast && pyNe c ok) = true
        · simp [hput, applyOps, applyOp, applyAt, applyAct]
        · simp only [hput, if_false, Bool.false_eq_true, applyOps]
          simp only [Bool.and_eq_true, bne_iff_ne, ne_eq, not_and, Bool.not_eq_true] at hput
          by_cases hnp : np = .ast
          · have := hast hnp; simp at this; exact this.1
          · exact (hhead (hput hnp)).symm
      rw [hval]; exact iha

/-- PARTIAL form of `trace_correct` (full statement above): an in-tree node in place whose fields are all scalars
(identifiers, constants, operators' absence, `None`).  Replaying the emitted trace on what the output tree holds at the slot
(`.node .new k ocs`, the marked node) yields exactly the edited node, when Python `==` is exact on the compared pairs. -/
theorem trace_correct_partial (mark : T) (np : NP) (rel : Path) (l : Option Loc) (k : Nat) (cs ocs : List T)
    (hin : inPlace np rel l = true) (hs : ∀ c ∈ cs, scalar c = true) (hl : ocs.length = cs.length)
    (hx : ∀ p ∈ cs.zip ocs, pyNe p.1 p.2 = false → p.1 = p.2) :
    applyOps (recNode mark np rel (.node .new k ocs) (.node (.tree l) k cs)).ops (.node .new k ocs) = .node .new k cs := by
  have h := fields_scalar_correct mark (.fst 0 (qOf l)) .new k cs ocs [] hs hl hx (by intro h; cases h)
  simp only [List.length_nil, List.nil_append] at h
  obtain ⟨hf, ha⟩ := h
  simp only [recNode, hin, Bool.not_true, T.isNode, T.kids, hf, if_false, Bool.false_eq_true, List.nil_append]
  exact ha

/-- The repaired comparison `child != o or child.__class__ is not o.__class__` is exact: a scalar that does not differ from
what the output tree holds IS what the output tree holds.  (Before the repair this was the hypothesis `primOK` of
`trace_correct`, false for `1` / `True` / `1.0`: finding C13-F1.) -/
theorem pyNe_exact (c ok : T) (hsc : scalar c = true) (h : pyNe c ok = false) : c = ok :=
  pyNe_false_eq c ok hsc h

theorem pyNe_self (c : T) (h : scalar c = true) : pyNe c c = false := by
  cases c <;> simp_all [scalar, pyNe]

theorem fields_scalar_silent (mark : T) (np : NP) (cs : List T) :
    ∀ fi, (∀ c ∈ cs, scalar c = true) → recFields mark np fi cs cs = ⟨[], false⟩ := by
  induction cs with
  | nil => intro fi _; simp [recFields]
  | cons c rest ih =>
    intro fi hs
    have hc : scalar c = true := hs c (by simp)
    rw [recFields_scalar_step mark np fi c c rest rest hc, ih (fi + 1) (fun x hx => hs x (by simp [hx]))]
    simp [pyNe_self c hc, preAll]

/-- PARTIAL form of `untouched_kept` / `no_change` at a node: an in-tree node in place whose (scalar) fields are what the
output tree already holds emits NO operation and cannot fail; the full statements (whole unchanged subtrees, absence of
covering slice operations in the ancestors) are in the comment below. -/
theorem untouched_silent (mark : T) (np : NP) (rel : Path) (l : Option Loc) (k : Nat) (cs : List T)
    (hin : inPlace np rel l = true) (hs : ∀ c ∈ cs, scalar c = true) :
    recNode mark np rel (.node .new k cs) (.node (.tree l) k cs) = ⟨[], false⟩ := by
  simp [recNode, hin, T.isNode, T.kids, fields_scalar_silent mark (.fst 0 (qOf l)) cs 0 hs]

/-
STATUS of `no_change` / `untouched_kept`: proved below (section "the full theorems") with the decidable predicates
`stillN` (subtree in place and unchanged), `keptN` and `touches` (all defined in `Pfst/Reconcile.lean`; proofs in
`Pfst/ReconcileQuiet.lean`, `Pfst/ReconcileKept.lean`).
Since the repair of finding F8 (`recurse_node` leaves an unchanged `None` / identifier list element alone) `stillN` covers
list fields holding scalars too (`Global.names`, `arguments.kw_defaults`): see `no_change_scalar_elems` below.
-/

/-- Rounds: the tree returned by one round is the marked copy of the next.  If every round replays to its edited structure
(the conclusion of `trace_correct` for that round) then after any number of mark / mutate / reconcile rounds the structure
is that of the last edited tree; with no round it is the initial structure. -/
def runRounds : T → List T → T
  | m, [] => erase m
  | m, e :: es => runRounds (result m e) es

/-- every round meets the hypotheses `ok` of `trace_correct` against the tree returned by the previous round -/
def roundsOK (ok : T → T → Prop) : T → List T → Prop
  | _, [] => True
  | m, e :: es => ok m e ∧ roundsOK ok (result m e) es

theorem rounds (ok : T → T → Prop) (hok : ∀ m e, ok m e → result m e = erase e) :
    ∀ (es : List T) (m : T), roundsOK ok m es → runRounds m es = erase (es.getLastD m) := by
  intro es
  induction es with
  | nil => intro m _; rfl
  | cons e rest ih =>
    intro m h
    obtain ⟨h0, hr⟩ := h
    have h1 := ih (result m e) hr
    cases rest with
    | nil => simp [runRounds, hok m e h0, erase_erase]
    | cons e2 r2 =>
      have hg : ∀ x y : T, (e2 :: r2).getLastD x = (e2 :: r2).getLastD y := by
        intro x y; simp [List.getLastD]
      simp only [runRounds] at h1 ⊢
      rw [h1]
      have : (e :: e2 :: r2).getLastD m = (e2 :: r2).getLastD (result m e) := by
        simp [List.getLastD]
      rw [this]

/-! ### the full theorems -/

/-- TARGET 1, `recurse_node` at any slot, every origin case (in place / off path / verified node of another tree /
unverified node of another tree / pure AST, incl. the `except → put_node` fallback): if the node meets the side conditions
and the output tree holds at the slot either anything (when the node is put first) or what the parent recursion left there
(`slot`: the marked node under an in-tree parent, the edited node under a parent that was put as a pure AST), then replaying
the emitted operations on the slot content gives exactly the structure of the edited node, unless the exception propagates
(`fail`). -/
theorem node_correct (mark n : T) (np : NP) (rel : Path) (outa : T) (wf : wfN mark n = true)
    (hs : putsFirst np rel n = true ∨ slot mark np rel outa n) (h : (recNode mark np rel outa n).fail = false) :
    applyOps (recNode mark np rel outa n).ops outa = erase n :=
  recNode_ok mark n np rel outa wf hs h

/-- an in-tree node never lets the exception out (`except (NodeError, SyntaxError, ValueError, NotImplementedError)`) -/
theorem intree_never_fails (mark : T) (np : NP) (rel : Path) (outa : T) (l : Option Loc) (k : Nat) (cs : List T) :
    (recNode mark np rel outa (.node (.tree l) k cs)).fail = false := by
  rw [recNode_tree]
  simp only []
  repeat' split
  all_goals rfl

/-- TARGET 1, `recurse_children` over an arbitrary field list (fields `pre.length …` of a node whose earlier fields are
already done): scalar fields, node fields, slice fields, one-by-one list fields. -/
theorem children_correct (mark : T) (fs : List T) (np : NP) (oks pre : List T) (o : Origin) (k : Nat)
    (wf : wfFs mark fs = true) (hnn : np ≠ .none) (hs : fieldSlots mark np pre.length oks fs)
    (h : (recFields mark np pre.length oks fs).fail = false) :
    applyOps (recFields mark np pre.length oks fs).ops (.node o k (pre ++ oks)) = .node o k (pre ++ eraseL fs) :=
  recFields_ok mark fs np pre.length oks pre o k wf hnn rfl hs h

/-- TARGET 1, `recurse_slice` on a list field of ANY length under an in-tree parent (`q` its path in the marked tree, `fi`
the field): first-element condition, contiguous-run detection (runs copied from the marked tree, verified runs of another
tree put as one slice, unverified runs element by element), insertion past the end, tail deletion.  The output list
initially holds the marked elements `mitems`; after the trace it holds the edited ones. -/
theorem slice_correct (mark : T) (q : Path) (fi : Nat) (s : Option Nat) (mitems items : List T)
    (hm : markAt mark (q ++ [fi]) = .many s 1 mitems) (wf : wfEs mark items = true)
    (h : (recSliceGo mark (.fst 0 q) fi s false 0 {} (eraseL mitems) items).fail = false) :
    applyOps (recSliceGo mark (.fst 0 q) fi s false 0 {} (eraseL mitems) items).ops (.many s 1 (eraseL mitems))
      = .many s 1 (eraseL items) := by
  have hk : (markAt mark (q ++ [fi])).kids = mitems := by rw [hm]; rfl
  have hsl := elemSlots_mark mark q fi items 0 wf
  rw [hk, List.drop_zero] at hsl
  have hsi : SI (.fst 0 q) fi 0 {} (eraseL mitems) items (eraseL mitems) 0 := by simp [SI, runFree]
  have := recSlice_ok mark items (.fst 0 q) fi s false 0 0 {} (eraseL mitems) [] (eraseL mitems) 0 s 1 (by simpa using wf)
    (by simp) rfl hsl hsi (by simp) h
  simpa using this

/-- `recurse_slice` under a parent that was put as a pure AST (or is an unverified node of another tree): the output list
already holds the edited elements; the operations emitted (formatting copies of in-tree and foreign runs) leave that
structure in place. -/
theorem slice_correct_ast (mark : T) (np : NP) (hb : np.base = none) (fi : Nat) (s ns : Option Nat) (items : List T)
    (wf : wfEs mark items = true) (h : (recSliceGo mark np fi ns false 0 {} (eraseL items) items).fail = false) :
    applyOps (recSliceGo mark np fi ns false 0 {} (eraseL items) items).ops (.many s 1 (eraseL items))
      = .many s 1 (eraseL items) := by
  have hsi : SI np fi 0 {} (eraseL items) items (eraseL items) 0 := by simp [SI, runFree]
  have hnn : np ≠ .none := by intro e; subst e; simp [NP.base] at hb
  have := recSlice_ok mark items np fi ns false 0 0 {} (eraseL items) [] (eraseL items) 0 s 1 (by simpa using wf) hnn rfl
    (elemSlots_self mark np fi false hb items 0) hsi (by simp) h
  simpa using this

/-- TARGET 1, `recurse_slice_dict` on a `Dict` of ANY length under an in-tree parent: the elements are `pair [key, value]`
pseudo nodes of kind `pk` whose origin is consistent with key and value (`wfPs`), the marked `Dict` holds pairs of the same
kind (`allShaped`).  Same loop as `recurse_slice`; per pair `recurse_node` on the key (or `put(None)` of a removed key) and on
the value. -/
theorem dict_correct (mark : T) (q : Path) (fi : Nat) (s : Option Nat) (pk : Nat) (mitems items : List T)
    (hm : markAt mark (q ++ [fi]) = .many s 2 mitems) (hms : allShaped pk mitems = true) (wf : wfPs mark pk items = true)
    (h : (recSliceGo mark (.fst 0 q) fi s true 0 {} (eraseL mitems) items).fail = false) :
    applyOps (recSliceGo mark (.fst 0 q) fi s true 0 {} (eraseL mitems) items).ops (.many s 2 (eraseL mitems))
      = .many s 2 (eraseL items) := by
  have hk : (markAt mark (q ++ [fi])).kids = mitems := by rw [hm]; rfl
  have hsl := elemSlotsD_mark mark q fi pk items 0 wf
  rw [hk, List.drop_zero] at hsl
  have hsi : SI (.fst 0 q) fi 0 {} (eraseL mitems) items (eraseL mitems) 0 := by simp [SI, runFree]
  have := recSlice_ok mark items (.fst 0 q) fi s true pk 0 {} (eraseL mitems) [] (eraseL mitems) 0 s 2 (by simpa using wf)
    (by simp) rfl hsl hsi (fun _ _ => allE_eraseL pk mitems (allShaped_mem pk mitems hms)) h
  simpa using this

/-- TARGET 1, `trace_correct`: for every pair of trees meeting `wfN` (see the STATUS comment above), if the exception does
not leave `reconcile()`, replaying the operation trace on the structure of the marked copy yields exactly the structure of
the edited tree.  For an in-tree root the `fail` hypothesis always holds (`intree_never_fails`).  `wfN` says nothing about primitive values any more
(repair of F1): every pair of trees the serialiser produces from AST classes with fixed `_fields` meets it. -/
theorem trace_correct (mark edited : T) (wf : wfN mark edited = true) (h : (reconcile mark edited).fail = false) :
    result mark edited = erase edited :=
  recNode_ok mark edited .none [] (erase mark) wf (Or.inr (by simp [slot, NP.base, markAt_nil])) h

/-- `rounds` instantiated with `trace_correct`: any number of mark / mutate / reconcile rounds each meeting the side
conditions ends in the structure of the last edited tree. -/
theorem rounds_correct (es : List T) (m : T)
    (h : roundsOK (fun m e => wfN m e = true ∧ (reconcile m e).fail = false) m es) :
    runRounds m es = erase (es.getLastD m) :=
  rounds _ (fun m e hme => trace_correct m e hme.1 hme.2) es m h

/-- TARGET 2 at any slot (full form of `untouched_silent`): a subtree all of whose nodes are in place, whose scalars are
`==` to the marked ones and whose list fields have the marked lengths and hold nodes only (`stillN`) emits NO operation
and cannot fail, when the slot holds what the parent recursion left there. -/
theorem untouched_silent_full (mark n : T) (np : NP) (rel : Path) (outa : T) (hst : stillN mark np rel n = true)
    (hs : slot mark np rel outa n) : recNode mark np rel outa n = ⟨[], false⟩ :=
  recNode_quiet mark n np rel outa hst hs

/-- TARGET 2, `no_change`: the edited tree is the marked tree with every node in place and primitives `==` to the marked
ones, outside the documented re-put quirks (`stillN`: list fields hold nodes only — no `Global` / `Nonlocal` names list, no
`None` in `kw_defaults`; `Dict` pairs in place with key and value in place or `None` over `None`): the trace is empty and
nothing is raised, so the returned tree is the untouched copy of the marked tree. -/
theorem no_change (mark edited : T) (h : stillN mark .none [] edited = true) : reconcile mark edited = ⟨[], false⟩ :=
  recNode_quiet mark edited .none [] (erase mark) h (by simp [slot, NP.base, markAt_nil])

theorem no_change_ops (mark edited : T) (h : stillN mark .none [] edited = true) : reconcileOps mark edited = [] := by
  simp [reconcileOps, no_change mark edited h]

/-- TARGET 3, `untouched_kept`: `p` is a path (field index, then element index for list fields) from the root to a subtree
that is unchanged (`stillN`), every node on the way is in place, no retry-at-parent fallback fires at it and no list on the
way is a `Dict` (`keptN`; a `Dict` may occur anywhere else, also inside the untouched subtree), and
the edited tree meets the side conditions.  Then every operation of the trace is disjoint from that subtree: no `put` /
`setPrim` at it, above it or inside it, no slice put whose replaced range contains the element on the path, no tail
deletion from at or before it (`touches`, region of an operation = the path prefix it rewrites). -/
theorem untouched_kept (mark edited : T) (p : Path) (wf : wfN mark edited = true)
    (hk : keptN mark p .none [] edited = true) : ∀ op ∈ reconcileOps mark edited, touches op p = false :=
  kept_node mark p edited .none [] (erase mark) wf hk (by simp [slot, NP.base, markAt_nil])

/-! ### non-vacuity -/

/-- the swap / replace / append script on `a = b ; c = d` replays to the edited structure -/
example : (reconcile m0 e0).fail = false ∧ beq (result m0 e0) (erase e0) = true := by decide

/-- its trace has eight operations: slice-put + re-put of each moved statement, the new value, the appended statement -/
example : (reconcileOps m0 e0).length = 8 := by decide

/-- the hypotheses of `trace_correct_partial` are met by a renamed identifier -/
example : applyOps (recNode m0 (.fst 0 [0, 0]) [0] (name .new 10) (name (loc [0, 0] 0) 77)).ops (name .new 10) = name .new 77 :=
  trace_correct_partial m0 (.fst 0 [0, 0]) [0] _ 1 [.prim (v 77)] [.prim (v 10)] (by rfl) (by simp [scalar]) rfl
    (by simp [pyNe, v])

/-- unchanged tree: empty trace -/
example : reconcileOps m0 m0 = [] := by decide


/-! ### non-vacuity of the full theorems -/

/-- statement `i` of the three-statement marked body: `t_i = v_i`, every node tagged in place -/
def st (i : Nat) : T := assign (loc [] 0 (some i)) (name (loc [0, i] 0) (10 + 2 * i)) (name (loc [0, i] 1) (11 + 2 * i))
/-- marked tree `a = b ; c = d ; e = f` -/
def m3 : T := modl (.tree none) [st 0, st 1, st 2]
def newSt (n : Nat) : T := assign .new (name .new n) (name .new (n + 1))

/-- reorder + insert + delete: `e = f ; NEW ; a = b` (the second statement is deleted) -/
def e3 : T := modl (.tree none) [st 2, newSt 40, st 0]
example : wfN m3 e3 = true ∧ (reconcile m3 e3).fail = false ∧ (reconcileOps m3 e3).length = 5 := by decide
example : result m3 e3 = erase e3 := trace_correct m3 e3 (by decide) (by decide)

/-- insertion past the end and a contiguous run moved as one slice: `c = d ; e = f ; a = b ; NEW ; NEW` -/
def e3x : T := modl (.tree none) [st 1, st 2, st 0, newSt 40, newSt 50]
example : wfN m3 e3x = true ∧ (reconcileOps m3 e3x).length = 9 := by decide +kernel
example : result m3 e3x = erase e3x := trace_correct m3 e3x (by decide +kernel) (by decide +kernel)

/-- tail deletion after a moved statement: `c = d` alone -/
def e3d : T := modl (.tree none) [st 1]
example : wfN m3 e3d = true ∧ (reconcileOps m3 e3d).length = 3 := by decide
example : result m3 e3d = erase e3d := trace_correct m3 e3d (by decide) (by decide)

/-- a moved (duplicated) node: the value of the second statement is put as the value of the first -/
def eMv : T := modl (.tree none)
  [assign (loc [] 0 (some 0)) (name (loc [0, 0] 0) 10) (name (loc [0, 1] 1) 13), st 1, st 2]
example : wfN m3 eMv = true ∧ (reconcileOps m3 eMv).length = 1 := by decide
example : result m3 eMv = erase eMv := trace_correct m3 eMv (by decide) (by decide)

/-- nodes of another tree: a verified `Name` as the value of the second statement; the third statement replaced by an
unverified statement of tree 1 that contains a node of the marked tree and a renamed identifier -/
def eFo : T := modl (.tree none)
  [st 0,
   assign (loc [] 0 (some 1)) (name (loc [0, 1] 0) 12) (.node (.foreign true 1 (some ⟨[0, 0], 1, none⟩) none) 1 [.prim (v 50)]),
   .node (.foreign false 1 (some ⟨[], 0, some 0⟩) (some 0)) 2
     [.node (.foreign false 1 (some ⟨[0, 0], 0, none⟩) none) 1 [.prim (v 60)], name (loc [0, 0] 1) 11]]
example : wfN m3 eFo = true ∧ (reconcileOps m3 eFo).length = 4 := by decide
example : result m3 eFo = erase eFo := trace_correct m3 eFo (by decide) (by decide)

/-- the hypotheses of `slice_correct` on the body of `e3` -/
example : applyOps (recSliceGo m3 (.fst 0 []) 0 (some 0) false 0 {} (eraseL [st 0, st 1, st 2]) [st 2, newSt 40, st 0]).ops
      (.many (some 0) 1 (eraseL [st 0, st 1, st 2])) = .many (some 0) 1 (eraseL [st 2, newSt 40, st 0]) :=
  slice_correct m3 [] 0 (some 0) [st 0, st 1, st 2] [st 2, newSt 40, st 0] (by rfl) (by decide) (by decide)

/-- the former witness of `trace_correct_false` (`1 -> True`: same `==` class, other type) is now inside `wfN`, the change
is seen (one `setPrim`) and the trace replays to the edited tree -/
theorem conflation_seen :
    wfN (.node (.tree none) 1 [.prim ⟨0, 0⟩]) (.node (.tree none) 1 [.prim ⟨0, 1⟩]) = true ∧
    (reconcileOps (.node (.tree none) 1 [.prim ⟨0, 0⟩]) (.node (.tree none) 1 [.prim ⟨0, 1⟩])).length = 1 ∧
    result (.node (.tree none) 1 [.prim ⟨0, 0⟩]) (.node (.tree none) 1 [.prim ⟨0, 1⟩])
      = erase (.node (.tree none) 1 [.prim ⟨0, 1⟩]) :=
  ⟨by decide, by decide, trace_correct _ _ (by decide) (by decide)⟩

/-- `no_change`: the marked tree itself (tagged in place) -/
example : stillN m3 .none [] m3 = true := by decide
example : reconcile m3 m3 = ⟨[], false⟩ := no_change m3 m3 (by decide)
/-- a copy whose identifier is `==` but not identical is NOT unchanged any more: one `setPrim` -/
example : (reconcileOps m3 (modl (.tree none) [assign (loc [] 0 (some 0)) (name (loc [0, 0] 0) 10)
      (.node (loc [0, 0] 1) 1 [.prim ⟨11, 77⟩]), st 1, st 2])).length = 1 := by decide
/-- `global a` unchanged (a list field holding an identifier): covered by `stillN` since the repair of F8, empty trace
(before: one re-put per element, `no_change_false`) -/
theorem no_change_scalar_elems :
    reconcile (.node (.tree none) 5 [.many none 1 [.prim ⟨3, 3⟩]]) (.node (.tree none) 5 [.many none 1 [.prim ⟨3, 3⟩]])
      = ⟨[], false⟩ :=
  no_change _ _ (by decide)
/-- ... and `def f(*, a, b=1)`: `kw_defaults = [None, 1]` in a plain list field -/
example : reconcile (.node (.tree none) 6 [.many none 0 [.nil, name (loc [] 0 (some 1)) 4]])
    (.node (.tree none) 6 [.many none 0 [.nil, name (loc [] 0 (some 1)) 4]]) = ⟨[], false⟩ :=
  no_change _ _ (by decide)
/-- a renamed identifier in the list is put (and only it) -/
example : (reconcileOps (.node (.tree none) 5 [.many none 1 [.prim ⟨3, 3⟩, .prim ⟨4, 4⟩]])
    (.node (.tree none) 5 [.many none 1 [.prim ⟨3, 3⟩, .prim ⟨9, 9⟩]])).length = 1 := by decide

/-- `untouched_kept`: first statement untouched while a statement is inserted after it and the second one moved down
(path `[0, 0]`: field `body`, element 0); the trace is not empty and no operation touches the statement -/
def eK : T := modl (.tree none) [st 0, newSt 40, st 1]
example : wfN m3 eK = true ∧ keptN m3 [0, 0] .none [] eK = true ∧ (reconcileOps m3 eK).length = 3 := by decide
example : ∀ op ∈ reconcileOps m3 eK, touches op [0, 0] = false := untouched_kept m3 eK [0, 0] (by decide) (by decide)
/-- … whereas the moved statement is touched -/
example : (reconcileOps m3 eK).any (fun op => touches op [0, 2]) = true := by decide

/-- deeper: the value of the first statement is untouched while its target is replaced and the other statements swapped -/
def eK2 : T := modl (.tree none)
  [assign (loc [] 0 (some 0)) (name .new 99) (name (loc [0, 0] 1) 11), st 2, st 1]
example : wfN m3 eK2 = true ∧ keptN m3 [0, 0, 1] .none [] eK2 = true ∧ keptN m3 [0, 0] .none [] eK2 = false := by decide
example : ∀ op ∈ reconcileOps m3 eK2, touches op [0, 0, 1] = false := untouched_kept m3 eK2 [0, 0, 1] (by decide) (by decide)


/-! ### non-vacuity: `Dict` -/

def pr (o : Origin) (k v : T) : T := .node o 9 [k, v]
/-- pair `i` of the marked `Dict`, tagged in place -/
def dpair (i : Nat) : T := pr (loc [] 0 (some i)) (name (loc [0, i] 0) (20 + 2 * i)) (name (loc [0, i] 1) (21 + 2 * i))
def dict (o : Origin) (ps : List T) : T := .node o 7 [.many (some 3) 2 ps]
/-- marked `{a: b, c: d, e: f}` -/
def mD : T := dict (.tree none) [dpair 0, dpair 1, dpair 2]
/-- `{e: f, NEW: NEW, **b}`: third pair first, a new pair, the value of the first pair under a removed key; `c: d` deleted -/
def eD : T := dict (.tree none) [dpair 2, pr .new (name .new 50) (name .new 51), pr .new .nil (name (loc [0, 0] 1) 21)]
example : wfN mD eD = true ∧ (reconcileOps mD eD).length = 7 := by decide
example : result mD eD = erase eD := trace_correct mD eD (by decide) (by decide)
/-- a run of two pairs moved as one slice, insertion past the end -/
def eD2 : T := dict (.tree none) [dpair 1, dpair 2, dpair 0, pr .new (name .new 50) (name .new 51)]
example : wfN mD eD2 = true ∧ (reconcileOps mD eD2).length = 11 := by decide +kernel
example : result mD eD2 = erase eD2 := trace_correct mD eD2 (by decide +kernel) (by decide +kernel)
/-- tail deletion -/
def eD3 : T := dict (.tree none) [dpair 1]
example : result mD eD3 = erase eD3 := trace_correct mD eD3 (by decide) (by decide)
/-- the hypotheses of `dict_correct` -/
example : applyOps (recSliceGo mD (.fst 0 []) 0 (some 3) true 0 {} (eraseL [dpair 0, dpair 1, dpair 2])
      [dpair 2, pr .new (name .new 50) (name .new 51)]).ops (.many (some 3) 2 (eraseL [dpair 0, dpair 1, dpair 2]))
      = .many (some 3) 2 (eraseL [dpair 2, pr .new (name .new 50) (name .new 51)]) :=
  dict_correct mD [] 0 (some 3) 9 _ _ (by rfl) (by decide) (by decide) (by decide)
/-- unchanged `Dict`: empty trace -/
example : reconcile mD mD = ⟨[], false⟩ := no_change mD mD (by decide)
/-- an inconsistent pair origin (pair tagged as element 2, value of element 0) is excluded by `wfN` -/
example : wfN mD (dict (.tree none) [pr (loc [] 0 (some 2)) (name (loc [0, 2] 0) 24) (name (loc [0, 0] 1) 21)]) = false := by
  decide

end Pfst.C13
