import Pfst.RawLemmas
import Pfst.RawSeq
import Pfst.ModifyingLemmas
import Pfst.Offset

/-!
# C10 — raw source edits are equivalent to re-parsing the whole file, or change nothing

Property theorems about the model of the raw reparse (`Pfst/Raw.lean`).

FULL STATEMENT (properties.jsonl C10), for the model: for every parser, state, rectangle and text, `runRaw` raises and
leaves the state untouched, or the lines are the requested splice and `tree' = fullParse lines'`; it succeeds iff
`fullParse lines'` succeeds.

The model describes the REPAIRED code (fixes C10-F1, C10-F6, C10-F4, C10-F2): the incremental statement-level result is
used only when the wrapper parses, the node is found and the guard holds (exactly one node of the same kind at the same
place, nothing after it); in every other case nothing has been touched and the whole source is reparsed with the root's
own mode.  Proved in full: atomicity, the text part, "refused only if the new source is invalid" and "a valid new source
is accepted" (`raw_atomic`, `raw_src`, `raw_refuses_only_invalid`, `raw_valid_accepted`), whole-source fallback = full
parse (`raw_fallback_is_full_parse`), the geometry of the wrapper, the registry statements.  Still partial: "accepted
only if valid" and "tree = full parse" on the incremental path need that the guard implies locality of the parser
(`GuardSound`; at tree level `ParseLocal` + ancestor ends, `reparse_eq_full_partial`); the guard is shown to refuse the
incremental result on every recorded witness of the former findings (`guard_rejects_known_witnesses`), and the former
counterexamples are now positive statements (`reparse_eq_full_f6`, `f8_invalid_edit_refused`, `f9_valid_edit_accepted`).
Not covered: a statement that starts at (0,1)..(0,3) is still refused with NotImplementedError (`plan` = `.error
.degenerate`, finding C10-F7, pinned by the test-suite).
-/
namespace Pfst.C10
open Pfst.Raw

/-! ## geometry of the wrapper -/

/-- **wrapper_cols**: in every wrapper family built by `wrapIndented` (column-0 padding, `if _:` + blank lines +
`pcol_indent`, `try:` + spaces ... `finally: pass`) every line `i > pln` of the region sits at the same line number,
unchanged, and line `pln` is `pad ++ (rest of the line from pcol)` with `pad.length = pcol` (both `dpcol` branches), so
character columns of the region are the same in the copy and in the real source. -/
theorem wrapper_cols (lines : Lines) (f : Facts) (pendLn : Nat) (cl : Lines) (fl : Nat)
    (h : wrapIndented lines f pendLn = some (cl, fl)) (hp : f.pln ≤ pendLn) (hl : pendLn < lines.length) :
    (∀ i, f.pln < i → i ≤ pendLn → lineAt cl i = lineAt lines i) ∧
    (∃ pad, lineAt cl f.pln = pad ++ (lineAt lines f.pln).drop f.pcol ∧ pad.length = f.pcol) := by
  unfold wrapIndented at h
  split at h
  · -- column 0
    next h0 =>
    have h0 : f.pcol = 0 := by simpa using h0
    simp only [Option.some.injEq, Prod.mk.injEq] at h
    obtain ⟨rfl, _⟩ := h
    constructor
    · intro i hi hie
      rw [lineAt_append_right _ _ _ (by simp; omega)]
      simp only [List.length_replicate]
      rw [lineAt_slice _ _ _ _ (by omega)]
      congr 1; omega
    · refine ⟨[], ?_, by simp [h0]⟩
      rw [lineAt_append_right _ _ _ (by simp)]
      simp only [List.length_replicate, Nat.sub_self]
      rw [lineAt_slice _ _ _ _ (by omega), h0]
      simp
  · split at h
    · -- `if _:` wrapper
      next _ hpl =>
      have hpl : f.pln ≠ 0 := by simpa using hpl
      simp only [Option.some.injEq, Prod.mk.injEq] at h
      obtain ⟨rfl, _⟩ := h
      have hlen : ("if _:".toList :: List.replicate (f.pln - 1) ([] : Line)).length = f.pln := by
        simp; omega
      constructor
      · intro i hi hie
        rw [List.append_assoc, lineAt_append_right _ _ _ (by rw [hlen]; omega), hlen]
        rw [lineAt_append_right _ _ _ (by simp; omega)]
        simp only [List.length_singleton]
        rw [lineAt_slice _ _ _ _ (by omega)]
        congr 1; omega
      · refine ⟨pcolIndent f.indent f.pcol, ?_, pcolIndent_length _ _⟩
        rw [List.append_assoc, lineAt_append_right _ _ _ (by rw [hlen]; omega), hlen, Nat.sub_self]
        rfl
    · split at h
      · exact absurd h (by simp)
      · -- `try:` wrapper (pln = 0, pcol ≥ 4)
        next hpl hlt =>
        have hpl : f.pln = 0 := by simpa using hpl
        have hge : 4 ≤ f.pcol := by omega
        simp only [Option.some.injEq, Prod.mk.injEq] at h
        obtain ⟨rfl, _⟩ := h
        constructor
        · intro i hi hie
          obtain ⟨j, rfl⟩ : ∃ j, i = j + 1 := ⟨i - 1, by omega⟩
          rw [List.cons_append, lineAt_cons_succ, lineAt_append_left _ _ _ (by rw [slice_length _ _ _ (by omega)]; omega)]
          rw [lineAt_slice _ _ _ _ (by omega)]
          congr 1; omega
        · refine ⟨"try:".toList ++ spaces (f.pcol - 4), ?_, ?_⟩
          · rw [hpl, List.cons_append, lineAt_cons_zero]
          · rw [List.length_append, spaces_length]
            have : "try:".toList.length = 4 := by decide
            omega

/-- **wrapper_bytes**: on the first line of the region, the byte column of a character position in the copy plus
`first_line_col_delta` is its byte column in the real source, when the padding is one byte per character.
`k` characters into the region's first line: copy prefix is `pad ++ rest.take k`, real prefix is `pre ++ rest.take k`
with `pre = line.take pcol`, `delta = utf8Len pre - pcol`. -/
theorem wrapper_bytes (line pad : Line) (pcol k : Nat) (hpad : pad.length = pcol) (hascii : Ascii pad)
    (_hpc : pcol ≤ line.length) :
    ((utf8Len ((pad ++ line.drop pcol).take (pcol + k)) : Nat) : Int) + ((utf8Len (line.take pcol) : Int) - pcol)
      = (utf8Len (line.take (pcol + k)) : Int) := by
  have h1 : (pad ++ line.drop pcol).take (pcol + k) = pad ++ (line.drop pcol).take k := by
    rw [List.take_append, hpad]; simp [List.take_of_length_le (by omega : pad.length ≤ pcol + k)]
  have h2 : line.take (pcol + k) = line.take pcol ++ (line.drop pcol).take k := by
    rw [List.take_add]
  rw [h1, h2, utf8Len_append, utf8Len_append, utf8Len_ascii pad hascii, hpad]
  omega

/-- The paddings the code builds are one byte per character (for an indentation string that is). -/
theorem wrapper_pads_ascii (indent : Line) (pcol : Nat) (h : Ascii indent) :
    Ascii (pcolIndent indent pcol) ∧ Ascii ("try:".toList ++ spaces (pcol - 4)) :=
  ⟨pcolIndent_ascii _ _ h, ascii_append _ _ (by intro c hc; revert c; decide) (ascii_spaces _)⟩

/-! ## order of effects -/

/-- **reparse_atomic**: if the parser rejects the copy, the real state is exactly as before (the copy was private). -/
theorem reparse_atomic {T W : Type} (parse : Lines → Option W) (fix : T → W → T) (st : St T) (copy new : Lines)
    (r : Rect) (h : parse (putSrc copy new r) = none) :
    (runBase parse fix st copy new r).self = st ∧ (runBase parse fix st copy new r).raised = true := by
  simp [runBase, h]

/-- **reparse_src**: if the parser accepts the copy, the real lines are the requested splice and the tree is the
fix-up applied to the old tree and the parse result. -/
theorem reparse_src {T W : Type} (parse : Lines → Option W) (fix : T → W → T) (st : St T) (copy new : Lines)
    (r : Rect) (w : W) (h : parse (putSrc copy new r) = some w) :
    (runBase parse fix st copy new r).self.lines = putSrc st.lines new r
    ∧ (runBase parse fix st copy new r).self.tree = fix st.tree w
    ∧ (runBase parse fix st copy new r).raised = false := by
  simp [runBase, h]

/-- The operation succeeds exactly when the text handed to the parser (the WRAPPER with the splice) parses — not when
the whole new source parses (that is the full statement, see `accepts_iff_valid_false`). -/
theorem reparse_ok_iff_wrapper_parses {T W : Type} (parse : Lines → Option W) (fix : T → W → T) (st : St T)
    (p : Plan) (new : Lines) (r : Rect) :
    (runBase parse fix st p.copyLines new r).raised = false ↔ (parse (handed p new r)).isSome = true := by
  unfold handed runBase
  cases h : parse (putSrc p.copyLines new r) <;> simp [h]

/-! ## the repaired entry: incremental attempt, guard, whole-source fallback -/

theorem runBase_none {T W : Type} (parse : Lines → Option W) (fix : T → W → T) (st : St T) (copy new : Lines) (r : Rect)
    (h : parse (putSrc copy new r) = none) :
    runBase parse fix st copy new r = { self := st, copy := putSrc copy new r, raised := true } := by
  simp [runBase, h]

theorem runBase_some {T W : Type} (parse : Lines → Option W) (fix : T → W → T) (st : St T) (copy new : Lines) (r : Rect)
    (w : W) (h : parse (putSrc copy new r) = some w) :
    runBase parse fix st copy new r =
      { self := { lines := putSrc st.lines new r, tree := fix st.tree w }, copy := putSrc copy new r, raised := false } := by
  simp [runBase, h]

/-- The three ways `runRaw` can go. -/
theorem runRaw_cases {T W : Type} (parse : Lines → Option W) (guard : W → Bool) (fix : T → W → T)
    (parseFull : Lines → Option T) (st : St T) (copy new : Lines) (r : Rect) :
    (∃ w, parse (putSrc copy new r) = some w ∧ guard w = true ∧
        runRaw parse guard fix parseFull st copy new r =
          { self := { lines := putSrc st.lines new r, tree := fix st.tree w }, copy := putSrc copy new r, raised := false })
    ∨ (∃ t, parseFull (putSrc st.lines new r) = some t ∧
        runRaw parse guard fix parseFull st copy new r =
          { self := { lines := putSrc st.lines new r, tree := t }, copy := putSrc st.lines new r, raised := false })
    ∨ (parseFull (putSrc st.lines new r) = none ∧
        runRaw parse guard fix parseFull st copy new r = { self := st, copy := putSrc st.lines new r, raised := true }) := by
  have whole : (∃ t, parseFull (putSrc st.lines new r) = some t ∧
        runBase parseFull (fun _ t => t) st st.lines new r =
          { self := { lines := putSrc st.lines new r, tree := t }, copy := putSrc st.lines new r, raised := false })
      ∨ (parseFull (putSrc st.lines new r) = none ∧
        runBase parseFull (fun _ t => t) st st.lines new r = { self := st, copy := putSrc st.lines new r, raised := true }) := by
    cases hf : parseFull (putSrc st.lines new r) with
    | none => exact .inr ⟨rfl, runBase_none _ _ _ _ _ _ hf⟩
    | some t => exact .inl ⟨t, rfl, runBase_some _ _ _ _ _ _ t hf⟩
  unfold runRaw
  cases hp : parse (putSrc copy new r) with
  | none => simp only; exact .inr whole
  | some w =>
    simp only
    cases hg : guard w with
    | false => simp only [Bool.false_eq_true, if_false]; exact .inr whole
    | true => simp only [if_true]; exact .inl ⟨w, rfl, hg, runBase_some _ _ _ _ _ _ w hp⟩

/-- **raw_atomic**: if the operation raises, source and tree are exactly as before. -/
theorem raw_atomic {T W : Type} (parse : Lines → Option W) (guard : W → Bool) (fix : T → W → T)
    (parseFull : Lines → Option T) (st : St T) (copy new : Lines) (r : Rect)
    (h : (runRaw parse guard fix parseFull st copy new r).raised = true) :
    (runRaw parse guard fix parseFull st copy new r).self = st := by
  rcases runRaw_cases parse guard fix parseFull st copy new r with ⟨w, _, _, e⟩ | ⟨t, _, e⟩ | ⟨_, e⟩
  · rw [e] at h; simp at h
  · rw [e] at h; simp at h
  · rw [e]

/-- **raw_src**: if it returns, the source is the requested splice. -/
theorem raw_src {T W : Type} (parse : Lines → Option W) (guard : W → Bool) (fix : T → W → T)
    (parseFull : Lines → Option T) (st : St T) (copy new : Lines) (r : Rect)
    (h : (runRaw parse guard fix parseFull st copy new r).raised = false) :
    (runRaw parse guard fix parseFull st copy new r).self.lines = putSrc st.lines new r := by
  rcases runRaw_cases parse guard fix parseFull st copy new r with ⟨w, _, _, e⟩ | ⟨t, _, e⟩ | ⟨_, e⟩
  · rw [e]
  · rw [e]
  · rw [e] at h; simp at h

/-- **raw_refuses_only_invalid** (full strength, was false before the repair: findings F4, F5): the operation raises
only if the whole new source does not parse. -/
theorem raw_refuses_only_invalid {T W : Type} (parse : Lines → Option W) (guard : W → Bool) (fix : T → W → T)
    (parseFull : Lines → Option T) (st : St T) (copy new : Lines) (r : Rect)
    (h : (runRaw parse guard fix parseFull st copy new r).raised = true) :
    parseFull (putSrc st.lines new r) = none := by
  rcases runRaw_cases parse guard fix parseFull st copy new r with ⟨w, _, _, e⟩ | ⟨t, _, e⟩ | ⟨hf, _⟩
  · rw [e] at h; simp at h
  · rw [e] at h; simp at h
  · exact hf

/-- **raw_valid_accepted**: a valid new source is always accepted. -/
theorem raw_valid_accepted {T W : Type} (parse : Lines → Option W) (guard : W → Bool) (fix : T → W → T)
    (parseFull : Lines → Option T) (st : St T) (copy new : Lines) (r : Rect)
    (h : (parseFull (putSrc st.lines new r)).isSome = true) :
    (runRaw parse guard fix parseFull st copy new r).raised = false := by
  cases hr : (runRaw parse guard fix parseFull st copy new r).raised with
  | false => rfl
  | true => rw [raw_refuses_only_invalid parse guard fix parseFull st copy new r hr] at h; simp at h

/-- **raw_fallback_is_full_parse**: whenever the incremental result is not used (wrapper rejected, node not found, guard
false) and the operation returns, the tree IS the full parse of the new source. -/
theorem raw_fallback_is_full_parse {T W : Type} (parse : Lines → Option W) (guard : W → Bool) (fix : T → W → T)
    (parseFull : Lines → Option T) (st : St T) (copy new : Lines) (r : Rect)
    (hno : ∀ w, parse (putSrc copy new r) = some w → guard w = false)
    (h : (runRaw parse guard fix parseFull st copy new r).raised = false) :
    parseFull (putSrc st.lines new r) = some (runRaw parse guard fix parseFull st copy new r).self.tree := by
  rcases runRaw_cases parse guard fix parseFull st copy new r with ⟨w, hp, hg, _⟩ | ⟨t, hf, e⟩ | ⟨_, e⟩
  · rw [hno w hp] at hg; simp at hg
  · rw [e]; exact hf
  · rw [e] at h; simp at h

/-- **GuardSound**: what is still assumed of the external parser on the incremental path: if the wrapper parses to `w` and
the guard accepts `w`, then the whole new source parses to the tree the graft produces.  (At tree level this is
`reparse_eq_full_partial`.) -/
def GuardSound {T W : Type} (parse : Lines → Option W) (guard : W → Bool) (fix : T → W → T)
    (parseFull : Lines → Option T) (st : St T) (copy new : Lines) (r : Rect) : Prop :=
  ∀ w, parse (putSrc copy new r) = some w → guard w = true → parseFull (putSrc st.lines new r) = some (fix st.tree w)

/-- **raw_eq_full_partial**: under `GuardSound`, whenever the operation returns the tree is the full parse of the new
source. -/
theorem raw_eq_full_partial {T W : Type} (parse : Lines → Option W) (guard : W → Bool) (fix : T → W → T)
    (parseFull : Lines → Option T) (st : St T) (copy new : Lines) (r : Rect)
    (gs : GuardSound parse guard fix parseFull st copy new r)
    (h : (runRaw parse guard fix parseFull st copy new r).raised = false) :
    parseFull (putSrc st.lines new r) = some (runRaw parse guard fix parseFull st copy new r).self.tree := by
  rcases runRaw_cases parse guard fix parseFull st copy new r with ⟨w, hp, hg, e⟩ | ⟨t, hf, e⟩ | ⟨_, e⟩
  · rw [e]; exact gs w hp hg
  · rw [e]; exact hf
  · rw [e] at h; simp at h

/-- **raw_ok_iff_valid_partial**: under `GuardSound` the operation succeeds exactly when the new whole source is valid.
(The direction "valid → succeeds" needs no hypothesis: `raw_valid_accepted`.) -/
theorem raw_ok_iff_valid_partial {T W : Type} (parse : Lines → Option W) (guard : W → Bool) (fix : T → W → T)
    (parseFull : Lines → Option T) (st : St T) (copy new : Lines) (r : Rect)
    (gs : GuardSound parse guard fix parseFull st copy new r) :
    (runRaw parse guard fix parseFull st copy new r).raised = false ↔ (parseFull (putSrc st.lines new r)).isSome = true := by
  constructor
  · intro h; rw [raw_eq_full_partial parse guard fix parseFull st copy new r gs h]; rfl
  · exact raw_valid_accepted parse guard fix parseFull st copy new r

/-! ## the tree -/

theorem movePt_fst (o : Off) (l c : Int) :
    (movePt o l c).1 = if l > o.lno ∨ (l = o.lno ∧ c ≥ o.colo) then l + o.dln else l := by
  by_cases h1 : l > o.lno <;> by_cases h2 : l = o.lno <;> by_cases h3 : c ≥ o.colo <;>
    simp [movePt, h1, h2, h3] <;> omega

theorem movePt_snd (o : Off) (l c : Int) :
    (movePt o l c).2 = if l = o.lno ∧ c ≥ o.colo then c + o.dcol else c := by
  by_cases h1 : l > o.lno <;> by_cases h2 : l = o.lno <;> by_cases h3 : c ≥ o.colo <;>
    simp [movePt, h1, h2, h3] <;> omega

theorem endMoves_tt (o : Off) (p : Pfst.Offset.Pos) :
    Pfst.Offset.endMoves { lno := o.lno, colo := o.colo, dln := o.dln, dcol := o.dcol, tail := .t, head := .t } p
      = decide (p.elno > o.lno ∨ (p.elno = o.lno ∧ p.ecol ≥ o.colo)) := by
  have ht : (Pfst.Offset.Tri.t != Pfst.Offset.Tri.f) = true := by decide
  have ht2 : (Pfst.Offset.Tri.t == Pfst.Offset.Tri.n) = false := by decide
  simp only [Pfst.Offset.endMoves]
  by_cases h1 : p.elno < o.lno <;> by_cases h2 : p.elno > o.lno <;> by_cases h3 : p.ecol < o.colo <;>
    by_cases h4 : p.ecol > o.colo <;> simp [h1, h2, h3, h4, ht, ht2] <;> omega

theorem startMoves_tt (o : Off) (p : Pfst.Offset.Pos) :
    Pfst.Offset.startMoves { lno := o.lno, colo := o.colo, dln := o.dln, dcol := o.dcol, tail := .t, head := .t } p
      = decide (p.lno > o.lno ∨ (p.lno = o.lno ∧ p.col ≥ o.colo)) := by
  have ht : (Pfst.Offset.Tri.t != Pfst.Offset.Tri.f) = true := by decide
  have ht2 : (Pfst.Offset.Tri.t == Pfst.Offset.Tri.n) = false := by decide
  simp only [Pfst.Offset.startMoves]
  by_cases h1 : p.lno > o.lno <;> by_cases h2 : p.lno = o.lno <;> by_cases h3 : p.col > o.colo <;>
    by_cases h4 : p.col = o.colo <;> simp [h1, h2, h3, h4, ht, ht2] <;> (try omega) <;>
    (have h5 : (p.col == o.colo) = false := by simpa using h4
     have h6 : decide (o.colo ≤ p.col) = false := by simp; omega
     rw [h5, h6])

/-- `movePos` (everything at or after the point moves) is `_offset` with `tail = head = True` as modelled for C11
(`Pfst.Offset.offsetPos`). -/
theorem movePos_eq_offsetPos (o : Off) (a b c d : Int) :
    let q := Pfst.Offset.offsetPos { lno := o.lno, colo := o.colo, dln := o.dln, dcol := o.dcol, tail := .t, head := .t }
               ⟨a, b, c, d⟩
    let p := movePos o ⟨a, b, c, d⟩
    q.lno = p.lno ∧ q.col = p.col ∧ q.elno = p.elno ∧ q.ecol = p.ecol := by
  simp only [Pfst.Offset.offsetPos, endMoves_tt, startMoves_tt, movePos, movePt_fst, movePt_snd]
  refine ⟨?_, ?_, ?_, ?_⟩
  · by_cases h1 : a > o.lno <;> by_cases h2 : a = o.lno <;> by_cases h3 : b ≥ o.colo <;> simp [h1, h2, h3] <;> omega
  · by_cases h1 : a > o.lno <;> by_cases h2 : a = o.lno <;> by_cases h3 : b ≥ o.colo <;> simp [h1, h2, h3] <;> omega
  · by_cases h1 : c > o.lno <;> by_cases h2 : c = o.lno <;> by_cases h3 : d ≥ o.colo <;> simp [h1, h2, h3] <;> omega
  · by_cases h1 : c > o.lno <;> by_cases h2 : c = o.lno <;> by_cases h3 : d ≥ o.colo <;> simp [h1, h2, h3] <;> omega

/-- pointwise relation between two lists of equal length (core has no `Forall₂`) -/
inductive Forall2 {α β : Type} (R : α → β → Prop) : List α → List β → Prop where
  | nil : Forall2 R [] []
  | cons {a b l1 l2} : R a b → Forall2 R l1 l2 → Forall2 R (a :: l1) (b :: l2)

/-- the start of an ancestor is strictly before the offset point -/
def startsBefore (o : Off) (p : Pos) : Prop := p.lno < o.lno ∨ (p.lno = o.lno ∧ p.col < o.colo)

/-- Parser-side relation between an ancestor frame of the OLD tree and the corresponding frame of the full parse of the
NEW source: same kind; the siblings off the path are the old ones, moved as text moves; the ancestor starts where it did
(and that is before the edit). -/
def FrameLocal (o : Off) (f fR : Frame) : Prop :=
  fR.kind = f.kind ∧ fR.left = mapList (movePos o) f.left ∧ fR.right = mapList (movePos o) f.right ∧
  (match f.pos, fR.pos with
   | none, none => True
   | some p, some q => q.lno = p.lno ∧ q.col = p.col ∧ startsBefore o p
   | _, _ => False)

/-- The ancestor's end in the full parse is its old end moved as text moves. -/
def FrameEndStable (o : Off) (f fR : Frame) : Prop :=
  match f.pos, fR.pos with
  | some p, some q => (q.elno, q.ecol) = movePt o p.elno p.ecol
  | _, _ => True

/-- **ParseLocal**: the external parser is compositional on the chosen region: the full parse of the new source is the
old context (moved as text moves) around the node that the wrapper parse produced (after the first-line byte delta). -/
def ParseLocal (o : Off) (m : TreeMode) (z : Zip) (sub full : Node) (ctxR : List Frame) : Prop :=
  full = plug ctxR (applyDelta m.firstLineno m.delta sub) ∧ Forall2 (FrameLocal o) z.ctx ctxR

/-- **AncestorEndsStable**: no ancestor's end is determined by the region's new end. -/
def AncestorEndsStable (o : Off) (z : Zip) (ctxR : List Frame) : Prop :=
  Forall2 (FrameEndStable o) z.ctx ctxR

theorem frame_eq (o : Off) (f fR : Frame) (h1 : FrameLocal o f fR) (h2 : FrameEndStable o f fR) :
    fR = mapFrame (movePos o) f := by
  obtain ⟨k, p, l, r⟩ := f
  obtain ⟨kR, pR, lR, rR⟩ := fR
  obtain ⟨hk, hl, hr, hp⟩ := h1
  simp only at hk hl hr hp
  subst hk hl hr
  simp only [mapFrame, Frame.mk.injEq, true_and, and_true]
  cases p with
  | none =>
    cases pR with
    | none => rfl
    | some q => exact absurd hp (by simp)
  | some p =>
    cases pR with
    | none => exact absurd hp (by simp)
    | some q =>
      obtain ⟨a, b, c, d⟩ := p
      obtain ⟨a', b', c', d'⟩ := q
      simp only at hp
      obtain ⟨h3, h4, h5⟩ := hp
      subst h3 h4
      simp only [FrameEndStable] at h2
      have hs : movePt o a' b' = (a', b') := by
        simp only [startsBefore] at h5
        simp only [movePt]
        rw [if_neg (by omega)]
        split
        · next hh => simp at hh; omega
        · rfl
      simp only [Option.map_some, movePos, Option.some.injEq, Pos.mk.injEq, hs]
      have e1 : (movePt o c d).1 = c' := by rw [← h2]
      have e2 : (movePt o c d).2 = d' := by rw [← h2]
      exact ⟨trivial, trivial, e1.symm, e2.symm⟩

theorem ctx_eq (o : Off) (ctx ctxR : List Frame) (h1 : Forall2 (FrameLocal o) ctx ctxR)
    (h2 : Forall2 (FrameEndStable o) ctx ctxR) : ctxR = ctx.map (mapFrame (movePos o)) := by
  induction h1 with
  | nil => rfl
  | cons hf _ ih =>
    cases h2 with
    | cons he ht =>
      rw [List.map_cons, frame_eq o _ _ hf he, ih ht]

/-- **reparse_eq_full_partial**: for a whole-statement graft, if the parser is local on the region (`ParseLocal`), no
ancestor ends exactly with the old node (`tailIdx = none`, so `_set_end_pos` is not called) and the ancestors' ends move
as text moves (`AncestorEndsStable`), the tree left by the operation IS the full parse of the new source — every kind,
every position.  (The case where an ancestor does end with the node is `reparse_eq_full_f6`.) -/
theorem reparse_eq_full_partial (o : Off) (m : TreeMode) (z : Zip) (sub full : Node)
    (hm : m.setAst = true) (ht : tailIdx z.focus.endPtD z.ctx 0 = none)
    (ctxR : List Frame) (pl : ParseLocal o m z sub full ctxR) (aes : AncestorEndsStable o z ctxR) :
    (reparseTree o m z sub).tree = full := by
  rw [pl.1, ctx_eq o z.ctx ctxR pl.2 aes]
  simp [reparseTree, hm, ht, Zip.tree]

/-! ## the former counterexamples, now positive -/

/-- F6 instance (kinds: 0 Module, 1 If, 2 Name, 3 Expr).  Source `if a:\n    bc`, `put_src('#', 1, 5, 1, 5)` gives
`if a:\n    b#c`.  The region is the statement `bc`; the wrapper `if _:\n    b#c` parses to `Expr(Name b)` at
(2,4)-(2,5).  `_offset` moves the end of the enclosing `If` from (2,6) to (2,7); CPython's full parse has (2,5). -/
def f6Off : Off := paramsOffset 1 1 1 5 1 5
def f6Mode : TreeMode := { setAst := true, firstLineno := 2, delta := 0, nOldHead := 0, nNewHead := 0,
                           noEndCopy := false, follows := false }
def f6Zip : Zip :=
  { ctx := [{ kind := 1, pos := some ⟨1, 0, 2, 6⟩, left := [.mk 2 (some ⟨1, 3, 1, 4⟩) []], right := [] },
            { kind := 0, pos := none, left := [], right := [] }],
    focus := .mk 3 (some ⟨2, 4, 2, 6⟩) [.mk 2 (some ⟨2, 4, 2, 6⟩) []] }
def f6Sub : Node := .mk 3 (some ⟨2, 4, 2, 5⟩) [.mk 2 (some ⟨2, 4, 2, 5⟩) []]
def f6Full : Node :=
  .mk 0 none [.mk 1 (some ⟨1, 0, 2, 5⟩) [.mk 2 (some ⟨1, 3, 1, 4⟩) [], .mk 3 (some ⟨2, 4, 2, 5⟩) [.mk 2 (some ⟨2, 4, 2, 5⟩) []]]]
def f6CtxR : List Frame :=
  [{ kind := 1, pos := some ⟨1, 0, 2, 5⟩, left := [.mk 2 (some ⟨1, 3, 1, 4⟩) []], right := [] },
   { kind := 0, pos := none, left := [], right := [] }]

/-- **reparse_eq_full_f6** (was `reparse_eq_full_false` before fix C10-F1): on the F6 instance the parser is local on
the region, the enclosing `If` ends with the region so its end does NOT simply move with the text
(`AncestorEndsStable` fails) — and the repaired operation, which re-propagates the end of the new node to the ancestors
that ended with the old one, leaves exactly the full parse. The guard accepts the instance. -/
theorem reparse_eq_full_f6 :
    ParseLocal f6Off f6Mode f6Zip f6Sub f6Full f6CtxR
    ∧ ¬ AncestorEndsStable f6Off f6Zip f6CtxR
    ∧ tailIdx f6Zip.focus.endPtD f6Zip.ctx 0 = some 0
    ∧ guardOk f6Mode f6Zip.focus (applyDelta f6Mode.firstLineno f6Mode.delta f6Sub) = true
    ∧ (reparseTree f6Off f6Mode f6Zip f6Sub).tree = f6Full := by
  refine ⟨⟨by rfl, ?_⟩, ?_, by decide, by decide, by rfl⟩
  · refine .cons ?_ (.cons ?_ .nil)
    · refine ⟨rfl, rfl, rfl, ?_⟩
      simp only [startsBefore, f6Off, paramsOffset]
      decide
    · exact ⟨rfl, rfl, rfl, trivial⟩
  · intro h
    cases h with
    | cons h _ =>
      simp only [FrameEndStable, f6Off, paramsOffset, movePt] at h
      revert h; decide

/-- A trailing semicolon belongs to the enclosing compound statement but not to the simple statement: `def g():\n    z;`
has `z` end at (2,5) and the `FunctionDef` at (2,6).  `_tail_parent` then answers `None` and the ancestor keeps its
(offset) end: re-parsing `z` in place leaves the tree as it was. (kinds: 4 FunctionDef) -/
theorem tail_not_past_semicolon :
    tailIdx (some (2, 5)) [{ kind := 4, pos := some ⟨1, 0, 2, 6⟩, left := [], right := [] },
                           { kind := 0, pos := none, left := [], right := [] }] 0 = none := by decide

/-- **guard_rejects_known_witnesses**: on the recorded witnesses of the former findings the guard refuses the incremental
result, so the whole source decides (`raw_fallback_is_full_parse`).
F2 `x` <- `y\n` at (0,0): the wrapper `y\nx` has a second statement after the node (`follows`).
F3 `def f():\n  a\n  b` <- four spaces before `a`: the node starts at byte column 6 instead of 2.
F8 `m; ` <- `class K:` at (0,0): the node is a `ClassDef` (kind 5), the old one an `Expr` (kind 3). -/
theorem guard_rejects_known_witnesses :
    guardOk { f6Mode with firstLineno := 0, follows := true } (.mk 3 (some ⟨1, 0, 1, 1⟩) [.mk 2 (some ⟨1, 0, 1, 1⟩) []])
        (.mk 3 (some ⟨1, 0, 1, 1⟩) [.mk 2 (some ⟨1, 0, 1, 1⟩) []]) = false
    ∧ guardOk f6Mode (.mk 3 (some ⟨2, 2, 2, 3⟩) [.mk 2 (some ⟨2, 2, 2, 3⟩) []])
        (.mk 3 (some ⟨2, 6, 2, 7⟩) [.mk 2 (some ⟨2, 6, 2, 7⟩) []]) = false
    ∧ guardOk { f6Mode with firstLineno := 0 } (.mk 3 (some ⟨1, 0, 1, 1⟩) [.mk 2 (some ⟨1, 0, 1, 1⟩) []])
        (.mk 5 (some ⟨1, 0, 1, 9⟩) [.mk 3 (some ⟨1, 8, 1, 9⟩) [.mk 2 (some ⟨1, 8, 1, 9⟩) []]]) = false := by
  decide

/-- F8 / F9 instances (text level).  F8: `def f():\n  a\n  b`, `put_src('    ', 1, 2, 1, 2)` (four spaces inserted before `a`): the region
is the statement `a` and its wrapper `if _:\n      a` is valid, the whole new source `def f():\n      a\n  b` is not
(`unindent does not match`).  F9: `x = 1; y = 2`, `put_src('\n', 0, 9, 0, 11)`: the region is `y = 2` inside a
`try:` wrapper whose text `try:   y \n2\nfinally: pass` is invalid, the whole new source `x = 1; y \n2` is valid. -/
def f8Lines : Lines := ["def f():".toList, "  a".toList, "  b".toList]
def f8Facts : Facts := { kind := .simple, isElif := false, selfIsElif := false, isRoot := false, pln := 1, pcol := 2,
                         pendLn := 1, pendCol := 3, blkheadEnd := (0, 0), indent := "  ".toList }
def f8Rect : Rect := ⟨1, 2, 1, 2⟩
def f8New : Lines := ["    ".toList]

def f9Lines : Lines := ["x = 1; y = 2".toList]
def f9Facts : Facts := { kind := .simple, isElif := false, selfIsElif := false, isRoot := false, pln := 0, pcol := 7,
                         pendLn := 0, pendCol := 12, blkheadEnd := (0, 0), indent := [] }
def f9Rect : Rect := ⟨0, 9, 0, 11⟩
def f9New : Lines := [[], []]

def f8Plan : Plan := match plan f8Lines f8Facts 1 2 with | .ok p => p | .error _ => default
def f9Plan : Plan := match plan f9Lines f9Facts 0 11 with | .ok p => p | .error _ => default


/-- **f8_invalid_edit_refused** (was one half of `accepts_iff_valid_false`): in the F8 instance the wrapper text
`if _:` / `      a` still parses, but the guard refuses the result (the statement no longer starts where it did), the
whole new source `def f():` / `      a` / `  b` is handed to the parser, and since that is invalid the operation raises
and nothing has changed. -/
theorem f8_invalid_edit_refused {T W : Type} (parse : Lines → Option W) (guard : W → Bool) (fix : T → W → T)
    (parseFull : Lines → Option T) (t : T) (w : W)
    (h1 : parse ["if _:".toList, "      a".toList] = some w) (hg : guard w = false)
    (h2 : parseFull ["def f():".toList, "      a".toList, "  b".toList] = none) :
    plan f8Lines f8Facts 1 2 = .ok f8Plan
    ∧ handed f8Plan f8New f8Rect = ["if _:".toList, "      a".toList]
    ∧ (runRaw parse guard fix parseFull ⟨f8Lines, t⟩ f8Plan.copyLines f8New f8Rect).raised = true
    ∧ (runRaw parse guard fix parseFull ⟨f8Lines, t⟩ f8Plan.copyLines f8New f8Rect).self = ⟨f8Lines, t⟩ := by
  have hh : putSrc f8Plan.copyLines f8New f8Rect = ["if _:".toList, "      a".toList] := by decide
  have hs : putSrc f8Lines f8New f8Rect = ["def f():".toList, "      a".toList, "  b".toList] := by decide
  refine ⟨by rfl, hh, ?_⟩
  rcases runRaw_cases parse guard fix parseFull ⟨f8Lines, t⟩ f8Plan.copyLines f8New f8Rect with
    ⟨w', hp, hg', _⟩ | ⟨t', hf, _⟩ | ⟨_, e⟩
  · rw [hh, h1] at hp; cases hp; rw [hg] at hg'; cases hg'
  · simp only at hf; rw [hs, h2] at hf; cases hf
  · rw [e]; exact ⟨rfl, rfl⟩

/-- **f9_valid_edit_accepted** (was the other half): in the F9 instance the wrapper text `try:   y ` / `2` /
`finally: pass` is rejected, the whole new source `x = 1; y ` / `2` is handed to the parser, and the operation returns
with exactly that parse and the spliced source. -/
theorem f9_valid_edit_accepted {T W : Type} (parse : Lines → Option W) (guard : W → Bool) (fix : T → W → T)
    (parseFull : Lines → Option T) (t tR : T)
    (h1 : parse ["try:   y ".toList, "2".toList, "finally: pass".toList] = none)
    (h2 : parseFull ["x = 1; y ".toList, "2".toList] = some tR) :
    plan f9Lines f9Facts 0 11 = .ok f9Plan
    ∧ handed f9Plan f9New f9Rect = ["try:   y ".toList, "2".toList, "finally: pass".toList]
    ∧ (runRaw parse guard fix parseFull ⟨f9Lines, t⟩ f9Plan.copyLines f9New f9Rect).raised = false
    ∧ (runRaw parse guard fix parseFull ⟨f9Lines, t⟩ f9Plan.copyLines f9New f9Rect).self
        = ⟨["x = 1; y ".toList, "2".toList], tR⟩ := by
  have hh : putSrc f9Plan.copyLines f9New f9Rect = ["try:   y ".toList, "2".toList, "finally: pass".toList] := by decide
  have hs : putSrc f9Lines f9New f9Rect = ["x = 1; y ".toList, "2".toList] := by decide
  refine ⟨by rfl, hh, ?_⟩
  rcases runRaw_cases parse guard fix parseFull ⟨f9Lines, t⟩ f9Plan.copyLines f9New f9Rect with
    ⟨w', hp, _, _⟩ | ⟨t', hf, e⟩ | ⟨hf, _⟩
  · rw [hh, h1] at hp; cases hp
  · simp only at hf; rw [hs, h2] at hf; cases hf
    rw [e]; exact ⟨rfl, by rw [hs]⟩
  · simp only at hf; rw [hs, h2] at hf; cases hf

/-! ## the end walk passes through nodes without a position -/

/-- **tail_through_match_case**: `_set_end_pos(new, old)` does not stop at an ancestor that has no position (a
`match_case` between an inner and an outer `Match`): every located ancestor above it that ended at `old` and is a last
child gets the new end too; an ancestor with a following sibling ends the walk.  (kinds: 8 Match, 9 match_case,
4 FunctionDef, 0 Module) -/
theorem tail_through_match_case :
    (setEndPosFrom (6, 20) (6, 27)
      [{ kind := 8, pos := some ⟨5, 8, 6, 27⟩, left := [], right := [] },
       { kind := 9, pos := none, left := [], right := [] },
       { kind := 8, pos := some ⟨2, 4, 6, 27⟩, left := [], right := [] },
       { kind := 4, pos := some ⟨1, 0, 6, 27⟩, left := [], right := [] },
       { kind := 0, pos := none, left := [], right := [.mk 3 (some ⟨8, 0, 8, 1⟩) []] }]).map (fun f => f.pos.map (fun p => (p.elno, p.ecol)))
    = [some (6, 20), none, some (6, 20), some (6, 20), none] := by
  rfl

/-- `rectInRegion` unpacked: the first and last line of the rectangle are lines of the region (what `wrapper_cols` and
the truncation at `pend` rely on). -/
theorem rect_in_region_lines (f : Facts) (r : Rect) (h : rectInRegion f r = true) : f.pln ≤ r.ln ∧ r.endLn ≤ f.pendLn := by
  simp only [rectInRegion, Bool.and_eq_true, Bool.or_eq_true, decide_eq_true_eq, beq_iff_eq] at h
  omega

/-! ## header-only reparse: the old blocks on the new header -/

/-- **header_graft_keeps_old_blocks**: after a header-only reparse every block field the old node has — EMPTY lists
included — is the block field of the result; only a field the old node does not have keeps what the wrapper parse put
there. -/
theorem header_graft_keeps_old_blocks (old new : Blocks) :
    (∀ l, old.body = some l → (graftBlocks old new).body = some l)
    ∧ (∀ l, old.handlers = some l → (graftBlocks old new).handlers = some l)
    ∧ (∀ l, old.orelse = some l → (graftBlocks old new).orelse = some l)
    ∧ (∀ l, old.finalbody = some l → (graftBlocks old new).finalbody = some l)
    ∧ (∀ l, old.cases = some l → (graftBlocks old new).cases = some l)
    ∧ (old.body = none → (graftBlocks old new).body = new.body)
    ∧ (old.handlers = none → (graftBlocks old new).handlers = new.handlers)
    ∧ (old.orelse = none → (graftBlocks old new).orelse = new.orelse)
    ∧ (old.finalbody = none → (graftBlocks old new).finalbody = new.finalbody)
    ∧ (old.cases = none → (graftBlocks old new).cases = new.cases) := by
  refine ⟨?_, ?_, ?_, ?_, ?_, ?_, ?_, ?_, ?_, ?_⟩ <;> intros <;> simp_all [graftBlocks, keepOld]

/-- **header_graft_same_class**: when the parsed header is a node of the same class (same set of block fields — the guard
requires it), the blocks of the result are exactly the old blocks, all five, whatever the synthetic wrapper contained. -/
theorem opt_graft {α : Type} (a b : Option α) (h : a.isSome = b.isSome) : keepOld a b = a := by
  cases a <;> cases b <;> first | rfl | (simp [Option.isSome] at h)

theorem header_graft_same_class (old new : Blocks)
    (h1 : old.body.isSome = new.body.isSome) (h2 : old.handlers.isSome = new.handlers.isSome)
    (h3 : old.orelse.isSome = new.orelse.isSome) (h4 : old.finalbody.isSome = new.finalbody.isSome)
    (h5 : old.cases.isSome = new.cases.isSome) : graftBlocks old new = old := by
  obtain ⟨b, h, o, f, c⟩ := old
  simp only at h1 h2 h3 h4 h5
  have e1 := opt_graft _ _ h1; have e2 := opt_graft _ _ h2; have e3 := opt_graft _ _ h3
  have e4 := opt_graft _ _ h4; have e5 := opt_graft _ _ h5
  simp only [graftBlocks]
  rw [e1, e2, e3, e4, e5]

/-- `try: ... finally: ...` without handlers: the wrapper parse of the header has the synthetic `except: pass` handler
(kind 6 here), the old node has `handlers == []`; the result has no handler.  With a truthiness test instead of
`is not None` (seeded change C10-seed2A, not the code) the synthetic handler would stay. -/
theorem try_finally_no_phantom_handler :
    let old : Blocks := { body := some [.mk 3 none []], handlers := some [], orelse := some [], finalbody := some [.mk 3 none []] }
    let new : Blocks := { body := some [.mk 7 none []], handlers := some [.mk 6 none []], orelse := some [], finalbody := some [] }
    (graftBlocks old new).handlers = some [] ∧ (graftBlocks old new).flat.length = 2 := by
  exact ⟨rfl, rfl⟩

/-! ## `clip_src_loc` and the returned end -/

theorem lenAt_nonneg (lines : Lines) (i : Int) : 0 ≤ lenAt lines i := by simp [lenAt]

theorem clipCol_range (len : Int) (c : Coord) (h : 0 ≤ len) : 0 ≤ clipCol len c ∧ clipCol len c ≤ len := by
  cases c with
  | endc => simp [clipCol, h]
  | idx i => simp only [clipCol]; split <;> omega

/-- **clip_in_range**: whatever integers or `'end'` are passed, a returned rectangle lies inside the source and its end
does not precede its start. -/
theorem clip_in_range (lines : Lines) (a b c d : Coord) (ln col eln ecol : Int) (hne : lines ≠ [])
    (h : clipSrcLoc lines a b c d = some (ln, col, eln, ecol)) :
    0 ≤ ln ∧ ln ≤ eln ∧ eln < lines.length ∧ 0 ≤ col ∧ col ≤ lenAt lines ln ∧ 0 ≤ ecol ∧ ecol ≤ lenAt lines eln
    ∧ (ln = eln → col ≤ ecol) := by
  have hlen : 0 < (lines.length : Int) := by
    cases lines with
    | nil => exact absurd rfl hne
    | cons _ _ => simp only [List.length_cons]; omega
  unfold clipSrcLoc at h
  simp only at h
  generalize normLn (lines.length : Int) a = x at h
  generalize normLn (lines.length : Int) c = y at h
  split at h
  · exact absurd h (by simp)
  · next hle =>
    split at h
    · exact absurd h (by simp)
    · next hcol =>
      simp only [Option.some.injEq, Prod.mk.injEq] at h
      obtain ⟨h1, h2, h3, h4⟩ := h
      have r1 := clipCol_range (lenAt lines ln) b (lenAt_nonneg _ _)
      have r2 := clipCol_range (lenAt lines eln) d (lenAt_nonneg _ _)
      rw [h1] at h2 hcol; rw [h3] at h4 hcol
      rw [h2] at r1 hcol; rw [h4] at r2 hcol
      refine ⟨by omega, by omega, by omega, r1.1, r1.2, r2.1, r2.2, ?_⟩
      intro he
      simp only [Bool.and_eq_true, beq_iff_eq, decide_eq_true_eq, not_and] at hcol
      have := hcol he.symm
      omega

/-- **ret_end_is_end_of_new_text**: in the spliced source, everything after the returned `(end_ln, end_col)` is exactly
the old text after the replaced rectangle ("all source after this was not modified"). -/
theorem ret_end_is_end_of_new_text (lines new : Lines) (r : Rect) (hln : r.ln < lines.length)
    (hcol : r.col ≤ (lineAt lines r.ln).length) (hnew : new ≠ []) :
    (lineAt (putSrc lines new r) (retEnd new r).1).drop (retEnd new r).2 = (lineAt lines r.endLn).drop r.endCol
    ∧ (putSrc lines new r).drop ((retEnd new r).1 + 1) = lines.drop (r.endLn + 1) := by
  have htl : (lines.take r.ln).length = r.ln := by rw [List.length_take]; omega
  have hpre : ((lineAt lines r.ln).take r.col).length = r.col := by rw [List.length_take]; omega
  match new, hnew with
  | [l], _ =>
    simp only [putSrc, retEnd]
    constructor
    · rw [List.append_assoc, lineAt_append_right _ _ _ (by omega), htl, Nat.sub_self]
      simp only [List.singleton_append, lineAt_cons_zero]
      rw [List.append_assoc, List.drop_append, hpre]
      simp [List.drop_of_length_le (by omega : ((lineAt lines r.ln).take r.col).length ≤ r.col + l.length)]
    · rw [List.append_assoc, List.drop_append, htl]
      simp [List.drop_of_length_le (by omega : (lines.take r.ln).length ≤ r.ln + 1)]
  | l :: l2 :: rest, _ =>
    simp only [putSrc, retEnd]
    have hmid : (((lineAt lines r.ln).take r.col ++ l) :: ((l2 :: rest).dropLast ++
        [(l2 :: rest).getLast?.getD [] ++ (lineAt lines r.endLn).drop r.endCol])).length = (l2 :: rest).length + 1 := by
      simp [List.length_dropLast]
    constructor
    · rw [List.append_assoc, lineAt_append_right _ _ _ (by omega), htl]
      rw [lineAt_append_left _ _ _ (by rw [hmid]; omega)]
      have : r.ln + (l2 :: rest).length - r.ln = (l2 :: rest).dropLast.length + 1 := by
        simp [List.length_dropLast]
      rw [this, lineAt_cons_succ, lineAt_append_right _ _ _ (by omega), Nat.sub_self]
      simp only [lineAt_cons_zero]
      rw [List.drop_append]
      simp
    · rw [List.append_assoc, List.drop_append, htl]
      rw [List.drop_of_length_le (by omega : (lines.take r.ln).length ≤ r.ln + (l2 :: rest).length + 1)]
      rw [List.nil_append, List.drop_append, hmid]
      rw [List.drop_of_length_le (by rw [hmid]; omega)]
      simp
      have : r.ln + (rest.length + 1) + 1 - r.ln - (rest.length + 1 + 1) = 0 := by omega
      simp [this]

/-- non-vacuity of `clip_in_range` / `ret_end_is_end_of_new_text`: negative and `'end'` coordinates on a 2-line source -/
example : clipSrcLoc ["ab".toList, "cde".toList] (.idx (-2)) (.idx 1) .endc (.idx (-1)) = some (0, 1, 1, 2) := by decide
example : retEnd ["x".toList, "yz".toList] ⟨0, 1, 1, 2⟩ = (1, 2)
    ∧ putSrc ["ab".toList, "cde".toList] ["x".toList, "yz".toList] ⟨0, 1, 1, 2⟩ = ["ax".toList, "yze".toList] := by decide

/-! ## non-vacuity -/

/-- `wrapper_cols` hypotheses are met by a real shape: an indented statement on line 2 of 3. -/
example : ∃ cl fl, wrapIndented ["if a:".toList, "    é = 1".toList, "    y".toList]
    { kind := .simple, isElif := false, selfIsElif := false, isRoot := false, pln := 1, pcol := 4, pendLn := 1,
      pendCol := 9, blkheadEnd := (0, 0), indent := "    ".toList } 1 = some (cl, fl)
    ∧ cl = ["if _:".toList, "    é = 1".toList] ∧ fl = 2 := ⟨_, _, rfl, by decide, rfl⟩

/-- the negative `dpcol` branch: statement on a block header line, before where the block indent would put it -/
example : pcolIndent "    ".toList 2 = "  ".toList := by decide

/-- `reparse_eq_full_partial` hypotheses are met by a concrete non-trivial state: `if a:\n    bc\n    d`, replacing
`bc` by `xyz`: the enclosing `If` ends with the LATER statement `d`, so its end is stable. -/
def okOff : Off := paramsOffset 1 1 1 6 3 4
def okZip : Zip :=
  { ctx := [{ kind := 1, pos := some ⟨1, 0, 3, 5⟩, left := [.mk 2 (some ⟨1, 3, 1, 4⟩) []],
              right := [.mk 3 (some ⟨3, 4, 3, 5⟩) [.mk 2 (some ⟨3, 4, 3, 5⟩) []]] },
            { kind := 0, pos := none, left := [], right := [] }],
    focus := .mk 3 (some ⟨2, 4, 2, 6⟩) [.mk 2 (some ⟨2, 4, 2, 6⟩) []] }
def okSub : Node := .mk 3 (some ⟨2, 4, 2, 7⟩) [.mk 2 (some ⟨2, 4, 2, 7⟩) []]
def okFull : Node :=
  .mk 0 none [.mk 1 (some ⟨1, 0, 3, 5⟩) [.mk 2 (some ⟨1, 3, 1, 4⟩) [], .mk 3 (some ⟨2, 4, 2, 7⟩) [.mk 2 (some ⟨2, 4, 2, 7⟩) []],
                                          .mk 3 (some ⟨3, 4, 3, 5⟩) [.mk 2 (some ⟨3, 4, 3, 5⟩) []]]]

example : (reparseTree okOff f6Mode okZip okSub).tree = okFull := by
  have pl : ParseLocal okOff f6Mode okZip okSub okFull okZip.ctx :=
    ⟨by rfl, .cons ⟨rfl, by rfl, by rfl, by simp only [startsBefore, okOff, paramsOffset]; decide⟩
                  (.cons ⟨rfl, rfl, rfl, trivial⟩ .nil)⟩
  refine reparse_eq_full_partial okOff f6Mode okZip okSub okFull rfl (by decide) _ pl ?_
  refine .cons ?_ (.cons (by simp only [FrameEndStable]) .nil)
  simp only [FrameEndStable, okOff, paramsOffset, movePt]; decide

/-- `reparse_atomic` / `reparse_src` with a parser that rejects one text and accepts another. -/
example : (runBase (fun ls => if ls = [['x']] then some 1 else none) (fun (_ : Nat) w => w) ⟨[['a']], 0⟩ [['a']] [['(']] ⟨0, 0, 0, 1⟩).self
    = ⟨[['a']], 0⟩ := by rfl
example : (runBase (fun ls => if ls = [['x']] then some 1 else none) (fun (_ : Nat) w => w) ⟨[['a']], 0⟩ [['a']] [['x']] ⟨0, 0, 0, 1⟩).self
    = ⟨[['x']], 1⟩ := by rfl

end Pfst.C10

/-! ## histories: the modification registry -/
namespace Pfst.C10
open Pfst.Raw Pfst.Modifying

/-- One raw put restores the registry exactly, whether it returns, the parser refuses, or `enter()` itself refuses. -/
theorem raw_put_registry_restored {T W : Type} (parse : Lines → Option W) (guard : W → Bool) (fix : T → W → T)
    (parseFull : Lines → Option T) (w : World T) (e : Edit) (hwf : w.reg.wf = true) :
    (rawPut parse guard fix parseFull w e).1.reg = w.reg := by
  unfold rawPut
  split
  · rfl
  · next reg1 he =>
    have h := (enter_then_exit e.node true false w.reg reg1 hwf he).2
    simp only [h]

/-- From an empty registry a raw put fails only with the parser's exception, exactly when `_reparse_raw` raises (that is,
by `raw_refuses_only_invalid`, only when the whole new source is invalid) — never with the registry's
`RuntimeError('nested modification ...')`. -/
theorem raw_put_outcome {T W : Type} (parse : Lines → Option W) (guard : W → Bool) (fix : T → W → T)
    (parseFull : Lines → Option T) (st : St T) (e : Edit) :
    (rawPut parse guard fix parseFull ⟨st, []⟩ e).2 =
      if (runRaw parse guard fix parseFull st (e.copyOf st.lines) e.new e.rect).raised then some (Exc.user true) else none := by
  have he : enter e.node true false [] = .ok [(e.node.root, (e.node.node, 1))] := rfl
  have hx := (enter_then_exit e.node true false [] _ rfl he).2
  unfold rawPut
  simp only [he, hx]

/-- **raw_seq_registry_empty**: after ANY history of raw puts (accepted and refused, on any nodes, any texts) that starts
with an empty registry, the registry is empty again. -/
theorem raw_seq_registry_empty {T W : Type} (parse : Lines → Option W) (guard : W → Bool) (fix : T → W → T)
    (parseFull : Lines → Option T) (st : St T) (es : List Edit) :
    (runSeq parse guard fix parseFull ⟨st, []⟩ es).1.reg = [] := by
  induction es generalizing st with
  | nil => rfl
  | cons e es ih =>
    have h := raw_put_registry_restored parse guard fix parseFull ⟨st, []⟩ e rfl
    simp only [runSeq]
    have hw : rawPut parse guard fix parseFull ⟨st, []⟩ e
        = (⟨(rawPut parse guard fix parseFull ⟨st, []⟩ e).1.st, []⟩, (rawPut parse guard fix parseFull ⟨st, []⟩ e).2) := by
      rcases hr : rawPut parse guard fix parseFull ⟨st, []⟩ e with ⟨⟨s1, r1⟩, o⟩
      rw [hr] at h
      simp only at h
      subst h
      rfl
    rw [hw]
    exact ih _

/-- **raw_seq_no_registry_error**: in such a history no step ever fails because of an earlier step: every outcome is
"returned" or the parser's own refusal. -/
theorem raw_seq_no_registry_error {T W : Type} (parse : Lines → Option W) (guard : W → Bool) (fix : T → W → T)
    (parseFull : Lines → Option T) (st : St T) (es : List Edit) :
    ∀ o ∈ (runSeq parse guard fix parseFull ⟨st, []⟩ es).2, o = none ∨ o = some (Exc.user true) := by
  induction es generalizing st with
  | nil => intro o ho; simp [runSeq] at ho
  | cons e es ih =>
    intro o ho
    have h := raw_put_registry_restored parse guard fix parseFull ⟨st, []⟩ e rfl
    have hout := raw_put_outcome parse guard fix parseFull st e
    rcases hr : rawPut parse guard fix parseFull ⟨st, []⟩ e with ⟨⟨s1, r1⟩, o1⟩
    rw [hr] at h hout
    simp only at h hout
    subst h
    simp only [runSeq, hr, List.mem_cons] at ho
    rcases ho with rfl | ho
    · rw [hout]; split <;> simp
    · exact ih s1 o ho

/-- **leaky_seq_false**: with the manual `enter() ... success()` protocol that forgets `fail()` (not the code; seeded
mutation C10-seedB) a refused put leaves its entry behind, and the next put — valid, on another node — is refused with
the registry's `nested` error.  Parser: rejects `(`, accepts everything else. -/
theorem leaky_seq_false :
    let parse : Lines → Option Nat := fun ls => if ls = [['(']] then none else some 0
    let e1 : Edit := ⟨⟨0, 1⟩, id, [['(']], ⟨0, 0, 0, 1⟩⟩
    let e2 : Edit := ⟨⟨0, 2⟩, id, [['b']], ⟨0, 0, 0, 1⟩⟩
    let r := runSeqLeaky parse (fun _ => true) (fun (_ : Nat) w => w) parse ⟨⟨[['a']], 0⟩, []⟩ [e1, e2]
    r.2 = [some (Exc.user true), some Exc.nested] ∧ r.1.reg ≠ [] ∧ r.1.st.lines = [['a']]
    ∧ (runSeq parse (fun _ => true) (fun (_ : Nat) w => w) parse ⟨⟨[['a']], 0⟩, []⟩ [e1, e2]).2
        = [some (Exc.user true), none] := by
  decide

end Pfst.C10
