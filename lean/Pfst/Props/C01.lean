import Pfst.EditLemmas

/-!
# C01 — after any successful edit the source text still parses to exactly the live tree

"Parses to the live tree" is split (DESIGN.md §1.3, §4 C01) into what Lean can carry and what only CPython can judge:

* **positional consistency** (this file): a single-node replacement — the shape of every `_put_one_*` handler: one text
  rectangle spliced, the sub-tree at a path replaced, later nodes moved, ancestors grown — keeps the document well formed
  (children inside parents, siblings ordered, no overlap) and keeps every other node on its text, for every tree, every
  path, every replacement, and every *sequence* of such edits (`steps_wf`);
* **grouping** of the printed replacement: `Pfst/Props/C09.lean`;
* **the 2-D text splice and byte/char columns**: `Pfst/Props/C04.lean`, `Pfst/Props/C11.lean`;
* **CPython agrees with the post-state** is an external parameter, checked per case by the sweep on the real code.
-/
namespace Pfst.C01
open Pfst.Edit

variable {α : Type}

/-- Text before the spliced rectangle is untouched: a node that ends at or before the rectangle denotes the same text at
the same coordinates. -/
theorem text_before (t : List α) (ed : Ed α) (sp : Span) (h1 : sp.e ≤ ed.s) (h2 : ed.s ≤ t.length) :
    textAt (applyText t ed) sp = textAt t sp := textAt_before t ed sp h1 h2

/-- A node that starts at or after the rectangle denotes the same text at the shifted coordinates. -/
theorem text_after (t : List α) (ed : Ed α) (sp : Span) (h1 : ed.e ≤ sp.s) (h0 : ed.s ≤ ed.e) (h2 : ed.e ≤ t.length) :
    textAt (applyText t ed) (shiftSpan ed sp) = textAt t sp := textAt_after t ed sp h1 h0 h2

/-- The new node sits exactly on the text that was put. -/
theorem text_new (t : List α) (ed : Ed α) (h2 : ed.s ≤ t.length) :
    textAt (applyText t ed) ⟨ed.s, ed.s + ed.new.length⟩ = ed.new := textAt_new t ed h2

/-- One replacement keeps the tree well formed (children inside parents, siblings ordered and disjoint) — any tree, any
depth, any path, any replacement sub-tree that is itself well formed and spans the new text. -/
theorem replace_wf (ed : Ed α) (sub : T) (path : List Nat) (t : T)
    (hsub : wfT sub = true) (hsp : sub.sp = ⟨0, ed.new.length⟩) (h0 : ed.s ≤ ed.e)
    (hw : wfT t = true) (hp : pathOk ed path t = true) : wfT (replaceAt ed sub path t) = true :=
  (replaceAt_wf ed sub hsub hsp h0 path t hw hp).1

/-- An edit request: rectangle + new text, replacement sub-tree (relative to the new text), path of the target. -/
structure Step (α : Type) where
  ed : Ed α
  sub : T
  path : List Nat

/-- what the handler validates before it mutates anything -/
def applicable (st : Step α) (t : T) : Bool :=
  wfT st.sub && (st.sub.sp == ⟨0, st.ed.new.length⟩) && decide (st.ed.s ≤ st.ed.e) && pathOk st.ed st.path t

/-- a document: flat text + position tree -/
structure Doc (α : Type) where
  text : List α
  tree : T

/-- validate, then apply; an inapplicable request changes nothing -/
def step (d : Doc α) (st : Step α) : Doc α :=
  if applicable st d.tree then ⟨applyText d.text st.ed, replaceAt st.ed st.sub st.path d.tree⟩ else d

def run (d : Doc α) (steps : List (Step α)) : Doc α := steps.foldl step d

/-- **After each step of an arbitrarily long sequence of edits the document is well formed.** -/
theorem steps_wf (d : Doc α) (steps : List (Step α)) (hw : wfT d.tree = true) : wfT (run d steps).tree = true := by
  induction steps generalizing d with
  | nil => simpa [run] using hw
  | cons st rest ih =>
    simp only [run, List.foldl_cons]
    apply ih
    unfold step
    split
    · next ha =>
      simp only [applicable, Bool.and_eq_true, decide_eq_true_eq, beq_iff_eq] at ha
      exact replace_wf st.ed st.sub st.path d.tree ha.1.1.1 ha.1.1.2 ha.1.2 hw ha.2
    · exact hw

/-- A refused request is the identity (validate-before-mutate), any request. -/
theorem refused_identity (d : Doc α) (st : Step α) (h : applicable st d.tree = false) : step d st = d := by
  simp [step, h]

/-! ### non-vacuity -/

private def doc0 : Doc Char :=
  ⟨"x = a + b * c".toList, .mk 0 ⟨0, 13⟩ [.mk 1 ⟨0, 1⟩ [], .mk 2 ⟨4, 13⟩ [.mk 3 ⟨4, 5⟩ [], .mk 4 ⟨8, 13⟩ [.mk 5 ⟨8, 9⟩ [], .mk 6 ⟨12, 13⟩ []]]]⟩
/-- replace `a` (path [1, 0]) by `(p or q)` -/
private def st0 : Step Char := ⟨⟨4, 5, "(p or q)".toList⟩, .mk 7 ⟨0, 8⟩ [.mk 8 ⟨1, 2⟩ [], .mk 9 ⟨6, 7⟩ []], [1, 0]⟩

example : wfT doc0.tree = true := by decide
example : applicable st0 doc0.tree = true := by decide
example : String.ofList (step doc0 st0).text = "x = (p or q) + b * c" := by decide
example : flattenT (step doc0 st0).tree =
    [(0, ⟨0, 20⟩), (1, ⟨0, 1⟩), (2, ⟨4, 20⟩), (7, ⟨4, 12⟩), (8, ⟨5, 6⟩), (9, ⟨10, 11⟩), (4, ⟨15, 20⟩), (5, ⟨15, 16⟩), (6, ⟨19, 20⟩)] := by
  decide
example : textAt (step doc0 st0).text ⟨15, 20⟩ = textAt doc0.text ⟨8, 13⟩ := by decide

end Pfst.C01
