import Pfst.CoerceLemmas
import Pfst.Gen.Coerce

/-!
# C19 — coercion yields a valid node of the requested kind with the same content

Model: `Pfst/Coerce.lean` (`toPattern` = `_coerce_to_pattern_ast`, `toExpr` = `_coerce_to_expr_ast` on patterns,
`coerce` = `code_as(..., coerce=True)` for the modes `expr`, `pattern`, `Tuple`, `List`, `Set`).  `fmt` is Python's
`is_FST` (the operand carries source).  The matrix `Pfst/Gen/Coerce.lean` is regenerated from `/repo` on every run.

Trusted: the transcription of the Python functions into the model (validated differentially on every run against the
real functions and the public entry points, both routes) and the harness' translation of CPython trees to the model.
-/
namespace Pfst.C19
open Pfst.Coerce

/-- **Expression -> pattern keeps the content.**  Whenever the coercion returns, the pattern has exactly the names and
constants of the expression, in the same order (wildcard = the name `_`).  Any tree, any depth, both routes. -/
theorem toPattern_leaves (fmt : Bool) (e : Expr) (p : Pattern) (h : toPattern fmt e = some p) :
    p.leaves = e.leaves := toPattern_leaves' fmt e p h

/-- **Pattern -> expression keeps the content.** -/
theorem toExpr_leaves (fmt : Bool) (p : Pattern) (e : Expr) (h : toExpr fmt p = some e) :
    e.leaves = p.leaves := toExpr_leaves' fmt p e h

/-- **Round trip** (pure-AST route).  A converted expression converts back, and the result is the expression's normal
form `Expr.norm`: exactly the same tree except that every converted `Tuple`/`Set` has become a `List` (a pattern
sequence has no kind) and the source-only `lpar` annotation is gone.  In particular the wildcard `_`, `*_`, `**rest`,
keyword order, `None/True/False` and a flattened `(a | b) | c` all come back exactly.
(Exact equality `e' = e` is false: `toPattern false (.tuple []) = some (.seq .other [])`, which gives `.list []`.) -/
theorem roundtrip (e : Expr) (p : Pattern) (h : toPattern false e = some p) :
    toExpr false p = some e.norm := roundtrip' e p h

/-- the normal form differs from the expression in container kinds only: same leaves -/
theorem norm_leaves (e : Expr) : e.norm.leaves = e.leaves := norm_leaves' e

/-- **Already the requested kind: returned unchanged** (the guard of `_code_as` / `_code_as_expr`). -/
theorem same_kind_id (fmt : Bool) (t : Target) (n : Node) (h : kindOK n t = true) : coerce fmt t n = some n := by
  simp [coerce, h]

/-- **Refuses or returns the requested kind.** -/
theorem refuses_or_kind (fmt : Bool) (t : Target) (n r : Node) (h : coerce fmt t n = some r) : kindOK r t = true := by
  unfold coerce at h
  split at h
  · next hk => simp at h; subst h; exact hk
  · cases t with
    | pattern =>
      cases n with
      | e x => simp only [Option.map_eq_some_iff] at h; obtain ⟨p, _, hp⟩ := h; subst hp; simp [kindOK]
      | p x => simp at h
    | expr =>
      simp only [Option.map_eq_some_iff] at h; obtain ⟨x, _, hx⟩ := h; subst hx; simp [kindOK]
    | seq k =>
      cases k with
      | tuple =>
        simp only at h
        split at h
        · simp at h; subst h; simp [kindOK, Expr.seqKind]
        · simp at h
      | list =>
        simp only at h
        split at h
        · simp at h
        · next x _ =>
          split at h
          · next hs => simp at h; subst h; simpa [kindOK] using hs
          · split at h
            · simp at h; subst h; simp [kindOK, SeqKind.wrap, Expr.seqKind]
            · simp at h
      | set =>
        simp only at h
        split at h
        · simp at h
        · next x _ =>
          split at h
          · next hs => simp at h; subst h; simpa [kindOK] using hs
          · split at h
            · simp at h; subst h; simp [kindOK, SeqKind.wrap, Expr.seqKind]
            · simp at h

/-- what `coerce` to a sequence kind does once the first step of `_coerce_to_expr_ast` has produced a sequence (on the
pure route the second step is only survivable when it is not needed) -/
theorem coerce_seq_of_first (fmt : Bool) (k : SeqKind) (n : Node) (x : Expr) (es : List Expr)
    (hk : kindOK n (.seq k) = false) (hf : firstStep fmt n = some x)
    (hx : x = .tuple es ∨ (x = .list es ∧ (fmt = true ∨ k = .list)) ∨ (x = .set es ∧ (fmt = true ∨ k = .set))) :
    coerce fmt (.seq k) n = some (.e (k.wrap es)) := by
  rcases hx with hx | ⟨hx, hc⟩ | ⟨hx, hc⟩ <;> subst hx
  · cases k <;> simp [coerce, hk, exprAst, hf, Expr.seqKind, SeqKind.wrap]
  · rcases hc with hc | hc
    · subst hc
      cases k <;> simp [coerce, hk, exprAst, secondStep, hf, Expr.seqKind, Expr.elts, SeqKind.wrap]
    · subst hc
      simp [coerce, hk, exprAst, hf, Expr.seqKind, SeqKind.wrap]
  · rcases hc with hc | hc
    · subst hc
      cases k <;> simp [coerce, hk, exprAst, secondStep, hf, Expr.seqKind, Expr.elts, SeqKind.wrap]
    · subst hc
      simp [coerce, hk, exprAst, hf, Expr.seqKind, SeqKind.wrap]

/-- the crash of the second step on a pure AST -/
theorem coerce_seq_pure_twostep (k : SeqKind) (n : Node) (es : List Expr) (hk : kindOK n (.seq k) = false)
    (hf : firstStep false n = some (.list es)) (hne : k ≠ .list) : coerce false (.seq k) n = none := by
  cases k <;> simp [coerce, hk, exprAst, secondStep, hf, Expr.seqKind] at hne ⊢

theorem coerce_seq_none (fmt : Bool) (k : SeqKind) (n : Node) (hk : kindOK n (.seq k) = false)
    (hf : firstStep fmt n = none) : coerce fmt (.seq k) n = none := by
  cases k <;> simp [coerce, hk, exprAst, hf]

theorem wrap_kind (k : SeqKind) (es : List Expr) : (k.wrap es).seqKind = some k ∧ (k.wrap es).elts = es := by
  cases k <;> simp [SeqKind.wrap, Expr.seqKind, Expr.elts]

/-- **Sequence coercion keeps exactly the elements, in order**: a `Tuple`/`List`/`Set` coerced to any of the three
kinds is a node of the requested kind with the same element list (nothing dropped, duplicated or reordered,
whatever the length). -/
theorem seq_elements (fmt : Bool) (k : SeqKind) (e : Expr) (r : Node) (hs : e.seqKind.isSome = true)
    (h : coerce fmt (.seq k) (.e e) = some r) :
    ∃ r', r = .e r' ∧ r'.seqKind = some k ∧ r'.elts = e.elts := by
  by_cases hk : kindOK (.e e) (.seq k) = true
  · rw [same_kind_id fmt _ _ hk] at h
    simp at h; subst h
    exact ⟨e, rfl, by simpa [kindOK] using hk, rfl⟩
  · have hk' : kindOK (.e e) (.seq k) = false := by simpa using hk
    cases e with
    | tuple es =>
      by_cases hsl : es.any Expr.isSlice = true
      · rw [coerce_seq_none fmt k _ hk' (by simp [firstStep, hsl])] at h; simp at h
      · rw [coerce_seq_of_first fmt k _ (.tuple es) es hk' (by simp [firstStep, hsl]) (Or.inl rfl)] at h
        simp at h; subst h
        exact ⟨_, rfl, (wrap_kind k es).1, (wrap_kind k es).2⟩
    | list es =>
      rw [coerce_seq_of_first fmt k _ (.tuple es) es hk' (by simp [firstStep]) (Or.inl rfl)] at h
      simp at h; subst h
      exact ⟨_, rfl, (wrap_kind k es).1, (wrap_kind k es).2⟩
    | set es =>
      rw [coerce_seq_of_first fmt k _ (.tuple es) es hk' (by simp [firstStep]) (Or.inl rfl)] at h
      simp at h; subst h
      exact ⟨_, rfl, (wrap_kind k es).1, (wrap_kind k es).2⟩
    | _ => simp [Expr.seqKind] at hs

/-- **A sequence pattern coerced to `Tuple`/`List`/`Set`** has exactly the converted sub-patterns as elements, in order. -/
theorem seq_elements_pattern (fmt : Bool) (k : SeqKind) (d : Delim) (ps : List Pattern) (r : Node)
    (h : coerce fmt (.seq k) (.p (.seq d ps)) = some r) :
    ∃ r' es, r = .e r' ∧ r'.seqKind = some k ∧ toExprs fmt ps = some es ∧ r'.elts = es := by
  have hk' : kindOK (.p (.seq d ps)) (.seq k) = false := by simp [kindOK]
  cases hps : toExprs fmt ps with
  | none =>
    rw [coerce_seq_none fmt k _ hk' (by simp [firstStep, toExpr, hps])] at h; simp at h
  | some es =>
    have fin : coerce fmt (.seq k) (.p (.seq d ps)) = some (.e (k.wrap es)) →
        ∃ r' es', r = .e r' ∧ r'.seqKind = some k ∧ some es = some es' ∧ r'.elts = es' := by
      intro h'
      rw [h'] at h; simp at h; subst h
      exact ⟨_, es, rfl, (wrap_kind k es).1, rfl, (wrap_kind k es).2⟩
    cases fmt with
    | true =>
      have hf : ∃ x, firstStep true (.p (.seq d ps)) = some x ∧ (x = .tuple es ∨ x = .list es) := by
        simp only [firstStep, toExpr, hps]
        split
        · exact ⟨_, rfl, Or.inl rfl⟩
        · exact ⟨_, rfl, Or.inr rfl⟩
      obtain ⟨x, hf1, hf2⟩ := hf
      rcases hf2 with hf2 | hf2
      · exact fin (coerce_seq_of_first true k _ x es hk' hf1 (Or.inl hf2))
      · exact fin (coerce_seq_of_first true k _ x es hk' hf1 (Or.inr (Or.inl ⟨hf2, Or.inl rfl⟩)))
    | false =>
      have hf1 : firstStep false (.p (.seq d ps)) = some (.list es) := by simp [firstStep, toExpr, hps]
      by_cases hkl : k = .list
      · exact fin (coerce_seq_of_first false k _ _ es hk' hf1 (Or.inr (Or.inl ⟨rfl, Or.inr hkl⟩)))
      · rw [coerce_seq_pure_twostep k _ es hk' hf1 hkl] at h; simp at h

theorem secondStep_leaves (fmt : Bool) (r x : Expr) (hs : r.seqKind.isSome = true) (h : secondStep fmt r = some x) :
    x.leaves = r.leaves := by
  unfold secondStep at h
  split at h <;> simp at h
  subst h
  cases r <;> simp [Expr.seqKind] at hs <;> simp [Expr.leaves, Expr.elts]

/-- **Whatever `coerce` returns has the operand's leaves** (all five modelled modes, both routes). -/
theorem coerce_leaves (fmt : Bool) (t : Target) (n r : Node) (h : coerce fmt t n = some r) : r.leaves = n.leaves := by
  unfold coerce at h
  split at h
  · simp at h; subst h; rfl
  · have key : ∀ (ts : TwoStep) (x : Expr), exprAst fmt ts n = some x → x.leaves = n.leaves := by
      intro ts x hx
      unfold exprAst at hx
      split at hx
      · simp at hx
      · next y hy =>
        have hy' : y.leaves = n.leaves := by
          cases n with
          | p q => exact toExpr_leaves' fmt q y hy
          | e q =>
            cases q <;> simp [firstStep] at hy <;> (try subst hy) <;> simp [Node.leaves, Expr.leaves]
            next es => obtain ⟨_, h2⟩ := hy; subst h2; simp [Expr.leaves]
        split at hx
        · simp at hx; subst hx; exact hy'
        · next hsk => rw [secondStep_leaves fmt y x (by simp [hsk]) hx]; exact hy'
        · next hsk => rw [secondStep_leaves fmt y x (by simp [hsk]) hx]; exact hy'
        · next hsk =>
          split at hx
          · simp at hx; subst hx; exact hy'
          · rw [secondStep_leaves fmt y x (by simp [hsk]) hx]; exact hy'
        · next hsk =>
          split at hx
          · simp at hx; subst hx; exact hy'
          · rw [secondStep_leaves fmt y x (by simp [hsk]) hx]; exact hy'
        · simp at hx; subst hx; exact hy'
    cases t with
    | pattern =>
      cases n with
      | e x =>
        simp only [Option.map_eq_some_iff] at h; obtain ⟨p, hp, hr⟩ := h; subst hr
        exact toPattern_leaves' fmt x p hp
      | p x => simp at h
    | expr =>
      simp only [Option.map_eq_some_iff] at h; obtain ⟨x, hx, hr⟩ := h; subst hr
      exact key _ x hx
    | seq k =>
      cases k with
      | tuple =>
        simp only at h
        split at h
        · next es hx => simp at h; subst h; exact key _ _ hx
        · simp at h
      | list =>
        simp only at h
        split at h
        · simp at h
        · next x hx =>
          have := key _ x hx
          split at h
          · simp at h; subst h; exact this
          · split at h
            · simp at h; subst h; simpa [Node.leaves, SeqKind.wrap, Expr.leaves] using this
            · simp at h
      | set =>
        simp only at h
        split at h
        · simp at h
        · next x hx =>
          have := key _ x hx
          split at h
          · simp at h; subst h; exact this
          · split at h
            · simp at h; subst h; simpa [Node.leaves, SeqKind.wrap, Expr.leaves] using this
            · simp at h

/-! ### `arguments` operands of the special containers (`Pfst/CoerceArgs.lean`) -/

/-- **`arguments` -> `_type_params` keeps names and annotations in source order**: plain parameters, `*vararg`,
keyword-only parameters, `**kwarg` - in that order, whatever the lengths. -/
theorem args_type_params_leaves (a : Arguments) (ts : List TParam) (h : argsToTypeParams a = some ts) :
    leavesTs ts = a.leaves := argsToTypeParams_leaves' a ts h

/-- **`arguments` -> `_pattern_attrlikes` keeps the content**: positional patterns then keyword patterns have exactly the
parameter names (`_` = wildcard) and the leaves of the defaults, in source order (defaults come last in valid
`arguments`). -/
theorem args_attrlikes_leaves (fmt : Bool) (a : Arguments) (ps ks : List Pattern)
    (hs : defaultsSuffix a.args = true) (h : argsToAttrlikes fmt a = some (ps, ks)) :
    leavesP ps ++ leavesP ks = a.leaves := argsToAttrlikes_leaves' fmt a ps ks hs h

/-! ### formatted route vs pure-AST route

Full statement (property text: "coercing a formatted node and coercing its pure AST give structurally equal results"):
`∀ e, toPattern true e = toPattern false e` and `∀ p, toExpr true p = toExpr false p`.  Both are FALSE of the code. -/

/-- On expressions without a parenthesised left operand of `|` the two routes build the same pattern.
(The `toExpr` half - equal results when every `MatchSequence` is written with `[...]` - is not proved; the difference
itself is `routes_agree_false`.) -/
theorem routes_agree_partial (e : Expr) (h : e.plain = true) : toPattern true e = toPattern false e :=
  toPattern_routes' e h

/-- `(a | b) | c`: the formatted route keeps the nesting (`MatchOr[MatchOr[a, b], c]`), the pure route flattens
(`MatchOr[a, b, c]`).  `a, b` (a bare or parenthesised sequence pattern): formatted route gives a `Tuple`, pure route
a `List`. -/
theorem routes_agree_false :
    toPattern true (.binop (.binop (.name "a") .bitor (.name "b") false) .bitor (.name "c") true)
      ≠ toPattern false (.binop (.binop (.name "a") .bitor (.name "b") false) .bitor (.name "c") true)
    ∧ toExpr true (.seq .other [.capture (some "a"), .capture (some "b")])
      ≠ toExpr false (.seq .other [.capture (some "a"), .capture (some "b")]) := by
  constructor <;> simp [toPattern, toExpr, toExprs, Expr.isStarred, wild, unwild]

/-! ### the extracted coercion matrix (regenerated from /repo on every run) -/

open Pfst.Gen.Coerce

/-- outcome code is "returned a node of kind `o - 1`" -/
def isCoerces (o : Nat) : Bool := decide (0 < o) && decide (o < 1000)

def disabledNeverCoerces : Bool :=
  table.all fun (_, row) => row.all fun c => !(isCoerces (cellOff c))

def sameStable : Bool :=
  table.all fun (_, row) => row.all fun c => cellOff c != 0 || cellOn c == 0

/-- every kind a mode coerces to is a kind the same mode returns unchanged when it is given one -/
def coercesToAccepted : Bool :=
  table.all fun (_, row) => row.all fun c =>
    !(isCoerces (cellOn c)) || row.any fun c' => cellKind c' + 1 == cellOn c && cellOff c' == 0

/-- **`coerce=False` never changes anything**: every cell of the matrix with coercion disabled is "returned unchanged"
or "raised". -/
theorem matrix_disabled_never_coerces : disabledNeverCoerces = true := by decide +kernel

/-- **Already accepted ⇒ unchanged**: wherever a mode returns the witness unchanged with coercion disabled, it returns
it unchanged with coercion enabled. -/
theorem matrix_same_stable : sameStable = true := by decide +kernel

/-- **Refuses or requested kind** on the whole matrix: every result kind of a coercion into a mode is a kind that mode
accepts as it is. -/
theorem matrix_refuses_or_kind : coercesToAccepted = true := by decide +kernel

/-! ### non-vacuity: concrete trees meeting the hypotheses -/

/-- `{1: [a, *_], **rest}` -/
private def ex1 : Expr :=
  .dict [.kv (.const (.int false "1")) (.list [.name "a", .starred (.name "_")]), .dstar (.name "rest")]

/-- `cls(a, (b, None), k=x | -1 | 1+2j, l=m.n)` -/
private def ex2 : Expr :=
  .call (.name "cls")
    [.name "a", .tuple [.name "b", .const .none]]
    [.kw (some "k") (.binop (.binop (.name "x") .bitor (.unop .usub (.const (.int false "1"))) false) .bitor
        (.binop (.const (.int false "1")) .add (.const (.imag false "2j")) false) false),
     .kw (some "l") (.attr (.name "m") "n")]

example : toPattern false ex1 = some (.mapping
    [.mkv (.const (.int false "1")) (.seq .brackets [.capture (some "a"), .star none])] (some "rest")) := by rfl
example : (toPattern false ex1).map Pattern.leaves = some ex1.leaves := by decide
example : (toPattern true ex2).isSome = true := by decide
example : (toPattern false ex2).bind (toExpr false) = some ex2.norm := by rfl
example : ex2.norm ≠ ex2 := by simp [ex2, Expr.norm, normE]
-- refusals: `f(*a)`, `{**_}`, `a + b`, `_.x`, `{a | b: c}`
example : (toPattern false (.call (.name "f") [.starred (.name "a")] [])).isNone = true := by decide
example : (toPattern false (.dict [.dstar (.name "_")])).isNone = true := by decide
example : (toPattern false (.binop (.name "a") .add (.name "b") false)).isNone = true := by decide
example : (toPattern false (.attr (.name "_") "x")).isNone = true := by decide
example : (toPattern false (.dict [.kv (.binop (.name "a") .bitor (.name "b") false) (.name "c")])).isNone = true := by
  decide
-- `{...: c}`: an Ellipsis key is refused (repair C19-F3), `{None: c}` is not
example : (toPattern true (.dict [.kv (.const .ellipsis) (.name "c")])).isNone = true := by decide
example : (toPattern true (.dict [.kv (.const .none) (.name "c")])).isSome = true := by decide
-- `p as n` does not convert; `[a, *_]` converts to `[a, *_]`
example : (toExpr false (.asPat (.capture (some "a")) (some "n"))).isNone = true := by decide
example : toExpr true (.seq .brackets [.capture (some "a"), .star none])
    = some (.list [.name "a", .starred (.name "_")]) := by rfl
-- sequence re-wrapping: `(a, b)` to List; `[a, b]` pattern to Set (two steps); Tuple with a Slice refused
example : coerce true (.seq .list) (.e (.tuple [.name "a", .name "b"])) = some (.e (.list [.name "a", .name "b"])) := by
  rfl
example : coerce true (.seq .set) (.p (.seq .brackets [.capture (some "a"), .capture (some "b")]))
    = some (.e (.set [.name "a", .name "b"])) := by rfl
-- the same on a pure AST dies in the second step (`ast.f` of a node without `.f`: AttributeError), to List it works
example : (coerce false (.seq .set) (.p (.seq .brackets [.capture (some "a"), .capture (some "b")]))).isNone = true := by
  decide
example : coerce false (.seq .list) (.p (.seq .other [.capture (some "a"), .capture (some "b")]))
    = some (.e (.list [.name "a", .name "b"])) := by rfl
example : (coerce true (.seq .list) (.e (.tuple [.other "Slice" [], .name "b"]))).isNone = true := by decide
example : kindOK (.e (.list [])) (.seq .list) = true := by decide
example : (.binop (.name "a") .bitor (.name "b") false : Expr).plain = true := by decide
-- `x, *rest, key, **kw` as type parameters: `x, *rest, key, **kw`; `a, _, k=1` as class-pattern attributes: `a, _, k=1`
private def exArgs : Arguments :=
  { posonly := [], args := [⟨"x", none, none⟩], vararg := some ⟨"rest", none, none⟩, kwonly := [⟨"key", none, none⟩],
    kwarg := some ⟨"kw", none, none⟩ }
example : (argsToTypeParams exArgs).map leavesTs = some [.name "x", .name "rest", .name "key", .name "kw"] := by decide
private def exArgs2 : Arguments :=
  { posonly := [], args := [⟨"a", none, none⟩, ⟨"_", none, none⟩, ⟨"k", none, some (.const (.int false "1"))⟩],
    vararg := none, kwonly := [], kwarg := none }
example : (argsToAttrlikes true exArgs2).map (fun r => leavesP r.1 ++ leavesP r.2) = some exArgs2.leaves := by decide
example : defaultsSuffix exArgs2.args = true := by decide
example : (argsToAttrlikes true exArgs2).map (fun r => r.1.length) = some 2 := by decide
example : (argsToTypeParams { exArgs with vararg := none }).isNone = true := by decide

end Pfst.C19
