import Pfst.QuoteLemmas
import Pfst.PutBack
import Pfst.CommentLemmas
import Pfst.DocLemmas
import Pfst.Indentable
import Pfst.SharedDelims

/-!
# C08 — putting back what was taken restores the tree; accessors read back writes

Property theorems about the models in `Pfst/Quote.lean` (string quoting of `repr_str_multiline`, CPython's reading of a
triple-quoted literal, docstring indent/dedent, line-comment get/put) and `Pfst/PutBack.lean` (list / tree algebra of
the structural round trips).  Helper lemmas: `Pfst/QuoteLemmas.lean`.

`Cls` carries what the model does not define: `str.isprintable`, the printability test inside `repr`, `str.isspace`.
Every theorem quantifies over ALL classifications and states the (few) facts about them it needs as hypotheses; the
harness evaluates those facts on CPython in every run.
-/
namespace Pfst.C08
open Pfst.Quote Pfst.PutBack Pfst.Indentable

/-! ### string quoting -/

/-- **Every string survives `repr_str_multiline`.**  Whatever characters `s` contains (quotes, runs of quotes of both
kinds, a trailing quote, backslashes, newlines, tabs, control characters, non-printable or astral characters) the text
produced is a triple-quoted literal that CPython reads back as exactly `s`.  The only facts used about
`str.isprintable` are that `'\r'` and NUL are not printable (otherwise they would be emitted raw: the tokenizer
turns a raw `\r` into `\n` and rejects NUL). -/
theorem quote_roundtrip (k : Cls) (hCR : k.printable CR = false) (hNUL : k.printable NUL = false) (s : List Char) :
    decodeTriple (reprMultiline k s) = some s :=
  (reprMultiline_wq k hCR hNUL s).decode

/-- **The literal cannot end early.**  The output is `qqq body qqq` for one quote character `q`, and the tokenizer,
started just after the opening quotes (a backslash protects the next character; the first run of three `q` closes the
string), stops exactly at the last three characters with nothing left over. -/
theorem quote_lex_end (k : Cls) (hCR : k.printable CR = false) (hNUL : k.printable NUL = false) (s : List Char) :
    ∃ q body, (q = SQ ∨ q = DQ) ∧ reprMultiline k s = [q, q, q] ++ body ++ [q, q, q]
      ∧ findClose q false (body ++ [q, q, q]) = some (body, []) := by
  obtain ⟨q, body, hq, he, _, hf, _, _⟩ := reprMultiline_wq k hCR hNUL s
  exact ⟨q, body, hq, he, hf⟩

/-- The output never contains a raw carriage return or NUL (so no newline normalisation can touch it), hence also the
line structure pfst sees (`split('\n')`) is the one CPython sees. -/
theorem quote_clean (k : Cls) (hCR : k.printable CR = false) (hNUL : k.printable NUL = false) (s : List Char) :
    (reprMultiline k s).all (fun c => c != CR && c != NUL) = true := by
  obtain ⟨q, body, hq, he, hc, _, _, _⟩ := reprMultiline_wq k hCR hNUL s
  rw [he]
  have : cleanB q = true := Pfst.Quote.quote_clean hq
  simp only [List.all_append, List.all_cons, List.all_nil, Bool.and_true]
  change (cleanB q && (cleanB q && cleanB q) && body.all cleanB && (cleanB q && (cleanB q && cleanB q))) = true
  simp [this, hc]

/-! ### docstrings -/

theorem splitNL_head_first (s l0 : List Char) (ls : List (List Char)) (h : splitNL s = l0 :: ls) :
    ∀ c r, l0 = c :: r → ∃ r', s = c :: r' := by
  intro c r hl
  subst hl
  cases s with
  | nil => simp [splitNL] at h
  | cons a s' =>
    simp only [splitNL] at h
    split at h
    · simp at h
    · split at h
      · simp at h; exact ⟨s', by rw [h.1.1]⟩
      · simp at h; exact ⟨s', by rw [h.1.1]⟩

/-- **The dedent rule of `get_docstr` undoes the indentation `put_docstr` adds.**  `indentVal ind s` is the value the
docstring `Constant` has after the put (continuation lines carry the block indentation `ind`, empty lines that are not
the last one stay empty); if the text does not start with a blank or a tab, `get_docstr` returns exactly `s` — any
number of lines, lines with their own leading blanks or tabs, empty lines, a trailing newline, any `ind` made of blanks
and tabs (also the empty one of a module). -/
theorem docstr_dedent_roundtrip (ind s : List Char) (hi : wsOnly ind = true)
    (hf : ∀ c r, s = c :: r → (c == ' ' || c == TAB) = false) : getDocstr ind (indentVal ind s) = s := by
  unfold getDocstr indentVal
  cases h : splitNL s with
  | nil => exact absurd h (splitNL_ne_nil s)
  | cons l0 ls =>
    simp only []
    have hno := splitNL_noLF s
    rw [h] at hno
    have hi' := wsOnly_noLF ind hi
    have hall : ∀ x ∈ l0 :: indentValTail ind ls, LF ∉ x := by
      intro x hx
      simp only [List.mem_cons] at hx
      rcases hx with rfl | hx
      · exact hno _ (by simp)
      · exact indentValTail_noLF ind hi' ls (fun y hy => hno y (by simp [hy])) x hx
    rw [splitNL_joinNL _ (by simp) hall, List.map_cons, dedent_tail]
    have hl0 : dedentLine ind l0 = l0 := by
      apply dedentLine_first ind l0 hi
      intro c r hl
      obtain ⟨r', hs⟩ := splitNL_head_first s l0 ls h c r hl
      exact hf c r' hs
    rw [hl0, ← h, joinNL_splitNL]

/-- A text without a newline is put as a one-line literal, which the indentation does not touch: read back as `s`.
(The statement for multi-line texts is `docstr_roundtrip` below in a comment; its two halves are `quote_roundtrip` —
the literal denotes `s` — and `docstr_dedent_roundtrip` — the dedent undoes the indent.) -/
theorem docstr_roundtrip_partial (k : Cls) (hCR : k.printable CR = false) (hNUL : k.printable NUL = false)
    (ind s : List Char) (hi : wsOnly ind = true) (hs : LF ∉ s)
    (hf : ∀ c r, s = c :: r → (c == ' ' || c == TAB) = false) :
    (decodeTriple (putDocSrc ind (reprMultiline k s))).map (getDocstr ind) = some s := by
  have hno : LF ∉ reprMultiline k s := reprMultiline_noLF k hCR hNUL s hs
  have e : putDocSrc ind (reprMultiline k s) = reprMultiline k s := by
    unfold putDocSrc; rw [splitNL_single _ hno]; rfl
  rw [e, quote_roundtrip k hCR hNUL s]
  simp only [Option.map_some, Option.some.injEq]
  unfold getDocstr
  rw [splitNL_single _ hs]
  simp only [List.map_cons, List.map_nil, joinNL]
  exact dedentLine_first ind s hi hf

/- Full statement (not proved in Lean; checked on every run by the correspondence `put_docstr indentation vs putDocSrc`
   + `quote_roundtrip` + `docstr_dedent_roundtrip`, and directly on the real code by the docstring sweep):

   theorem docstr_roundtrip (k) (hCR) (hNUL) (ind s) (hi : wsOnly ind = true)
       (hf : ∀ c r, s = c :: r → (c == ' ' || c == TAB) = false) :
       (decodeTriple (putDocSrc ind (reprMultiline k s))).map (getDocstr ind) = some s

   Missing link: `decodeTriple (putDocSrc ind (reprMultiline k s)) = some (indentVal ind s)` for texts WITH newlines,
   i.e. that inserting `ind` after the raw newlines of the literal commutes with decoding (the inserted blanks/tabs are
   raw characters outside every escape sequence and never between quotes). -/

/-! ### indentable lines (re-indentation of copied / cut / put statements) -/

/-- **Dedent undoes indent, line by line**: for any block of lines, any list of multi-line string tokens, any `docstr`
mode and any indentation string, `_dedent_lns` after `_indent_lns` gives back every line unchanged (indentable lines
get the prefix and lose it again; all others are not touched by either). -/
theorem reindent_roundtrip (ind : List Char) (m : DocMode) (strs : List MStr) (ln : Nat) (lines : List (List Char)) :
    dedentBlock ind m strs ln (indentBlock ind m strs ln lines) = lines := by
  induction lines generalizing ln with
  | nil => rfl
  | cons l ls ih =>
    simp only [indentBlock, dedentBlock, ih]
    congr 1
    by_cases h : (indentable m strs ln && !l.isEmpty) = true
    · have hne : (ind ++ l).isEmpty = false := by
        simp only [Bool.and_eq_true, Bool.not_eq_true', List.isEmpty_eq_false_iff] at h
        simp [h.2]
      have hi : indentable m strs ln = true := by simp only [Bool.and_eq_true] at h; exact h.1
      rw [if_pos h, if_pos (by simp [hi, hne]), dedentLine_ind]
    · rw [if_neg h, if_neg h]

/-- **Lines that are not indentable are byte-identical** after `_indent_lns` and after `_dedent_lns`. -/
theorem indentBlock_fixed (ind : List Char) (m : DocMode) (strs : List MStr) (lo i : Nat) (lines : List (List Char))
    (h : indentable m strs (lo + i) = false) :
    (indentBlock ind m strs lo lines)[i]? = lines[i]? ∧ (dedentBlock ind m strs lo lines)[i]? = lines[i]? := by
  induction lines generalizing lo i with
  | nil => simp [indentBlock, dedentBlock]
  | cons l ls ih =>
    cases i with
    | zero =>
      simp only [Nat.add_zero] at h
      simp [indentBlock, dedentBlock, h]
    | succ j =>
      have h' : indentable m strs (lo + 1 + j) = false := by rw [← h]; congr 1; omega
      simpa [indentBlock, dedentBlock] using ih (lo + 1) j h'

/-- **A `bytes` literal is never a docstring**: the continuation lines of a multi-line `bytes` expression statement, and of
a string inside any other expression or f-string, are not indentable in any `docstr` mode — their text is part of the
value. -/
theorem bytes_never_indentable (m : DocMode) (strs : List MStr) (s : MStr) (ln : Nat) (hs : s ∈ strs)
    (hk : s.kind = .bytesExpr ∨ s.kind = .other) (hc : contLine s ln = true) : indentable m strs ln = false := by
  have hd : isDoc m s.kind = false := by rcases hk with h | h <;> rw [h] <;> cases m <;> rfl
  simp only [indentable, protectedLn, Bool.not_eq_false', List.any_eq_true]
  exact ⟨s, hs, by simp [hd, hc]⟩

/-- With `docstr='strict'` (and `False`) a `str` expression statement that is not the first statement of a def / class /
module is protected as well. -/
theorem strict_only_first (strs : List MStr) (s : MStr) (ln : Nat) (hs : s ∈ strs) (hk : s.kind = .docOther)
    (hc : contLine s ln = true) : indentable .strict strs ln = false ∧ indentable .off strs ln = false := by
  constructor <;>
  · simp only [indentable, protectedLn, Bool.not_eq_false', List.any_eq_true]
    exact ⟨s, hs, by simp [hk, isDoc, hc]⟩

example :
    let strs : List MStr := [⟨.docFirst, 1, 2⟩, ⟨.bytesExpr, 3, 4⟩]
    indentBlock "  ".toList .all strs 0 ["def f():".toList, "  \"\"\"a".toList, "b\"\"\"".toList, "  b'''x".toList, "y'''".toList, "".toList]
      = ["  def f():".toList, "    \"\"\"a".toList, "  b\"\"\"".toList, "    b'''x".toList, "y'''".toList, "".toList] := by decide

/-! ### line comments -/

theorem takeWhile_all (p : Char → Bool) (l : List Char) : (l.takeWhile p).all p = true := by
  induction l with
  | nil => rfl
  | cons c l ih =>
    by_cases h : p c = true
    · simp [List.takeWhile, h, ih]
    · simp [List.takeWhile, h]

/-- facts about `str.isspace` the comment theorems need -/
structure SpaceOK (k : Cls) : Prop where
  sp : k.space ' ' = true
  hash : k.space '#' = false
  semi : k.space ';' = false

/-- **A line comment written with `put_line_comment(c)` is read back by `get_line_comment()` as `c.strip()`** — for
every line tail (no comment yet, an old comment, an inert semicolon before it) on which the put takes the modelled
path, and every text `c` (`#` inside, quotes, backslashes, any non-newline character). -/
theorem comment_roundtrip (k : Cls) (hk : SpaceOK k) (tail c t' : List Char)
    (hp : commentPut k false tail c = .ok t') : commentGet k false t' = some (strip k c) := by
  obtain ⟨hg, hw, h3, ⟨rest, hrest⟩⟩ := reMatch_decomp k tail
  unfold commentPut at hp
  split at hp
  · cases hp
  split at hp
  · cases hp
  simp only [Bool.false_and, Bool.false_eq_true, if_false] at hp
  generalize hc1 : (if headSpace k c = true then c else ' ' :: c) = c1 at hp
  have hstrip : strip k c1 = strip k c := by
    rw [← hc1]; split
    · rfl
    · exact strip_cons_space k ' ' c hk.sp
  generalize (reMatch k tail).g1 = g at *
  generalize (reMatch k tail).w2 = w at *
  generalize (reMatch k tail).text = tx at *
  cases tx with
  | some t =>
    simp only [PutRes.ok.injEq] at hp
    have ht := h3 t rfl
    subst ht
    have e : (g ++ w ++ '#' :: t).take (g.length + w.length + 1) = g ++ w ++ ['#'] := by
      have : g ++ w ++ '#' :: t = (g ++ w ++ ['#']) ++ t := by simp
      rw [this, List.take_append_of_le_length (by simp; omega), List.take_of_length_le (by simp; omega)]
    rw [e] at hp
    have e' : t' = g ++ w ++ '#' :: c1 := by rw [← hp]; simp
    rw [e']
    unfold commentGet
    rw [reMatch_build k hk.hash hk.semi _ _ _ hg hw]
    simp [hstrip]
  | none =>
    simp only [] at hp
    split at hp
    · simp only [PutRes.ok.injEq] at hp
      subst hrest
      rw [take_g1] at hp
      have e' : t' = g ++ [' ', ' '] ++ '#' :: c1 := by rw [← hp]; simp
      rw [e']
      unfold commentGet
      rw [reMatch_build k hk.hash hk.semi _ _ _ hg (by simp [hk.sp])]
      simp [hstrip]
    · cases hp

/-- With `full=True` the comment (`ws* # text`) is read back verbatim. -/
theorem comment_roundtrip_full (k : Cls) (hk : SpaceOK k) (tail c t' : List Char)
    (hp : commentPut k true tail c = .ok t') : commentGet k true t' = some c := by
  obtain ⟨hg, hw, h3, ⟨rest, hrest⟩⟩ := reMatch_decomp k tail
  unfold commentPut at hp
  split at hp
  · cases hp
  split at hp
  · cases hp
  split at hp
  · cases hp
  next hne hnul hsh =>
  simp only [Bool.true_and, bne_iff_ne, ne_eq, Decidable.not_not] at hsh
  -- the comment is whitespace, `#`, text
  have hc : ∃ text, c = c.takeWhile k.space ++ '#' :: text := by
    have := List.takeWhile_append_dropWhile (p := k.space) (l := c)
    cases hd : c.dropWhile k.space with
    | nil => rw [hd] at hsh; simp at hsh
    | cons x xs =>
      rw [hd] at hsh this; simp at hsh; subst hsh
      exact ⟨xs, this.symm⟩
  obtain ⟨text, hc⟩ := hc
  have hwc : (c.takeWhile k.space).all k.space = true := by
    exact takeWhile_all k.space c
  simp only [if_true] at hp
  generalize (reMatch k tail).g1 = g at *
  generalize (reMatch k tail).text = tx at *
  have key : t' = g ++ c → commentGet k true t' = some c := by
    intro e
    rw [e]
    unfold commentGet
    have : g ++ c = g ++ c.takeWhile k.space ++ '#' :: text := by rw [List.append_assoc, ← hc]
    rw [this, reMatch_build k hk.hash hk.semi _ _ _ hg hwc]
    simp only [if_true]
    rw [List.append_assoc, drop_g1, ← hc]
  subst hrest
  cases tx with
  | some t =>
    simp only [PutRes.ok.injEq] at hp
    rw [take_g1] at hp
    exact key hp.symm
  | none =>
    simp only [] at hp
    split at hp
    · simp only [PutRes.ok.injEq] at hp
      rw [take_g1] at hp
      exact key hp.symm
    · cases hp

theorem commentGet_g1 (k : Cls) (hk : SpaceOK k) (full : Bool) (g : List Char) (hg : G1 k g) :
    commentGet k full g = none := by
  rcases hg with rfl | ⟨ws, hws, rfl⟩
  · simp [commentGet, reMatch, reGroup1, reGroup2, spanS]
  · have hsp : spanS k (ws ++ [';']) = (ws, [';']) :=
      spanS_append k ws _ hws (by intro c r' e; simp at e; rw [← e.1]; exact hk.semi)
    simp [commentGet, reMatch, reGroup1, reGroup2, hsp, spanS]

/-- characters that keep a physical line one line that CPython can read: no `\n`, no `\r`, no NUL -/
def lineOK (c : Char) : Bool := c != LF && c != CR && c != NUL

theorem contains_of_not_lineOK (c : List Char) (h : c.all lineOK = false) :
    (c.contains LF || c.contains CR) = true ∨ c.contains NUL = true := by
  have hm : LF ∈ c ∨ CR ∈ c ∨ NUL ∈ c := by
    induction c with
    | nil => simp at h
    | cons x c ih =>
      simp only [List.all_cons, Bool.and_eq_false_iff] at h
      rcases h with h | h
      · simp only [lineOK, Bool.and_eq_false_iff, bne_eq_false_iff_eq] at h
        rcases h with (h | h) | h <;> subst h <;> simp
      · rcases ih h with h' | h' | h' <;> simp [h']
  rcases hm with h' | h' | h'
  · left; simp [h']
  · left; simp [h']
  · right; simp [h']

/-- **`put_line_comment` refuses every text that would end the line or make the source unreadable** (`\n`, `\r`, NUL):
the repaired code raises `ValueError` for all three, whatever the line looks like. -/
theorem comment_put_refuses (k : Cls) (full : Bool) (tail c : List Char) (h : c.all lineOK = false) :
    commentPut k full tail c = .valueError := by
  unfold commentPut
  rcases contains_of_not_lineOK c h with h' | h'
  · rw [if_pos h']
  · split
    · rfl
    · rfl

theorem all_take (p : Char → Bool) (l : List Char) (n : Nat) (h : l.all p = true) : (l.take n).all p = true := by
  rw [List.all_eq_true] at h ⊢
  intro x hx; exact h x (List.mem_of_mem_take hx)

/-- **A written comment keeps the line one line**: if the text after the statement had no `\n`, `\r`, NUL, then after
any accepted `put_line_comment` (either `full` mode, old comment or not, semicolon or not) it still has none — the tree
CPython reads from the new source has the same statements on the same lines. -/
theorem comment_put_one_line (k : Cls) (full : Bool) (tail c t' : List Char) (ht : tail.all lineOK = true)
    (hp : commentPut k full tail c = .ok t') : t'.all lineOK = true := by
  unfold commentPut at hp
  split at hp
  · cases hp
  next h1 =>
  split at hp
  · cases hp
  next h2 =>
  split at hp
  · cases hp
  have hc : c.all lineOK = true := by
    cases hall : c.all lineOK with
    | true => rfl
    | false =>
      rcases contains_of_not_lineOK c hall with h' | h'
      · exact absurd h' h1
      · exact absurd h' h2
  generalize hc1 : (if full = true then c else if headSpace k c = true then c else ' ' :: c) = c1 at hp
  have hc1ok : c1.all lineOK = true := by
    rw [← hc1]; split
    · exact hc
    · split
      · exact hc
      · simp only [List.all_cons, hc, Bool.and_true]; decide
  simp only [] at hp
  split at hp
  · simp only [PutRes.ok.injEq] at hp
    rw [← hp, List.all_append, all_take _ _ _ ht, hc1ok]; rfl
  · split at hp
    · simp only [PutRes.ok.injEq] at hp
      rw [← hp, List.all_append, all_take _ _ _ ht]
      split
      · simp [hc1ok]
      · simp only [List.all_cons, hc1ok, Bool.and_true, Bool.true_and]; decide
    · cases hp

/-- After `put_line_comment(None)` there is no comment. -/
theorem comment_delete (k : Cls) (hk : SpaceOK k) (full : Bool) (tail : List Char) :
    commentGet k full (commentDel k tail) = none := by
  obtain ⟨hg, _, _, ⟨rest, hrest⟩⟩ := reMatch_decomp k tail
  cases hm : (reMatch k tail).text with
  | none =>
    have : commentDel k tail = tail := by simp [commentDel, hm]
    rw [this]; simp [commentGet, hm]
  | some t =>
    have : commentDel k tail = (reMatch k tail).g1 := by
      simp only [commentDel, hm]
      generalize (reMatch k tail).g1 = g at *
      subst hrest; exact take_g1 _ _
    rw [this]; exact commentGet_g1 k hk full _ hg

/-! ### list and tree algebra of the structural round trips -/

/-- Cutting the slice `[s, e)` out of a list field and putting it back at `s` restores the list. -/
theorem put_back {α} (xs : List α) (s e : Nat) (h1 : s ≤ e) (h2 : e ≤ xs.length) :
    putSlice (putSlice xs s e []) s s (slice xs s e) = xs := by
  unfold putSlice slice
  have hs : (xs.take s).length = s := by simp; omega
  simp only [List.append_nil]
  rw [List.take_append_of_le_length (by omega), List.take_take, Nat.min_self]
  rw [List.drop_append_of_le_length (by omega)]
  rw [List.drop_take_self]
  simp only [List.nil_append, List.append_assoc]
  have : List.drop e xs = List.drop (e - s) (List.drop s xs) := by
    rw [List.drop_drop]; congr 1; omega
  rw [this, List.take_append_drop, List.take_append_drop]

/-- Replacing the slice `[s, e)` by itself (copy instead of cut) changes nothing. -/
theorem put_copy {α} (xs : List α) (s e : Nat) (h1 : s ≤ e) (h2 : e ≤ xs.length) :
    putSlice xs s e (slice xs s e) = xs := by
  unfold putSlice slice
  have : List.drop e xs = List.drop (e - s) (List.drop s xs) := by
    rw [List.drop_drop]; congr 1; omega
  rw [List.append_assoc, this, List.take_append_drop, List.take_append_drop]

mutual
/-- Replacing the node at path `p` by (a copy of) the subtree found at `p` leaves the tree unchanged. -/
theorem replace_self : ∀ (t : Tree) (p : List Nat) (u : Tree), subtreeAt t p = some u → replaceAt t p u = t
  | .node kd ks, [], u, h => by
    simp [subtreeAt] at h; simp [replaceAt, h]
  | .node kd ks, i :: p, u, h => by
    simp only [subtreeAt] at h
    simp only [replaceAt, replace_self_list ks i p u h]
theorem replace_self_list : ∀ (ks : List Tree) (i : Nat) (p : List Nat) (u : Tree),
    subAtList ks i p = some u → replAtList ks i p u = ks
  | [], _, _, _, h => by simp [subAtList] at h
  | k :: ks, 0, p, u, h => by
    simp only [subAtList] at h
    simp only [replAtList, replace_self k p u h]
  | k :: ks, i + 1, p, u, h => by
    simp only [subAtList] at h
    simp only [replAtList, replace_self_list ks i p u h]
end

/-! ### the block header in a statement replacement -/

/-- **Outside the whole-`orelse` case the block header is untouched**: if a statement of the block remains before or
after the replaced range, or the block is not the `orelse` of an `If`, the replacement never turns `else:` into `elif`
nor an `elif` into `else:`. -/
theorem header_untouched (c : ElifCase)
    (h : c.hasPre = true ∨ c.hasPost = true ∨ c.isOrelse = false ∨ c.tgtIsIf = false) : elifDecision c = .keep := by
  unfold elifDecision
  rcases h with h | h | h | h <;> simp [h]

/-- **An `elif` is written only where the grammar allows one**: the whole `orelse` is replaced by a single `If`. -/
theorem toElif_sound (c : ElifCase) (h : elifDecision c = .toElif) : elifAllowed c = true := by
  unfold elifDecision at h
  unfold elifAllowed
  split at h
  · next hc =>
    split at h
    · next hd =>
      simp only [Bool.and_eq_true] at hc hd
      simp [hc.1.1.1, hc.1.1.2, hc.1.2, hc.2, hd.1.2, hd.2]
    · split at h <;> cases h
  · cases h

/-- and with `elif_` on it is written whenever it is allowed (an existing `elif` replaced by its copy stays one). -/
theorem toElif_complete (c : ElifCase) (h : elifAllowed c = true) (ho : c.optElif = true) : elifDecision c = .toElif := by
  unfold elifAllowed at h
  simp only [Bool.and_eq_true] at h
  unfold elifDecision
  simp [h.1.1.1.1.1, h.1.1.1.1.2, h.1.1.1.2, h.1.1.2, h.1.2, h.2, ho]

/-! ### sync / async twins -/

/-- **Sync and async twins get the same fix-up decision**, and the same membership in every statement family pfst
decides by (`ASTS_LEAF_WITH`, `_FOR`, `_FUNCDEF`, `_TRY` as extracted from the code on this run). -/
theorem twins_same_fixup :
    ∀ p ∈ Pfst.SharedDelims.twins, Pfst.SharedDelims.fixWithItems p.1 = Pfst.SharedDelims.fixWithItems p.2 ∧
      ∀ i, i < 4 → Pfst.SharedDelims.inFamily i p.1 = Pfst.SharedDelims.inFamily i p.2 := by decide

/-- The fix-up runs for `with` and for `async with`, and for no other statement kind of the table. -/
theorem with_family_fixed :
    Pfst.SharedDelims.fixWithItems "With" = true ∧ Pfst.SharedDelims.fixWithItems "AsyncWith" = true ∧
      (Pfst.Gen.C08Families.table.filter (fun r => Pfst.SharedDelims.fixWithItems r.1)).map (·.1) = ["AsyncWith", "With"] := by
  decide

/-- **An identifier is stored in the form CPython reads back**: all four identifier normalisers normalise (NFKC) in all four
code forms — the twins cannot disagree, and a node given as FST is treated like its source text. -/
theorem identifier_forms_normalised :
    Pfst.SharedDelims.identFormsNormalised = true ∧ Pfst.Gen.C08Ident.table.length = 16 := by decide

/-- **Source order is lexicographic**: a header child on a later line comes after one on an earlier line whatever the
columns, one on an earlier line never does, and on the same line the column decides — so the block colon is searched for
after the child that really is last. -/
theorem posAfter_spec (l1 c1 l2 c2 : Nat) :
    (l1 > l2 → Pfst.SharedDelims.posAfter l1 c1 l2 c2 = true) ∧
    (l1 < l2 → Pfst.SharedDelims.posAfter l1 c1 l2 c2 = false) ∧
    (l1 = l2 → Pfst.SharedDelims.posAfter l1 c1 l2 c2 = decide (c1 > c2)) := by
  unfold Pfst.SharedDelims.posAfter
  refine ⟨fun h => by simp [h], fun h => ?_, fun h => by subst h; simp⟩
  have h1 : ¬ l1 > l2 := by omega
  have h2 : (l1 == l2) = false := by simp; omega
  simp [h1, h2]

/-- **`AnnAssign.simple` after a put into the target is what CPython gives the new source**: 1 exactly for a bare,
unparenthesised name — any number of parentheses and any non-Name target give 0. -/
theorem annSimple_correct (isName : Bool) (npars : Nat) :
    Pfst.SharedDelims.annSimple isName npars = Pfst.SharedDelims.annSimpleSpec isName npars := by
  unfold Pfst.SharedDelims.annSimple Pfst.SharedDelims.annSimpleSpec
  cases isName <;> cases npars <;> simp

/-! ### non-vacuity -/

/-- a classification meeting the hypotheses: ASCII 0x20..0x7e printable, everything else not -/
private def k0 : Cls :=
  { printable := fun c => decide (32 ≤ c.toNat ∧ c.toNat < 127),
    reprRaw := fun _ => false,
    space := fun c => c == ' ' || c == '\t' }

example : k0.printable CR = false ∧ k0.printable NUL = false := by decide
-- all four branches of `repr_str_multiline` are reachable and produce different quoting
example : reprMultiline k0 "a'b".toList = "\"\"\"a'b\"\"\"".toList := by decide
example : reprMultiline k0 "a\"".toList = "'''a\"'''".toList := by decide
example : reprMultiline k0 "'''\"".toList = "\"\"\"'''\\\"\"\"\"".toList := by decide
example : reprMultiline k0 "\"\"\"'''\\\n\r".toList = "'''\"\"\"\\'\\'\\'\\\\\n\\r'''".toList := by decide
example : decodeTriple (reprMultiline k0 "\"\"\"'''\\\n\r".toList) = some "\"\"\"'''\\\n\r".toList := by decide
-- the decoder is not the identity on bodies and does reject early termination
example : decodeTriple "'''a''''".toList = none := by decide
example : decodeTriple "'''a\\x41\\u00e9\r\nb'''".toList = some "aAé\nb".toList := by decide
example : getDocstr "    ".toList (indentVal "    ".toList "a\n  b\n\nc\n".toList) = "a\n  b\n\nc\n".toList := by decide
example : indentVal "    ".toList "a\n  b\n\nc\n".toList = "a\n      b\n\n    c\n    ".toList := by decide
example : putDocSrc "  ".toList "\"\"\"a\n\nb\"\"\"".toList = "\"\"\"a\n\n  b\"\"\"".toList := by decide
example : getDocstr "    ".toList " x".toList = "x".toList := by decide   -- the excluded case: leading blank is lost
example : SpaceOK k0 := ⟨by decide, by decide, by decide⟩
example : commentPut k0 false " ;  # old".toList "new # text ".toList = .ok " ;  # new # text ".toList := by decide
example : commentGet k0 false " ;  # new # text ".toList = some "new # text".toList := by decide
example : commentPut k0 false "  ".toList "c".toList = .ok "  # c".toList := by decide
example : commentPut k0 false " ; y = 2".toList "c".toList = .unmodelled := by decide
example : commentPut k0 true "".toList "c".toList = .valueError := by decide
example : commentPut k0 false "".toList "a\rb".toList = .valueError := by decide
example : commentPut k0 true "  # old".toList "# a\x00b".toList = .valueError := by decide
example : ("  # old".toList).all lineOK = true ∧ commentPut k0 false "  # old".toList "a\x0cb".toList = .ok "  # a\x0cb".toList := by decide
example : Pfst.SharedDelims.annSimple true 1 = 0 ∧ Pfst.SharedDelims.annSimple true 0 = 1 ∧ Pfst.SharedDelims.annSimple false 0 = 0 := by decide
example : Pfst.SharedDelims.posAfter 2 0 1 14 = true ∧ Pfst.SharedDelims.posAfter 1 20 1 14 = true ∧ Pfst.SharedDelims.posAfter 1 5 2 0 = false := by decide
example : elifDecision ⟨false, true, true, true, true, false, 1, true⟩ = .keep := by decide      -- first of several: no elif
example : elifDecision ⟨false, false, true, true, true, false, 1, true⟩ = .toElif := by decide
example : elifDecision ⟨false, false, true, true, false, true, 1, true⟩ = .toElse := by decide
example : putSlice (putSlice [1, 2, 3, 4, 5] 1 3 []) 1 1 (slice [1, 2, 3, 4, 5] 1 3) = [1, 2, 3, 4, 5] := by decide
example : subtreeAt (.node 0 [.node 1 [], .node 2 [.node 3 []]]) [1, 0] = some (.node 3 []) := by rfl

end Pfst.C08
