import Pfst.ScanLemmas
import Pfst.ScanParsLemmas
import Pfst.ScanFindLemmas

/-!
# C06 — every reported location denotes exactly the text of its node

Property theorems about the model of the scanning layer (`Pfst/Scan.lean`): `bistr` coordinates, the fragment
scanners, `pars()` and the by-location search.  Helper lemmas live in `Pfst/ScanLemmas.lean` (bistr, `reMatch`,
`nextFrag`), `Pfst/ScanParsLemmas.lean` (`nextDelims` / `prevDelims` / `parsModel` on the parenthesis layout family)
and `Pfst/ScanFindLemmas.lean` (search = brute force).
-/
namespace Pfst.C06
open Pfst.Scan

/-! ## character and byte coordinates (`bistr`) -/

/-- Round trip: a character index converted to a byte offset and back is unchanged (ASCII and non-ASCII lines,
every index up to and including the end of the line). -/
theorem b2c_c2b (l : Line) (c : Nat) (hc : c ≤ l.length) : (c2b l c).bind (b2c l) = some c :=
  Pfst.Scan.b2c_c2b l c hc

/-- Additivity: the byte offset of a character index beyond a prefix is the byte length of the prefix plus the
offset inside the rest (text before a node only shifts the node's byte columns by its encoded length). -/
theorem c2b_append (l1 l2 : Line) (c : Nat) : c2bRaw (l1 ++ l2) (l1.length + c) = byteLen l1 + c2bRaw l2 c :=
  Pfst.Scan.c2bRaw_append l1 l2 c

/-- Byte offsets are monotone in the character index, strictly inside the line. -/
theorem c2b_mono {l : Line} {c c' : Nat} : (c ≤ c' → c2bRaw l c ≤ c2bRaw l c') ∧
    (c < c' → c' ≤ l.length → c2bRaw l c < c2bRaw l c') :=
  ⟨Pfst.Scan.c2bRaw_mono, Pfst.Scan.c2bRaw_strictMono⟩

/-- On an ASCII line both conversions are the identity. -/
theorem c2b_ascii {l : Line} {c : Nat} (h : isAscii l = true) : c2b l c = some c ∧ b2c l c = some c :=
  Pfst.Scan.c2b_ascii h

/-- A byte offset inside a multi-byte character maps to the index of that character (what the scatter and
forward-fill loops of `bistr.b2c` produce), and conversely whatever `b2c` answers brackets the byte offset. -/
theorem b2c_inside {l : Line} {c b : Nat} (hna : isAscii l = false) (hc : c < l.length)
    (h1 : c2bRaw l c ≤ b) (h2 : b < c2bRaw l (c + 1)) : b2c l b = some c :=
  Pfst.Scan.b2c_inside hna hc h1 h2

theorem b2c_bracket {l : Line} {b c : Nat} (hna : isAscii l = false) (h : b2c l b = some c) :
    c ≤ l.length ∧ c2bRaw l c ≤ b ∧ (b < byteLen l → b < c2bRaw l (c + 1)) :=
  Pfst.Scan.b2c_bracket hna h

example : c2b "aé日b".toList 3 = some 6 := by decide
example : b2c "aé日b".toList 4 = some 2 := by decide       -- inside `日` (bytes 3..5)
example : isAscii "aé".toList = false := by decide

/-! ## byte deltas of a source put (`_params_offset`) -/

/-- `_params_offset`, one-line put: the column delta is (bytes of the new text up to the end of the put, measured on the
START line: prefix before the span ++ put text) minus (bytes up to the end of the replaced span on the END line).  The
two prefixes live on different lines when the replaced span covers several lines; each is measured in bytes of its own
line. -/
theorem paramsOffset_dcol_single (lines : List Line) (p : Line) (ln col endLn endCol : Nat) :
    (paramsOffsetC lines [p] ln col endLn endCol).2.2.2 =
      ((byteLen ((lines.getD ln []).take col ++ p) : Nat) : Int) - ((byteLen ((lines.getD endLn []).take endCol) : Nat) : Int) := by
  simp only [paramsOffsetC, c2bRaw, byteLen_append, List.length_cons, List.length_nil, List.getLastD]
  simp
  omega

/-- the position handed to `_offset` is the BYTE column of the end of the replaced span on its own line -/
theorem paramsOffset_col (lines put : List Line) (ln col endLn endCol : Nat) :
    (paramsOffsetC lines put ln col endLn endCol).2.1 = -((c2bRaw (lines.getD endLn []) endCol : Nat) : Int) := rfl

example : paramsOffsetC ["r = [\"ééé\", [1,".toList, "  2], tail, other]".toList] ["X".toList] 0 12 1 4 = (1, -4, -1, 12) := by decide
/-! ## the fragment scanners -/

/-- One regex match, plain pattern (`_re_next_frag`): it succeeds exactly when the window `[pos, endpos)` (clipped
like `Pattern.match` clips) is `spaces ++ code ++ rest` with `code` a non-empty maximal run of characters that are
not space, `#` or backslash; the match is that run. -/
theorem reMatch_code_iff {l : Line} {pos ep : Nat} {m : M} :
    reMatch false false l pos ep = some m ↔
      min pos l.length ≤ min ep l.length ∧
      ∃ sp code rest, win l pos ep = sp ++ code ++ rest ∧ sp.all isSpace = true ∧ code ≠ [] ∧
        code.all isCode = true ∧ (∀ x, rest.head? = some x → isCode x = false) ∧
        m = ⟨min pos l.length + sp.length, min pos l.length + sp.length + code.length⟩ ∧ group l m = code :=
  Pfst.Scan.reMatch_code_iff

/-- One regex match, any of the four patterns: exact characterisation (`TokSpec`: a maximal code run, or with
`comment` a `#` up to the end, or with `lcont` a lone backslash at the end). -/
theorem reMatch_iff {cm lc : Bool} {l : Line} {pos ep : Nat} {m : M} :
    reMatch cm lc l pos ep = some m ↔
      min pos l.length ≤ min ep l.length ∧
      ∃ sp tok rest, win l pos ep = sp ++ tok ++ rest ∧ sp.all isSpace = true ∧ TokSpec cm lc tok rest ∧
        m = ⟨min pos l.length + sp.length, min pos l.length + sp.length + tok.length⟩ :=
  Pfst.Scan.reMatch_iff

/-- **`next_frag`, flags as used by `pars()` / `next_delims`** (`comment=False, lcont=False`): the returned fragment
lies in the bound, is a non-empty maximal run of code characters preceded on its line only by spaces, and every
earlier line of the bound holds (from the start column) nothing but spaces up to its end, a comment or a backslash. -/
theorem nextFrag_spec {lines : List Line} {ln col endLn endCol : Nat} {fr : Frag}
    (h : nextFrag lines ln col endLn endCol false .f = some fr) (hle : ln ≤ endLn) :
    ln ≤ fr.ln ∧ fr.ln ≤ endLn ∧
    (∃ sp rest, lineWin lines ln col endLn endCol fr.ln = sp ++ fr.src ++ rest ∧ sp.all isSpace = true ∧
      fr.src ≠ [] ∧ fr.src.all isCode = true ∧ (∀ x, rest.head? = some x → isCode x = false) ∧
      fr.col = min (if fr.ln = ln then col else 0) (lineAt lines fr.ln).length + sp.length) ∧
    ∀ i, ln ≤ i → i < fr.ln → ∃ sp rest, lineWin lines ln col endLn endCol i = sp ++ rest ∧ sp.all isSpace = true ∧
        (rest = [] ∨ (∃ t, rest = '#' :: t) ∨ (∃ t, rest = '\\' :: t)) :=
  Pfst.Scan.nextFrag_spec_decomp h hle

/-- `next_frag` answering `None` (same flags): no line of the bound has a code fragment. -/
theorem nextFrag_none {lines : List Line} {ln col endLn endCol : Nat}
    (h : nextFrag lines ln col endLn endCol false .f = none) (hle : ln ≤ endLn) :
    ∀ i, ln ≤ i → i ≤ endLn → lineMatch false false lines ln col endLn endCol i = none :=
  Pfst.Scan.nextFrag_none h hle

/-- `next_frag` for every `comment` and `lcont ∈ {False, True}`: sound and complete — it returns the match of the
FIRST line of the bound whose window has a match under the pattern chosen by the flags. -/
theorem nextFrag_first_match {lines : List Line} {ln col endLn endCol : Nat} {cm : Bool} {lcont : LCont}
    (hl : lcont ≠ .n) (hle : ln ≤ endLn) :
    (∀ fr, nextFrag lines ln col endLn endCol cm lcont = some fr →
      ln ≤ fr.ln ∧ fr.ln ≤ endLn ∧
      (∃ m, lineMatch cm (lcont == .t) lines ln col endLn endCol fr.ln = some m ∧ fr = fragOf (lineAt lines fr.ln) fr.ln m) ∧
      ∀ i, ln ≤ i → i < fr.ln → lineMatch cm (lcont == .t) lines ln col endLn endCol i = none) ∧
    (∀ k m, ln ≤ k → k ≤ endLn → lineMatch cm (lcont == .t) lines ln col endLn endCol k = some m →
      (∀ i, ln ≤ i → i < k → lineMatch cm (lcont == .t) lines ln col endLn endCol i = none) →
      nextFrag lines ln col endLn endCol cm lcont = some (fragOf (lineAt lines k) k m)) :=
  ⟨fun _ h => Pfst.Scan.nextFrag_spec_flags hl h hle,
   fun _ _ hk1 hk2 hm hb => Pfst.Scan.nextFrag_complete_flags hl hk1 hk2 hm hb⟩

/-- `next_frag(lcont=None)` (restricted to the logical line): a returned fragment is reached only through lines that
consist of a lone continuation backslash; comments are returned only when asked for. -/
theorem nextFrag_lcontNone_sound {lines : List Line} {ln col endLn endCol : Nat} {cm : Bool} {fr : Frag}
    (h : nextFrag lines ln col endLn endCol cm .n = some fr) (hle : ln ≤ endLn) :
    ln ≤ fr.ln ∧ fr.ln ≤ endLn ∧ (∀ j, ln ≤ j → j < fr.ln → IsCont lines ln col j) ∧
    (fr.ln < endLn → ∃ m, lineB lines ln col fr.ln = some m ∧ fr = fragOf (lineAt lines fr.ln) fr.ln m ∧
        group (lineAt lines fr.ln) m ≠ ['\\'] ∧ ((group (lineAt lines fr.ln) m).head? = some '#' → cm = true)) ∧
    (fr.ln = endLn → ∃ m, lineMatch cm false lines ln col endLn endCol endLn = some m ∧ fr = fragOf (lineAt lines endLn) endLn m) :=
  Pfst.Scan.nextFrag_lcontNone_sound h hle

/- Full statement wanted for `prev_frag`: the mirror of `nextFrag_first_match` for all flags, multi-line, with the
`state` cache.  Proved: the single-line case, empty cache, `comment=False, lcont=False`, on windows whose text before
the last code run has no `#` / backslash (the forward scan of `last_match` stops at those, so the general mirror
statement is FALSE of the code: a fragment after a `#` on the same line is never seen).  Multi-line `prevLoopA/B` and
the cache are covered by the correspondence (every position pair, every flag) and, for `prev_delims`, by
`prevDelims_single_line` below. -/
/-- `prev_frag` on one line: the last code run of the window. -/
theorem prevFrag_single_partial {lines : List Line} {ln col endCol : Nat} {pre code sp : Line}
    (hw : win (lineAt lines ln) col endCol = pre ++ code ++ sp)
    (hpre : pre.all (fun x => isSpace x || isCode x) = true)
    (hlast : ∀ x, pre.getLast? = some x → isSpace x = true)
    (hne : code ≠ []) (hcode : code.all isCode = true) (hsp : sp.all isSpace = true) :
    prevFrag lines ln col ln endCol false .f = some ⟨ln, min col (lineAt lines ln).length + pre.length, code⟩ :=
  Pfst.Scan.prevFrag_single_partial hw hpre hlast hne hcode hsp

example : nextFrag ["a  # c".toList, " \\".toList, "  (b".toList] 0 1 2 4 false .f = some ⟨2, 2, "(b".toList⟩ := by decide
example : nextFrag ["a  # c".toList, " \\".toList, "  (b".toList] 0 1 2 4 true .f = some ⟨0, 3, "# c".toList⟩ := by decide
example : prevFrag ["ab cd  ".toList] 0 0 0 7 false .f = some ⟨0, 3, "cd".toList⟩ := by decide

/-! ## `pars()` -/

/-- **`pars_min`**: for a parenthesizable node (no shared-parenthesis case) `pars()` reports
`n = min(#opening delimiters found leftwards, #closing delimiters found rightwards)` (both lists start with the node
position, hence the `- 1`) and the span of the n-th pair; `n = 0` gives the node's own location.  Any lines, any
bounds. -/
theorem pars_min (lines : List Line) (a : ParsIn)
    (hp : a.parenthesizable = true)
    (hg : a.shared = .t ∨ a.soloGenexp = false)
    (hs : a.shared = .n ∨ a.soloShared = false) :
    let rp := nextDelims lines a.loc.endLn a.loc.endCol a.nextBound.1 a.nextBound.2
    let lp := prevDelims lines a.prevBound.1 a.prevBound.2 a.loc.ln a.loc.col
    let n := min lp.length rp.length - 1
    parsModel lines a =
      (if n = 0 then a.loc
       else ⟨(pairAt lp n).1, (pairAt lp n).2, (pairAt rp n).1, (pairAt rp n).2⟩, (n : Int)) :=
  Pfst.Scan.pars_min lines a hp hg hs

/-- The shared-parenthesis adjustment (sole call argument / class base / MatchClass pattern): the opening
parenthesis of the parent is not counted when there are not more opening than closing ones. -/
theorem pars_min_soloShared (lines : List Line) (a : ParsIn)
    (hp : a.parenthesizable = true)
    (hg : a.shared = .t ∨ a.soloGenexp = false)
    (hs : a.shared ≠ .n) (hss : a.soloShared = true) :
    let rp := nextDelims lines a.loc.endLn a.loc.endCol a.nextBound.1 a.nextBound.2
    let lp := prevDelims lines a.prevBound.1 a.prevBound.2 a.loc.ln a.loc.col
    let ll' := if lp.length ≤ rp.length then lp.length - 1 else lp.length
    let n := min ll' rp.length - 1
    parsModel lines a =
      (if n = 0 then a.loc
       else ⟨(pairAt lp n).1, (pairAt lp n).2, (pairAt rp n).1, (pairAt rp n).2⟩, (n : Int)) :=
  Pfst.Scan.pars_min_soloShared lines a hp hg hs hss

/-- `next_delims` on one line IS the character scan "skip spaces, count `)`, stop at anything else" (any text). -/
theorem nextDelims_single_line (A w : Line) :
    nextDelims [A ++ w] 0 A.length 0 (A ++ w).length = (0, A.length) :: scanClose A.length w :=
  Pfst.Scan.nextDelims_single_line A w

/-- `prev_delims` on one line (through the `state` cache: one forward scan, then pops) IS the backward character scan
"skip spaces, count `(`, stop at anything else", provided the text before the node has no `#` / backslash. -/
theorem prevDelims_single_line (W B : Line) (hsc : ∀ x ∈ W, isSpace x = true ∨ isCode x = true) :
    prevDelims [W ++ B] 0 0 0 W.length = (0, W.length) :: scanOpenK W.length W.reverse [] :=
  Pfst.Scan.prevDelims_single_line W B hsc

/-- **`pars_exact` on the layout family** `pre ++ ("(" spaces)^g ++ node ++ (spaces ")")^g ++ post`, any `g`, any
spacing `s`, ANY node text, context without an adjacent parenthesis (the last non-blank of `pre` is not `(`, the first
non-blank of `post` is not `)`; `pre` free of `#` / backslash): exactly `g` pairs are reported and the span is that of
the outermost pair. -/
theorem pars_layout (pre node post : Line) (g s : Nat)
    (hpre : ∀ x ∈ pre, isSpace x = true ∨ isCode x = true)
    (hpre' : (pre.reverse.dropWhile isSpace).head? ≠ some '(')
    (hpost : (post.dropWhile isSpace).head? ≠ some ')') :
    parsModel [pre ++ openRun g s ++ node ++ closeRun g s ++ post]
        ⟨⟨0, (pre ++ openRun g s).length, 0, (pre ++ openRun g s ++ node).length⟩,
         (0, (pre ++ openRun g s ++ node ++ closeRun g s ++ post).length), (0, 0), .t, true, false, false⟩ =
      (if g = 0 then ⟨0, (pre ++ openRun g s).length, 0, (pre ++ openRun g s ++ node).length⟩
       else ⟨0, pre.length, 0, (pre ++ openRun g s ++ node ++ closeRun g s).length⟩, (g : Int)) :=
  Pfst.Scan.pars_layout pre node post g s hpre hpre' hpost

/-- Unbalanced context (`g1` opening, `g2` closing, own spacings): `min g1 g2` pairs, innermost ones. -/
theorem pars_layout_unbalanced (pre node post : Line) (g1 s1 g2 s2 : Nat)
    (hpre : ∀ x ∈ pre, isSpace x = true ∨ isCode x = true)
    (hpre' : (pre.reverse.dropWhile isSpace).head? ≠ some '(')
    (hpost : (post.dropWhile isSpace).head? ≠ some ')') :
    parsModel [pre ++ openRun g1 s1 ++ node ++ closeRun g2 s2 ++ post]
        ⟨⟨0, (pre ++ openRun g1 s1).length, 0, (pre ++ openRun g1 s1 ++ node).length⟩,
         (0, (pre ++ openRun g1 s1 ++ node ++ closeRun g2 s2 ++ post).length), (0, 0), .t, true, false, false⟩ =
      (if min g1 g2 = 0 then ⟨0, (pre ++ openRun g1 s1).length, 0, (pre ++ openRun g1 s1 ++ node).length⟩
       else ⟨0, pre.length + (g1 - min g1 g2) * (s1 + 1), 0, (pre ++ openRun g1 s1 ++ node).length + min g1 g2 * (s2 + 1)⟩,
       ((min g1 g2 : Nat) : Int)) :=
  Pfst.Scan.pars_layout_unbalanced pre node post g1 s1 g2 s2 hpre hpre' hpost

/- Not proved (full statement): `pars_exact` for multi-line layouts with comments / continuation lines between the
parentheses and for bounds other than the line ends.  Covered by `decide` examples below and by the correspondence
(every node of every corpus program) + the token-matcher sweep. -/
example : parsModel ["x = ((a))".toList] ⟨⟨0, 6, 0, 7⟩, (0, 9), (0, 0), .t, true, false, false⟩ = (⟨0, 4, 0, 9⟩, 2) := by decide
example : parsModel ["x = ( \\".toList, "  ( # comment".toList, "a".toList, ") # c2".toList, " )".toList]
    ⟨⟨2, 0, 2, 1⟩, (4, 2), (0, 0), .t, true, false, false⟩ = (⟨0, 4, 4, 2⟩, 2) := by decide
example : parsModel ["f((a))".toList] ⟨⟨0, 3, 0, 4⟩, (0, 6), (0, 0), .t, true, false, true⟩ = (⟨0, 2, 0, 5⟩, 1) := by decide
example : parsModel ["f(i for i in j)".toList] ⟨⟨0, 1, 0, 15⟩, (0, 15), (0, 0), .f, true, true, true⟩ = (⟨0, 2, 0, 14⟩, -1) := by decide

/-! ## `bloc` = `loc` ∪ trailing line comment of the last line -/

/-- `bloc` of a block = `loc` ∪ the trailing line comment of its last line: when the text after the end of `loc` on
the last line is blanks followed by a comment, `bloc` ends at the end of the line (= the end of the comment token, a
comment runs to the end of its line). -/
theorem bloc_covers_comment (pre sp c : Line) :
    blocEndCol (pre ++ sp ++ '#' :: c) pre.length = (pre ++ sp ++ '#' :: c).length := by
  unfold blocEndCol
  have h : ((pre ++ sp ++ '#' :: c).drop pre.length) = sp ++ '#' :: c := by
    rw [List.append_assoc, List.drop_left]
  rw [h]
  simp

/-- ... and when no `#` follows the end of `loc` on the last line, `bloc` ends where `loc` ends. -/
theorem bloc_eq_loc_of_no_comment (l : Line) (endCol : Nat) (h : ∀ ch ∈ l.drop endCol, ch ≠ '#') :
    blocEndCol l endCol = endCol := by
  unfold blocEndCol
  have : (l.drop endCol).contains '#' = false := by
    apply Bool.eq_false_iff.mpr
    intro hc
    have := List.contains_iff_mem.mp hc
    exact h '#' this rfl
  rw [this]; rfl

/-- After the comment is replaced (`pre ++ old` becomes `pre ++ new`, both holding a comment) the bounding location
is that of the NEW line: an answer remembered from before the edit is wrong exactly when the lengths differ. -/
theorem bloc_after_comment_edit (pre sp c sp' c' : Line) :
    blocEndCol (pre ++ sp' ++ '#' :: c') pre.length = (pre ++ sp' ++ '#' :: c').length ∧
    ((sp ++ '#' :: c).length ≠ (sp' ++ '#' :: c').length →
      blocEndCol (pre ++ sp ++ '#' :: c) pre.length ≠ blocEndCol (pre ++ sp' ++ '#' :: c') pre.length) := by
  refine ⟨bloc_covers_comment pre sp' c', fun hne => ?_⟩
  rw [bloc_covers_comment, bloc_covers_comment]
  simp only [List.length_append, List.length_cons] at *
  omega

/-- deleting the comment (only blanks remain after the node) brings `bloc` back to `loc` -/
theorem bloc_after_comment_delete (pre sp : Line) (hsp : ∀ ch ∈ sp, ch ≠ '#') :
    blocEndCol (pre ++ sp) pre.length = pre.length := by
  apply bloc_eq_loc_of_no_comment
  rw [List.drop_left]; exact hsp

example : blocEndCol "    call(i)  # old".toList 11 = 18 := by decide
example : blocEndCol "    call(i)  # a much longer comment".toList 11 = 36 := by decide
example : blocEndCol "    call(i)".toList 11 = 11 := by decide
example : blocEndCol "    x = '#'".toList 11 = 11 := by decide
/-! ## by-location search = brute force over all nodes (repaired `find_contains_loc` / `find_loc`) -/

/-- Non-empty query rectangle. -/
def nonEmpty (q : Loc) : Prop := q.ln < q.endLn ∨ (q.ln = q.endLn ∧ q.col < q.endCol)

/-- **`find_contains_loc` on real walk lists, decorated definitions included** (all three `allow_exact` values): on
every list that is well-formed in the sense `wfListD` (children inside parents, later subtrees after earlier ones,
decorators before their definition — evaluated by the driver on every real list) and every non-empty rectangle, the pass
with its `continue`, its early exits, the `'top'` exit and the decorator search returns what a brute-force scan over all
nodes returns: the LAST candidate of the subtree in walk order (= the deepest node containing the rectangle), for
`'top'` the FIRST candidate that matches exactly (= the highest of the nodes sharing the location), else the start
node.  (For an EMPTY rectangle at the end of a decorator the statement is false of the code, see
`Pfst.Scan.exDecoEmpty`.) -/
theorem findContains_bruteforce (decos : List Nat) (nodes : List FNode) (q : Loc) (ae : AllowExact)
    (hwf : wfListD decos nodes = true) (hq : nonEmpty q) :
    (findContainsD decos nodes q ae).map (·.1) = bruteContains nodes q ae :=
  Pfst.Scan.findContainsD_bruteforce decos nodes q ae hwf hq

/-- The same on plainly well-formed lists (`wfList`: no node outside its parent), any rectangle, empty ones
included. -/
theorem findContains_bruteforce_wf (decos : List Nat) (nodes : List FNode) (q : Loc) (ae : AllowExact)
    (hwf : wfList nodes = true) :
    (findContainsD decos nodes q ae).map (·.1) = bruteContains nodes q ae :=
  Pfst.Scan.findContainsD_bruteforce_wf decos nodes q ae hwf

/-- The decorator search changes nothing where no node lies outside its parent. -/
theorem findContains_decorators_inert (decos : List Nat) (nodes : List FNode) (q : Loc) (ae : AllowExact)
    (hwf : wfList nodes = true) : findContainsD decos nodes q ae = findContains nodes q ae :=
  Pfst.Scan.findContainsD_eq_of_wf decos nodes q ae hwf

/-- "last candidate in walk order" is "deepest candidate": on a well-formed list the candidates form a chain of
strictly increasing depth, so the brute-force pick is the unique deepest one. -/
theorem bruteContains_deepest (nodes : List FNode) (q : Loc) (ax : Bool) (r : FNode) (hwf : wfList nodes = true)
    (hlast : (((subtree nodes).drop 1).filter (candContains q ax)).getLast? = some r) :
    candContains q ax r = true ∧ r ∈ (subtree nodes).drop 1 ∧
    ∀ c ∈ (subtree nodes).drop 1, candContains q ax c = true → c.depth ≤ r.depth ∧ (c.depth = r.depth → c = r) :=
  Pfst.Scan.bruteContains_deepest nodes q ax r hwf hlast

/-- "first exact candidate in walk order" is "highest of the nodes sharing the location" (`'top'`). -/
theorem bruteContains_top_highest (nodes : List FNode) (q : Loc) (r : FNode) (hwf : wfList nodes = true)
    (hfirst : (((subtree nodes).drop 1).filter (candContains q true)).find? (fun f => exactQ f q) = some r) :
    exactQ r q = true ∧ candContains q true r = true ∧ r ∈ (subtree nodes).drop 1 ∧
    ∀ c ∈ (subtree nodes).drop 1, candContains q true c = true → exactQ c q = true →
      r.depth ≤ c.depth ∧ (c.depth = r.depth → c = r) :=
  Pfst.Scan.bruteContains_top_highest nodes q r hwf hfirst

/-- `find_in_loc`: on a well-formed list the pass returns the FIRST node of the subtree (walk order) that lies inside
the rectangle. -/
theorem findIn_bruteforce (nodes : List FNode) (q : Loc) (hwf : wfList nodes = true) :
    findIn nodes q = bruteIn nodes q :=
  Pfst.Scan.findIn_bruteforce nodes q hwf

/-- `find_loc` is the documented three-way composition of the two brute-force selections. -/
theorem findLoc_bruteforce (decos : List Nat) (nodes : List FNode) (q : Loc) (exactTop : Bool)
    (hwf : wfList nodes = true) : findLoc decos nodes q exactTop = bruteLoc nodes q exactTop :=
  Pfst.Scan.findLoc_bruteforce decos nodes q exactTop hwf

/- Full statement wanted: `findLoc decos nodes q t = bruteLoc nodes q t` under `wfListD`.  Proved: the contains-part is
the brute force; the inside-part is still the pass `findIn` (there is no brute-force theorem for `find_in_loc` on
lists with decorated definitions: the walk yields a definition before its decorators, so "first in walk order" and
"first in the text" differ there; the sweep compares with brute force on every real list). -/
/-- `find_loc` on lists with decorated definitions. -/
theorem findLoc_decorated_partial (decos : List Nat) (nodes : List FNode) (q : Loc) (exactTop : Bool)
    (hwf : wfListD decos nodes = true) (hq : nonEmpty q) :
    findLoc decos nodes q exactTop =
      match bruteContainsT nodes q (if exactTop then .top else .yes) with
      | none => findIn nodes q
      | some (f, ftail) =>
        if f.col == q.col && f.endCol == q.endCol && f.ln == q.ln && f.endLn == q.endLn then some f
        else match findIn (f :: ftail) q with
          | some g => some g
          | none => some f :=
  Pfst.Scan.findLoc_decorated_partial decos nodes q exactTop hwf hq

/-- Was finding C06-F1, now repaired: on `@deco\ndef f(): pass` (a list that is NOT plainly well-formed — the
definition's span starts after its decorator child — but is `wfListD`) the pass reaches the decorator name, like the
brute force, and `find_loc` answers it for a rectangle strictly inside it. -/
theorem findContains_decorated_witness :
    wfList exDeco = false ∧ wfListD [2] exDeco = true
    ∧ (findContainsD [2] exDeco ⟨0, 1, 0, 5⟩ .yes).map (·.1) = some ⟨2, 0, 1, 0, 5, 2⟩
    ∧ bruteContains exDeco ⟨0, 1, 0, 5⟩ .yes = some ⟨2, 0, 1, 0, 5, 2⟩
    ∧ findLoc [2] exDeco ⟨0, 2, 0, 4⟩ false = some ⟨2, 0, 1, 0, 5, 2⟩ :=
  Pfst.Scan.findContains_decorated_witness

/-- Was finding C06-F2, now repaired: on `'var\n'` (Module 0,0..1,0 > Expr 0,0..0,3 > Name 0,0..0,3) `exact_top=True`
/ `'top'` answer the `Expr` (highest of the nodes sharing the location), `exact_top=False` the `Name`. -/
theorem findLoc_exactTop_witness :
    wfList exVar = true
    ∧ findLoc [] exVar ⟨0, 0, 0, 3⟩ true = some ⟨1, 0, 0, 0, 3, 1⟩
    ∧ findLoc [] exVar ⟨0, 0, 0, 3⟩ false = some ⟨2, 0, 0, 0, 3, 2⟩
    ∧ (findContainsD [] exVar ⟨0, 0, 0, 3⟩ .top).map (·.1) = some ⟨1, 0, 0, 0, 3, 1⟩
    ∧ bruteContains exVar ⟨0, 0, 0, 3⟩ .top = some ⟨1, 0, 0, 0, 3, 1⟩ :=
  Pfst.Scan.findLoc_exactTop_witness

example : wfList exNodes = true := by decide
example : findLoc [] exNodes ⟨0, 4, 0, 5⟩ false = some ⟨5, 0, 4, 0, 5, 3⟩ := by decide
example : nonEmpty ⟨0, 1, 0, 5⟩ := by unfold nonEmpty; decide
example : (findContainsD [2] exDeco ⟨0, 1, 0, 5⟩ .yes).map (·.1) = bruteContains exDeco ⟨0, 1, 0, 5⟩ .yes :=
  findContains_bruteforce [2] exDeco ⟨0, 1, 0, 5⟩ .yes (by decide) (by unfold nonEmpty; decide)

end Pfst.C06
