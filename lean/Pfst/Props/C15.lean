import Pfst.WalkMutLemmas

/-!
# C15 — walking stays sound while the tree is being modified

Theorems about the `on='enter'` machine of `Pfst/WalkMut.lean` (`Enter.step`, mirroring fst_traverse.py:1353-1446 with
the `yield from` nesting of `send(True)`), for every interleaving of walk steps, `send`s and store changes that meet the
consumer contract `Mut` (replace / remove of whole subtrees: dead stays dead, nodes never move, an FST changes its AST
only to a fresh one in the same place).  The `leave` / `both` machines are tied to the code by the correspondence
harness and the per-yield oracle only.
-/
namespace Pfst.C15
open Pfst.WalkMut Pfst.WalkMut.Enter

theorem stackAll_frames {s : St} {fr : Frame} {rest : List Frame} (h : s.frames = fr :: rest) :
    stackAll s = fr.stack ++ rest.flatMap (·.stack) := by
  simp [stackAll, h]

theorem Core.init {σ : Store} (wf : WF σ) (d0 : Nat) : Core σ [] [] [] [] d0 where
  wf := wf
  nodup := List.nodup_nil
  lt := fun _ h => by simp at h
  exp_lt := fun _ h => by simp at h
  deep := fun _ h => by simp at h
  pushed_parent := fun _ _ _ _ h => by simp at h
  exp_src := fun _ h => by simp at h
  ent_nodup := List.nodup_nil
  ent_src := fun _ h => by simp at h
  ent_lt := fun _ h => by simp at h

/-- the initial state satisfies the invariant on every well-formed store -/
theorem init_inv {σ : Store} (wf : WF σ) (root : FstId) (selfFlag recurse back : Bool) :
    Inv σ (init root selfFlag recurse back) :=
  ⟨Core.init wf 0, by simp [CtlInv, init]⟩

/-- **step_inv.** Every step of the walk generator preserves the invariant. -/
theorem step_inv {σ : Store} {s : St} (h : Inv σ s) : Inv σ (step σ s).1 := by
  obtain ⟨hc, hctl⟩ := h
  have wf := hc.wf
  unfold step
  split
  · -- done
    exact ⟨hc, hctl⟩
  · -- start
    rename_i hs
    simp only [CtlInv, hs] at hctl
    obtain ⟨hf, hp, he, hen⟩ := hctl
    have hS : stackAll s = [] := by simp [stackAll, hf]
    rw [hS, hp, he, hen] at hc
    split
    · exact ⟨by simpa [stackAll, hf, hp, he, hen] using Core.init wf s.d0, by simp [CtlInv]⟩
    · rename_i x hx
      have hl : σ.f x ≠ none := by rw [wf.af _ _ hx]; simp
      split
      · refine ⟨?_, ?_⟩
        · have c0 := Core.init wf (σ.depth x)
          have : Core σ [] [] [] [x] (σ.depth x) :=
            { c0 with ent_nodup := by simp, ent_src := fun y hy => by
                        simp at hy; subst hy; exact .inr (fun _ => rfl),
                      ent_lt := fun y hy => by simp at hy; subst hy; exact wf.live_lt _ hl }
          simpa [stackAll, hf, hp, he, hen] using this
        · simp only [CtlInv]
          refine ⟨hf, hp, he, wf.fst_lt _ _ hx, ?_⟩
          intro x' hx'
          rw [hx] at hx'; cases hx'; rfl
      · refine ⟨?_, by simp [CtlInv, newFrame]⟩
        have c0 := Core.init wf (σ.depth x)
        have := c0.expand s.back hl (by simp) (.inr rfl) (Nat.le_refl _)
        simpa [newFrame, stackAll, hp, he, hen] using this
  · -- rootYield
    rename_i r hs
    simp only [CtlInv, hs] at hctl
    obtain ⟨hf, hp, he, hrb, hd⟩ := hctl
    have hS : stackAll s = [] := by simp [stackAll, hf]
    split
    · exact ⟨hc, by simp [CtlInv]⟩
    · split
      · exact ⟨hc, by simp [CtlInv]⟩
      · rename_i x hx
        have hl : σ.f x ≠ none := by rw [wf.af _ _ hx]; simp
        refine ⟨?_, by simp [CtlInv, newFrame]⟩
        rw [hS, hp, he] at hc
        have := hc.expand s.back hl (by simp) (.inr (hd x hx)) (Nat.le_of_eq (hd x hx).symm)
        simpa [newFrame, stackAll, hp, he] using this
  · -- running
    rename_i hs
    split
    · exact ⟨hc, by simp [CtlInv]⟩
    · rename_i fr rest hf
      have hS := stackAll_frames hf
      split
      · rename_i hst
        refine ⟨?_, by simp [CtlInv, hs]⟩
        have : stackAll { s with frames := rest } = stackAll s := by
          simp [stackAll, hf, hst]
        rw [this]; exact hc
      · rename_i x stk hst
        rw [hst] at hS
        rw [hS] at hc
        have hS' : ∀ (p e en : List AstId) (c : Ctl),
            stackAll { s with frames := { fr with stack := stk } :: rest, popped := p, expanded := e,
                              entered := en, ctl := c } = stk ++ rest.flatMap (·.stack) := by
          intros; simp [stackAll]
        split
        · -- dead: skipped
          refine ⟨?_, by simp [CtlInv, hs]⟩
          have := hc.pop
          simpa [stackAll] using this
        · rename_i φ hφ
          have hl : σ.f x ≠ none := by rw [hφ]; simp
          split
          · -- yield
            refine ⟨?_, ?_⟩
            · have := hc.enter hl
              simpa [stackAll] using this
            · simp only [CtlInv]
              refine ⟨by simp, wf.fst_lt _ _ (wf.fa _ _ hφ), ?_⟩
              intro x' hx'
              rw [wf.fa _ _ hφ] at hx'; cases hx'
              have hnd := hc.nodup
              simp only [List.cons_append, List.nodup_cons, List.mem_append] at hnd
              refine ⟨?_, hc.stack_unexp List.mem_cons_self hl, hc.deep _ List.mem_cons_self hl, ?_⟩
              · simp only [stackAll, List.flatMap_cons]
                intro hm; exact hnd.1 (.inl (List.mem_append.mp hm))
              · intro p hp hk
                exact hc.pushed_parent p _ hp hk (by simp)
          · split
            · refine ⟨?_, by simp [CtlInv, hs]⟩
              have := hc.pop
              simpa [stackAll] using this
            · refine ⟨?_, by simp [CtlInv, pushKids]⟩
              have := hc.pop.expand s.back hl (hc.stack_unexp List.mem_cons_self hl) (.inl List.mem_cons_self)
                (Nat.le_of_lt (hc.deep _ List.mem_cons_self hl))
              simpa [pushKids, stackAll, List.append_assoc] using this
  · -- yielded
    rename_i φ r hs
    simp only [CtlInv, hs] at hctl
    obtain ⟨hfne, hφb, hcur⟩ := hctl
    split
    · exact ⟨hc, by simp [CtlInv]⟩
    · rename_i fr rest hf
      have hS := stackAll_frames hf
      split
      · exact ⟨hc, by simp [CtlInv]⟩
      · split
        · exact ⟨hc, by simp [CtlInv]⟩
        · rename_i x hx
          have hl : σ.f x ≠ none := by rw [wf.af _ _ hx]; simp
          obtain ⟨hxS, hxE, hxd, hxp⟩ := hcur x hx
          have c1 := hc.addPopped hl hxS hxp
          have hin : x ∈ (if s.popped.contains x then s.popped else x :: s.popped) := by
            by_cases hcn : s.popped.contains x = true
            · simp only [hcn, if_true]; simpa using hcn
            · have : s.popped.contains x = false := by simpa using hcn
              rw [this]; simp
          have c2 := c1.expand s.back hl hxE (.inl hin) (Nat.le_of_lt hxd)
          split
          · refine ⟨?_, by simp [CtlInv, newFrame]⟩
            simpa [newFrame, notePopped, stackAll, hf] using c2
          · refine ⟨?_, by simp [CtlInv, pushKids]⟩
            simpa [pushKids, notePopped, stackAll, hf, List.append_assoc] using c2

/-- **send_inv.** `gen.send(b)` preserves the invariant. -/
theorem send_inv {σ : Store} {s : St} (b : Bool) (h : Inv σ s) : Inv σ (send b s) := by
  obtain ⟨hc, hctl⟩ := h
  unfold send
  split
  · rename_i r hs
    exact ⟨hc, by simpa [CtlInv, hs] using hctl⟩
  · rename_i φ r hs
    refine ⟨hc, ?_⟩
    simp only [CtlInv, hs] at hctl
    simpa [CtlInv, stackAll] using hctl
  · exact ⟨hc, hctl⟩

/-- **mut_inv.** Every store change that meets the consumer contract preserves the invariant, in whatever state the
generator is suspended. -/
theorem mut_inv {σ σ' : Store} {s : St} (h : Inv σ s) (m : Mut σ σ') (wf' : WF σ') : Inv σ' s := by
  obtain ⟨hc, hctl⟩ := h
  refine ⟨hc.mutate m wf', ?_⟩
  unfold CtlInv at hctl ⊢
  split
  · rename_i hs; simpa [hs] using hctl
  · rename_i r hs
    simp only [hs] at hctl
    obtain ⟨hf, hp, he, hrb, hd⟩ := hctl
    refine ⟨hf, hp, he, Nat.lt_of_lt_of_le hrb m.bound_le, ?_⟩
    intro x' hx'
    cases hx : σ.a s.root with
    | none => rw [m.a_dead _ hrb hx] at hx'; cases hx'
    | some x =>
      rcases m.a_change _ x x' hx hx' with rfl | ⟨_, hdep, _⟩
      · rw [m.depth_old _ (hc.wf.live_lt _ (by rw [hc.wf.af _ _ hx]; simp)) (by rw [wf'.af _ _ hx']; simp)]
        exact hd _ hx
      · rw [hdep]; exact hd x hx
  · rename_i φ r hs
    simp only [hs] at hctl
    obtain ⟨hfne, hφb, hcur⟩ := hctl
    refine ⟨hfne, Nat.lt_of_lt_of_le hφb m.bound_le, ?_⟩
    intro x' hx'
    have hl' : σ'.f x' ≠ none := by rw [wf'.af _ _ hx']; simp
    cases hx : σ.a φ with
    | none => rw [m.a_dead _ hφb hx] at hx'; cases hx'
    | some x =>
      obtain ⟨hxS, hxE, hxd, hxp⟩ := hcur x hx
      have hl : σ.f x ≠ none := by rw [hc.wf.af _ _ hx]; simp
      rcases m.a_change _ x x' hx hx' with rfl | ⟨hfresh, hdep, hpar⟩
      · have hb := hc.wf.live_lt _ hl
        refine ⟨hxS, hxE, by rw [m.depth_old _ hb hl']; exact hxd, ?_⟩
        intro p hp hk
        by_cases hpb : p < σ.bound
        · rcases m.kids_old p _ hpb hp hk with h1 | h1
          · exact hxp p (m.live_mono p hpb hp) h1
          · exact absurd hb (Nat.not_lt.mpr h1)
        · exact absurd hb (Nat.not_lt.mpr (m.kids_new p _ (Nat.not_lt.mp hpb) hp hk))
      · refine ⟨?_, ?_, by rw [hdep]; exact hxd, ?_⟩
        · intro hm; exact absurd (hc.lt _ (List.mem_append_left _ hm)) (Nat.not_lt.mpr hfresh)
        · intro hm; exact absurd (hc.exp_lt _ hm) (Nat.not_lt.mpr hfresh)
        · intro p hp hk
          obtain ⟨hpl, hkx⟩ := hpar p hp hk
          exact hxp p hpl hkx
  · trivial
  · trivial

/-- The moves of an interleaving: a step of the generator, a `send`, a store change by the consumer. -/
inductive Move where
  | step
  | send (b : Bool)
  | store (σ' : Store)

/-- A move is legal if a store change meets the consumer contract and leaves a well-formed store. -/
def Legal (σ : Store) : Move → Prop
  | .store σ' => Mut σ σ' ∧ WF σ'
  | _ => True

def apply (c : Store × St) : Move → Store × St
  | .step => (c.1, (step c.1 c.2).1)
  | .send b => (c.1, send b c.2)
  | .store σ' => (σ', c.2)

/-- legality of every move of a history, each judged in the store it is applied to -/
def LegalRun : Store × St → List Move → Prop
  | _, [] => True
  | c, m :: ms => Legal c.1 m ∧ LegalRun (apply c m) ms

def run (c : Store × St) (ms : List Move) : Store × St := ms.foldl apply c

/-- **run_inv.** For EVERY interleaving of walk steps, sends and legal store changes, from any state satisfying the
invariant (in particular the initial one, `init_inv`), the invariant holds at the end. -/
theorem run_inv (ms : List Move) (c : Store × St) (h : Inv c.1 c.2) (hl : LegalRun c ms) :
    Inv (run c ms).1 (run c ms).2 := by
  induction ms generalizing c with
  | nil => exact h
  | cons m ms ih =>
    obtain ⟨hm, hrest⟩ := hl
    refine ih (apply c m) ?_ hrest
    cases m with
    | step => exact step_inv h
    | send b => exact send_inv b h
    | store σ' => exact mut_inv h hm.1 hm.2

/-- **yield_alive.** Whenever a step yields an FST, that FST is alive (`a = some x`), linked both ways with its AST,
the AST hangs in the tree (reachable from the tree root through live nodes), and `x` is what the history records as
entered. -/
theorem yield_alive {σ : Store} {s s' : St} {φ : FstId} (h : Inv σ s) (hs : step σ s = (s', some φ)) :
    ∃ x, σ.a φ = some x ∧ σ.f x = some φ ∧ Reach σ x ∧ s'.entered = x :: s.entered := by
  have wf := h.core.wf
  unfold step at hs
  split at hs
  · simp at hs
  · split at hs
    · simp at hs
    · rename_i x hx
      split at hs
      · simp only [Prod.mk.injEq, Option.some.injEq] at hs
        obtain ⟨rfl, rfl⟩ := hs
        exact ⟨x, hx, wf.af _ _ hx, wf.reach _ (by rw [wf.af _ _ hx]; simp), rfl⟩
      · simp [newFrame] at hs
  · split at hs
    · simp at hs
    · split at hs <;> simp [newFrame] at hs
  · split at hs
    · simp at hs
    · split at hs
      · simp at hs
      · rename_i x stk hst
        split at hs
        · simp at hs
        · rename_i ψ hψ
          split at hs
          · simp only [Prod.mk.injEq, Option.some.injEq] at hs
            obtain ⟨rfl, rfl⟩ := hs
            exact ⟨x, wf.fa _ _ hψ, hψ, wf.reach _ (by rw [hψ]; simp), rfl⟩
          · split at hs <;> simp [pushKids] at hs
  · split at hs
    · simp at hs
    · split at hs
      · simp at hs
      · split at hs
        · simp at hs
        · split at hs <;> simp [newFrame, pushKids] at hs

/-- a step that does not yield leaves the entered history unchanged -/
theorem step_silent {σ : Store} {s s' : St} (hs : step σ s = (s', none)) : s'.entered = s.entered := by
  unfold step at hs
  repeat' split at hs
  all_goals first
    | (simp only [Prod.mk.injEq] at hs; obtain ⟨rfl, _⟩ := hs; simp [newFrame, pushKids, notePopped]; done)
    | simp at hs

/-- **no_double.** In every state reachable by any interleaving, the AST ids yielded on entry so far are pairwise
different: no node is yielded twice. -/
theorem no_double (ms : List Move) (c : Store × St) (h : Inv c.1 c.2) (hl : LegalRun c ms) :
    (run c ms).2.entered.Nodup :=
  (run_inv ms c h hl).core.ent_nodup

theorem nodup_bounded_length : ∀ (n : Nat) (l : List Nat), l.Nodup → (∀ x ∈ l, x < n) → l.length ≤ n := by
  intro n
  induction n with
  | zero =>
    intro l _ hb
    cases l with
    | nil => simp
    | cons a t => exact absurd (hb a List.mem_cons_self) (Nat.not_lt_zero _)
  | succ n ih =>
    intro l hn hb
    have h1 : (l.erase n).Nodup := hn.sublist (List.erase_sublist)
    have h2 : ∀ x ∈ l.erase n, x < n := by
      intro x hx
      have hxl : x ∈ l := List.mem_of_mem_erase hx
      have hne : x ≠ n := by
        intro he; subst he
        exact (List.Nodup.mem_erase_iff hn).mp hx |>.1 rfl
      have := hb x hxl
      omega
    have h3 := ih _ h1 h2
    by_cases hm : n ∈ l
    · rw [List.length_erase_of_mem hm] at h3; omega
    · rw [List.erase_of_not_mem hm] at h3; omega

/-- **terminates.** In every state reachable by any interleaving, the number of yields so far and the number of pops so
far are at most the number of ids ever allocated (`bound` = initial nodes + nodes of all introduced subtrees, see
`alloc_bound`): the walk cannot go on forever without the consumer feeding it new nodes.  Measure: every pop consumes
one id that can never be pushed again (`Core.nodup`, `pushed_parent`). -/
theorem terminates (ms : List Move) (c : Store × St) (h : Inv c.1 c.2) (hl : LegalRun c ms) :
    (run c ms).2.entered.length ≤ (run c ms).1.bound ∧
    (stackAll (run c ms).2 ++ (run c ms).2.popped).length ≤ (run c ms).1.bound := by
  have hi := run_inv ms c h hl
  exact ⟨nodup_bounded_length _ _ hi.core.ent_nodup hi.core.ent_lt,
         nodup_bounded_length _ _ hi.core.nodup hi.core.lt⟩

/-- the allocation counter grows by exactly the size of an introduced subtree -/
theorem alloc_bound : ∀ (sh : Shape) (n : Nat), (alloc sh n).2 = n + (Tree.aids (alloc sh n).1).length := by
  intro sh
  induction sh using Shape.rec (motive_2 := fun ss => ∀ n, (allocL ss n).2 = n + (Tree.aidsL (allocL ss n).1).length) with
  | mk l v ks ih =>
    intro n
    simp only [alloc, Tree.aids, List.length_cons]
    rw [ih (n + 1)]; omega
  | nil => simp [allocL, Tree.aidsL]
  | cons s ss ih1 ih2 =>
    simp only [allocL, Tree.aidsL, List.length_append]
    rw [ih2, ih1]; omega

/-- the bound of `terminates` on the concrete store: a replace raises the counter by at most the size of the
introduced subtree, a remove leaves it unchanged; so `bound` ≤ initial nodes + Σ sizes of introduced subtrees -/
theorem apply_bound (c : CStore) (x : AstId) (sh : Shape) :
    (c.apply (.replace x sh)).next ≤ c.next + (Tree.aids (alloc sh c.next).1).length ∧
    (c.apply (.remove x)).next = c.next := by
  constructor
  · simp only [CStore.apply]
    split
    · omega
    · simp only [CStore.withTree]
      rw [alloc_bound]; omega
  · simp only [CStore.apply]
    split <;> rfl

/-- **replaced_children_next.** If the consumer replaced the node just yielded (so the yielded FST now carries the
AST `x`) and did not `send(False)`, resuming pushes exactly the children of the new AST on top of the untouched stack
(or starts the nested unconditional walk on them), … -/
theorem replaced_children_next {σ : Store} {s : St} {φ : FstId} {r : Rec} {fr : Frame} {rest : List Frame} {x : AstId}
    (hs : s.ctl = .yielded φ r) (hf : s.frames = fr :: rest) (hr : r ≠ .no) (hx : σ.a φ = some x) :
    (step σ s).2 = none ∧ (step σ s).1.ctl = .running ∧
    stackAll (step σ s).1 = order s.back (σ.kids x) ++ stackAll s := by
  unfold step
  simp only [hs, hf, hx]
  have : (r == Rec.no) = false := by cases r <;> simp_all
  simp only [this]
  by_cases hcond : (r == Rec.one && !fr.recurse) = true <;>
    simp [hcond, newFrame, pushKids, notePopped, stackAll, hf, List.append_assoc]

/-- … and the first of them that is alive and passes `all` is what the walk yields next. -/
theorem replaced_children_next' {σ : Store} {s : St} {fr : Frame} {rest : List Frame} {c : AstId} {cs : List AstId}
    {ψ : FstId} (hs : s.ctl = .running) (hf : s.frames = fr :: rest) (hst : fr.stack = c :: cs)
    (hc : σ.f c = some ψ) (hv : σ.checkAll ψ = true) : (step σ s).2 = some ψ := by
  unfold step
  simp [hs, hf, hst, hc, hv]

/-- **removed_continues.** If the node just yielded was removed (or an ancestor was replaced or removed: the yielded
FST is dead), resuming does not touch the stack: the walk continues with what followed, exactly as after
`send(False)`; whatever of it died is skipped when popped (`dead_skipped`). -/
theorem removed_continues {σ : Store} {s : St} {φ : FstId} {r : Rec} {fr : Frame} {rest : List Frame}
    (hs : s.ctl = .yielded φ r) (hf : s.frames = fr :: rest) (hx : σ.a φ = none) :
    step σ s = ({ s with ctl := .running }, none) := by
  unfold step
  simp only [hs, hf, hx]
  split <;> rfl

/-- a dead AST on the stack is popped without a yield and without pushing anything -/
theorem dead_skipped {σ : Store} {s : St} {fr : Frame} {rest : List Frame} {x : AstId} {stk : List AstId}
    (hs : s.ctl = .running) (hf : s.frames = fr :: rest) (hst : fr.stack = x :: stk) (hx : σ.f x = none) :
    (step σ s).2 = none ∧ stackAll (step σ s).1 = stk ++ rest.flatMap (·.stack) := by
  unfold step
  simp [hs, hf, hst, hx, stackAll]

/-- **send_honoured.** After `send(False)` resuming pushes nothing; after `send(True)` on a live node its children are
pushed whatever the `recurse` setting of the generator (on a nested unconditional generator if `recurse` was off). -/
theorem send_honoured {σ : Store} {s : St} {φ : FstId} {r : Rec} {fr : Frame} {rest : List Frame}
    (hs : s.ctl = .yielded φ r) (hf : s.frames = fr :: rest) :
    step σ (send false s) = ({ s with ctl := .running }, none) ∧
    ∀ x, σ.a φ = some x →
      stackAll (step σ (send true s)).1 = order s.back (σ.kids x) ++ stackAll s ∧
      (step σ (send true s)).1.frames.head?.map (·.recurse) = some (fr.recurse || true) := by
  constructor
  · simp [send, hs, step, hf]
  · intro x hx
    have h1 : (send true s).ctl = .yielded φ .one := by simp [send, hs]
    have h2 : (send true s).frames = fr :: rest := by simp [send, hs, hf]
    have h3 : (send true s).back = s.back := by simp [send, hs]
    have h4 : stackAll (send true s) = stackAll s := by simp [stackAll, h2, hf]
    have := replaced_children_next (σ := σ) h1 h2 (by simp) hx
    refine ⟨by rw [this.2.2, h3, h4], ?_⟩
    unfold step
    simp only [h1, h2, hx]
    cases hrec : fr.recurse <;> simp [newFrame, pushKids, hrec]

/-- **checks_sound.** The two executable checks the driver evaluates on every run (`wfB` on the initial store, `mutB` on
every store change, of the model's own `replaceAt` / `removeAt` and of the trees observed after real `replace()` /
`remove()` calls) are sound for the hypotheses of the theorems above: a store change that passes is a legal move. -/
theorem checks_sound {c c' : CStore} (h : c.mutB c' = true) : Legal c.store (.store c'.store) :=
  CStore.mutB_sound h

/-- the walk of any checked concrete store starts in the invariant -/
theorem concrete_init_inv {c : CStore} (h : c.wfB = true) (root : FstId) (selfFlag recurse back : Bool) :
    Inv c.store (init root selfFlag recurse back) :=
  init_inv (CStore.wfB_sound h) root selfFlag recurse back

/-! ## `on='leave'` and `on='both'`: every yield is guarded by a liveness check -/

theorem checkAll_alive {σ : Store} {φ : FstId} (h : σ.checkAll φ = true) : ∃ x, σ.a φ = some x := by
  unfold Store.checkAll at h
  cases hx : σ.a φ with
  | none => rw [hx] at h; cases h
  | some x => exact ⟨x, rfl⟩

/-- an event, if any, is about an FST that is alive -/
def EvAlive (σ : Store) : Option LB.Ev → Prop
  | some (φ, _) => ∃ x, σ.a φ = some x
  | none => True

theorem stepLeave_alive (σ : Store) (back : Bool) (g : LB.Gen) : EvAlive σ (LB.stepLeave σ back g).2 := by
  unfold LB.stepLeave
  repeat' split
  all_goals first
    | (simp [EvAlive]; done)
    | (simp only [EvAlive]; first | exact ⟨_, by assumption⟩ | exact checkAll_alive (by simp_all))

theorem bothEnterPart_alive (σ : Store) (g : LB.Gen) (ψ : FstId) (x : AstId) (back : Bool) :
    EvAlive σ (LB.bothEnterPart σ g ψ x back).ev := by
  unfold LB.bothEnterPart
  repeat' split
  all_goals first
    | (simp [EvAlive]; done)
    | (simp only [EvAlive]; exact checkAll_alive (by simp_all))

theorem stepBoth_alive (σ : Store) (back : Bool) (g : LB.Gen) : EvAlive σ (LB.stepBoth σ back g).ev := by
  unfold LB.stepBoth
  repeat' split
  all_goals first
    | (simp [EvAlive]; done)
    | exact bothEnterPart_alive _ _ _ _ _
    | (simp only [EvAlive]; first | exact ⟨_, by assumption⟩ | exact checkAll_alive (by simp_all))

theorem step_alive (σ : Store) (s : LB.St) : EvAlive σ (LB.step σ s).2 := by
  unfold LB.step
  split
  · simp [EvAlive]
  · split
    · simp [EvAlive]
    · split
      · exact stepLeave_alive _ _ _
      · have := stepBoth_alive σ s.back ‹LB.Gen›
        dsimp only
        split <;> exact this

/-- **yield_alive_leave_both.** In the `leave` and `both` machines every yield, entering or leaving, is of an FST that is
alive at that moment, linked with its AST, and hanging in the tree — whatever the consumer did before (no invariant is
needed: every `yield` of these loops sits directly behind a `fst_.a` / `ast.f` / `check_all_param` test). -/
theorem yield_alive_leave_both {σ : Store} (wf : WF σ) {s s' : LB.St} {φ : FstId} {lv : Bool}
    (h : LB.step σ s = (s', some (φ, lv))) : ∃ x, σ.a φ = some x ∧ σ.f x = some φ ∧ Reach σ x := by
  have key : ∃ x, σ.a φ = some x := by
    have := step_alive σ s
    rw [h] at this
    exact this
  obtain ⟨x, hx⟩ := key
  exact ⟨x, hx, wf.af _ _ hx, wf.reach _ (by rw [wf.af _ _ hx]; simp)⟩

/-- **leave_rewalk_children** (`replaced_children_next` for `on='leave'` under `send(True)`). When a node's leaving
yield is answered with `send(True)`, resuming re-reads `fst_.a`: the children pushed for the repeat walk are those of
the AST the FST carries NOW (the new children if the consumer replaced the node in that step), on top of a leaving
entry for the node itself, on top of the untouched stack. -/
theorem leave_rewalk_children {σ : Store} {back : Bool} {g : LB.Gen} {φ : FstId} {x : AstId}
    (hs : g.ctl = .yLeave φ true) (hx : σ.a φ = some x) :
    LB.stepLeave σ back g =
      ({ g with ctl := .running, stack := LB.items back (σ.kids x) ++ .fst φ :: g.stack }, none) := by
  simp [LB.stepLeave, hs, hx]

/-- the same for `on='both'` (generator with `recurse` on): the node is entered again, on its current AST -/
theorem both_rewalk_reenters {σ : Store} {back : Bool} {g : LB.Gen} {φ : FstId} {x : AstId}
    (hs : g.ctl = .yLeave φ true) (hx : σ.a φ = some x) (hr : g.recurse = true) (hv : σ.vis x = true) :
    (LB.stepBoth σ back g).ev = some (φ, false) := by
  have hc : σ.checkAll φ = true := by simp [Store.checkAll, hx, hv]
  simp [LB.stepBoth, hs, hx, hr, LB.bothEnterPart, hc]

/-- a removed node answered with `send(True)` is not walked again -/
theorem leave_rewalk_removed {σ : Store} {back : Bool} {g : LB.Gen} {φ : FstId}
    (hs : g.ctl = .yLeave φ true) (hx : σ.a φ = none) :
    LB.stepLeave σ back g = ({ g with ctl := .running }, none) := by
  simp [LB.stepLeave, hs, hx]

/-! ## `search()` as a consumer-side wrapper: the consumer's `send` wins over the automatic one -/

/-- **search_consumer_send_wins.** Whatever `nested` is, if the consumer sent anything for a match, exactly the
consumer's values reach the walk generator, in order; `search` adds its own `send(False)` only when the consumer sent
nothing and `nested=False`. -/
theorem search_consumer_send_wins (nested : Bool) (sends : List Bool) (h : sends ≠ []) :
    Search.forwarded nested sends = sends := by
  cases sends with
  | nil => exact absurd rfl h
  | cons b bs => rfl

theorem search_auto_send (nested : Bool) :
    Search.forwarded nested [] = if nested then [] else [false] := rfl

/-- the last value sent is the one in effect (`Can send multiple times, last value sent takes effect`) -/
theorem send_last {s : St} {φ : FstId} {r : Rec} (hs : s.ctl = .yielded φ r) (bs : List Bool) (b : Bool) :
    ((bs ++ [b]).foldl (fun s b => send b s) s).ctl = .yielded φ (if b then .one else .no) ∧
    ((bs ++ [b]).foldl (fun s b => send b s) s).frames = s.frames ∧
    ((bs ++ [b]).foldl (fun s b => send b s) s).back = s.back := by
  induction bs generalizing s r with
  | nil => simp [send, hs]
  | cons c cs ih =>
    have h1 : (send c s).ctl = .yielded φ (if c then .one else .no) := by simp [send, hs]
    have := ih (s := send c s) h1
    simp only [List.cons_append, List.foldl_cons]
    refine ⟨this.1, ?_, ?_⟩
    · rw [this.2.1]; simp [send, hs]
    · rw [this.2.2]; simp [send, hs]

/-- **search_send_true_honoured.** Through `search(pat, nested)` — for either value of `nested` — a consumer that
answers a match with `send(True)` (last) gets the children of the matched node's current AST pushed, exactly as with
`walk` itself; in particular `nested=False` does not override it. -/
theorem search_send_true_honoured {σ : Store} {s : St} {φ : FstId} {r : Rec} {fr : Frame} {rest : List Frame} {x : AstId}
    (nested : Bool) (bs : List Bool) (hs : s.ctl = .yielded φ r) (hf : s.frames = fr :: rest) (hx : σ.a φ = some x) :
    let s' := (Search.forwarded nested (bs ++ [true])).foldl (fun s b => send b s) s
    (step σ s').2 = none ∧ stackAll (step σ s').1 = order s.back (σ.kids x) ++ stackAll s := by
  intro s'
  have hfw : Search.forwarded nested (bs ++ [true]) = bs ++ [true] :=
    search_consumer_send_wins nested _ (by simp)
  have hl := send_last hs bs true
  have h1 : s'.ctl = .yielded φ .one := by simp only [s', hfw]; simpa using hl.1
  have h2 : s'.frames = fr :: rest := by simp only [s', hfw]; rw [hl.2.1]; exact hf
  have h3 : s'.back = s.back := by simp only [s', hfw]; exact hl.2.2
  have h4 : stackAll s' = stackAll s := by simp [stackAll, h2, hf]
  have := replaced_children_next (σ := σ) h1 h2 (by simp) hx
  exact ⟨this.1, by rw [this.2.2, h3, h4]⟩

/-! ## Non-vacuity: a concrete tree, the walk of `[[a, b], c]` with the consumer replacing `[a, b]` by `[x, y]` when it
is yielded, then removing `c`'s predecessor… run through the executable machine. -/

/-- `[[a, b], c]`: ids 0 = outer list, 1 = inner list, 2 = a, 3 = b, 4 = c -/
def ex0 : CStore :=
  { tree := .mk 0 0 1 true [.mk 1 1 1 true [.mk 2 2 2 true [], .mk 3 3 2 true []], .mk 4 4 2 true []], next := 5 }

/-- after two `next()` the walk is suspended at the inner list (FST 1) -/
def exS2 : St := ((next ex0.store 10 ((next ex0.store 10 (init 0 true true false)).1)).1)

example : (next ex0.store 10 (next ex0.store 10 (init 0 true true false)).1).2 = some 1 := by decide

/-- the consumer replaces the inner list by a fresh `[x, y]` (ids 5, 6, 7; FST 1 is kept) -/
def ex1 : CStore := ex0.apply (.replace 1 (.mk 1 true [.mk 2 true [], .mk 2 true []]))

example : ex1.store.a 1 = some 5 ∧ ex1.store.f 1 = none ∧ ex1.store.kids 5 = [6, 7] ∧ ex1.next = 8 := by decide
example : ex0.mutB ex1 = true := by decide

/-- the new children are yielded next, then `c`; every AST id once -/
example : ((next ex1.store 10 exS2).2 = some 6) := by decide
example : (next ex1.store 10 (next ex1.store 10 (next ex1.store 10 exS2).1).1).2 = some 4 := by decide
example : (next ex1.store 10 (next ex1.store 10 (next ex1.store 10 exS2).1).1).1.entered = [4, 7, 6, 1, 0] := by decide

/-- the hypotheses of the theorems hold here: the store is well-formed, the replacement is a legal move, and the
invariant holds after the interleaving step, step, replace, step, step (by `run_inv`) -/
example : WF ex0.store := CStore.wfB_sound (by decide)
example : Mut ex0.store ex1.store ∧ WF ex1.store := CStore.mutB_sound (by decide)
def exMoves : List Move := [.step, .step, .step, .store ex1.store, .step, .step]
example : Inv (run (ex0.store, init 0 true true false) exMoves).1 (run (ex0.store, init 0 true true false) exMoves).2 := by
  refine run_inv exMoves (ex0.store, init 0 true true false)
    (concrete_init_inv (c := ex0) (by decide) 0 true true false) ?_
  simp only [exMoves, LegalRun, Legal, apply, and_true, true_and]
  exact CStore.mutB_sound (by decide)
example : (run (ex0.store, init 0 true true false)
    [.step, .step, .step, .store ex1.store, .step, .step]).2.entered = [6, 1, 0] := by decide

/-- removing the current node instead: the walk continues with `c` -/
def ex2 : CStore := ex0.apply (.remove 1)
example : (next ex2.store 10 exS2).2 = some 4 := by decide
example : ex0.mutB ex2 = true := by decide

/-- `send(False)` at the inner list skips `a`, `b` -/
example : (next ex0.store 10 (send false exS2)).2 = some 4 := by decide

/-- with `recurse=False` the inner list is not recursed into, unless `send(True)` -/
def exR : St := ((next ex0.store 10 ((next ex0.store 10 (init 0 true false false)).1)).1)
example : (next ex0.store 10 exR).2 = some 4 := by decide
example : (next ex0.store 10 (send true exR)).2 = some 2 := by decide

/-! ### The walk root (finding C15-F1, fixed): its restart after `send(True)` rereads `self.a` like every other node.
Witness of the former failure: `[a]` (ids 0 = list, 1 = a) walked with `on='leave'`; at the root's yield the consumer
replaces it by `[x, y]` (fresh ids 2, 3, 4; FST 0 kept) and sends `True`. -/

/-- **root_rewalk_children** (`replaced_children_next` for the walk root of `on='leave'` under `send(True)`): the
restart pushes the children of the AST the root FST carries NOW. -/
theorem root_rewalk_children {σ : Store} {back : Bool} {g : LB.Gen} {x0 x : AstId}
    (hs : g.ctl = .rootLeave x0 true) (hx : σ.a g.root = some x) (hk : LB.items back (σ.kids x) ≠ []) :
    LB.stepLeave σ back g = ({ g with stack := LB.items back (σ.kids x), ctl := .running }, none) := by
  unfold LB.stepLeave
  rw [hs]
  simp only [if_true, hx]

/-- the same for `on='both'`: the root is queued for entry again on its current AST, unconditionally recursing -/
theorem root_rewalk_both {σ : Store} {back : Bool} {g : LB.Gen} {x0 x : AstId}
    (hs : g.ctl = .rootLeave x0 true) (hx : σ.a g.root = some x) :
    (LB.stepBoth σ back g).g = { g with stack := [.ast x], selfFlag := false, recurse := true, ctl := .running } := by
  simp [LB.stepBoth, hs, hx]

def rw0 : CStore := { tree := .mk 0 0 1 true [.mk 1 1 2 true []], next := 2 }
def rw1 : CStore := rw0.apply (.replace 0 (.mk 1 true [.mk 2 true [], .mk 2 true []]))
/-- suspended at the root's leaving yield (after the yield of `a`) -/
def rwS : LB.St := (LB.next rw0.store 20 (LB.next rw0.store 20 (LB.init true 0 true true false)).1).1

example : (LB.next rw0.store 20 (LB.next rw0.store 20 (LB.init true 0 true true false)).1).2 = some (0, true) := by decide
example : rw1.store.kids 2 = [3, 4] ∧ rw1.store.a 0 = some 2 := by decide

/-- the next `n` yields of a leave/both walk on a fixed store -/
def collect (σ : Store) (fuel : Nat) : Nat → LB.St → List LB.Ev
  | 0, _ => []
  | n + 1, s =>
    match LB.next σ fuel s with
    | (s', some e) => e :: collect σ fuel n s'
    | (_, none) => []

/-- **root_rewalk_new_children.** On the witness the new children 3, 4 are yielded next, then the root again, then the
walk is over. -/
theorem root_rewalk_new_children :
    collect rw1.store 8 5 (LB.send true rwS) = [(3, true), (4, true), (0, true)] := by decide +kernel

end Pfst.C15
