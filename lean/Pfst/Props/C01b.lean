import Pfst.SepLemmas

/-!
# C01b — the separator / delimiter primitives under every sequence edit

`FST._trail_sep`, `FST._maybe_ins_sep`, `FST._maybe_add_singleton_comma` / `FST._fix_Tuple` (src/fst/fst_misc.py) are
modelled in `Pfst/Sep.lean` as pure functions of (lines, positions, flags) on top of the scanning layer
(`Pfst/Scan.lean`, C06) and the text layer (`Pfst/Text.lean`, C04).  The theorems say what these functions find and
what they change, for every source text and every position (the hypotheses only ask that the positions lie inside the
text and that the bound starts before it ends).  The models are tied to the real functions on every run by
`harness/c01b.py`.

Vocabulary (`Pfst/SepLemmas.lean`): `lineWin lines ln col endLn endCol i` is the part of line `i` that lies inside the
bound `(ln, col) .. (endLn, endCol)`; `Target … sep pl pc` says that the separator follows the span at `(pl, pc)`
(`target_iff` below spells it out); `SkipTo … l c` says that from the start up to `(l, c)` there are only blanks,
closing parentheses, comments and continuation lines.
-/
namespace Pfst.C01b
open Pfst.Scan Pfst.Sep

/-- **What "the separator follows the span at `(pl, pc)`" means**, without reference to the scanning loop: every line
window before line `pl` is blanks and closing parentheses followed by its end, a comment (`#…`) or a backslash; the
window of line `pl` is `body ++ run ++ rest` with `body` made of blanks and closing parentheses, `run` a non-empty
maximal run of code characters (not blank, `#` or backslash) that does not start with `)`, `pc` the column where `run`
starts and `sep` a prefix of `run`. -/
theorem target_iff (lines : List Line) (ln col endLn endCol : Nat) (sep : Line) (pl pc : Nat) :
    Target lines ln col endLn endCol sep pl pc ↔
      ln ≤ pl ∧ pl ≤ endLn ∧
      (∀ i, ln ≤ i → i < pl → ∃ body rest, lineWin lines ln col endLn endCol i = body ++ rest ∧
        (∀ c ∈ body, isSpace c = true ∨ c = ')') ∧ (rest = [] ∨ rest.head? = some '#' ∨ rest.head? = some '\\')) ∧
      ∃ body run rest, lineWin lines ln col endLn endCol pl = body ++ run ++ rest ∧
        (∀ c ∈ body, isSpace c = true ∨ c = ')') ∧ run ≠ [] ∧ run.all isCode = true ∧ run.head? ≠ some ')' ∧
        (∀ x, rest.head? = some x → isCode x = false) ∧
        pc = min (if pl = ln then col else 0) (lineAt lines pl).length + body.length ∧ sep <+: run := by
  have hskip : ∀ {body : Line}, (∀ c ∈ body, isSpace c = true ∨ c = ')') → ∀ c ∈ body, isSkip c = true := by
    intro body h c hc
    rcases h c hc with h | h
    · exact isSkip_of_space h
    · subst h; exact isSkip_par
  have hskip' : ∀ {body : Line}, (∀ c ∈ body, isSkip c = true) → ∀ c ∈ body, isSpace c = true ∨ c = ')' := by
    intro body h c hc
    have := h c hc
    simpa [isSkip] using this
  constructor
  · intro t
    refine ⟨t.lo, t.hi, ?_, ?_⟩
    · intro i h1 h2
      have hs := t.before i h1 h2
      refine ⟨(lineWin lines ln col endLn endCol i).takeWhile isSkip, afterSkip (lineWin lines ln col endLn endCol i),
        (List.takeWhile_append_dropWhile).symm, hskip' (fun c hc => mem_takeWhile_true hc), ?_⟩
      cases ha : afterSkip (lineWin lines ln col endLn endCol i) with
      | nil => exact Or.inl rfl
      | cons c r =>
        rcases hs c (by rw [ha]; rfl) with rfl | rfl
        · exact Or.inr (Or.inl rfl)
        · exact Or.inr (Or.inr rfl)
    · obtain ⟨h3, hb, hr, hrest, hhead⟩ := win_three (lineWin lines ln col endLn endCol pl)
      refine ⟨_, _, _, h3, hskip' hb, t.run, hr, ?_, hrest, t.pos, t.pre⟩
      intro hh
      have := hhead ')' hh
      simp [isSkip] at this
  · rintro ⟨h1, h2, h3, body, run, rest, hw, hb, hne, hcode, hhd, hrest, hpc, hpre⟩
    obtain ⟨_, f2, f3⟩ := run_facts hw (hskip hb) hne hcode hhd hrest
    refine ⟨h1, h2, ?_, by rw [f3]; exact hne, by rw [f2, hpc]; rfl, by rw [f3]; exact hpre⟩
    intro i hi1 hi2
    obtain ⟨body', rest', hw', hb', hr'⟩ := h3 i hi1 hi2
    intro x hx
    rw [hw', afterSkip_append (hskip hb')] at hx
    rcases hr' with rfl | hr' | hr'
    · simp [afterSkip] at hx
    · cases rest' with
      | nil => simp at hr'
      | cons c r =>
        simp at hr'; subst hr'
        rw [(afterSkip_self (w := '#' :: r) (by intro y hy; simp at hy; subst hy; decide)).1] at hx
        simp at hx; exact Or.inl hx.symm
    · cases rest' with
      | nil => simp at hr'
      | cons c r =>
        simp at hr'; subst hr'
        rw [(afterSkip_self (w := '\\' :: r) (by intro y hy; simp at hy; subst hy; decide)).1] at hx
        simp at hx; exact Or.inr hx.symm

/-! ## `_trail_sep` -/

/-- **`trailSep_spec`.**  `_trail_sep` (query, delete or delete-if-unaesthetic alike) answers `(pl, pc)` exactly when
the separator follows the span there: the first thing after the span that is not a blank, a closing parenthesis, a
comment or the rest of a line after a backslash — inside the bound — is a code fragment that starts with `sep`, at
`(pl, pc)`.  It answers `None` in every other case (in particular when there are several candidates the first decides:
a target is unique, `Target.unique`).  Any lines, any bound with `ln ≤ endLn`, any `sep`, any `del_`. -/
theorem trailSep_spec (lines : List Line) (ln col endLn endCol : Nat) (sep : Line) (del : Del)
    (hle : ln ≤ endLn) (hcol : col ≤ (lineAt lines ln).length) (pl pc : Nat) :
    (trailSep lines ln col endLn endCol sep del).pos = some (pl, pc) ↔ Target lines ln col endLn endCol sep pl pc :=
  trailSep_pos_iff lines ln col endLn endCol sep del hle hcol pl pc

/-- `_trail_sep` answers `None` exactly when no separator follows. -/
theorem trailSep_none (lines : List Line) (ln col endLn endCol : Nat) (sep : Line) (del : Del)
    (hle : ln ≤ endLn) (hcol : col ≤ (lineAt lines ln).length) :
    (trailSep lines ln col endLn endCol sep del).pos = none ↔ ∀ pl pc, ¬ Target lines ln col endLn endCol sep pl pc := by
  constructor
  · intro h pl pc t
    rw [(trailSep_spec lines ln col endLn endCol sep del hle hcol pl pc).mpr t] at h
    simp at h
  · intro h
    cases hp : (trailSep lines ln col endLn endCol sep del).pos with
    | none => rfl
    | some p => exact absurd ((trailSep_spec lines ln col endLn endCol sep del hle hcol p.1 p.2).mp hp) (h p.1 p.2)

/-- **`trailSep_del_local`.**  The query variant never changes the source.  A deleting variant changes nothing when no
separator follows (or when `del_=None` finds it followed by a comment / continuation); otherwise it removes, on the
line of the separator only, the characters `[a, pc + |sep|)` where `pc` is the returned column, `a ≤ pc` and
`[a, pc)` is whitespace: the flat source is the old one with exactly that piece cut out — every other character of the
document is untouched and in place. -/
theorem trailSep_del_local (lines : List Line) (ln col endLn endCol : Nat) (sep : Line) (del : Del)
    (hle : ln ≤ endLn) (hcol : col ≤ (lineAt lines ln).length) :
    (del = .no → (trailSep lines ln col endLn endCol sep del).lines = lines) ∧
    ((trailSep lines ln col endLn endCol sep del).pos = none → (trailSep lines ln col endLn endCol sep del).lines = lines) ∧
    ((trailSep lines ln col endLn endCol sep del).lines = lines ∨
      ∃ l a pc, (trailSep lines ln col endLn endCol sep del).pos = some (l, pc) ∧ a ≤ pc ∧
        (∀ j, a ≤ j → j < pc → ∃ ch, (lineAt lines l)[j]? = some ch ∧ isSpace ch = true) ∧
        Pfst.Text.flat (trailSep lines ln col endLn endCol sep del).lines
          = (Pfst.Text.flat lines).take (Pfst.Text.off lines l a)
            ++ (Pfst.Text.flat lines).drop (Pfst.Text.off lines l (pc + sep.length))) := by
  obtain ⟨h1, h2, h3⟩ := trailSep_del_spec lines ln col endLn endCol sep del hle hcol
  have key : (trailSep lines ln col endLn endCol sep del).lines = lines ∨
      ∃ l a pc, (trailSep lines ln col endLn endCol sep del).pos = some (l, pc) ∧ a ≤ pc ∧
        (∀ j, a ≤ j → j < pc → ∃ ch, (lineAt lines l)[j]? = some ch ∧ isSpace ch = true) ∧
        Pfst.Text.flat (trailSep lines ln col endLn endCol sep del).lines
          = (Pfst.Text.flat lines).take (Pfst.Text.off lines l a)
            ++ (Pfst.Text.flat lines).drop (Pfst.Text.off lines l (pc + sep.length)) := by
    cases hd : (trailSep lines ln col endLn endCol sep del).del with
    | none => exact Or.inl (h1 hd)
    | some q =>
      obtain ⟨l, a, b⟩ := q
      obtain ⟨e1, e2, e3, pc, e4, e5, e6, e7⟩ := h3 l a b hd
      refine Or.inr ⟨l, a, pc, e4, e6, e7, ?_⟩
      have hv : Pfst.Text.ValidSpan lines l a l b :=
        ⟨Nat.le_refl _, e2, by show a ≤ (lineAt lines l).length; omega, e3, Or.inr ⟨rfl, by omega⟩⟩
      rw [e1, Pfst.Text.putSrc_nil lines l a l b hv, Pfst.Text.putSrc_flat lines [[]] l a l b hv (by simp), ← e5]
      simp [Pfst.Text.flat, Pfst.Text.flatTail]
  refine ⟨fun hd => h1 (h2 hd), ?_, key⟩
  intro hp
  rcases key with k | ⟨l, a, pc, e4, _⟩
  · exact k
  · rw [hp] at e4; simp at e4

/-! ## `_maybe_ins_sep` -/

/-- **`maybeInsSep_post`.**  After `_maybe_ins_sep` the query `_trail_sep` (same start, the end of the bound moved by
what was put, as the offset tree reports it) finds the separator: where it already was when nothing or only a blank
was put (`c = pc + |sep|`: the blank went right behind it), and exactly where it was inserted otherwise — at the point
`(l, c)` the scan reached over blanks, closing parentheses, comments and continuations (`SkipTo`), one column further
when a blank was put in front of a non-comma separator.  And the function is idempotent: applied again to its own
result it puts nothing and changes nothing. -/
theorem maybeInsSep_post (lines : List Line) (ln col : Nat) (space : Bool) (endLn endCol : Nat) (sep : Line)
    (hse : StartLeEnd ln col endLn endCol) (hend : endLn < lines.length) (hcol : col ≤ (lineAt lines ln).length)
    (sne : sep ≠ []) (scode : sep.all isCode = true) (shd : sep.head? ≠ some ')') :
    ∃ pl pc,
      (trailSep (maybeInsSep lines ln col space endLn endCol sep).lines ln col endLn
        (endAfter (maybeInsSep lines ln col space endLn endCol sep).put endLn endCol) sep .no).pos = some (pl, pc) ∧
      ((maybeInsSep lines ln col space endLn endCol sep).put = none →
        (trailSep lines ln col endLn endCol sep .no).pos = some (pl, pc)) ∧
      (∀ l c s, (maybeInsSep lines ln col space endLn endCol sep).put = some (l, c, s) →
        pl = l ∧
        ((s = [' '] ∧ c = pc + sep.length ∧ (trailSep lines ln col endLn endCol sep .no).pos = some (pl, pc)) ∨
         ((trailSep lines ln col endLn endCol sep .no).pos = none ∧
            pc = c + (if sep != [','] then 1 else 0) ∧ SkipTo lines ln col endLn endCol l c))) ∧
      maybeInsSep (maybeInsSep lines ln col space endLn endCol sep).lines ln col space endLn
          (endAfter (maybeInsSep lines ln col space endLn endCol sep).put endLn endCol) sep
        = ⟨none, (maybeInsSep lines ln col space endLn endCol sep).lines⟩ := by
  have hle := startLeEnd_le hse
  obtain ⟨pl, pc, t, hw, a1, a2⟩ := maybeInsSep_post_aux lines ln col space endLn endCol sep hse hend hcol sne scode shd
  obtain ⟨k1, _⟩ := maybeInsSep_keeps_pre lines ln col space endLn endCol sep hse hend hcol
  refine ⟨pl, pc, (trailSep_spec _ ln col endLn _ sep .no hle k1 pl pc).mpr t, ?_, ?_, maybeInsSep_settled hle k1 t hw⟩
  · intro hp
    exact (trailSep_spec lines ln col endLn endCol sep .no hle hcol pl pc).mpr (a1 hp)
  · intro l c s hp
    obtain ⟨e1, e2⟩ := a2 l c s hp
    refine ⟨e1, ?_⟩
    rcases e2 with ⟨b1, b2, b3⟩ | ⟨b1, b2, b3⟩
    · exact Or.inl ⟨b1, b2, (trailSep_spec lines ln col endLn endCol sep .no hle hcol pl pc).mpr b3⟩
    · exact Or.inr ⟨(trailSep_none lines ln col endLn endCol sep .no hle hcol).mpr b1, b2, b3⟩

/-- **`maybeInsSep_local`.**  `_maybe_ins_sep` either changes nothing, or inserts at ONE position `(l, c)` one of: a
single blank; the separator; the separator followed by a blank — each with a blank in front when the separator is not a
comma.  The flat source is the old one with that text spliced in at the offset of `(l, c)`: nothing else moves. -/
theorem maybeInsSep_local (lines : List Line) (ln col : Nat) (space : Bool) (endLn endCol : Nat) (sep : Line)
    (hle : ln ≤ endLn) (hend : endLn < lines.length) (hcol : col ≤ (lineAt lines ln).length) :
    ((maybeInsSep lines ln col space endLn endCol sep).put = none ∧
      (maybeInsSep lines ln col space endLn endCol sep).lines = lines) ∨
    ∃ l c s, (maybeInsSep lines ln col space endLn endCol sep).put = some (l, c, s) ∧
      (s = [' '] ∨ s = newSepText sep false ∨ s = newSepText sep true) ∧
      (maybeInsSep lines ln col space endLn endCol sep).lines = Pfst.Text.putSrc lines [s] l c l c ∧
      Pfst.Text.flat (maybeInsSep lines ln col space endLn endCol sep).lines
        = (Pfst.Text.flat lines).take (Pfst.Text.off lines l c) ++ s ++ (Pfst.Text.flat lines).drop (Pfst.Text.off lines l c) := by
  have fl : ∀ l c s, l < lines.length → c ≤ (lineAt lines l).length →
      Pfst.Text.flat (insLines lines l c s)
        = (Pfst.Text.flat lines).take (Pfst.Text.off lines l c) ++ s ++ (Pfst.Text.flat lines).drop (Pfst.Text.off lines l c) := by
    intro l c s hl hc
    have hv : Pfst.Text.ValidSpan lines l c l c := ⟨Nat.le_refl _, hl, hc, hc, Or.inr ⟨rfl, Nat.le_refl _⟩⟩
    unfold insLines
    rw [← putSrc_ins, Pfst.Text.putSrc_flat lines [s] l c l c hv (by simp)]
    simp [Pfst.Text.flat, Pfst.Text.flatTail]
  rcases maybeInsSep_cases lines ln col space endLn endCol sep hle hcol with
    ⟨pl, pc, _, _, h⟩ | ⟨pl, pc, _, _, hl, hc2, _, h⟩ | ⟨_, l, c, sk, h⟩
  · rw [h]; exact Or.inl ⟨rfl, rfl⟩
  · rw [h]
    exact Or.inr ⟨pl, pc + sep.length, [' '], rfl, Or.inl rfl, by simp only [insLines, putSrc_ins], fl _ _ _ hl hc2⟩
  · rw [h]
    have hl : l < lines.length := by have := sk.hi; omega
    have hc : c ≤ (lineAt lines l).length := (skipTo_tail sk).1
    refine Or.inr ⟨l, c, _, rfl, ?_, by simp only [insLines, putSrc_ins], fl _ _ _ hl hc⟩
    cases wantSpace lines space endLn endCol l c
    · exact Or.inr (Or.inl rfl)
    · exact Or.inr (Or.inr rfl)

/-! ## `_maybe_add_singleton_comma` / `_fix_Tuple` -/

/-- **`fixTuple_singleton`** (the comma step, `_maybe_add_singleton_comma`; `b` = 1 for a delimited tuple: the bound
stops before the closing delimiter).  A tuple whose number of elements is not 1 is left alone.  A 1-tuple that has its
comma (`_trail_sep` finds one between the element and the end of the tuple) is left alone.  A 1-tuple without comma gets
exactly `,` inserted at the point `(l, c)` reached from the end of the element over blanks, closing (grouping)
parentheses, comments and continuations — inside the delimiters — and afterwards `_trail_sep` finds the comma there. -/
theorem fixTuple_singleton (lines : List Line) (nElts : Nat) (f0End selfEnd : Nat × Nat) (isDelim : Bool)
    (hse : StartLeEnd f0End.1 f0End.2 selfEnd.1 (selfEnd.2 - (if isDelim then 1 else 0)))
    (hend : selfEnd.1 < lines.length) (hcol : f0End.2 ≤ (lineAt lines f0End.1).length) :
    (nElts ≠ 1 → maybeAddSingletonComma lines nElts f0End selfEnd isDelim = ⟨none, lines⟩) ∧
    (nElts = 1 →
      ((trailSep lines f0End.1 f0End.2 selfEnd.1 (selfEnd.2 - (if isDelim then 1 else 0)) [','] .no).pos ≠ none →
        maybeAddSingletonComma lines nElts f0End selfEnd isDelim = ⟨none, lines⟩) ∧
      ((trailSep lines f0End.1 f0End.2 selfEnd.1 (selfEnd.2 - (if isDelim then 1 else 0)) [','] .no).pos = none →
        ∃ l c, SkipTo lines f0End.1 f0End.2 selfEnd.1 (selfEnd.2 - (if isDelim then 1 else 0)) l c ∧
          maybeAddSingletonComma lines nElts f0End selfEnd isDelim
            = ⟨some (l, c, [',']), Pfst.Text.putSrc lines [[',']] l c l c⟩ ∧
          (trailSep (Pfst.Text.putSrc lines [[',']] l c l c) f0End.1 f0End.2 selfEnd.1
            (insEnd l [','] selfEnd.1 (selfEnd.2 - (if isDelim then 1 else 0))) [','] .no).pos = some (l, c))) := by
  have hle := startLeEnd_le hse
  constructor
  · intro hn
    unfold maybeAddSingletonComma
    have : (nElts == 1) = false := by simp [hn]
    simp [this]
  · intro hn
    subst hn
    have hun : maybeAddSingletonComma lines 1 f0End selfEnd isDelim
        = maybeInsSep lines f0End.1 f0End.2 false selfEnd.1 (selfEnd.2 - (if isDelim then 1 else 0)) [','] := by
      unfold maybeAddSingletonComma; simp
    rw [hun]
    have hws : ∀ L ec l c, wantSpace L false selfEnd.1 ec l c = false := by intros; rfl
    rcases maybeInsSep_cases lines f0End.1 f0End.2 false selfEnd.1 (selfEnd.2 - (if isDelim then 1 else 0)) [',']
      hle hcol with ⟨pl, pc, t, _, h⟩ | ⟨pl, pc, _, hw, _⟩ | ⟨hno, l, c, sk, h⟩
    · refine ⟨fun _ => h, ?_⟩
      intro hp
      rw [(trailSep_spec lines _ _ _ _ [','] .no hle hcol pl pc).mpr t] at hp
      simp at hp
    · rw [hws] at hw; simp at hw
    · constructor
      · intro hp
        exact absurd ((trailSep_none lines _ _ _ _ [','] .no hle hcol).mpr hno) hp
      · intro _
        have hnt : newSepText [','] (wantSpace lines false selfEnd.1 (selfEnd.2 - (if isDelim then 1 else 0)) l c)
            = [','] := by rw [hws]; decide
        rw [hnt] at h
        have hl : l < lines.length := by have := sk.hi; omega
        refine ⟨l, c, sk, by rw [h, putSrc_ins]; rfl, ?_⟩
        have ht := target_after_insert sk hl hcol hse (sep := [',']) (pre := []) (post := [])
          (by intro x hx; simp at hx) (by simp) (by decide) (by decide)
        have hcol' : f0End.2 ≤ (lineAt (insLines lines l c [',']) f0End.1).length := by
          rw [lineAt_insLines hl]
          by_cases he : f0End.1 = l
          · subst he; simp only [↓reduceIte, insLine_length]; omega
          · simp only [he, ↓reduceIte]; exact hcol
        rw [putSrc_ins]
        have := (trailSep_spec (insLines lines l c [',']) f0End.1 f0End.2 selfEnd.1 _ [','] .no hle hcol' l c).mpr
          (by simpa using ht)
        exact this

/-- For a tuple that is delimited (parenthesised) `_fix_Tuple` is exactly the comma step: it reports "delimited" and its
lines are those of `_maybe_add_singleton_comma` with the bound stopping before the closing parenthesis (so by
`fixTuple_singleton`: `n ≠ 1` unchanged, comma present unchanged, `(a)` ↦ `(a,)`).  An empty tuple is not touched. -/
theorem fixTuple_delimited (lines : List Line) (a : TupIn) (hd : a.isDelim = some true) :
    fixTuple lines a = ⟨true, if a.nElts = 0 then lines else
      (maybeAddSingletonComma lines a.nElts (a.f0.endLn, a.f0.endCol) (a.self.endLn, a.self.endCol) true).lines⟩ := by
  unfold fixTuple
  simp only [hd, ↓reduceIte]
  by_cases h0 : a.nElts = 0
  · simp [h0]
  · have : (a.nElts != 0) = true := by simp [h0]
    simp [this, h0]

/-- **`fixTuple_delimits`.**  A naked (unparenthesised) tuple with two or more elements that is not the root, spans
several lines and is not enclosed by its parents (or holds an unparenthesised walrus) gets parentheses when
`par_if_needed`: `_fix_Tuple` answers "delimited" and the flat source gains exactly `(` at the start of the tuple and `)`
at its end — the text before, between and after is untouched.  (Full statement wanted: also the root / `whole` variant,
where a trailing continuation is removed and a trailing comment pushes the `)` to a new line, and the not-needed branch
that trims the span to its elements; both are modelled — `delimitNode`, `fixUndelimTrim` — and tied by the
correspondence, not proved.) -/
theorem fixTuple_delimits_partial (lines : List Line) (a : TupIn) (hd : a.isDelim = some false) (hn : 2 ≤ a.nElts)
    (hpar : a.parIfNeeded = true) (hroot : a.isRoot = false)
    (hneed : (a.self.endLn ≠ a.self.ln ∧ a.enclosed = false) ∨ a.namedExpr = true)
    (hend : a.self.endLn < lines.length) (hord : Pfst.Text.le2 a.self.ln a.self.col a.self.endLn a.self.endCol)
    (hc : a.self.col ≤ (lineAt lines a.self.ln).length) (hec : a.self.endCol ≤ (lineAt lines a.self.endLn).length) :
    (fixTuple lines a).delimited = true ∧
    Pfst.Text.flat (fixTuple lines a).lines
      = (Pfst.Text.flat lines).take (Pfst.Text.off lines a.self.ln a.self.col) ++ ['(']
        ++ Pfst.Text.getFlat lines a.self.ln a.self.col a.self.endLn a.self.endCol ++ [')']
        ++ (Pfst.Text.flat lines).drop (Pfst.Text.off lines a.self.endLn a.self.endCol) := by
  have h1 : (a.nElts != 0) = true := by simp; omega
  have h2 : (a.nElts == 1) = false := by simp; omega
  have h3 : (a.nElts == 0) = false := by simp; omega
  have hcond : (a.parIfNeeded && (!(a.self.endLn == a.self.ln || a.enclosed) || a.namedExpr)) = true := by
    rw [hpar]
    rcases hneed with ⟨n1, n2⟩ | n3
    · have : (a.self.endLn == a.self.ln) = false := by simp [n1]
      simp [this, n2]
    · simp [n3]
  have hun : fixTuple lines a
      = ⟨true, delimitNode lines a.self false (some (a.fn.endLn, a.fn.endCol)) '(' ')'⟩ := by
    unfold fixTuple maybeAddSingletonComma
    simp only [hd, h1, h2, h3, ↓reduceIte, Bool.false_eq_true, hcond, hroot]
  rw [hun]
  refine ⟨rfl, ?_⟩
  exact delimitNode_flat lines a.self.ln a.self.col a.self.endLn a.self.endCol (some (a.fn.endLn, a.fn.endCol)) '(' ')'
    hend hord hc hec

/-- **`fixTuple_empty`.**  An empty naked tuple whose area holds no code and no comment is replaced, whole area, by
`()`: `_fix_Tuple` answers "delimited" and the new lines are one `_put_src(['()'], area)`. -/
theorem fixTuple_empty (lines : List Line) (a : TupIn) (hd : a.isDelim = some false) (hn : a.nElts = 0)
    (hblank : nextFrag lines a.self.ln a.self.col a.self.endLn a.self.endCol true .f = none) :
    fixTuple lines a
      = ⟨true, Pfst.Text.putSrc lines [['(', ')']] a.self.ln a.self.col a.self.endLn a.self.endCol⟩ := by
  unfold fixTuple fixUndelimEmpty
  simp [hd, hn, hblank]

/-! ## non-vacuity: concrete sources on which the hypotheses hold and the functions do something -/

private def src1 : List Line := ["[a, (b) , c]".toList]
private def src2 : List Line := ["f(a  # c".toList, "  )  \\".toList, "  , b)".toList]
private def src3 : List Line := ["[a, # c".toList, " b]".toList]

-- the comma after `(b)` is found behind the closing parenthesis and the blank
example : (trailSep src1 0 6 0 11 [','] .no).pos = some (0, 8) := by decide
example : Target src1 0 6 0 11 [','] 0 8 := (trailSep_spec src1 0 6 0 11 [','] .no (by decide) (by decide) 0 8).mp (by decide)
-- deleting it takes the blank in front along, nothing else
example : (trailSep src1 0 6 0 11 [','] .yes).del = some (0, 7, 9) := by decide
example : (trailSep src1 0 6 0 11 [','] .yes).lines = ["[a, (b) c]".toList] := by decide
-- over a comment, a closing parenthesis on the next line and a continuation
example : (trailSep src2 0 3 2 5 [','] .no).pos = some (2, 2) := by decide
-- the whitespace in front reaches the start of the line: only the separator goes
example : (trailSep src2 0 3 2 5 [','] .yes).lines = ["f(a  # c".toList, "  )  \\".toList, "   b)".toList] := by decide
-- `del_=None`: a separator followed by a comment is kept, `del_=True` removes it
example : (trailSep src3 0 2 1 2 [','] .aesth).lines = src3 := by decide
example : (trailSep src3 0 2 1 2 [','] .yes).lines = ["[a # c".toList, " b]".toList] := by decide
-- something else follows: no separator
example : (trailSep src1 0 2 0 11 [';'] .no).pos = none := by decide

-- `_maybe_ins_sep`: inserted behind the closing parenthesis; a blank added behind an existing comma; `;` gets a blank in front
example : (maybeInsSep ["[a, (b)]".toList] 0 6 false 0 7 [',']).lines = ["[a, (b),]".toList] := by decide
example : (maybeInsSep ["[a,b]".toList] 0 2 true 0 4 [',']).lines = ["[a, b]".toList] := by decide
example : (maybeInsSep ["a".toList] 0 1 true 0 1 [';']).lines = ["a ; ".toList] := by decide
example : StartLeEnd 0 6 0 7 := Or.inr ⟨rfl, by decide⟩

-- `_fix_Tuple`: `(a)` becomes `(a,)`, `((a) )` becomes `((a), )`, `(a,)` and `(a, b)` stay
private def tup1 : TupIn :=
  { self := ⟨0, 0, 0, 3⟩, nElts := 1, f0 := ⟨0, 1, 0, 2⟩, fn := ⟨0, 1, 0, 2⟩, p0 := (0, 1), pn := (0, 2),
    isDelim := none, parIfNeeded := true, isRoot := true, enclosed := true, namedExpr := false, extra := [] }
example : fixTuple ["(a)".toList] tup1 = ⟨true, ["(a,)".toList]⟩ := by decide
example : (maybeAddSingletonComma ["((a) )".toList] 1 (0, 3) (0, 6) true).lines = ["((a), )".toList] := by decide
example : (maybeAddSingletonComma ["(a,)".toList] 1 (0, 2) (0, 4) true).lines = ["(a,)".toList] := by decide
example : (maybeAddSingletonComma ["(a, b)".toList] 2 (0, 2) (0, 6) true).lines = ["(a, b)".toList] := by decide

-- a naked two-line tuple inside `f[...]`-less context (an assignment value) gets its parentheses
private def src4 : List Line := ["x = a,".toList, "    b".toList]
private def tup4 : TupIn :=
  { self := ⟨0, 4, 1, 5⟩, nElts := 2, f0 := ⟨0, 4, 0, 5⟩, fn := ⟨1, 4, 1, 5⟩, p0 := (0, 4), pn := (1, 5),
    isDelim := some false, parIfNeeded := true, isRoot := false, enclosed := false, namedExpr := false, extra := [] }
example : fixTuple src4 tup4 = ⟨true, ["x = (a,".toList, "    b)".toList]⟩ := by decide
-- an empty naked tuple (what is left of `a,` after its element was cut) becomes `()`
private def tup5 : TupIn :=
  { self := ⟨0, 4, 0, 5⟩, nElts := 0, f0 := ⟨0, 0, 0, 0⟩, fn := ⟨0, 0, 0, 0⟩, p0 := (0, 0), pn := (0, 0),
    isDelim := some false, parIfNeeded := true, isRoot := false, enclosed := true, namedExpr := false, extra := [] }
example : fixTuple ["x =  ".toList] tup5 = ⟨true, ["x = ()".toList]⟩ := by decide

end Pfst.C01b
