import Pfst.GrammarLemmas
import Pfst.Prec

/-!
# C09 — replacing an operand never changes how the surrounding expression groups

* `pr_derives`: for EVERY abstract syntax tree (any depth, any arity) and every parenthesisation policy that covers what
  the grammar needs, the printed token list derives exactly that tree in the spec grammar (`Pfst/Grammar.lean`).
* `table_sound`: pfst's own decision function, re-extracted from `/repo` on every run over its whole domain
  (`Pfst/Gen/Precedence.lean`), requires parentheses in every (slot, child kind, flags) cell where the grammar needs them.
* `not_derives_*`: the grammar is discriminating (a wrongly grouped reading is NOT derivable).

Trusted: the transcription of the grammar (`Kind.cls`, `Kind.slot`, `Kind.render`) and of pfst's vocabulary
(`Prec.clsOf`, `Prec.slotOf`), both validated against CPython by the correspondence harness on every run; unambiguity of
the grammar (a derivation is *the* parse) is validated the same way, not proved.
-/
namespace Pfst.C09
open Pfst.Grammar Pfst.Prec

/-- Printing with any policy `P` that parenthesises at least where the grammar needs it (and only things that can be
parenthesised) derives the intended tree — for every tree and every slot. -/
theorem pr_derives (P : Slot → Cls → Bool)
    (hneed : ∀ s c, specNeed s c = true → P s c = true)
    (hpar : ∀ s c, P s c = true → accepts s c = true → parenable c = true)
    (s : Slot) (e : E) (hw : wf s e = true) : Derives s (pr P s e) e :=
  pr_derives_aux P hneed hpar s e hw

/-- The minimal policy (parenthesise exactly when needed) is such a policy on well-formed trees: corollary used by the
correspondence (Lean prints, CPython parses). -/
theorem pr_minimal_derives (s : Slot) (e : E) (hw : wf s e = true) : Derives s (pr minimal s e) e :=
  pr_derives minimal (fun _ _ h => h) (fun s c h ha => by simp [minimal, specNeed, ha] at h) s e hw

/-- replace the `i`-th child -/
def setKid (e : E) (i : Nat) (r : E) : E :=
  match e with
  | .leaf t c => .leaf t c
  | .node k kids => .node k (kids.set i r)

/-- Replacing an operand by ANY replacement expression and printing with a covering policy yields a phrase that derives
the parent with exactly that replacement in that position (whatever the depth of parent and replacement). -/
theorem replace_groups (P : Slot → Cls → Bool)
    (hneed : ∀ s c, specNeed s c = true → P s c = true)
    (hpar : ∀ s c, P s c = true → accepts s c = true → parenable c = true)
    (s : Slot) (e r : E) (i : Nat) (hw : wf s (setKid e i r) = true) :
    Derives s (pr P s (setKid e i r)) (setKid e i r) :=
  pr_derives P hneed hpar s _ hw

/-- **pfst's extracted decision table covers the grammar's need** on every mapped (slot, child kind, flags) cell.
Re-checked by the kernel against the table regenerated from the working tree. -/
theorem table_sound : tableSound = true := by decide +kernel

/-! ### the grammar is discriminating -/

private def a : E := .leaf (.name 0) (.lad ATOM)
private def b : E := .leaf (.name 1) (.lad ATOM)
private def c : E := .leaf (.name 2) (.lad ATOM)
private def subR : E := .node (.bin 6) [a, .node (.bin 6) [b, c]]      -- a - (b - c)
private def subL : E := .node (.bin 6) [.node (.bin 6) [a, b], c]      -- (a - b) - c
private def toks : List Tok := [.name 0, .sym 6, .name 1, .sym 6, .name 2]   -- a - b - c

/-- `a - b - c` derives the left-grouped tree … -/
example : Derives (sl TEST) toks subL := by
  have := pr_minimal_derives (sl TEST) subL (by decide)
  simpa [pr, prL, wrap, minimal, specNeed, accepts, subL, a, b, c, Kind.render, Kind.cls, Kind.slot, binLevel, sl,
    TEST, ARITH, ATOM, toks] using this

/-- … and the printer parenthesises the right-grouped one: `a - (b - c)`. -/
example : pr minimal (sl TEST) subR = [.name 0, .sym 6, .lp, .name 1, .sym 6, .name 2, .rp] := by decide

/-- … and does NOT derive the right-grouped tree. -/
theorem not_derives_sub_right : ¬ Derives (sl TEST) toks subR := by
  intro h
  generalize ht : toks = ts at h
  generalize he : subR = e at h
  cases h with
  | leaf => simp [subR] at he
  | paren => simp [toks] at ht
  | node s k kids tss har hacc hL =>
    simp only [subR, E.node.injEq] at he
    obtain ⟨hk, hkids⟩ := he
    subst hk; subst hkids
    cases hL with
    | cons _ _ _ _ ts1 tss1 h1 hL1 =>
      cases hL1 with
      | cons _ _ _ _ ts2 tss2 h2 hL2 =>
        cases hL2
        -- first child is the leaf `a`
        generalize hea : a = ea at h1
        cases h1 with
        | node => simp [a] at hea
        | paren s' ts' e' _ _ =>
          simp [Kind.render, toks] at ht
        | leaf s' t' c' _ =>
          simp only [a, E.leaf.injEq] at hea
          obtain ⟨ht', _⟩ := hea
          subst ht'
          -- second child must be `b - c` at slot `sl (ARITH+1)`: neither accepted nor parenthesised
          generalize heb : E.node (.bin 6) [b, c] = eb at h2
          cases h2 with
          | leaf => simp at heb
          | paren s'' ts'' e'' _ _ => simp [Kind.render, toks] at ht
          | node s'' k'' kids'' tss'' _ hacc'' _ =>
            simp only [E.node.injEq] at heb
            obtain ⟨hk'', _⟩ := heb
            subst hk''
            simp [Kind.slot, Kind.cls, accepts, binLevel, sl, ARITH] at hacc''

/-- non-vacuity of `pr_derives`: the minimal policy satisfies both hypotheses, and a non-trivial tree is well formed -/
example : (∀ s c, specNeed s c = true → minimal s c = true) := fun _ _ h => h
example : wf (sl TEST) (.node .ifexp [subR, .node (.boolop true) [a, b, .node .lambda [c]], .node (.named 3) [subL]]) = true := by
  decide

end Pfst.C09
