import Pfst.TableCheck
import Pfst.Gen.SyntaxOrder
/-! C14, tables: static field orders. -/
namespace Pfst.C14
open Pfst

/-- For every class listed in `Gen.SyntaxOrder.fieldOrder` the child list is, for every tabulated shape, the
concatenation of the field blocks in that one fixed order of fields (list fields in index order). -/
theorem static_field_order_A :
    Gen.SyntaxOrder.shapesEncA.all (TableCheck.staticOk Gen.SyntaxOrder.fieldOrder) = true := by
  decide +kernel

/-- The classes without a fixed field order are exactly the six position/index-interleaved ones (plus the two node
types that do not exist in the running Python and are not tabulated). -/
theorem non_static_classes :
    TableCheck.nonStatic Gen.SyntaxOrder.classes Gen.SyntaxOrder.fieldOrder
      = ["ClassDef", "Dict", "Compare", "Call", "Interpolation", "TemplateStr", "arguments", "MatchMapping"] := by
  decide +kernel

/-- The fixed field orders that differ from the field numbering (the AST-field order of `fst.astutil.FIELDS`), pinned:
a change of any class's child order is a broken proof obligation, not just different data. -/
theorem field_order_pinned :
    (TableCheck.namedOrder Gen.SyntaxOrder.classes Gen.SyntaxOrder.fieldOrder).filter
        (fun nf => nf.2 != List.range nf.2.length) = [] := by
  decide +kernel

end Pfst.C14
