import Pfst.ReconcileCorrect
import Pfst.Gen.ReconcileCatch
/-!
C13 — the retry-at-parent fallback of `Reconcile.recurse_node` over the REFUSAL ALPHABET of the put layer.

`Pfst/Gen/ReconcileCatch.lean` is regenerated on every run: `caught` is the exception tuple of the handler around
`self.recurse_children(node, outa)` (read from the source of the imported module), `battery` the exception class each of a
fixed set of refused direct puts raises (valid edited AST, "cannot ... in this state / at this location", wrong category,
does not parse, not implemented), `retried` the observed behaviour of `reconcile()` when such an exception is injected.
-/
namespace Pfst.C13
open Pfst.Reconcile Pfst.Gen.ReconcileCatch

/-- the handler catches an exception of a class whose MRO is `mro` -/
def isCaught (mro : List String) : Bool := mro.any (fun c => caught.contains c)

/-- Every refusal the put layer produces (battery) is of a class the handler catches. -/
theorem battery_caught : battery.all (fun e => isCaught e.2.2) = true := by decide

/-- ... and the injected refusal of every such class was observed to be retried at the parent. -/
theorem battery_retried : retried.all (fun e => e.2) = true ∧ retried.length = 4 := by decide

/-- The `try: recurse_children(...) except <caught>: put_node(node)` step of `recurse_node` for an in-tree node `n`, as a
function of what happened below: `none` = nothing raised, `some mro` = a put below raised an exception of that class after
the operations `ops` had been done.  An exception that is not caught leaves `reconcile()` (failure flag). -/
def fallbackStep (refusal : Option (List String)) (pre ops : List Op) (n : T) : R :=
  match refusal with
  | none => ⟨pre ++ ops, false⟩
  | some mro => if isCaught mro then ⟨pre ++ ops ++ [⟨[], .put .ast (erase n)⟩], false⟩ else ⟨pre ++ ops, true⟩

/-- TOTAL over the refusal alphabet: whichever refusal of the battery occurs below an in-tree node, after whatever
operations, `reconcile()` does not raise and the slot ends up holding exactly the edited node. -/
theorem fallback_total (e : String × String × List String) (he : e ∈ battery) (pre ops : List Op) (n t : T) :
    (fallbackStep (some e.2.2) pre ops n).fail = false ∧ applyOps (fallbackStep (some e.2.2) pre ops n).ops t = erase n := by
  have h : isCaught e.2.2 = true := (List.all_eq_true.mp battery_caught) e he
  refine ⟨by simp [fallbackStep, h], ?_⟩
  simp only [fallbackStep, h, if_true]
  exact applyOps_put_last (pre ++ ops) .ast (erase n) t

/-- The result does not depend on WHICH kind of refusal occurred. -/
theorem fallback_kind_independent (e₁ e₂ : String × String × List String) (h₁ : e₁ ∈ battery) (h₂ : e₂ ∈ battery)
    (pre ops : List Op) (n : T) : fallbackStep (some e₁.2.2) pre ops n = fallbackStep (some e₂.2.2) pre ops n := by
  have a : isCaught e₁.2.2 = true := (List.all_eq_true.mp battery_caught) e₁ h₁
  have b : isCaught e₂.2.2 = true := (List.all_eq_true.mp battery_caught) e₂ h₂
  simp [fallbackStep, a, b]

/-- The model's `recurse_node` on an in-tree node IS this step: the only refusal the model itself generates is the
`NotImplementedError('different length slice fields')` of `recurse_children` (failure flag of `recFields`). -/
theorem recNode_is_fallbackStep (mark : T) (np : NP) (rel : Path) (outa : T) (l : Option Loc) (k : Nat) (cs : List T)
    (hn : (if !(inPlace np rel l) then erase (markAt mark (qOf l)) else outa).isNode = true) :
    recNode mark np rel outa (.node (.tree l) k cs) =
      (let outa' := if !(inPlace np rel l) then erase (markAt mark (qOf l)) else outa
       let r := recFields mark (.fst 0 (qOf l)) 0 outa'.kids cs
       fallbackStep (if r.fail then some ["NotImplementedError", "RuntimeError"] else none)
         (if !(inPlace np rel l) then [⟨[], .put (.mark (qOf l)) (erase (markAt mark (qOf l)))⟩] else []) r.ops
         (.node (.tree l) k cs)) := by
  have hc : isCaught ["NotImplementedError", "RuntimeError"] = true := by decide
  rw [recNode_tree]
  cases hin : inPlace np rel l
  · simp only [hin, Bool.not_false, if_true] at hn ⊢
    simp only [hn, Bool.not_true, Bool.false_eq_true, if_false]
    split <;> simp_all [fallbackStep, erase]
  · simp only [hin, Bool.not_true, Bool.false_eq_true, if_false] at hn ⊢
    simp only [hn, Bool.not_true, Bool.false_eq_true, if_false]
    split <;> simp_all [fallbackStep, erase]

/-- non-vacuity: the four classes are there, `ValueError` among them -/
example : ("ImportFrom.module deleted at level 0", "ValueError", ["ValueError"]) ∈ battery := by decide
example : (battery.map (fun e => e.2.1)).eraseDups.length = 4 := by decide
example : isCaught ["KeyError", "LookupError"] = false := by decide

end Pfst.C13
