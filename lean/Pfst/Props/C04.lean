import Pfst.TextLemmas
import Pfst.TriviaLemmas

/-!
# C04 — formatting and comments outside the edited element are preserved byte for byte

Part 1 (text layer, `Pfst/Text.lean`): every structured edit changes the source only through `_put_src`; the theorems
below say exactly which characters a `_put_src` call can change (those strictly inside the splice rectangle) and how the
coordinates of everything after it move.  They are reused by C11 / C01 / C07 (`import Pfst.TextLemmas`).

Part 2 (trivia, `Pfst/Trivia.lean`): which comment / blank lines `leading_trivia` / `trailing_trivia` select for an
element: the selected range lies between the neighbour bound and the element and contains nothing but blank, comment
and line-continuation lines.

All theorems are about the executable models, which are compared with the real functions on every run.
-/
namespace Pfst.C04
open Pfst.Text

/-! ## Part 1: `_put_src` -/

/-- **Text outside the splice rectangle is byte-identical**: the new flat source is the old text before the start
point, the put text, the old text after the end point.  All five code paths of `_put_src`. -/
theorem putSrc_flat (L put : List Line) (ln col endLn endCol : Nat) (h : ValidSpan L ln col endLn endCol)
    (hp : put ≠ []) :
    flat (putSrc L put ln col endLn endCol)
      = (flat L).take (off L ln col) ++ flat put ++ (flat L).drop (off L endLn endCol) :=
  Pfst.Text.putSrc_flat L put ln col endLn endCol h hp

/-- Deleting (`src` is `None` / `''`) is the same as putting one empty line. -/
theorem putSrc_delete (L : List Line) (ln col endLn endCol : Nat) (h : ValidSpan L ln col endLn endCol) :
    putSrc L [] ln col endLn endCol = putSrc L [[]] ln col endLn endCol :=
  putSrc_nil L ln col endLn endCol h

/-- Uniform normal form of the five cases: untouched lines before, the put lines with the remains of the first and last
touched line attached, untouched lines after. -/
theorem putSrc_normal (L put : List Line) (ln col endLn endCol : Nat) (h : ValidSpan L ln col endLn endCol) :
    putSrc L put ln col endLn endCol = L.take ln ++ spliceMiddle L put ln col endLn endCol ++ L.drop (endLn + 1) :=
  Pfst.Text.putSrc_normal L put ln col endLn endCol h

/-- **Untouched lines are the same lines**: every line before `ln` keeps its index, every line after `endLn` moves by
`put.length - 1 - (endLn - ln)`, and the number of lines changes by exactly that amount. -/
theorem putSrc_lines_same (L put : List Line) (ln col endLn endCol : Nat) (h : ValidSpan L ln col endLn endCol)
    (hp : put ≠ []) :
    (∀ i, i < ln → (putSrc L put ln col endLn endCol)[i]? = L[i]?) ∧
    (∀ i, endLn < i → (putSrc L put ln col endLn endCol)[shiftLn put ln endLn i]? = L[i]?) ∧
    ((putSrc L put ln col endLn endCol).length : Int) = L.length + dln put ln endLn ∧
    (∀ i, ((shiftLn put ln endLn i : Nat) : Int) = if endLn ≤ i then (i : Int) + dln put ln endLn else ln + put.length - 1) := by
  refine ⟨fun i hi => putSrc_line_before L put ln col endLn endCol h i hi,
    fun i hi => putSrc_line_after L put ln col endLn endCol h hp i hi, ?_, ?_⟩
  · have := putSrc_length L put ln col endLn endCol h
    have hpl : 0 < put.length := List.length_pos_iff.mpr hp
    have := h.hle
    unfold dln; omega
  · intro i
    have hpl : 0 < put.length := List.length_pos_iff.mpr hp
    have := h.hle
    unfold shiftLn dln; split <;> omega

/-- The character shift is the character version of `_params_offset`: `c + dcol` on the last replaced line. -/
theorem shiftCol_eq (put : List Line) (col endLn endCol l c : Nat) (hc : l = endLn → endCol ≤ c) :
    ((shiftCol put col endLn endCol l c : Nat) : Int) = if l = endLn then (c : Int) + dcol put col endCol else c := by
  unfold shiftCol dcol
  by_cases h : l = endLn
  · have := hc h
    simp only [h, if_true]
    split <;> omega
  · simp [h]

theorem shift_le2 (put : List Line) (ln col endLn endCol l1 c1 l2 c2 : Nat)
    (h1 : le2 endLn endCol l1 c1) (h12 : le2 l1 c1 l2 c2) :
    le2 (shiftLn put ln endLn l1) (shiftCol put col endLn endCol l1 c1)
      (shiftLn put ln endLn l2) (shiftCol put col endLn endCol l2 c2) := by
  unfold le2 shiftLn shiftCol at *
  repeat' split
  all_goals omega

/-- **A span that ends at or before the splice start keeps its text at the same coordinates.** -/
theorem getSrc_before (L put : List Line) (ln col endLn endCol : Nat) (h : ValidSpan L ln col endLn endCol)
    (hp : put ≠ []) (l1 c1 l2 c2 : Nat) (h12 : le2 l1 c1 l2 c2) (h2 : le2 l2 c2 ln col) :
    flat (getSrc (putSrc L put ln col endLn endCol) l1 c1 l2 c2) = flat (getSrc L l1 c1 l2 c2) := by
  have hle := h.hle; have hend := h.hend
  have hl2 := le2_line h2
  have hlen := putSrc_length L put ln col endLn endCol h
  rw [getSrc_flat _ _ _ _ _ h12 (by omega), getSrc_flat _ _ _ _ _ h12 (by omega)]
  exact getFlat_before L put ln col endLn endCol h hp l1 c1 l2 c2 h12 h2

/-- **A span that starts at or after the splice end has the same text at the shifted coordinates**
`(l + dln, if l = endLn then c + dcol else c)`. -/
theorem getSrc_after (L put : List Line) (ln col endLn endCol : Nat) (h : ValidSpan L ln col endLn endCol)
    (hp : put ≠ []) (l1 c1 l2 c2 : Nat) (h1 : le2 endLn endCol l1 c1) (h12 : le2 l1 c1 l2 c2)
    (hl2 : l2 < L.length) (hc1 : c1 ≤ (lineAt L l1).length) (hc2 : c2 ≤ (lineAt L l2).length) :
    flat (getSrc (putSrc L put ln col endLn endCol) (shiftLn put ln endLn l1) (shiftCol put col endLn endCol l1 c1)
        (shiftLn put ln endLn l2) (shiftCol put col endLn endCol l2 c2))
      = flat (getSrc L l1 c1 l2 c2) := by
  have hle := h.hle; have hend := h.hend
  have hpl : 0 < put.length := List.length_pos_iff.mpr hp
  have hlen := putSrc_length L put ln col endLn endCol h
  have hl1 := le2_line h1; have hl12 := le2_line h12
  rw [getSrc_flat _ _ _ _ _ (shift_le2 put ln col endLn endCol l1 c1 l2 c2 h1 h12) (by unfold shiftLn; omega),
    getSrc_flat _ _ _ _ _ h12 hl2]
  exact getFlat_after L put ln col endLn endCol h hp l1 c1 l2 c2 h1 h12 hl2 hc1 hc2

/-- **A span that contains the splice has text = its old text before the splice ++ the put text ++ its old text after
the splice** (start fixed, end shifted): containers grow or shrink by exactly the change. -/
theorem getSrc_container (L put : List Line) (ln col endLn endCol : Nat) (h : ValidSpan L ln col endLn endCol)
    (hp : put ≠ []) (l1 c1 l2 c2 : Nat) (h1 : le2 l1 c1 ln col) (h2 : le2 endLn endCol l2 c2)
    (hl2 : l2 < L.length) (hc2 : c2 ≤ (lineAt L l2).length) :
    flat (getSrc (putSrc L put ln col endLn endCol) l1 c1
        (shiftLn put ln endLn l2) (shiftCol put col endLn endCol l2 c2))
      = flat (getSrc L l1 c1 ln col) ++ flat put ++ flat (getSrc L endLn endCol l2 c2) := by
  have hle := h.hle; have hend := h.hend
  have hpl : 0 < put.length := List.length_pos_iff.mpr hp
  have hlen := putSrc_length L put ln col endLn endCol h
  have hl1 := le2_line h1; have hl12 := le2_line h2
  have hsh : le2 l1 c1 (shiftLn put ln endLn l2) (shiftCol put col endLn endCol l2 c2) := by
    have hcol := h.hcol
    unfold le2 shiftLn shiftCol at *
    repeat' split
    all_goals omega
  rw [getSrc_flat _ _ _ _ _ hsh (by unfold shiftLn; omega), getSrc_flat _ _ _ _ _ h1 (by omega),
    getSrc_flat _ _ _ _ _ h2 hl2]
  exact getFlat_container L put ln col endLn endCol h hp l1 c1 l2 c2 h1 h2 hl2 hc2

/-- Arithmetic characterisation of the linear offset: the lengths (+1 for the newline) of the earlier lines plus the
column. -/
theorem off_arith (L : List Line) (l c : Nat) (hc : c ≤ (lineAt L l).length) :
    off L l c = ((L.take l).map (fun x => x.length + 1)).sum + c := by
  rw [off_eq, Nat.min_eq_left hc]; rfl

/-- Character/byte bridge: additivity and monotonicity of `c2b`, `b2c` inverts it on character boundaries. -/
theorem c2b_bridge (a b : Line) (k c d : Nat) :
    c2b (a ++ b) (a.length + k) = c2b a a.length + c2b b k ∧
    (c ≤ d → c2b a c ≤ c2b a d) ∧
    (c ≤ a.length → c ≤ c2b a c ∧ b2c a (c2b a c) = c) :=
  ⟨c2b_append a b k, c2b_mono a c d, fun h => ⟨c2b_ge a c h, b2c_c2b a c h⟩⟩

/-- **`_params_offset` in bytes agrees with the character shift**: the byte column of a character at or after the end
of the replaced span, in the new last line, is its old byte column plus the byte `dcol_offset` of `_params_offset`
(`Pfst.Offset.paramsOffset` on the three byte lengths), and its new character column is `shiftCol`. -/
theorem dcol_bytes (L put : List Line) (ln col endLn endCol : Nat) (h : ValidSpan L ln col endLn endCol)
    (hp : put ≠ []) (c : Nat) (hc1 : endCol ≤ c) :
    (c2b (lineAt (putSrc L put ln col endLn endCol) (shiftLn put ln endLn endLn))
        (shiftCol put col endLn endCol endLn c) : Int)
      = (c2b (lineAt L endLn) c : Int)
        + (Pfst.Offset.paramsOffset put.length ln endLn (c2b (lineAt L endLn) endCol) (utf8Len (lastLine put))
            (c2b (lineAt L ln) col)).2.2.2 := by
  have := Pfst.Text.dcol_bytes L put ln col endLn endCol h hp c hc1
  rw [paramsOffsetBytes_eq] at this
  exact this

/-- **Placement of a freshly parsed fragment** (`_make_exprlike_fst`: parse at the origin, offset by `(ln, lines[ln].c2b(col))`,
splice the lines): every span `(l1,c1)-(l2,c2)` of the fragment denotes, at the placed coordinates `(ln + l, col + c on the
first line, c on the others)` of the new document, exactly the text it denoted in the fragment, so the next edit addressed
to a new node or one of its children touches only that node's text. -/
theorem placed_text (L put : List Line) (ln col endLn endCol : Nat) (h : ValidSpan L ln col endLn endCol)
    (hp : put ≠ []) (l1 c1 l2 c2 : Nat) (hl1 : l1 < put.length) (hl2 : l2 < put.length)
    (hc1 : c1 ≤ (lineAt put l1).length) (hc2 : c2 ≤ (lineAt put l2).length) :
    getFlat (putSrc L put ln col endLn endCol) (placeLn ln l1) (placeCol col l1 c1) (placeLn ln l2) (placeCol col l2 c2)
      = getFlat put l1 c1 l2 c2 :=
  getFlat_placed L put ln col endLn endCol h hp l1 c1 l2 c2 hl1 hl2 hc1 hc2

/-- **Placement in bytes**: the byte column of a fragment point on the first put line is its byte column in the fragment plus
the BYTE length of the text kept before the put position (`lines[ln].c2b(col)`). -/
theorem placed_bytes (L put : List Line) (ln col endLn endCol : Nat) (h : ValidSpan L ln col endLn endCol)
    (hp : put ≠ []) (c : Nat) (hc : c ≤ (lineAt put 0).length) :
    c2b (lineAt (putSrc L put ln col endLn endCol) (placeLn ln 0)) (placeCol col 0 c)
      = placeColBytes L ln col 0 (c2b (lineAt put 0) c) :=
  place_bytes L put ln col endLn endCol h hp c hc

/-- Offsetting by the CHARACTER column instead is wrong as soon as multi-byte text precedes the put position on its line. -/
theorem placed_chars_false :
    ¬ (∀ (L : List Line) (ln col b : Nat), placeColBytes L ln col 0 b = col + b) := by
  intro h
  have := h ["g = \"é\"; t = f(a)".toList] 0 13 2
  revert this; decide

/-! ### non-vacuity (text layer) -/

private def L0 : List Line := ["x = [1,  # one".toList, "     2,  # twö".toList, "     3]".toList, "y = 2  # tail".toList]
private def P0 : List Line := ["22,".toList, "     # new".toList, "     33".toList]

example : ValidSpan L0 1 5 2 6 := ⟨by decide, by decide, by decide, by decide, by decide⟩
example : P0 ≠ [] := by decide
example : putSrc L0 P0 1 5 2 6 ≠ L0 := by decide
example : (putSrc L0 P0 1 5 2 6).map String.ofList
    = ["x = [1,  # one", "     22,", "     # new", "     33]", "y = 2  # tail"] := by decide
-- a span after the splice (`]` on the last replaced line, and the whole next line) and one before it
example : le2 2 6 2 6 ∧ le2 2 6 3 13 ∧ 3 < L0.length := by decide
example : le2 0 0 1 5 := by decide
example : shiftLn P0 1 2 3 = 4 ∧ shiftCol P0 5 2 6 2 6 = 7 := by decide
-- placement: the fragment `nf(p1,⏎   p2)` put over `[1, ...]`'s first element: its second line / child `p2`
example : getFlat (putSrc L0 ["nf(p1,".toList, "       p2)".toList] 0 5 0 6) (placeLn 0 1) (placeCol 5 1 7) (placeLn 0 1) (placeCol 5 1 9)
    = "p2".toList := by decide
-- multi-byte: `ö` before the end column makes byte and character deltas differ
example : c2b (lineAt L0 1) 14 = 15 := by decide

/-! ## Part 2: trivia selection -/
section trivia
open Pfst.Trivia

/-- **lead_in_bounds** (comments none / block / line number; the `'all'` mode shares the loop lemma `scanUp_spec` but its
tail is not proved — full statement: the same for every `comments` value).  The range `leading_trivia` hands back lies
between the topmost admissible line (bound line, +1 if the bound is inside its line) and the element: the text position is
the element itself or column 0 of a line `≤ ln`, a space position is at column 0 between the top and the text line and, for
a finite `space = k`, at most `k` lines above it. -/
theorem lead_in_bounds_partial (lines : List Line) (bln bcol ln col : Nat) (c : LComments) (s : Space) (hb : bln ≤ ln)
    (hc : c ≠ .all) :
    let r := leadingTrivia lines bln bcol ln col c s
    (r.text = (ln, col) ∨ (r.text.2 = 0 ∧ r.text.1 < ln ∧ topLnOf bln bcol ≤ r.text.1)) ∧
    (∀ p, r.space = some p → p.2 = 0 ∧ topLnOf bln bcol ≤ p.1 ∧ p.1 ≤ r.text.1 ∧ (∀ k, s = .n k → r.text.1 ≤ p.1 + k)) := by
  by_cases he : leadEarly lines bln bcol ln col = true
  · rw [lead_early lines bln bcol ln col c s he]
    exact ⟨Or.inl rfl, fun p hp => by cases hp⟩
  · have he' : leadEarly lines bln bcol ln col = false := by simpa using he
    obtain ⟨cl, h1, h2, _, _, _, heq⟩ := lead_modes lines bln bcol ln col c s hb hc he'
    simp only [heq]
    have ht := leadFinish_text lines (topLnOf bln bcol) ln col cl s ((lineAt lines ln).take col)
    refine ⟨?_, ?_⟩
    · rw [ht]
      by_cases hcl : cl = ln
      · left; simp [hcl]
      · right; simp [hcl]; omega
    · intro p hp
      have := leadFinish_space lines (topLnOf bln bcol) ln col cl s _ h1 p hp
      have ht1 : (leadFinish lines (topLnOf bln bcol) ln col cl s ((lineAt lines ln).take col)).text.1 = cl := by
        rw [ht]; by_cases hcl : cl = ln <;> simp [hcl]
      rw [ht1]
      exact ⟨this.1, this.2.1, this.2.2.1, this.2.2.2.2⟩

/-- **lead_only_trivia** (comments none / block / line number): every line from the start of the returned range up to the
element line is blank, a pure comment line or a lone line continuation; the lines of the space part are blank or a
continuation. Nothing else can be deleted or copied as leading trivia. -/
theorem lead_only_trivia_partial (lines : List Line) (bln bcol ln col : Nat) (c : LComments) (s : Space) (hb : bln ≤ ln)
    (hc : c ≠ .all) :
    let r := leadingTrivia lines bln bcol ln col c s
    (∀ i, r.text.1 ≤ i → i < ln → isTriviaLine (lineAt lines i) = true) ∧
    (∀ p, r.space = some p → ∀ i, p.1 ≤ i → i < r.text.1 → reEmptyLineOrCont (lineAt lines i) = true) := by
  by_cases he : leadEarly lines bln bcol ln col = true
  · rw [lead_early lines bln bcol ln col c s he]
    exact ⟨fun i a b => by simp at a; omega, fun p hp => by cases hp⟩
  · have he' : leadEarly lines bln bcol ln col = false := by simpa using he
    obtain ⟨cl, h1, h2, h3, _, _, heq⟩ := lead_modes lines bln bcol ln col c s hb hc he'
    simp only [heq]
    have ht := leadFinish_text lines (topLnOf bln bcol) ln col cl s ((lineAt lines ln).take col)
    have ht1 : (leadFinish lines (topLnOf bln bcol) ln col cl s ((lineAt lines ln).take col)).text.1 = cl := by
      rw [ht]; by_cases hcl : cl = ln <;> simp [hcl]
    rw [ht1]
    exact ⟨h3, fun p hp => (leadFinish_space lines (topLnOf bln bcol) ln col cl s _ h1 p hp).2.2.2.1⟩

/-- **comments = 'none' selects no comment**: the text position is always the element itself. -/
theorem lead_none_spec (lines : List Line) (bln bcol ln col : Nat) (s : Space) (hb : bln ≤ ln) :
    (leadingTrivia lines bln bcol ln col .none s).text = (ln, col) := by
  by_cases he : leadEarly lines bln bcol ln col = true
  · rw [lead_early lines bln bcol ln col _ s he]
  · have he' : leadEarly lines bln bcol ln col = false := by simpa using he
    obtain ⟨cl, _, _, _, h4, _, heq⟩ := lead_modes lines bln bcol ln col .none s hb (by decide) he'
    rw [heq, leadFinish_text, h4 rfl]; simp

/-- **comments = 'block' selects only a contiguous run of comment lines directly above the element** (no blank line, no
continuation inside the run). -/
theorem lead_block_spec (lines : List Line) (bln bcol ln col : Nat) (s : Space) (hb : bln ≤ ln) :
    ∀ i, (leadingTrivia lines bln bcol ln col .block s).text.1 ≤ i → i < ln →
      reCommentLineStart (lineAt lines i) = true := by
  by_cases he : leadEarly lines bln bcol ln col = true
  · rw [lead_early lines bln bcol ln col _ s he]; intro i a b; simp at a; omega
  · have he' : leadEarly lines bln bcol ln col = false := by simpa using he
    obtain ⟨cl, _, _, _, _, h5, heq⟩ := lead_modes lines bln bcol ln col .block s hb (by decide) he'
    have ht1 : (leadFinish lines (topLnOf bln bcol) ln col cl s ((lineAt lines ln).take col)).text.1 = cl := by
      rw [leadFinish_text]; by_cases hcl : cl = ln <;> simp [hcl]
    rw [heq, ht1]; exact h5 rfl

/-- **trailing loops** (the part of `trailing_trivia` where a wrong bound would take the next element's comment): the
downward comment scan never passes `stop_ln` (derived from the bound), passes only matching lines, and the recorded end
of comments is just below a comment line; the space scan passes only blank / continuation lines and never passes its
limit.  (Full `trail_in_bounds` / `trail_only_trivia` for the assembled result: not proved, checked by correspondence.) -/
theorem trail_scan_partial (pat : Line → Option Bool) (lines : List Line) (stop hi fuel cur cl : Nat) :
    (let r := scanDown pat lines stop fuel cur cl;
      cur ≤ r.1 ∧ (r.1 ≤ stop ∨ r.1 = cur) ∧ (∀ i, cur ≤ i → i < r.1 → (pat (lineAt lines i)).isSome)
      ∧ (r.2 = cl ∨ (cur < r.2 ∧ r.2 ≤ r.1 ∧ pat (lineAt lines (r.2 - 1)) = some true))) ∧
    (let b := spaceDown lines hi fuel cur;
      cur ≤ b ∧ (b ≤ hi ∨ b = cur) ∧ (∀ i, cur ≤ i → i < b → reEmptyLineOrCont (lineAt lines i) = true)) :=
  ⟨scanDown_spec pat lines stop fuel cur cl, spaceDown_spec lines hi fuel cur⟩

/-- **triviaParams_total**: every value accepted by `_check_opt_trivia` (booleans, integers, the words
`all|block|none|(line)` with an optional `+`/`-` and digits, the bare `+…`/`-…` shorthand; single or in a 0/1/2-tuple) is
mapped by `get_trivia_params`, for either value of `neg`, to `comments` values that `leading_trivia` /
`trailing_trivia` handle (`none|all|block|int`, trailing also `line`).  Holds since option strings must be non-empty
(before that repair `''` was accepted and mapped to `comments = ''`). -/
theorem triviaParams_total (t : TrivOpt) (neg : Bool) (h : checkOptTrivia t = true) :
    ∃ p, getTriviaParams t neg = some p ∧ legalLead p.leadC = true ∧ legalTrail p.trailC = true :=
  getTriviaParams_total t neg h

example : checkOptTrivia (.single (.str "all+3".toList)) = true ∧ checkOptTrivia (.tuple [.str "-".toList, .str "line+".toList]) = true
    ∧ checkOptTrivia (.single (.str [])) = false ∧ checkOptTrivia (.tuple [.str []]) = false
    ∧ checkOptTrivia (.single (.str "line".toList)) = false := by decide
example : getTriviaParams (.single (.str "all+3".toList)) false
    = some ⟨.str "all".toList, .int 3, false, .str "line".toList, .bool false, false⟩ := by decide

/-! ### option resolution in front of `get_trivia_params` -/

/-- a value passed to the call wins over every default -/
theorem effective_call {α : Type} (v : α) (s : OptState α) : effective (some v) s = v := rfl

/-- inside `with FST.options(opt=v)` a call without the option sees `v`; leaving the block restores the state exactly,
whatever `set_options` did to this option inside -/
theorem options_block {α : Type} (v : α) (s : OptState α) :
    effective none (s.step (.enter v)) = v ∧ (s.step (.enter v)).step .exit = s
    ∧ ∀ w, ((s.step (.enter v)).step (.set w)).step .exit = s := ⟨rfl, rfl, fun _ => rfl⟩

/-- `set_options` changes what calls without the option see, and nothing else -/
theorem set_options_effective {α : Type} (v : α) (s : OptState α) (c : Option α) :
    effective c (s.step (.set v)) = c.getD v := by cases c <;> rfl

/-- **The selected trivia depends only on the effective option value**: whatever the channel (per call, `FST.options()`,
`FST.set_options()`), equal effective values give equal `get_trivia_params` results and therefore equal leading / trailing
trivia spans (anything computed from the parameters). -/
theorem trivia_depends_on_effective {β : Type} (c1 c2 : Option TrivOpt) (s1 s2 : OptState TrivOpt) (neg : Bool)
    (h : effective c1 s1 = effective c2 s2) (F : Option TParams → β) :
    F (getTriviaParams (effective c1 s1) neg) = F (getTriviaParams (effective c2 s2) neg) := by rw [h]

example : effective none ((⟨TrivOpt.single (.bool true), []⟩ : OptState TrivOpt).step (.enter (.tuple [.bool false, .bool false])))
    = effective (some (.tuple [.bool false, .bool false])) ⟨.single (.bool true), []⟩ := rfl

/-! ### non-vacuity (trivia) -/

private def B0 : List Line := ["a = 1".toList, "".toList, "# lead 1".toList, "".toList, "    # lead 2".toList,
  "    b = 2  # tb".toList, "    # trail".toList, "".toList, "c = 3".toList]

example : leadEarly B0 0 5 5 4 = false := by decide
example : leadingTrivia B0 0 5 5 4 .block (.n 1) = ⟨(4, 0), some (3, 0), some "    ".toList⟩ := by decide
example : leadingTrivia B0 0 5 5 4 .all .all = ⟨(2, 0), some (1, 0), some "    ".toList⟩ := by decide
example : leadingTrivia B0 0 5 5 4 .none (.n 0) = ⟨(5, 4), some (5, 0), some "    ".toList⟩ := by decide
example : trailingTrivia B0 8 0 5 9 .line (.n 0) = ⟨(6, 0), none, true⟩ := by decide
example : trailingTrivia B0 8 0 5 9 .block .all = ⟨(7, 0), some (8, 0), true⟩ := by decide
example : trailingTrivia B0 8 0 5 9 .none (.n 0) = ⟨(5, 9), some (5, 11), false⟩ := by decide

end trivia

end Pfst.C04
