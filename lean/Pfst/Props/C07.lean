import Pfst.CopyLemmas

/-!
# C07 — copying never disturbs the tree; extraction is faithful and loses nothing

Property theorems about the model of `_make_fst_and_dedent` (`Pfst/Copy.lean`), the one function through which `copy()`,
`cut()`, `get()` and `get_slice()` build the tree they return.  Lines are character lists, AST positions are byte
columns; `c2b` links the two.  Not covered here (judged per case by CPython in the harness): `copy_ast`, `_fix_copy`,
the trivia / separator span computations of the slice modules.
-/
namespace Pfst.C07
open Pfst.Offset Pfst.Copy

/-- **copy_pure**: the source document a copy hands back is exactly the one it was given — lines and tree. (The model
function has no way to write to it; the correspondence harness compares the real lines after every real call.) -/
theorem copy_pure (d : Doc) (sub : Node) (a : CopyArgs) : (copyNode d sub a).1 = d := rfl

/-- **cut_eq**: a cut returns the tree the copy returns and leaves the source that `_put_src(put_lines, *put_loc,
tail=True)` leaves; the new tree is built from the lines *before* the put. -/
theorem cut_eq (d : Doc) (sub : Node) (a : CopyArgs) (pl : Loc) (put : Option Lines) :
    cutNode d sub a pl put = (putSrcTail d pl put, (copyNode d sub a).2) := rfl

/-- **rebase_tree**: on a geometrically ordered subtree the rebase walk (with the early exits of `_offset`) moves every
node, i.e. equals the naive map of `offsetPos` (C11's WARNING invariant, instantiated at the rebase parameters). -/
theorem rebase_tree (L : Lines) (ln col : Nat) (pfx : Option Lines) (sub : Node) (h : geo sub = true) :
    offsetTree (rebaseParams L ln col pfx) sub = naiveNode (rebaseParams L ln col pfx) sub :=
  goNode_eq_naive _ sub h

/-- **rebase_pos**: every position of the copied subtree (starts at or after the copy start, ends strictly after it) is
moved by `(prefix_extra_lns - ln)` lines, and on the first copied line by `prefix_col_offset - c2b(col)` bytes; columns
on later lines are untouched. -/
theorem rebase_pos (L : Lines) (ln col : Nat) (pfx : Option Lines) (p : Pos) (hw : p.wf = true)
    (hcol : col ≤ (lineAt L ln).length)
    (hs : (ln : Int) + 1 < p.lno ∨ (p.lno = (ln : Int) + 1 ∧ ((c2b (lineAt L ln) col : Nat) : Int) ≤ p.col))
    (he : (ln : Int) + 1 < p.elno ∨ (p.elno = (ln : Int) + 1 ∧ ((c2b (lineAt L ln) col : Nat) : Int) < p.ecol)) :
    offsetPos (rebaseParams L ln col pfx) p =
      ⟨p.lno + (((prefixExtra pfx).1 : Int) - ln),
       if p.lno = (ln : Int) + 1 then p.col + (((prefixExtra pfx).2 : Int) - (c2b (lineAt L ln) col : Nat)) else p.col,
       p.elno + (((prefixExtra pfx).1 : Int) - ln),
       if p.elno = (ln : Int) + 1 then p.ecol + (((prefixExtra pfx).2 : Int) - (c2b (lineAt L ln) col : Nat)) else p.ecol⟩ := by
  have hmin : min col (lineAt L ln).length = col := by omega
  have := offsetPos_rebase (rebaseParams L ln col pfx) p rfl rfl hw
    (by simp only [rebaseParams, hmin]; exact hs) (by simp only [rebaseParams, hmin]; exact he)
  simpa only [rebaseParams, hmin] using this

/-- **c2b_rebase** (bytes vs characters): on the first line of the new root — `prefix[-1] ++ line[col:]` — the character
column `k` of the source (`col ≤ k`) sits at character `len(prefix[-1]) + k - col`, and its byte column is the source
byte column minus `c2b(col)` plus the prefix bytes: the byte rebase of `rebase_pos` is the image of the character
rebase. -/
theorem c2b_rebase (P l : Line) (col k : Nat) (h : col ≤ k) :
    c2b (P ++ l.drop col) (P.length + (k - col)) + c2b l col = blen P + c2b l k := by
  unfold c2b
  rw [List.take_length_add_append, blen_append, take_split l col k h, blen_append]
  omega

/-- **copy_lines_length**: the crop has one line per source line of the span. -/
theorem copy_lines_length (L : Lines) (ln col eln ecol : Nat) (h1 : ln ≤ eln) (h2 : eln < L.length) :
    (getSrc L ln col eln ecol).length = eln - ln + 1 := by
  unfold getSrc
  split
  · rename_i h
    have : eln = ln := by simpa using h
    simp only [List.length_cons, List.length_nil]; omega
  · rename_i h
    have hne : eln ≠ ln := by simpa using h
    simp only [List.length_append, List.length_cons, List.length_nil, List.length_drop, List.length_take]
    rw [Nat.min_eq_left (Nat.le_of_lt h2)]
    omega

/-- **copy_text_first**: the first line of the crop is the first source line from `col` on (cut at `end_col` for a
one-line span). -/
theorem copy_text_first (L : Lines) (ln col eln ecol : Nat) :
    lineAt (getSrc L ln col eln ecol) 0 =
      if eln = ln then slice (lineAt L ln) col ecol else (lineAt L ln).drop col := by
  unfold getSrc
  by_cases h : eln = ln
  · simp [h, lineAt]
  · have : (eln == ln) = false := by simpa using h
    simp [this, h, lineAt]

/-- **copy_text_mid**: inner lines of the crop are the source lines, unchanged. -/
theorem copy_text_mid (L : Lines) (ln col eln ecol i : Nat) (h2 : eln ≤ L.length) (hi0 : 0 < i)
    (hi : i < eln - ln) : lineAt (getSrc L ln col eln ecol) i = lineAt L (ln + i) := by
  unfold getSrc
  have hne : (eln == ln) = false := by simp; omega
  obtain ⟨j, rfl⟩ : ∃ j, i = j + 1 := ⟨i - 1, by omega⟩
  have hlen : ((L.take eln).drop (ln + 1)).length = eln - ln - 1 := by
    simp only [List.length_drop, List.length_take]; rw [Nat.min_eq_left h2]; omega
  have e1 : ∀ (x y : Line) (Mid : Lines), j < Mid.length → ([x] ++ Mid ++ [y])[j + 1]? = Mid[j]? := by
    intro x y Mid hj
    rw [List.append_assoc]
    simp only [List.singleton_append, List.getElem?_cons_succ]
    rw [List.getElem?_append_left hj]
  simp only [hne, lineAt, Bool.false_eq_true, if_false, List.getD_eq_getElem?_getD]
  rw [e1 _ _ _ (by omega), List.getElem?_drop, List.getElem?_take]
  have : ln + 1 + j < eln := by omega
  simp only [this, if_true]
  congr 2
  omega

/-- **copy_text_last**: the last line of a multi-line crop is the last source line up to `end_col`. -/
theorem copy_text_last (L : Lines) (ln col eln ecol : Nat) (h1 : ln < eln) (h2 : eln ≤ L.length) :
    lineAt (getSrc L ln col eln ecol) (eln - ln) = (lineAt L eln).take ecol := by
  unfold getSrc
  have hne : (eln == ln) = false := by simp; omega
  have hlen : eln - ln = ((L.take eln).drop (ln + 1)).length + 1 := by
    simp only [List.length_drop, List.length_take]; rw [Nat.min_eq_left h2]; omega
  have e1 : ∀ (x y : Line) (Mid : Lines), ([x] ++ Mid ++ [y])[Mid.length + 1]? = some y := by
    intro x y Mid
    rw [List.getElem?_append_right (by simp)]
    simp
  simp only [hne, lineAt, Bool.false_eq_true, if_false, List.getD_eq_getElem?_getD]
  rw [hlen, e1]
  simp

/-- **copy_text_line**: the text of a node (segment `[a, b)` of one line, character columns) read in the crop at the
rebased columns is the text read in the source: on the first copied line columns move by `-col`, on later lines they
do not move, and the cut at `end_col` does not touch anything that ends at or before it. -/
theorem copy_text_line (l : Line) (col ecol a b : Nat) (h1 : col ≤ a) (h2 : b ≤ ecol) :
    slice (l.drop col) (a - col) (b - col) = slice l a b ∧
    slice (l.take ecol) a b = slice l a b ∧
    slice (slice l col ecol) (a - col) (b - col) = slice l a b := by
  refine ⟨slice_drop l col a b h1, slice_take l ecol a b h2, ?_⟩
  have : slice l col ecol = (l.take ecol).drop col := rfl
  rw [this, slice_drop _ col a b h1, slice_take l ecol a b h2]

/-- **dedent_text_line**: `_dedent_lns` removes from a line exactly the `r` leading characters it reports as the
column delta `-r` (`r ≤ len(dedent)`), so a segment that starts at or after `r` reads the same text at columns
shifted by `-r`: the copy's text equals the original's modulo the removed indentation of non-first lines. -/
theorem dedent_text_line (d l : Line) (a b : Nat) :
    ∃ r : Nat, (dedentLine d l).2 = -(r : Int) ∧ r ≤ d.length ∧ (dedentLine d l).1 = l.drop r ∧
      (r ≤ a → slice (dedentLine d l).1 (a - r) (b - r) = slice l a b) := by
  obtain ⟨r, h1, h2, h3⟩ := dedentLine_drop d l
  exact ⟨r, h1, h3, h2, fun h => by rw [h2]; exact slice_drop l r a b h⟩

/-- **dedent_pos_nonneg**: a column at or after the removed indentation stays non-negative. (The hypothesis fails for
the `_match_cases` / `_ExceptHandlers` container when the copied span starts with a leading comment line: its column
lies *inside* the removed indentation. That was finding C07-F2; the repaired `get_slice_stmtlike` therefore re-seats the
container over the whole new source after `_make_fst_and_dedent` instead of relying on the dedent.) -/
theorem dedent_pos_nonneg (d l : Line) (c : Int) (h : -(dedentLine d l).2 ≤ c) : 0 ≤ c + (dedentLine d l).2 := by
  omega

/-- **copy_wf**: a well-formed position of the copied subtree stays well-formed (start ≤ end) through rebase and
dedent, and its lines lie inside the new root: below the prefix lines and, if it ended inside the copied span, not
after the last line. -/
theorem copy_wf (L : Lines) (ln col eln : Nat) (pfx : Option Lines) (d : List Int) (p : Pos) (hw : p.wf = true)
    (hcol : col ≤ (lineAt L ln).length)
    (hs : (ln : Int) + 1 < p.lno ∨ (p.lno = (ln : Int) + 1 ∧ ((c2b (lineAt L ln) col : Nat) : Int) ≤ p.col))
    (he : (ln : Int) + 1 < p.elno ∨ (p.elno = (ln : Int) + 1 ∧ ((c2b (lineAt L ln) col : Nat) : Int) < p.ecol))
    (hend : p.elno ≤ (eln : Int) + 1) (hle : ln ≤ eln) :
    let q := offsetLnsPos d (offsetPos (rebaseParams L ln col pfx) p)
    q.wf = true ∧ ((prefixExtra pfx).1 : Int) + 1 ≤ q.lno ∧ q.elno ≤ ((prefixExtra pfx).1 : Int) + (eln - ln + 1 : Nat)
      ∧ (p.lno = (ln : Int) + 1 → ((prefixExtra pfx).2 : Int) ≤ (offsetPos (rebaseParams L ln col pfx) p).col) := by
  intro q
  have hq : q = offsetLnsPos d (offsetPos (rebaseParams L ln col pfx) p) := rfl
  rw [rebase_pos L ln col pfx p hw hcol hs he] at hq ⊢
  obtain ⟨a, b, c, e⟩ := p
  simp only [Pos.wf, le2, Bool.or_eq_true, decide_eq_true_eq, Bool.and_eq_true, beq_iff_eq] at hw
  simp only at hs he hend
  refine ⟨?_, ?_, ?_, ?_⟩
  · rw [hq]
    apply offsetLnsPos_wf
    simp only [Pos.wf, le2, Bool.or_eq_true, decide_eq_true_eq, Bool.and_eq_true, beq_iff_eq]
    rcases hw with h | ⟨h1, h2⟩
    · left; omega
    · right
      subst h1
      refine ⟨rfl, ?_⟩
      split <;> omega
  · rw [hq]; simp only [offsetLnsPos]; omega
  · rw [hq]; simp only [offsetLnsPos]; omega
  · intro h
    simp only at h
    dsimp only
    rw [if_pos h]
    omega

/-- **conservation** (flat text): with the lines written as `A ++ [p ++ m0] ++ M ++ [mk ++ q] ++ B` and the span from
`(|A|, |p|)` to `(|A| + |M| + 1, |mk|)`: the extracted lines are `m0 :: M ++ [mk]`; the original text is
`pre ++ extracted ++ post`; after the put of a cut the remainder is `pre ++ put ++ post` (`pre ++ post` for a delete),
with the same `pre`, `post`. Nothing else of the source is touched. -/
theorem conservation (A M B : Lines) (p m0 mk q x : Line) :
    let L := A ++ (p ++ m0) :: (M ++ (mk ++ q) :: B)
    let loc : Loc := ⟨A.length, p.length, A.length + M.length + 1, mk.length⟩
    getSrc L loc.ln loc.col loc.endLn loc.endCol = m0 :: (M ++ [mk]) ∧
    flat L = flat (A ++ [p]) ++ flat (m0 :: (M ++ [mk])) ++ flat (q :: B) ∧
    flat (putSrcLines L loc (some [x])) = flat (A ++ [p]) ++ flat [x] ++ flat (q :: B) ∧
    flat (putSrcLines L loc none) = flat (A ++ [p]) ++ flat (q :: B) := by
  intro L loc
  have hl1 : lineAt L A.length = p ++ m0 := lineAt_append_right A _ _
  have hl2 : lineAt L (A.length + M.length + 1) = mk ++ q := lineAt_mid A _ M _ B
  have hne : (A.length + M.length + 1 == A.length) = false := by simp; omega
  have hne' : (A.length + M.length + 1 != A.length) = true := by simp; omega
  have htk : L.take A.length = A := take_A A _
  have hdr : L.drop (A.length + M.length + 1 + 1) = B := drop_canon2 A M B _ _
  refine ⟨?_, ?_, ?_, ?_⟩
  · simp only [getSrc, loc, hne, hl1, hl2]
    rw [show L.take (A.length + M.length + 1) = A ++ (p ++ m0) :: M from take_canon A M B _ _, drop_canon]
    simp
  · have e1 : L = A ++ [p ++ m0] ++ (M ++ (mk ++ q) :: B) := by simp [L]
    rw [e1, flat_split A _ p m0]
    have e2 : [m0] ++ (M ++ (mk ++ q) :: B) = (m0 :: M) ++ [mk ++ q] ++ B := by simp
    rw [e2, flat_split (m0 :: M) B mk q]
    simp
  · simp only [putSrcLines, loc, hne, hl1, hl2, htk, hdr]
    simp only [List.take_left', List.drop_left', Bool.false_eq_true, if_false]
    have e : A ++ [p ++ x ++ q] ++ B = A ++ [p ++ (x ++ q)] ++ B := by simp
    rw [e, flat_split A B p (x ++ q)]
    have e3 : [x ++ q] ++ B = [] ++ [x ++ q] ++ B := by simp
    rw [e3, flat_split [] B x q]
    simp
  · simp only [putSrcLines, loc, hne', hl1, hl2, htk, hdr, if_true]
    simp only [List.take_left', List.drop_left']
    rw [flat_split A B p q]
    simp

/-- **dedent_indent_line**: dedenting by the string that was just prepended gives the line back; empty lines are
touched by neither. -/
theorem dedent_indent_line (ind l : Line) :
    (dedentLine ind (indentLine ind l).1).1 = l := by
  unfold indentLine
  by_cases h : l.isEmpty = true
  · simp only [h, if_true]
    unfold dedentLine
    simp [h]
  · have h' : l.isEmpty = false := by simpa using h
    simp only [h', Bool.false_eq_true, if_false]
    unfold dedentLine
    have hne : (ind ++ l).isEmpty = false := by
      cases ind <;> simp_all
    simp [hne, startsWith_append]

/-- **dedent_indent**: `_dedent_lns(ind)` after `_indent_lns(ind)` over the same set of indentable lines restores
every line. -/
theorem dedent_indent (ind : Line) (sel : Nat → Bool) (L : Lines) (i : Nat) :
    (editLns (dedentLine ind) sel i (editLns (indentLine ind) sel i L).1).1 = L := by
  induction L generalizing i with
  | nil => rfl
  | cons l rest ih =>
    simp only [editLns]
    by_cases hs : sel i = true
    · simp only [hs, if_true, editLns]
      rw [ih (i + 1), dedent_indent_line]
    · have hs' : sel i = false := by simpa using hs
      simp only [hs', Bool.false_eq_true, if_false, editLns]
      rw [ih (i + 1)]

/-- **restore_insert**: restore ∘ insert = id on the lines, one point. -/
theorem restore_insert (A B : Lines) (p q x : Line) :
    putSrcLines (putSrcLines (A ++ (p ++ q) :: B) ⟨A.length, p.length, A.length, p.length⟩ (some [x]))
      ⟨A.length, p.length, A.length, p.length + x.length⟩ none = A ++ (p ++ q) :: B := by
  rw [insert_at, delete_inserted]

/-- **restore_insert_span**: the temporaries a read-only slice get puts around a multi-line span (closing text `y` at the
end point on a later line first, then opening text `x` at the start point — `_restore_solo_call_arg_genexp` and its
counterpart) are removed again in the order end, start, each at the line it was put on: the document is the original. -/
theorem restore_insert_span (A M B : Lines) (p q r s x y : Line) :
    let L := A ++ (p ++ q) :: (M ++ (r ++ s) :: B)
    let e := A.length + M.length + 1
    let L1 := putSrcLines L ⟨e, r.length, e, r.length⟩ (some [y])
    let L2 := putSrcLines L1 ⟨A.length, p.length, A.length, p.length⟩ (some [x])
    let L3 := putSrcLines L2 ⟨e, r.length, e, r.length + y.length⟩ none
    putSrcLines L3 ⟨A.length, p.length, A.length, p.length + x.length⟩ none = L := by
  intro L e L1 L2 L3
  have hA : ∀ u : Line, (A ++ u :: M).length = e := fun u => canon_len A M u
  have h1 : L1 = A ++ (p ++ q) :: (M ++ (r ++ y ++ s) :: B) := by
    show putSrcLines (A ++ (p ++ q) :: (M ++ (r ++ s) :: B)) _ _ = _
    rw [canon_assoc A M B (p ++ q) (r ++ s), ← hA (p ++ q), insert_at, ← canon_assoc]
  have h2 : L2 = A ++ (p ++ x ++ q) :: (M ++ (r ++ y ++ s) :: B) := by
    show putSrcLines L1 _ _ = _
    rw [h1, insert_at]
  have h3 : L3 = A ++ (p ++ x ++ q) :: (M ++ (r ++ s) :: B) := by
    show putSrcLines L2 _ _ = _
    rw [h2, canon_assoc A M B (p ++ x ++ q) (r ++ y ++ s), ← hA (p ++ x ++ q), delete_inserted, ← canon_assoc]
  rw [h3, delete_inserted]

example : putSrcLines (putSrcLines ["total = sum(x * x".toList, "            for x in data)".toList]
    ⟨1, 25, 1, 25⟩ (some [")".toList])) ⟨1, 25, 1, 26⟩ none
    = ["total = sum(x * x".toList, "            for x in data)".toList] := by decide

/-! ### non-vacuity: concrete, non-trivial states meet the hypotheses -/

private def srcL : Lines := ["class C:".toList, "    x = [a,".toList, "         é + b]".toList, "    y = 1".toList]
/-- subtree of `x = [a,\n é + b]` : Assign, Name x, List, Name a, BinOp, Name é, Name b (byte columns: é is 2 bytes) -/
private def sub0 : Node :=
  .mk 0 (some ⟨2, 4, 3, 16⟩) none [ .mk 1 (some ⟨2, 4, 2, 5⟩) none [],
    .mk 2 (some ⟨2, 8, 3, 16⟩) none [ .mk 3 (some ⟨2, 9, 2, 10⟩) none [],
      .mk 4 (some ⟨3, 9, 3, 15⟩) none [ .mk 5 (some ⟨3, 9, 3, 11⟩) none [], .mk 6 (some ⟨3, 14, 3, 15⟩) none [] ] ] ]
private def args0 : CopyArgs := { indent := "    ".toList, loc := ⟨1, 4, 2, 15⟩ }

example : geo sub0 = true := by decide
example : (copyNode ⟨srcL, sub0⟩ sub0 args0).2.lines = ["x = [a,".toList, "     é + b]".toList] := by decide
example : flatten (copyNode ⟨srcL, sub0⟩ sub0 args0).2.tree =
    [(0, some ⟨1, 0, 2, 12⟩), (1, some ⟨1, 0, 1, 1⟩), (2, some ⟨1, 4, 2, 12⟩), (3, some ⟨1, 5, 1, 6⟩),
     (4, some ⟨2, 5, 2, 11⟩), (5, some ⟨2, 5, 2, 7⟩), (6, some ⟨2, 10, 2, 11⟩)] := by decide
example : (⟨2, 8, 3, 16⟩ : Pos).wf = true ∧ ((1 : Nat) : Int) + 1 < (3 : Int) := by decide
example : c2b (lineAt srcL 2) 10 = 11 := by decide     -- `é` makes bytes and characters differ
example : (dedentLine "    ".toList "  2)".toList) = ("2)".toList, -2) := by decide   -- the "inconsistent" branch
example : (cutNode ⟨srcL, .mk 9 none none []⟩ sub0 args0 ⟨1, 0, 3, 0⟩ none).1.lines =
    ["class C:".toList, "    y = 1".toList] := by decide

end Pfst.C07
