import Pfst.TableCheck
import Pfst.Gen.SyntaxOrder
import Pfst.Gen.NextPrev
/-! C14, tables, second half of the shapes. -/
namespace Pfst.C14
open Pfst

theorem table_consistent_B : TableCheck.allOk Gen.SyntaxOrder.shapesEncB Gen.NextPrev.tablesEncB = true := by
  decide +kernel

end Pfst.C14
