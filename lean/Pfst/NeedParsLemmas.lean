import Pfst.NeedPars
/-! Lemmas about the put-time parenthesisation model (`Pfst/NeedPars.lean`): the regular expression test, the gap loops,
the child loop invariant of `_is_enclosed_or_line`, the string branch (a pigeonhole argument), the `pars` option logic. -/
namespace Pfst.NeedPars
open Pfst.Gen.Precedence Pfst.Gen.Enclose

/-! ### `_re_line_end_cont` -/

/-- `[^#]*\\$` matched at `col`: the rest of the line is some text without `#` followed by one final backslash -/
theorem lineEndCont_iff (line : Line) (col : Nat) :
    lineEndCont line col = true ↔ ∃ pre, line.drop col = pre ++ ['\\'] ∧ '#' ∉ pre := by
  unfold lineEndCont
  generalize hd : line.drop col = t
  constructor
  · intro h
    cases hr : t.reverse with
    | nil => simp [hr] at h
    | cons c r =>
      simp only [hr, Bool.and_eq_true, beq_iff_eq, Bool.not_eq_true', List.contains_eq_mem] at h
      refine ⟨r.reverse, ?_, ?_⟩
      · have : t = (c :: r).reverse := by rw [← hr, List.reverse_reverse]
        rw [this, h.1]; simp
      · have := h.2
        simpa using this
  · rintro ⟨pre, hp, hn⟩
    subst hp
    simp [hn]

/-! ### the gap loops -/

theorem gapBad_nil (lines : List Line) : ∀ (cnt a col : Nat), gapBad lines a cnt col = [] →
    ∀ i, a ≤ i → i < a + cnt → lineEndCont (lines.getD i []) (if i = a then col else 0) = true := by
  intro cnt
  induction cnt with
  | zero => intro a col _ i h1 h2; omega
  | succ n ih =>
    intro a col h i h1 h2
    rw [gapBad, List.append_eq_nil_iff] at h
    by_cases hia : i = a
    · subst hia
      simp only [if_true]
      have h1' := h.1
      by_cases hc : lineEndCont (lines.getD i []) col = true
      · exact hc
      · rw [if_neg hc] at h1'
        simp at h1'
    · have := ih (a + 1) 0 h.2 i (by omega) (by omega)
      simp only [hia, if_false]
      by_cases hia1 : i = a + 1
      · simpa [hia1] using this
      · simpa [hia1] using this

/-! ### the child loop -/

/-- newline number `i` (the one that ends line `i`) of a node that starts at `(ln, col)` and walks `steps`:
it lies inside the span of a walked child, or line `i` ends in a backslash with no `#` between column `c` and that
backslash, where `c` is 0, the node's own start (first line) or the end of a child that ends on this line. -/
def NewlineOk (lines : List Line) (steps : List Step) (ln col : Nat) (i : Nat) : Prop :=
  (∃ s ∈ steps, s.loc.ln ≤ i ∧ i < s.loc.endLn) ∨
  (∃ c, lineEndCont (lines.getD i []) c = true ∧
    (c = 0 ∨ (i = ln ∧ c = col) ∨ ∃ s ∈ steps, s.loc.endLn = i ∧ c = s.loc.endCol))

def Inv (lines : List Line) (all : List Step) (ln col : Nat) (st : St) : Prop :=
  (∀ i, ln ≤ i → i < st.lastLn → NewlineOk lines all ln col i) ∧
  (st.lastCol = 0 ∨ (st.lastLn = ln ∧ st.lastCol = col) ∨ ∃ s ∈ all, s.loc.endLn = st.lastLn ∧ st.lastCol = s.loc.endCol)

theorem stepLoop_failed (lines : List Line) (st : St) (s : Step) (h : (stepLoop lines st s).failed = false) :
    st.failed = false := by
  unfold stepLoop at h
  split at h
  · exact h
  · simp only [Bool.or_eq_false_iff] at h
    exact h.1.1

theorem loop_failed (lines : List Line) : ∀ (steps : List Step) (st : St), (loop lines st steps).failed = false →
    st.failed = false := by
  intro steps
  induction steps with
  | nil => intro st h; exact h
  | cons s r ih => intro st h; exact stepLoop_failed lines st s (ih _ h)

theorem stepLoop_inv (lines : List Line) (all : List Step) (ln col : Nat) (st : St) (s : Step) (hs : s ∈ all)
    (hi : Inv lines all ln col st) (hf : (stepLoop lines st s).failed = false) :
    Inv lines all ln col (stepLoop lines st s) := by
  by_cases heq : (s.loc.endLn == st.lastLn) = true
  · simp only [stepLoop, heq, ↓reduceIte]
    refine ⟨hi.1, Or.inr (Or.inr ⟨s, hs, ?_, rfl⟩)⟩
    simpa using heq
  · simp only [stepLoop, heq, ↓reduceIte, Bool.false_eq_true, Bool.or_eq_false_iff, Bool.not_eq_false', List.isEmpty_iff] at hf ⊢
    have hbad := hf.1.2
    have hgap := gapBad_nil lines _ _ _ hbad
    refine ⟨?_, Or.inr (Or.inr ⟨s, hs, rfl, rfl⟩)⟩
    intro i h1 h2
    simp only at h2
    by_cases hlt : i < st.lastLn
    · exact hi.1 i h1 hlt
    · by_cases hin : s.loc.ln ≤ i
      · exact Or.inl ⟨s, hs, hin, h2⟩
      · have hg := hgap i (by omega) (by omega)
        by_cases hil : i = st.lastLn
        · simp only [hil, if_true] at hg
          refine Or.inr ⟨st.lastCol, by simpa [hil] using hg, ?_⟩
          rcases hi.2 with h0 | ⟨ha, hb⟩ | ⟨s', hs', ha, hb⟩
          · exact Or.inl h0
          · exact Or.inr (Or.inl ⟨by omega, hb⟩)
          · exact Or.inr (Or.inr ⟨s', hs', by omega, hb⟩)
        · simp only [hil, if_false] at hg
          exact Or.inr ⟨0, hg, Or.inl rfl⟩

theorem loop_inv (lines : List Line) (all : List Step) (ln col : Nat) : ∀ (steps : List Step) (st : St),
    (∀ s ∈ steps, s ∈ all) → Inv lines all ln col st → (loop lines st steps).failed = false →
    Inv lines all ln col (loop lines st steps) := by
  intro steps
  induction steps with
  | nil => intro st _ hi _; exact hi
  | cons s r ih =>
    intro st hsub hi hf
    have hf1 : (stepLoop lines st s).failed = false := loop_failed lines r _ hf
    exact ih _ (fun x hx => hsub x (List.mem_cons_of_mem _ hx))
      (stepLoop_inv lines all ln col st s (hsub s List.mem_cons_self) hi hf1) hf

/-- the loop part of `_is_enclosed_or_line`: answer `True` ⇒ every newline of the span is harmless -/
theorem finish_sound (lines : List Line) (steps : List Step) (ln col endLn : Nat)
    (h : (finish lines (loop lines ⟨ln, col, false, false, []⟩ steps) endLn).1.truthy = true) :
    ∀ i, ln ≤ i → i < endLn → NewlineOk lines steps ln col i := by
  generalize hst : loop lines ⟨ln, col, false, false, []⟩ steps = st at h
  unfold finish at h
  simp only at h
  have hf : st.failed = false ∧ gapBad lines st.lastLn (endLn - st.lastLn) st.lastCol = [] := by
    by_cases he : st.err = true
    · simp [he, EolRes.truthy] at h
    · simp only [he] at h
      by_cases hf : (st.failed || !(gapBad lines st.lastLn (endLn - st.lastLn) st.lastCol).isEmpty) = true
      · simp [hf, EolRes.truthy] at h
      · simp only [Bool.not_eq_true, Bool.or_eq_false_iff, Bool.not_eq_false', List.isEmpty_iff] at hf
        exact hf
  have hinv : Inv lines steps ln col st := by
    rw [← hst]
    apply loop_inv lines steps ln col steps _ (fun s hs => hs)
    · exact ⟨fun i h1 h2 => by simp only at h2; omega, Or.inr (Or.inl ⟨rfl, rfl⟩)⟩
    · rw [hst]; exact hf.1
  intro i h1 h2
  by_cases hlt : i < st.lastLn
  · exact hinv.1 i h1 hlt
  · have hg := gapBad_nil lines _ _ _ hf.2 i (by omega) (by omega)
    by_cases hil : i = st.lastLn
    · simp only [hil, if_true] at hg
      refine Or.inr ⟨st.lastCol, by simpa [hil] using hg, ?_⟩
      rcases hinv.2 with h0 | ⟨ha, hb⟩ | ⟨s', hs', ha, hb⟩
      · exact Or.inl h0
      · exact Or.inr (Or.inl ⟨by omega, hb⟩)
      · exact Or.inr (Or.inr ⟨s', hs', by omega, hb⟩)
    · simp only [hil, if_false] at hg
      exact Or.inr ⟨0, hg, Or.inl rfl⟩

/-! ### the string branch -/

theorem mem_dedup : ∀ (l : List Nat) (x : Nat), x ∈ dedup l ↔ x ∈ l := by
  intro l
  induction l with
  | nil => intro x; simp [dedup]
  | cons y r ih =>
    intro x
    by_cases hc : r.contains y = true
    · simp only [dedup, hc, if_true, ih, List.mem_cons]
      constructor
      · exact Or.inr
      · rintro (h | h)
        · subst h; simpa using hc
        · exact h
    · simp only [dedup, hc, if_false, List.mem_cons, ih, Bool.false_eq_true]

theorem nodup_dedup : ∀ (l : List Nat), (dedup l).Nodup := by
  intro l
  induction l with
  | nil => simp [dedup]
  | cons y r ih =>
    by_cases hc : r.contains y = true
    · simpa only [dedup, hc, if_true] using ih
    · simp only [dedup, hc, if_false, Bool.false_eq_true, List.nodup_cons]
      refine ⟨?_, ih⟩
      rw [mem_dedup]
      simpa using hc

/-- `n` distinct numbers inside a window of `n` numbers fill the window -/
theorem pigeon : ∀ (n a : Nat) (l : List Nat), l.Nodup → (∀ x ∈ l, a ≤ x ∧ x < a + n) → l.length = n →
    ∀ x, a ≤ x → x < a + n → x ∈ l := by
  intro n
  induction n with
  | zero => intro a l _ _ _ x h1 h2; omega
  | succ n ih =>
    intro a l hnd hb hlen x h1 h2
    by_cases ht : (a + n) ∈ l
    · have hnd' : (l.erase (a + n)).Nodup := hnd.erase _
      have hlen' : (l.erase (a + n)).length = n := by rw [List.length_erase_of_mem ht, hlen]; rfl
      have hb' : ∀ y ∈ l.erase (a + n), a ≤ y ∧ y < a + n := by
        intro y hy
        have hy' := (hnd.mem_erase_iff).1 hy
        have := hb y hy'.2
        omega
      by_cases hx : x = a + n
      · rw [hx]; exact ht
      · exact List.mem_of_mem_erase (ih a _ hnd' hb' hlen' x h1 (by omega))
    · cases l with
      | nil => simp at hlen
      | cons y r =>
        exfalso
        have hnd' := List.nodup_cons.1 hnd
        have hb' : ∀ z ∈ r, a ≤ z ∧ z < a + n := by
          intro z hz
          have := hb z (List.mem_cons_of_mem _ hz)
          have hne : z ≠ a + n := fun e => ht (e ▸ List.mem_cons_of_mem _ hz)
          omega
        have hy := hb y List.mem_cons_self
        have hyne : y ≠ a + n := fun e => ht (e ▸ List.mem_cons_self)
        exact hnd'.1 (ih a r hnd'.2 hb' (by simpa using hlen) y hy.1 (by omega))

theorem endsBackslash_iff (line : Line) : endsBackslash line = true ↔ ∃ pre, line = pre ++ ['\\'] := by
  unfold endsBackslash
  constructor
  · intro h
    cases hr : line.reverse with
    | nil => simp [hr] at h
    | cons c r =>
      simp only [hr, beq_iff_eq] at h
      refine ⟨r.reverse, ?_⟩
      have : line = (c :: r).reverse := by rw [← hr, List.reverse_reverse]
      rw [this, h]; simp
  · rintro ⟨pre, rfl⟩
    simp

/-- the string branch: answer `True` ⇒ every line of the span but the last is followed by a string continuation line
(tokenize) or ends in a backslash with no `#` from the walk column (the node's start on its first line, 0 later) on -/
theorem strBranch_sound (lines : List Line) (l : Loc) (strLns : List Nat)
    (hs : ∀ x ∈ strLns, l.ln < x ∧ x ≤ l.endLn)
    (h : (strBranch lines l strLns).1.truthy = true) :
    ∀ j, l.ln ≤ j → j < l.endLn →
      (j + 1 ∈ strLns ∨ lineEndCont (lines.getD j []) (if j = l.ln then l.col else 0) = true) := by
  unfold strBranch at h
  simp only at h
  split at h
  · rename_i hlen
    simp only [beq_iff_eq] at hlen
    intro j h1 h2
    have hmem := pigeon (l.endLn - l.ln) (l.ln + 1) _ (nodup_dedup _) ?_ hlen (j + 1) (by omega) (by omega)
    · rw [mem_dedup, List.mem_append] at hmem
      rcases hmem with hm | hm
      · exact Or.inl hm
      · simp only [List.mem_map, List.mem_filter] at hm
        obtain ⟨j', ⟨_, hp⟩, he⟩ := hm
        have : j' = j := by omega
        subst this
        right
        by_cases hj : j' = l.ln
        · simpa [hj] using hp
        · simpa [hj] using hp
    · intro x hx
      rw [mem_dedup, List.mem_append] at hx
      rcases hx with hm | hm
      · have := hs x hm; omega
      · simp only [List.mem_map, List.mem_filter, List.mem_range'_1] at hm
        obtain ⟨j', ⟨hr, _⟩, he⟩ := hm
        omega
  · simp [EolRes.truthy] at h

/-! ### `_is_enclosed_or_line` as a whole -/

/-- the `end_ln` the tail loop runs to: the end of the header for `With` / `AsyncWith` -/
def tailEnd (i : Info) (l : Loc) : Nat :=
  if withKinds.contains i.kind then (match i.special with | some (_, _, b) => b | none => l.endLn) else l.endLn

theorem eol_cases (lines : List Line) (checkPars : Bool) (i : Info) (kids : List Node) (l : Loc) (hl : i.loc = some l)
    (h : (eol lines checkPars (.mk i kids)).1.truthy = true) :
    (eolAlways.contains i.kind = true ∨ l.endLn = l.ln ∨ (checkPars = true ∧ 0 < i.n) ∨ i.ptup = some true
      ∨ (i.ptup = none ∧ i.dms = some true))
    ∨ (isStrKind i.kind = true ∧ (strBranch lines l i.strLns).1.truthy = true)
    ∨ (finish lines (loop lines ⟨l.ln, l.col, false, false, []⟩ (selectSteps i (stepsOf lines kids))) (tailEnd i l)).1.truthy = true := by
  rw [eol] at h
  simp only [hl] at h
  by_cases h1 : eolAlways.contains i.kind = true
  · exact Or.inl (Or.inl h1)
  by_cases h2 : eolBlock.contains i.kind = true
  · rw [if_neg h1, if_pos h2] at h
    simp [EolRes.truthy] at h
  by_cases h3 : (l.endLn == l.ln) = true
  · exact Or.inl (Or.inr (Or.inl (by simpa using h3)))
  by_cases h4 : (checkPars && decide (0 < i.n)) = true
  · simp only [Bool.and_eq_true, decide_eq_true_eq] at h4
    exact Or.inl (Or.inr (Or.inr (Or.inl h4)))
  by_cases h5 : isStrKind i.kind = true
  · simp only [h1, h2, h3, h4, h5, if_true, if_false, Bool.false_eq_true] at h
    exact Or.inr (Or.inl ⟨h5, h⟩)
  by_cases h6 : (i.ptup == some true) = true
  · exact Or.inl (Or.inr (Or.inr (Or.inr (Or.inl (by simpa using h6)))))
  by_cases h7 : (i.ptup == none && i.dms == some true) = true
  · simp only [Bool.and_eq_true, beq_iff_eq] at h7
    exact Or.inl (Or.inr (Or.inr (Or.inr (Or.inr h7))))
  simp only [h1, h2, h3, h4, h5, h6, h7, if_false, Bool.false_eq_true] at h
  exact Or.inr (Or.inr h)

end Pfst.NeedPars
